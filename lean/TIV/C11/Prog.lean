/-!
# C11 — effect programs over image handles (copy of the `Prog` idea of DESIGN §2.3, specialised)

A tiny deep embedding of exactly the control flow the render / iterate / draw code uses around
Pillow objects: sequencing, `try … finally`, `try … except … raise`, `with X as v:`, and a
*fault plan* "the k-th Pillow call raises".

Local variables of the Python functions are registers holding handle ids; conditions that
depend on *data* (mode, size, alpha kind, style, method) are resolved when the program is
built from a path descriptor (`Res.lean`); conditions that depend on *object identity*
(`img is not self._source`, `frame_img is not prev_img`) are evaluated by the action itself.
-/
namespace TIV.C11

inductive Role
  | source    -- the PIL image supplied by the caller
  | opened    -- `Image.open(self._source)` by the library (holds a file descriptor)
  | derived   -- result of convert / resize / new / getchannel / frombytes (memory only)
  | raw       -- `open(path, "rb")` by the library (iterm2: native animation, read-from-file)
  | mem       -- `Image.open(io.BytesIO(...))` by `from_url` (memory only)
deriving DecidableEq, Repr

structure Handle where
  role : Role
  closed : Bool := false      -- `.close()` / `__exit__` was called on it by library code
  site : Nat := 0             -- where it was created (0 = ordinary; see `Res.lean`)
deriving DecidableEq, Repr

/-- local variables of `_renderer`/`_render_image`/`_get_render_data`/`convert_resize_img`/
    `_animate`/`_display_animated` that hold PIL objects -/
inductive Reg
  | img | prev | bg | chan | tmp | frameR | frameD | file | gen | img0
deriving DecidableEq, Repr

/-- Pillow entry points the library calls (names as in the event log) -/
inductive Call
  | open_ | seek | convert | resize | getdata | new | composite | getchannel | putalpha
  | tobytes | save | frombytes | nframes | seek0 | seekEof | isAnimated
deriving DecidableEq, Repr

def Call.name : Call → String
  | .open_ => "open" | .seek => "seek" | .convert => "convert" | .resize => "resize"
  | .getdata => "getdata" | .new => "new" | .composite => "alpha_composite"
  | .getchannel => "getchannel" | .putalpha => "putalpha" | .tobytes => "tobytes"
  | .save => "save" | .frombytes => "frombytes" | .nframes => "n_frames" | .seek0 => "seek"
  | .seekEof => "seek!EOFError" | .isAnimated => "is_animated"

inductive Exc
  | pil            -- whatever the faulted Pillow call raised
  | renderError    -- `RenderError` (convert/resize wrap their failure in it)
  | closedError    -- `TermImageError` from `_close_validated`
  | sizeError      -- `InvalidSizeError` / `ValueError` out of size validation
  | urlNotFound | unidentified | connection | typeError | valueError
  /- classes an injected failure can have besides `pil` (a ValueError), chosen for the way
     `ImageIterator.__next__` treats them -/
  | attrError          -- an AttributeError (message not about `_animator`)
  | attrAnimator       -- an AttributeError whose message ends in `'_animator'`
  | stopIter           -- a StopIteration raised inside the generator (PEP 479 → RuntimeError)
  | custom             -- some other Exception subclass
  | keyboardInterrupt  -- a BaseException: no `except Exception` clause sees it
  | runtimeError       -- "generator raised StopIteration"
  | stopIteration      -- what `__next__` raises for "exhausted or closed"
deriving DecidableEq, Repr

def Exc.name : Exc → String
  | .pil => "Fault" | .renderError => "RenderError" | .closedError => "TermImageError"
  | .sizeError => "InvalidSizeError" | .urlNotFound => "URLNotFoundError"
  | .unidentified => "UnidentifiedImageError" | .connection => "ConnectionError"
  | .typeError => "TypeError" | .valueError => "ValueError"
  | .attrError => "FaultAttr" | .attrAnimator => "FaultAttrAnimator" | .stopIter => "FaultStop"
  | .custom => "FaultCustom" | .keyboardInterrupt => "FaultKI" | .runtimeError => "RuntimeError"
  | .stopIteration => "StopIteration"

inductive Ev
  | call (c : Call) (on : Option Nat) (made : Option Nat)   -- a Pillow call: receiver, created object
  | fault (c : Call) (on : Option Nat)                      -- … that raised instead
  | close (h : Nat)                                         -- `.close()` / `__exit__` on a handle
  | useAfterClose (c : Call) (h : Nat)
deriving DecidableEq, Repr

/-- the image's size setting: a fixed size, or a dynamic `Size` member -/
inductive SizeSetting
  | fixed (id : Nat)
  | dynamic (id : Nat)
deriving DecidableEq, Repr

structure World where
  handles : List Handle := []
  regs : Reg → Option Nat := fun _ => none
  source : Option Nat := none          -- id of the caller's PIL image, if the image has one
  held : Option Nat := none            -- `ImageIterator._img`
  log : List Ev := []
  size : SizeSetting := .fixed 0       -- `image._size`
  savedSize : List SizeSetting := []     -- the `_size` locals of the active `_renderer` calls (innermost first)
  seekPos : Nat := 0                   -- `image._seek_position`
  savedSeek : Nat := 0
  imgClosed : Bool := false            -- `image._closed`
  temp : Bool := false                 -- the private temporary copy of a URL image exists
  isUrl : Bool := false                -- `_source_type is ImageSource.URL`
  faultExc : Exc := .pil               -- the class of the exception the planned fault raises

def World.reg (w : World) (r : Reg) : Option Nat := w.regs r
def World.setReg (w : World) (r : Reg) (v : Option Nat) : World :=
  { w with regs := fun r' => if r' = r then v else w.regs r' }
def World.alloc (w : World) (role : Role) (site : Nat := 0) : World × Nat :=
  ({ w with handles := w.handles ++ [{ role := role, site := site }] }, w.handles.length)
def World.isClosed (w : World) (h : Nat) : Bool := ((w.handles[h]?).map (·.closed)).getD false
def World.closeH (w : World) (h : Nat) : World :=
  { w with handles := w.handles.modify h (fun x => { x with closed := true }), log := w.log ++ [.close h] }
def World.emit (w : World) (e : Ev) : World := { w with log := w.log ++ [e] }

inductive Act
  /-- `Image.open(self._source)` / `PIL.Image.frombytes`/`Image.new`: a Pillow call creating an
      object from nothing the library holds -/
  | create (c : Call) (role : Role) (to : Reg) (site : Nat := 0)
  /-- `to = from.convert(...)` etc.: a Pillow call on `from` returning a new object -/
  | derive (c : Call) (frm to : Reg)
  /-- a Pillow call on the object in `r` that creates nothing (seek, getdata, tobytes, save, …) -/
  | pil (c : Call) (r : Reg)
  /-- `to = self._source` (the image was made from a PIL image) -/
  | useSource (to : Reg)
  | mov (dst src : Reg)
  | clear (r : Reg)
  /-- `self._close_image(r)`: close unless it is the instance's source -/
  | closeImage (r : Reg)
  /-- `if guard is not r: self._close_image(r)` -/
  | closeUnless (guard r : Reg)
  /-- `open(path, "rb")` (not a Pillow call) -/
  | rawOpen (to : Reg)
  /-- `__exit__` of `with <file object>:` -/
  | rawClose (r : Reg)
  | saveSize | setSizeTemp | restoreSize
  | saveSeek | setSeek (n : Nat) | restoreSeek
  /-- `self._img = img` (first statement of `_animate`) -/
  | hold (r : Reg)
  /-- `ImageIterator.close()`: `_animator.close(); del _animator; _close_image(_img); del _img` -/
  | iterClose
  /-- `BaseImage.close()` -/
  | imageClose
  /-- `mkstemp` + write + `_source_type = URL` at the end of `from_url` -/
  | mkTemp
  /-- the iterator object is garbage collected (`__del__` → `close()`, then its attributes go) -/
  | iterDrop
deriving Repr

/-- Pillow calls are the fault points -/
def Act.call? : Act → Option Call
  | .create c _ _ _ => some c
  | .derive c _ _ => some c
  | .pil c _ => some c
  | _ => none

def Act.receiver (w : World) : Act → Option Nat
  | .derive _ frm _ => w.reg frm
  | .pil _ r => w.reg r
  | _ => none

def closeImageH (w : World) (h : Option Nat) : World :=
  match h with
  | none => w
  | some i => if w.source = some i then w else w.closeH i      -- `if img is not self._source`

def noteUse (w : World) (c : Call) (h : Option Nat) : World :=
  match h with
  | some i => if w.isClosed i then w.emit (.useAfterClose c i) else w
  | none => w

def Act.apply (w : World) : Act → World
  | .create c role to site =>
    let (w, i) := w.alloc role site
    (w.setReg to (some i)).emit (.call c none (some i))
  | .derive c frm to =>
    let w := noteUse w c (w.reg frm)
    let src := w.reg frm
    let (w, i) := w.alloc .derived
    (w.setReg to (some i)).emit (.call c src (some i))
  | .pil c r => (noteUse w c (w.reg r)).emit (.call c (w.reg r) none)
  | .useSource to => w.setReg to w.source
  | .mov dst src => w.setReg dst (w.reg src)
  | .clear r => w.setReg r none
  | .closeImage r => closeImageH w (w.reg r)
  | .closeUnless guard r => if w.reg guard = w.reg r then w else closeImageH w (w.reg r)
  | .rawOpen to =>
    let (w, i) := w.alloc .raw
    w.setReg to (some i)
  | .rawClose r => match w.reg r with       -- `compressed_image.__exit__`: a file object, never an image
    | some i => if ((w.handles[i]?).map (·.role)) = some .raw then w.closeH i else w
    | none => w
  | .saveSize => { w with savedSize := w.size :: w.savedSize }
  | .setSizeTemp => match w.size with
    | .dynamic i => { w with size := .fixed (1000 + i) }     -- `self.set_size(_size)` computes a fixed size
    | .fixed _ => w
  | .restoreSize => match w.savedSize with
    | .dynamic i :: rest => { w with size := .dynamic i, savedSize := rest }   -- `if isinstance(_size, Size): self.size = _size`
    | _ :: rest => { w with savedSize := rest }
    | [] => w
  | .saveSeek => { w with savedSeek := w.seekPos }
  | .setSeek n => { w with seekPos := n }
  | .restoreSeek => { w with seekPos := w.savedSeek }
  | .hold r => { w with held := w.reg r }
  | .iterClose =>
    -- the generator (and its frame: `Reg.gen`) goes first, then `_close_image(self._img)`, `del self._img`
    let w := w.setReg .gen none
    match w.held with
    | none => w                                      -- AttributeError: `_img` was never set
    | some i => { closeImageH w (some i) with held := none }
  | .imageClose =>
    if w.imgClosed then w
    else { w with imgClosed := true, temp := if w.isUrl then false else w.temp }
  | .mkTemp => { w with temp := true, isUrl := true, imgClosed := false }
  | .iterDrop =>
    let w := w.setReg .gen none
    match w.held with
    | none => w
    | some i => { closeImageH w (some i) with held := none }

inductive Prog
  | done
  | act (a : Act)
  | seq (p q : Prog)
  | tryFinally (body fin : Prog)
  /-- `try: body  except Exception: handler; raise [wrap from e]` — `wrap = none` re-raises the
      exception that was caught; a `BaseException` (KeyboardInterrupt) is not caught -/
  | tryExcept (body handler : Prog) (wrap : Option Exc)
  /-- `ImageIterator.__next__` around `next(self._animator)`:
      ```
      except StopIteration: self.close(); raise StopIteration(…)          # the generator returned
      except AttributeError as e:
          if str(e).endswith("'_animator'"): raise StopIteration(…)       # `_animator` was deleted
          else: self.close(); raise
      except Exception: self.close(); raise
      ```
      (exhaustion itself is part of `eofBody`; a StopIteration raised *inside* the generator
      reaches `__next__` as RuntimeError) -/
  | nextGuard (body : Prog)
  | raise (e : Exc)
  /-- `with <create c> as to: body` — `__exit__` closes the object that was created, whatever
      `to` is bound to afterwards -/
  | withNew (c : Call) (role : Role) (to : Reg) (body : Prog)
deriving Repr

def Prog.block : List Prog → Prog
  | [] => .done
  | [p] => p
  | p :: ps => .seq p (Prog.block ps)

/-- result of a run: the world, what is left of the fault budget, the exception in flight -/
structure Outcome where
  w : World
  f : Option Nat
  exc : Option Exc

/-- `f = some k`: `k` more Pillow calls succeed, the next one raises (once). -/
def Prog.run : Prog → Option Nat → World → Outcome
  | .done, f, w => ⟨w, f, none⟩
  | .act a, f, w =>
    match a.call?, f with
    | some c, some 0 => ⟨w.emit (.fault c (a.receiver w)), none, some w.faultExc⟩
    | some _, some (k + 1) => ⟨a.apply w, some k, none⟩
    | _, f => ⟨a.apply w, f, none⟩
  | .seq p q, f, w =>
    let o := p.run f w
    match o.exc with
    | some e => ⟨o.w, o.f, some e⟩
    | none => q.run o.f o.w
  | .tryFinally body fin, f, w =>
    let o := body.run f w
    let o2 := fin.run o.f o.w
    ⟨o2.w, o2.f, match o2.exc with | some e => some e | none => o.exc⟩
  | .tryExcept body handler wrap, f, w =>
    let o := body.run f w
    match o.exc with
    | none => o
    | some .keyboardInterrupt => o
    | some e =>
      let o2 := handler.run o.f o.w
      ⟨o2.w, o2.f, match o2.exc with | some e2 => some e2 | none => some (wrap.getD e)⟩
  | .nextGuard body, f, w =>
    let o := body.run f w
    match o.exc with
    | none => o
    | some .keyboardInterrupt => o                                    -- not an Exception: nothing runs
    | some .attrAnimator => ⟨o.w, o.f, some .stopIteration⟩           -- taken for "closed": no close()
    | some .stopIter => ⟨Act.iterClose.apply o.w, o.f, some .runtimeError⟩
    | some e => ⟨Act.iterClose.apply o.w, o.f, some e⟩
  | .raise e, f, w => ⟨w, f, some e⟩
  | .withNew c role to body, f, w =>
    match f with
    | some 0 => ⟨w.emit (.fault c none), none, some w.faultExc⟩
    | _ =>
      let f' := match f with | some (k + 1) => some k | _ => f
      let (w1, i) := w.alloc role
      let w1 := (w1.setReg to (some i)).emit (.call c none (some i))
      let o := body.run f' w1
      ⟨o.w.closeH i, o.f, o.exc⟩

end TIV.C11
