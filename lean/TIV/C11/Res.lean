import TIV.C11.Prog
/-!
# C11 model, part 2 — the effect programs of the render / iterate / draw / construct code

Each definition mirrors one Python function, statement by statement, as a `Prog`
(`src/term_image/image/common.py`: `_renderer`, `_get_image`, `_get_render_data`,
`convert_resize_img`, `n_frames`, `ImageIterator.__init__/__next__/close/_animate`,
`_display_animated`, `from_file`, `from_url`, `close`; `block.py`/`kitty.py`/`iterm2.py`:
`_render_image`).  Data-dependent branch conditions are the fields of the path descriptors.
-/
namespace TIV.C11
open Prog

/-- how the image was made -/
inductive Src | file | pil
deriving DecidableEq, Repr

/-- the data-dependent conditions met by one pass through `_get_render_data` -/
structure RP where
  animated : Bool      -- `self._is_animated` (→ `img.seek(self._seek_position)`)
  frame : Bool         -- called by `ImageIterator` (*img* is reused for every frame)
  branchA : Bool       -- `alpha is None or img.mode in {"1","L","RGB","HSV","CMYK"}`
  alphaStr : Bool      -- `isinstance(alpha, str)` (matters only when `branchA = false`)
  needConvert : Bool   -- `img.mode != mode`
  needResize : Bool    -- `img.size != size`
deriving DecidableEq, Repr

/-- which `_render_image`, and which of its branches -/
inductive Variant
  | block
  | kitty
  | itermWhole                      -- also ANIM with `frame=True` or a non-animated image
  | itermLines (rows : Nat)
  | itermNativeFile                 -- ANIM, animated, not `frame`: compressed file opened
  | itermNativeSave                 -- … from a PIL image without a readable file: `img.save(…)`
  | itermReadFile                   -- the read-from-file optimisation (WHOLE)
deriving DecidableEq, Repr

/-- iterm2 `_render_image`: which branch a (method, animated, frame) request takes.
    `anim` with `frame=True` (ImageIterator, animations) or on a still image is WHOLE. -/
inductive Method | lines | whole | anim
deriving DecidableEq, Repr

inductive Eff | lines | whole | native
deriving DecidableEq, Repr

def effMethod (m : Method) (animated frame : Bool) : Eff :=
  match m with
  | .anim => if animated && !frame then .native else .whole
  | .whole => .whole
  | .lines => .lines

/-- one step of `convert_resize_img`:
    `prev_img = img; try: img = img.<c>(…) except Exception as e: raise RenderError(…) from e
     finally: if frame_img is not prev_img: self._close_image(prev_img)` -/
def convertStep (c : Call) : Prog :=
  block [act (.mov .prev .img),
    tryFinally (tryExcept (act (.derive c .img .img)) done (some .renderError))
      (act (.closeUnless .frameD .prev))]

def convertResize (p : RP) : Prog :=
  block [if p.needConvert then convertStep .convert else done,
         if p.needResize then convertStep .resize else done]

/-- `_get_render_data(img, alpha, size=…, pixel_data=…, round_alpha=…, frame=…)` -/
def getRenderData (p : RP) (pixelData roundAlpha : Bool) : Prog :=
  block [
    if p.frame then act (.mov .frameD .img) else act (.clear .frameD),   -- frame_img = img if frame else None
    if p.animated then act (.pil .seek .img) else done,                   -- img.seek(self._seek_position)
    if p.branchA then
      block [convertResize p, if pixelData then act (.pil .getdata .img) else done]
    else
      block [convertResize p,
        if p.alphaStr then
          block [act (.create .new .derived .bg),        -- bg = Image.new("RGBA", img.size, alpha)
                 act (.pil .composite .bg),              -- bg.alpha_composite(img)
                 act (.closeUnless .frameD .img),        -- if frame_img is not img: self._close_image(img)
                 act (.derive .convert .bg .img)]        -- img = bg.convert("RGB")
        else
          block [if pixelData then act (.pil .getdata .img) else done,     -- a = list(img.getdata(3))
                 if roundAlpha then
                   block [act (.create .new .derived .bg),
                          act (.pil .composite .bg),
                          act (.derive .getchannel .img .chan),  -- img.getchannel("A")
                          act (.pil .putalpha .bg),
                          act (.closeUnless .frameD .img),
                          act (.mov .img .bg)]
                 else done],
        if pixelData then
          (if p.alphaStr then act (.pil .getdata .img)                  -- img.mode == "RGB"
           else block [act (.derive .convert .img .tmp), act (.pil .getdata .tmp)])
        else done]]

/-- the `frame_img = img if frame else None` of the three `_render_image`s -/
def setFrameR (p : RP) : Prog := if p.frame then act (.mov .frameR .img) else act (.clear .frameR)

def linesLoop : Nat → Prog
  | 0 => done
  | n + 1 => seq (withNew .frombytes .derived .img (act (.pil .save .img))) (linesLoop n)

/-- what kitty's `_render_image` and iterm2's LINES branch have in common:
    `frame_img = …; img = self._get_render_data(…)[0]; raw = img.tobytes();
     if frame_img is not img: self._close_image(img)` -/
def rawPixelsCore (p : RP) : Prog :=
  block [setFrameR p, getRenderData p false false, act (.pil .tobytes .img), act (.closeUnless .frameR .img)]

/-- `_render_image(img, alpha, frame=…, …)` of the style/branch `v` -/
def renderImage (v : Variant) (p : RP) : Prog :=
  match v with
  | .block =>
    block [setFrameR p, getRenderData p true true, act (.closeUnless .frameR .img)]
  | .kitty => rawPixelsCore p
  | .itermWhole =>
    block [setFrameR p, getRenderData p false false, act (.pil .save .img), act (.closeUnless .frameR .img)]
  | .itermLines rows => seq (rawPixelsCore p) (linesLoop rows)
  | .itermNativeFile =>
    block [act (.rawOpen .file), act (.closeImage .img), tryFinally done (act (.rawClose .file))]
  | .itermNativeSave =>
    -- try: img.save(…) except ValueError as e: self._close_image(img); raise RenderError(…) from e
    block [tryExcept (act (.pil .save .img)) (act (.closeImage .img)) (some .renderError),
           act (.closeImage .img)]
  | .itermReadFile =>
    block [act (.rawOpen .file), act (.clear .frameR), act (.closeUnless .frameR .img),
           tryFinally done (act (.rawClose .file))]

/-- `self._get_image()` (decorated with `_close_validated`) into register `to` -/
def getImage (src : Src) (imageClosed : Bool) (to : Reg) (site : Nat := 0) : Prog :=
  if imageClosed then raise .closedError
  else match src with
    | .file => act (.create .open_ .opened to site)
    | .pil => act (.useSource to)

/-- `_renderer(renderer, …)`: `_size = self._size; try: [set_size(_size)]; [size validation];
    return renderer(self._get_image(), …) finally: if isinstance(_size, Size): self.size = _size` -/
def renderer (sizeOk : Bool) (body : Prog) : Prog :=
  seq (act .saveSize)
    (tryFinally (block [act .setSizeTemp, if sizeOk then done else raise .sizeError, body]) (act .restoreSize))

/-- `format(image, spec)` / `str(image)` / a non-animated `draw()` -/
def fmtOp (src : Src) (imageClosed sizeOk : Bool) (v : Variant) (p : RP) : Prog :=
  renderer sizeOk (seq (getImage src imageClosed .img) (renderImage v p))

/-- `image.n_frames` while `_n_frames` is unknown:
    `img = self._get_image(); try: self._n_frames = img.n_frames finally: self._close_image(img)` -/
def nFramesOp (src : Src) (imageClosed : Bool) (isProp : Bool) : Prog :=
  seq (getImage src imageClosed .img)
    (tryFinally (if isProp then act (.pil .nframes .img) else done) (act (.closeImage .img)))

/-- `ImageIterator.__init__`: [`image.n_frames`]; `image._renderer(self._animate, …)` creates the
    generator, whose frame keeps the opened image (`Reg.gen`) until it runs -/
def iterNew (src : Src) (needN nProp : Bool) : Prog :=
  seq (if needN then nFramesOp src false nProp else done)
    (renderer true (getImage src false .gen 1))

/-- one frame produced by `_animate`: `image._seek_position = n; image._render_image(img, alpha, frame=True, …)` -/
def frameBody (v : Variant) (n : Nat) (p : RP) : Prog :=
  block [act (.setSeek n), act (.mov .img .gen), renderImage v { p with frame := true, animated := true }]

/-- running off the end of the last pass: `img.seek(n)` raises `EOFError`, `_seek_position = 0`,
    and (`if img is image._source`) `img.seek(0)` -/
def eofBody (src : Src) (n : Nat) : Prog :=
  block [act (.setSeek n), act (.mov .img .gen), act (.mov .frameR .img), act (.mov .frameD .img),
         act (.pil .seekEof .img), act (.setSeek 0),
         match src with | .pil => act (.pil .seek0 .gen) | .file => done]

/-- `ImageIterator.__next__`: `try: return next(self._animator) … except Exception: self.close(); raise`.
    `first`: the generator starts (`self._img = img`). -/
def iterNext (first : Bool) (body : Prog) : Prog :=
  nextGuard (seq (if first then act (.hold .gen) else done) body)

/-- how a standalone iteration ends -/
inductive Ending
  | exhaust      -- iterated to the end (StopIteration → close())
  | close        -- `iterator.close()` early
  | drop         -- abandoned: garbage collected
  | imgCloseThenClose   -- `image.close()` first, then `iterator.close()`, the iterator kept referenced
deriving DecidableEq, Repr

def iterFrames (v : Variant) : Nat → Bool → List RP → Prog
  | _, _, [] => done
  | n, first, p :: ps => seq (iterNext first (frameBody v n p)) (iterFrames v (n + 1) false ps)

/-- `it = ImageIterator(image, 1, spec, …); next(it) × frames; <ending>` -/
def iterOp (src : Src) (needN nProp : Bool) (v : Variant) (frames : List RP) (e : Ending) : Prog :=
  block [iterNew src needN nProp,
    iterFrames v 0 true frames,
    match e with
    | .exhaust => block [iterNext frames.isEmpty (eofBody src frames.length), act .iterClose]
    | .close => act .iterClose
    | .drop => act .iterDrop
    | .imgCloseThenClose => block [act .imageClose, act .iterClose]]

def plainFrames (v : Variant) : Nat → List RP → Prog
  | _, [] => done
  | n, p :: ps => seq (frameBody v n p) (plainFrames v (n + 1) ps)

/-- an animated `draw()` with `repeat=1`: `_renderer(render, animated=True)` →
    `_display_animated(img, …)`:
    ```
    prev_seek_pos = self._seek_position
    image_it = ImageIterator(self, repeat, "", cached)          # opens a second image
    image_it._animator = image_it._animate(img, alpha, fmt, style_args)
    try: … frames …
    except Exception: self._handle_interrupted_draw(); raise
    finally: image_it.close(); self._close_image(img); self._seek_position = prev_seek_pos
    ``` -/
def drawAnimOp (src : Src) (sizeOk needN nProp : Bool) (v : Variant) (frames : List RP) : Prog :=
  renderer sizeOk (block [
    getImage src false .img0,
    act .saveSeek,
    iterNew src needN nProp,
    act (.mov .gen .img0),
    tryFinally
      (tryExcept (block [act (.hold .gen), plainFrames v 0 frames, eofBody src frames.length]) done none)
      (block [act .iterClose, act (.closeImage .img0), act .restoreSeek])])

/-- `from_file`: `img = Image.open(filepath); with img: new = cls(img, **kwargs)`; the constructor
    reads `image.is_animated` (computed once per object for GIF: a cached property) -/
def fromFileOp (animProp : Bool) (initOk : Bool) : Prog :=
  withNew .open_ .opened .img
    -- `__init__`: `self.set_size(width, height)` (may raise) comes before `image.is_animated`
    (block [if initOk then done else raise .sizeError,
            if animProp then act (.pil .isAnimated .img) else done])

/-- what the HTTP layer answered -/
inductive Http | ok | notFound | connError | badType | badUrl
deriving DecidableEq, Repr

/-- `from_url`: `response = requests.get(url); if 404: raise URLNotFoundError;
    try: new = cls(Image.open(io.BytesIO(response.content)), **kwargs) except UnidentifiedImageError: raise;
    fd, filepath = mkstemp(…); os.write; os.close; new._source = filepath; new._source_type = URL`.
    The image opened from memory is referenced by nothing once `_source` is replaced. -/
def fromUrlOp (h : Http) (identifiable animProp initOk : Bool) : Prog :=
  match h with
  | .badType => raise .typeError       -- not isinstance(url, str)
  | .badUrl => raise .valueError       -- not all(urlparse(url)[:3])
  | .connError => raise .connection
  | .notFound => raise .urlNotFound
  | .ok =>
    block [
      tryExcept
        (block [if identifiable then act (.create .open_ .mem .img) else raise .unidentified,
                if initOk then done else raise .sizeError,
                if animProp then act (.pil .isAnimated .img) else done])
        done none,
      act .mkTemp]

/-- `BaseImage.close()` (idempotent) -/
def closeOp : Prog := act .imageClose

/-! ## several URL-sourced images at once: the temp directory -/

/-- an image made by `from_url`: the name of its private copy, `_closed` -/
structure UImg where
  name : Nat
  closed : Bool
deriving DecidableEq, Repr

/-- the library's temp directory and the URL images made so far -/
structure UrlSt where
  next : Nat := 0               -- `mkstemp`: every call returns a name never returned before
  files : List Nat := []        -- names present in `_TEMP_DIR`
  imgs : List UImg := []
deriving Repr

inductive UOp
  /-- `from_url(url)`; `key` identifies the URL's last path component, `ok` whether download and
      construction succeed.  `mkstemp("-" + basename, dir=_TEMP_DIR)` — the name is fresh whatever
      the key is. -/
  | open_ (key : Nat) (ok : Bool)
  /-- `str(image)`: `_get_image` opens `self._source` -/
  | render (i : Nat)
  /-- `image.close()` / garbage collection of the image -/
  | close (i : Nat)
deriving Repr

def urlStep (st : UrlSt) : UOp → UrlSt × String
  | .open_ _ ok =>
    if ok then
      ({ next := st.next + 1, files := st.next :: st.files, imgs := st.imgs ++ [⟨st.next, false⟩] }, "ok")
    else (st, "err")
  | .render i =>
    match st.imgs[i]? with
    | none => (st, "noimg")
    | some im =>
      if im.closed then (st, "err TermImageError")
      else if st.files.contains im.name then (st, "ok")
      else (st, "err FileNotFoundError")
  | .close i =>
    match st.imgs[i]? with
    | none => (st, "noimg")
    | some im =>
      if im.closed then (st, "ok")
      else ({ st with files := st.files.filter (· != im.name),            -- os.remove(self._source)
                      imgs := st.imgs.set i { im with closed := true } }, "ok")

def urlRun (st : UrlSt) : List UOp → UrlSt
  | [] => st
  | op :: ops => urlRun (urlStep st op).1 ops

/-- per operation: its answer and, for every image, whether its copy exists -/
def urlTrace (st : UrlSt) : List UOp → List (String × List Bool)
  | [] => []
  | op :: ops =>
    let r := urlStep st op
    (r.2, r.1.imgs.map (fun im => r.1.files.contains im.name)) :: urlTrace r.1 ops

/-! ## quiescence: every Python frame is gone; what is still referenced by a live library object -/

def World.reachable (w : World) (h : Nat) : Bool :=
  w.held = some h || w.source = some h || w.reg .gen = some h

def World.quiesce (w : World) : World :=
  { w with regs := fun r => if r = .gen then w.regs .gen else none }

end TIV.C11
