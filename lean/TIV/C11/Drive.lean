import TIV.Common.Wire
import TIV.C11.Model
/-! driver ops of C11 -/
namespace TIV.C11
open TIV.Wire

def pOp : P Op := do
  let t ← word
  match t with
  | "n" => pure .next
  | "s" => do let p ← int; pure (.seek p)
  | "sx" => pure .seekBad
  | "d" => pure .render
  | "p" => do let k ← nat; pure (.pilSeek k)
  | "c" => pure .close
  | "z" => do let s ← nat; pure (.setSize s)
  | "k" => do let p ← int; pure (.imgSeek p)
  | _ => failure

def fmtLoop : Option Int → String
  | none => "none"
  | some i => toString i

def fmtObs (o : Obs (Nat × Nat)) : String :=
  (match o.ans with
    | .frame (some (k, s)) => s!"f {k} {s}"
    | .frame none => "f ?"
    | .stop => "stop"
    | .ok => "ok"
    | .err e => "err " ++ e) ++ s!" {o.tell} {fmtLoop o.loopNo}"

/-! ### resources -/

def pSrc : P Src := do
  let t ← word
  match t with
  | "file" => pure .file
  | "pil" => pure .pil
  | _ => failure

def pRP : P RP := do
  let animated ← bool; let frame ← bool; let branchA ← bool; let alphaStr ← bool
  let needConvert ← bool; let needResize ← bool
  pure { animated, frame, branchA, alphaStr, needConvert, needResize }

def pVariant : P Variant := do
  let t ← word
  match t with
  | "block" => pure .block
  | "kitty" => pure .kitty
  | "iwhole" => pure .itermWhole
  | "ilines" => do let n ← nat; pure (.itermLines n)
  | "inative" => pure .itermNativeFile
  | "isave" => pure .itermNativeSave
  | "iread" => pure .itermReadFile
  | _ => failure

def pEnding : P Ending := do
  let t ← word
  match t with
  | "exhaust" => pure .exhaust
  | "close" => pure .close
  | "drop" => pure .drop
  | "imgclose" => pure .imgCloseThenClose
  | _ => failure

def pHttp : P Http := do
  let t ← word
  match t with
  | "ok" => pure .ok
  | "notfound" => pure .notFound
  | "connerr" => pure .connError
  | "badtype" => pure .badType
  | "badurl" => pure .badUrl
  | _ => failure

/-- a scenario: the program, whether the image has a PIL source, dynamic size, start seek position -/
structure Scn where
  prog : Prog
  pilSrc : Bool
  dyn : Bool := false
  seek0 : Nat := 0

def pScn : P Scn := do
  let t ← word
  match t with
  | "fmt" => do
    let src ← pSrc; let closed ← bool; let sizeOk ← bool; let dyn ← bool; let seek0 ← nat
    let v ← pVariant; let p ← pRP
    pure { prog := fmtOp src closed sizeOk v p, pilSrc := src == .pil, dyn, seek0 }
  | "nf" => do
    let src ← pSrc; let closed ← bool; let prop ← bool
    pure { prog := nFramesOp src closed prop, pilSrc := src == .pil }
  | "iter" => do
    let src ← pSrc; let needN ← bool; let nProp ← bool; let v ← pVariant; let e ← pEnding; let dyn ← bool
    let frames ← listOf pRP
    pure { prog := iterOp src needN nProp v frames e, pilSrc := src == .pil, dyn }
  | "draw" => do
    let src ← pSrc; let sizeOk ← bool; let needN ← bool; let nProp ← bool; let dyn ← bool; let seek0 ← nat
    let v ← pVariant; let frames ← listOf pRP
    pure { prog := drawAnimOp src sizeOk needN nProp v frames, pilSrc := src == .pil, dyn, seek0 }
  | "file" => do
    let animProp ← bool; let initOk ← bool
    pure { prog := fromFileOp animProp initOk, pilSrc := false }
  | "url" => do
    let h ← pHttp; let ident ← bool; let animProp ← bool; let initOk ← bool; let closes ← nat
    pure { prog := Prog.seq (fromUrlOp h ident animProp initOk) (Prog.block (List.replicate closes closeOp)),
           pilSrc := false }
  | _ => failure

def roleLetter : Role → String
  | .source => "s" | .opened => "o" | .derived => "d" | .raw => "r" | .mem => "m"

def lab (w : World) (i : Nat) : String :=
  match w.handles[i]? with
  | some h => roleLetter h.role ++ toString i
  | none => "?" ++ toString i

def labO (w : World) : Option Nat → String
  | some i => " " ++ lab w i
  | none => ""

def fmtEv (w : World) : Ev → String
  | .call c on made => c.name ++ labO w on ++ labO w made
  | .fault c on => "FAULT " ++ (if c == .seekEof then "seek" else c.name) ++ labO w on
  | .close h => "close " ++ lab w h
  | .useAfterClose c h => "USE-AFTER-CLOSE " ++ c.name ++ " " ++ lab w h

def initWorld (s : Scn) : World :=
  let w : World := { size := if s.dyn then .dynamic 1 else .fixed 0, seekPos := s.seek0 }
  if s.pilSrc then { w with handles := [{ role := .source }], source := some 0 } else w

def fmtSize : SizeSetting → String
  | .fixed i => s!"fixed{i}"
  | .dynamic i => s!"dyn{i}"

def summary (w : World) : String :=
  let hs := (List.range w.handles.length).map fun i =>
    lab w i ++ ":" ++ (if w.isClosed i then "X" else if w.reachable i then "L" else "g")
  String.intercalate " " hs

def pCls : P Exc := do
  let t ← word
  match t with
  | "value" => pure .pil
  | "attr" => pure .attrError
  | "stop" => pure .stopIter
  | "custom" => pure .custom
  | "ki" => pure .keyboardInterrupt
  | _ => failure

def pUOp : P UOp := do
  let t ← word
  match t with
  | "o" => do let k ← nat; let ok ← bool; pure (.open_ k ok)
  | "r" => do let i ← nat; pure (.render i)
  | "c" => do let i ← nat; pure (.close i)
  | _ => failure

def fmtFlags (bs : List Bool) : String :=
  if bs.isEmpty then "-" else String.join (bs.map fmtBool)

def runScn (s : Scn) (fault : Option Nat) (cls : Exc := .pil) : String :=
  let w0 := { initWorld s with faultExc := cls }
  let o := s.prog.run fault w0
  let w := o.w.quiesce
  let uac := w.log.any (fun e => match e with | .useAfterClose _ _ => true | _ => false)
  String.intercalate "|" [
    String.intercalate "; " (w.log.map (fmtEv w)),
    (match o.exc with | some e => e.name | none => "-"),
    summary w,
    "size=" ++ fmtSize w.size,
    s!"seek={w.seekPos}",
    "temp=" ++ fmtBool w.temp,
    "uac=" ++ fmtBool uac]

def pMethod : P Method := do
  let t ← word
  match t with
  | "lines" => pure .lines
  | "whole" => pure .whole
  | "anim" => pure .anim
  | _ => failure

def handler : Handler := fun op args =>
  match op with
  | "iter" => Wire.run (do
      let _style ← word; let _spec ← word
      let nf ← nat; let rep ← int; let isBool ← bool; let b ← bool; let n ← nat
      let size0 ← nat; let seek0 ← nat
      let ops ← listOf pOp
      let c : Cfg := { nf, rep, cached := effCached nf rep isBool b n }
      let obs := TIV.C11.run c (fun k s => (k, s)) (init seek0 size0) ops
      pure ("ok " ++ String.intercalate "|" (obs.map fmtObs))) args
  | "cached" => Wire.run (do
      let nf ← nat; let rep ← int; let isBool ← bool; let b ← bool; let n ← nat
      pure ("ok " ++ fmtBool (effCached nf rep isBool b n))) args
  | "res" => Wire.run (do
      let s ← pScn; let fault ← optOf nat
      pure ("ok " ++ runScn s fault)) args
  | "ictor" => Wire.run (do
      let isImage ← bool; let animated ← bool; let r ← word; let specIsStr ← bool; let specValid ← bool; let cw ← word
      let rep ← (match r with | "ok" => pure RepArg.ok | "zero" => pure .zero | "notint" => pure .notInt | _ => failure : P RepArg)
      let cached ← (match cw with | "ok" => pure CachedArg.ok | "notint" => pure .notInt | "nonpos" => pure .nonPos
                                  | _ => failure : P CachedArg)
      pure (match initCheck isImage animated rep specIsStr specValid cached with
        | some e => "err " ++ e | none => "ok")) args
  | "bctor" => Wire.run (do
      let isPil ← bool; let nonNull ← bool
      pure (match imageCheck isPil nonNull with | some e => "err " ++ e | none => "ok")) args
  | "resx" => Wire.run (do
      let s ← pScn; let fault ← optOf nat; let cls ← pCls
      pure ("ok " ++ runScn s fault cls)) args
  | "urls" => Wire.run (do
      let ops ← listOf pUOp
      pure ("ok " ++ String.intercalate "|"
        ((urlTrace {} ops).map fun (a, fl) => a ++ " " ++ fmtFlags fl))) args
  | "meth" => Wire.run (do
      let m ← pMethod; let animated ← bool; let frame ← bool
      pure ("ok " ++ (match effMethod m animated frame with
        | .lines => "lines" | .whole => "whole" | .native => "native"))) args
  | _ => none

end TIV.C11
