import TIV.C11.Proofs
/-! C11 — fault plans: a budget beyond the number of Pillow calls is no fault; the exhaustive check of
    "what the render opened is closed when it returns or raises RenderError" over the finite path space -/
namespace TIV.C11
open Prog

/-- an upper bound of the number of Pillow calls a program makes -/
def Prog.maxCalls : Prog → Nat
  | .done => 0
  | .act a => if a.call?.isSome then 1 else 0
  | .seq p q => p.maxCalls + q.maxCalls
  | .tryFinally b fin => b.maxCalls + fin.maxCalls
  | .tryExcept b h _ => b.maxCalls + h.maxCalls
  | .raise _ => 0
  | .withNew _ _ _ b => 1 + b.maxCalls
  | .nextGuard b => b.maxCalls

theorem run_none_f (p : Prog) : ∀ w : World, (p.run none w).f = none := by
  induction p with
  | done => intro w; rfl
  | act a => intro w; simp only [Prog.run]; split <;> first | rfl | (rename_i h; exact absurd h (by simp))
  | seq p q ihp ihq =>
    intro w; simp only [Prog.run]
    split
    · exact ihp w
    · rw [ihp w]; exact ihq _
  | tryFinally b fin ihb ihf => intro w; simp only [Prog.run]; rw [ihb w]; exact ihf _
  | tryExcept b h x ihb ihh =>
    intro w; simp only [Prog.run]
    split
    · exact ihb w
    · exact ihb w
    · show (h.run _ _).f = none; rw [ihb w]; exact ihh _
  | nextGuard b ih =>
    intro w; simp only [Prog.run]
    split <;> exact ih w
  | raise e => intro w; rfl
  | withNew c r t b ih => intro w; simp only [Prog.run]; exact ih _

/-- a fault planned beyond the last Pillow call never happens -/
theorem run_budget (p : Prog) : ∀ (k : Nat) (w : World), p.maxCalls ≤ k →
    ∃ k', p.run (some k) w = ⟨(p.run none w).w, some k', (p.run none w).exc⟩ ∧ k ≤ k' + p.maxCalls := by
  induction p with
  | done => intro k w _; exact ⟨k, rfl, by omega⟩
  | raise e => intro k w _; exact ⟨k, rfl, by omega⟩
  | act a =>
    intro k w hk
    cases hc : a.call? with
    | none => exact ⟨k, by simp [Prog.run, hc], by omega⟩
    | some c =>
      simp only [Prog.maxCalls, hc, Option.isSome_some, if_true] at hk
      obtain ⟨k0, rfl⟩ : ∃ k0, k = k0 + 1 := ⟨k - 1, by omega⟩
      exact ⟨k0, by simp [Prog.run, hc], by simp [Prog.maxCalls, hc]⟩
  | seq p q ihp ihq =>
    intro k w hk
    simp only [Prog.maxCalls] at hk
    obtain ⟨k1, h1, hk1⟩ := ihp k w (by omega)
    cases he : (p.run none w).exc with
    | some e =>
      refine ⟨k1, ?_, by simp only [Prog.maxCalls]; omega⟩
      simp only [Prog.run, h1, he]
    | none =>
      obtain ⟨k2, h2, hk2⟩ := ihq k1 (p.run none w).w (by omega)
      refine ⟨k2, ?_, by simp only [Prog.maxCalls]; omega⟩
      simp only [Prog.run, h1, he, run_none_f p w, h2]
  | tryFinally b fin ihb ihf =>
    intro k w hk
    simp only [Prog.maxCalls] at hk
    obtain ⟨k1, h1, hk1⟩ := ihb k w (by omega)
    obtain ⟨k2, h2, hk2⟩ := ihf k1 (b.run none w).w (by omega)
    refine ⟨k2, ?_, by simp only [Prog.maxCalls]; omega⟩
    simp only [Prog.run, h1, run_none_f b w, h2]
  | tryExcept b h x ihb ihh =>
    intro k w hk
    simp only [Prog.maxCalls] at hk
    obtain ⟨k1, h1, hk1⟩ := ihb k w (by omega)
    cases he : (b.run none w).exc with
    | none =>
      refine ⟨k1, ?_, by simp only [Prog.maxCalls]; omega⟩
      simp only [Prog.run, h1, he]
    | some e =>
      by_cases hki : e = .keyboardInterrupt
      · subst hki
        refine ⟨k1, ?_, by simp only [Prog.maxCalls]; omega⟩
        simp only [Prog.run, h1, he]
      · obtain ⟨k2, h2, hk2⟩ := ihh k1 (b.run none w).w (by omega)
        refine ⟨k2, ?_, by simp only [Prog.maxCalls]; omega⟩
        cases e <;> first
          | exact absurd rfl hki
          | simp only [Prog.run, h1, he, run_none_f b w, h2]
  | nextGuard b ih =>
    intro k w hk
    simp only [Prog.maxCalls] at hk
    obtain ⟨k1, h1, hk1⟩ := ih k w hk
    refine ⟨k1, ?_, by simp only [Prog.maxCalls]; omega⟩
    cases he : (b.run none w).exc with
    | none => simp only [Prog.run, h1, he]
    | some e => cases e <;> simp only [Prog.run, h1, he]
  | withNew c r t b ih =>
    intro k w hk
    simp only [Prog.maxCalls] at hk
    obtain ⟨k0, rfl⟩ : ∃ k0, k = k0 + 1 := ⟨k - 1, by omega⟩
    obtain ⟨k1, h1, hk1⟩ := ih k0 (((w.alloc r).1.setReg t (some (w.alloc r).2)).emit (.call c none (some (w.alloc r).2)))
      (by omega)
    refine ⟨k1, ?_, by simp only [Prog.maxCalls]; omega⟩
    simp only [Prog.run, h1]

/-! ### the exhaustive part -/

/-- at exit — normal, or by the `RenderError` a failing conversion / resize / re-encoding is turned
    into — everything the render opened from a path has been closed explicitly -/
def okAtExit (o : Outcome) : Bool :=
  !(o.exc == none || o.exc == some Exc.renderError) || o.w.openedAllClosed

def chkPath (src : Src) (sizeOk : Bool) (v : Variant) (p : RP) : Bool :=
  okAtExit ((fmtOp src false sizeOk v p).run none (initW src)) &&
  (List.range (fmtOp src false sizeOk v p).maxCalls).all
    (fun k => okAtExit ((fmtOp src false sizeOk v p).run (some k) (initW src)))

def allBool (g : Bool → Bool) : Bool := g true && g false
theorem allBool_spec (g : Bool → Bool) (h : allBool g = true) (b : Bool) : g b = true := by
  cases b <;> simp_all [allBool]

def allSrc (g : Src → Bool) : Bool := g .file && g .pil
theorem allSrc_spec (g : Src → Bool) (h : allSrc g = true) (s : Src) : g s = true := by
  cases s <;> simp_all [allSrc]

def allVar (g : Variant → Bool) : Bool :=
  g .block && g .kitty && g .itermWhole && g .itermNativeFile && g .itermNativeSave && g .itermReadFile
theorem allVar_spec (g : Variant → Bool) (h : allVar g = true) (v : Variant) (hv : v.isLines = false) : g v = true := by
  cases v <;> simp_all [allVar, Variant.isLines]

def chkEverything : Bool :=
  allSrc fun src => allBool fun sizeOk => allVar fun v => allBool fun a => allBool fun c => allBool fun d =>
    allBool fun e => allBool fun g => chkPath src sizeOk v ⟨a, false, c, d, e, g⟩

theorem chkEverything_true : chkEverything = true := by decide +kernel

theorem chkPath_all (src : Src) (sizeOk : Bool) (v : Variant) (p : RP) (hv : v.isLines = false)
    (hf : p.frame = false) : chkPath src sizeOk v p = true := by
  obtain ⟨a, b, c, d, e, g⟩ := p
  simp only at hf
  subst hf
  have h := chkEverything_true
  exact allBool_spec _ (allBool_spec _ (allBool_spec _ (allBool_spec _ (allBool_spec _
    (allVar_spec _ (allBool_spec _ (allSrc_spec _ h src) sizeOk) v hv) a) c) d) e) g

/-- every fault plan, every path but iterm2 LINES -/
theorem okAtExit_nolines (src : Src) (sizeOk : Bool) (v : Variant) (p : RP) (hv : v.isLines = false)
    (hf : p.frame = false) (f : Option Nat) :
    okAtExit ((fmtOp src false sizeOk v p).run f (initW src)) = true := by
  have h := chkPath_all src sizeOk v p hv hf
  simp only [chkPath, Bool.and_eq_true, List.all_eq_true, List.mem_range] at h
  cases f with
  | none => exact h.1
  | some k =>
    by_cases hk : k < (fmtOp src false sizeOk v p).maxCalls
    · exact h.2 k hk
    · obtain ⟨k', he, _⟩ := run_budget (fmtOp src false sizeOk v p) k (initW src) (by omega)
      have h1 := h.1
      simp only [okAtExit] at h1 ⊢
      rw [he]; exact h1

/-- every fault plan, every path -/
theorem okAtExit_all (src : Src) (sizeOk : Bool) (v : Variant) (p : RP) (hf : p.frame = false) (f : Option Nat) :
    okAtExit ((fmtOp src false sizeOk v p).run f (initW src)) = true := by
  cases v with
  | itermLines rows =>
    have hk := okAtExit_nolines src sizeOk .kitty p rfl hf f
    have hrs : ∀ w : World, (Act.restoreSize.apply w).openedAllClosed = w.openedAllClosed :=
      fun w => oac_handles _ _ (by simp only [Act.apply]; split <;> rfl)
    simp only [fmtOp] at hk ⊢
    rw [renderer_outcome] at hk ⊢
    simp only [renderImage] at hk ⊢
    simp only [okAtExit, hrs] at hk ⊢
    rw [run_seq4, run_seq_def]
    generalize (Prog.seq (if sizeOk then Prog.done else Prog.raise .sizeError)
      (Prog.seq (getImage src false .img) (rawPixelsCore p))).run f
        (Act.setSizeTemp.apply (Act.saveSize.apply (initW src))) = o at hk ⊢
    cases he : o.exc with
    | some e => simpa [he] using hk
    | none =>
      simp only [he] at hk ⊢
      have hoc : o.w.openedAllClosed = true := by simpa using hk
      simp [linesLoop_oac rows _ _ hoc]
  | block => exact okAtExit_nolines src sizeOk _ p rfl hf f
  | kitty => exact okAtExit_nolines src sizeOk _ p rfl hf f
  | itermWhole => exact okAtExit_nolines src sizeOk _ p rfl hf f
  | itermNativeFile => exact okAtExit_nolines src sizeOk _ p rfl hf f
  | itermNativeSave => exact okAtExit_nolines src sizeOk _ p rfl hf f
  | itermReadFile => exact okAtExit_nolines src sizeOk _ p rfl hf f

end TIV.C11
