import TIV.C11.Res
/-! C11 — the copies of several URL-sourced images do not interfere -/
namespace TIV.C11

/-- image `k`'s copy is named `k`, exists exactly while the image is open; nothing else is in the directory -/
def UrlInv (st : UrlSt) : Prop :=
  st.next = st.imgs.length ∧
  (∀ k im, st.imgs[k]? = some im → im.name = k ∧ (k ∈ st.files ↔ im.closed = false)) ∧
  (∀ n ∈ st.files, n < st.next)

theorem urlInv_init : UrlInv {} := by
  refine ⟨rfl, ?_, ?_⟩
  · intro k im h; simp at h
  · intro n h; simp at h

theorem urlInv_step (st : UrlSt) (op : UOp) (h : UrlInv st) : UrlInv (urlStep st op).1 := by
  obtain ⟨hn, hk, hf⟩ := h
  cases op with
  | open_ key ok =>
    cases ok with
    | false => exact ⟨hn, hk, hf⟩
    | true =>
      simp only [urlStep, if_true]
      refine ⟨by simp [hn], ?_, ?_⟩
      · intro k im hget
        by_cases hlt : k < st.imgs.length
        · rw [List.getElem?_append_left hlt] at hget
          obtain ⟨h1, h2⟩ := hk k im hget
          refine ⟨h1, ?_⟩
          rw [List.mem_cons, ← h2]
          constructor
          · rintro (he | hm)
            · omega
            · exact hm
          · exact Or.inr
        · have hkeq : k = st.imgs.length := by
            have := (List.getElem?_eq_some_iff.mp hget).1
            simp at this; omega
          subst hkeq
          simp at hget
          subst hget
          simp [hn]
      · intro n hm
        show n < st.next + 1
        rw [List.mem_cons] at hm
        rcases hm with he | hm
        · omega
        · have := hf n hm; omega
  | render i =>
    simp only [urlStep]
    split
    · exact ⟨hn, hk, hf⟩
    · split
      · exact ⟨hn, hk, hf⟩
      · split <;> exact ⟨hn, hk, hf⟩
  | close i =>
    simp only [urlStep]
    split
    · exact ⟨hn, hk, hf⟩
    · rename_i im hi
      split
      · exact ⟨hn, hk, hf⟩
      · rename_i hopen
        obtain ⟨hname, _⟩ := hk i im hi
        refine ⟨by simp [hn], ?_, ?_⟩
        · intro k im' hget
          rw [List.getElem?_set] at hget
          by_cases hik : i = k
          · subst hik
            have hlt : i < st.imgs.length := (List.getElem?_eq_some_iff.mp hi).1
            simp [hlt] at hget
            subst hget
            refine ⟨hname, ?_⟩
            simp [List.mem_filter, hname]
          · simp only [hik, if_false] at hget
            obtain ⟨h1, h2⟩ := hk k im' hget
            refine ⟨h1, ?_⟩
            rw [← h2, List.mem_filter]
            constructor
            · exact fun h => h.1
            · intro hm; exact ⟨hm, by simp [hname]; omega⟩
        · intro n hm
          exact hf n (List.mem_filter.mp hm).1

theorem urlInv_run (ops : List UOp) : ∀ st, UrlInv st → UrlInv (urlRun st ops) := by
  induction ops with
  | nil => intro st h; exact h
  | cons op ops ih => intro st h; exact ih _ (urlInv_step st op h)

end TIV.C11
