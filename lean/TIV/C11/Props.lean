import TIV.C11.Proofs
import TIV.C11.FaultProofs
import TIV.C11.UrlProofs
import TIV.C11.Generated
/-!
# C11 — property theorems

Part 1 (iteration): the generator-based `ImageIterator` refines the documented behaviour for
every history; consequences for reachable states.  Part 2 (resources): the effect programs of
the render / iterate / draw / construct code under every fault plan.
-/
namespace TIV.C11
open Prog

/-! ## translator tie -/

/-- the defaults the model was written for: `ImageIterator(image, repeat=-1, format_spec="", cached=100)`,
    `draw(repeat=-1, cached=100)`, `__iter__` = `ImageIterator(self, 1, "1.1", False)`; the three
    iterm2 render methods of `Method`; the three kinds of source -/
theorem generated_defaults :
    Generated.iterDefaultRepeat = -1 ∧ Generated.iterDefaultCached = 100 ∧ Generated.iterDefaultSpec = "" ∧
    Generated.drawDefaultRepeat = -1 ∧ Generated.drawDefaultCached = 100 ∧
    Generated.dunderIterRepeat = 1 ∧ Generated.dunderIterSpec = "1.1" ∧ Generated.dunderIterCached = false ∧
    Generated.itermMethods = ["anim", "lines", "whole"] ∧ Generated.kittyMethods = ["lines", "whole"] ∧
    Generated.imageSources = ["FILE_PATH", "PIL_IMAGE", "URL"] := by decide

/-- with the default arguments caching is on exactly for images of at most 100 frames, and
    `iter(image)` (one pass) never caches -/
theorem generated_cached_default (nf : Nat) :
    (effCached nf Generated.iterDefaultRepeat false false Generated.iterDefaultCached = true ↔ nf ≤ 100) ∧
    effCached nf Generated.dunderIterRepeat true Generated.dunderIterCached 0 = false := by
  constructor
  · simp only [effCached, Generated.iterDefaultRepeat, Generated.iterDefaultCached]
    exact decide_eq_true_iff
  · simp [effCached, Generated.dunderIterRepeat]

/-! ## part 1 — iteration -/

/-- REFINEMENT (every history of next / seek / close / size change / image seek, cached or not):
    the generator-based iterator answers exactly as the specification `specStep` does. -/
theorem iter_refines_spec {α : Type} (c : Cfg) (rf : Nat → Nat → α) (hnf : 0 < c.nf) (hrep : c.rep ≠ 0)
    (seek0 size0 : Nat) (ops : List Op) :
    run c rf (init seek0 size0) ops = specRun c rf (specInit seek0 size0) ops :=
  run_refines c rf hnf hrep ops _ _ (R_init c rf seek0 size0)

/-- a state some history leads to -/
def Reachable {α : Type} (c : Cfg) (rf : Nat → Nat → α) (st : St α) : Prop :=
  ∃ seek0 size0 ops, st = finalState c rf (init seek0 size0) ops

theorem reachable_sim {α : Type} (c : Cfg) (rf : Nat → Nat → α) (hnf : 0 < c.nf) (hrep : c.rep ≠ 0)
    (st : St α) (h : Reachable c rf st) : ∃ sp, R c rf st sp := by
  obtain ⟨s, z, ops, rfl⟩ := h
  suffices ∀ (ops : List Op) (st : St α) (sp : Sp), R c rf st sp → ∃ sp', R c rf (finalState c rf st ops) sp' from
    this ops _ _ (R_init c rf s z)
  intro ops
  induction ops with
  | nil => intro st sp h; exact ⟨sp, h⟩
  | cons op ops ih =>
    intro st sp h
    exact ih _ _ (sim_step c rf hnf hrep st sp h op).2

theorem spec_next_in_pass {α : Type} (c : Cfg) (rf : Nat → Nat → α) (sp : Sp)
    (hs : sp.started = true) (hc : sp.closed = false) (hlt : sp.nxt < c.nf) :
    specStep c rf sp .next =
      ({ sp with seekPos := sp.nxt, nxt := sp.nxt + 1 }, (.frame (some (rf sp.nxt sp.size)) : Ans α)) := by
  simp [specStep, hc, hs, hlt]

/-- `iter_frames`, one pass: wherever a history has left the iterator, a pass that is at frame
    `k` (the spec's `nxt`) continues `k, k+1, …` — stated on the specification, which the
    implementation refines (`iter_refines_spec`): `m` consecutive `next()` from frame `a` with
    `a + m ≤ nf` yield the frames `a … a+m-1` rendered at the current size, `tell()` following. -/
theorem iter_frames {α : Type} (c : Cfg) (rf : Nat → Nat → α) (m : Nat) (sp : Sp)
    (hs : sp.started = true) (hc : sp.closed = false) (hm : sp.nxt + m ≤ c.nf) :
    specRun c rf sp (List.replicate m .next) =
      (List.range m).map (fun j => ⟨.frame (some (rf (sp.nxt + j) sp.size)), sp.nxt + j, sp.loopNo⟩) := by
  induction m generalizing sp with
  | zero => rfl
  | succ m ih =>
    have hlt : sp.nxt < c.nf := by omega
    have hstep := spec_next_in_pass (α := α) c rf sp hs hc hlt
    simp only [List.replicate_succ, specRun, hstep]
    rw [ih { sp with seekPos := sp.nxt, nxt := sp.nxt + 1 } hs hc (by simp; omega)]
    simp only [List.range_succ_eq_map, List.map_cons, List.map_map]
    congr 1
    apply List.map_congr_left
    intro j _
    simp [Nat.add_assoc, Nat.add_comm 1 j]

/-- `iter_frames`, the first pass of a fresh iterator on the implementation itself:
    `nf` calls of `next()` yield the frames `0 … nf-1`, each with `tell()` = its number -/
theorem iter_first_pass {α : Type} (c : Cfg) (rf : Nat → Nat → α) (hnf : 0 < c.nf) (hrep : c.rep ≠ 0)
    (seek0 size0 : Nat) :
    run c rf (init seek0 size0) (List.replicate c.nf .next) =
      (List.range c.nf).map (fun j => ⟨.frame (some (rf j size0)), j, some c.rep⟩) := by
  rw [iter_refines_spec c rf hnf hrep]
  obtain ⟨n, hn⟩ : ∃ n, c.nf = n + 1 := ⟨c.nf - 1, by omega⟩
  rw [hn, List.replicate_succ]
  simp only [specRun, specStep, specInit]
  simp only [Bool.false_eq_true, if_false, hn, Nat.zero_lt_succ, if_true]
  rw [iter_frames c rf n _ rfl rfl (by simp; omega)]
  simp only [List.range_succ_eq_map, List.map_cons, List.map_map]
  congr 1
  apply List.map_congr_left
  intro j _
  simp [Nat.add_comm 1 j]

/-- `iter_frames`, CLOSED FORM (finite repeat count `r = K + 1`, no seeks): `r·nf + 1` consecutive
    `next()` on a fresh iterator — cached or not, whatever `tell()` the image started with — yield
    exactly `r` passes of the frames `0 … nf-1` in order (so the `j`-th yielded frame is frame
    `j mod nf`), each rendered at the image's size with `tell()` = the frame's number and
    `loop_no` counting `r, r-1, …, 1` pass by pass, and then `StopIteration` with `tell() = 0`
    and `loop_no = 0`. -/
theorem iter_frames_closed_form {α : Type} (c : Cfg) (rf : Nat → Nat → α) (hnf : 0 < c.nf) (K : Nat)
    (hrep : c.rep = (K : Int) + 1) (seek0 size0 : Nat) :
    run c rf (init seek0 size0) (List.replicate ((K + 1) * c.nf + 1) .next) =
      (List.range (K + 1)).flatMap (fun p => passObs rf (((K + 1 - p : Nat)) : Int) size0 0 c.nf) ++
        [(⟨.stop, 0, some 0⟩ : Obs α)] := by
  rw [iter_refines_spec c rf hnf (by omega)]
  -- the first pass starts the generator
  have hfirst : (specStep c rf (specInit seek0 size0) .next).2 = (.frame (some (rf 0 size0)) : Ans α) ∧
      (specStep (α := α) c rf (specInit seek0 size0) .next).1.seekPos = 0 ∧
      InPass (specStep (α := α) c rf (specInit seek0 size0) .next).1 1 ((K : Int) + 1) size0 := by
    simp [specStep, specInit, hnf, InPass, hrep]
  obtain ⟨h1, h2⟩ := pass_from_step c rf hnf _ ((K : Int) + 1) size0 hfirst.1 hfirst.2.1 hfirst.2.2
  have hsplit : (K + 1) * c.nf + 1 = c.nf + (K * c.nf + 1) := by
    rw [Nat.add_mul]; omega
  rw [hsplit, ← List.replicate_append_replicate, specRun_append, h1, spec_passes c rf hnf K _ size0 h2]
  rw [List.range_succ_eq_map, List.flatMap_cons, List.flatMap_map, List.append_assoc]
  have hlab : ((K : Int) + 1) = (((K + 1 - 0 : Nat)) : Int) := by simp
  rw [hlab]
  congr 2
  simp only [Nat.succ_eq_add_one, Nat.add_sub_add_right]

/-- the `j`-th observation of a pass is frame `a + j` -/
theorem passObs_getElem {α : Type} (rf : Nat → Nat → α) (ℓ : Int) (z a m j : Nat) (h : j < m) :
    (passObs rf ℓ z a m)[j]? = some ⟨.frame (some (rf (a + j) z)), a + j, some ℓ⟩ := by
  simp [passObs, h]

/-- non-vacuity of the closed form: 3 frames, `repeat = 2` -/
example : (run ⟨3, 2, false⟩ (fun k s => (k, s)) (init 2 5) (List.replicate 7 .next)).map
    (fun o => (match o.ans with | .frame (some (k, _)) => some k | _ => none, o.tell, o.loopNo)) =
    [(some 0, 0, some 2), (some 1, 1, some 2), (some 2, 2, some 2),
     (some 0, 0, some 1), (some 1, 1, some 1), (some 2, 2, some 1), (none, 0, some 0)] := by decide

/-- the end of a pass: one pass less to go and frame 0 again, or — after the last pass —
    `StopIteration` with the image back at frame 0 and the iterator closed -/
theorem iter_pass_end {α : Type} (c : Cfg) (rf : Nat → Nat → α) (sp : Sp)
    (hs : sp.started = true) (hc : sp.closed = false) (hn : sp.nxt = c.nf) :
    let r := specStep c rf sp .next
    (sp.rep = 1 → r.2 = (.stop : Ans α) ∧ r.1.closed = true ∧ r.1.seekPos = 0) ∧
    (sp.rep ≠ 1 → sp.rep ≠ 0 → r.2 = .frame (some (rf 0 sp.size)) ∧ r.1.seekPos = 0 ∧ r.1.nxt = 1 ∧
      r.1.rep = (if sp.rep > 0 then sp.rep - 1 else sp.rep)) := by
  have hlt : ¬ sp.nxt < c.nf := by omega
  constructor
  · intro h1
    simp [specStep, hc, hs, hlt, h1]
  · intro h1 h0
    have : (if sp.rep > 0 then sp.rep - 1 else sp.rep) ≠ 0 := by split <;> omega
    simp [specStep, hc, hs, hlt, this]

theorem spec_frame_is_format {α : Type} (c : Cfg) (rf : Nat → Nat → α) (hnf : 0 < c.nf) (sp : Sp) (f : Option α)
    (hf : (specStep c rf sp .next).2 = .frame f) :
    f = some (rf (specStep c rf sp .next).1.seekPos sp.size) ∧ (specStep c rf sp .next).1.seekPos < c.nf ∧
      (specStep c rf sp .next).1.size = sp.size := by
  by_cases hc : sp.closed = true
  · simp [specStep, hc] at hf
  · by_cases hs : sp.started = true
    · by_cases hlt : sp.nxt < c.nf
      · simp [specStep, hc, hs, hlt] at hf ⊢
        first | exact ⟨hf.symm, hlt⟩ | exact hf.symm
      · by_cases h0 : (if sp.rep > 0 then sp.rep - 1 else sp.rep) = 0
        · simp [specStep, hc, hs, hlt, h0] at hf
        · simp [specStep, hc, hs, hlt, h0] at hf ⊢
          first | exact ⟨hf.symm, hnf⟩ | exact hf.symm
    · simp [specStep, hc, hs, hnf] at hf ⊢
      first | exact ⟨hf.symm, hnf⟩ | exact hf.symm

/-- `iter_equals_format` + `seek_tracks_last`: in every reachable state, a frame yielded by
    `next()` is the format of the frame the image is then positioned at (`tell()`), at the
    image's current size — cache or no cache; the size setting is not touched. -/
theorem iter_equals_format {α : Type} (c : Cfg) (rf : Nat → Nat → α) (hnf : 0 < c.nf) (hrep : c.rep ≠ 0)
    (st : St α) (h : Reachable c rf st) (f : Option α) (hf : (step c rf st .next).2 = .frame f) :
    f = some (rf (step c rf st .next).1.seekPos st.size) ∧ (step c rf st .next).1.seekPos < c.nf ∧
      (step c rf st .next).1.size = st.size := by
  obtain ⟨sp, hR⟩ := reachable_sim c rf hnf hrep st h
  obtain ⟨ha, hR'⟩ := sim_step c rf hnf hrep st sp hR .next
  obtain ⟨hs', _, hz', _⟩ := id hR'
  obtain ⟨_, _, hz, _⟩ := id hR
  rw [hf] at ha
  rw [hs', hz', hz]
  exact spec_frame_is_format c rf hnf sp f ha.symm

/-- a direct `format(image, spec)` right after `next()` is byte for byte the frame `next()` just
    yielded — wherever the caller, an earlier render or a closed iterator left the underlying PIL
    image (`Op.pilSeek` changes nothing: every render seeks the PIL image itself) -/
theorem direct_render_equals_frame {α : Type} (c : Cfg) (rf : Nat → Nat → α) (hnf : 0 < c.nf) (hrep : c.rep ≠ 0)
    (st : St α) (h : Reachable c rf st) (f : Option α) (hf : (step c rf st .next).2 = .frame f) :
    (step c rf (step c rf st .next).1 .render).2 = .frame f ∧
    ∀ k, (step c rf (step c rf (step c rf st .next).1 (.pilSeek k)).1 .render).2 = .frame f := by
  obtain ⟨h1, _, h3⟩ := iter_equals_format c rf hnf hrep st h f hf
  generalize step c rf st .next = r at h1 h3 ⊢
  constructor
  · show Ans.frame (some (rf r.1.seekPos r.1.size)) = _
    rw [h3, ← h1]
  · intro k
    show Ans.frame (some (rf r.1.seekPos r.1.size)) = _
    rw [h3, ← h1]

/-- `seek_tracks_last` (second half): `ImageIterator.seek` and size changes never move `tell()` -/
theorem seek_tracks_last {α : Type} (c : Cfg) (rf : Nat → Nat → α) (hnf : 0 < c.nf) (hrep : c.rep ≠ 0)
    (st : St α) (h : Reachable c rf st) (p : Int) (s : Nat) :
    (step c rf st (.seek p)).1.seekPos = st.seekPos ∧ (step c rf st (.setSize s)).1.seekPos = st.seekPos := by
  obtain ⟨sp, hR⟩ := reachable_sim c rf hnf hrep st h
  obtain ⟨_, hR'⟩ := sim_step c rf hnf hrep st sp hR (.seek p)
  obtain ⟨hs', _⟩ := id hR'
  obtain ⟨hs, _⟩ := id hR
  refine ⟨?_, rfl⟩
  rw [hs', hs]
  simp only [specStep]
  split
  · rfl
  · split
    · rfl
    · split <;> rfl

/-- the frame chosen by `seek`: after a successful `seek(p)` the next `next()` yields frame `p` -/
theorem seek_then_next {α : Type} (c : Cfg) (rf : Nat → Nat → α) (sp : Sp) (p : Nat)
    (hs : sp.started = true) (hc : sp.closed = false) (hp : p < c.nf) :
    let sp1 := (specStep (α := α) c rf sp (.seek p)).1
    (specStep (α := α) c rf sp (.seek p)).2 = .ok ∧
    (specStep c rf sp1 .next).2 = .frame (some (rf p sp.size)) ∧ (specStep c rf sp1 .next).1.seekPos = p := by
  have h1 : ¬ ((p : Int) < 0 ∨ (p : Int) ≥ (c.nf : Int)) := by omega
  have hseek : specStep (α := α) c rf sp (.seek p) = ({ sp with nxt := p }, .ok) := by
    simp [specStep, h1, hc, hs, hp, Nat.not_le.mpr hp]
  intro sp1
  have hsp1 : sp1 = { sp with nxt := p } := by simp [sp1, hseek]
  rw [hseek, hsp1, spec_next_in_pass c rf { sp with nxt := p } hs hc hp]
  exact ⟨rfl, rfl, rfl⟩

theorem spec_stop_resets {α : Type} (c : Cfg) (rf : Nat → Nat → α) (hnf : 0 < c.nf) (sp : Sp)
    (hc : sp.closed = false) (hf : (specStep c rf sp .next).2 = (.stop : Ans α)) :
    (specStep (α := α) c rf sp .next).1.closed = true ∧ (specStep (α := α) c rf sp .next).1.seekPos = 0 := by
  by_cases hs : sp.started = true
  · by_cases hlt : sp.nxt < c.nf
    · simp [specStep, hc, hs, hlt] at hf
    · by_cases h0 : (if sp.rep > 0 then sp.rep - 1 else sp.rep) = 0
      · simp [specStep, hc, hs, hlt, h0]
      · simp [specStep, hc, hs, hlt, h0] at hf
  · simp [specStep, hc, hs, hnf] at hf

/-- `exhaustion_resets`: when `next()` of a live iterator raises `StopIteration`, the image is
    back at frame 0 and the iterator is closed -/
theorem exhaustion_resets {α : Type} (c : Cfg) (rf : Nat → Nat → α) (hnf : 0 < c.nf) (hrep : c.rep ≠ 0)
    (st : St α) (h : Reachable c rf st) (hlive : st.gen ≠ none)
    (hstop : (step c rf st .next).2 = .stop) :
    (step c rf st .next).1.seekPos = 0 ∧ (step c rf st .next).1.gen = none := by
  obtain ⟨sp, hR⟩ := reachable_sim c rf hnf hrep st h
  obtain ⟨ha, hR'⟩ := sim_step c rf hnf hrep st sp hR .next
  obtain ⟨hs', _, _, hg'⟩ := id hR'
  obtain ⟨_, _, _, hg⟩ := id hR
  have hc : sp.closed = false := by
    cases hgen : st.gen with
    | none => exact absurd hgen hlive
    | some g => rw [hgen] at hg; exact hg.1
  rw [hstop] at ha
  have hsp := spec_stop_resets c rf hnf sp hc ha.symm
  refine ⟨by rw [hs']; exact hsp.2, ?_⟩
  cases hgen' : (step c rf st .next).1.gen with
  | none => rfl
  | some g => rw [hgen'] at hg'; rw [hsp.1] at hg'; exact absurd hg'.1 (by simp)

/-- `anim_falls_back`: an iterm2 native-animation request made for a frame of an iteration /
    animation, or for a still image, is rendered by the WHOLE method; only a direct render of an
    animated image is native -/
theorem anim_falls_back (animated : Bool) :
    effMethod .anim animated true = .whole ∧ effMethod .anim false false = .whole ∧
    effMethod .anim true false = .native ∧
    (∀ fr, effMethod .whole animated fr = .whole) ∧ (∀ fr, effMethod .lines animated fr = .lines) := by
  cases animated <;> simp [effMethod]

/-! ## part 2 — resources -/

/-- `size_setting_unchanged`: `_renderer` puts the size setting (fixed or dynamic) back exactly
    as it found it — whatever the operation `body` it wraps does with Pillow, whichever Pillow
    call fails, and also when size validation itself fails — provided `body` is size-neutral
    (true of every action except `_renderer`'s own three, and of nested `_renderer`s by this
    very theorem). -/
theorem size_setting_unchanged (sizeOk : Bool) (body : Prog) (hb : Neutral πSize body)
    (f : Option Nat) (w : World) :
    ((renderer sizeOk body).run f w).w.size = w.size ∧
    ((renderer sizeOk body).run f w).w.savedSize = w.savedSize := by
  have := renderer_neutral_size sizeOk body hb f w
  simp only [πSize, Prod.mk.injEq] at this
  exact this

/-- … in particular for every program built from the Pillow / handle / seek actions only -/
theorem size_setting_unchanged_of_actions (sizeOk : Bool) (body : Prog)
    (hb : body.All Act.noSize (fun _ => True)) (f : Option Nat) (w : World) :
    ((renderer sizeOk body).run f w).w.size = w.size :=
  (size_setting_unchanged sizeOk body
    (neutral_of_all πSize stable_size Act.noSize (fun _ => True) noSize_preserves (fun _ _ _ _ => rfl) body hb) f w).1

/-- … and for the nested `_renderer` of `ImageIterator.__init__` inside an animated `draw()` -/
theorem size_setting_unchanged_nested (ok1 ok2 : Bool) (pre body post : Prog)
    (h1 : Neutral πSize pre) (h2 : Neutral πSize body) (h3 : Neutral πSize post) (f : Option Nat) (w : World) :
    ((renderer ok1 (.seq pre (.seq (renderer ok2 body) post))).run f w).w.size = w.size :=
  (size_setting_unchanged ok1 _ (neutral_seq _ _ _ h1 (neutral_seq _ _ _ (renderer_neutral_size ok2 body h2) h3)) f w).1

/-- non-vacuity: a dynamic size survives a render whose conversion fails (fault at the 3rd Pillow call) -/
example : ((fmtOp .file false true .block ⟨true, false, true, false, true, true⟩).run (some 2)
    { size := .dynamic 1 }).w.size = .dynamic 1 ∧
    ((fmtOp .file false true .block ⟨true, false, true, false, true, true⟩).run (some 2)
    { size := .dynamic 1 }).exc = some .renderError := by decide

/-- `temp_none_on_failed_init` + `temp_iff_open`: whatever the server answers, whether the body
    is an image, whether construction succeeds, whichever Pillow call fails, and however often
    `close()` is then called: the private temporary copy exists exactly when `from_url` returned
    an image that has not been closed. -/
theorem temp_iff_open (h : Http) (ident animProp initOk : Bool) (closes : Nat) (f : Option Nat) :
    let o := (Prog.seq (fromUrlOp h ident animProp initOk) (Prog.block (List.replicate closes closeOp))).run f {}
    (o.w.temp = true ↔ (o.exc = none ∧ closes = 0)) ∧ (o.exc = none → o.w.imgClosed = decide (0 < closes)) := by
  intro o
  have hcl : ∀ (n : Nat) (f : Option Nat) (w : World), w.isUrl = true → (w.imgClosed = true → w.temp = false) →
      ((Prog.block (List.replicate n closeOp)).run f w).exc = none ∧
      ((Prog.block (List.replicate n closeOp)).run f w).w.temp = (if n = 0 then w.temp else false) ∧
      ((Prog.block (List.replicate n closeOp)).run f w).w.imgClosed = (if n = 0 then w.imgClosed else true) := by
    intro n
    induction n with
    | zero => intro f w _ _; exact ⟨rfl, rfl, rfl⟩
    | succ n ih =>
      intro f w hu hinv
      cases n with
      | zero =>
        simp only [List.replicate, Prog.block, closeOp, Prog.run, Act.call?, Act.apply]
        by_cases hc : w.imgClosed = true <;> simp [hc, hu, hinv]
      | succ m =>
        have := ih f (Act.imageClose.apply w) (by simp only [Act.apply]; split <;> simp [hu])
          (by simp only [Act.apply]; split <;> simp_all)
        simp only [List.replicate, Prog.block, closeOp, Prog.run, Act.call?] at this ⊢
        obtain ⟨a, b, c⟩ := this
        refine ⟨a, ?_, ?_⟩
        · rw [b]; simp only [Act.apply]; by_cases hc : w.imgClosed = true <;> simp [hc, hu, hinv]
        · rw [c]; simp only [Act.apply]; by_cases hc : w.imgClosed = true <;> simp [hc]
  -- the construction itself: at most two Pillow calls
  have hctor : let o1 := (fromUrlOp h ident animProp initOk).run f {}
      (o1.exc = none → o1.w.temp = true ∧ o1.w.isUrl = true ∧ o1.w.imgClosed = false) ∧
      (o1.exc ≠ none → o1.w.temp = false) := by
    cases h <;> cases ident <;> cases animProp <;> cases initOk <;>
      (first
        | (rcases f with _ | _ | _ | f) <;> simp [fromUrlOp, Prog.block, Prog.run, Act.call?, Act.apply, World.alloc, World.setReg, World.emit, noteUse, World.isClosed, World.reg])
  obtain ⟨hok, hbad⟩ := hctor
  show (o.w.temp = true ↔ _) ∧ _
  simp only [o, Prog.run]
  cases he : ((fromUrlOp h ident animProp initOk).run f {}).exc with
  | some e =>
    simp only
    have := hbad (by rw [he]; simp)
    simp [this]
  | none =>
    obtain ⟨ht, hu, hc⟩ := hok he
    obtain ⟨a, b, c⟩ := hcl closes ((fromUrlOp h ident animProp initOk).run f {}).f _ hu (by simp [hc])
    simp only [a, b, c, ht, hc]
    by_cases h0 : closes = 0
    · simp [h0]
    · simp [h0]; omega

/-- non-vacuity: a GIF served with 200 whose `is_animated` evaluation fails leaves no file -/
example : ((fromUrlOp .ok true true true).run (some 1) {}).w.temp = false ∧
    ((fromUrlOp .ok true true true).run none {}).w.temp = true := by decide

/-- `source_pil_never_closed`: NO program over the library's actions — any operation, any fault
    plan — closes the PIL image supplied by the caller: every close goes through
    `_close_image` (identity check against `_source`), through the `__exit__` of an object the
    `with` statement itself created, or through the `__exit__` of a file object. -/
theorem source_pil_never_closed (p : Prog) (f : Option Nat) (w : World) (s : Nat) (h : SrcOK s w) :
    (p.run f w).w.source = some s ∧ (p.run f w).w.isClosed s = false :=
  ⟨(srcOK_run s p f w h).1, (srcOK_run s p f w h).2.2.2⟩

/-- non-vacuity: an animated draw of a PIL-sourced image, resize failing in the second frame -/
example : SrcOK 0 { handles := [{ role := .source }], source := some 0 } ∧
    ((drawAnimOp .pil true false false .kitty
        [⟨true, true, true, false, true, true⟩, ⟨true, true, true, false, false, true⟩]).run (some 5)
      { handles := [{ role := .source }], source := some 0 }).exc = some .renderError :=
  ⟨⟨rfl, by decide, rfl, rfl⟩, by decide⟩

/-- `opened_closed`, iterators: once an `ImageIterator` exists, then whatever frames it is
    asked for (any data-dependent path per frame), whichever Pillow call fails at whichever
    frame, and however the iteration ends (exhaustion, `close()`, abandonment, or `image.close()`
    followed by `close()`), the iterator ends up referencing no image: `_img` is closed (unless it
    is the caller's) and dropped, the generator is gone.  Hence after quiescence every handle the
    library opened or derived is closed or unreferenced (`reachable_only_source`). -/
theorem opened_closed (src : Src) (v : Variant) (frames : List RP) (e : Ending) (f : Option Nat) (w : World)
    (hb : ∀ x, ((Prog.seq (iterFrames v 0 true frames) (endingProg src frames.length frames.isEmpty e)).run f w).exc
      = some x → x.bypasses = false) :
    Released ((Prog.seq (iterFrames v 0 true frames) (endingProg src frames.length frames.isEmpty e)).run f w).w := by
  simp only [Prog.run] at hb ⊢
  split
  · rename_i x he
    simp only [he] at hb
    exact iterFrames_failure_releases v frames 0 true f w x he (hb x rfl)
  · rename_i he
    simp only [he] at hb
    exact ending_releases _ _ _ _ _ _ hb

/-- … which is the tail of the modelled `it = ImageIterator(…); next(it) × k; <ending>` -/
theorem opened_closed_is_iterOp (src : Src) (needN nProp : Bool) (v : Variant) (frames : List RP) (e : Ending) :
    iterOp src needN nProp v frames e =
      .seq (iterNew src needN nProp) (.seq (iterFrames v 0 true frames) (endingProg src frames.length frames.isEmpty e)) :=
  iterOp_eq src needN nProp v frames e

/-- a released world references only the caller's image -/
theorem reachable_only_source (w : World) (h : Released w) (i : Nat) (hr : w.quiesce.reachable i = true) :
    w.source = some i := by
  obtain ⟨h1, h2⟩ := h
  simp only [World.reachable, World.quiesce, World.reg] at hr h2
  simp [h1, h2] at hr
  exact of_decide_eq_true hr

/-- `draw_keeps_frame`: an animated `draw()` (`_renderer` → `_display_animated`, any style and
    render path per frame, any number of frames, cached or not) leaves the image's seek position
    exactly where it was — on normal completion, when size validation fails, when opening either
    image fails, and when any Pillow call of any frame fails. -/
theorem draw_keeps_frame (src : Src) (sizeOk needN nProp : Bool) (v : Variant) (frames : List RP)
    (f : Option Nat) (w : World) :
    ((drawAnimOp src sizeOk needN nProp v frames).run f w).w.seekPos = w.seekPos := by
  rw [drawAnimOp_eq, renderer_outcome]
  show (Act.restoreSize.apply _).seekPos = _
  rw [seekPos_preserved .restoreSize rfl]
  have hw1 : (Act.setSizeTemp.apply (Act.saveSize.apply w)).seekPos = w.seekPos := by
    rw [seekPos_preserved .setSizeTemp rfl, seekPos_preserved .saveSize rfl]
  cases sizeOk with
  | true =>
    simp only [if_true, Prog.run]
    rw [drawBody_seek]; exact hw1
  | false =>
    simp only [Bool.false_eq_true, if_false, Prog.run]
    exact hw1

/-- the `finally` of `_display_animated` by itself: whatever program `T` stands in for the frame
    loop, if it does not overwrite the saved value the seek position is restored on every path -/
theorem draw_finally_restores (T : Prog) (hT : Neutral (fun w => w.savedSeek) T) (f : Option Nat) (w : World) :
    ((Prog.tryFinally T drawFin).run f w).w.seekPos = w.savedSeek := drawTail_seek T hT f w

/-- non-vacuity / instance: a 3-frame animated draw started at frame 2, the 2nd frame's resize
    failing — the image is at frame 2 afterwards, the opened files are closed or unreferenced -/
example : let o := (drawAnimOp .file true false false .kitty
      [⟨true, true, true, false, true, true⟩, ⟨true, true, true, false, false, true⟩,
       ⟨true, true, true, false, false, true⟩]).run (some 7) { seekPos := 2 }
    o.w.seekPos = 2 ∧ o.exc = some .renderError ∧ o.w.isClosed 0 = true ∧ o.w.held = none := by decide

/-- `opened_closed`, a whole standalone iteration including its construction: if
    `ImageIterator.__init__` fails (the `n_frames` probe, `Image.open`) nothing is bound to the
    iterator; otherwise `opened_closed` applies.  For every source kind, style path, frame list,
    ending and fault plan the iterator references no image afterwards. -/
theorem opened_closed_iterOp (src : Src) (needN nProp : Bool) (v : Variant) (frames : List RP) (e : Ending)
    (f : Option Nat) (w : World) (h : Released w)
    (hb : ∀ x, ((iterOp src needN nProp v frames e).run f w).exc = some x → x.bypasses = false) :
    Released ((iterOp src needN nProp v frames e).run f w).w := by
  rw [iterOp_eq] at hb ⊢
  have hbind := iterNew_binds src needN nProp f w h
  simp only [Prog.run] at hbind hb ⊢
  split
  · rename_i x he
    exact hbind.2 (by rw [he]; simp)
  · rename_i he
    simp only [he] at hb
    have := opened_closed src v frames e ((iterNew src needN nProp).run f w).f ((iterNew src needN nProp).run f w).w
      (by simpa only [Prog.run] using hb)
    simp only [Prog.run] at this
    exact this

/-- `next_failure_closes` — the handler table of `ImageIterator.__next__`: whatever the frame
    render raises (an injected failure of any class at any Pillow call, a `RenderError`, …) other
    than a `BaseException` or an AttributeError about `'_animator'` comes out of `__next__` as
    that exception — a StopIteration raised inside the generator as RuntimeError —, never as
    exhaustion, and `self.close()` has run: the iterator references no image any more. -/
theorem next_failure_closes (first : Bool) (body : Prog) (f : Option Nat) (w : World) (e0 : Exc)
    (h0 : ((Prog.seq (if first then Prog.act (.hold .gen) else Prog.done) body).run f w).exc = some e0)
    (hk : e0 ≠ .keyboardInterrupt) (ha : e0 ≠ .attrAnimator) :
    ((iterNext first body).run f w).exc = some (if e0 = .stopIter then .runtimeError else e0) ∧
    Released ((iterNext first body).run f w).w :=
  nextGuard_table _ f w e0 h0 hk ha

/-- non-vacuity: an AttributeError injected at `tobytes()` of the second frame of a kitty iteration
    comes out as that AttributeError, and the opened file has been closed -/
example :
    ((iterOp .file false false .kitty [⟨true, true, true, false, true, true⟩, ⟨true, true, true, false, false, true⟩]
        .close).run (some 7) ({ faultExc := .attrError } : World)).exc = some .attrError ∧
    ((iterOp .file false false .kitty [⟨true, true, true, false, true, true⟩, ⟨true, true, true, false, false, true⟩]
        .close).run (some 7) ({ faultExc := .attrError } : World)).w.isClosed 0 = true := by decide

/-- `url_copies_independent`: for every history of `from_url` (any URLs — the same one twice,
    different hosts with the same file name, …; succeeding or failing), renders and closes /
    collections of any of the images made so far: image `k`'s private copy exists **iff** image
    `k` has not been closed — no other image's creation or closing touches it — and nothing else
    is in the temp directory. -/
theorem url_copies_independent (ops : List UOp) :
    (∀ (k : Nat) (im : UImg), (urlRun ({} : UrlSt) ops).imgs[k]? = some im →
      (im.name ∈ (urlRun ({} : UrlSt) ops).files ↔ im.closed = false)) ∧
    (∀ n ∈ (urlRun ({} : UrlSt) ops).files,
      ∃ im ∈ (urlRun ({} : UrlSt) ops).imgs, im.name = n ∧ im.closed = false) := by
  obtain ⟨hn, hk, hf⟩ := urlInv_run ops {} urlInv_init
  refine ⟨?_, ?_⟩
  · intro k im hget
    obtain ⟨h1, h2⟩ := hk k im hget
    rw [h1]; exact h2
  · intro n hm
    have hlt : n < (urlRun ({} : UrlSt) ops).imgs.length := by have := hf n hm; omega
    refine ⟨(urlRun ({} : UrlSt) ops).imgs[n], List.getElem_mem hlt, ?_⟩
    obtain ⟨h1, h2⟩ := hk n _ (List.getElem?_eq_getElem hlt)
    exact ⟨h1, h2.mp hm⟩

/-- … hence an image that is open always finds its copy when it renders -/
theorem url_render_ok (ops : List UOp) (i : Nat) (im : UImg) (h : (urlRun ({} : UrlSt) ops).imgs[i]? = some im)
    (ho : im.closed = false) : (urlStep (urlRun ({} : UrlSt) ops) (.render i)).2 = "ok" := by
  have := ((url_copies_independent ops).1 i im h).mpr ho
  simp [urlStep, h, ho, this]

/-- non-vacuity: the same URL fetched twice, the first image closed — the second still renders -/
example : (urlTrace ({} : UrlSt) [.open_ 7 true, .open_ 7 true, .close 0, .render 1, .render 0, .close 1]).map Prod.fst
    = ["ok", "ok", "ok", "ok", "err TermImageError", "ok"] := by decide

/-- `opened_closed`, a whole animated `draw()`: whether size validation, either `Image.open`,
    the `n_frames` probe or any Pillow call of any frame fails, or nothing does — afterwards the
    iterator `_display_animated` made references no image (its `finally` closes what it was
    given and the image `_renderer` opened; the image `ImageIterator.__init__` opened is
    unreferenced as soon as the generator is replaced). -/
theorem opened_closed_draw (src : Src) (sizeOk needN nProp : Bool) (v : Variant) (frames : List RP)
    (f : Option Nat) (w : World) (h : Released w) :
    Released ((drawAnimOp src sizeOk needN nProp v frames).run f w).w := by
  rw [drawAnimOp_eq, renderer_outcome]
  have hw1 : Released (Act.setSizeTemp.apply (Act.saveSize.apply w)) :=
    released_of_πG _ _ (by rw [(πG_sizeActs _).2.1, (πG_sizeActs _).1]) h
  refine released_of_πG _ _ (πG_sizeActs _).2.2 ?_
  cases sizeOk with
  | true =>
    simp only [if_true, Prog.run]
    exact drawBody_released src needN nProp v frames f _ hw1
  | false =>
    simp only [Bool.false_eq_true, if_false, Prog.run]
    exact hw1

/-- … and a format / still draw / `n_frames` never involves the iterator at all -/
theorem opened_closed_fmt (src : Src) (closed sizeOk : Bool) (v : Variant) (p : RP) (f : Option Nat) (w : World)
    (h : Released w) : Released ((fmtOp src closed sizeOk v p).run f w).w := by
  simp only [fmtOp]
  rw [renderer_outcome]
  have hw1 : Released (Act.setSizeTemp.apply (Act.saveSize.apply w)) :=
    released_of_πG _ _ (by rw [(πG_sizeActs _).2.1, (πG_sizeActs _).1]) h
  refine released_of_πG _ _ (πG_sizeActs _).2.2 ?_
  have hbody : Neutral πG (Prog.seq (if sizeOk then Prog.done else Prog.raise .sizeError)
      (Prog.seq (getImage src closed .img) (renderImage v p))) := by
    refine neutral_seq _ _ _ ?_ (neutral_seq _ _ _ (neutral_G_of_genFree _ (getImage_genFree src closed .img 0 rfl))
      (neutral_G_of_genFree _ (renderImage_genFree v p)))
    split
    · exact neutral_done _
    · exact neutral_raise _ _
  exact released_of_πG _ _ (hbody f _) hw1

/-- `explicit_close`: a fault-free `format()` / `str()` / still `draw()` — file- or PIL-sourced,
    size check passing or failing, every style and branch (block, kitty, iterm2 WHOLE / LINES with
    any number of lines / native animation from file or by save / read-from-file) and every
    data-dependent path through `_get_render_data` — closes, by an explicit `close()`/`__exit__`
    and not through the garbage collector, every image it opened from a path and every file it
    opened.  (What is left to the collector on these paths are memory-only images: the
    composite background, the alpha channel, the RGB copy made for `getdata`.)
    Not covered by a theorem: the same discipline for iterators and animated draws, where two
    images are by design only ever collected (the image of a never-started iterator, and the one
    `ImageIterator.__init__` opens inside `_display_animated`), and fault paths, where the image
    in hand is left to the collector unless the failing call is `convert`/`resize`. -/
theorem explicit_close (src : Src) (sizeOk : Bool) (v : Variant) (p : RP) (hf : p.frame = false) :
    ((fmtOp src false sizeOk v p).run none (initW src)).w.openedAllClosed = true :=
  explicit_close_all src sizeOk v p hf

/-- `render_closes_own_image`: a `format()` / `str()` / still `draw()` (the entry points that open
    their own image: `_renderer` → `_get_image`), file- or PIL-sourced, any style and branch, any
    data-dependent path through `_get_render_data`, **every fault plan**:
    * when the call returns, or raises the `RenderError` that a failing mode conversion, a failing
      resize (`convert_resize_img`) or a failing re-encoding (iterm2 native animation) is turned into
      — an injected failure or Pillow's own, e.g. a truncated file — every image and file the call
      opened from a path has been closed by an explicit `close()` (nothing is left for the garbage
      collector to reclaim while the caller holds the exception);
    * the caller's PIL image is never closed, whatever fails.
    (A failure of any *other* Pillow call — `seek`, `getdata`, `tobytes`, `save`, … — propagates
    as it is and leaves the image in hand to the collector: the code has no clean-up there, the
    model mirrors that, and the theorem does not claim it.)
    Proof: exhaustive kernel evaluation over the finite path space × every fault index up to the
    path's number of Pillow calls (`chkEverything_true`), `run_budget` for larger indices,
    `linesLoop_oac` for any number of LINES rows. -/
theorem render_closes_own_image (src : Src) (sizeOk : Bool) (v : Variant) (p : RP) (hf : p.frame = false)
    (f : Option Nat) :
    (((fmtOp src false sizeOk v p).run f (initW src)).exc = none ∨
      ((fmtOp src false sizeOk v p).run f (initW src)).exc = some .renderError →
        ((fmtOp src false sizeOk v p).run f (initW src)).w.openedAllClosed = true) ∧
    (src = .pil → ((fmtOp src false sizeOk v p).run f (initW src)).w.isClosed 0 = false) := by
  constructor
  · intro h
    have hk := okAtExit_all src sizeOk v p hf f
    simp only [okAtExit] at hk
    rcases h with h | h <;> simpa [h] using hk
  · intro hs
    subst hs
    exact (source_pil_never_closed _ f (initW .pil) 0 ⟨rfl, by decide, rfl, rfl⟩).2

/-- non-vacuity: a palette GIF frame whose conversion fails (3rd Pillow call: open, seek, convert) —
    RenderError, and the opened file has been closed -/
example : ((fmtOp .file false true .block ⟨true, false, true, false, true, true⟩).run (some 2) (initW .file)).exc
      = some .renderError ∧
    ((fmtOp .file false true .block ⟨true, false, true, false, true, true⟩).run (some 2) (initW .file)).w.isClosed 0
      = true := by decide

/-- non-vacuity of `convert_resize_img`'s clean-up: when the conversion of a freshly opened file
    fails (fault at the 2nd Pillow call), the opened image has been closed explicitly and the
    error is a `RenderError` -/
example : let o := (fmtOp .file false true .kitty ⟨false, false, true, false, true, true⟩).run (some 1) {}
    o.w.isClosed 0 = true ∧ o.exc = some .renderError := by decide

/-- non-vacuity: a 3-frame image, two passes, cached, with a seek back in the middle -/
example : (run ⟨3, 2, true⟩ (fun k s => (k, s)) (init 1 0) [.next, .next, .seek 0, .next, .setSize 7, .next]).map
    (fun o => (match o.ans with | .frame (some (k, s)) => some (k, s) | _ => none, o.tell)) =
    [(some (0, 0), 0), (some (1, 0), 1), (none, 1), (some (0, 0), 0), (none, 0), (some (1, 7), 1)] := by decide

end TIV.C11
