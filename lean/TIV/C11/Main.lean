import TIV.Common.DriverMain
import TIV.C11.Drive
def main : IO Unit := TIV.driverMain TIV.C11.handler
