import TIV.C11.IIter
import TIV.C11.Prog
import TIV.C11.Res
/-! C11 model = `IIter` (iterator state machine) + `Prog`/`Res` (handles and effect programs) -/
