import TIV.C11.IIter
/-! helper lemmas for the iterator refinement (C11 part 1) -/
namespace TIV.C11

variable {α : Type}

/-- every cache entry is the render of its own frame at the size it is keyed by -/
def cacheInv (rf : Nat → Nat → α) (cache : List (Option (α × Nat))) : Prop :=
  ∀ i f h, cache[i]? = some (some (f, h)) → f = rf i h

theorem cacheInv_nil (rf : Nat → Nat → α) : cacheInv rf [] := by
  intro i f h hh; simp at hh

theorem cacheInv_replicate (rf : Nat → Nat → α) (n : Nat) : cacheInv rf (List.replicate n none) := by
  intro i f h hh
  simp [List.getElem?_replicate] at hh

theorem cacheInv_set (rf : Nat → Nat → α) (cache) (i s : Nat) (hc : cacheInv rf cache) :
    cacheInv rf (cache.set i (some (rf i s, s))) := by
  intro j f h hh
  rw [List.getElem?_set] at hh
  split at hh
  · split at hh
    · simp at hh; obtain ⟨rfl, rfl⟩ := hh; subst_vars; rfl
    · simp at hh
  · exact hc j f h hh

theorem cacheInv_getD (rf : Nat → Nat → α) (cache) (i : Nat) (f h) (hc : cacheInv rf cache)
    (hg : cache.getD i none = some (f, h)) : f = rf i h := by
  apply hc i f h
  rw [List.getD_eq_getElem?_getD] at hg
  cases hh : cache[i]? with
  | none => simp [hh] at hg
  | some v => simp [hh] at hg; simp [hg]

section
variable (c : Cfg) (rf : Nat → Nat → α) (size : Nat)

/-- the cache loop, positioned on a valid frame with nothing sent, yields that frame rendered
    at the current size -/
theorem inner2_yield (fuel : Nat) (g : Gen α) (sp : Nat) (ln : Option Int)
    (_h0 : 0 ≤ g.n) (h1 : g.n < (c.nf : Int)) (hc : cacheInv rf g.cache) :
    ∃ g', inner2 c rf size (fuel + 1) none g sp ln = ⟨.yielded (some (rf g.n.toNat size)), g', g.n.toNat, ln⟩ ∧
      g'.pc = .y2 ∧ g'.n = g.n ∧ g'.rep = g.rep ∧ cacheInv rf g'.cache := by
  unfold inner2
  simp only [h1, if_true]
  split
  · rename_i f h heq
    have hf := cacheInv_getD rf g.cache g.n.toNat f h hc heq
    by_cases hs : size = h
    · subst hs
      refine ⟨{ g with pc := .y2, frame := some f }, ?_, rfl, rfl, rfl, hc⟩
      simp [hf]
    · refine ⟨{ g with pc := .y2, frame := some (rf g.n.toNat size),
                        cache := g.cache.set g.n.toNat (some (rf g.n.toNat size, size)) },
        ?_, rfl, rfl, rfl, cacheInv_set rf _ g.n.toNat size hc⟩
      simp [hs]
  · exact ⟨{ g with pc := .y2, frame := some (rf g.n.toNat size),
                     cache := g.cache.set g.n.toNat (some (rf g.n.toNat size, size)) },
      rfl, rfl, rfl, rfl, cacheInv_set rf _ g.n.toNat size hc⟩

theorem inner2_sent (fuel : Nat) (g : Gen α) (sp : Nat) (ln : Option Int) (p : Nat)
    (h1 : g.n < (c.nf : Int)) :
    inner2 c rf size (fuel + 1) (some p) g sp ln = ⟨.yielded g.frame, { g with pc := .y2 }, sp, ln⟩ := by
  unfold inner2; simp [h1]

theorem loop1_yield (fuel : Nat) (g : Gen α) (sp : Nat) (ln : Option Int)
    (hr : g.rep ≠ 0) (h0 : 0 ≤ g.n) (h1 : g.n < (c.nf : Int)) (hc : cacheInv rf g.cache) :
    ∃ g', loop1 c rf size (fuel + 1) none g sp ln = ⟨.yielded (some (rf g.n.toNat size)), g', g.n.toNat, ln⟩ ∧
      g'.pc = .y1 ∧ g'.n = g.n ∧ g'.rep = g.rep ∧ cacheInv rf g'.cache := by
  unfold loop1
  have h2 : ¬ (g.n < 0 ∨ g.n ≥ (c.nf : Int)) := by omega
  simp only [hr, if_false, h2]
  let cache' := if c.cached then g.cache.set g.n.toNat (some (rf g.n.toNat size, size)) else g.cache
  refine ⟨{ g with pc := .y1, frame := some (rf g.n.toNat size), cache := cache' }, rfl, rfl, rfl, rfl, ?_⟩
  show cacheInv rf cache'
  by_cases hcc : c.cached
  · simp only [cache', hcc, if_true]; exact cacheInv_set rf _ _ _ hc
  · simp only [cache', hcc]; exact hc

theorem loop1_sent (fuel : Nat) (g : Gen α) (sp : Nat) (ln : Option Int) (p : Nat) (hr : g.rep ≠ 0) :
    loop1 c rf size (fuel + 1) (some p) g sp ln = ⟨.yielded g.frame, { g with pc := .y1 }, sp, ln⟩ := by
  unfold loop1; simp [hr]

/-- the first loop running off the end of a pass (`img.seek(n)` raises `EOFError`) -/
theorem loop1_eof (g : Gen α) (sp : Nat) (ln : Option Int) (hnf : 0 < c.nf)
    (hn : g.n = (c.nf : Int)) (hr : g.rep ≠ 0) (hc : cacheInv rf g.cache) :
    let rep' := if g.rep > 0 then g.rep - 1 else g.rep
    let ln' := if g.rep > 0 then some (g.rep - 1) else ln
    (rep' = 0 → ∃ g', loop1 c rf size 4 none g sp ln = ⟨.returned, g', 0, ln'⟩) ∧
    (rep' ≠ 0 → ∃ g', loop1 c rf size 4 none g sp ln = ⟨.yielded (some (rf 0 size)), g', 0, ln'⟩ ∧
        g'.pc ≠ .fresh ∧ g'.n = 0 ∧ g'.rep = rep' ∧ cacheInv rf g'.cache) := by
  intro rep' ln'
  have hge : (g.n < 0 ∨ g.n ≥ (c.nf : Int)) := by omega
  have hnf' : (0 : Int) < (c.nf : Int) := by omega
  by_cases hpos : g.rep > 0
  · -- finite repeat: one pass less
    have hrep' : rep' = g.rep - 1 := by simp [rep', hpos]
    have hln' : ln' = some (g.rep - 1) := by simp [ln', hpos]
    constructor
    · intro h0
      have h0' : g.rep - 1 = 0 := by omega
      by_cases hcc : c.cached
      · exact ⟨_, by rw [loop1]; simp [hr, hge, decRep, hpos, hcc, outer2, h0', hln']; rfl⟩
      · exact ⟨_, by rw [loop1]; simp [hr, hge, decRep, hpos, hcc, h0', hln']; rw [loop1]; simp [outer2, h0']; rfl⟩
    · intro h1
      have h1' : g.rep - 1 ≠ 0 := by omega
      by_cases hcc : c.cached
      · obtain ⟨g', he, h2, h3, h4, h5⟩ := inner2_yield c rf size 2 { g with n := 0, rep := g.rep - 1 } 0 (some (g.rep - 1))
          (by simp) (by simpa using hnf') hc
        refine ⟨g', ?_, by simp [h2], by simpa using h3, by simpa [hrep'] using h4, h5⟩
        rw [loop1]; simp [hr, hge, decRep, hpos, hcc, outer2, h1', hln']
        simpa using he
      · obtain ⟨g', he, h2, h3, h4, h5⟩ := loop1_yield c rf size 2 { g with n := 0, rep := g.rep - 1 } 0 (some (g.rep - 1))
          (by simpa using h1') (by simp) (by simpa using hnf') hc
        refine ⟨g', ?_, by simp [h2], by simpa using h3, by simpa [hrep'] using h4, h5⟩
        rw [loop1]; simp [hr, hge, decRep, hpos, hcc, hln']
        simpa using he
  · -- infinite repeat
    have hrep' : rep' = g.rep := by simp [rep', hpos]
    have hln' : ln' = ln := by simp [ln', hpos]
    constructor
    · intro h0; omega
    · intro _
      by_cases hcc : c.cached
      · obtain ⟨g', he, h2, h3, h4, h5⟩ := inner2_yield c rf size 2 { g with n := 0 } 0 ln
          (by simp) (by simpa using hnf') hc
        refine ⟨g', ?_, by simp [h2], by simpa using h3, by simpa [hrep'] using h4, h5⟩
        rw [loop1]; simp [hr, hge, decRep, hpos, hcc, outer2, hln']
        simpa using he
      · obtain ⟨g', he, h2, h3, h4, h5⟩ := loop1_yield c rf size 2 { g with n := 0 } 0 ln
          (by simpa using hr) (by simp) (by simpa using hnf') hc
        refine ⟨g', ?_, by simp [h2], by simpa using h3, by simpa [hrep'] using h4, h5⟩
        rw [loop1]; simp [hr, hge, decRep, hpos, hcc, hln']
        simpa using he

/-- the cache loop running off the end of a pass -/
theorem inner2_eof (g : Gen α) (sp : Nat) (ln : Option Int) (hnf : 0 < c.nf)
    (hn : g.n = (c.nf : Int)) (hc : cacheInv rf g.cache) :
    let rep' := if g.rep > 0 then g.rep - 1 else g.rep
    let ln' := if g.rep > 0 then some (g.rep - 1) else ln
    (rep' = 0 → ∃ g', inner2 c rf size 4 none g sp ln = ⟨.returned, g', 0, ln'⟩) ∧
    (rep' ≠ 0 → ∃ g', inner2 c rf size 4 none g sp ln = ⟨.yielded (some (rf 0 size)), g', 0, ln'⟩ ∧
        g'.pc ≠ .fresh ∧ g'.n = 0 ∧ g'.rep = rep' ∧ cacheInv rf g'.cache) := by
  intro rep' ln'
  have hge : ¬ (g.n < (c.nf : Int)) := by omega
  have hnf' : (0 : Int) < (c.nf : Int) := by omega
  by_cases hpos : g.rep > 0
  · have hrep' : rep' = g.rep - 1 := by simp [rep', hpos]
    have hln' : ln' = some (g.rep - 1) := by simp [ln', hpos]
    constructor
    · intro h0
      have h0' : g.rep - 1 = 0 := by omega
      exact ⟨_, by rw [inner2]; simp [hge, decRep, hpos, h0', hln']; rfl⟩
    · intro h1
      have h1' : g.rep - 1 ≠ 0 := by omega
      obtain ⟨g', he, h2, h3, h4, h5⟩ := inner2_yield c rf size 2 { g with n := 0, rep := g.rep - 1 } 0 (some (g.rep - 1))
        (by simp) (by simpa using hnf') hc
      refine ⟨g', ?_, by simp [h2], by simpa using h3, by simpa [hrep'] using h4, h5⟩
      rw [inner2]; simp [hge, decRep, hpos, h1', hln']
      simpa using he
  · have hrep' : rep' = g.rep := by simp [rep', hpos]
    have hln' : ln' = ln := by simp [ln', hpos]
    constructor
    · intro h0
      exact ⟨_, by rw [inner2]; simp [hge, decRep, hpos, hln']; rw [hrep'] at h0; simp [h0]; rfl⟩
    · intro h1
      have h1' : g.rep ≠ 0 := by rw [hrep'] at h1; exact h1
      obtain ⟨g', he, h2, h3, h4, h5⟩ := inner2_yield c rf size 2 { g with n := 0 } 0 ln
        (by simp) (by simpa using hnf') hc
      refine ⟨g', ?_, by simp [h2], by simpa using h3, by simpa [hrep'] using h4, h5⟩
      rw [inner2]; simp [hge, decRep, hpos, h1', hln']
      simpa using he

/-- the simulation relation between the generator-based iterator and the specification -/
def R (st : St α) (sp : Sp) : Prop :=
  st.seekPos = sp.seekPos ∧ st.loopNo = sp.loopNo ∧ st.size = sp.size ∧
  match st.gen with
  | none => sp.closed = true
  | some g => sp.closed = false ∧
    if g.pc = .fresh then sp.started = false
    else sp.started = true ∧ g.n + 1 = (sp.nxt : Int) ∧ sp.nxt ≤ c.nf ∧ g.rep = sp.rep ∧ g.rep ≠ 0 ∧
      cacheInv rf g.cache

theorem R_init (seekPos size : Nat) : R c rf (init seekPos size : St α) (specInit seekPos size) := by
  simp [R, init, specInit]

theorem sim_next (hnf : 0 < c.nf) (hrep : c.rep ≠ 0) (st : St α) (sp : Sp) (h : R c rf st sp) :
    (step c rf st .next).2 = (specStep c rf sp .next).2 ∧
      R c rf (step c rf st .next).1 (specStep c rf sp .next).1 := by
  obtain ⟨hs, hl, hz, hg⟩ := h
  cases hgen : st.gen with
  | none =>
    rw [hgen] at hg
    simp [step, specStep, hgen, hg, R, hs, hl, hz]
  | some g =>
    rw [hgen] at hg
    obtain ⟨hcl, hg⟩ := hg
    by_cases hpc : g.pc = .fresh
    · -- first next(): the generator starts
      simp only [hpc, if_true] at hg
      obtain ⟨g', he, h2, h3, h4, h5⟩ := loop1_yield c rf st.size 3
        { g with n := 0, rep := c.rep, cache := if c.cached then List.replicate c.nf none else [] }
        st.seekPos (some c.rep) (by simpa using hrep) (by simp) (by simpa using hnf)
        (by by_cases hcc : c.cached <;> simp [hcc, cacheInv_replicate, cacheInv_nil])
      simp only [Int.toNat_zero, hpc] at he
      have hres : resume c rf st.size none g st.seekPos st.loopNo =
          ⟨.yielded (some (rf 0 st.size)), g', 0, some c.rep⟩ := by
        simp only [resume, hpc]; exact he
      simp only [step, hgen, hres, specStep, hcl, hg]
      simp [hnf, R, hz, h2, h3, h4, h5, hrep]
      omega
    · simp only [hpc, if_false] at hg
      obtain ⟨hst, hn, hle, hr, hr0, hc⟩ := hg
      -- the generator resumes with `n = n + 1`
      have hres : resume c rf st.size none g st.seekPos st.loopNo =
          (match g.pc with
            | .y2 => inner2 c rf st.size 4 none { g with n := g.n + 1 } st.seekPos st.loopNo
            | _ => loop1 c rf st.size 4 none { g with n := g.n + 1 } st.seekPos st.loopNo) := by
        cases hp : g.pc <;> simp_all [resume, advance]
      by_cases hlt : sp.nxt < c.nf
      · -- inside a pass
        have hyield : ∃ g', resume c rf st.size none g st.seekPos st.loopNo =
            ⟨.yielded (some (rf sp.nxt st.size)), g', sp.nxt, st.loopNo⟩ ∧
            g'.pc ≠ .fresh ∧ g'.n = g.n + 1 ∧ g'.rep = g.rep ∧ cacheInv rf g'.cache := by
          have hnat : (g.n + 1).toNat = sp.nxt := by omega
          cases hp : g.pc with
          | fresh => exact absurd hp hpc
          | y1 =>
            obtain ⟨g', he, h2, h3, h4, h5⟩ := loop1_yield c rf st.size 3 { g with n := g.n + 1 } st.seekPos st.loopNo
              (by simpa using hr0) (by simp; omega) (by simp; omega) hc
            simp only [hnat, hp] at he
            exact ⟨g', by rw [hres]; simp only [hp]; exact he, by simp [h2], by simpa using h3, by simpa using h4, h5⟩
          | y2 =>
            obtain ⟨g', he, h2, h3, h4, h5⟩ := inner2_yield c rf st.size 3 { g with n := g.n + 1 } st.seekPos st.loopNo
              (by simp; omega) (by simp; omega) hc
            simp only [hnat, hp] at he
            exact ⟨g', by rw [hres]; simp only [hp]; exact he, by simp [h2], by simpa using h3, by simpa using h4, h5⟩
        obtain ⟨g', he, h2, h3, h4, h5⟩ := hyield
        simp only [step, hgen, he, specStep, hcl, hst]
        simp [hlt, R, hz, h2, h3, h4, h5, hl, hcl, hr0]
        refine ⟨?_, ?_, ?_⟩ <;> omega
      · -- a pass has ended
        have hn' : (g.n + 1) = (c.nf : Int) := by omega
        have heof :
            let rep' := if g.rep > 0 then g.rep - 1 else g.rep
            let ln' := if g.rep > 0 then some (g.rep - 1) else st.loopNo
            (rep' = 0 → ∃ g', resume c rf st.size none g st.seekPos st.loopNo = ⟨.returned, g', 0, ln'⟩) ∧
            (rep' ≠ 0 → ∃ g', resume c rf st.size none g st.seekPos st.loopNo =
                ⟨.yielded (some (rf 0 st.size)), g', 0, ln'⟩ ∧
                g'.pc ≠ .fresh ∧ g'.n = 0 ∧ g'.rep = rep' ∧ cacheInv rf g'.cache) := by
          cases hp : g.pc with
          | fresh => exact absurd hp hpc
          | y1 =>
            have := loop1_eof c rf st.size { g with n := g.n + 1 } st.seekPos st.loopNo hnf (by simpa using hn')
              (by simpa using hr0) hc
            simpa [hres, hp] using this
          | y2 =>
            have := inner2_eof c rf st.size { g with n := g.n + 1 } st.seekPos st.loopNo hnf (by simpa using hn') hc
            simpa [hres, hp] using this
        obtain ⟨hA, hB⟩ := heof
        by_cases h0 : (if g.rep > 0 then g.rep - 1 else g.rep) = 0
        · obtain ⟨g', he⟩ := hA h0
          rw [hr] at h0
          simp only [step, hgen, he, specStep, hcl, hst]
          simp [hlt, h0, R, hz, hr, hl]
        · obtain ⟨g', he, h2, h3, h4, h5⟩ := hB h0
          have h0' := h0
          rw [hr] at h0
          simp only [step, hgen, he, specStep, hcl, hst]
          simp [hlt, h0, R, hz, hr, hl, h2, h3, h5, hcl]
          rw [h4, hr]
          refine ⟨?_, ?_, ?_, ?_⟩ <;> first | omega | rfl | exact h0

theorem sim_seek (st : St α) (sp : Sp) (h : R c rf st sp) (p : Int) :
    (step c rf st (.seek p)).2 = (specStep c rf sp (.seek p)).2 ∧
      R c rf (step c rf st (.seek p)).1 (specStep c rf sp (.seek p)).1 := by
  have h' := h
  obtain ⟨hs, hl, hz, hg⟩ := h
  by_cases hp : p < 0 ∨ p ≥ (c.nf : Int)
  · simp only [step, specStep, hp, if_true]; exact ⟨trivial, h'⟩
  · cases hgen : st.gen with
    | none =>
      rw [hgen] at hg
      simp only [step, specStep, hp, if_false, hgen, hg]
      exact ⟨by simp, h'⟩
    | some g =>
      rw [hgen] at hg
      obtain ⟨hcl, hg⟩ := hg
      by_cases hpc : g.pc = .fresh
      · simp only [hpc, if_true] at hg
        simp only [step, specStep, hp, if_false, hgen, hcl, hg, hpc]
        exact ⟨by simp, h'⟩
      · simp only [hpc, if_false] at hg
        obtain ⟨hst, hn, hle, hr, hr0, hc⟩ := hg
        have hlt : ((p.toNat : Int) - 1) < (c.nf : Int) := by omega
        have hres : resume c rf st.size (some p.toNat) g st.seekPos st.loopNo =
            ⟨.yielded g.frame, { g with n := (p.toNat : Int) - 1, pc := g.pc }, st.seekPos, st.loopNo⟩ := by
          cases hpp : g.pc with
          | fresh => exact absurd hpp hpc
          | y1 => simp only [resume, hpp, advance]; rw [loop1_sent c rf st.size 3 _ _ _ _ (by simpa using hr0)]
          | y2 => simp only [resume, hpp, advance]; rw [inner2_sent c rf st.size 3 _ _ _ _ (by simpa using hlt)]
        simp only [step, specStep, hp, if_false, hgen, hcl, hst, hpc, hres]
        simp [R, hs, hl, hz, hcl, hpc, hst, hr, hc]
        rw [← hr]; exact ⟨by omega, hr0⟩

theorem sim_step (hnf : 0 < c.nf) (hrep : c.rep ≠ 0) (st : St α) (sp : Sp) (h : R c rf st sp) (op : Op) :
    (step c rf st op).2 = (specStep c rf sp op).2 ∧ R c rf (step c rf st op).1 (specStep c rf sp op).1 := by
  cases op with
  | next => exact sim_next c rf hnf hrep st sp h
  | seek p => exact sim_seek c rf st sp h p
  | seekBad => exact ⟨rfl, h⟩
  | render =>
    obtain ⟨hs, _, hz, _⟩ := id h
    exact ⟨by simp [step, specStep, hs, hz], h⟩
  | pilSeek k => exact ⟨rfl, h⟩
  | close =>
    obtain ⟨hs, hl, hz, _⟩ := h
    simp [step, specStep, R, hs, hl, hz]
  | setSize s =>
    obtain ⟨hs, hl, hz, hg⟩ := h
    refine ⟨rfl, hs, hl, rfl, ?_⟩
    simpa [step, specStep] using hg
  | imgSeek k =>
    have h' := h
    obtain ⟨hs, hl, hz, hg⟩ := h
    by_cases hk : k < 0 ∨ k ≥ (c.nf : Int)
    · simp only [step, specStep, hk, if_true]; exact ⟨trivial, h'⟩
    · simp only [step, specStep, hk, if_false]
      refine ⟨trivial, rfl, hl, hz, ?_⟩
      simpa using hg

/-- REFINEMENT, every history: the generator-based iterator (with or without cache) answers
    every operation exactly as the specification does -/
theorem run_refines (hnf : 0 < c.nf) (hrep : c.rep ≠ 0) (ops : List Op) (st : St α) (sp : Sp)
    (h : R c rf st sp) : run c rf st ops = specRun c rf sp ops := by
  induction ops generalizing st sp with
  | nil => rfl
  | cons op ops ih =>
    obtain ⟨ha, hR⟩ := sim_step c rf hnf hrep st sp h op
    obtain ⟨hs, hl, _, _⟩ := id hR
    simp only [run, specRun]
    rw [ih _ _ hR, ha, hs, hl]

/-! ## the closed form: `r` passes of `0 … nf-1`, then StopIteration -/

/-- the specification's state after a history -/
def specFinal (sp : Sp) : List Op → Sp
  | [] => sp
  | op :: ops => specFinal (specStep (α := α) c rf sp op).1 ops

theorem specRun_append (a b : List Op) : ∀ sp : Sp,
    specRun c rf sp (a ++ b) = specRun c rf sp a ++ specRun c rf (specFinal c rf sp a) b := by
  induction a with
  | nil => intro sp; rfl
  | cons op ops ih => intro sp; simp only [List.cons_append, specRun, specFinal, ih, List.cons_append]

/-- inside a pass labelled `ℓ` (`loop_no`), positioned at frame `k`, size `z` -/
def InPass (sp : Sp) (k : Nat) (ℓ : Int) (z : Nat) : Prop :=
  sp.started = true ∧ sp.closed = false ∧ sp.nxt = k ∧ sp.rep = ℓ ∧ sp.loopNo = some ℓ ∧ sp.size = z

/-- the observations of `m` frames `a, a+1, …` of a pass labelled `ℓ` -/
def passObs (ℓ : Int) (z a m : Nat) : List (Obs α) :=
  (List.range m).map (fun j => ⟨.frame (some (rf (a + j) z)), a + j, some ℓ⟩)

theorem passObs_succ (ℓ : Int) (z a m : Nat) :
    passObs rf ℓ z a (m + 1) = (⟨.frame (some (rf a z)), a, some ℓ⟩ : Obs α) :: passObs rf ℓ z (a + 1) m := by
  simp only [passObs, List.range_succ_eq_map, List.map_cons, List.map_map, Nat.add_zero]
  congr 1
  apply List.map_congr_left
  intro j _
  simp [Nat.add_assoc, Nat.add_comm 1 j]

theorem inPass_run (m : Nat) : ∀ (sp : Sp) (k : Nat) (ℓ : Int) (z : Nat), InPass sp k ℓ z → k + m ≤ c.nf →
    specRun c rf sp (List.replicate m .next) = passObs rf ℓ z k m ∧
    InPass (specFinal c rf sp (List.replicate m .next)) (k + m) ℓ z := by
  induction m with
  | zero => intro sp k ℓ z h _; exact ⟨rfl, by simpa [specFinal] using h⟩
  | succ m ih =>
    intro sp k ℓ z h hm
    obtain ⟨hs, hc, hn, hr, hl, hz⟩ := h
    have hlt : sp.nxt < c.nf := by omega
    have hstep : specStep c rf sp .next =
        ({ sp with seekPos := sp.nxt, nxt := sp.nxt + 1 }, (.frame (some (rf sp.nxt sp.size)) : Ans α)) := by
      simp [specStep, hc, hs, hlt]
    have hin : InPass { sp with seekPos := sp.nxt, nxt := sp.nxt + 1 } (k + 1) ℓ z :=
      ⟨hs, hc, by simp [hn], hr, hl, hz⟩
    obtain ⟨h1, h2⟩ := ih _ (k + 1) ℓ z hin (by omega)
    simp only [List.replicate_succ, specRun, specFinal, hstep]
    refine ⟨?_, ?_⟩
    · rw [h1, passObs_succ, hn, hz, hl]
    · have : k + (m + 1) = k + 1 + m := by omega
      rw [this]; exact h2

/-- the step over a pass boundary when more passes remain -/
theorem boundary_step (sp : Sp) (K : Nat) (z : Nat) (h : InPass sp c.nf ((K : Int) + 2) z) :
    (specStep c rf sp .next).2 = (.frame (some (rf 0 z)) : Ans α) ∧
    (specStep (α := α) c rf sp .next).1.seekPos = 0 ∧
    InPass (specStep (α := α) c rf sp .next).1 1 ((K : Int) + 1) z := by
  obtain ⟨hs, hc, hn, hr, hl, hz⟩ := h
  have hlt : ¬ sp.nxt < c.nf := by omega
  have hpos : sp.rep > 0 := by omega
  have h0 : ¬ (sp.rep - 1 = 0) := by omega
  have hr1 : sp.rep - 1 = (K : Int) + 1 := by omega
  have hK : ¬ ((K : Int) + 1 = 0) := by omega
  simp [specStep, hc, hs, hlt, hpos, h0, InPass, hz, hr1, hK]

/-- the step over the last pass boundary -/
theorem last_step (sp : Sp) (z : Nat) (h : InPass sp c.nf 1 z) :
    (specStep c rf sp .next).2 = (.stop : Ans α) ∧ (specStep (α := α) c rf sp .next).1.seekPos = 0 ∧
    (specStep (α := α) c rf sp .next).1.loopNo = some 0 := by
  obtain ⟨hs, hc, hn, hr, hl, hz⟩ := h
  have hlt : ¬ sp.nxt < c.nf := by omega
  simp [specStep, hc, hs, hlt, hr]

/-- a whole pass that starts with a step `sp → sp1` yielding frame 0 -/
theorem pass_from_step (hnf : 0 < c.nf) (sp : Sp) (ℓ : Int) (z : Nat)
    (h2 : (specStep c rf sp .next).2 = (.frame (some (rf 0 z)) : Ans α))
    (hs : (specStep (α := α) c rf sp .next).1.seekPos = 0)
    (hin : InPass (specStep (α := α) c rf sp .next).1 1 ℓ z) :
    specRun c rf sp (List.replicate c.nf .next) = passObs rf ℓ z 0 c.nf ∧
    InPass (specFinal c rf sp (List.replicate c.nf .next)) c.nf ℓ z := by
  obtain ⟨n, hn⟩ : ∃ n, c.nf = n + 1 := ⟨c.nf - 1, by omega⟩
  obtain ⟨h1, h3⟩ := inPass_run c rf n _ 1 ℓ z hin (by omega)
  rw [hn, List.replicate_succ]
  simp only [specRun, specFinal]
  refine ⟨?_, ?_⟩
  · rw [h1, passObs_succ, h2, hs, hin.2.2.2.2.1]
  · have : n + 1 = 1 + n := by omega
    rw [this]; exact h3

/-- from the end of a pass with `K + 1` as the repeat count: `K` more passes, labelled
    `K, K-1, …, 1`, then StopIteration with the image at frame 0 -/
theorem spec_passes (hnf : 0 < c.nf) (K : Nat) : ∀ (sp : Sp) (z : Nat), InPass sp c.nf ((K : Int) + 1) z →
    specRun c rf sp (List.replicate (K * c.nf + 1) .next) =
      (List.range K).flatMap (fun p => passObs rf (((K - p : Nat) : Int)) z 0 c.nf) ++
        [(⟨.stop, 0, some 0⟩ : Obs α)] := by
  induction K with
  | zero =>
    intro sp z h
    obtain ⟨a, b, d⟩ := last_step c rf sp z (by simpa using h)
    simp [specRun, a, b, d]
  | succ K ih =>
    intro sp z h
    have hb := boundary_step c rf sp K z (by
      have : ((K + 1 : Nat) : Int) + 1 = (K : Int) + 2 := by omega
      rw [← this]; exact h)
    obtain ⟨h1, h2⟩ := pass_from_step c rf hnf sp ((K : Int) + 1) z hb.1 hb.2.1 hb.2.2
    have hsplit : (K + 1) * c.nf + 1 = c.nf + (K * c.nf + 1) := by
      rw [Nat.add_mul]; omega
    rw [hsplit, ← List.replicate_append_replicate, specRun_append, h1, ih _ z h2]
    rw [List.range_succ_eq_map, List.flatMap_cons, List.flatMap_map, List.append_assoc]
    have hlab : ((K : Int) + 1) = (((K + 1 - 0 : Nat)) : Int) := by simp
    rw [hlab]
    congr 2
    simp only [Nat.succ_eq_add_one, Nat.add_sub_add_right]

end
end TIV.C11
