/-!
# C16 — render-argument sets: executable model

Mirror of `src/term_image/renderable/_types.py` (`RenderArgs`, `ArgsNamespace`, the namespace
metaclasses) and of `RenderableMeta.__new__` in `_renderable.py`, written branch by branch in the
order of the code.

* A render class is a number (its index in the class table `State.T`); class `0` is `Renderable`.
  A class record holds what the metaclass stores on the class: its ancestor list `mro`
  (self first, `Renderable` last — the `Renderable` part of `__mro__`), `args` (`cls.Args`: the
  default field vector of its namespace class, if one is associated) and `ada`
  (`cls._ALL_DEFAULT_ARGS`, an insertion-ordered dict as an association list).
* A namespace *value* is `(cls, vals)`; namespaces are immutable and have no observable identity.
* `RenderArgs` objects live in a heap (`State.objs`, identity = index; object `0` is
  `BASE_RENDER_ARGS`) and `State.interned` is `RenderArgs._interned`.
  `__init__` is modelled as a *write* into the heap at whatever identity `__new__` returned — so
  "no existing object changes" is a theorem, not a feature of the encoding.
-/
namespace TIV.C16

abbrev Cls := Nat

/-- an `ArgsNamespace` instance: the render class it is associated with, its field values, and
    which class of the namespace-class family it is an instance of (`tag`: 0 = the class that was
    associated, `render_cls.Args`; n > 0 = one of its field-less subclasses `class Sub(A.Args): pass`,
    which inherit fields and association). `__eq__` and `__hash__` do not look at `tag`. -/
structure NS where
  cls : Cls
  vals : List Int
  tag : Nat
deriving DecidableEq, Repr, Inhabited

/-- an insertion-ordered `dict[type[Renderable], ArgsNamespace]` -/
abbrev Dict := List (Cls × NS)

inductive Err
  | IncompatibleRenderArgsError | IncompatibleArgsNamespaceError | NoArgsNamespaceError
  | ValueError | TypeError | UnknownArgsFieldError | RenderArgsError | RenderArgsDataError
  | UnassociatedNamespaceError | RenderDataError | UnknownDataFieldError | AttributeError
deriving DecidableEq, Repr

def Err.name : Err → String
  | .IncompatibleRenderArgsError => "IncompatibleRenderArgsError"
  | .IncompatibleArgsNamespaceError => "IncompatibleArgsNamespaceError"
  | .NoArgsNamespaceError => "NoArgsNamespaceError"
  | .ValueError => "ValueError"
  | .TypeError => "TypeError"
  | .UnknownArgsFieldError => "UnknownArgsFieldError"
  | .RenderArgsError => "RenderArgsError"
  | .RenderArgsDataError => "RenderArgsDataError"
  | .UnassociatedNamespaceError => "UnassociatedNamespaceError"
  | .RenderDataError => "RenderDataError"
  | .UnknownDataFieldError => "UnknownDataFieldError"
  | .AttributeError => "AttributeError"

/-! ## dict operations -/

def keys (d : Dict) : List Cls := d.map Prod.fst

/-- `d.get(k)` -/
def get? : Dict → Cls → Option NS
  | [], _ => none
  | (k', v) :: r, k => if k' = k then some v else get? r k

/-- `d[k] = v` : replaces in place when the key exists, appends otherwise -/
def dset (d : Dict) (k : Cls) (v : NS) : Dict :=
  if k ∈ keys d then d.map (fun e => if e.1 = k then (k, v) else e) else d ++ [(k, v)]

/-- `d.update(src)` -/
def dupdate (d src : Dict) : Dict := src.foldl (fun d e => dset d e.1 e.2) d

/-- the `for index, namespace in enumerate(namespaces)` loop of `RenderArgs.__init__` -/
def applyNss (d : Dict) : List NS → Except Err Dict
  | [] => .ok d
  | ns :: rest =>
    if ns.cls ∈ keys d then applyNss (dset d ns.cls ns) rest
    else .error .IncompatibleArgsNamespaceError

/-! ## state -/

structure ClassRec where
  mro : List Cls
  args : Option (List Int)
  ada : Dict
deriving DecidableEq, Repr

structure Obj where
  rcls : Cls
  nss : Dict
deriving DecidableEq, Repr

structure State where
  T : List ClassRec
  objs : List Obj
  interned : List (Cls × Nat)
deriving Repr

/-- after `import term_image.renderable`: `Renderable` exists without `Args`;
    `BASE_RENDER_ARGS` is object 0, initialised by `RenderArgs.__init__(BASE_RENDER_ARGS, Renderable)`
    which also interns it for `Renderable`. -/
def State.init : State := ⟨[⟨[0], none, []⟩], [⟨0, []⟩], [(0, 0)]⟩

def State.mro (S : State) (c : Cls) : List Cls := match S.T[c]? with | some r => r.mro | none => []
def State.ada (S : State) (c : Cls) : Dict := match S.T[c]? with | some r => r.ada | none => []
def State.args (S : State) (c : Cls) : Option (List Int) := match S.T[c]? with | some r => r.args | none => none
def State.obj (S : State) (i : Nat) : Obj := match S.objs[i]? with | some o => o | none => ⟨0, []⟩

def iget? : List (Cls × Nat) → Cls → Option Nat
  | [], _ => none
  | (k', v) :: r, k => if k' = k then some v else iget? r k

/-- `RenderArgs._interned.get(c)` -/
def State.internedGet (S : State) (c : Cls) : Option Nat := iget? S.interned c

/-- `issubclass(a, b)` -/
def State.issub (S : State) (a b : Cls) : Bool := decide (b ∈ S.mro a)

/-- `self.render_cls = …; self._namespaces = …` on the object with identity `self`
    (a fresh identity is `objs.length`: the object then comes into existence) -/
def State.write (S : State) (self : Nat) (o : Obj) : State :=
  if self < S.objs.length then { S with objs := S.objs.set self o } else { S with objs := S.objs ++ [o] }

/-- `RenderArgs._interned[c] = i` -/
def State.internedSet (S : State) (c : Cls) (i : Nat) : State :=
  if c ∈ S.interned.map Prod.fst then
    { S with interned := S.interned.map (fun e => if e.1 = c then (c, i) else e) }
  else { S with interned := S.interned ++ [(c, i)] }

/-! ## `RenderableMeta.__new__` followed by the association of the class's `Args` namespace

`class C(P)` and, when `args = some defaults`, `class CArgs(ArgsNamespace, render_cls=C)` right
after it (the documentation requires association before the class is subclassed or used). -/
def State.inherited (S : State) (pm : List Cls) : Dict :=
  -- `for mro_cls in new_cls.__mro__: if mro_cls is not new_cls and mro_cls.Args:
  --      all_default_args[mro_cls] = mro_cls._ALL_DEFAULT_ARGS[mro_cls]`
  pm.filterMap (fun m =>
    if (S.args m).isSome then (get? (S.ada m) m).map (fun ns => (m, ns)) else none)

/-- the record of the class being created (its index is `S.T.length`) -/
def State.newRec (S : State) (parent : Cls) (args : Option (List Int)) : ClassRec :=
  let c := S.T.length
  let pm := S.mro parent
  -- `render_cls._ALL_DEFAULT_ARGS = {render_cls: args_cls(), **render_cls._ALL_DEFAULT_ARGS}`
  let ada : Dict := match args with
    | some d => (c, ⟨c, d, 0⟩) :: S.inherited pm
    | none => S.inherited pm
  ⟨c :: pm, args, ada⟩

def defClass (S : State) (parent : Cls) (args : Option (List Int)) : State × Cls :=
  ({ S with T := S.T ++ [S.newRec parent args] }, S.T.length)

/-! ## `RenderArgs.__new__`, `RenderArgs.__init__`, `RenderArgs(...)` -/

/-- `not init_render_args or init_render_args is BASE_RENDER_ARGS
     or cls._interned.get(init_render_args.render_cls) is init_render_args` -/
def State.defaultish (S : State) (init : Option Nat) : Bool :=
  match init with
  | none => true
  | some i => decide (i = 0) || decide (S.internedGet (S.obj i).rcls = some i)

/-- `init_render_args and not issubclass(render_cls, init_render_args.render_cls)` -/
def State.incompatible (S : State) (rc : Cls) (init : Option Nat) : Bool :=
  match init with
  | some i => !S.issub rc (S.obj i).rcls
  | none => false

/-- `RenderArgs.__new__`: the identity of the object `__init__` will be run on -/
def new (S : State) (rc : Cls) (init : Option Nat) (nss : List NS) : Except Err Nat :=
  if S.incompatible rc init then .error .IncompatibleRenderArgsError
  else
    let fresh := S.objs.length   -- `super().__new__(cls)`
    if nss = [] then
      let viaInterned : Option Nat := if S.defaultish init then S.internedGet rc else none
      match viaInterned with
      | some o => .ok o
      | none =>
        match init with
        | some i => if (S.obj i).rcls = rc then .ok i else .ok fresh
        | none => .ok fresh
    else .ok fresh

/-- `namespaces_dict = render_cls._ALL_DEFAULT_ARGS.copy()` and, if `init_render_args` is
    non-default, `namespaces_dict.update(init_render_args._namespaces)` -/
def State.d1 (S : State) (rc : Cls) (init : Option Nat) : Dict :=
  match init with
  | some i => if S.defaultish (some i) then S.ada rc else dupdate (S.ada rc) (S.obj i).nss
  | none => S.ada rc

/-- `super().__init__(render_cls, namespaces_dict)` and `if intern: _interned[render_cls] = self` -/
def State.finish (S : State) (self : Nat) (rc : Cls) (intern : Bool) (d : Dict) : State :=
  if intern then (S.write self ⟨rc, d⟩).internedSet rc self
  else S.write self ⟨rc, d⟩

/-- `RenderArgs.__init__(self, rc, init, *nss)` -/
def initObj (S : State) (self : Nat) (rc : Cls) (init : Option Nat) (nss : List NS) : Except Err State :=
  let dfl : Bool := decide (nss = []) && S.defaultish init
  if dfl && (S.internedGet rc).isSome then .ok S   -- has been initialized
  else
    let intern := dfl
    if init = some self then .ok S
    else
      match applyNss (S.d1 rc init) nss with
      | .error e => .error e
      | .ok d => .ok (S.finish self rc intern d)

/-- `RenderArgs(rc, init, *nss)` = `type.__call__`: `__new__` then `__init__` on its result -/
def mk (S : State) (rc : Cls) (init : Option Nat) (nss : List NS) : Except Err (State × Nat) :=
  match new S rc init nss with
  | .error e => .error e
  | .ok self =>
    match initObj S self rc init nss with
    | .error e => .error e
    | .ok S' => .ok (S', self)

/-! ## `ArgsNamespace` methods -/

/-- number of fields of the namespace class of `c` -/
def State.nfields (S : State) (c : Cls) : Nat := match S.args c with | some d => d.length | none => 0

/-- `ArgsNamespace.update(**fields)`; a field is named by its position, an unknown name is a
    position `≥` the number of fields -/
def nsUpdate (S : State) (ns : NS) (fields : List (Nat × Int)) : Except Err NS :=
  if fields = [] then .ok ns
  else if fields.any (fun f => decide (S.nfields ns.cls ≤ f.1)) then .error .UnknownArgsFieldError
  else .ok { ns with vals := fields.foldl (fun vs f => vs.set f.1 f.2) ns.vals }   -- `type(self).__new__(type(self))`

/-- `ArgsNamespace.__init__(*values, **fields)` of the namespace class associated with `c`
    whose `_FIELDS` (default vector) is `dflt` -/
def nsInit (c : Cls) (dflt : List Int) (values : List Int) (fields : List (Nat × Int)) (tag : Nat := 0) :
    Except Err NS :=
  if dflt.length < values.length then .error .TypeError
  else if fields.any (fun f => decide (dflt.length ≤ f.1)) then .error .UnknownArgsFieldError
  else if fields.any (fun f => decide (f.1 < values.length)) then .error .TypeError
  else .ok ⟨c, fields.foldl (fun vs f => vs.set f.1 f.2) (values ++ dflt.drop values.length), tag⟩

inductive Operand
  | ns (n : NS)
  | ra (i : Nat)
deriving Repr

/-- `ArgsNamespace.__or__` -/
def nsOr (S : State) (self : NS) (other : Operand) : Except Err (State × Nat) :=
  match other with
  | .ns o =>
    if self.cls = o.cls then mk S o.cls none [o]
    else if S.issub self.cls o.cls then mk S self.cls none [self, o]
    else if S.issub o.cls self.cls then mk S o.cls none [self, o]
    else .error .IncompatibleArgsNamespaceError
  | .ra i =>
    let oc := (S.obj i).rcls
    if S.issub self.cls oc then mk S self.cls (some i) [self]
    else if S.issub oc self.cls then mk S oc (some i) [self]
    else .error .IncompatibleRenderArgsError

/-- `ArgsNamespace.__ror__` -/
def nsRor (S : State) (self : NS) (other : Operand) : Except Err (State × Nat) :=
  match other with
  | .ns o => if self.cls = o.cls then mk S self.cls none [self] else nsOr S self other
  | .ra _ => nsOr S self other

/-- `ArgsNamespace.__pos__` -/
def nsPos (S : State) (self : NS) : Except Err (State × Nat) := mk S self.cls none [self]

/-- `ArgsNamespace.to_render_args(render_cls=None)` -/
def nsToRA (S : State) (self : NS) (rc : Option Cls) : Except Err (State × Nat) :=
  mk S (match rc with | some c => c | none => self.cls) none [self]

/-- `ArgsNamespace.__eq__`: `type(self)._RENDER_CLS is type(other)._RENDER_CLS and all fields equal` -/
def nsEq (a b : NS) : Bool := decide (a.cls = b.cls) && decide (a.vals = b.vals)

/-- what `ArgsNamespace.__hash__` hashes: `(type(self)._RENDER_CLS, tuple(field values))` -/
def nsHashKey (n : NS) : Cls × List Int := (n.cls, n.vals)

/-- `namespace.<field>`: `UnknownArgsFieldError` (an `AttributeError`) from `__getattr__` for a name
    that is neither a field nor any other attribute -/
def nsGetattr (n : NS) (idx : Nat) : Except Err Int :=
  match n.vals[idx]? with
  | some v => .ok v
  | none => .error .UnknownArgsFieldError

/-- `namespace.<name> = v` and `del namespace.<name>`: always `AttributeError`, nothing changes -/
def nsSetattr (_n : NS) (_idx : Nat) (_v : Int) : Err := .AttributeError
def nsDelattr (_n : NS) (_idx : Nat) : Err := .AttributeError

/-- `render_args[x]` for an `x` that is not a render class (unhashable, or not a `RenderableMeta`) -/
def getitemNonClass : Err := .TypeError

/-! ## `RenderArgs` methods -/

/-- `RenderArgs.__getitem__` (for an argument that is a render class) -/
def getitem (S : State) (self : Nat) (rc : Cls) : Except Err NS :=
  match get? (S.obj self).nss rc with
  | some ns => .ok ns
  | none => if S.issub (S.obj self).rcls rc then .error .NoArgsNamespaceError else .error .ValueError

inductive First
  | cls (c : Cls)
  | ns (n : NS)
deriving Repr

/-- `RenderArgs.update(render_cls_or_namespace, /, *namespaces, **fields)` -/
def update (S : State) (self : Nat) (first : First) (nss : List NS) (fields : List (Nat × Int)) :
    Except Err (State × Nat) :=
  match first with
  | .cls c =>
    if nss ≠ [] then .error .TypeError
    else match getitem S self c with
      | .error e => .error e
      | .ok cur => match nsUpdate S cur fields with
        | .error e => .error e
        | .ok n => mk S (S.obj self).rcls (some self) [n]
  | .ns n =>
    if fields ≠ [] then .error .TypeError
    else mk S (S.obj self).rcls (some self) (n :: nss)

/-- `RenderArgs.convert(render_cls)` -/
def convert (S : State) (self : Nat) (rc : Cls) : Except Err (State × Nat) :=
  let sc := (S.obj self).rcls
  if rc = sc then .ok (S, self)
  else if S.issub rc sc then mk S rc (some self) []
  else if S.issub sc rc then
    mk S rc none (((S.obj self).nss.filter (fun e => decide (e.1 ∈ keys (S.ada rc)))).map Prod.snd)
  else .error .ValueError

/-- `dict.__eq__` on two `_namespaces` mappings -/
def dictEq (a b : Dict) : Bool :=
  decide (a.length = b.length) &&
    a.all (fun e => match get? b e.1 with | some v => nsEq e.2 v | none => false)

/-- `RenderArgs.__eq__` -/
def raEq (S : State) (i j : Nat) : Bool :=
  decide (i = j) || (decide ((S.obj i).rcls = (S.obj j).rcls) && dictEq (S.obj i).nss (S.obj j).nss)

/-- what `RenderArgs.__hash__` hashes: `(render_cls, tuple(namespaces.values()))` where a namespace
    hashes `(render_cls, tuple(field values))` -/
def hashKey (S : State) (i : Nat) : Cls × List (Cls × List Int) :=
  ((S.obj i).rcls, (S.obj i).nss.map (fun e => nsHashKey e.2))

/-- Field values are opaque to the model except for equality; a value `≥ 1000` stands for an
    *unhashable* Python object (list, dict, set, bytearray). Such values are legal everywhere; only an
    explicit `hash()` of a namespace / set that holds one raises `TypeError` ("like tuples, an instance is
    hashable if and only if the field values are hashable"). -/
def unhashableVal (v : Int) : Bool := decide (1000 ≤ v)

/-- `hash(namespace)` -/
def nsHash (n : NS) : Except Err (Cls × List Int) :=
  if n.vals.any unhashableVal then .error .TypeError else .ok (nsHashKey n)

/-- `hash(render_args)` -/
def raHash (S : State) (i : Nat) : Except Err (Cls × List (Cls × List Int)) :=
  if (S.obj i).nss.any (fun e => e.2.vals.any unhashableVal) then .error .TypeError else .ok (hashKey S i)

/-- `RenderArgs.__contains__` -/
def contains (S : State) (i : Nat) (ns : NS) : Bool :=
  match get? (S.obj i).nss ns.cls with
  | some v => nsEq v ns
  | none => false

/-! ## the specification: "for each class in the hierarchy the last namespace given for it, else
the initial set's, else the default" -/

/-- the last namespace of `nss` associated with `k` -/
def lastNs (k : Cls) : List NS → Option NS
  | [] => none
  | ns :: rest => match lastNs k rest with
    | some v => some v
    | none => if ns.cls = k then some ns else none

/-- the default namespace of class `k` -/
def State.dflNs (S : State) (k : Cls) : NS := ⟨k, (match S.args k with | some d => d | none => []), 0⟩

/-- the classes of the hierarchy of `rc` that have render arguments, most derived first -/
def State.argClasses (S : State) (rc : Cls) : List Cls := (S.mro rc).filter (fun m => (S.args m).isSome)

def specVal (S : State) (init : Option Nat) (nss : List NS) (k : Cls) : NS :=
  match lastNs k nss with
  | some v => v
  | none =>
    match init with
    | some i => (match get? (S.obj i).nss k with | some v => v | none => S.dflNs k)
    | none => S.dflNs k

def spec (S : State) (rc : Cls) (init : Option Nat) (nss : List NS) : Obj :=
  ⟨rc, (S.argClasses rc).map (fun k => (k, specVal S init nss k))⟩

/-! ## operation histories -/

inductive Op
  | defClass (parent : Cls) (args : Option (List Int))
  | mk (rc : Cls) (init : Option Nat) (nss : List NS)
  | update (self : Nat) (first : First) (nss : List NS) (fields : List (Nat × Int))
  | convert (self : Nat) (rc : Cls)
  | nsOr (self : NS) (other : Operand)
  | nsRor (self : NS) (other : Operand)
  | nsPos (self : NS)
  | nsToRA (self : NS) (rc : Option Cls)
deriving Repr

inductive Res
  | cls (c : Cls)
  | ra (i : Nat)
  | err (e : Err)
  | bad            -- the request refers to a class / object / namespace that does not exist
deriving Repr

def State.validCls (S : State) (c : Cls) : Bool := decide (c < S.T.length)
def State.validObj (S : State) (i : Nat) : Bool := decide (i < S.objs.length)
/-- a namespace instance exists only for an associated namespace class and has all its fields -/
def State.validNs (S : State) (n : NS) : Bool :=
  match S.args n.cls with
  | some d => decide (d.length = n.vals.length)
  | none => false
def State.validOperand (S : State) : Operand → Bool
  | .ns n => S.validNs n
  | .ra i => S.validObj i
def State.validFirst (S : State) : First → Bool
  | .cls c => S.validCls c
  | .ns n => S.validNs n
def State.validInit (S : State) : Option Nat → Bool
  | none => true
  | some i => S.validObj i

def Op.valid (S : State) : Op → Bool
  | .defClass p _ => S.validCls p
  | .mk rc init nss => S.validCls rc && S.validInit init && nss.all S.validNs
  | .update self first nss _ => S.validObj self && S.validFirst first && nss.all S.validNs
  | .convert self rc => S.validObj self && S.validCls rc
  | .nsOr self other => S.validNs self && S.validOperand other
  | .nsRor self other => S.validNs self && S.validOperand other
  | .nsPos self => S.validNs self
  | .nsToRA self rc => S.validNs self && (match rc with | some c => S.validCls c | none => true)

def ofExcept (S : State) : Except Err (State × Nat) → State × Res
  | .ok (S', i) => (S', .ra i)
  | .error e => (S, .err e)

def step (S : State) (op : Op) : State × Res :=
  if op.valid S then
    match op with
    | .defClass p a => let (S', c) := defClass S p a; (S', .cls c)
    | .mk rc init nss => ofExcept S (mk S rc init nss)
    | .update self first nss fields => ofExcept S (update S self first nss fields)
    | .convert self rc => ofExcept S (convert S self rc)
    | .nsOr self other => ofExcept S (nsOr S self other)
    | .nsRor self other => ofExcept S (nsRor S self other)
    | .nsPos self => ofExcept S (nsPos S self)
    | .nsToRA self rc => ofExcept S (nsToRA S self rc)
  else (S, .bad)

def runOps (S : State) : List Op → State
  | [] => S
  | op :: rest => runOps (step S op).1 rest

/-! ## namespace class definition: `ArgsNamespaceMeta.__new__` ∘ `ArgsDataNamespaceMeta.__new__`

A namespace class record: its `_FIELDS` (default vector; field names are positions), whether it
is associated and with which render class. Namespace class `0` is `ArgsNamespace` itself. -/

structure NsCls where
  fields : List Int
  associated : Bool
  rcls : Cls
deriving DecidableEq, Repr

structure DState where
  ns : List NsCls              -- render argument namespace classes defined so far (0 = `ArgsNamespace`)
  argsOf : List (Option Nat)   -- per render class: `cls.Args` (index into `ns`)
  dns : List NsCls             -- render data namespace classes (0 = `DataNamespace`); `fields` = one 0 per field
  dataOf : List (Option Nat)   -- per render class: `cls._Data_` (index into `dns`)
deriving Repr

def DState.init (nRender : Nat) : DState :=
  ⟨[⟨[], false, 0⟩], List.replicate nRender none, [⟨[], false, 0⟩], List.replicate nRender none⟩

/-- `class X(*bases, render_cls=rc): <annotations>`; `annot` lists, per annotated field, its
    default if the class body assigns one. Returns the new namespace class's index. -/
def defineNs (D : DState) (bases : List Nat) (annot : List (Option Int)) (rc : Option Cls) :
    Except Err (DState × Nat) :=
  -- ArgsNamespaceMeta.__new__: `defaults = {name: namespace[name] for name in annotations}`
  if annot.any (fun a => a.isNone) then .error .RenderArgsError        -- "Field … has no default value"
  else
    let defaults := annot.filterMap id
    -- ArgsDataNamespaceMeta.__new__
    match bases with
    | [] => .error .TypeError      -- not reachable with a class statement deriving from a namespace class
    | _ :: _ :: _ => .error .RenderArgsDataError                        -- "Multiple base classes"
    | [b] =>
      match D.ns[b]? with
      | none => .error .TypeError
      | some base =>
        if base.fields ≠ [] ∧ defaults ≠ [] then .error .RenderArgsDataError   -- inherit and define
        else
          let fields := if base.fields ≠ [] then base.fields else defaults
          match rc with
          | some c =>
            if base.associated then .error .RenderArgsDataError          -- "Cannot reassociate"
            else if defaults = [] then .error .RenderArgsDataError       -- "no fields"
            else match D.argsOf[c]? with
              | none => .error .TypeError                                -- not a render class
              | some (some _) => .error .RenderArgsError                 -- "already has an associated …"
              | some none =>
                let i := D.ns.length
                .ok ({ D with ns := D.ns ++ [⟨fields, true, c⟩], argsOf := D.argsOf.set c (some i) }, i)
          | none =>
            if defaults ≠ [] then .error .RenderArgsDataError            -- "Unassociated … with fields"
            else
              let i := D.ns.length
              .ok ({ D with ns := D.ns ++ [⟨fields, base.associated, base.rcls⟩] }, i)

/-- `X(*values, **fields)` for namespace class `i`: `ArgsDataNamespace.__new__` then
    `ArgsNamespace.__init__` -/
def instantiate (D : DState) (i : Nat) (values : List Int) (fields : List (Nat × Int)) : Except Err NS :=
  match D.ns[i]? with
  | none => .error .TypeError
  | some k =>
    if !k.associated then .error .UnassociatedNamespaceError
    else nsInit k.rcls k.fields values fields

/-- `class X(*bases, render_cls=rc): <n annotations>` for render *data* namespaces:
    `DataNamespaceMeta.__new__` ∘ `ArgsDataNamespaceMeta.__new__` (no defaults are required) -/
def defineData (D : DState) (bases : List Nat) (nfields : Nat) (rc : Option Cls) :
    Except Err (DState × Nat) :=
  match bases with
  | [] => .error .TypeError
  | _ :: _ :: _ => .error .RenderArgsDataError                          -- "Multiple base classes"
  | [b] =>
    match D.dns[b]? with
    | none => .error .TypeError
    | some base =>
      if base.fields ≠ [] ∧ nfields ≠ 0 then .error .RenderArgsDataError   -- inherit and define
      else
        let fields := if base.fields ≠ [] then base.fields else List.replicate nfields 0
        match rc with
        | some c =>
          if base.associated then .error .RenderArgsDataError            -- "Cannot reassociate"
          else if nfields = 0 then .error .RenderArgsDataError           -- "no fields"
          else match D.dataOf[c]? with
            | none => .error .TypeError                                  -- not a render class
            | some (some _) => .error .RenderDataError                   -- "already has an associated …"
            | some none =>
              let i := D.dns.length
              .ok ({ D with dns := D.dns ++ [⟨fields, true, c⟩], dataOf := D.dataOf.set c (some i) }, i)
        | none =>
          if nfields ≠ 0 then .error .RenderArgsDataError                -- "Unassociated … with fields"
          else
            let i := D.dns.length
            .ok ({ D with dns := D.dns ++ [⟨fields, base.associated, base.rcls⟩] }, i)

/-- `X().update(**fields)` for data namespace class `i`: `ArgsDataNamespace.__new__`, then
    `DataNamespace.update`; returns the fields that are now initialised -/
def dataUpdate (D : DState) (i : Nat) (fields : List (Nat × Int)) : Except Err (List (Nat × Int)) :=
  match D.dns[i]? with
  | none => .error .TypeError
  | some k =>
    if !k.associated then .error .UnassociatedNamespaceError
    else if fields.any (fun f => decide (k.fields.length ≤ f.1)) then .error .UnknownDataFieldError
    else .ok fields

end TIV.C16
