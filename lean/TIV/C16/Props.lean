import TIV.C16.Proofs
import TIV.C16.Generated
/-!
# C16 — property theorems: render-argument sets obey their precedence, compatibility and
immutability laws

Every theorem is over `Reach S`: *any* state reached from the state after import by *any* history
of class definitions (any forest, any subset of classes owning a namespace, any defaults) and
render-argument operations; requests that refer to things that do not exist are no-ops of the
history (`Op.valid`). `spec` is the documented rule: for each class of the hierarchy that has
render arguments, the last namespace given for it, else the initial set's, else the default.
-/
namespace TIV.C16

/-! ## translator tie -/

/-- the state the model starts from is what the live package shows after import: `Renderable` has
    no `Args`, `BASE_RENDER_ARGS` is an empty set for `Renderable` and is interned for it -/
theorem generated_init :
    (⟨[Generated.renderable], [Generated.baseRenderArgs], Generated.interned⟩ : State) = State.init := rfl

/-- every error of the model is an exception class that exists, and the documented hierarchy holds -/
theorem generated_errors :
    (∀ e : Err, e.name ∈ Generated.errNames) ∧
    ("IncompatibleRenderArgsError", "RenderArgsError") ∈ Generated.errSubclass ∧
    ("IncompatibleArgsNamespaceError", "RenderArgsError") ∈ Generated.errSubclass ∧
    ("UnknownArgsFieldError", "RenderArgsError") ∈ Generated.errSubclass ∧
    ("RenderArgsError", "RenderArgsDataError") ∈ Generated.errSubclass ∧
    Generated.slots = ["render_cls", "_namespaces"] := by
  refine ⟨fun e => by cases e <;> decide, by decide, by decide, by decide, by decide, by decide⟩

/-! ## the interning invariant -/

/-- INVARIANT (what makes the identity shortcuts of `__new__` sound): after any history, every
    interned object is the all-default set of its class. -/
theorem interned_default (ops : List Op) (c i : Nat) :
    let S := runOps State.init ops
    S.internedGet c = some i →
      S.objs[i]? = some (spec S c none []) ∧
      spec S c none [] = ⟨c, (S.argClasses c).map (fun k => (k, S.dflNs k))⟩ := by
  intro S h
  have hI : Inv S := reach_inv ⟨ops, rfl⟩
  have ho := hI.intern c i h
  have hc : c < S.T.length := (hI.objs i _ ho).1
  refine ⟨?_, rfl⟩
  rw [spec_default S hI c hc none (fun i hi => by cases hi) (fun i hi => by cases hi) rfl]
  exact ho

/-- `_ALL_DEFAULT_ARGS` of a class walks its *render* ancestors only — all of them: it holds exactly
    the classes of the render-class chain `mro c` (self … `Renderable`) that have a namespace class, each
    with its default namespace. Non-render mix-in bases of a render class (`class B(Mixin, A)`,
    `class B(A, Mixin)`) are not part of the model's class tree: they must neither add to nor cut this
    walk (`RenderableMeta.__new__` skips them with `continue`). -/
theorem all_defaults_over_render_ancestors (S : State) (hR : Reach S) (c : Cls) (hc : c < S.T.length) :
    keys (S.ada c) = (S.mro c).filter (fun m => (S.args m).isSome) ∧
    (∀ k ∈ keys (S.ada c), get? (S.ada c) k = some (S.dflNs k)) ∧
    c ∈ S.mro c ∧ (∀ b ∈ S.mro c, ∀ a ∈ S.mro b, a ∈ S.mro c) := by
  have hI := reach_inv hR
  exact ⟨keys_ada S hI.tinv c hc, fun k hk => get?_ada S hI.tinv c hc k hk, mro_self S hI.tinv c hc,
    fun b hb a ha => mro_trans S hI.tinv c hc b a hb ha⟩

/-! ## the constructor -/

/-- `RenderArgs(rc, init, *nss)`, whenever it returns, returns an object whose value is the
    specification — whichever of the shortcuts (shared default, `init` itself, fresh object) was
    taken. -/
theorem mk_value_eq_spec (S : State) (hR : Reach S) (rc : Cls) (hrc : rc < S.T.length)
    (init : Option Nat) (hinit : ∀ i, init = some i → i < S.objs.length) (nss : List NS)
    (S' : State) (id : Nat) (h : mk S rc init nss = .ok (S', id)) :
    S'.objs[id]? = some (spec S rc init nss) :=
  (mk_ok S (reach_inv hR) rc hrc init hinit nss S' id h).2.2.2.2

/-- accepted exactly when the initial set is associated with the target class or an ancestor and
    every namespace is associated with the target class or an ancestor -/
theorem mk_accepts_iff (S : State) (hR : Reach S) (rc : Cls) (hrc : rc < S.T.length)
    (init : Option Nat) (hinit : ∀ i, init = some i → i < S.objs.length) (nss : List NS)
    (hv : ∀ ns ∈ nss, S.validNs ns = true) :
    (∃ S' id, mk S rc init nss = .ok (S', id)) ↔
      (∀ i, init = some i → (S.obj i).rcls ∈ S.mro rc) ∧ (∀ ns ∈ nss, ns.cls ∈ S.mro rc) := by
  have hI := reach_inv hR
  constructor
  · rintro ⟨S', id, h⟩
    obtain ⟨hc, hn, _⟩ := mk_ok S hI rc hrc init hinit nss S' id h
    exact ⟨hc, fun ns hns => ((mem_keys_ada S hI.tinv rc hrc ns.cls).mp (hn ns hns)).1⟩
  · rintro ⟨hc, hn⟩
    apply mk_accepts S hI rc hrc init hinit nss hc
    intro ns hns
    obtain ⟨d, hd⟩ := validNs_args S ns (hv ns hns)
    exact (mem_keys_ada S hI.tinv rc hrc ns.cls).mpr ⟨hn ns hns, by simp [hd]⟩

/-- rejected with the documented error: an incompatible initial set takes precedence, otherwise
    an incompatible namespace -/
theorem mk_rejects_with (S : State) (hR : Reach S) (rc : Cls) (hrc : rc < S.T.length)
    (init : Option Nat) (hinit : ∀ i, init = some i → i < S.objs.length) (nss : List NS) :
    ((∃ i, init = some i ∧ (S.obj i).rcls ∉ S.mro rc) → mk S rc init nss = .error .IncompatibleRenderArgsError) ∧
    ((∀ i, init = some i → (S.obj i).rcls ∈ S.mro rc) → (∃ ns ∈ nss, ns.cls ∉ S.mro rc) →
      mk S rc init nss = .error .IncompatibleArgsNamespaceError) := by
  have hI := reach_inv hR
  constructor
  · rintro ⟨i, hi, hni⟩
    exact mk_incompat S rc init nss (fun hc => hni (hc i hi))
  · intro hc ⟨ns, hns, hnm⟩
    rcases mk_main S hI rc hrc init hinit nss with ⟨hnc, _⟩ | ⟨_, _, h⟩ | ⟨_, hn, _⟩
    · exact absurd hc hnc
    · exact h
    · exact absurd ((mem_keys_ada S hI.tinv rc hrc ns.cls).mp (hn ns hns)).1 hnm

/-! ## immutability -/

/-- no operation of any history changes anything that exists: every existing object (including
    every shared default set), every existing class record and every interning entry is the same
    afterwards. (In the model `__init__` *writes* at the identity `__new__` returned; that the
    write never lands on an existing object is what is proved.) -/
theorem heap_frozen (ops : List Op) (op : Op) :
    let S := runOps State.init ops
    let S' := (step S op).1
    (∀ i, i < S.objs.length → S'.objs[i]? = S.objs[i]?) ∧
    (∀ c, c < S.T.length → S'.T[c]? = S.T[c]?) ∧
    (∀ c j, S.internedGet c = some j → S'.internedGet c = some j) := by
  intro S S'
  have hF := (step_inv S (reach_inv ⟨ops, rfl⟩) op).2
  exact ⟨fun i hi => frozen_objs hF i hi, fun c hc => frozen_T hF c hc, hF.2.2⟩

/-- … and therefore across any continuation of the history -/
theorem heap_frozen_run (ops more : List Op) :
    let S := runOps State.init ops
    let S' := runOps S more
    (∀ i, i < S.objs.length → S'.objs[i]? = S.objs[i]?) ∧
    (∀ c j, S.internedGet c = some j → S'.internedGet c = some j) := by
  intro S S'
  have hF := (run_inv S (reach_inv ⟨ops, rfl⟩) more).2
  exact ⟨fun i hi => frozen_objs hF i hi, hF.2.2⟩

/-- no alias to a non-equal object: when the constructor returns an identity that already existed,
    the object that was there already had exactly the value the specification demands -/
theorem mk_alias_sound (S : State) (hR : Reach S) (rc : Cls) (hrc : rc < S.T.length)
    (init : Option Nat) (hinit : ∀ i, init = some i → i < S.objs.length) (nss : List NS)
    (S' : State) (id : Nat) (h : mk S rc init nss = .ok (S', id)) (hold : id < S.objs.length) :
    S.objs[id]? = some (spec S rc init nss) := by
  obtain ⟨_, _, _, hF, hv⟩ := mk_ok S (reach_inv hR) rc hrc init hinit nss S' id h
  rw [← frozen_objs hF id hold]; exact hv

/-! ## equality and hashing -/

/-- `==` holds exactly between sets of the same class whose namespaces have the same associated
    classes and field values; which subclass of a namespace class a constituent is an instance of
    (`tag`) plays no part -/
theorem eq_iff_same_value (S : State) (hR : Reach S) (i j : Nat) (hi : i < S.objs.length) (hj : j < S.objs.length) :
    raEq S i j = true ↔ (S.obj i).rcls = (S.obj j).rcls ∧ untag (S.obj i).nss = untag (S.obj j).nss :=
  raEq_iff S (reach_inv hR) i j hi hj

/-- equal sets hash equal (they feed the same tuple to `hash`) — also when they were built from
    instances of different subclasses of the namespace classes -/
theorem eq_hash (S : State) (hR : Reach S) (i j : Nat) (hi : i < S.objs.length) (hj : j < S.objs.length)
    (h : raEq S i j = true) : hashKey S i = hashKey S j := by
  obtain ⟨h1, h2⟩ := (raEq_iff S (reach_inv hR) i j hi hj).mp h
  simp only [hashKey, h1, Prod.mk.injEq, true_and]
  rw [← hashKey_untag (S.obj i).nss, ← hashKey_untag (S.obj j).nss, h2]

/-- equal namespaces hash equal, and `==`/`hash` of a namespace are functions of (associated render
    class, field values) only: an instance of `class Sub(A.Args): pass` is equal to, and hashes like,
    the `A.Args` instance with the same field values -/
theorem ns_eq_hash (a b : NS) :
    (nsEq a b = true ↔ nsHashKey a = nsHashKey b) ∧
    (∀ t, nsEq a { a with tag := t } = true ∧ nsHashKey { a with tag := t } = nsHashKey a) := by
  refine ⟨nsEq_iff_key a b, fun t => ⟨?_, rfl⟩⟩
  simp [nsEq]

/-- `hash()` raises `TypeError` exactly when a field value is unhashable, and otherwise hashes the tuple
    `eq_hash` is about; nothing else in the model looks at hashability (constructor, update, convert, `|`,
    `+`, `==` are total in the field values) -/
theorem hash_rules (S : State) (i : Nat) (n : NS) :
    ((∀ e ∈ (S.obj i).nss, ∀ v ∈ e.2.vals, unhashableVal v = false) → raHash S i = .ok (hashKey S i)) ∧
    ((∃ e ∈ (S.obj i).nss, ∃ v ∈ e.2.vals, unhashableVal v = true) → raHash S i = .error .TypeError) ∧
    ((∀ v ∈ n.vals, unhashableVal v = false) → nsHash n = .ok (nsHashKey n)) ∧
    ((∃ v ∈ n.vals, unhashableVal v = true) → nsHash n = .error .TypeError) := by
  refine ⟨?_, ?_, ?_, ?_⟩
  · intro h
    have : (S.obj i).nss.any (fun e => e.2.vals.any unhashableVal) = false := by
      rw [List.any_eq_false]; intro e he
      simp only [Bool.not_eq_true, List.any_eq_false]
      intro v hv; rw [h e he v hv]
    simp [raHash, this]
  · rintro ⟨e, he, v, hv, hu⟩
    have : (S.obj i).nss.any (fun e => e.2.vals.any unhashableVal) = true :=
      List.any_eq_true.mpr ⟨e, he, List.any_eq_true.mpr ⟨v, hv, hu⟩⟩
    simp [raHash, this]
  · intro h
    have : n.vals.any unhashableVal = false := by
      rw [List.any_eq_false]; intro v hv; rw [h v hv]; simp
    simp [nsHash, this]
  · rintro ⟨v, hv, hu⟩
    have : n.vals.any unhashableVal = true := List.any_eq_true.mpr ⟨v, hv, hu⟩
    simp [nsHash, this]

/-- attribute protocol of a namespace: a field reads its value, any other non-attribute name raises
    `UnknownArgsFieldError`; assignment and deletion always raise `AttributeError` -/
theorem ns_attribute_rules (n : NS) (idx : Nat) (v : Int) :
    (idx < n.vals.length → ∃ x, nsGetattr n idx = .ok x ∧ n.vals[idx]? = some x) ∧
    (n.vals.length ≤ idx → nsGetattr n idx = .error .UnknownArgsFieldError) ∧
    nsSetattr n idx v = .AttributeError ∧ nsDelattr n idx = .AttributeError ∧
    getitemNonClass = .TypeError := by
  refine ⟨?_, ?_, rfl, rfl, rfl⟩
  · intro h
    exact ⟨n.vals[idx], by simp [nsGetattr, h], by simp [h]⟩
  · intro h
    simp [nsGetattr, List.getElem?_eq_none h]

/-- `ns in render_args` iff the set's namespace for the class of `ns` equals `ns` (same field values) -/
theorem contains_iff (S : State) (i : Nat) (ns : NS) :
    contains S i ns = true ↔ ∃ v, get? (S.obj i).nss ns.cls = some v ∧ v.vals = ns.vals ∧ v.cls = ns.cls := by
  simp only [contains]
  cases h : get? (S.obj i).nss ns.cls with
  | none => simp
  | some v => simp [nsEq, and_comm]

/-- `render_args[cls]`: the namespace for every class of the hierarchy that has arguments (and it
    is associated with that class); `NoArgsNamespaceError` for an ancestor without arguments;
    `ValueError` for a class that is not an ancestor -/
theorem getitem_rules (S : State) (hR : Reach S) (i : Nat) (hi : i < S.objs.length) (rc : Cls) :
    (rc ∈ S.mro (S.obj i).rcls → (S.args rc).isSome = true → ∃ ns, getitem S i rc = .ok ns ∧ ns.cls = rc) ∧
    (rc ∈ S.mro (S.obj i).rcls → S.args rc = none → getitem S i rc = .error .NoArgsNamespaceError) ∧
    (rc ∉ S.mro (S.obj i).rcls → getitem S i rc = .error .ValueError) := by
  have hI := reach_inv hR
  obtain ⟨hlt, hkeys, hent⟩ := hI.objs i _ (obj_of_lt S i hi)
  have hmem := mem_keys_ada S hI.tinv _ hlt rc
  refine ⟨?_, ?_, ?_⟩
  · intro hm ha
    obtain ⟨v, hv⟩ := get?_some_of_mem (S.obj i).nss rc (by rw [hkeys]; exact hmem.mpr ⟨hm, ha⟩)
    exact ⟨v, by simp [getitem, hv], hent (rc, v) (mem_of_get? _ _ _ hv)⟩
  · intro hm ha
    have : get? (S.obj i).nss rc = none := get?_none_of_not_mem _ _ (by
      rw [hkeys]; intro hk; have := (hmem.mp hk).2; rw [ha] at this; cases this)
    simp [getitem, this, State.issub, hm]
  · intro hm
    have : get? (S.obj i).nss rc = none := get?_none_of_not_mem _ _ (by
      rw [hkeys]; intro hk; exact hm (hmem.mp hk).1)
    simp [getitem, this, State.issub, hm]

/-! ## update, convert, `+` obey the same rule -/

/-- `render_args.update(ns, *nss)` = the set itself with the given namespaces replaced (last wins) -/
theorem ops_obey_update_namespaces (S : State) (hR : Reach S) (self : Nat) (hs : self < S.objs.length)
    (n : NS) (nss : List NS) (S' : State) (id : Nat) (h : update S self (.ns n) nss [] = .ok (S', id)) :
    S'.objs[id]? = some (spec S (S.obj self).rcls (some self) (n :: nss)) := by
  have hI := reach_inv hR
  simp only [update, ne_eq, not_true_eq_false, if_false] at h
  exact (mk_ok S hI _ (obj_rcls_lt S hI self hs) _ (fun i hi => by cases hi; exact hs) _ S' id h).2.2.2.2

/-- `render_args.update(cls, **fields)` = the set itself with the namespace of `cls` replaced by its
    updated copy; errors of `__getitem__` and of `ArgsNamespace.update` propagate, in that order -/
theorem ops_obey_update_fields (S : State) (hR : Reach S) (self : Nat) (hs : self < S.objs.length)
    (c : Cls) (fields : List (Nat × Int)) :
    (∀ e, getitem S self c = .error e → update S self (.cls c) [] fields = .error e) ∧
    (∀ cur e, getitem S self c = .ok cur → nsUpdate S cur fields = .error e →
      update S self (.cls c) [] fields = .error e) ∧
    (∀ S' id, update S self (.cls c) [] fields = .ok (S', id) →
      ∃ cur n, getitem S self c = .ok cur ∧ nsUpdate S cur fields = .ok n ∧
        S'.objs[id]? = some (spec S (S.obj self).rcls (some self) [n])) := by
  have hI := reach_inv hR
  refine ⟨?_, ?_, ?_⟩
  · intro e he; simp [update, he]
  · intro cur e hc he; simp [update, hc, he]
  · intro S' id h
    simp only [update, ne_eq, not_true_eq_false, if_false] at h
    cases hg : getitem S self c with
    | error e => rw [hg] at h; cases h
    | ok cur =>
      rw [hg] at h
      simp only at h
      cases hu : nsUpdate S cur fields with
      | error e => rw [hu] at h; cases h
      | ok n =>
        rw [hu] at h
        simp only at h
        exact ⟨cur, n, rfl, hu,
          (mk_ok S hI _ (obj_rcls_lt S hI self hs) _ (fun i hi => by cases hi; exact hs) _ S' id h).2.2.2.2⟩

/-- `ArgsNamespace.update(**fields)`: no fields → the namespace itself; an unknown field →
    `UnknownArgsFieldError`; otherwise the same class with exactly the named fields replaced -/
theorem ops_obey_ns_update (S : State) (ns : NS) (fields : List (Nat × Int)) :
    (fields = [] → nsUpdate S ns fields = .ok ns) ∧
    (fields ≠ [] → (∃ f ∈ fields, S.nfields ns.cls ≤ f.1) → nsUpdate S ns fields = .error .UnknownArgsFieldError) ∧
    (∀ n, nsUpdate S ns fields = .ok n → n.cls = ns.cls ∧ n.tag = ns.tag ∧ n.vals.length = ns.vals.length) := by
  refine ⟨fun h => by simp [nsUpdate, h], ?_, ?_⟩
  · intro hne ⟨f, hf, hle⟩
    have : fields.any (fun f => decide (S.nfields ns.cls ≤ f.1)) = true :=
      List.any_eq_true.mpr ⟨f, hf, by simpa using hle⟩
    simp [nsUpdate, hne, this]
  · intro n h
    simp only [nsUpdate] at h
    split at h
    · cases h; exact ⟨rfl, rfl, rfl⟩
    · split at h
      · cases h
      · cases h
        exact ⟨rfl, rfl, foldl_set_length _ _⟩

/-- `render_args.convert(cls)`: accepted exactly for a parent or child (else `ValueError`); the
    result holds, for every class of the target's hierarchy, this set's namespace if it has one,
    else the default; converting to the own class returns the set itself -/
theorem ops_obey_convert (S : State) (hR : Reach S) (self : Nat) (hs : self < S.objs.length)
    (rc : Cls) (hrc : rc < S.T.length) :
    ((∃ S' id, convert S self rc = .ok (S', id)) ↔
      (rc ∈ S.mro (S.obj self).rcls ∨ (S.obj self).rcls ∈ S.mro rc)) ∧
    (¬ (rc ∈ S.mro (S.obj self).rcls ∨ (S.obj self).rcls ∈ S.mro rc) → convert S self rc = .error .ValueError) ∧
    (rc = (S.obj self).rcls → convert S self rc = .ok (S, self)) ∧
    (∀ S' id, convert S self rc = .ok (S', id) → S'.objs[id]? = some (spec S rc (some self) [])) := by
  have hI := reach_inv hR
  have hsc := obj_rcls_lt S hI self hs
  have hinit : ∀ i, some self = some i → i < S.objs.length := fun i hi => by cases hi; exact hs
  obtain ⟨_, hkeys, hent⟩ := hI.objs self _ (obj_of_lt S self hs)
  -- the namespaces passed on to an ancestor
  have hfilt : ∀ e ∈ ((S.obj self).nss.filter (fun e => decide (e.1 ∈ keys (S.ada rc)))).map Prod.snd,
      e.cls ∈ keys (S.ada rc) := by
    intro v hv
    simp only [List.mem_map, List.mem_filter, decide_eq_true_eq] at hv
    obtain ⟨e, ⟨he, hk⟩, rfl⟩ := hv
    rw [hent e he]; exact hk
  have hup : (S.obj self).rcls ∈ S.mro rc → Compat S rc (some self) := fun h i hi => by cases hi; exact h
  have hspec_up : rc ∈ S.mro (S.obj self).rcls →
      spec S rc none (((S.obj self).nss.filter (fun e => decide (e.1 ∈ keys (S.ada rc)))).map Prod.snd)
        = spec S rc (some self) [] := by
    intro _
    simp only [spec, Obj.mk.injEq, true_and]
    apply List.map_congr_left
    intro k hk
    have hka : k ∈ keys (S.ada rc) := by rw [keys_ada S hI.tinv rc hrc]; exact hk
    have hnd : (keys (S.obj self).nss).Nodup := by rw [hkeys]; exact keys_ada_nodup S hI.tinv _ hsc
    have hl := lastNs_map_snd ((S.obj self).nss.filter (fun e => decide (e.1 ∈ keys (S.ada rc))))
      (List.Sublist.nodup (keys_filter_sublist _ _) hnd)
      (fun e he => hent e (List.mem_filter.mp he).1) k
    rw [get?_filter_key (S.obj self).nss (fun k => decide (k ∈ keys (S.ada rc))) k] at hl
    simp only [hka, decide_true, if_true] at hl
    simp only [specVal, hl, lastNs]
  refine ⟨?_, ?_, ?_, ?_⟩
  · constructor
    · rintro ⟨S', id, h⟩
      simp only [convert] at h
      split at h
      · rename_i heq; left; rw [heq]; exact mro_self S hI.tinv _ hsc
      · split at h
        · rename_i _ hsub; right; simpa [State.issub] using hsub
        · split at h
          · rename_i _ _ hsub; left; simpa [State.issub] using hsub
          · cases h
    · intro hrel
      simp only [convert]
      split
      · exact ⟨S, self, rfl⟩
      · split
        · rename_i _ hsub
          exact mk_accepts S hI rc hrc _ hinit [] (hup (by simpa [State.issub] using hsub)) (fun ns h => by cases h)
        · rename_i _ hnsub
          have hdown : rc ∈ S.mro (S.obj self).rcls := by
            rcases hrel with h | h
            · exact h
            · exact absurd (by simpa [State.issub] using h) hnsub
          simp only [State.issub, hdown, decide_true, if_true]
          exact mk_accepts S hI rc hrc none (fun i hi => by cases hi) _ (fun i hi => by cases hi) hfilt
  · intro hnrel
    have h1 : ¬ rc = (S.obj self).rcls := fun h => hnrel (Or.inl (by rw [h]; exact mro_self S hI.tinv _ hsc))
    have h2 : ¬ (S.obj self).rcls ∈ S.mro rc := fun h => hnrel (Or.inr h)
    have h3 : ¬ rc ∈ S.mro (S.obj self).rcls := fun h => hnrel (Or.inl h)
    simp [convert, h1, State.issub, h2, h3]
  · intro h; simp [convert, h]
  · intro S' id h
    simp only [convert] at h
    split at h
    · rename_i heq
      cases h
      rw [spec_same S hI rc hrc self hs heq.symm]; exact obj_of_lt S self hs
    · split at h
      · exact (mk_ok S hI rc hrc _ hinit _ S' id h).2.2.2.2
      · split at h
        · rename_i _ _ hsub
          have := (mk_ok S hI rc hrc none (fun i hi => by cases hi) _ S' id h).2.2.2.2
          rw [hspec_up (by simpa [State.issub] using hsub)] at this
          exact this
        · cases h

/-- `+namespace` and `namespace.to_render_args(cls)`: the set for the (given) class holding this
    namespace and defaults elsewhere -/
theorem ops_obey_pos (S : State) (hR : Reach S) (ns : NS) (hv : S.validNs ns = true) (rc : Option Cls)
    (hrc : ∀ c, rc = some c → c < S.T.length) (S' : State) (id : Nat) :
    (nsPos S ns = .ok (S', id) → S'.objs[id]? = some (spec S ns.cls none [ns])) ∧
    (nsToRA S ns rc = .ok (S', id) →
      S'.objs[id]? = some (spec S (match rc with | some c => c | none => ns.cls) none [ns])) := by
  have hI := reach_inv hR
  constructor
  · intro h
    exact (mk_ok S hI _ (validNs_lt S ns hv) none (fun i hi => by cases hi) _ S' id h).2.2.2.2
  · cases rc with
    | none =>
      intro h
      exact (mk_ok S hI _ (validNs_lt S ns hv) none (fun i hi => by cases hi) _ S' id h).2.2.2.2
    | some c =>
      intro h
      exact (mk_ok S hI _ (hrc c rfl) none (fun i hi => by cases hi) _ S' id h).2.2.2.2

/-! ## `|` -/

/-- PRECEDENCE of `|` (docstrings of `__or__` / `__ror__`):
    * `a | b`, same class: `b` wins; `a.__ror__(b)`, same class: `a` wins;
    * `a | b`, one class derived from the other: the set of the most derived class holding both;
    * `a | render_args` (and `render_args | a`): the set of the most derived class, initialised with
      `render_args`, in which `a` replaces the namespace of its class;
    * unrelated classes: `IncompatibleArgsNamespaceError` / `IncompatibleRenderArgsError`. -/
theorem or_precedence (S : State) (hR : Reach S) (a : NS) (ha : S.validNs a = true) :
    (∀ b, S.validNs b = true → a.cls = b.cls → ∀ S' id,
      (nsOr S a (.ns b) = .ok (S', id) → S'.objs[id]? = some (spec S a.cls none [b])) ∧
      (nsRor S a (.ns b) = .ok (S', id) → S'.objs[id]? = some (spec S a.cls none [a]))) ∧
    (∀ b, S.validNs b = true → a.cls ≠ b.cls → ∀ S' id, nsOr S a (.ns b) = .ok (S', id) →
      (b.cls ∈ S.mro a.cls ∧ S'.objs[id]? = some (spec S a.cls none [a, b])) ∨
      (a.cls ∈ S.mro b.cls ∧ S'.objs[id]? = some (spec S b.cls none [a, b]))) ∧
    (∀ b, S.validNs b = true → b.cls ∉ S.mro a.cls → a.cls ∉ S.mro b.cls →
      nsOr S a (.ns b) = .error .IncompatibleArgsNamespaceError) ∧
    (∀ i, i < S.objs.length → ∀ S' id, nsOr S a (.ra i) = .ok (S', id) →
      ((S.obj i).rcls ∈ S.mro a.cls ∧ S'.objs[id]? = some (spec S a.cls (some i) [a])) ∨
      (a.cls ∈ S.mro (S.obj i).rcls ∧ S'.objs[id]? = some (spec S (S.obj i).rcls (some i) [a]))) ∧
    (∀ i, i < S.objs.length → (S.obj i).rcls ∉ S.mro a.cls → a.cls ∉ S.mro (S.obj i).rcls →
      nsOr S a (.ra i) = .error .IncompatibleRenderArgsError) ∧
    (∀ (init : Option Nat) (rest : List NS), specVal S init (rest ++ [a]) a.cls = a) := by
  have hI := reach_inv hR
  have hal := validNs_lt S a ha
  have hno : ∀ i, (none : Option Nat) = some i → i < S.objs.length := fun i hi => by cases hi
  refine ⟨?_, ?_, ?_, ?_, ?_, ?_⟩
  · intro b hb hab S' id
    have hbl := validNs_lt S b hb
    constructor
    · intro h
      simp only [nsOr, hab, if_true] at h
      rw [hab]
      exact (mk_ok S hI _ hbl none hno _ S' id h).2.2.2.2
    · intro h
      simp only [nsRor, hab, if_true] at h
      rw [← hab] at h
      exact (mk_ok S hI _ hal none hno _ S' id h).2.2.2.2
  · intro b hb hab S' id h
    have hbl := validNs_lt S b hb
    simp only [nsOr, hab, if_false] at h
    split at h
    · rename_i hsub
      exact Or.inl ⟨by simpa [State.issub] using hsub, (mk_ok S hI _ hal none hno _ S' id h).2.2.2.2⟩
    · split at h
      · rename_i _ hsub
        exact Or.inr ⟨by simpa [State.issub] using hsub, (mk_ok S hI _ hbl none hno _ S' id h).2.2.2.2⟩
      · cases h
  · intro b _ h1 h2
    have hab : ¬ a.cls = b.cls := by
      intro hab; apply h1; rw [← hab]; exact mro_self S hI.tinv _ hal
    simp [nsOr, hab, State.issub, h1, h2]
  · intro i hi S' id h
    have hinit : ∀ j, some i = some j → j < S.objs.length := fun j hj => by cases hj; exact hi
    simp only [nsOr] at h
    split at h
    · rename_i hsub
      exact Or.inl ⟨by simpa [State.issub] using hsub, (mk_ok S hI _ hal _ hinit _ S' id h).2.2.2.2⟩
    · split at h
      · rename_i _ hsub
        exact Or.inr ⟨by simpa [State.issub] using hsub,
          (mk_ok S hI _ (obj_rcls_lt S hI i hi) _ hinit _ S' id h).2.2.2.2⟩
      · cases h
  · intro i _ h1 h2
    simp [nsOr, State.issub, h1, h2]
  · intro init rest
    have : lastNs a.cls (rest ++ [a]) = some a := by
      induction rest with
      | nil => simp [lastNs]
      | cons r rs ih => simp only [List.cons_append, lastNs, ih]
    simp only [specVal, this]

/-! ## namespace classes -/

/-- a field without a default is rejected before anything else (`RenderArgsError`) -/
theorem define_rules_no_default (D : DState) (bases : List Nat) (annot : List (Option Int)) (rc : Option Cls)
    (h : ∃ a ∈ annot, a = none) : defineNs D bases annot rc = .error .RenderArgsError := by
  obtain ⟨a, ha, rfl⟩ := h
  have : annot.any (fun a => a.isNone) = true := List.any_eq_true.mpr ⟨none, ha, rfl⟩
  simp [defineNs, this]

/-- multiple bases are rejected (`RenderArgsDataError`) -/
theorem define_rules_multiple_bases (D : DState) (b1 b2 : Nat) (bs : List Nat) (annot : List (Option Int))
    (rc : Option Cls) (h : ∀ a ∈ annot, a ≠ none) :
    defineNs D (b1 :: b2 :: bs) annot rc = .error .RenderArgsDataError := by
  have : annot.any (fun a => a.isNone) = false := by
    cases hh : annot.any (fun a => a.isNone) with
    | false => rfl
    | true =>
      obtain ⟨a, ha, hn⟩ := List.any_eq_true.mp hh
      cases a with
      | none => exact absurd rfl (h none ha)
      | some v => cases hn
  simp [defineNs, this]

/-- re-association is rejected: a subclass of an associated namespace class cannot name a render
    class (`RenderArgsDataError`), and a render class that already has a namespace class cannot get
    another (`RenderArgsError`); a rejected definition changes nothing -/
theorem define_rules_reassociation (D : DState) (b : Nat) (base : NsCls) (annot : List (Option Int)) (c : Cls)
    (h : ∀ a ∈ annot, a ≠ none) (hb : D.ns[b]? = some base) :
    (base.associated = true → defineNs D [b] annot (some c) = .error .RenderArgsDataError) ∧
    (base.associated = false → base.fields = [] → annot ≠ [] → ∀ k, D.argsOf[c]? = some (some k) →
      defineNs D [b] annot (some c) = .error .RenderArgsError) := by
  have hany : annot.any (fun a => a.isNone) = false := by
    cases hh : annot.any (fun a => a.isNone) with
    | false => rfl
    | true =>
      obtain ⟨a, ha, hn⟩ := List.any_eq_true.mp hh
      cases a with
      | none => exact absurd rfl (h none ha)
      | some v => cases hn
  constructor
  · intro ha
    simp only [defineNs, hany, Bool.false_eq_true, if_false, hb, ha, if_true]
    split <;> rfl
  · intro ha hf hne k hk
    have hd : annot.filterMap id ≠ [] := by
      cases annot with
      | nil => exact absurd rfl hne
      | cons x xs =>
        cases x with
        | none => exact absurd rfl (h none (by simp))
        | some v => simp
    simp [defineNs, hany, hb, ha, hf, hd, hk]

/-- a definition is accepted exactly in the three documented shapes, and an accepted association
    makes the namespace class the render class's `Args` with the given defaults as its fields -/
theorem define_rules_accepts_iff (D : DState) (b : Nat) (base : NsCls) (annot : List (Option Int))
    (rc : Option Cls) (hb : D.ns[b]? = some base) :
    (∃ D' i, defineNs D [b] annot rc = .ok (D', i)) ↔
      (∀ a ∈ annot, a ≠ none) ∧
      ((rc = none ∧ annot = []) ∨
       (∃ c, rc = some c ∧ annot ≠ [] ∧ base.associated = false ∧ base.fields = [] ∧ D.argsOf[c]? = some none)) := by
  by_cases hnone : ∃ a ∈ annot, a = none
  · rw [define_rules_no_default D [b] annot rc hnone]
    constructor
    · rintro ⟨_, _, h⟩; cases h
    · rintro ⟨h, _⟩; obtain ⟨a, ha, rfl⟩ := hnone; exact absurd rfl (h none ha)
  · have hall : ∀ a ∈ annot, a ≠ none := fun a ha hn => hnone ⟨a, ha, hn⟩
    have hany : annot.any (fun a => a.isNone) = false := by
      cases hh : annot.any (fun a => a.isNone) with
      | false => rfl
      | true =>
        obtain ⟨a, ha, hn⟩ := List.any_eq_true.mp hh
        cases a with
        | none => exact absurd rfl (hall none ha)
        | some v => cases hn
    have hd : annot.filterMap id = [] ↔ annot = [] := by
      cases annot with
      | nil => simp
      | cons x xs =>
        cases x with
        | none => exact absurd rfl (hall none (by simp))
        | some v => simp
    simp only [defineNs, hany, Bool.false_eq_true, if_false, hb]
    constructor
    · rintro ⟨D', i, h⟩
      refine ⟨hall, ?_⟩
      split at h
      · cases h
      · rename_i hboth
        cases rc with
        | none =>
          simp only at h
          split at h
          · cases h
          · rename_i hdd; left; exact ⟨rfl, hd.mp (by simpa using hdd)⟩
        | some c =>
          simp only at h
          split at h
          · cases h
          · rename_i hass
            split at h
            · cases h
            · rename_i hdd
              right
              cases hk : D.argsOf[c]? with
              | none => rw [hk] at h; cases h
              | some o =>
                cases o with
                | some k => rw [hk] at h; cases h
                | none =>
                  have hne : annot ≠ [] := fun hh => hdd (hd.mpr hh)
                  have hbf : base.fields = [] := by
                    by_cases hbf : base.fields = []
                    · exact hbf
                    · exact absurd ⟨hbf, hdd⟩ hboth
                  exact ⟨c, rfl, hne, by simpa using hass, hbf, hk⟩
    · rintro ⟨_, h⟩
      rcases h with ⟨rfl, rfl⟩ | ⟨c, rfl, hne, hass, hbf, hk⟩
      · simp
      · have hdd : annot.filterMap id ≠ [] := fun hh => hne (hd.mp hh)
        simp [hass, hbf, hdd, hk]

/-- an accepted association registers the class: it becomes `Args` of the render class, with the
    given defaults as fields, and is associated -/
theorem define_rules_association (D D' : DState) (b : Nat) (annot : List (Option Int)) (c : Cls) (i : Nat)
    (h : defineNs D [b] annot (some c) = .ok (D', i)) (hc : c < D.argsOf.length) :
    D'.argsOf[c]? = some (some i) ∧ D'.ns[i]? = some ⟨annot.filterMap id, true, c⟩ ∧ i = D.ns.length := by
  simp only [defineNs] at h
  split at h
  · cases h
  · cases hb : D.ns[b]? with
    | none => rw [hb] at h; cases h
    | some base =>
      rw [hb] at h
      simp only at h
      split at h
      · cases h
      · rename_i hboth
        split at h
        · cases h
        · split at h
          · cases h
          · rename_i hdd
            cases hk : D.argsOf[c]? with
            | none => rw [hk] at h; cases h
            | some o =>
              cases o with
              | some k => rw [hk] at h; cases h
              | none =>
                rw [hk] at h
                simp only [Except.ok.injEq, Prod.mk.injEq] at h
                obtain ⟨rfl, rfl⟩ := h
                have hbf : base.fields = [] := by
                  by_cases hbf : base.fields = []
                  · exact hbf
                  · exact absurd ⟨hbf, hdd⟩ hboth
                refine ⟨by simp [hc], ?_, rfl⟩
                simp [hbf]

/-- unknown fields are rejected (`UnknownArgsFieldError`) by the namespace constructor, when the
    positional values fit; an unassociated class cannot be instantiated at all -/
theorem define_rules_unknown_field (c : Cls) (dflt values : List Int) (fields : List (Nat × Int))
    (hv : values.length ≤ dflt.length) (h : ∃ f ∈ fields, dflt.length ≤ f.1) :
    nsInit c dflt values fields = .error .UnknownArgsFieldError := by
  obtain ⟨f, hf, hle⟩ := h
  have : fields.any (fun f => decide (dflt.length ≤ f.1)) = true :=
    List.any_eq_true.mpr ⟨f, hf, by simpa using hle⟩
  have hv' : ¬ dflt.length < values.length := Nat.not_lt.mpr hv
  simp [nsInit, hv', this]

theorem define_rules_unassociated (D : DState) (i : Nat) (k : NsCls) (values : List Int) (fields : List (Nat × Int))
    (hk : D.ns[i]? = some k) (ha : k.associated = false) :
    instantiate D i values fields = .error .UnassociatedNamespaceError := by
  simp [instantiate, hk, ha]

/-- a namespace built from in-range positional values and known, non-overlapping keyword fields
    has every field: the values, then the keyword fields, else the defaults -/
theorem define_rules_init_complete (c : Cls) (dflt values : List Int) (fields : List (Nat × Int)) (ns : NS)
    (h : nsInit c dflt values fields = .ok ns) : ns.cls = c ∧ ns.vals.length = dflt.length := by
  simp only [nsInit] at h
  split at h
  · cases h
  · rename_i hv
    split at h
    · cases h
    · split at h
      · cases h
      · cases h
        refine ⟨rfl, ?_⟩
        simp only
        have hlen : (values ++ dflt.drop values.length).length = dflt.length := by
          simp only [List.length_append, List.length_drop]; omega
        rw [← hlen]
        exact foldl_set_length _ _

/-! ### render data namespace classes (same base metaclass; no defaults) -/

/-- data namespace classes: multiple bases and re-association are rejected
    (`RenderArgsDataError`), a second data namespace class for a render class is rejected
    (`RenderDataError`) -/
theorem define_rules_data_rejects (D : DState) (b : Nat) (base : NsCls) (n : Nat) (c : Cls)
    (hb : D.dns[b]? = some base) :
    (∀ b2 bs rc, defineData D (b :: b2 :: bs) n rc = .error .RenderArgsDataError) ∧
    (base.associated = true → defineData D [b] n (some c) = .error .RenderArgsDataError) ∧
    (base.associated = false → base.fields = [] → n ≠ 0 → ∀ k, D.dataOf[c]? = some (some k) →
      defineData D [b] n (some c) = .error .RenderDataError) := by
  refine ⟨fun _ _ _ => rfl, ?_, ?_⟩
  · intro ha
    simp only [defineData, hb, ha, if_true]
    split <;> rfl
  · intro ha hf hn k hk
    simp [defineData, hb, ha, hf, hn, hk]

/-- a data namespace definition is accepted exactly in the documented shapes -/
theorem define_rules_data_accepts_iff (D : DState) (b : Nat) (base : NsCls) (n : Nat) (rc : Option Cls)
    (hb : D.dns[b]? = some base) :
    (∃ D' i, defineData D [b] n rc = .ok (D', i)) ↔
      ((rc = none ∧ n = 0) ∨
       (∃ c, rc = some c ∧ n ≠ 0 ∧ base.associated = false ∧ base.fields = [] ∧ D.dataOf[c]? = some none)) := by
  simp only [defineData, hb]
  constructor
  · rintro ⟨D', i, h⟩
    split at h
    · cases h
    · rename_i hboth
      cases rc with
      | none =>
        simp only at h
        split at h
        · cases h
        · rename_i hn; left; exact ⟨rfl, by simpa using hn⟩
      | some c =>
        simp only at h
        split at h
        · cases h
        · rename_i hass
          split at h
          · cases h
          · rename_i hn
            right
            cases hk : D.dataOf[c]? with
            | none => rw [hk] at h; cases h
            | some o =>
              cases o with
              | some k => rw [hk] at h; cases h
              | none =>
                have hbf : base.fields = [] := by
                  by_cases hbf : base.fields = []
                  · exact hbf
                  · exact absurd ⟨hbf, hn⟩ hboth
                exact ⟨c, rfl, hn, by simpa using hass, hbf, hk⟩
  · rintro (⟨rfl, rfl⟩ | ⟨c, rfl, hn, hass, hbf, hk⟩)
    · simp
    · simp [hass, hbf, hn, hk]

/-- unknown data fields are rejected (`UnknownDataFieldError`); an unassociated data namespace
    class cannot be instantiated -/
theorem define_rules_data_unknown_field (D : DState) (i : Nat) (k : NsCls) (fields : List (Nat × Int))
    (hk : D.dns[i]? = some k) :
    (k.associated = false → dataUpdate D i fields = .error .UnassociatedNamespaceError) ∧
    (k.associated = true → (∃ f ∈ fields, k.fields.length ≤ f.1) →
      dataUpdate D i fields = .error .UnknownDataFieldError) := by
  constructor
  · intro ha; simp [dataUpdate, hk, ha]
  · intro ha ⟨f, hf, hle⟩
    have : fields.any (fun f => decide (k.fields.length ≤ f.1)) = true :=
      List.any_eq_true.mpr ⟨f, hf, by simpa using hle⟩
    simp [dataUpdate, hk, ha, this]

/-! ## non-vacuity: a three-level hierarchy `Renderable ← A(args) ← B ← C(args)` and a sibling -/

/-- the history used by the examples: A = 1 (two fields), B = 2 (none), C = 3 (one field), X = 4 -/
def exHistory : List Op :=
  [.defClass 0 (some [0, 0]), .defClass 1 none, .defClass 2 (some [7]), .defClass 0 (some [1]),
   .mk 3 none [], .mk 3 none [⟨1, [5, 6], 0⟩], .mk 3 (some 2) [⟨3, [9], 0⟩, ⟨1, [0, 0], 0⟩, ⟨3, [7], 0⟩]]

example : (runOps State.init exHistory).objs =
    [⟨0, []⟩, ⟨3, [(3, ⟨3, [7], 0⟩), (1, ⟨1, [0, 0], 0⟩)]⟩, ⟨3, [(3, ⟨3, [7], 0⟩), (1, ⟨1, [5, 6], 0⟩)]⟩,
     ⟨3, [(3, ⟨3, [7], 0⟩), (1, ⟨1, [0, 0], 0⟩)]⟩] := by decide
example : (runOps State.init exHistory).interned = [(0, 0), (3, 1)] := by decide
/-- all-default arguments over a non-default initial set do *not* return the shared default object:
    object 3 equals object 1 but is another object -/
example : raEq (runOps State.init exHistory) 1 3 = true ∧ hashKey (runOps State.init exHistory) 1 = hashKey (runOps State.init exHistory) 3 := by decide
/-- a set built from an instance of a subclass of `A.Args` (tag 1) is another object than, equal to, and
    hashes like the shared default set -/
example :
    let S := runOps State.init [.defClass 0 (some [0]), .mk 1 none [], .mk 1 none [⟨1, [0], 1⟩]]
    S.obj 1 ≠ S.obj 2 ∧ raEq S 1 2 = true ∧ hashKey S 1 = hashKey S 2 ∧ nsEq ⟨1, [0], 0⟩ ⟨1, [0], 1⟩ = true := by decide
example : (mk (runOps State.init exHistory) 4 (some 2) []).toOption = none := by decide
example : (step (runOps State.init exHistory) (.convert 2 1)).2 matches .ra 4 := by decide
example : (defineNs (DState.init 2) [0] [some 1, some 2] (some 1)).toOption.map (·.2) = some 1 := by decide
example : (defineData (DState.init 2) [0] 2 (some 1)).toOption.map (·.2) = some 1 := by decide
example : (match defineNs (DState.init 2) [0] [some 1, none] (some 1) with | .error e => e.name | .ok _ => "") = "RenderArgsError" := by decide

end TIV.C16
