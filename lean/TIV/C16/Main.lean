import TIV.Common.DriverMain
import TIV.C16.Drive
def main : IO Unit := TIV.driverMain TIV.C16.handler
