import TIV.C16.Model
/-! # C16 — helper lemmas: dicts, the class table invariant, the constructor -/
namespace TIV.C16

/-! ## dicts -/

theorem get?_none_of_not_mem (d : Dict) (k : Cls) (h : k ∉ keys d) : get? d k = none := by
  induction d with
  | nil => rfl
  | cons e r ih =>
    obtain ⟨k', v⟩ := e
    simp only [keys, List.map_cons, List.mem_cons, not_or] at h
    simp only [get?]
    have : ¬ k' = k := fun hh => h.1 hh.symm
    simp only [this, if_false]
    exact ih h.2

theorem get?_some_of_mem (d : Dict) (k : Cls) (h : k ∈ keys d) : ∃ v, get? d k = some v := by
  induction d with
  | nil => simp [keys] at h
  | cons e r ih =>
    obtain ⟨k', v⟩ := e
    simp only [get?]
    by_cases hk : k' = k
    · exact ⟨v, by simp [hk]⟩
    · simp only [hk, if_false]
      simp only [keys, List.map_cons, List.mem_cons] at h
      rcases h with h | h
      · exact absurd h.symm hk
      · exact ih h

theorem mem_keys_of_get? (d : Dict) (k : Cls) (v : NS) (h : get? d k = some v) : k ∈ keys d := by
  by_cases hk : k ∈ keys d
  · exact hk
  · rw [get?_none_of_not_mem d k hk] at h; cases h

theorem mem_of_get? (d : Dict) (k : Cls) (v : NS) (h : get? d k = some v) : (k, v) ∈ d := by
  induction d with
  | nil => simp [get?] at h
  | cons e r ih =>
    obtain ⟨k', v'⟩ := e
    simp only [get?] at h
    by_cases hk : k' = k
    · simp only [hk, if_true, Option.some.injEq] at h
      subst hk; subst h; simp
    · simp only [hk, if_false] at h
      exact List.mem_cons_of_mem _ (ih h)

theorem keys_map_set (d : Dict) (k : Cls) (v : NS) :
    keys (d.map (fun e => if e.1 = k then (k, v) else e)) = keys d := by
  induction d with
  | nil => rfl
  | cons e r ih =>
    simp only [keys, List.map_cons] at ih ⊢
    rw [ih]
    by_cases h : e.1 = k <;> simp [h]

theorem keys_dset_of_mem (d : Dict) (k : Cls) (v : NS) (h : k ∈ keys d) : keys (dset d k v) = keys d := by
  simp only [dset, h, if_true]
  exact keys_map_set d k v

theorem map_set_of_not_mem (r : Dict) (k : Cls) (v : NS) (hr : k ∉ keys r) :
    r.map (fun e => if e.1 = k then (k, v) else e) = r := by
  induction r with
  | nil => rfl
  | cons e2 r2 ih2 =>
    simp only [keys, List.map_cons, List.mem_cons, not_or] at hr
    have : ¬ e2.1 = k := fun hh => hr.1 hh.symm
    simp only [List.map_cons, this, if_false]
    rw [ih2 (by simp only [keys]; exact hr.2)]

theorem get?_map_set (d : Dict) (k k' : Cls) (v : NS) (h : k ∈ keys d) :
    get? (d.map (fun e => if e.1 = k then (k, v) else e)) k' = if k' = k then some v else get? d k' := by
  induction d with
  | nil => simp [keys] at h
  | cons e r ih =>
    obtain ⟨k1, v1⟩ := e
    simp only [List.map_cons]
    by_cases h1 : k1 = k
    · subst h1
      simp only [if_true, get?]
      by_cases h2 : k1 = k'
      · subst h2; simp
      · have : ¬ k' = k1 := fun hh => h2 hh.symm
        simp only [h2, this, if_false]
        by_cases hr : k1 ∈ keys r
        · rw [ih hr]; simp [this]
        · rw [map_set_of_not_mem r k1 v hr]
    · simp only [h1, if_false, get?]
      have hr : k ∈ keys r := by
        simp only [keys, List.map_cons, List.mem_cons] at h
        rcases h with h | h
        · exact absurd h.symm h1
        · exact h
      by_cases h2 : k1 = k'
      · subst h2
        have : ¬ k1 = k := h1
        simp [this]
      · simp only [h2, if_false]
        exact ih hr

theorem get?_dset_of_mem (d : Dict) (k k' : Cls) (v : NS) (h : k ∈ keys d) :
    get? (dset d k v) k' = if k' = k then some v else get? d k' := by
  simp only [dset, h, if_true]
  exact get?_map_set d k k' v h

theorem keys_dupdate (d src : Dict) (h : ∀ k ∈ keys src, k ∈ keys d) : keys (dupdate d src) = keys d := by
  induction src generalizing d with
  | nil => rfl
  | cons e rest ih =>
    simp only [dupdate, List.foldl_cons]
    have he : e.1 ∈ keys d := h e.1 (by simp [keys])
    have hk := keys_dset_of_mem d e.1 e.2 he
    have := ih (dset d e.1 e.2) (by
      intro k hkk; rw [hk]; exact h k (by simp only [keys, List.map_cons, List.mem_cons] at hkk ⊢; exact Or.inr hkk))
    simp only [dupdate] at this
    rw [this, hk]

theorem get?_dupdate (d src : Dict) (h : ∀ k ∈ keys src, k ∈ keys d) (hnd : (keys src).Nodup) (k : Cls) :
    get? (dupdate d src) k = match get? src k with | some v => some v | none => get? d k := by
  induction src generalizing d with
  | nil => rfl
  | cons e rest ih =>
    obtain ⟨k1, v1⟩ := e
    simp only [dupdate, List.foldl_cons]
    have he : k1 ∈ keys d := h k1 (by simp [keys])
    have hk := keys_dset_of_mem d k1 v1 he
    simp only [keys, List.map_cons, List.nodup_cons] at hnd
    have := ih (dset d k1 v1) (by
      intro k hkk; rw [hk]; exact h k (by simp only [keys, List.map_cons, List.mem_cons] at hkk ⊢; exact Or.inr hkk))
      hnd.2
    simp only [dupdate] at this
    rw [this, get?_dset_of_mem d k1 k v1 he]
    simp only [get?]
    by_cases hkk : k1 = k
    · subst hkk
      have : get? rest k1 = none := get?_none_of_not_mem rest k1 hnd.1
      simp [this]
    · have : ¬ k = k1 := fun hh => hkk hh.symm
      simp [hkk, this]

theorem applyNss_ok (d : Dict) (nss : List NS) (h : ∀ ns ∈ nss, ns.cls ∈ keys d) :
    ∃ d', applyNss d nss = .ok d' ∧ keys d' = keys d ∧
      ∀ k, get? d' k = match lastNs k nss with | some v => some v | none => get? d k := by
  induction nss generalizing d with
  | nil => exact ⟨d, rfl, rfl, fun k => rfl⟩
  | cons ns rest ih =>
    have hns : ns.cls ∈ keys d := h ns (by simp)
    have hk := keys_dset_of_mem d ns.cls ns hns
    obtain ⟨d', h1, h2, h3⟩ := ih (dset d ns.cls ns) (by
      intro n hn; rw [hk]; exact h n (List.mem_cons_of_mem _ hn))
    refine ⟨d', ?_, by rw [h2, hk], ?_⟩
    · simp only [applyNss, hns, if_true]; exact h1
    · intro k
      rw [h3 k, get?_dset_of_mem d ns.cls k ns hns]
      simp only [lastNs]
      cases lastNs k rest with
      | some v => rfl
      | none =>
        by_cases hkk : ns.cls = k
        · simp [hkk]
        · have : ¬ k = ns.cls := fun hh => hkk hh.symm
          simp [hkk, this]

theorem applyNss_err (d : Dict) (nss : List NS) (h : ∃ ns ∈ nss, ns.cls ∉ keys d) :
    applyNss d nss = .error .IncompatibleArgsNamespaceError := by
  induction nss generalizing d with
  | nil => obtain ⟨ns, hns, _⟩ := h; cases hns
  | cons ns rest ih =>
    simp only [applyNss]
    by_cases hns : ns.cls ∈ keys d
    · simp only [hns, if_true]
      apply ih
      obtain ⟨n, hn, hnk⟩ := h
      rw [keys_dset_of_mem d ns.cls ns hns]
      simp only [List.mem_cons] at hn
      rcases hn with hn | hn
      · subst hn; exact absurd hns hnk
      · exact ⟨n, hn, hnk⟩
    · simp [hns]

theorem dict_ext (a b : Dict) (hk : keys a = keys b) (hnd : (keys a).Nodup)
    (h : ∀ k ∈ keys a, get? a k = get? b k) : a = b := by
  induction a generalizing b with
  | nil =>
    cases b with
    | nil => rfl
    | cons e r => simp [keys] at hk
  | cons e r ih =>
    cases b with
    | nil => simp [keys] at hk
    | cons e' r' =>
      obtain ⟨k1, v1⟩ := e
      obtain ⟨k2, v2⟩ := e'
      simp only [keys, List.map_cons, List.cons.injEq] at hk
      obtain ⟨hk1, hk2⟩ := hk
      subst hk1
      simp only [keys, List.map_cons, List.nodup_cons] at hnd
      have hv := h k1 (by simp [keys])
      simp only [get?, if_true, Option.some.injEq] at hv
      subst hv
      congr 1
      apply ih r' hk2 hnd.2
      intro k hkr
      have := h k (by simp only [keys, List.map_cons, List.mem_cons]; exact Or.inr hkr)
      have hne : ¬ k1 = k := fun hh => hnd.1 (by rw [hh]; exact hkr)
      simpa [get?, hne] using this

theorem lastNs_none_iff (k : Cls) (nss : List NS) : lastNs k nss = none ↔ ∀ ns ∈ nss, ns.cls ≠ k := by
  induction nss with
  | nil => simp [lastNs]
  | cons ns rest ih =>
    simp only [lastNs]
    cases h : lastNs k rest with
    | some v =>
      simp only [reduceCtorEq, false_iff]
      intro hall
      have := ih.mpr (fun n hn => hall n (List.mem_cons_of_mem _ hn))
      rw [h] at this; cases this
    | none =>
      have hr := ih.mp h
      by_cases hc : ns.cls = k
      · simp [hc]
      · simp only [hc, if_false, true_iff]
        intro n hn
        simp only [List.mem_cons] at hn
        rcases hn with hn | hn
        · subst hn; exact hc
        · exact hr n hn

theorem lastNs_some (k : Cls) (nss : List NS) (v : NS) (h : lastNs k nss = some v) : v ∈ nss ∧ v.cls = k := by
  induction nss with
  | nil => simp [lastNs] at h
  | cons ns rest ih =>
    simp only [lastNs] at h
    cases hr : lastNs k rest with
    | some w =>
      rw [hr] at h
      simp only [Option.some.injEq] at h
      subst h
      have := ih hr
      exact ⟨List.mem_cons_of_mem _ this.1, this.2⟩
    | none =>
      rw [hr] at h
      by_cases hc : ns.cls = k
      · simp only [hc, if_true, Option.some.injEq] at h
        subst h; exact ⟨by simp, hc⟩
      · simp [hc] at h

/-! ## the class table -/

theorem filterMap_congr' {α β} (f g : α → Option β) (l : List α) (h : ∀ x ∈ l, f x = g x) :
    l.filterMap f = l.filterMap g := by
  induction l with
  | nil => rfl
  | cons a t ih =>
    simp only [List.filterMap_cons, h a (by simp)]
    rw [ih (fun x hx => h x (List.mem_cons_of_mem _ hx))]

/-- what `_ALL_DEFAULT_ARGS` holds for a class `m` of the hierarchy -/
def entry (T : List ClassRec) (m : Cls) : Option (Cls × NS) :=
  match T[m]? with
  | some r => (match r.args with | some d => some (m, ⟨m, d, 0⟩) | none => none)
  | none => none

structure TInv (T : List ClassRec) : Prop where
  closed : ∀ (c : Nat) (r : ClassRec), T[c]? = some r → ∀ m ∈ r.mro, m < T.length
  head : ∀ (c : Nat) (r : ClassRec), T[c]? = some r → ∃ rest, r.mro = c :: rest
  desc : ∀ (c : Nat) (r : ClassRec), T[c]? = some r → r.mro.Pairwise (· > ·)
  suffix : ∀ (c : Nat) (r : ClassRec), T[c]? = some r → ∀ b ∈ r.mro, ∀ rb : ClassRec, T[b]? = some rb →
    ∃ pre, r.mro = pre ++ rb.mro
  ada : ∀ (c : Nat) (r : ClassRec), T[c]? = some r → r.ada = r.mro.filterMap (entry T)

theorem tinv_init : TInv State.init.T := by
  have hc : ∀ (c : Nat) (r : ClassRec), State.init.T[c]? = some r → c = 0 ∧ r = ⟨[0], none, []⟩ := by
    intro c r h
    match c with
    | 0 => simp [State.init] at h; exact ⟨rfl, h.symm⟩
    | c + 1 => simp [State.init] at h
  refine ⟨?_, ?_, ?_, ?_, ?_⟩
  · intro c r h; obtain ⟨_, rfl⟩ := hc c r h; simp [State.init]
  · intro c r h; obtain ⟨rfl, rfl⟩ := hc c r h; exact ⟨[], rfl⟩
  · intro c r h; obtain ⟨_, rfl⟩ := hc c r h; simp
  · intro c r h b hb rb hrb
    obtain ⟨_, rfl⟩ := hc c r h
    simp only [List.mem_singleton] at hb
    subst hb
    obtain ⟨_, rfl⟩ := hc 0 rb hrb
    exact ⟨[], rfl⟩
  · intro c r h; obtain ⟨_, rfl⟩ := hc c r h
    simp [entry, State.init]

theorem getElem?_snoc {α} (T : List α) (x : α) (c : Nat) (r : α) (h : (T ++ [x])[c]? = some r) :
    (c < T.length ∧ T[c]? = some r) ∨ (c = T.length ∧ r = x) := by
  rw [List.getElem?_append] at h
  by_cases hc : c < T.length
  · simp only [hc, if_true] at h; exact Or.inl ⟨hc, h⟩
  · simp only [hc, if_false] at h
    have : c - T.length = 0 := by
      cases hh : c - T.length with
      | zero => rfl
      | succ n => rw [hh] at h; simp at h
    rw [this] at h
    simp at h
    exact Or.inr ⟨by omega, h.symm⟩

theorem getElem?_snoc_lt {α} (T : List α) (x : α) (c : Nat) (h : c < T.length) : (T ++ [x])[c]? = T[c]? := by
  rw [List.getElem?_append]; simp [h]

theorem entry_snoc (T : List ClassRec) (x : ClassRec) (m : Cls) (h : m < T.length) :
    entry (T ++ [x]) m = entry T m := by
  simp only [entry, getElem?_snoc_lt T x m h]

theorem newRec_mro (S : State) (p : Cls) (a : Option (List Int)) :
    (S.newRec p a).mro = S.T.length :: S.mro p := rfl
theorem newRec_args (S : State) (p : Cls) (a : Option (List Int)) : (S.newRec p a).args = a := rfl

theorem inherited_eq (S : State) (p : Cls) (rp : ClassRec) (x : ClassRec) (hT : TInv S.T)
    (hrp : S.T[p]? = some rp) : S.inherited (S.mro p) = rp.mro.filterMap (entry (S.T ++ [x])) := by
  have hpm : S.mro p = rp.mro := by simp [State.mro, hrp]
  rw [hpm, State.inherited]
  apply filterMap_congr'
  intro m hm
  have hml := hT.closed p rp hrp m hm
  rw [entry_snoc _ _ m hml]
  obtain ⟨rm, hrm⟩ : ∃ rm, S.T[m]? = some rm := ⟨S.T[m], by simp [hml]⟩
  simp only [State.args, State.ada, hrm, entry]
  cases hargs : rm.args with
  | none => simp
  | some d =>
    obtain ⟨rest, hrest⟩ := hT.head m rm hrm
    have hada := hT.ada m rm hrm
    have hem : entry S.T m = some (m, ⟨m, d, 0⟩) := by simp [entry, hrm, hargs]
    rw [hada, hrest]
    simp [hem, get?]

theorem newRec_ada (S : State) (p : Cls) (a : Option (List Int)) (rp : ClassRec) (hT : TInv S.T)
    (hrp : S.T[p]? = some rp) :
    (S.newRec p a).ada = (S.newRec p a).mro.filterMap (entry (S.T ++ [S.newRec p a])) := by
  have hpm : S.mro p = rp.mro := by simp [State.mro, hrp]
  have hen : entry (S.T ++ [S.newRec p a]) S.T.length
      = (match a with | some d => some (S.T.length, ⟨S.T.length, d, 0⟩) | none => none) := by
    simp [entry, newRec_args]
  rw [newRec_mro, List.filterMap_cons, hen, hpm, ← inherited_eq S p rp (S.newRec p a) hT hrp]
  cases a with
  | none => simp [State.newRec]
  | some d => simp [State.newRec]

theorem tinv_defClass (S : State) (p : Cls) (a : Option (List Int)) (hT : TInv S.T) (hp : p < S.T.length) :
    TInv (defClass S p a).1.T := by
  obtain ⟨rp, hrp⟩ : ∃ rp, S.T[p]? = some rp := ⟨S.T[p], by simp [hp]⟩
  have hpm : S.mro p = rp.mro := by simp [State.mro, hrp]
  have hpclosed := hT.closed p rp hrp
  simp only [defClass]
  have hlen : (S.T ++ [S.newRec p a]).length = S.T.length + 1 := by simp
  refine ⟨?_, ?_, ?_, ?_, ?_⟩
  · intro c r h m hm
    rw [hlen]
    rcases getElem?_snoc S.T _ c r h with ⟨_, h'⟩ | ⟨_, rfl⟩
    · exact Nat.lt_succ_of_lt (hT.closed c r h' m hm)
    · simp only [newRec_mro, List.mem_cons] at hm
      rcases hm with rfl | hm
      · exact Nat.lt_succ_self _
      · rw [hpm] at hm; exact Nat.lt_succ_of_lt (hpclosed m hm)
  · intro c r h
    rcases getElem?_snoc S.T _ c r h with ⟨_, h'⟩ | ⟨rfl, rfl⟩
    · exact hT.head c r h'
    · exact ⟨S.mro p, rfl⟩
  · intro c r h
    rcases getElem?_snoc S.T _ c r h with ⟨_, h'⟩ | ⟨rfl, rfl⟩
    · exact hT.desc c r h'
    · simp only [newRec_mro, List.pairwise_cons]
      refine ⟨?_, by rw [hpm]; exact hT.desc p rp hrp⟩
      intro m hm; rw [hpm] at hm; exact hpclosed m hm
  · intro c r h b hb rb hrb
    rcases getElem?_snoc S.T _ c r h with ⟨hc, h'⟩ | ⟨rfl, rfl⟩
    · have hbl := hT.closed c r h' b hb
      rw [getElem?_snoc_lt S.T _ b hbl] at hrb
      exact hT.suffix c r h' b hb rb hrb
    · simp only [newRec_mro, List.mem_cons] at hb
      rcases hb with rfl | hb
      · rw [h] at hrb; cases hrb; exact ⟨[], rfl⟩
      · rw [hpm] at hb
        have hbl := hpclosed b hb
        rw [getElem?_snoc_lt S.T _ b hbl] at hrb
        obtain ⟨pre, hpre⟩ := hT.suffix p rp hrp b hb rb hrb
        exact ⟨S.T.length :: pre, by simp [newRec_mro, hpm, hpre]⟩
  · intro c r h
    rcases getElem?_snoc S.T _ c r h with ⟨hc, h'⟩ | ⟨rfl, rfl⟩
    · rw [hT.ada c r h']
      apply filterMap_congr'
      intro m hm
      exact (entry_snoc S.T _ m (hT.closed c r h' m hm)).symm
    · exact newRec_ada S p a rp hT hrp

/-! ## facts about a table that satisfies the invariant, through the accessors -/

theorem acc_of_lt (S : State) (c : Cls) (h : c < S.T.length) :
    ∃ r, S.T[c]? = some r ∧ S.mro c = r.mro ∧ S.ada c = r.ada ∧ S.args c = r.args :=
  ⟨S.T[c], by simp [h], by simp [State.mro, h], by simp [State.ada, h], by simp [State.args, h]⟩

theorem entry_eq (S : State) (m : Cls) :
    entry S.T m = (S.args m).map (fun d => (m, (⟨m, d, 0⟩ : NS))) := by
  simp only [entry, State.args]
  cases S.T[m]? with
  | none => rfl
  | some r =>
    simp only
    cases h : r.args <;> simp

theorem keys_filterMap_entry (S : State) (l : List Cls) :
    keys (l.filterMap (entry S.T)) = l.filter (fun m => (S.args m).isSome) := by
  induction l with
  | nil => rfl
  | cons m t ih =>
    simp only [List.filterMap_cons, List.filter_cons, entry_eq]
    cases h : S.args m with
    | none => simpa using ih
    | some d => simp only [Option.map_some, Option.isSome_some, if_true]; simp only [keys, List.map_cons] at ih ⊢; rw [ih]

theorem get?_filterMap_entry (S : State) (l : List Cls) (k : Cls) (hk : k ∈ keys (l.filterMap (entry S.T))) :
    get? (l.filterMap (entry S.T)) k = some (S.dflNs k) := by
  induction l with
  | nil => simp [keys] at hk
  | cons m t ih =>
    simp only [List.filterMap_cons, entry_eq] at hk ⊢
    cases h : S.args m with
    | none => rw [h] at hk; simp only [Option.map_none] at hk ⊢; exact ih hk
    | some d =>
      rw [h] at hk
      simp only [Option.map_some] at hk ⊢
      simp only [get?]
      by_cases hm : m = k
      · subst hm; simp [State.dflNs, h]
      · simp only [hm, if_false]
        apply ih
        simp only [keys, List.map_cons, List.mem_cons] at hk
        rcases hk with hk | hk
        · exact absurd hk.symm hm
        · exact hk

theorem ada_eq (S : State) (hT : TInv S.T) (c : Cls) (h : c < S.T.length) :
    S.ada c = (S.mro c).filterMap (entry S.T) := by
  obtain ⟨r, hr, hm, ha, _⟩ := acc_of_lt S c h
  rw [ha, hm]; exact hT.ada c r hr

theorem keys_ada (S : State) (hT : TInv S.T) (c : Cls) (h : c < S.T.length) :
    keys (S.ada c) = S.argClasses c := by
  rw [ada_eq S hT c h, keys_filterMap_entry]; rfl

theorem get?_ada (S : State) (hT : TInv S.T) (c : Cls) (h : c < S.T.length) (k : Cls) (hk : k ∈ keys (S.ada c)) :
    get? (S.ada c) k = some (S.dflNs k) := by
  rw [ada_eq S hT c h] at hk ⊢; exact get?_filterMap_entry S _ k hk

theorem mem_keys_ada (S : State) (hT : TInv S.T) (c : Cls) (h : c < S.T.length) (k : Cls) :
    k ∈ keys (S.ada c) ↔ k ∈ S.mro c ∧ (S.args k).isSome = true := by
  rw [keys_ada S hT c h, State.argClasses, List.mem_filter]

theorem mro_nodup (S : State) (hT : TInv S.T) (c : Cls) (h : c < S.T.length) : (S.mro c).Nodup := by
  obtain ⟨r, hr, hm, _, _⟩ := acc_of_lt S c h
  rw [hm]
  have := hT.desc c r hr
  exact this.imp (fun hab => Nat.ne_of_gt hab)

theorem keys_ada_nodup (S : State) (hT : TInv S.T) (c : Cls) (h : c < S.T.length) : (keys (S.ada c)).Nodup := by
  rw [keys_ada S hT c h, State.argClasses]
  exact (mro_nodup S hT c h).filter _

theorem mro_closed (S : State) (hT : TInv S.T) (c : Cls) (h : c < S.T.length) (b : Cls) (hb : b ∈ S.mro c) :
    b < S.T.length := by
  obtain ⟨r, hr, hm, _, _⟩ := acc_of_lt S c h
  rw [hm] at hb; exact hT.closed c r hr b hb

theorem mro_self (S : State) (hT : TInv S.T) (c : Cls) (h : c < S.T.length) : c ∈ S.mro c := by
  obtain ⟨r, hr, hm, _, _⟩ := acc_of_lt S c h
  obtain ⟨rest, hrest⟩ := hT.head c r hr
  rw [hm, hrest]; simp

theorem mro_suffix (S : State) (hT : TInv S.T) (c : Cls) (h : c < S.T.length) (b : Cls) (hb : b ∈ S.mro c) :
    ∃ pre, S.mro c = pre ++ S.mro b := by
  obtain ⟨r, hr, hm, _, _⟩ := acc_of_lt S c h
  have hbl := mro_closed S hT c h b hb
  obtain ⟨rb, hrb, hmb, _, _⟩ := acc_of_lt S b hbl
  rw [hm] at hb ⊢; rw [hmb]
  exact hT.suffix c r hr b hb rb hrb

/-- `issubclass` is transitive -/
theorem mro_trans (S : State) (hT : TInv S.T) (c : Cls) (h : c < S.T.length) (b a : Cls)
    (hb : b ∈ S.mro c) (ha : a ∈ S.mro b) : a ∈ S.mro c := by
  obtain ⟨pre, hpre⟩ := mro_suffix S hT c h b hb
  rw [hpre]; exact List.mem_append_right _ ha

/-- compatible ⇒ every class of the ancestor's hierarchy that has arguments is one of the target's -/
theorem keys_ada_sub (S : State) (hT : TInv S.T) (c : Cls) (h : c < S.T.length) (b : Cls) (hb : b ∈ S.mro c)
    (k : Cls) (hk : k ∈ keys (S.ada b)) : k ∈ keys (S.ada c) := by
  have hbl := mro_closed S hT c h b hb
  rw [mem_keys_ada S hT b hbl] at hk
  rw [mem_keys_ada S hT c h]
  exact ⟨mro_trans S hT c h b k hb hk.1, hk.2⟩

theorem get?_tabulate (l : List Cls) (f : Cls → NS) (k : Cls) (hk : k ∈ l) :
    get? (l.map (fun k => (k, f k))) k = some (f k) := by
  induction l with
  | nil => cases hk
  | cons a t ih =>
    simp only [List.map_cons, get?]
    by_cases ha : a = k
    · subst ha; simp
    · simp only [ha, if_false]
      simp only [List.mem_cons] at hk
      rcases hk with hk | hk
      · exact absurd hk.symm ha
      · exact ih hk

theorem keys_tabulate (l : List Cls) (f : Cls → NS) : keys (l.map (fun k => (k, f k))) = l := by
  induction l with
  | nil => rfl
  | cons a t ih => simp only [keys, List.map_cons] at ih ⊢; rw [ih]

/-! ## the state invariant -/

structure Inv (S : State) : Prop where
  tinv : TInv S.T
  base : S.objs[0]? = some ⟨0, []⟩ ∧ S.internedGet 0 = some 0
  objs : ∀ (i : Nat) (o : Obj), S.objs[i]? = some o →
    o.rcls < S.T.length ∧ keys o.nss = keys (S.ada o.rcls) ∧ ∀ e ∈ o.nss, e.2.cls = e.1
  /-- every interned object is the all-default set of its class -/
  intern : ∀ (c i : Nat), S.internedGet c = some i → S.objs[i]? = some ⟨c, S.ada c⟩

theorem inv_init : Inv State.init := by
  refine ⟨tinv_init, ⟨rfl, rfl⟩, ?_, ?_⟩
  · intro i o h
    match i with
    | 0 =>
      simp [State.init] at h; subst h
      exact ⟨by simp [State.init], rfl, by simp⟩
    | i + 1 => simp [State.init] at h
  · intro c i h
    simp only [State.internedGet, State.init, iget?] at h
    by_cases hc : 0 = c
    · subst hc; simp at h; subst h; rfl
    · simp [hc] at h

theorem obj_of_lt (S : State) (i : Nat) (h : i < S.objs.length) : S.objs[i]? = some (S.obj i) := by
  simp [State.obj, h]

theorem iget?_none_iff (l : List (Cls × Nat)) (c : Cls) : iget? l c = none ↔ c ∉ l.map Prod.fst := by
  induction l with
  | nil => simp [iget?]
  | cons e r ih =>
    obtain ⟨k, v⟩ := e
    simp only [iget?, List.map_cons, List.mem_cons, not_or]
    by_cases hk : k = c
    · subst hk; simp
    · simp only [hk, if_false, ih]
      constructor
      · intro h; exact ⟨fun hh => hk hh.symm, h⟩
      · intro h; exact h.2

theorem iget?_snoc (l : List (Cls × Nat)) (c k : Cls) (v : Nat) :
    iget? (l ++ [(k, v)]) c = match iget? l c with | some x => some x | none => if k = c then some v else none := by
  induction l with
  | nil => simp [iget?]
  | cons e r ih =>
    obtain ⟨k', v'⟩ := e
    simp only [List.cons_append, iget?]
    by_cases hk : k' = c
    · simp [hk]
    · simp only [hk, if_false]; exact ih

def Compat (S : State) (rc : Cls) (init : Option Nat) : Prop := ∀ i, init = some i → (S.obj i).rcls ∈ S.mro rc

theorem incompatible_false (S : State) (rc : Cls) (init : Option Nat) (hc : Compat S rc init) :
    S.incompatible rc init = false := by
  cases init with
  | none => rfl
  | some i => simp [State.incompatible, State.issub, hc i rfl]

theorem mk_incompat (S : State) (rc : Cls) (init : Option Nat) (nss : List NS) (h : ¬ Compat S rc init) :
    mk S rc init nss = .error .IncompatibleRenderArgsError := by
  cases init with
  | none => exact absurd (fun i hi => by cases hi) h
  | some i =>
    have : ¬ (S.obj i).rcls ∈ S.mro rc := fun hh => h (fun j hj => by cases hj; exact hh)
    simp [mk, new, State.incompatible, State.issub, this]

theorem mk_interned (S : State) (rc : Cls) (init : Option Nat) (o : Nat) (hc : Compat S rc init)
    (hd : S.defaultish init = true) (ho : S.internedGet rc = some o) :
    mk S rc init [] = .ok (S, o) := by
  simp [mk, new, initObj, incompatible_false S rc init hc, hd, ho]

theorem mk_same (S : State) (rc : Cls) (i : Nat) (hc : Compat S rc (some i))
    (hd : S.defaultish (some i) = false) (hr : (S.obj i).rcls = rc) :
    mk S rc (some i) [] = .ok (S, i) := by
  simp [mk, new, initObj, incompatible_false S rc _ hc, hd, hr]

theorem mk_fresh (S : State) (rc : Cls) (init : Option Nat) (nss : List NS) (hc : Compat S rc init)
    (hinit : ∀ i, init = some i → i < S.objs.length)
    (h1 : ¬ (nss = [] ∧ S.defaultish init = true ∧ (S.internedGet rc).isSome = true))
    (h2 : ∀ i, ¬ (nss = [] ∧ init = some i ∧ (S.obj i).rcls = rc)) :
    mk S rc init nss = match applyNss (S.d1 rc init) nss with
      | .error e => .error e
      | .ok d => .ok (S.finish S.objs.length rc (decide (nss = []) && S.defaultish init) d, S.objs.length) := by
  have hnew : new S rc init nss = .ok S.objs.length := by
    simp only [new, incompatible_false S rc init hc]
    by_cases hn : nss = []
    · simp only [hn, if_true]
      have hvia : (if S.defaultish init = true then S.internedGet rc else none) = none := by
        by_cases hd : S.defaultish init = true
        · simp only [hd, if_true]
          cases hg : S.internedGet rc with
          | none => rfl
          | some o => exact absurd ⟨hn, hd, by simp [hg]⟩ h1
        · simp [hd]
      simp only [hvia]
      cases init with
      | none => rfl
      | some i =>
        have : ¬ (S.obj i).rcls = rc := fun hh => h2 i ⟨hn, rfl, hh⟩
        simp [this]
    · simp [hn]
  have hself : ¬ init = some S.objs.length := by
    intro hh; have := hinit _ hh; exact Nat.lt_irrefl _ this
  have hearly : (decide (nss = []) && S.defaultish init && (S.internedGet rc).isSome) = false := by
    cases hb : (decide (nss = []) && S.defaultish init && (S.internedGet rc).isSome) with
    | false => rfl
    | true =>
      simp only [Bool.and_eq_true, decide_eq_true_eq] at hb
      exact absurd ⟨hb.1.1, hb.1.2, hb.2⟩ h1
  simp only [mk, hnew, initObj, hearly, hself, Bool.false_eq_true, if_false]
  cases applyNss (S.d1 rc init) nss with
  | error e => rfl
  | ok d => rfl

/-! ## the dict built by `__init__` is the specification -/

theorem specVal_cases (S : State) (init : Option Nat) (nss : List NS) (k : Cls) :
    specVal S init nss k = match lastNs k nss with | some v => v | none => specVal S init [] k := by
  simp only [specVal, lastNs]
  cases lastNs k nss <;> rfl

/-- a default-ish initial set only holds defaults -/
theorem defaultish_vals (S : State) (hI : Inv S) (i : Nat) (hd : S.defaultish (some i) = true)
    (k : Cls) (v : NS) (h : get? (S.obj i).nss k = some v) : v = S.dflNs k := by
  simp only [State.defaultish, Bool.or_eq_true, decide_eq_true_eq] at hd
  rcases hd with hd | hd
  · subst hd
    have : S.obj 0 = ⟨0, []⟩ := by simp [State.obj, hI.base.1]
    rw [this] at h; simp [get?] at h
  · generalize hcdef : (S.obj i).rcls = c at hd
    have ho := hI.intern _ _ hd
    have hoi : S.obj i = ⟨c, S.ada c⟩ := by simp [State.obj, ho]
    rw [hoi] at h
    simp only at h
    have hlt := (hI.objs i _ ho).1
    simp only at hlt
    have hk := mem_keys_of_get? _ _ _ h
    rw [get?_ada S hI.tinv _ hlt k hk] at h
    cases h; rfl

theorem d1_props (S : State) (hI : Inv S) (rc : Cls) (hrc : rc < S.T.length) (init : Option Nat)
    (hinit : ∀ i, init = some i → i < S.objs.length) (hc : Compat S rc init) :
    keys (S.d1 rc init) = keys (S.ada rc) ∧
    ∀ k ∈ keys (S.ada rc), get? (S.d1 rc init) k = some (specVal S init [] k) := by
  cases init with
  | none =>
    refine ⟨rfl, fun k hk => ?_⟩
    simp only [State.d1, specVal, lastNs]
    exact get?_ada S hI.tinv rc hrc k hk
  | some i =>
    have hil := hinit i rfl
    have hoi := obj_of_lt S i hil
    obtain ⟨hlt, hkeys, _⟩ := hI.objs i _ hoi
    by_cases hd : S.defaultish (some i) = true
    · refine ⟨by simp [State.d1, hd], fun k hk => ?_⟩
      simp only [State.d1, hd, if_true, specVal, lastNs]
      rw [get?_ada S hI.tinv rc hrc k hk]
      cases hg : get? (S.obj i).nss k with
      | none => rfl
      | some v => rw [defaultish_vals S hI i hd k v hg]
    · have hsub : ∀ k ∈ keys (S.obj i).nss, k ∈ keys (S.ada rc) := by
        intro k hk
        rw [hkeys] at hk
        exact keys_ada_sub S hI.tinv rc hrc _ (hc i rfl) k hk
      have hnd : (keys (S.obj i).nss).Nodup := by rw [hkeys]; exact keys_ada_nodup S hI.tinv _ hlt
      have hd' : S.defaultish (some i) = false := by simpa using hd
      refine ⟨by simp only [State.d1, hd', Bool.false_eq_true, if_false]; exact keys_dupdate _ _ hsub, fun k hk => ?_⟩
      simp only [State.d1, hd', Bool.false_eq_true, if_false, specVal, lastNs]
      rw [get?_dupdate _ _ hsub hnd k]
      cases hg : get? (S.obj i).nss k with
      | none => simp only; exact get?_ada S hI.tinv rc hrc k hk
      | some v => rfl

theorem built_eq_spec (S : State) (hI : Inv S) (rc : Cls) (hrc : rc < S.T.length) (init : Option Nat)
    (hinit : ∀ i, init = some i → i < S.objs.length) (hc : Compat S rc init) (nss : List NS)
    (hn : ∀ ns ∈ nss, ns.cls ∈ keys (S.ada rc)) :
    applyNss (S.d1 rc init) nss = .ok (spec S rc init nss).nss := by
  obtain ⟨hk1, hg1⟩ := d1_props S hI rc hrc init hinit hc
  obtain ⟨d, hd, hkd, hgd⟩ := applyNss_ok (S.d1 rc init) nss (by rw [hk1]; exact hn)
  rw [hd]
  congr 1
  have hks : keys (spec S rc init nss).nss = keys (S.ada rc) := by
    simp only [spec, keys_tabulate]; exact (keys_ada S hI.tinv rc hrc).symm
  apply dict_ext
  · rw [hkd, hk1, hks]
  · rw [hkd, hk1]; exact keys_ada_nodup S hI.tinv rc hrc
  · intro k hk
    rw [hkd, hk1] at hk
    rw [hgd k, hg1 k hk]
    have hka : k ∈ S.argClasses rc := by rw [← keys_ada S hI.tinv rc hrc]; exact hk
    simp only [spec]
    rw [get?_tabulate _ _ k hka, specVal_cases S init nss k]
    cases lastNs k nss <;> rfl

theorem spec_entries (S : State) (hI : Inv S) (rc : Cls) (init : Option Nat)
    (hinit : ∀ i, init = some i → i < S.objs.length) (nss : List NS) :
    ∀ e ∈ (spec S rc init nss).nss, e.2.cls = e.1 := by
  intro e he
  simp only [spec, List.mem_map] at he
  obtain ⟨k, _, rfl⟩ := he
  simp only [specVal]
  cases hl : lastNs k nss with
  | some v => exact (lastNs_some k nss v hl).2
  | none =>
    cases init with
    | none => rfl
    | some i =>
      simp only
      cases hg : get? (S.obj i).nss k with
      | none => rfl
      | some v =>
        have := (hI.objs i _ (obj_of_lt S i (hinit i rfl))).2.2 (k, v) (mem_of_get? _ _ _ hg)
        exact this

/-! ## `finish` keeps the invariant -/

theorem write_fresh (S : State) (o : Obj) : S.write S.objs.length o = { S with objs := S.objs ++ [o] } := by
  simp [State.write]

theorem finish_false (S : State) (rc : Cls) (d : Dict) :
    S.finish S.objs.length rc false d = { S with objs := S.objs ++ [⟨rc, d⟩] } := by
  simp [State.finish, write_fresh]

theorem finish_true (S : State) (rc : Cls) (d : Dict) (h : S.internedGet rc = none) :
    S.finish S.objs.length rc true d =
      { S with objs := S.objs ++ [⟨rc, d⟩], interned := S.interned ++ [(rc, S.objs.length)] } := by
  have : rc ∉ S.interned.map Prod.fst := (iget?_none_iff _ _).mp h
  simp [State.finish, write_fresh, State.internedSet, this]

theorem inv_finish (S : State) (hI : Inv S) (rc : Cls) (hrc : rc < S.T.length) (intern : Bool) (d : Dict)
    (hk : keys d = keys (S.ada rc)) (he : ∀ e ∈ d, e.2.cls = e.1)
    (hint : intern = true → S.internedGet rc = none ∧ d = S.ada rc) :
    let S' := S.finish S.objs.length rc intern d
    Inv S' ∧ S'.T = S.T ∧ S'.objs = S.objs ++ [⟨rc, d⟩] ∧
      (∀ c j, S.internedGet c = some j → S'.internedGet c = some j) := by
  have h0 : 0 < S.objs.length := by
    have := hI.base.1
    cases hl : S.objs with
    | nil => rw [hl] at this; simp at this
    | cons a t => simp
  have hobjs : ∀ (i : Nat) (o : Obj), (S.objs ++ [⟨rc, d⟩])[i]? = some o →
      o.rcls < S.T.length ∧ keys o.nss = keys (S.ada o.rcls) ∧ ∀ e ∈ o.nss, e.2.cls = e.1 := by
    intro i o h
    rcases getElem?_snoc S.objs _ i o h with ⟨_, h'⟩ | ⟨_, rfl⟩
    · exact hI.objs i o h'
    · exact ⟨hrc, hk, he⟩
  cases intern with
  | false =>
    simp only [finish_false]
    refine ⟨⟨hI.tinv, ⟨?_, hI.base.2⟩, hobjs, ?_⟩, trivial, trivial, fun c j h => h⟩
    · simp only [getElem?_snoc_lt S.objs _ 0 h0]; exact hI.base.1
    · intro c i h
      have hh := hI.intern c i h
      have hil : i < S.objs.length := by
        by_cases hil : i < S.objs.length
        · exact hil
        · simp [List.getElem?_eq_none (Nat.le_of_not_lt hil)] at hh
      simp only [getElem?_snoc_lt S.objs _ i hil]; exact hh
  | true =>
    obtain ⟨hnone, hd⟩ := hint rfl
    simp only [finish_true S rc d hnone]
    have hget : ∀ c, State.internedGet { S with objs := S.objs ++ [⟨rc, d⟩], interned := S.interned ++ [(rc, S.objs.length)] } c
        = match S.internedGet c with | some x => some x | none => if rc = c then some S.objs.length else none := by
      intro c; simp only [State.internedGet]; exact iget?_snoc _ _ _ _
    refine ⟨⟨hI.tinv, ⟨?_, ?_⟩, hobjs, ?_⟩, trivial, trivial, ?_⟩
    · simp only [getElem?_snoc_lt S.objs _ 0 h0]; exact hI.base.1
    · rw [hget 0, hI.base.2]
    · intro c i h
      rw [hget c] at h
      cases hg : S.internedGet c with
      | some x =>
        rw [hg] at h; simp only [Option.some.injEq] at h; subst h
        have hh := hI.intern c x hg
        have hil : x < S.objs.length := by
          by_cases hil : x < S.objs.length
          · exact hil
          · simp [List.getElem?_eq_none (Nat.le_of_not_lt hil)] at hh
        simp only [getElem?_snoc_lt S.objs _ x hil]; exact hh
      | none =>
        rw [hg] at h
        by_cases hcc : rc = c
        · subst hcc
          simp only [if_true, Option.some.injEq] at h; subst h
          simp [State.ada, hd]
        · simp [hcc] at h
    · intro c j h
      rw [hget c, h]

/-! ## the constructor: one lemma that carries everything -/

/-- nothing that existed changes: the class table is the same, the heap only grows at the end,
    interning entries stay -/
def Frozen (S S' : State) : Prop :=
  (∃ ext, S'.T = S.T ++ ext) ∧ (∃ ext, S'.objs = S.objs ++ ext) ∧
    (∀ c j, S.internedGet c = some j → S'.internedGet c = some j)

theorem frozen_refl (S : State) : Frozen S S := ⟨⟨[], by simp⟩, ⟨[], by simp⟩, fun _ _ h => h⟩

theorem frozen_trans (A B C : State) (h1 : Frozen A B) (h2 : Frozen B C) : Frozen A C := by
  obtain ⟨⟨e1, h1a⟩, ⟨e2, h1b⟩, h1c⟩ := h1
  obtain ⟨⟨f1, h2a⟩, ⟨f2, h2b⟩, h2c⟩ := h2
  exact ⟨⟨e1 ++ f1, by rw [h2a, h1a, List.append_assoc]⟩, ⟨e2 ++ f2, by rw [h2b, h1b, List.append_assoc]⟩,
    fun c j h => h2c c j (h1c c j h)⟩

theorem d1_defaultish (S : State) (rc : Cls) (init : Option Nat) (hd : S.defaultish init = true) :
    S.d1 rc init = S.ada rc := by
  cases init with
  | none => rfl
  | some i => simp [State.d1, hd]

theorem spec_default (S : State) (hI : Inv S) (rc : Cls) (hrc : rc < S.T.length) (init : Option Nat)
    (hinit : ∀ i, init = some i → i < S.objs.length) (hc : Compat S rc init) (hd : S.defaultish init = true) :
    spec S rc init [] = ⟨rc, S.ada rc⟩ := by
  have := built_eq_spec S hI rc hrc init hinit hc [] (by intro ns h; cases h)
  simp only [applyNss, d1_defaultish S rc init hd, Except.ok.injEq] at this
  rw [this]; rfl

theorem spec_same (S : State) (hI : Inv S) (rc : Cls) (hrc : rc < S.T.length) (i : Nat)
    (hil : i < S.objs.length) (hr : (S.obj i).rcls = rc) : spec S rc (some i) [] = S.obj i := by
  obtain ⟨_, hkeys, _⟩ := hI.objs i _ (obj_of_lt S i hil)
  rw [hr] at hkeys
  have hks : keys (spec S rc (some i) []).nss = keys (S.ada rc) := by
    simp only [spec, keys_tabulate]; exact (keys_ada S hI.tinv rc hrc).symm
  have : (spec S rc (some i) []).nss = (S.obj i).nss := by
    apply dict_ext
    · rw [hks, hkeys]
    · rw [hks]; exact keys_ada_nodup S hI.tinv rc hrc
    · intro k hk
      rw [hks] at hk
      have hka : k ∈ S.argClasses rc := by rw [← keys_ada S hI.tinv rc hrc]; exact hk
      simp only [spec]
      rw [get?_tabulate _ _ k hka]
      obtain ⟨v, hv⟩ := get?_some_of_mem (S.obj i).nss k (by rw [hkeys]; exact hk)
      simp [specVal, lastNs, hv]
  cases hobj : S.obj i with
  | mk r n =>
    rw [hobj] at this hr
    simp only at this hr
    simp only [spec] at this ⊢
    rw [this, hr]

theorem mk_main (S : State) (hI : Inv S) (rc : Cls) (hrc : rc < S.T.length) (init : Option Nat)
    (hinit : ∀ i, init = some i → i < S.objs.length) (nss : List NS) :
    (¬ Compat S rc init ∧ mk S rc init nss = .error .IncompatibleRenderArgsError) ∨
    (Compat S rc init ∧ (∃ ns ∈ nss, ns.cls ∉ keys (S.ada rc)) ∧
      mk S rc init nss = .error .IncompatibleArgsNamespaceError) ∨
    (Compat S rc init ∧ (∀ ns ∈ nss, ns.cls ∈ keys (S.ada rc)) ∧
      ∃ S' id, mk S rc init nss = .ok (S', id) ∧ Inv S' ∧ Frozen S S' ∧
        S'.objs[id]? = some (spec S rc init nss)) := by
  by_cases hc : Compat S rc init
  case neg => exact Or.inl ⟨hc, mk_incompat S rc init nss hc⟩
  right
  by_cases hn : ∀ ns ∈ nss, ns.cls ∈ keys (S.ada rc)
  case neg =>
    left
    have hne : nss ≠ [] := by
      intro h; subst h; exact hn (fun ns h => by cases h)
    refine ⟨hc, ?_, ?_⟩
    · by_cases hex : ∃ ns ∈ nss, ns.cls ∉ keys (S.ada rc)
      · exact hex
      · exact absurd (fun ns h => Classical.byContradiction (fun hh => hex ⟨ns, h, hh⟩)) hn
    · rw [mk_fresh S rc init nss hc hinit (fun h => hne h.1) (fun i h => hne h.1)]
      have hex : ∃ ns ∈ nss, ns.cls ∉ keys (S.d1 rc init) := by
        rw [(d1_props S hI rc hrc init hinit hc).1]
        by_cases hex : ∃ ns ∈ nss, ns.cls ∉ keys (S.ada rc)
        · exact hex
        · exact absurd (fun ns h => Classical.byContradiction (fun hh => hex ⟨ns, h, hh⟩)) hn
      rw [applyNss_err _ _ hex]
  right
  refine ⟨hc, hn, ?_⟩
  by_cases hA : nss = [] ∧ S.defaultish init = true ∧ (S.internedGet rc).isSome = true
  · obtain ⟨hnil, hd, hs⟩ := hA
    subst hnil
    obtain ⟨o, ho⟩ := Option.isSome_iff_exists.mp hs
    refine ⟨S, o, mk_interned S rc init o hc hd ho, hI, frozen_refl S, ?_⟩
    rw [spec_default S hI rc hrc init hinit hc hd]
    exact hI.intern rc o ho
  by_cases hB : ∃ i, nss = [] ∧ init = some i ∧ (S.obj i).rcls = rc
  · obtain ⟨i, hnil, hi, hr⟩ := hB
    subst hnil; subst hi
    have hil := hinit i rfl
    cases hd : S.defaultish (some i) with
    | false =>
      refine ⟨S, i, mk_same S rc i hc hd hr, hI, frozen_refl S, ?_⟩
      rw [spec_same S hI rc hrc i hil hr]
      exact obj_of_lt S i hil
    | true =>
      exfalso
      apply hA
      refine ⟨rfl, hd, ?_⟩
      simp only [State.defaultish, Bool.or_eq_true, decide_eq_true_eq] at hd
      rcases hd with hd | hd
      · subst hd
        have : S.obj 0 = ⟨0, []⟩ := by simp [State.obj, hI.base.1]
        rw [this] at hr; simp only at hr
        rw [← hr, hI.base.2]; rfl
      · rw [hr] at hd; rw [hd]; rfl
  · have h2 : ∀ i, ¬ (nss = [] ∧ init = some i ∧ (S.obj i).rcls = rc) := fun i h => hB ⟨i, h⟩
    have hmk := mk_fresh S rc init nss hc hinit hA h2
    rw [built_eq_spec S hI rc hrc init hinit hc nss hn] at hmk
    simp only at hmk
    have hks : keys (spec S rc init nss).nss = keys (S.ada rc) := by
      simp only [spec, keys_tabulate]; exact (keys_ada S hI.tinv rc hrc).symm
    have hfin := inv_finish S hI rc hrc (decide (nss = []) && S.defaultish init) (spec S rc init nss).nss
      hks (spec_entries S hI rc init hinit nss) (by
        intro hint
        simp only [Bool.and_eq_true, decide_eq_true_eq] at hint
        obtain ⟨hnil, hd⟩ := hint
        subst hnil
        refine ⟨?_, ?_⟩
        · cases hg : S.internedGet rc with
          | none => rfl
          | some o => exact absurd ⟨rfl, hd, by simp [hg]⟩ hA
        · rw [spec_default S hI rc hrc init hinit hc hd])
    obtain ⟨hI', hT', hobjs', hint'⟩ := hfin
    refine ⟨_, _, hmk, hI', ⟨⟨[], by rw [hT']; simp⟩, ⟨_, hobjs'⟩, hint'⟩, ?_⟩
    rw [hobjs']
    simp [spec]

/-! ## every operation keeps the invariant and freezes what exists -/

def Good (S : State) : Except Err (State × Nat) → Prop
  | .ok (S', id) => Inv S' ∧ Frozen S S' ∧ id < S'.objs.length
  | .error _ => True

theorem lt_of_getElem?_some {α} (l : List α) (i : Nat) (x : α) (h : l[i]? = some x) : i < l.length := by
  by_cases hil : i < l.length
  · exact hil
  · simp [List.getElem?_eq_none (Nat.le_of_not_lt hil)] at h

theorem good_mk (S : State) (hI : Inv S) (rc : Cls) (hrc : rc < S.T.length) (init : Option Nat)
    (hinit : ∀ i, init = some i → i < S.objs.length) (nss : List NS) : Good S (mk S rc init nss) := by
  rcases mk_main S hI rc hrc init hinit nss with ⟨_, h⟩ | ⟨_, _, h⟩ | ⟨_, _, S', id, h, hI', hF, hv⟩
  · rw [h]; trivial
  · rw [h]; trivial
  · rw [h]; exact ⟨hI', hF, lt_of_getElem?_some _ _ _ hv⟩

theorem good_ofExcept (S : State) (hI : Inv S) (r : Except Err (State × Nat)) (h : Good S r) :
    Inv (ofExcept S r).1 ∧ Frozen S (ofExcept S r).1 := by
  cases r with
  | error e => exact ⟨hI, frozen_refl S⟩
  | ok p => obtain ⟨S', id⟩ := p; exact ⟨h.1, h.2.1⟩

theorem validCls_lt (S : State) (c : Cls) (h : S.validCls c = true) : c < S.T.length := by
  simpa [State.validCls] using h
theorem validObj_lt (S : State) (i : Nat) (h : S.validObj i = true) : i < S.objs.length := by
  simpa [State.validObj] using h
theorem validNs_args (S : State) (n : NS) (h : S.validNs n = true) : ∃ d, S.args n.cls = some d := by
  simp only [State.validNs] at h
  cases hh : S.args n.cls with
  | none => rw [hh] at h; cases h
  | some d => exact ⟨d, rfl⟩
theorem validNs_lt (S : State) (n : NS) (h : S.validNs n = true) : n.cls < S.T.length := by
  obtain ⟨d, hd⟩ := validNs_args S n h
  simp only [State.args] at hd
  cases hh : S.T[n.cls]? with
  | none => rw [hh] at hd; cases hd
  | some r => exact lt_of_getElem?_some _ _ _ hh
theorem obj_rcls_lt (S : State) (hI : Inv S) (i : Nat) (h : i < S.objs.length) : (S.obj i).rcls < S.T.length :=
  (hI.objs i _ (obj_of_lt S i h)).1
theorem validInit_lt (S : State) (init : Option Nat) (h : S.validInit init = true) :
    ∀ i, init = some i → i < S.objs.length := by
  intro i hi; subst hi; exact validObj_lt S i h

theorem good_update (S : State) (hI : Inv S) (self : Nat) (hs : self < S.objs.length) (first : First)
    (nss : List NS) (fields : List (Nat × Int)) : Good S (update S self first nss fields) := by
  have hrc := obj_rcls_lt S hI self hs
  have hinit : ∀ i, some self = some i → i < S.objs.length := fun i hi => by cases hi; exact hs
  unfold update
  cases first with
  | cls c =>
    simp only
    split
    · trivial
    · split
      · trivial
      · split
        · trivial
        · exact good_mk S hI _ hrc _ hinit _
  | ns n =>
    simp only
    split
    · trivial
    · exact good_mk S hI _ hrc _ hinit _

theorem good_convert (S : State) (hI : Inv S) (self : Nat) (hs : self < S.objs.length) (rc : Cls)
    (hrc : rc < S.T.length) : Good S (convert S self rc) := by
  have hinit : ∀ i, some self = some i → i < S.objs.length := fun i hi => by cases hi; exact hs
  unfold convert
  simp only
  split
  · exact ⟨hI, frozen_refl S, hs⟩
  · split
    · exact good_mk S hI _ hrc _ hinit _
    · split
      · exact good_mk S hI _ hrc _ (fun i hi => by cases hi) _
      · trivial

theorem good_nsOr (S : State) (hI : Inv S) (self : NS) (hs : S.validNs self = true) (other : Operand)
    (ho : S.validOperand other = true) : Good S (nsOr S self other) := by
  have hsl := validNs_lt S self hs
  unfold nsOr
  cases other with
  | ns o =>
    have hol := validNs_lt S o ho
    simp only
    split
    · exact good_mk S hI _ hol _ (fun i hi => by cases hi) _
    · split
      · exact good_mk S hI _ hsl _ (fun i hi => by cases hi) _
      · split
        · exact good_mk S hI _ hol _ (fun i hi => by cases hi) _
        · trivial
  | ra i =>
    have hil := validObj_lt S i ho
    have hinit : ∀ j, some i = some j → j < S.objs.length := fun j hj => by cases hj; exact hil
    simp only
    split
    · exact good_mk S hI _ hsl _ hinit _
    · split
      · exact good_mk S hI _ (obj_rcls_lt S hI i hil) _ hinit _
      · trivial

theorem good_nsRor (S : State) (hI : Inv S) (self : NS) (hs : S.validNs self = true) (other : Operand)
    (ho : S.validOperand other = true) : Good S (nsRor S self other) := by
  unfold nsRor
  cases other with
  | ns o =>
    simp only
    split
    · exact good_mk S hI _ (validNs_lt S self hs) _ (fun i hi => by cases hi) _
    · exact good_nsOr S hI self hs _ ho
  | ra i => exact good_nsOr S hI self hs _ ho

theorem snoc_accessors (S : State) (x : ClassRec) (c : Cls) (h : c < S.T.length) :
    State.ada { S with T := S.T ++ [x] } c = S.ada c := by
  simp only [State.ada, getElem?_snoc_lt S.T x c h]

theorem inv_defClass (S : State) (hI : Inv S) (p : Cls) (hp : p < S.T.length) (a : Option (List Int)) :
    Inv (defClass S p a).1 ∧ Frozen S (defClass S p a).1 := by
  have ht := tinv_defClass S p a hI.tinv hp
  refine ⟨⟨ht, hI.base, ?_, ?_⟩, ⟨⟨[S.newRec p a], rfl⟩, ⟨[], by simp [defClass]⟩, fun c j h => h⟩⟩
  · intro i o h
    obtain ⟨h1, h2, h3⟩ := hI.objs i o h
    refine ⟨?_, ?_, h3⟩
    · simp only [defClass, List.length_append, List.length_cons, List.length_nil]; exact Nat.lt_succ_of_lt h1
    · simp only [defClass]; rw [snoc_accessors S _ _ h1]; exact h2
  · intro c i h
    have hh := hI.intern c i h
    have hc := (hI.objs i _ hh).1
    simp only at hc
    simp only [defClass]; rw [snoc_accessors S _ _ hc]; exact hh

theorem step_inv (S : State) (hI : Inv S) (op : Op) : Inv (step S op).1 ∧ Frozen S (step S op).1 := by
  unfold step
  by_cases hv : op.valid S = true
  · simp only [hv, if_true]
    cases op with
    | defClass p a =>
      simp only [Op.valid] at hv
      exact inv_defClass S hI p (validCls_lt S p hv) a
    | mk rc init nss =>
      simp only [Op.valid, Bool.and_eq_true] at hv
      exact good_ofExcept S hI _ (good_mk S hI rc (validCls_lt S rc hv.1.1) init (validInit_lt S init hv.1.2) nss)
    | update self first nss fields =>
      simp only [Op.valid, Bool.and_eq_true] at hv
      exact good_ofExcept S hI _ (good_update S hI self (validObj_lt S self hv.1.1) first nss fields)
    | convert self rc =>
      simp only [Op.valid, Bool.and_eq_true] at hv
      exact good_ofExcept S hI _ (good_convert S hI self (validObj_lt S self hv.1) rc (validCls_lt S rc hv.2))
    | nsOr self other =>
      simp only [Op.valid, Bool.and_eq_true] at hv
      exact good_ofExcept S hI _ (good_nsOr S hI self hv.1 other hv.2)
    | nsRor self other =>
      simp only [Op.valid, Bool.and_eq_true] at hv
      exact good_ofExcept S hI _ (good_nsRor S hI self hv.1 other hv.2)
    | nsPos self =>
      simp only [Op.valid] at hv
      exact good_ofExcept S hI _ (good_mk S hI _ (validNs_lt S self hv) _ (fun i hi => by cases hi) _)
    | nsToRA self rc =>
      simp only [Op.valid, Bool.and_eq_true] at hv
      refine good_ofExcept S hI _ (good_mk S hI _ ?_ _ (fun i hi => by cases hi) _)
      cases rc with
      | none => exact validNs_lt S self hv.1
      | some c => exact validCls_lt S c hv.2
  · simp only [hv]; exact ⟨hI, frozen_refl S⟩

theorem run_inv (S : State) (hI : Inv S) (ops : List Op) : Inv (runOps S ops) ∧ Frozen S (runOps S ops) := by
  induction ops generalizing S with
  | nil => exact ⟨hI, frozen_refl S⟩
  | cons op rest ih =>
    obtain ⟨h1, h2⟩ := step_inv S hI op
    obtain ⟨h3, h4⟩ := ih (step S op).1 h1
    exact ⟨h3, frozen_trans _ _ _ h2 h4⟩

/-! ## equality, hashing, membership -/

/-- forget which class of the namespace-class family an instance belongs to -/
def untagNS (n : NS) : NS := { n with tag := 0 }
def untag (d : Dict) : Dict := d.map (fun e => (e.1, untagNS e.2))

/-- `==` on namespaces is "same associated render class and same field values" — the subclass an
    instance belongs to plays no part -/
theorem nsEq_iff (a b : NS) : nsEq a b = true ↔ untagNS a = untagNS b := by
  cases a; cases b
  simp [nsEq, untagNS]

theorem nsEq_iff_key (a b : NS) : nsEq a b = true ↔ nsHashKey a = nsHashKey b := by
  cases a; cases b
  simp [nsEq, nsHashKey]

theorem keys_untag (d : Dict) : keys (untag d) = keys d := by
  simp [keys, untag, List.map_map, Function.comp_def]

theorem get?_untag (d : Dict) (k : Cls) : get? (untag d) k = (get? d k).map untagNS := by
  induction d with
  | nil => rfl
  | cons e r ih =>
    obtain ⟨k1, v1⟩ := e
    simp only [untag, List.map_cons, get?] at ih ⊢
    by_cases hk : k1 = k
    · simp [hk]
    · simp only [hk, if_false]; exact ih

theorem nsEq_untag (a b : NS) : nsEq (untagNS a) (untagNS b) = nsEq a b := rfl

theorem dictEq_untag (a b : Dict) : dictEq (untag a) (untag b) = dictEq a b := by
  simp only [dictEq, untag, List.length_map, List.all_map]
  congr 1
  apply List.all_congr rfl
  intro e
  simp only [Function.comp_def]
  have := get?_untag b e.1
  simp only [untag] at this
  rw [this]
  cases get? b e.1 <;> rfl

theorem untag_idem (d : Dict) : ∀ e ∈ untag d, e.2.tag = 0 := by
  intro e he
  simp only [untag, List.mem_map] at he
  obtain ⟨e', _, rfl⟩ := he
  rfl

theorem hashKey_untag (d : Dict) : (untag d).map (fun e => nsHashKey e.2) = d.map (fun e => nsHashKey e.2) := by
  simp [untag, List.map_map, Function.comp_def, nsHashKey, untagNS]

theorem get?_of_mem_nodup (d : Dict) (hnd : (keys d).Nodup) (k : Cls) (v : NS) (h : (k, v) ∈ d) :
    get? d k = some v := by
  induction d with
  | nil => cases h
  | cons e r ih =>
    obtain ⟨k1, v1⟩ := e
    simp only [keys, List.map_cons, List.nodup_cons] at hnd
    simp only [List.mem_cons, Prod.mk.injEq] at h
    simp only [get?]
    rcases h with ⟨rfl, rfl⟩ | h
    · simp
    · have : ¬ k1 = k := by
        intro hh; subst hh
        exact hnd.1 (List.mem_map_of_mem (f := Prod.fst) h)
      simp only [this, if_false]
      exact ih hnd.2 h

theorem dictEq_iff0 (a b : Dict) (hk : keys a = keys b) (hnd : (keys a).Nodup)
    (ha : ∀ e ∈ a, e.2.tag = 0) (hb : ∀ e ∈ b, e.2.tag = 0) : dictEq a b = true ↔ a = b := by
  have h0 : ∀ n : NS, n.tag = 0 → untagNS n = n := by
    intro n hn; cases n; simp only at hn; subst hn; rfl
  constructor
  · intro h
    simp only [dictEq, Bool.and_eq_true, decide_eq_true_eq, List.all_eq_true] at h
    apply dict_ext a b hk hnd
    intro k hkk
    obtain ⟨v, hv⟩ := get?_some_of_mem a k hkk
    have := h.2 (k, v) (mem_of_get? a k v hv)
    simp only at this
    cases hbk : get? b k with
    | none => rw [hbk] at this; cases this
    | some w =>
      rw [hbk] at this
      have hvw := (nsEq_iff v w).mp this
      rw [h0 v (ha (k, v) (mem_of_get? a k v hv)), h0 w (hb (k, w) (mem_of_get? b k w hbk))] at hvw
      rw [hv, hvw]
  · intro h
    subst h
    simp only [dictEq, decide_true, Bool.true_and, List.all_eq_true]
    intro e he
    rw [get?_of_mem_nodup a hnd e.1 e.2 he]
    exact (nsEq_iff _ _).mpr rfl

/-- dict equality of two namespace mappings = equality up to the subclass tags -/
theorem dictEq_iff (a b : Dict) (hk : keys a = keys b) (hnd : (keys a).Nodup) :
    dictEq a b = true ↔ untag a = untag b := by
  rw [← dictEq_untag]
  exact dictEq_iff0 (untag a) (untag b) (by rw [keys_untag, keys_untag, hk]) (by rw [keys_untag]; exact hnd)
    (untag_idem a) (untag_idem b)

theorem raEq_iff (S : State) (hI : Inv S) (i j : Nat) (hi : i < S.objs.length) (hj : j < S.objs.length) :
    raEq S i j = true ↔
      (S.obj i).rcls = (S.obj j).rcls ∧ untag (S.obj i).nss = untag (S.obj j).nss := by
  obtain ⟨hli, hki, _⟩ := hI.objs i _ (obj_of_lt S i hi)
  obtain ⟨_, hkj, _⟩ := hI.objs j _ (obj_of_lt S j hj)
  simp only [raEq, Bool.or_eq_true, Bool.and_eq_true, decide_eq_true_eq]
  have hnd : (keys (S.obj i).nss).Nodup := by rw [hki]; exact keys_ada_nodup S hI.tinv _ hli
  constructor
  · rintro (h | ⟨h1, h2⟩)
    · rw [h]; exact ⟨rfl, rfl⟩
    · have hk : keys (S.obj i).nss = keys (S.obj j).nss := by rw [hki, hkj, h1]
      exact ⟨h1, (dictEq_iff _ _ hk hnd).mp h2⟩
  · rintro ⟨h1, h2⟩
    right
    have hk : keys (S.obj i).nss = keys (S.obj j).nss := by rw [hki, hkj, h1]
    exact ⟨h1, (dictEq_iff _ _ hk hnd).mpr h2⟩

/-! ## what `convert` to an ancestor passes on -/

theorem lastNs_map_snd (d : Dict) (hnd : (keys d).Nodup) (he : ∀ e ∈ d, e.2.cls = e.1) (k : Cls) :
    lastNs k (d.map Prod.snd) = get? d k := by
  induction d with
  | nil => rfl
  | cons e r ih =>
    obtain ⟨k1, v1⟩ := e
    simp only [keys, List.map_cons, List.nodup_cons] at hnd
    have hv1 : v1.cls = k1 := he (k1, v1) (by simp)
    simp only [List.map_cons, lastNs, get?]
    rw [ih hnd.2 (fun e h => he e (List.mem_cons_of_mem _ h)), hv1]
    by_cases hk : k1 = k
    · subst hk
      rw [get?_none_of_not_mem r k1 hnd.1]
    · simp only [hk, if_false]
      cases get? r k <;> rfl

theorem get?_filter_key (d : Dict) (q : Cls → Bool) (k : Cls) :
    get? (d.filter (fun e => q e.1)) k = if q k then get? d k else none := by
  induction d with
  | nil => simp [get?]
  | cons e r ih =>
    obtain ⟨k1, v1⟩ := e
    simp only [List.filter_cons]
    by_cases hq : q k1 = true
    · simp only [hq, if_true, get?]
      by_cases hk : k1 = k
      · subst hk; simp [hq]
      · simp only [hk, if_false]; exact ih
    · simp only [hq, Bool.false_eq_true, if_false]
      rw [ih]
      simp only [get?]
      by_cases hk : k1 = k
      · subst hk; simp [hq]
      · simp [hk]

theorem keys_filter_sublist (d : Dict) (p : Cls × NS → Bool) : (keys (d.filter p)).Sublist (keys d) := by
  simp only [keys]
  exact List.Sublist.map _ List.filter_sublist

theorem foldl_set_length (fields : List (Nat × Int)) (vs : List Int) :
    (fields.foldl (fun vs f => vs.set f.1 f.2) vs).length = vs.length := by
  induction fields generalizing vs with
  | nil => rfl
  | cons f rest ih => simp only [List.foldl_cons]; rw [ih]; simp

/-! ## reachable states -/

/-- a state reached from the state right after `import term_image.renderable` by any history of
    class definitions and render-argument operations -/
def Reach (S : State) : Prop := ∃ ops : List Op, S = runOps State.init ops

theorem reach_inv {S : State} (h : Reach S) : Inv S := by
  obtain ⟨ops, rfl⟩ := h
  exact (run_inv _ inv_init ops).1

theorem frozen_objs {S S' : State} (h : Frozen S S') (i : Nat) (hi : i < S.objs.length) :
    S'.objs[i]? = S.objs[i]? := by
  obtain ⟨_, ⟨ext, he⟩, _⟩ := h
  rw [he, List.getElem?_append_left hi]

theorem frozen_T {S S' : State} (h : Frozen S S') (c : Nat) (hc : c < S.T.length) :
    S'.T[c]? = S.T[c]? := by
  obtain ⟨⟨ext, he⟩, _, _⟩ := h
  rw [he, List.getElem?_append_left hc]

/-- `mk` either raises or returns what `mk_main` says; convenient elimination form -/
theorem mk_ok (S : State) (hI : Inv S) (rc : Cls) (hrc : rc < S.T.length) (init : Option Nat)
    (hinit : ∀ i, init = some i → i < S.objs.length) (nss : List NS) (S' : State) (id : Nat)
    (h : mk S rc init nss = .ok (S', id)) :
    Compat S rc init ∧ (∀ ns ∈ nss, ns.cls ∈ keys (S.ada rc)) ∧ Inv S' ∧ Frozen S S' ∧
      S'.objs[id]? = some (spec S rc init nss) := by
  rcases mk_main S hI rc hrc init hinit nss with ⟨_, h'⟩ | ⟨_, _, h'⟩ | ⟨hc, hn, S'', id', h', hI', hF, hv⟩
  · rw [h'] at h; cases h
  · rw [h'] at h; cases h
  · rw [h'] at h; cases h; exact ⟨hc, hn, hI', hF, hv⟩

theorem mk_accepts (S : State) (hI : Inv S) (rc : Cls) (hrc : rc < S.T.length) (init : Option Nat)
    (hinit : ∀ i, init = some i → i < S.objs.length) (nss : List NS)
    (hc : Compat S rc init) (hn : ∀ ns ∈ nss, ns.cls ∈ keys (S.ada rc)) :
    ∃ S' id, mk S rc init nss = .ok (S', id) := by
  rcases mk_main S hI rc hrc init hinit nss with ⟨hnc, _⟩ | ⟨_, ⟨ns, h1, h2⟩, _⟩ | ⟨_, _, S', id, h', _⟩
  · exact absurd hc hnc
  · exact absurd (hn ns h1) h2
  · exact ⟨S', id, h'⟩

end TIV.C16
