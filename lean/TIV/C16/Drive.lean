import TIV.Common.Wire
import TIV.C16.Model
/-! driver ops of C16: `run` (a whole history over the render-argument model, queries included)
and `def` (a history of namespace class definitions / instantiations) -/
namespace TIV.C16
open TIV.Wire

def fmtInts (xs : List Int) : String := String.intercalate "," (xs.map toString)
def fmtNs (n : NS) : String :=
  toString n.cls ++ (if n.tag = 0 then "" else "~" ++ toString n.tag) ++ ":" ++ fmtInts n.vals
def fmtDict (d : Dict) : String := String.intercalate ";" (d.map (fun e => fmtNs e.2))
def fmtObj (o : Obj) : String := toString o.rcls ++ "/" ++ fmtDict o.nss

def pNs : P NS := do
  let c ← nat; let vs ← listOf int; let t ← nat
  pure ⟨c, vs, t⟩
def pFields : P (List (Nat × Int)) := listOf (do let i ← nat; let v ← int; pure (i, v))
def pOperand : P Operand := do
  let t ← word
  if t == "n" then do let n ← pNs; pure (.ns n)
  else if t == "r" then do let i ← nat; pure (.ra i)
  else failure

/-- commands = state-changing ops + pure queries -/
inductive Cmd
  | op (o : Op)
  | eq (i j : Nat) | hash (i : Nat) | has (i : Nat) (n : NS) | get (i : Nat) (c : Cls)
  | nsi (c : Cls) (tag : Nat) (vals : List Int) (fields : List (Nat × Int))
  | nsu (n : NS) (fields : List (Nat × Int))
  | ds (c : Cls) (tag : Nat)
  | nseq (a b : NS) | nshash (a : NS)
  | attr (n : NS) (idx : Nat) | seta (n : NS) (idx : Nat) (v : Int) | dela (n : NS) (idx : Nat)
  | gett (i : Nat)

def pCmd : P Cmd := do
  let t ← word
  match t with
  | "dc" => do
      -- the last token says which non-render mix-in bases the harness gives the class (before / after its
      -- render base); mix-ins are invisible to the model: `mro` is the chain of *render* ancestors only
      let p ← nat; let a ← optOf (listOf int); let _mix ← nat
      pure (.op (.defClass p a))
  | "mk" => do let rc ← nat; let i ← optOf nat; let nss ← listOf pNs; pure (.op (.mk rc i nss))
  | "upn" => do
      let s ← nat; let n ← pNs; let nss ← listOf pNs; let f ← pFields
      pure (.op (.update s (.ns n) nss f))
  | "upc" => do
      let s ← nat; let c ← nat; let nss ← listOf pNs; let f ← pFields
      pure (.op (.update s (.cls c) nss f))
  | "cv" => do let s ← nat; let c ← nat; pure (.op (.convert s c))
  | "or" => do let n ← pNs; let o ← pOperand; pure (.op (.nsOr n o))
  | "ror" => do let n ← pNs; let o ← pOperand; pure (.op (.nsRor n o))
  | "pos" => do let n ← pNs; pure (.op (.nsPos n))
  | "tra" => do let n ← pNs; let c ← optOf nat; pure (.op (.nsToRA n c))
  | "eq" => do let i ← nat; let j ← nat; pure (.eq i j)
  | "hash" => do let i ← nat; pure (.hash i)
  | "has" => do let i ← nat; let n ← pNs; pure (.has i n)
  | "get" => do let i ← nat; let c ← nat; pure (.get i c)
  | "nsi" => do let c ← nat; let t ← nat; let v ← listOf int; let f ← pFields; pure (.nsi c t v f)
  | "ds" => do let c ← nat; let t ← nat; pure (.ds c t)
  | "nseq" => do let a ← pNs; let b ← pNs; pure (.nseq a b)
  | "nshash" => do let a ← pNs; pure (.nshash a)
  | "attr" => do let n ← pNs; let i ← nat; pure (.attr n i)
  | "seta" => do let n ← pNs; let i ← nat; let v ← int; pure (.seta n i v)
  | "dela" => do let n ← pNs; let i ← nat; pure (.dela n i)
  | "gett" => do let i ← nat; pure (.gett i)
  | "nsu" => do let n ← pNs; let f ← pFields; pure (.nsu n f)
  | _ => failure

def fmtExNs : Except Err NS → String
  | .ok n => "n/" ++ fmtNs n
  | .error e => "E:" ++ e.name

/-- `none` = the command refers to something that does not exist (the whole request is `bad-op`) -/
def exec (S : State) : Cmd → Option (State × String)
  | .op o =>
    match step S o with
    | (_, .bad) => none
    | (S', .cls c) => some (S', "c" ++ toString c)
    | (S', .ra i) => some (S', "r" ++ toString i ++ "/" ++ fmtObj (S'.obj i))
    | (S', .err e) => some (S', "E:" ++ e.name)
  | .eq i j => if S.validObj i && S.validObj j then some (S, fmtBool (raEq S i j)) else none
  | .hash i =>
    if S.validObj i then
      match raHash S i with
      | .ok h => some (S, "h" ++ toString h.1 ++ "/" ++ String.intercalate ";" (h.2.map (fun e => toString e.1 ++ ":" ++ fmtInts e.2)))
      | .error e => some (S, "E:" ++ e.name)
    else none
  | .has i n => if S.validObj i && S.validNs n then some (S, fmtBool (contains S i n)) else none
  | .get i c => if S.validObj i && S.validCls c then some (S, fmtExNs (getitem S i c)) else none
  | .nsi c t v f =>
    match S.args c with
    | some d => some (S, fmtExNs (nsInit c d v f t))
    | none => none
  | .ds c t => if (S.args c).isSome && decide (0 < t) then some (S, "s" ++ toString t) else none
  | .nseq a b => if S.validNs a && S.validNs b then some (S, fmtBool (nsEq a b)) else none
  | .nshash a =>
    if S.validNs a then
      match nsHash a with
      | .ok h => some (S, "g" ++ toString h.1 ++ ":" ++ fmtInts h.2)
      | .error e => some (S, "E:" ++ e.name)
    else none
  | .attr n i =>
    if S.validNs n then
      some (S, match nsGetattr n i with | .ok v => "v" ++ toString v | .error e => "E:" ++ e.name)
    else none
  | .seta n i v => if S.validNs n then some (S, "E:" ++ (nsSetattr n i v).name) else none
  | .dela n i => if S.validNs n then some (S, "E:" ++ (nsDelattr n i).name) else none
  | .gett i => if S.validObj i then some (S, "E:" ++ getitemNonClass.name) else none
  | .nsu n f => if S.validNs n then some (S, fmtExNs (nsUpdate S n f)) else none

def execAll (S : State) : List Cmd → List String → Option (List String)
  | [], acc => some acc.reverse
  | c :: rest, acc =>
    match exec S c with
    | none => none
    | some (S', r) => execAll S' rest (r :: acc)

/-! namespace class definitions -/
inductive DCmd
  | define (bases : List Nat) (annot : List (Option Int)) (rc : Option Cls)
  | inst (i : Nat) (vals : List Int) (fields : List (Nat × Int))
  | ddefine (bases : List Nat) (nfields : Nat) (rc : Option Cls)
  | dupd (i : Nat) (fields : List (Nat × Int))

def pDCmd : P DCmd := do
  let t ← word
  match t with
  | "d" => do let b ← listOf nat; let a ← listOf (optOf int); let rc ← optOf nat; pure (.define b a rc)
  | "inst" => do let i ← nat; let v ← listOf int; let f ← pFields; pure (.inst i v f)
  | "dd" => do let b ← listOf nat; let n ← nat; let rc ← optOf nat; pure (.ddefine b n rc)
  | "dupd" => do let i ← nat; let f ← pFields; pure (.dupd i f)
  | _ => failure

def dexec (D : DState) : DCmd → Option (DState × String)
  | .define bases annot rc =>
    if bases.isEmpty || bases.any (fun b => decide (D.ns.length ≤ b)) then none
    else match defineNs D bases annot rc with
      | .ok (D', i) =>
        match D'.ns[i]? with
        | some k => some (D', "k" ++ toString i ++ "/" ++ fmtInts k.fields ++ "/" ++ fmtBool k.associated ++ "/" ++
            (if k.associated then toString k.rcls else "-"))
        | none => none
      | .error e => some (D, "E:" ++ e.name)
  | .inst i v f =>
    if D.ns.length ≤ i then none else some (D, fmtExNs (instantiate D i v f))
  | .ddefine bases n rc =>
    if bases.isEmpty || bases.any (fun b => decide (D.dns.length ≤ b)) then none
    else match defineData D bases n rc with
      | .ok (D', i) =>
        match D'.dns[i]? with
        | some k => some (D', "q" ++ toString i ++ "/" ++ toString k.fields.length ++ "/" ++ fmtBool k.associated ++ "/" ++
            (if k.associated then toString k.rcls else "-"))
        | none => none
      | .error e => some (D, "E:" ++ e.name)
  | .dupd i f =>
    if D.dns.length ≤ i then none
    else match dataUpdate D i f with
      | .ok fs => some (D, "u/" ++ String.intercalate "," (fs.map (fun x => toString x.1 ++ "=" ++ toString x.2)))
      | .error e => some (D, "E:" ++ e.name)

def dexecAll (D : DState) : List DCmd → List String → Option (List String)
  | [], acc => some acc.reverse
  | c :: rest, acc =>
    match dexec D c with
    | none => none
    | some (D', r) => dexecAll D' rest (r :: acc)

def handler : Handler := fun op args =>
  match op with
  | "run" =>
    match Wire.run (listOf pCmd) args with
    | some cmds => (execAll State.init cmds []).map (fun rs => "ok " ++ String.intercalate " | " rs)
    | none => none
  | "def" =>
    match Wire.run (do let n ← nat; let cs ← listOf pDCmd; pure (n, cs)) args with
    | some (n, cs) => (dexecAll (DState.init n) cs []).map (fun rs => "ok " ++ String.intercalate " | " rs)
    | none => none
  | _ => none

end TIV.C16
