import TIV.C18.Proofs
/-! the "nothing missing" direction of the placement theorem -/
namespace TIV.C18
open TIV

theorem emitAll_keeps (b : Bool) : ∀ (E : List Seg) (t : Term) (p : Placement), p ∈ t.imgs →
    (∀ s' ∈ E, Term.inRect p s'.row s'.col = false ∨ s'.pl = p) → p ∈ (emitAll b t E).imgs := by
  intro E
  induction E with
  | nil => intro t p h _; exact h
  | cons s E ih =>
    intro t p h hs
    simp only [emitAll, List.foldl_cons]
    apply ih (emitSeg b t s) p
    · rw [emitSeg_imgs]
      rcases hs s (by simp) with h1 | h1
      · cases b
        · exact List.mem_cons_of_mem _ (List.mem_filter.2 ⟨h, by simp [h1]⟩)
        · exact List.mem_cons_of_mem _ h
      · rw [h1]; exact List.mem_cons_self
    · intro s' hs'; exact hs s' (List.mem_cons_of_mem _ hs')

theorem emitAll_emitted (b : Bool) : ∀ (E : List Seg) (t : Term),
    (∀ s ∈ E, ∀ s' ∈ E, s'.pl ≠ s.pl → Term.inRect s.pl s'.row s'.col = false) →
    ∀ s ∈ E, s.pl ∈ (emitAll b t E).imgs := by
  intro E
  induction E with
  | nil => intro t _ s hs; cases hs
  | cons s0 E ih =>
    intro t hno s hs
    simp only [emitAll, List.foldl_cons]
    rcases List.mem_cons.1 hs with rfl | hs
    · apply emitAll_keeps b E (emitSeg b t s) s.pl
      · rw [emitSeg_imgs]; exact List.mem_cons_self
      · intro s' hs'
        by_cases he : s'.pl = s.pl
        · exact Or.inr he
        · exact Or.inl (hno s (by simp) s' (List.mem_cons_of_mem _ hs') he)
    · exact ih (emitSeg b t s0)
        (fun a ha a' ha' => hno a (List.mem_cons_of_mem _ ha) a' (List.mem_cons_of_mem _ ha')) s hs

theorem segsOfView_info {e : Env} {v : View} {g : Seg} (h : g ∈ segsOfView e v) :
    g.z = (e.info v.canv).z ∧ g.widget = (e.info v.canv).widget ∧ e.isKitty v.canv = true := by
  unfold segsOfView at h
  simp only at h
  split at h
  · simp at h
  · rename_i hc
    simp only [List.mem_filterMap, List.mem_range] at h
    obtain ⟨k, _, hk⟩ := h
    split at hk
    · simp only [Option.some.injEq] at hk
      subst hk
      refine ⟨rfl, rfl, ?_⟩
      simp only [Bool.or_eq_true, not_or, bne_iff_ne, ne_eq, Decidable.not_not] at hc
      simp [Env.isKitty, hc.1.1]
    · cases hk

theorem inRect_other_row (g : Seg) (r c : Nat) (h : r ≠ g.row) : Term.inRect g.pl r c = false := by
  simp only [Term.inRect, Seg.pl]
  by_cases h1 : g.row ≤ r
  · have : ¬ r < g.row + 1 := by omega
    simp [this]
  · simp [h1]

end TIV.C18
