import TIV.C18.Proofs
/-! the "nothing missing" direction of the placement theorem -/
namespace TIV.C18
open TIV

theorem emitAll_keeps (b : Bool) : ∀ (E : List Seg) (t : Term) (p : Placement), p ∈ t.imgs →
    (∀ s' ∈ E, Term.inRect p s'.row s'.col = false ∨ s'.pl = p) → p ∈ (emitAll b t E).imgs := by
  intro E
  induction E with
  | nil => intro t p h _; exact h
  | cons s E ih =>
    intro t p h hs
    simp only [emitAll, List.foldl_cons]
    apply ih (emitSeg b t s) p
    · rw [emitSeg_imgs]
      rcases hs s (by simp) with h1 | h1
      · cases b
        · exact List.mem_cons_of_mem _ (List.mem_filter.2 ⟨h, by simp [h1]⟩)
        · exact List.mem_cons_of_mem _ h
      · rw [h1]; exact List.mem_cons_self
    · intro s' hs'; exact hs s' (List.mem_cons_of_mem _ hs')

theorem emitAll_emitted (b : Bool) : ∀ (E : List Seg) (t : Term),
    (∀ s ∈ E, ∀ s' ∈ E, s'.pl ≠ s.pl → Term.inRect s.pl s'.row s'.col = false) →
    ∀ s ∈ E, s.pl ∈ (emitAll b t E).imgs := by
  intro E
  induction E with
  | nil => intro t _ s hs; cases hs
  | cons s0 E ih =>
    intro t hno s hs
    simp only [emitAll, List.foldl_cons]
    rcases List.mem_cons.1 hs with rfl | hs
    · apply emitAll_keeps b E (emitSeg b t s) s.pl
      · rw [emitSeg_imgs]; exact List.mem_cons_self
      · intro s' hs'
        by_cases he : s'.pl = s.pl
        · exact Or.inr he
        · exact Or.inl (hno s (by simp) s' (List.mem_cons_of_mem _ hs') he)
    · exact ih (emitSeg b t s0)
        (fun a ha a' ha' => hno a (List.mem_cons_of_mem _ ha) a' (List.mem_cons_of_mem _ ha')) s hs

theorem segsOfView_info {e : Env} {v : View} {g : Seg} (h : g ∈ segsOfView e v) :
    g.z = (e.info v.canv).z ∧ g.widget = (e.info v.canv).widget ∧ e.isKitty v.canv = true := by
  unfold segsOfView at h
  simp only at h
  split at h
  · simp at h
  · rename_i hc
    simp only [List.mem_filterMap, List.mem_range] at h
    obtain ⟨k, _, hk⟩ := h
    split at hk
    · simp only [Option.some.injEq] at hk
      subst hk
      refine ⟨rfl, rfl, ?_⟩
      simp only [Bool.or_eq_true, not_or, bne_iff_ne, ne_eq, Decidable.not_not] at hc
      simp [Env.isKitty, hc.1.1]
    · cases hk

theorem inRect_other_row (g : Seg) (r c : Nat) (h : r ≠ g.row) : Term.inRect g.pl r c = false := by
  simp only [Term.inRect, Seg.pl]
  by_cases h1 : g.row ≤ r
  · have : ¬ r < g.row + 1 := by omega
    simp [this]
  · simp [h1]

end TIV.C18

namespace TIV.C18
open TIV

/-- what `_ti_clear_images` can do to the disguise counters: nothing, the class-level bump, or one bump of
some widgets (never both) -/
theorem tiClear_state (e : Env) (s : Scr) (shards : List Shard) :
    ((tiClear e s shards).1.cdis = s.cdis ∧
      ∀ g, (tiClear e s shards).1.wd g = s.wd g ∨ (tiClear e s shards).1.wd g = (s.wd g + 1) % 3) ∨
    ((tiClear e s shards).1.cdis = (s.cdis + 1) % 3 ∧ ∀ g, (tiClear e s shards).1.wd g = s.wd g) := by
  have hwd : ∀ (a : List View) (b : Option Nat) (c' : Nat) (F : Scr) (g : Nat),
      ({ cviews := a, canvas := b, cdis := c', wdis := F.wdis } : Scr).wd g = F.wd g := fun _ _ _ _ _ => rfl
  unfold tiClear
  by_cases hsup : (!(e.kittySup || (e.itermSup && e.konsole))) = true
  · simp only [hsup, ↓reduceIte]
    first | exact Or.inl ⟨rfl, fun g => Or.inl rfl⟩ | simp [Scr.wd]
  · simp only [hsup]
    cases hws : staleLoop e (stale s.cviews (walk e shards)) [] with
    | none =>
      simp only []
      unfold clearAll
      by_cases hk : e.kittySup = true
      · simp only [hk, Bool.not_true, Bool.false_eq_true, ↓reduceIte, dmod_eq]
        first | exact Or.inr ⟨rfl, fun g => rfl⟩ | simp [Scr.wd]
      · simp only [hk]
        first | exact Or.inl ⟨rfl, fun g => Or.inl rfl⟩ | simp [Scr.wd]
    | some ws =>
      cases ws with
      | nil => first | exact Or.inl ⟨rfl, fun g => Or.inl rfl⟩ | simp [Scr.wd]
      | cons w0 ws0 =>
        simp only []
        unfold clearWidgets
        by_cases hk : e.kittySup = true
        · simp only [hk, Bool.not_true, Bool.false_eq_true, ↓reduceIte]
          obtain ⟨_, _, _, hnd⟩ := collectKitty_spec (w0 :: ws0) []
          refine Or.inl ⟨?_, ?_⟩
          · exact (foldl_bump (collectKitty (w0 :: ws0) []) s (hnd (by simp)) 0).1
          · intro g
            obtain ⟨_, h2⟩ := foldl_bump (collectKitty (w0 :: ws0) []) s (hnd (by simp)) g
            rw [hwd, h2, dmod_eq]
            by_cases hm : g ∈ (collectKitty (w0 :: ws0) []).map (·.1)
            · simp [hm]
            · simp [hm]
        · simp only [hk]
          first | exact Or.inl ⟨rfl, fun g => Or.inl rfl⟩ | simp [Scr.wd]

/-- after `clear_images()` (delete-all + class-level bump) and whatever the next `_ti_clear_images` does,
the disguise of every widget differs from what it was at the previous redraw -/
theorem clear_then_tiClear_disguise (e : Env) (s : Scr) (shards : List Shard) (hk : e.kittySup = true) (g : Nat) :
    (tiClear e (clearAll e s).1 shards).1.disguise g ≠ s.disguise g := by
  have h1 : (clearAll e s).1.cdis = (s.cdis + 1) % 3 ∧ (clearAll e s).1.wd g = s.wd g := by
    simp [clearAll, hk, dmod_eq, Scr.wd]
  rcases tiClear_state e (clearAll e s).1 shards with ⟨hc, hw⟩ | ⟨hc, hw⟩
  · simp only [Scr.disguise, hc, h1.1]
    rcases hw g with h | h <;> rw [h, h1.2] <;> omega
  · simp only [Scr.disguise, hc, h1.1, hw g, h1.2]
    omega

end TIV.C18
