import TIV.Common.TermDrive
import TIV.C18.Model
/-! driver ops of C18: `z` (allocator histories), `hist` (screen histories), `term` (placement terminal) -/
namespace TIV.C18
open TIV TIV.Wire

def sortBy {α} (lt : α → α → Bool) (xs : List α) : List α :=
  xs.foldl (fun acc x => (acc.takeWhile fun y => !lt x y) ++ x :: acc.dropWhile fun y => !lt x y) []

def lexLt : List Int → List Int → Bool
  | [], [] => false
  | [], _ => true
  | _, [] => false
  | a :: as, b :: bs => a < b || (a == b && lexLt as bs)

def dedup {α} [DecidableEq α] (xs : List α) : List α := xs.foldl (fun acc x => if x ∈ acc then acc else acc ++ [x]) []

def fmtInts (xs : List Int) : String := String.intercalate "," (xs.map toString)

def fmtSet (rows : List (List Int)) : String :=
  let rows := sortBy lexLt (dedup rows)
  String.intercalate " " (toString rows.length :: rows.map fmtInts)

/-! ### op `z` -/

inductive ZReq | new (hint : Option Int) | del (i : Nat)

def pZReq : P ZReq := do
  let w ← word
  if w == "N" then
    let h ← word
    if h == "-" then pure (.new none) else match h.toInt? with
      | some z => pure (.new (some z))
      | none => failure
  else if w == "D" then do let i ← nat; pure (.del i)
  else failure

/-- one request on the world; `none` = the hint is not an element of the free set -/
def zStep (w : ZWorld) : ZReq → Option (ZWorld × String)
  | .new hint =>
    let pick? : Option Nat :=
      match hint, w.st.free with
      | none, [] => some 0
      | some z, f :: fs => let i := (f :: fs).idxOf z; if i < (f :: fs).length then some i else none
      | _, _ => none
    match pick? with
    | none => none
    | some pick =>
      match w.st.alloc pick with
      | .ok (z, _) => some (w.step (.new pick), s!"z={z}")
      | .error _ => some (w.step (.new pick), "UrwidImageError")
  | .del i => some (w.step (.del i), "ok")

def zRun : ZWorld → List ZReq → List String → Option (ZWorld × List String)
  | w, [], acc => some (w, acc.reverse)
  | w, r :: rs, acc =>
    match zStep w r with
    | none => none
    | some (w, s) => zRun w rs (s :: acc)

/-! ### op `hist` -/

def pKind : P CKind := do
  let n ← nat
  match n with
  | 0 => pure .other | 1 => pure .kitty | 2 => pure .iterm | 3 => pure .text | 4 => pure .noinfo | _ => failure

def pCanv : P CanvInfo := do
  let kind ← pKind; let widget ← nat; let z ← int; let cw ← nat
  let padTop ← nat; let imgH ← nat; let padLeft ← nat; let imgW ← nat
  pure { kind, widget, z, cw, padTop, imgH, padLeft, imgW }

def pCView : P CView := do
  let trimL ← nat; let trimT ← nat; let cols ← nat; let rows ← nat; let canv ← nat
  pure { trimL, trimT, cols, rows, canv }

def pShard : P Shard := do
  let n ← nat; let cvs ← listOf pCView
  pure (n, cvs)

inductive Step
  | draw (canvas : Nat) (raised wrote : Bool) (shards : List Shard) (R : List Nat)
  | clear | start | stop
  | ci (ws : List (Nat × Option Int))

def pWidget : P (Nat × Option Int) := do
  let g ← nat; let w ← word
  if w == "-" then pure (g, none) else match w.toInt? with
    | some z => pure (g, some z)
    | none => failure

def pStep : P Step := do
  let w ← word
  match w with
  | "draw" => do
    let c ← nat; let raised ← bool; let wrote ← bool
    let k ← word
    let sc : ScreenCanvas ← (if k == "C" then do let sh ← listOf pShard; pure (ScreenCanvas.composite sh)
      else if k == "L" then do let cols ← nat; let rows ← nat; let cv ← nat; pure (ScreenCanvas.lone cols rows cv)
      else failure)
    let R ← listOf nat
    pure (.draw c raised wrote sc.shards R)
  | "clear" => pure .clear
  | "start" => pure .start
  | "stop" => pure .stop
  | "ci" => do let ws ← listOf pWidget; pure (.ci ws)
  | _ => failure

def fmtOut : List Out → String
  | outs =>
    -- consecutive z deletes come out of a set iteration: canonical order
    let rec go : List Out → List Int → List String → List String
      | [], zs, acc => acc ++ (sortBy (· < ·) zs).map fun z => s!"kz{z}"
      | .tok (.kittyDelZ z) :: r, zs, acc => go r (z :: zs) acc
      | o :: r, zs, acc =>
        let acc := acc ++ (sortBy (· < ·) zs).map fun z => s!"kz{z}"
        let w := match o with
          | .tok t => TermDrive.fmtTok t
          | .base b => b
        go r [] (acc ++ [w])
    String.intercalate " " (go outs [] [])

def fmtViews (vs : List View) : String :=
  fmtSet (vs.map fun v => [(v.canv : Int), v.row, v.col, v.trimL, v.trimT, v.cols, v.rows])

def fmtPl (t : Term) : String :=
  fmtSet ((t.imgs.filter (·.kittyProto)).map fun p => [(p.row : Int), p.col, p.cols, p.rows, p.z])

def fmtState (nw : Nat) (s : Scr) (t : Term) : String :=
  s!"c={fmtViews s.cviews} d={s.cdis} w={fmtInts ((List.range nw).map fun g => (s.wd g : Int))} p={fmtPl t}"

structure HState where
  s : Scr := {}
  t : Term

def hStep (e : Env) (nw H : Nat) (h : HState) : Step → HState × String
  | .draw c raised wrote shards R =>
    let base : BaseRes := ⟨[.base (if wrote then "base+" else "base-")], raised⟩
    let r := drawScreen e h.s c shards base
    -- placement level: the same deletes, then the rows the base class re-emitted
    let t := h.t.run (toks r.out)
    let segs := (segsOf e r.s.cviews).filter (R.contains ·.row)
    let t := emitAll e.konsole t segs
    -- the row-diff hypothesis, on the rows that were not re-emitted (only when something was drawn)
    let hyp := !wrote || (List.range H).all fun y => R.contains y || rowKey e h.s h.s.cviews y == rowKey e r.s r.s.cviews y
    ({ s := r.s, t }, s!"{fmtOut r.out}{if r.raised then " raised" else ""} k={fmtBool hyp} {fmtState nw r.s t}")
  | .clear => let (s, o) := clear e h.s; let t := h.t.run (toks o); ({ s, t }, s!"{fmtOut o} {fmtState nw s t}")
  | .start => let (s, o) := start e h.s; let t := h.t.run (toks o); ({ s, t }, s!"{fmtOut o} {fmtState nw s t}")
  | .stop => let (s, o) := stop e h.s; let t := h.t.run (toks o); ({ s, t }, s!"{fmtOut o} {fmtState nw s t}")
  | .ci ws =>
    let (s, o) := if ws.isEmpty then clearAll e h.s else clearWidgets e h.s ws
    let t := h.t.run (toks o)
    ({ s, t }, s!"{fmtOut o} {fmtState nw s t}")

/-! ### op `term`: the shared terminal fed with screen output (CUP, BS, runs of glyphs added) -/

def stepX (t : Term) (w : String) : Option Term :=
  let rest (k : Nat) : String := (w.drop k).toString
  if w == "skip" || w == "el" then some t
  else if w == "bs" then some (t.step (.cub 1))
  else if w == "ka" && t.kind == .konsole then some { t with imgs := [] }   -- see docs/C18.md (requests)
  else if w.startsWith "g" && (rest 1).isNat then
    some ((List.range (rest 1).toNat!).foldl (fun t _ => t.step (.glyph .blank)) t)
  else if w.startsWith "P" then
    match TermDrive.nats (rest 1) with
    | some [r, c] => some { t with row := t.top + min r (t.H - 1), col := min c (t.W - 1), pw := false }
    | _ => none
  else (TermDrive.parseTok w).map t.step

def runX : Term → List String → Option Term
  | t, [] => some t
  | t, w :: ws => match stepX t w with
    | some t => runX t ws
    | none => none

def handler : Handler := fun op args =>
  match op with
  | "z" => run (do
      let next ← int; let free ← listOf int; let reqs ← listOf pZReq
      match zRun { st := { next, free }, live := [] } reqs [] with
      | none => pure "err BadPick"
      | some (w, outs) =>
        pure ("ok " ++ String.intercalate "|" outs ++ s!" next={w.st.next} free={fmtInts (sortBy (· < ·) w.st.free)} live={fmtInts w.live.reverse}")) args
  | "hist" => run (do
      let W ← nat; let H ← nat; let kittySup ← bool; let itermSup ← bool; let konsole ← bool; let nw ← nat
      let canvs ← listOf pCanv
      let steps ← listOf pStep
      let e : Env := { kittySup, itermSup, konsole, info := fun c => canvs.getD c {} }
      let init : HState := { t := { W, H, kind := if konsole then .konsole else .kitty } }
      let (_, outs) := steps.foldl (fun (acc : HState × List String) st =>
        let (h, s) := hStep e nw H acc.1 st; (h, s :: acc.2)) (init, [])
      pure ("ok " ++ String.intercalate " | " outs.reverse)) args
  | "term" => run (do
      let W ← nat; let H ← nat; let k ← word; let ws ← listOf word
      match TermDrive.parseKind k with
      | none => failure
      | some kind =>
        match runX { W, H, kind } ws with
        | none => failure
        | some t =>
          pure s!"ok {t.row} {t.col} {fmtBool t.pw} {t.top} {fmtSet (t.imgs.map fun p => [(if p.kittyProto then 1 else 0 : Int), p.row, p.col, p.cols, p.rows, p.z])}") args
  | _ => TermDrive.handler op args   -- lex.run, term.runbytes, term.run, tok.str

end TIV.C18
