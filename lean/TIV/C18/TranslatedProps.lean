import TIV.C18.Model
import TIV.C18.Proofs
import TIV.C18.Translated
/-!
# C18 — the z-index allocator's arithmetic IS the translation of the current source

`TIV.C18.Translated.get_z_index_fresh` is regenerated on every run from the statements of
`UrwidImage._ti_get_z_index` that run when the free list is empty: read `_ti_next_z_index`,
refuse at `2**31`, store the sign-flipped successor, return the value read.
-/
namespace TIV.C18

/-- TRANSLATION TIE: with an empty free list, the model allocator returns what the translated
    source returns and stores what it stores; it fails exactly when the source raises -/
theorem alloc_fresh_eq_translated (s : ZState) (pick : Nat) (h : s.free = []) :
    s.alloc pick =
      match Translated.get_z_index_fresh s.next with
      | .ok (z, next) => .ok (z, { s with next := next })
      | .error _ => .error .tooMany := by
  unfold ZState.alloc Translated.get_z_index_fresh
  simp only [h, Generated.zLimit]
  split <;> rfl

/-- the exception of that path is `UrwidImageError` -/
theorem translated_fresh_error (z : Int) (e : String) (h : Translated.get_z_index_fresh z = .error e) :
    e = "UrwidImageError" := by
  unfold Translated.get_z_index_fresh at h
  simp only [] at h
  split at h
  · exact (Except.error.inj h).symm
  · cases h

/-- TRANSLATION TIE for the closed form used by the proofs: the k-th fresh z-index is `zOf k`,
    i.e. the source walks 1, -1, 2, -2, … -/
theorem zOf_step_eq_translated (k : Nat) (hk : k < 4294967294) :
    Translated.get_z_index_fresh (zOf k) = .ok (zOf k, zOf (k + 1)) := by
  have hne := zOf_lt_limit hk
  unfold Translated.get_z_index_fresh
  simp only [hne, if_false, zOf_succ]

example : Translated.get_z_index_fresh 1 = .ok (1, -1) ∧ Translated.get_z_index_fresh (-1) = .ok (-1, 2) := by decide
example : Translated.get_z_index_fresh 2147483648 = .error "UrwidImageError" := by decide

end TIV.C18
