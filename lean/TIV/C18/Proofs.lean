import TIV.C18.Model
/-! helper lemmas for C18 (core Lean only) -/
namespace TIV.C18
open TIV

/-! ## allocator -/

/-- the `k`-th value ever issued: 1, -1, 2, -2, … -/
def zOf (k : Nat) : Int := if k % 2 = 0 then (k / 2 + 1 : Nat) else -((k / 2 + 1 : Nat) : Int)

theorem zOf_inj {a b : Nat} (h : zOf a = zOf b) : a = b := by
  unfold zOf at h
  split at h <;> split at h <;> omega

theorem zOf_range {k : Nat} (h : k < 4294967294) : -2147483648 < zOf k ∧ zOf k < 2147483648 := by
  unfold zOf; split <;> omega

theorem zOf_succ (k : Nat) : zOf (k + 1) = if zOf k > 0 then -zOf k else -zOf k + 1 := by
  unfold zOf
  split <;> split <;> split <;> omega

theorem zOf_limit : zOf 4294967294 = 2147483648 := by decide

theorem zOf_lt_limit {k : Nat} (h : k < 4294967294) : zOf k ≠ 2147483648 := by
  have := zOf_range h; omega

/-- the allocator invariant: exactly the first `n` values have been issued; each is held by a live
widget or is in the free set -/
structure ZInv (w : ZWorld) (n : Nat) : Prop where
  next : w.st.next = zOf n
  le : n ≤ 4294967294
  perm : (w.live ++ w.st.free).Perm ((List.range n).map zOf)

theorem range_map_nodup (n : Nat) : ((List.range n).map zOf).Nodup := by
  have h := @List.nodup_range n
  unfold List.Nodup at *
  exact List.Pairwise.map zOf (fun a b hab heq => hab (zOf_inj heq)) h

theorem ZInv.nodup {w n} (h : ZInv w n) : (w.live ++ w.st.free).Nodup :=
  (h.perm.nodup_iff).2 (range_map_nodup n)

theorem ZInv.mem {w n} (h : ZInv w n) {z : Int} (hz : z ∈ w.live ++ w.st.free) : ∃ k, k < n ∧ z = zOf k := by
  have := (h.perm.mem_iff).1 hz
  simp only [List.mem_map, List.mem_range] at this
  obtain ⟨k, hk, rfl⟩ := this
  exact ⟨k, hk, rfl⟩

theorem ZInv.length {w n} (h : ZInv w n) : w.live.length + w.st.free.length = n := by
  have := h.perm.length_eq
  simpa using this

theorem zinv_init : ZInv {} 0 := ⟨by simp [Generated.zStart, zOf], by omega, by simp⟩

theorem zinv_step {w n} (h : ZInv w n) (op : ZOp) : ∃ n', ZInv (w.step op) n' := by
  cases op with
  | new pick =>
    unfold ZWorld.step ZState.alloc
    cases hf : w.st.free with
    | cons f fs =>
      simp only
      have hmem : (f :: fs).getD (pick % (f :: fs).length) f ∈ w.st.free := by
        rw [hf, List.getD_eq_getElem?_getD]
        have : pick % (f :: fs).length < (f :: fs).length := Nat.mod_lt _ (by simp)
        rw [List.getElem?_eq_getElem this]; simp
      generalize (f :: fs).getD (pick % (f :: fs).length) f = z at hmem
      refine ⟨n, ⟨h.next, h.le, ?_⟩⟩
      simp only
      have p1 : (w.st.free).Perm (z :: w.st.free.erase z) := List.perm_cons_erase hmem
      rw [← hf]
      refine List.Perm.trans ?_ h.perm
      -- z :: live ++ free.erase z ~ live ++ free
      have : (w.live ++ w.st.free).Perm (w.live ++ (z :: w.st.free.erase z)) := List.Perm.append_left _ p1
      refine List.Perm.trans ?_ this.symm
      simp only [List.cons_append]
      exact (List.perm_middle).symm
    | nil =>
      simp only
      by_cases hl : w.st.next = Generated.zLimit
      · simp only [hl, ↓reduceIte]
        exact ⟨n, h⟩
      · simp only [hl, ↓reduceIte]
        have hn : n < 4294967294 := by
          rcases Nat.lt_or_ge n 4294967294 with h1 | h1
          · exact h1
          · have : n = 4294967294 := Nat.le_antisymm h.le h1
            rw [h.next, this, zOf_limit] at hl
            exact absurd rfl hl
        refine ⟨n + 1, ⟨?_, by omega, ?_⟩⟩
        · simp only; rw [h.next, zOf_succ]
        · simp only [hf, List.append_nil, List.cons_append]
          rw [List.range_succ, List.map_append, List.map_singleton, h.next]
          have hp := h.perm
          rw [hf, List.append_nil] at hp
          exact List.Perm.trans (List.Perm.cons _ hp) (List.perm_append_singleton _ _).symm
  | del i =>
    unfold ZWorld.step
    cases hi : w.live[i]? with
    | none => simp only [hi]; exact ⟨n, h⟩
    | some z =>
      simp only [hi]
      have hz : z ∈ w.live := List.mem_of_getElem? hi
      have hnf : z ∉ w.st.free := by
        intro hf
        have := h.nodup
        rw [List.nodup_append] at this
        exact this.2.2 z hz z hf rfl
      refine ⟨n, ⟨by simpa [ZState.release] using h.next, h.le, ?_⟩⟩
      simp only [ZState.release, hnf, ↓reduceIte]
      refine List.Perm.trans ?_ h.perm
      have p1 : w.live.Perm (z :: w.live.erase z) := List.perm_cons_erase hz
      refine List.Perm.trans ?_ (List.Perm.append_right _ p1).symm
      simp only [List.cons_append]
      exact List.perm_middle

theorem zinv_run (ops : List ZOp) : ∀ {w n}, ZInv w n → ∃ n', ZInv (w.run ops) n' := by
  induction ops with
  | nil => intro w n h; exact ⟨n, h⟩
  | cons op ops ih =>
    intro w n h
    obtain ⟨n1, h1⟩ := zinv_step h op
    exact ih h1

/-! ## the stale-view loop and `clear_images(*widgets)` -/

theorem staleLoop_some {e : Env} : ∀ {vs acc ws}, staleLoop e vs acc = some ws →
    (∀ x ∈ acc, x ∈ ws) ∧
    (∀ v ∈ vs, e.isKitty v.canv = true ∧ ((e.info v.canv).widget, some (e.info v.canv).z) ∈ ws) ∧
    (∀ x ∈ ws, x ∈ acc ∨ ∃ v ∈ vs, e.isKitty v.canv = true ∧ x = ((e.info v.canv).widget, some (e.info v.canv).z)) := by
  intro vs
  induction vs with
  | nil =>
    intro acc ws h
    simp only [staleLoop, Option.some.injEq] at h
    subst h
    exact ⟨fun x hx => hx, by simp, fun x hx => Or.inl hx⟩
  | cons v vs ih =>
    intro acc ws h
    unfold staleLoop at h
    split at h
    · rename_i hk
      obtain ⟨h1, h2, h3⟩ := ih h
      refine ⟨fun x hx => h1 x (List.mem_append_left _ hx), ?_, ?_⟩
      · intro v' hv'
        rcases List.mem_cons.1 hv' with rfl | hv'
        · exact ⟨hk, h1 _ (by simp)⟩
        · exact h2 v' hv'
      · intro x hx
        rcases h3 x hx with hx | ⟨v', hv', hk', rfl⟩
        · rcases List.mem_append.1 hx with hx | hx
          · exact Or.inl hx
          · simp only [List.mem_singleton] at hx
            exact Or.inr ⟨v, by simp, hk, hx⟩
        · exact Or.inr ⟨v', List.mem_cons_of_mem _ hv', hk', rfl⟩
    · cases h

theorem staleLoop_none {e : Env} : ∀ {vs acc}, staleLoop e vs acc = none → ∃ v ∈ vs, e.isKitty v.canv = false := by
  intro vs
  induction vs with
  | nil => intro acc h; simp [staleLoop] at h
  | cons v vs ih =>
    intro acc h
    unfold staleLoop at h
    split at h
    · obtain ⟨v', hv', hk⟩ := ih h
      exact ⟨v', List.mem_cons_of_mem _ hv', hk⟩
    · rename_i hk
      exact ⟨v, by simp, by simpa using hk⟩

theorem collectKitty_spec : ∀ (ws : List (Nat × Option Int)) (acc : List (Nat × Int)),
    (∀ x ∈ acc, x ∈ collectKitty ws acc) ∧
    (∀ g z, (g, some z) ∈ ws → ∃ z', (g, z') ∈ collectKitty ws acc) ∧
    (∀ g z', (g, z') ∈ collectKitty ws acc → (g, z') ∈ acc ∨ (g, some z') ∈ ws) ∧
    ((acc.map (·.1)).Nodup → ((collectKitty ws acc).map (·.1)).Nodup) := by
  intro ws
  induction ws with
  | nil => intro acc; simp [collectKitty]
  | cons w ws ih =>
    intro acc
    obtain ⟨g0, oz⟩ := w
    cases oz with
    | none =>
      simp only [collectKitty]
      obtain ⟨h1, h2, h3, h4⟩ := ih acc
      refine ⟨h1, ?_, ?_, h4⟩
      · intro g z hm
        rcases List.mem_cons.1 hm with hm | hm
        · cases hm
        · exact h2 g z hm
      · intro g z' hm
        rcases h3 g z' hm with hm | hm
        · exact Or.inl hm
        · exact Or.inr (List.mem_cons_of_mem _ hm)
    | some z0 =>
      simp only [collectKitty]
      by_cases hany : acc.any (·.1 == g0) = true
      · simp only [hany, ↓reduceIte]
        obtain ⟨h1, h2, h3, h4⟩ := ih acc
        refine ⟨h1, ?_, ?_, h4⟩
        · intro g z hm
          rcases List.mem_cons.1 hm with hm | hm
          · cases hm
            simp only [List.any_eq_true, beq_iff_eq] at hany
            obtain ⟨x, hx, hxg⟩ := hany
            exact ⟨x.2, h1 _ (by rw [← hxg]; exact hx)⟩
          · exact h2 g z hm
        · intro g z' hm
          rcases h3 g z' hm with hm | hm
          · exact Or.inl hm
          · exact Or.inr (List.mem_cons_of_mem _ hm)
      · simp only [hany]
        obtain ⟨h1, h2, h3, h4⟩ := ih (acc ++ [(g0, z0)])
        refine ⟨fun x hx => h1 x (List.mem_append_left _ hx), ?_, ?_, ?_⟩
        · intro g z hm
          rcases List.mem_cons.1 hm with hm | hm
          · cases hm
            exact ⟨_, h1 (g0, z0) (by simp)⟩
          · exact h2 g z hm
        · intro g z' hm
          rcases h3 g z' hm with hm | hm
          · rcases List.mem_append.1 hm with hm | hm
            · exact Or.inl hm
            · simp only [List.mem_singleton, Prod.mk.injEq] at hm
              obtain ⟨rfl, rfl⟩ := hm
              exact Or.inr (by simp)
          · exact Or.inr (List.mem_cons_of_mem _ hm)
        · intro hn
          apply h4
          rw [List.map_append, List.nodup_append]
          refine ⟨hn, by simp, ?_⟩
          intro a ha b hb
          simp only [List.map_cons, List.map_nil, List.mem_singleton] at hb
          subst hb
          intro hab
          apply hany
          simp only [List.any_eq_true, beq_iff_eq]
          obtain ⟨x, hx, rfl⟩ := List.mem_map.1 ha
          exact ⟨x, hx, hab⟩

/-! ## disguises -/

theorem dmod_eq : dmod = 3 := by decide

theorem find_filter_ne (l : List (Nat × Nat)) {g g' : Nat} (h : g' ≠ g) :
    (l.filter (·.1 != g)).find? (·.1 == g') = l.find? (·.1 == g') := by
  induction l with
  | nil => rfl
  | cons x xs ih =>
    by_cases hx : x.1 = g
    · have h1 : (x.1 != g) = false := by simp [hx]
      have h2 : (x.1 == g') = false := by simp [hx]; exact fun h' => h h'.symm
      simp [List.filter_cons, h1, List.find?_cons, h2, ih]
    · have h1 : (x.1 != g) = true := by simp [hx]
      simp only [List.filter_cons, h1, ↓reduceIte, List.find?_cons]
      rw [ih]

theorem wd_bump (s : Scr) (g g' : Nat) :
    (s.bump g).wd g' = if g' = g then (s.wd g + 1) % dmod else s.wd g' := by
  unfold Scr.bump
  by_cases h : g' = g
  · subst h; simp [Scr.wd, List.find?_cons]
  · have : (g == g') = false := by simp; exact fun h' => h h'.symm
    simp only [Scr.wd, List.find?_cons, this, h, ↓reduceIte]
    rw [find_filter_ne _ h]

theorem cdis_bump (s : Scr) (g : Nat) : (s.bump g).cdis = s.cdis := rfl

theorem foldl_bump (ks : List (Nat × Int)) : ∀ (s : Scr), ((ks.map (·.1)).Nodup) → ∀ g',
    (ks.foldl (fun s k => s.bump k.1) s).cdis = s.cdis ∧
    (ks.foldl (fun s k => s.bump k.1) s).wd g' = if g' ∈ ks.map (·.1) then (s.wd g' + 1) % dmod else s.wd g' := by
  induction ks with
  | nil => intro s _ g'; simp
  | cons k ks ih =>
    intro s hn g'
    simp only [List.map_cons, List.nodup_cons] at hn
    obtain ⟨h1, h2⟩ := ih (s.bump k.1) hn.2 g'
    simp only [List.foldl_cons, List.map_cons, List.mem_cons]
    refine ⟨by rw [h1, cdis_bump], ?_⟩
    rw [h2, wd_bump]
    by_cases hg : g' = k.1
    · subst hg
      simp [hn.1]
    · simp only [hg, false_or, ↓reduceIte]

theorem succ_mod3_ne (x : Nat) : (x + 1) % 3 ≠ x := by omega

def hitBy (out : List Out) (z : Int) : Prop := Out.tok .kittyDelAll ∈ out ∨ Out.tok (.kittyDelZ z) ∈ out

/-- canvases of one kitty widget carry one z-index -/
def WidgetZ (e : Env) : Prop :=
  ∀ c c', e.isKitty c = true → e.isKitty c' = true → (e.info c).widget = (e.info c').widget → (e.info c).z = (e.info c').z

/-- distinct kitty widgets carry distinct z-indexes (what `z_distinct_range` provides) -/
def ZInj (e : Env) : Prop :=
  ∀ c c', e.isKitty c = true → e.isKitty c' = true → (e.info c).z = (e.info c').z → (e.info c).widget = (e.info c').widget

theorem tiClear_hits (e : Env) (s : Scr) (shards : List Shard) (hk : e.kittySup = true) (hz : WidgetZ e) :
    ∀ v ∈ s.cviews, v ∉ walk e shards →
      (Out.tok .kittyDelAll ∈ (tiClear e s shards).2 ∨
        (e.isKitty v.canv = true ∧ Out.tok (.kittyDelZ (e.info v.canv).z) ∈ (tiClear e s shards).2)) := by
  intro v hv hnew
  have hst : v ∈ stale s.cviews (walk e shards) := by simp [stale, List.mem_filter, hv, hnew]
  unfold tiClear
  simp only [hk, Bool.true_or, Bool.not_true, Bool.false_eq_true, ↓reduceIte]
  cases hws : staleLoop e (stale s.cviews (walk e shards)) [] with
  | none => simp [clearAll, hk]
  | some ws =>
    obtain ⟨_, hall, hback⟩ := staleLoop_some hws
    obtain ⟨hkv, hmem⟩ := hall v hst
    cases ws with
    | nil => simp at hmem
    | cons w0 ws0 =>
      simp only [clearWidgets, hk, Bool.not_true, Bool.false_eq_true, ↓reduceIte]
      refine Or.inr ⟨hkv, ?_⟩
      obtain ⟨_, hex, hfrom, _⟩ := collectKitty_spec (w0 :: ws0) []
      obtain ⟨z', hz'⟩ := hex _ _ hmem
      have : (e.info v.canv).z = z' := by
        rcases hfrom _ _ hz' with h | h
        · cases h
        · rcases hback _ h with h | ⟨v', _, hk', heq'⟩
          · cases h
          · simp only [Prod.mk.injEq, Option.some.injEq] at heq'
            rw [heq'.2]
            exact hz _ _ hkv hk' heq'.1
      rw [this]
      exact List.mem_map.2 ⟨_, hz', rfl⟩

theorem tiClear_disguise (e : Env) (s : Scr) (shards : List Shard) (hinj : ZInj e) (c : Nat)
    (hkc : e.isKitty c = true) (hhit : hitBy (tiClear e s shards).2 (e.info c).z) :
    (tiClear e s shards).1.disguise (e.info c).widget ≠ s.disguise (e.info c).widget := by
  unfold tiClear at hhit ⊢
  by_cases hsup : (!(e.kittySup || (e.itermSup && e.konsole))) = true
  · simp only [hsup, ↓reduceIte, hitBy] at hhit
    simp at hhit
  · simp only [hsup] at hhit ⊢
    cases hws : staleLoop e (stale s.cviews (walk e shards)) [] with
    | none =>
      simp only [hws] at hhit ⊢
      unfold clearAll at hhit ⊢
      by_cases hk : e.kittySup = true
      · simp only [hk, Bool.not_true, Bool.false_eq_true, ↓reduceIte, Scr.disguise, Scr.wd, dmod_eq]
        have := succ_mod3_ne s.cdis
        omega
      · simp only [hk, hitBy] at hhit
        simp at hhit
    | some ws =>
      cases ws with
      | nil =>
        simp only [hws, hitBy] at hhit
        simp at hhit
      | cons w0 ws0 =>
        simp only [hws] at hhit ⊢
        unfold clearWidgets at hhit ⊢
        by_cases hk : e.kittySup = true
        · simp only [hk, Bool.not_true, Bool.false_eq_true, ↓reduceIte, hitBy, List.mem_map] at hhit ⊢
          obtain ⟨_, _, hback⟩ := staleLoop_some hws
          obtain ⟨_, _, hfrom, hnd⟩ := collectKitty_spec (w0 :: ws0) []
          have hmem : (e.info c).widget ∈ (collectKitty (w0 :: ws0) []).map (·.1) := by
            rcases hhit with ⟨k, _, hk'⟩ | ⟨k, hkm, hk'⟩
            · cases hk'
            · simp only [Out.tok.injEq, Tok.kittyDelZ.injEq] at hk'
              obtain ⟨g', z'⟩ := k
              simp only at hk'
              subst hk'
              rcases hfrom _ _ hkm with h | h
              · cases h
              · rcases hback _ h with h | ⟨v', _, hk'', heq'⟩
                · cases h
                · simp only [Prod.mk.injEq, Option.some.injEq] at heq'
                  have := hinj c v'.canv hkc hk'' heq'.2
                  rw [this, ← heq'.1]
                  exact List.mem_map.2 ⟨_, hkm, rfl⟩
          obtain ⟨h1, h2⟩ := foldl_bump (collectKitty (w0 :: ws0) []) s (hnd (by simp)) (e.info c).widget
          simp only [hmem, ↓reduceIte] at h2
          simp only [Scr.disguise, h1]
          have h3 : ∀ (a : List View) (b : Option Nat) (c' : Nat) (F : Scr) (g : Nat),
              ({ cviews := a, canvas := b, cdis := c', wdis := F.wdis } : Scr).wd g = F.wd g :=
            fun _ _ _ _ _ => rfl
          rw [h3, h2, dmod_eq]
          have := succ_mod3_ne (s.wd (e.info c).widget)
          omega
        · simp only [hk, hitBy] at hhit
          simp at hhit

/-! ## placement level -/

def delsOnly (out : List Out) : Prop := ∀ o ∈ out, o = Out.tok .kittyDelAll ∨ ∃ z, o = Out.tok (.kittyDelZ z)

theorem tiClear_delsOnly (e : Env) (s : Scr) (shards : List Shard) : delsOnly (tiClear e s shards).2 := by
  intro o ho
  unfold tiClear at ho
  split at ho
  · simp at ho
  · simp only at ho
    split at ho
    · unfold clearAll at ho; split at ho <;> simp_all
    · simp at ho
    · unfold clearWidgets at ho
      split at ho
      · simp at ho
      · simp only [List.mem_map] at ho
        obtain ⟨k, _, rfl⟩ := ho
        exact Or.inr ⟨k.2, rfl⟩

/-- what a sequence of delete commands does to the placements -/
theorem run_dels : ∀ (out : List Out), delsOnly out → ∀ (t : Term) (p : Placement),
    p ∈ (t.run (toks out)).imgs ↔ (p ∈ t.imgs ∧ ¬(p.kittyProto = true ∧ hitBy out p.z)) := by
  intro out
  induction out with
  | nil => intro _ t p; simp [toks, Term.run, hitBy]
  | cons o rest ih =>
    intro hd t p
    have hrest : delsOnly rest := fun x hx => hd x (List.mem_cons_of_mem _ hx)
    rcases hd o (by simp) with rfl | ⟨z, rfl⟩
    · simp only [toks, Term.run_cons]
      rw [ih hrest]
      simp only [Term.step, List.mem_filter, hitBy, List.mem_cons, true_or, and_true]
      constructor
      · rintro ⟨⟨h1, h2⟩, _⟩
        exact ⟨h1, by simpa using h2⟩
      · rintro ⟨h1, h2⟩
        have : p.kittyProto = false := by simpa using h2
        exact ⟨⟨h1, by simp [this]⟩, by simp [this]⟩
    · simp only [toks, Term.run_cons]
      rw [ih hrest]
      simp only [Term.step, List.mem_filter, hitBy, List.mem_cons, Out.tok.injEq, Tok.kittyDelZ.injEq,
        reduceCtorEq, false_or]
      constructor
      · rintro ⟨⟨h1, h2⟩, h3⟩
        refine ⟨h1, ?_⟩
        rintro ⟨hk, hh⟩
        rcases hh with hh | hh
        · exact h3 ⟨hk, Or.inl hh⟩
        · rcases hh with hh | hh
          · simp [hk, hh] at h2
          · exact h3 ⟨hk, Or.inr hh⟩
      · rintro ⟨h1, h2⟩
        refine ⟨⟨h1, ?_⟩, ?_⟩
        · by_cases hk : p.kittyProto = true
          · have : ¬ p.z = z := fun hz => h2 ⟨hk, Or.inr (Or.inl hz)⟩
            simp [hk, this]
          · simp [hk]
        · rintro ⟨hk, hh⟩
          rcases hh with hh | hh
          · exact h2 ⟨hk, Or.inl hh⟩
          · exact h2 ⟨hk, Or.inr (Or.inr hh)⟩

theorem emitSeg_imgs (b : Bool) (t : Term) (s : Seg) :
    (emitSeg b t s).imgs = s.pl ::
      (if b then t.imgs else t.imgs.filter fun p => !(p.kittyProto && Term.inRect p s.row s.col)) := by
  cases b <;> simp [emitSeg, Term.step, Term.touchRect, Seg.pl]

/-- emitting image lines only adds their placements (and may delete others): nothing else appears -/
theorem emitAll_sub (b : Bool) : ∀ (E : List Seg) (t : Term) (p : Placement),
    p ∈ (emitAll b t E).imgs → p ∈ t.imgs ∨ ∃ s ∈ E, p = s.pl := by
  intro E
  induction E with
  | nil => intro t p h; exact Or.inl h
  | cons s E ih =>
    intro t p h
    simp only [emitAll, List.foldl_cons] at h
    rcases ih (emitSeg b t s) p h with h | ⟨s', hs', rfl⟩
    · rw [emitSeg_imgs] at h
      rcases List.mem_cons.1 h with rfl | h
      · exact Or.inr ⟨s, by simp, rfl⟩
      · cases b
        · exact Or.inl (List.mem_filter.1 h).1
        · exact Or.inl h
    · exact Or.inr ⟨s', List.mem_cons_of_mem _ hs', rfl⟩

theorem segsOfView_z {e : Env} {v : View} {g : Seg} (h : g ∈ segsOfView e v) :
    g.z = (e.info v.canv).z ∧ e.isKitty v.canv = true := by
  unfold segsOfView at h
  simp only at h
  split at h
  · simp at h
  · rename_i hc
    simp only [List.mem_filterMap, List.mem_range] at h
    obtain ⟨k, _, hk⟩ := h
    split at hk
    · simp only [Option.some.injEq] at hk
      subst hk
      refine ⟨rfl, ?_⟩
      simp only [Bool.or_eq_true, not_or, bne_iff_ne, ne_eq, Decidable.not_not] at hc
      simp [Env.isKitty, hc.1.1]
    · cases hk

end TIV.C18
