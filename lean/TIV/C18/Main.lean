import TIV.Common.DriverMain
import TIV.C18.Drive
def main : IO Unit := TIV.driverMain TIV.C18.handler
