import TIV.Common.Term
import TIV.C18.Generated
/-!
# C18 — model of `term_image/widget/_urwid.py` (the repaired code, fixes/C18-ghost-images.diff)

1. the z-index allocator of `UrwidImage` (`_ti_get_z_index`, `__del__`);
2. the shard walk of `UrwidImageScreen._ti_clear_images` (positions of the image canvas views);
3. `clear_images`, `_ti_clear_images`, `draw_screen` (try/finally), `clear`, `_start`, `_stop`;
4. a placement-level redraw: what the deletes and the re-emitted rows do to the kitty placements
   of the shared terminal model `TIV.Term`.

External parts are parameters: urwid's canvas composition (the shards are an input), the base
class' `draw_screen` (its result — output or exception — is an input), `set.pop()` (the `pick`).
-/
namespace TIV.C18
open TIV

/-! ## 1. z-index allocator -/

inductive Err | tooMany   -- UrwidImageError("Too many image widgets with the kitty render style")
deriving DecidableEq, Repr

/-- class attributes `_ti_next_z_index`, `_ti_free_z_indexes` -/
structure ZState where
  next : Int := Generated.zStart
  free : List Int := []
deriving DecidableEq, Repr

/-- `_ti_get_z_index()`; `pick` resolves the arbitrary choice of `set.pop()` -/
def ZState.alloc (s : ZState) (pick : Nat) : Except Err (Int × ZState) :=
  match s.free with
  | f :: fs =>
    let z := (f :: fs).getD (pick % (f :: fs).length) f
    .ok (z, { s with free := (f :: fs).erase z })
  | [] =>
    let z := s.next
    if z = Generated.zLimit then .error .tooMany
    else .ok (z, { s with next := if z > 0 then -z else -z + 1 })

/-- `__del__` of a kitty widget holding `z`: `_ti_free_z_indexes.add(z)` -/
def ZState.release (s : ZState) (z : Int) : ZState :=
  { s with free := if z ∈ s.free then s.free else z :: s.free }

/-- the allocator together with the widgets that are alive (ghost: what each holds) -/
structure ZWorld where
  st : ZState := {}
  live : List Int := []
deriving Repr

inductive ZOp
  | new (pick : Nat)     -- create a kitty widget
  | del (i : Nat)        -- garbage-collect the `i`-th live widget (no-op when there is none)
deriving Repr

def ZWorld.step (w : ZWorld) : ZOp → ZWorld
  | .new pick =>
    match w.st.alloc pick with
    | .ok (z, st) => { st, live := z :: w.live }
    | .error _ => w                      -- the constructor raised: no widget, state untouched
  | .del i =>
    match w.live[i]? with
    | some z => { st := w.st.release z, live := w.live.erase z }
    | none => w

def ZWorld.run (w : ZWorld) (ops : List ZOp) : ZWorld := ops.foldl ZWorld.step w

/-! ## 2. canvases, views, the shard walk -/

inductive CKind | other | kitty | iterm | text | noinfo
deriving DecidableEq, Repr

/-- what the code reads off a canvas object (+ ghost geometry of its lines, used by §4 only) -/
structure CanvInfo where
  kind : CKind := .other
  widget : Nat := 0
  z : Int := 0
  cw : Nat := 0          -- canvas width
  padTop : Nat := 0      -- blank lines above the image lines
  imgH : Nat := 0        -- image lines
  padLeft : Nat := 0
  imgW : Nat := 0
deriving DecidableEq, Repr

structure Env where
  kittySup : Bool        -- `KittyImage.forced_support or KittyImage.is_supported()`
  itermSup : Bool        -- `ITerm2Image.is_supported()`
  konsole : Bool         -- `get_terminal_name_version()[0] == "konsole"`
  info : Nat → CanvInfo

/-- an urwid canvas view inside a shard: `(trim_left, trim_top, cols, rows, attr, canv)` -/
structure CView where
  trimL : Nat
  trimT : Nat
  cols : Nat
  rows : Nat
  canv : Nat
deriving DecidableEq, Repr

abbrev Shard := Nat × List CView

/-- an element of `_ti_image_cviews`: `(canv, row, col, trim_left, trim_top, cols, rows)`, 1-based -/
structure View where
  canv : Nat
  row : Nat
  col : Nat
  trimL : Nat
  trimT : Nat
  cols : Nat
  rows : Nat
deriving DecidableEq, Repr

def Env.isKitty (e : Env) (c : Nat) : Bool := (e.info c).kind == .kitty

/-- the condition under which a view is recorded -/
def Env.tracked (e : Env) (c : Nat) : Bool :=
  (e.info c).kind == .kitty || ((e.info c).kind == .iterm && e.konsole)

abbrev Tails := List (Nat × CView)     -- `shard_tails`: col ↦ (trim…, cols, rows left, canv)

def Tails.set (ts : Tails) (col : Nat) (v : CView) : Tails := (col, v) :: ts.filter (·.1 != col)
def Tails.del (ts : Tails) (col : Nat) : Tails := ts.filter (·.1 != col)
def Tails.get? (ts : Tails) (col : Nat) : Option CView := (ts.find? (·.1 == col)).map (·.2)

/-- `process_shard_tails()`: skip over the columns occupied by views hanging down from earlier
shards. `fuel`: every iteration consumes a distinct key when all `cols > 0`. -/
def processTails (nRows : Nat) : Nat → Tails → Nat → Tails × Nat
  | 0, ts, col => (ts, col)
  | fuel + 1, ts, col =>
    match ts.get? col with
    | none => (ts, col)
    | some v =>
      let ts := if v.rows > nRows then ts.set col { v with rows := v.rows - nRows } else ts.del col
      processTails nRows fuel ts (col + v.cols)

def addView (vs : List View) (v : View) : List View := if v ∈ vs then vs else vs ++ [v]

/-- the views of one shard -/
def walkShard (e : Env) (nRows row : Nat) : List CView → Tails → Nat → List View → Tails × List View
  | [], ts, col, acc =>
    let (ts, _) := processTails nRows (ts.length + 1) ts col
    (ts, acc)
  | cv :: cvs, ts, col, acc =>
    let (ts, col) := processTails nRows (ts.length + 1) ts col
    let acc := if e.tracked cv.canv then addView acc ⟨cv.canv, row, col, cv.trimL, cv.trimT, cv.cols, cv.rows⟩ else acc
    let ts := if cv.rows > nRows then ts.set col { cv with rows := cv.rows - nRows } else ts
    walkShard e nRows row cvs ts (col + cv.cols) acc

def walkShards (e : Env) : List Shard → Tails → Nat → List View → List View
  | [], _, _, acc => acc
  | (nRows, cvs) :: rest, ts, row, acc =>
    let (ts, acc) := walkShard e nRows row cvs ts 1 acc
    walkShards e rest ts (row + nRows) acc

def walk (e : Env) (shards : List Shard) : List View := walkShards e shards [] 1 []

/-! ## 3. the screen -/

/-- what is written, in order; the base class' own output is opaque -/
inductive Out
  | tok (t : Tok)
  | base (what : String)
deriving DecidableEq, Repr

structure Scr where
  cviews : List View := []          -- `_ti_image_cviews`
  canvas : Option Nat := none       -- identity of `_ti_screen_canv`
  cdis : Nat := 0                   -- `UrwidImageCanvas._ti_disguise_state` (class level)
  wdis : List (Nat × Nat) := []     -- `_ti_disguise_state` of widgets (absent = 0)
deriving Repr

def dmod : Nat := Generated.disguiseCycle.length   -- 3

def Scr.wd (s : Scr) (g : Nat) : Nat := ((s.wdis.find? (·.1 == g)).map (·.2)).getD 0

/-- `widget._ti_change_disguise()` -/
def Scr.bump (s : Scr) (g : Nat) : Scr :=
  { s with wdis := (g, (s.wd g + 1) % dmod) :: s.wdis.filter (·.1 != g) }

/-- the number of `"\b "` appended to every line of a canvas of widget `g` -/
def Scr.disguise (s : Scr) (g : Nat) : Nat := s.cdis + s.wd g

/-- `clear_images()` without widgets -/
def clearAll (e : Env) (s : Scr) : Scr × List Out :=
  if !e.kittySup then (s, [])
  else ({ s with cdis := (s.cdis + 1) % dmod }, [.tok .kittyDelAll])

/-- the loop of `clear_images(*widgets)`: each kitty widget once (the repair), in first-occurrence order.
A widget is `(id, some z)` when its image is a `KittyImage`. -/
def collectKitty : List (Nat × Option Int) → List (Nat × Int) → List (Nat × Int)
  | [], acc => acc
  | (g, some z) :: ws, acc => collectKitty ws (if acc.any (·.1 == g) then acc else acc ++ [(g, z)])
  | (_, none) :: ws, acc => collectKitty ws acc

/-- `clear_images(*widgets)` with at least one widget -/
def clearWidgets (e : Env) (s : Scr) (ws : List (Nat × Option Int)) : Scr × List Out :=
  if !e.kittySup then (s, [])
  else
    let ks := collectKitty ws []
    (ks.foldl (fun s k => s.bump k.1) s, ks.map fun k => .tok (.kittyDelZ k.2))

/-- the `for … else` over `self._ti_image_cviews - image_cviews`: `none` = left by `break` -/
def staleLoop (e : Env) : List View → List (Nat × Option Int) → Option (List (Nat × Option Int))
  | [], acc => some acc
  | v :: vs, acc =>
    if e.isKitty v.canv then staleLoop e vs (acc ++ [((e.info v.canv).widget, some (e.info v.canv).z)])
    else none

def stale (old new : List View) : List View := old.filter (· ∉ new)

/-- `_ti_clear_images()`; `shards` is `screen_canv.shards` or the one-view list built for a lone canvas -/
def tiClear (e : Env) (s : Scr) (shards : List Shard) : Scr × List Out :=
  if !(e.kittySup || (e.itermSup && e.konsole)) then (s, [])
  else
    let new := walk e shards
    let (s, out) :=
      match staleLoop e (stale s.cviews new) [] with
      | none => clearAll e s
      | some [] => (s, [])
      | some ws => clearWidgets e s ws
    ({ s with cviews := new }, out)

/-- the canvas handed to `draw_screen`: a `CompositeCanvas` (its shards) or any other canvas -/
inductive ScreenCanvas
  | composite (shards : List Shard)
  | lone (cols rows canv : Nat)

/-- the shards walked: a lone canvas covers the entire screen (the repair of the `frozenset.clear()` branch) -/
def ScreenCanvas.shards : ScreenCanvas → List Shard
  | .composite sh => sh
  | .lone cols rows canv => [(rows, [⟨0, 0, cols, rows, canv⟩])]

/-- what the base class' `draw_screen` did: its output, or an exception -/
structure BaseRes where
  out : List Out
  raised : Bool

structure Res where
  s : Scr
  out : List Out
  raised : Bool

/-- `try: body finally: fin` on outputs: `fin` is written whether or not `body` raised -/
def tryFinally (body : Res) (fin : List Out) : Res := { body with out := body.out ++ fin }

/-- the `try` block of `draw_screen` -/
def drawBody (e : Env) (s : Scr) (canvas : Nat) (shards : List Shard) (base : BaseRes) : Res :=
  let (s, o) :=
    if s.canvas != some canvas then tiClear e { s with canvas := some canvas } shards else (s, [])
  { s, out := o ++ base.out, raised := base.raised }

/-- `draw_screen(maxres, canvas)` -/
def drawScreen (e : Env) (s : Scr) (canvas : Nat) (shards : List Shard) (base : BaseRes) : Res :=
  let r := tryFinally (drawBody e s canvas shards base) [.tok .syncEnd]
  { r with out := .tok .syncBegin :: r.out }

/-- `clear()` -/
def clear (e : Env) (s : Scr) : Scr × List Out :=
  let (s, o) := clearAll e s
  (s, o ++ [.base "clear"])

/-- `_start()` -/
def start (e : Env) (s : Scr) : Scr × List Out :=
  let (s, o) := clearAll e s
  (s, .base "start" :: o)

/-- `_stop()`; urwid's posix `_stop` begins with `self.clear()` (a virtual call, so ours) -/
def stop (e : Env) (s : Scr) : Scr × List Out :=
  let (s, o1) := clearAll e s
  let (s, o2) := clear e s
  (s, o1 ++ [.base "stop<"] ++ o2 ++ [.base "stop>"])

def toks : List Out → List Tok
  | [] => []
  | .tok t :: r => t :: toks r
  | .base _ :: r => toks r

/-! ## 4. placement level -/

/-- one image line on the screen (0-based cell coordinates) -/
structure Seg where
  row : Nat
  col : Nat
  cols : Nat
  z : Int
  widget : Nat
deriving DecidableEq, Repr

def Seg.pl (s : Seg) : Placement := ⟨true, s.row, s.col, s.cols, 1, s.z⟩

/-- the image lines a view shows: nothing when the canvas is trimmed horizontally (blank lines),
else the image lines among canvas lines `trimT … trimT+rows-1` -/
def segsOfView (e : Env) (v : View) : List Seg :=
  let i := e.info v.canv
  if i.kind != .kitty || v.trimL != 0 || v.cols != i.cw then []
  else (List.range v.rows).filterMap fun k =>
    let line := v.trimT + k
    if i.padTop ≤ line && line < i.padTop + i.imgH then
      some ⟨v.row - 1 + k, v.col - 1 + i.padLeft, i.imgW, i.z, i.widget⟩
    else none

def segsOf (e : Env) (vs : List View) : List Seg := vs.flatMap (segsOfView e)

/-- writing one image line: cursor at its cell, `d=C` unless blending (konsole), the placement -/
def emitSeg (blend : Bool) (t : Term) (s : Seg) : Term :=
  let t := { t with row := s.row, col := s.col }
  let t := if blend then t else t.step .kittyDelCursor
  t.step (.kitty ⟨s.cols, 1, s.z, "", []⟩)

def emitAll (blend : Bool) (t : Term) (segs : List Seg) : Term := segs.foldl (emitSeg blend) t

/-- the image part of the bytes of screen row `r`: position, z and disguise of each image line -/
def rowKey (e : Env) (s : Scr) (vs : List View) (r : Nat) : List (Nat × Nat × Int × Nat) :=
  ((segsOf e vs).filter (·.row == r)).map fun g => (g.col, g.cols, g.z, s.disguise g.widget)

/-- the placement-level effect of one redraw: deletes first, then the re-emitted rows `R` -/
def redraw (e : Env) (s : Scr) (shards : List Shard) (R : List Nat) (t : Term) : Scr × Term :=
  let (s', out) := tiClear e s shards
  let t := t.run (toks out)
  (s', emitAll e.konsole t ((segsOf e s'.cviews).filter (R.contains ·.row)))

end TIV.C18
