import TIV.C18.Proofs2
import TIV.Common.GenCtl
/-!
# C18 — the urwid screen never leaves a ghost image behind

Theorems about the model of the *repaired* `_urwid.py` (fixes/C18-ghost-images.diff); the two
`…_counterexample` theorems show what fails in the code as it was.
-/
namespace TIV.C18
open TIV

/-- the constants the model was written for (regenerated from the imported package on every run) -/
theorem generated_constants :
    Generated.zStart = 1 ∧ Generated.zLimit = 2 ^ 31 ∧ Generated.disguiseCycle = [1, 2, 0] ∧
    Generated.zProbe = (List.range 6).map zOf ∧
    GenCtl.KITTY_DELETE_ALL = ["\x1b_Ga=d,d=A;\x1b\\"] ∧ GenCtl.KITTY_DELETE_Z_INDEX = ["\x1b_Ga=d,d=Z,z=", ";\x1b\\"] ∧
    GenCtl.BEGIN_SYNCED_UPDATE = ["\x1b[?2026h"] ∧ GenCtl.END_SYNCED_UPDATE = ["\x1b[?2026l"] := by decide

/-! ## the z-index allocator -/

/-- For every history of widget creations (with any resolution of `set.pop()`) and garbage
collections: the live kitty widgets hold pairwise distinct z-indexes, all inside (−2³¹, 2³¹). -/
theorem z_distinct_range (ops : List ZOp) :
    ((ZWorld.run {} ops).live).Nodup ∧ ∀ z ∈ (ZWorld.run {} ops).live, -(2 : Int) ^ 31 < z ∧ z < 2 ^ 31 := by
  obtain ⟨n, h⟩ := zinv_run ops zinv_init
  refine ⟨(List.nodup_append.1 h.nodup).1, ?_⟩
  intro z hz
  obtain ⟨k, hk, rfl⟩ := h.mem (List.mem_append_left _ hz)
  have := zOf_range (k := k) (by have := h.le; omega)
  have e31 : (2 : Int) ^ 31 = 2147483648 := by decide
  rw [e31]; exact this

/-- … and never collide with a free one (what makes re-use safe). -/
theorem z_live_free_disjoint (ops : List ZOp) :
    ∀ z ∈ (ZWorld.run {} ops).live, z ∉ (ZWorld.run {} ops).st.free := by
  obtain ⟨n, h⟩ := zinv_run ops zinv_init
  intro z hz hf
  exact (List.nodup_append.1 h.nodup).2.2 z hz z hf rfl

/-- After any history, creating one more kitty widget raises exactly when all 2³²−2 z-indexes are
held by live widgets (so: the 2³²−1st simultaneous widget raises, and nothing earlier does). -/
theorem z_exhaust (ops : List ZOp) (pick : Nat) :
    (ZWorld.run {} ops).st.alloc pick = .error .tooMany ↔ (ZWorld.run {} ops).live.length = 2 ^ 32 - 2 := by
  obtain ⟨n, h⟩ := zinv_run ops zinv_init
  generalize ZWorld.run {} ops = w at h
  have hlen := h.length
  have hle := h.le
  have e32 : 2 ^ 32 - 2 = 4294967294 := by decide
  rw [e32]
  unfold ZState.alloc
  cases hf : w.st.free with
  | cons f fs =>
    simp only [hf, List.length_cons] at hlen
    constructor
    · intro hc; cases hc
    · intro hc; omega
  | nil =>
    simp only [hf, List.length_nil] at hlen
    simp only [Generated.zLimit, h.next]
    constructor
    · intro hc
      split at hc
      · rename_i hz
        rcases Nat.lt_or_ge n 4294967294 with h1 | h1
        · exact absurd hz (zOf_lt_limit h1)
        · omega
      · cases hc
    · intro hc
      have : n = 4294967294 := by omega
      rw [this, zOf_limit]; simp

example : (ZWorld.run {} [.new 0, .new 0, .del 0, .new 5, .new 0]).live = [2, -1, 1] := by decide

/-! ## synchronized update bracket -/

/-- On every path — whether or not the base class' `draw_screen` raises, whether or not the
canvas is new — what `draw_screen` writes is `BEGIN`, then the deletes, then the base class'
output, then `END`; and the exception (if any) still propagates. -/
theorem sync_bracket (e : Env) (s : Scr) (canvas : Nat) (shards : List Shard) (base : BaseRes) :
    ∃ dels, (drawScreen e s canvas shards base).out = .tok .syncBegin :: (dels ++ base.out ++ [.tok .syncEnd]) ∧
      (∀ o ∈ dels, o = .tok .kittyDelAll ∨ ∃ z, o = .tok (.kittyDelZ z)) ∧
      (drawScreen e s canvas shards base).raised = base.raised := by
  unfold drawScreen tryFinally drawBody
  by_cases hc : (s.canvas != some canvas) = true
  · simp only [hc, ↓reduceIte]
    refine ⟨(tiClear e { s with canvas := some canvas } shards).2, by simp, ?_, trivial⟩
    intro o ho
    unfold tiClear at ho
    split at ho
    · simp at ho
    · simp only at ho
      split at ho
      · unfold clearAll at ho; split at ho <;> simp_all
      · simp at ho
      · unfold clearWidgets at ho
        split at ho
        · simp at ho
        · simp only [List.mem_map] at ho
          obtain ⟨k, _, rfl⟩ := ho
          exact Or.inr ⟨k.2, rfl⟩
  · simp only [hc]
    exact ⟨[], by simp, by simp, trivial⟩

/-! ## start / stop / clear -/

/-- `clear()`, `_start()` and `_stop()` write a delete-all (when the kitty protocol is supported),
and on the terminal no kitty placement survives what they write. -/
theorem clear_on_start_stop_clear (e : Env) (s : Scr) (hk : e.kittySup = true) (t : Term) :
    (∀ op ∈ [clear e s, start e s, stop e s],
      Out.tok .kittyDelAll ∈ op.2 ∧ ∀ p ∈ (t.run (toks op.2)).imgs, p.kittyProto = false) := by
  intro op hop
  simp only [List.mem_cons, List.not_mem_nil, or_false] at hop
  rcases hop with rfl | rfl | rfl <;>
    simp [clear, start, stop, clearAll, hk, toks, Term.run, Term.step, List.mem_filter]

/-! ## deletes before rows -/

/-- When a new canvas is drawn, every view recorded at the previous draw that is not a view of the
new canvas (an image that moved, got covered, trimmed differently, scrolled, was re-rendered or
disappeared) has its delete — delete-all, or delete-by-z of its own z-index if it is a kitty
image — in the output *before* anything the base class writes (and inside the BEGIN/END pair). -/
theorem deleted_before_drawn (e : Env) (s : Scr) (canvas : Nat) (shards : List Shard) (base : BaseRes)
    (hk : e.kittySup = true) (hz : WidgetZ e) (hnew : s.canvas ≠ some canvas) :
    ∃ dels, (drawScreen e s canvas shards base).out = .tok .syncBegin :: (dels ++ base.out ++ [.tok .syncEnd]) ∧
      delsOnly dels ∧
      ∀ v ∈ s.cviews, v ∉ walk e shards →
        (Out.tok .kittyDelAll ∈ dels ∨ (e.isKitty v.canv = true ∧ Out.tok (.kittyDelZ (e.info v.canv).z) ∈ dels)) := by
  have hc : (s.canvas != some canvas) = true := by simpa using hnew
  refine ⟨(tiClear e { s with canvas := some canvas } shards).2, ?_, tiClear_delsOnly _ _ _, ?_⟩
  · simp [drawScreen, tryFinally, drawBody, hc]
  · exact tiClear_hits e { s with canvas := some canvas } shards hk hz

/-- the views recorded after a draw of a new canvas are exactly the image views of that canvas -/
theorem cviews_after_draw (e : Env) (s : Scr) (canvas : Nat) (shards : List Shard) (base : BaseRes)
    (hk : e.kittySup = true) (hnew : s.canvas ≠ some canvas) :
    (drawScreen e s canvas shards base).s.cviews = walk e shards := by
  have hc : (s.canvas != some canvas) = true := by simpa using hnew
  simp [drawScreen, tryFinally, drawBody, hc, tiClear, hk]

/-! ## disguises -/

/-- Whenever the deletes of a redraw hit the placements of a kitty widget (delete-all, or
delete-by-z with its z-index), the number of hidden `"\b "` appended to every line of every
canvas of that widget differs from the previous redraw's — so each row showing the widget is
different for urwid's row comparison. (Needs each widget bumped exactly once: the repair.) -/
theorem disguise_changes (e : Env) (s : Scr) (shards : List Shard) (hinj : ZInj e) (c : Nat)
    (hkc : e.isKitty c = true)
    (hhit : Out.tok .kittyDelAll ∈ (tiClear e s shards).2 ∨ Out.tok (.kittyDelZ (e.info c).z) ∈ (tiClear e s shards).2) :
    (tiClear e s shards).1.disguise (e.info c).widget ≠ s.disguise (e.info c).widget :=
  tiClear_disguise e s shards hinj c hkc hhit

/-- the loop of `clear_images(*widgets)` as it was: one bump per *occurrence* -/
def clearWidgetsUnrepaired (s : Scr) (ws : List (Nat × Option Int)) : Scr :=
  ws.foldl (fun s w => match w.2 with | some _ => s.bump w.1 | none => s) s

/-- … on the code as it was, three stale views of one widget leave its disguise unchanged -/
theorem disguise_unrepaired_counterexample :
    (clearWidgetsUnrepaired {} [(0, some 1), (0, some 1), (0, some 1)]).disguise 0 = ({} : Scr).disguise 0 ∧
    (clearWidgets ⟨true, false, false, fun _ => {}⟩ {} [(0, some 1), (0, some 1), (0, some 1)]).1.disguise 0
      ≠ ({} : Scr).disguise 0 := by decide

/-! ## placements -/

/-- **No ghost** (inductive invariant of redraws). If every kitty placement on the terminal is a
line of a recorded view, then after a redraw — the deletes of `_ti_clear_images`, then any set `R`
of re-emitted rows, on any terminal kind — every kitty placement on the terminal is a line of a
view of the canvas just drawn. No hypothesis on urwid's row diff is needed for this direction. -/
theorem no_ghost (e : Env) (s : Scr) (shards : List Shard) (R : List Nat) (t : Term)
    (hk : e.kittySup = true) (hz : WidgetZ e)
    (hinv : ∀ p ∈ t.imgs, p.kittyProto = true → ∃ v ∈ s.cviews, ∃ g ∈ segsOfView e v, p = g.pl) :
    (redraw e s shards R t).1.cviews = walk e shards ∧
    ∀ p ∈ (redraw e s shards R t).2.imgs, p.kittyProto = true →
      ∃ v ∈ walk e shards, ∃ g ∈ segsOfView e v, p = g.pl := by
  have hcv : (tiClear e s shards).1.cviews = walk e shards := by simp [tiClear, hk]
  refine ⟨by simp [redraw, hcv], ?_⟩
  intro p hp hkp
  simp only [redraw] at hp
  rcases emitAll_sub _ _ _ _ hp with h | ⟨g, hg, rfl⟩
  · rw [run_dels _ (tiClear_delsOnly e s shards)] at h
    obtain ⟨hmem, hnot⟩ := h
    obtain ⟨v, hv, g, hg, rfl⟩ := hinv p hmem hkp
    by_cases hvn : v ∈ walk e shards
    · exact ⟨v, hvn, g, hg, rfl⟩
    · exfalso
      apply hnot
      refine ⟨hkp, ?_⟩
      have hgz := (segsOfView_z hg).1
      rcases tiClear_hits e s shards hk hz v hv hvn with h | ⟨_, h⟩
      · exact Or.inl h
      · exact Or.inr (by simpa [Seg.pl, hgz] using h)
  · rw [hcv] at hg
    have hg' := (List.mem_filter.1 hg).1
    simp only [segsOf, List.mem_flatMap] at hg'
    obtain ⟨v, hv, hgv⟩ := hg'
    exact ⟨v, hv, g, hgv, rfl⟩

/-! ## re-sent image lines do not pile up (terminals other than konsole) -/

/-- The `blend` decision of `UrwidImage.__init__` read off the live code for six terminal identities:
blending (no delete-at-cursor before an image line) exactly on konsole — the `e.konsole` the model's
`redraw`/`emitSeg` use. -/
theorem generated_blend : ∀ nb ∈ Generated.blendTable, nb.2 = (nb.1 == "konsole") := by decide

/-- On every terminal that does not blend (kitty, wezterm, any other terminal speaking the protocol),
writing an image line — whether or not the same line is already there — leaves exactly one copy
of its placement: the delete-at-cursor removes the copy it is about to replace. -/
theorem resend_replaces (t : Term) (s : Seg) (hc : 0 < s.cols) :
    (emitSeg false t s).imgs.count s.pl = 1 := by
  rw [emitSeg_imgs]
  simp only [Bool.false_eq_true, ↓reduceIte, List.count_cons_self]
  have : (t.imgs.filter fun p => !(p.kittyProto && Term.inRect p s.row s.col)).count s.pl = 0 := by
    rw [List.count_eq_zero]
    intro hm
    have h := (List.mem_filter.1 hm).2
    have hin : Term.inRect s.pl s.row s.col = true := by
      simp [Term.inRect, Seg.pl]; omega
    simp [Seg.pl] at h
    simp [Seg.pl] at hin
    simp [h] at hin
  omega

/-- … whereas with blending a line that is already there is doubled (harmless on konsole only, which
replaces an image drawn again at the same place and z-index — the reason the library blends there). -/
theorem resend_stacks_when_blending (t : Term) (s : Seg) (h : s.pl ∈ t.imgs) :
    2 ≤ (emitSeg true t s).imgs.count s.pl := by
  rw [emitSeg_imgs]
  simp only [↓reduceIte, List.count_cons_self]
  have := List.count_pos_iff.2 h
  omega

/-! ## an explicit clear, then a redraw -/

/-- `clear_images()` — for either value of `now`: the model's `clearAll` is the delete-all *and* the
class-level disguise bump — followed by the next redraw of any new canvas: every image line of that
canvas is placed again. Hypotheses: urwid's row diff (`hrows`: a row whose image bytes — position,
z-index, disguise of each image line — differ from the previous draw's is re-emitted) and the geometry
(`hno`: no image line starts inside another). `s` is the screen state at the previous redraw. -/
theorem clear_then_redraw_exact (e : Env) (s : Scr) (shards : List Shard) (R : List Nat) (t : Term)
    (hk : e.kittySup = true) (hinj : ZInj e)
    (hrows : ∀ r, rowKey e s s.cviews r ≠
        rowKey e (tiClear e (clearAll e s).1 shards).1 (walk e shards) r → r ∈ R)
    (hno : ∀ a ∈ segsOf e (walk e shards), ∀ b ∈ segsOf e (walk e shards), b.pl ≠ a.pl →
      Term.inRect a.pl b.row b.col = false) :
    (∀ p ∈ (t.run (toks (clearAll e s).2)).imgs, p.kittyProto = false) ∧
    ∀ v ∈ walk e shards, ∀ g ∈ segsOfView e v,
      g.pl ∈ (redraw e (clearAll e s).1 shards R (t.run (toks (clearAll e s).2))).2.imgs := by
  refine ⟨by simp [clearAll, hk, toks, Term.run, Term.step, List.mem_filter], ?_⟩
  intro v hv g hg
  have hcv : (tiClear e (clearAll e s).1 shards).1.cviews = walk e shards := by simp [tiClear, hk]
  have hgall : g ∈ segsOf e (walk e shards) := by
    simp only [segsOf, List.mem_flatMap]; exact ⟨v, hv, hg⟩
  obtain ⟨hgz, hgw, hkv⟩ := segsOfView_info hg
  -- the row of `g` is re-emitted: its key contains `g` with a disguise no line of `s` can have
  have hR : g.row ∈ R := by
    apply hrows
    intro heq
    have hkey : (g.col, g.cols, g.z, (tiClear e (clearAll e s).1 shards).1.disguise g.widget) ∈
        rowKey e (tiClear e (clearAll e s).1 shards).1 (walk e shards) g.row := by
      simp only [rowKey, List.mem_map, List.mem_filter]
      exact ⟨g, ⟨hgall, by simp⟩, rfl⟩
    rw [← heq] at hkey
    simp only [rowKey, List.mem_map, List.mem_filter, segsOf, List.mem_flatMap] at hkey
    obtain ⟨g0, ⟨⟨v0, _, hg0⟩, _⟩, heq0⟩ := hkey
    simp only [Prod.mk.injEq] at heq0
    obtain ⟨_, _, hz0, hdis⟩ := heq0
    obtain ⟨hg0z, hg0w, hkv0⟩ := segsOfView_info hg0
    have hw : g0.widget = g.widget := by
      rw [hg0w, hgw]; exact hinj _ _ hkv0 hkv (by rw [← hg0z, ← hgz, hz0])
    rw [hw] at hdis
    exact clear_then_tiClear_disguise e s shards hk g.widget hdis.symm
  simp only [redraw, hcv]
  apply emitAll_emitted
  · intro a ha b hb hab
    exact hno a (List.mem_filter.1 ha).1 b (List.mem_filter.1 hb).1 hab
  · exact List.mem_filter.2 ⟨hgall, by simpa using hR⟩

/- `placements_exact` at full strength would be: after each redraw the kitty placements on the terminal are
   exactly the image lines of the canvas just drawn. It is delivered as two halves: `no_ghost` (⊆, full) and
   `placements_exact_partial` (⊇, under the row-diff hypothesis `hrows` and the geometry hypothesis `hno`). -/

/-- **Nothing missing** — the other half of `placements_exact`, *partial*: urwid's row diff is a
hypothesis (`hrows`: a row that is not re-emitted has the same image bytes — position, z-index and
disguise of every image line — as at the previous draw), as is the geometry (`hno`: no image line of
the new canvas starts inside another one). If every line of every recorded view was on the
terminal before, every line of every view of the new canvas is on it after the redraw. -/
theorem placements_exact_partial (e : Env) (s : Scr) (shards : List Shard) (R : List Nat) (t : Term)
    (hk : e.kittySup = true) (hinj : ZInj e)
    (hbefore : ∀ v ∈ s.cviews, ∀ g ∈ segsOfView e v, g.pl ∈ t.imgs)
    (hrows : ∀ r, r ∉ R → rowKey e (tiClear e s shards).1 (walk e shards) r = rowKey e s s.cviews r)
    (hno : ∀ a ∈ segsOf e (walk e shards), ∀ b ∈ segsOf e (walk e shards), b.pl ≠ a.pl →
      Term.inRect a.pl b.row b.col = false) :
    ∀ v ∈ walk e shards, ∀ g ∈ segsOfView e v, g.pl ∈ (redraw e s shards R t).2.imgs := by
  intro v hv g hg
  have hcv : (tiClear e s shards).1.cviews = walk e shards := by simp [tiClear, hk]
  have hgall : g ∈ segsOf e (walk e shards) := by
    simp only [segsOf, List.mem_flatMap]; exact ⟨v, hv, hg⟩
  simp only [redraw, hcv]
  by_cases hR : g.row ∈ R
  · -- the row is re-emitted
    apply emitAll_emitted
    · intro a ha b hb hab
      exact hno a (List.mem_filter.1 ha).1 b (List.mem_filter.1 hb).1 hab
    · exact List.mem_filter.2 ⟨hgall, by simpa using hR⟩
  · -- the row is not re-emitted: it is unchanged, so the line was there and was not deleted
    obtain ⟨hgz, hgw, hkv⟩ := segsOfView_info hg
    have hkey : (g.col, g.cols, g.z, (tiClear e s shards).1.disguise g.widget) ∈
        rowKey e (tiClear e s shards).1 (walk e shards) g.row := by
      simp only [rowKey, List.mem_map, List.mem_filter]
      exact ⟨g, ⟨hgall, by simp⟩, rfl⟩
    rw [hrows g.row hR] at hkey
    simp only [rowKey, List.mem_map, List.mem_filter, segsOf, List.mem_flatMap] at hkey
    obtain ⟨g0, ⟨⟨v0, hv0, hg0⟩, hrow0⟩, heq⟩ := hkey
    simp only [Prod.mk.injEq] at heq
    obtain ⟨hcol, hcols, hz0, hdis⟩ := heq
    have hrow0' : g0.row = g.row := by simpa using hrow0
    have hpl : g0.pl = g.pl := by simp [Seg.pl, hrow0', hcol, hcols, hz0]
    obtain ⟨hg0z, hg0w, hkv0⟩ := segsOfView_info hg0
    have hw : g0.widget = g.widget := by
      rw [hg0w, hgw]; exact hinj _ _ hkv0 hkv (by rw [← hg0z, ← hgz, hz0])
    have hin : g.pl ∈ t.imgs := by rw [← hpl]; exact hbefore v0 hv0 g0 hg0
    have hnohit : ¬ hitBy (tiClear e s shards).2 g.pl.z := by
      intro hh
      have := tiClear_disguise e s shards hinj v.canv hkv (by simpa [Seg.pl, hgz] using hh)
      rw [← hgw] at this
      rw [hw] at hdis
      exact this hdis.symm
    apply emitAll_keeps
    · rw [run_dels _ (tiClear_delsOnly e s shards)]
      exact ⟨hin, fun h => hnohit h.2⟩
    · intro s' hs'
      have hs'R : s'.row ∈ R := by simpa using (List.mem_filter.1 hs').2
      exact Or.inl (inRect_other_row g s'.row s'.col (fun h => hR (h ▸ hs'R)))


/-- a non-trivial instance: one kitty widget (z = 1) whose canvas is 4 columns wide with a 2×2 image
at offset 1; it moves from row 1 to row 2 -/
def exEnv : Env :=
  ⟨true, false, false, fun c => if c = 0 then
    { kind := .kitty, widget := 0, z := 1, cw := 4, padTop := 0, imgH := 2, padLeft := 1, imgW := 2 } else {}⟩

example : WidgetZ exEnv ∧ ZInj exEnv := by
  have h0 : ∀ c, exEnv.isKitty c = true → c = 0 := by
    intro c hc
    by_cases h : c = 0
    · exact h
    · simp [exEnv, Env.isKitty, h] at hc
  constructor <;> intro c c' hc hc' _ <;> rw [h0 c hc, h0 c' hc']

example : segsOfView exEnv ⟨0, 1, 1, 0, 0, 4, 2⟩ = [⟨0, 1, 2, 1, 0⟩, ⟨1, 1, 2, 1, 0⟩] := by decide

example :
    let s0 : Scr := { cviews := [⟨0, 1, 1, 0, 0, 4, 2⟩] }
    let t0 : Term := { W := 4, H := 4, imgs := [⟨true, 0, 1, 2, 1, 1⟩, ⟨true, 1, 1, 2, 1, 1⟩] }
    let r := redraw exEnv s0 [(1, [⟨0, 0, 4, 1, 1⟩]), (2, [⟨0, 0, 4, 2, 0⟩]), (1, [⟨0, 0, 4, 1, 1⟩])] [0, 1, 2] t0
    r.1.cviews = [⟨0, 2, 1, 0, 0, 4, 2⟩] ∧ r.1.disguise 0 = 1 ∧
      r.2.imgs = [⟨true, 2, 1, 2, 1, 1⟩, ⟨true, 1, 1, 2, 1, 1⟩] := by decide


end TIV.C18
