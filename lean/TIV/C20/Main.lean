import TIV.Common.DriverMain
import TIV.C20.Drive
def main : IO Unit := TIV.driverMain TIV.C20.handler
