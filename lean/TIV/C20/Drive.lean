import TIV.Common.Wire
import TIV.C20.Model
import TIV.C20.Generated
/-!
driver ops of C20

`run <op>…` — one history per line, one token per operation, fields separated by commas:
`nc,<parent>,<-|method>` `ni,<cls>` `set,<k>,<target>,<val>` `del,<k>,<target>` `get,<k>,<target>`
`rend,<inst>,<val>[,<entry>]` (entries `static str fmt draw anim iter`) `ni,<cls>,s` (still image) `dump`; settings `fs rm jq rf na`; targets `c<id>` / `i<id>`;
values `N` `b0` `b1` `i<int>` `s<hex of utf-8>` `o`.
Response: `ok <r1>|<r2>|…` (`c<id>`, `i<id>`, `ok`, a value, `m:<method>`, `!<ExceptionClass>`,
dump = rows `;`-joined, entries `,`-joined).  `spec <op>…` runs the specification machine instead.
-/
namespace TIV.C20
open TIV.Wire

def libOfGenerated : List LibClass :=
  Generated.lib.map fun (name, parent, methods, dflt, ownRm, ownFs, iterm, abstr) =>
    { name, parent, methods, dflt, ownRm, ownFs, iterm, abstr }

def defaultsOfGenerated : Defaults :=
  { jq := Generated.jqDefault, rf := Generated.rfDefault, fsMeta := Generated.fsMeta,
    jqMax := Generated.jqMax, na := Generated.naDefault,
    animName := Generated.animName, wholeName := Generated.wholeName }

def pVal (t : String) : Option PyVal :=
  if t == "N" then some .none
  else if t == "b0" then some (.bool false)
  else if t == "b1" then some (.bool true)
  else if t == "o" then some .other
  else match t.toList with
    | 'i' :: r => (String.ofList r).toInt?.map .int
    | 's' :: r =>
      match hexDecode (String.ofList r) with
      | some bs => (String.fromUTF8? (ByteArray.mk bs.toArray)).map .str
      | none => none
    | _ => none

def fVal : PyVal → String
  | .none => "N"
  | .bool b => if b then "b1" else "b0"
  | .int i => "i" ++ toString i
  | .str s => "s" ++ hexEncode (utf8 s)
  | .other => "o"

def pSetting (t : String) : Option Setting :=
  if t == "fs" then some (.slot .fs) else if t == "rm" then some (.slot .rm)
  else if t == "jq" then some (.slot .jq) else if t == "rf" then some (.slot .rf)
  else if t == "na" then some .na else none

def pTarget (t : String) : Option Target :=
  match t.toList with
  | 'c' :: r => (String.ofList r).toNat?.map .cls
  | 'i' :: r => (String.ofList r).toNat?.map .inst
  | _ => none

def pEntry (t : String) : Option Entry :=
  if t == "static" then some .static else if t == "str" then some .str
  else if t == "fmt" then some .fmt else if t == "draw" then some .draw
  else if t == "anim" then some .anim else if t == "iter" then some .iter
  else if t == "iterc" then some .iterc else if t == "animc" then some .animc else none

def pOp (tok : String) : Option Op :=
  match tok.splitOn "," with
  | ["nc", p, d] => do
    let p ← p.toNat?
    if d == "-" then pure (.nc p none false) else
    match ← pVal d with
    | .str x => pure (.nc p (some x) false)
    | _ => none
  | ["nc", p, d, "m"] => do   -- declared with a metaclass derived from the parent's
    let p ← p.toNat?
    if d == "-" then pure (.nc p none true) else
    match ← pVal d with
    | .str x => pure (.nc p (some x) true)
    | _ => none
  | ["ni", c] => do pure (.ni (← c.toNat?) true)
  | ["ni", c, "s"] => do pure (.ni (← c.toNat?) false)
  | ["set", k, t, v] => do pure (.set (← pSetting k) (← pTarget t) (← pVal v))
  | ["del", k, t] => do pure (.del (← pSetting k) (← pTarget t))
  | ["get", k, t] => do pure (.get (← pSetting k) (← pTarget t))
  | ["rend", i, v] => do pure (.rend (← i.toNat?) (← pVal v) .static)
  | ["rend", i, v, e] => do pure (.rend (← i.toNat?) (← pVal v) (← pEntry e))
  | ["dump"] => some .dump
  | _ => none

def fErr : Err → String
  | .TypeError => "!TypeError"
  | .ValueError => "!ValueError"
  | .AttributeError => "!AttributeError"
  | .OutOfModel => "!OutOfModel"
  | .BadTarget => "!BadTarget"

def fEntry : Except Err PyVal → String
  | .ok v => fVal v
  | .error e => fErr e

def fOut : Out → String
  | .ok => "ok"
  | .cls c => "c" ++ toString c
  | .inst i => "i" ++ toString i
  | .val v => fVal v
  | .meth m => "m:" ++ m
  | .err e => fErr e
  | .dump rows => String.intercalate ";" (rows.map fun r => String.intercalate "," (r.map fEntry))

def pOps : List String → Option (List Op)
  | [] => some []
  | t :: ts => do
    let o ← pOp t
    let os ← pOps ts
    pure (o :: os)

def runWith (σ : Sem) (args : List String) : Option String := do
  let ops ← pOps args
  let r := runG σ (mkInit σ defaultsOfGenerated libOfGenerated) ops
  pure ("ok " ++ String.intercalate "|" (r.2.map fOut))

def handler : Handler := fun op args =>
  match op with
  | "run" => runWith implSem args
  | "spec" => runWith specSem args
  | _ => none

end TIV.C20
