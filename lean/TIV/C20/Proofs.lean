import TIV.C20.Model
/-! helper lemmas for C20: well-formed class tables, the refinement relation, frame lemmas -/
namespace TIV.C20

theorem findSome?_congr_mem {α β} (l : List α) (f g : α → Option β) (h : ∀ k ∈ l, f k = g k) :
    l.findSome? f = l.findSome? g := by
  induction l with
  | nil => rfl
  | cons a t ih =>
    simp only [List.findSome?_cons]
    rw [h a (by simp), ih (fun k hk => h k (by simp [hk]))]

/-! ## well-formed class tables -/

/-- `cls._render_methods` as a function of the class table alone -/
def methodsI (info : Nat → Info) (c : Nat) : Option (List String) :=
  (info c).mro.findSome? fun k => (info k).methods

theorem methodsOf_eq (s : State) (c : Nat) : methodsOf s c = methodsI s.info c := rfl

/-- the static part: what class statements guarantee -/
structure WFI (n : Nat) (info : Nat → Info) : Prop where
  /-- single inheritance: `__mro__` = the class followed by its parent's `__mro__` -/
  mro_shape : ∀ c, c < n → ∃ rest, (info c).mro = c :: rest ∧ (rest = [] ∨ ∃ p, p < c ∧ rest = (info p).mro)
  /-- `_render_methods` is defined somewhere up the tree (BaseImage defines it) -/
  methods_some : ∀ c, c < n → ∃ ms, methodsI info c = some ms
  /-- no class body defines `_jpeg_quality` / `_read_from_file` -/
  body_jq : ∀ c, c < n → (info c).body .jq = none
  body_rf : ∀ c, c < n → (info c).body .rf = none
  /-- a body that defines `_default_render_method` sets `_render_method` to it -/
  dflt_body : ∀ c, c < n → ∀ d, (info c).dflt = some d → (info c).body .rm = some (.str d)
  /-- where render methods exist, only such a body defines `_render_method` -/
  body_dflt : ∀ c, c < n → methodsI info c ≠ some [] → (info c).dflt = none → (info c).body .rm = none

structure WF (s : State) : Prop where
  stat : WFI s.ncls s.info
  icls_lt : ∀ i, i < s.ninst → s.icls i < s.ncls
  /-- classes of styles without render methods never get a `_render_method` of their own -/
  frozen : ∀ c, c < s.ncls → methodsOf s c = some [] → s.cd c .rm = (s.info c).body .rm

theorem WFI.mro_le {n info} (h : WFI n info) : ∀ c, c < n → ∀ k ∈ (info c).mro, k ≤ c := by
  intro c
  induction c using Nat.strongRecOn with
  | _ c ih =>
    intro hc k hk
    obtain ⟨rest, hm, hr⟩ := h.mro_shape c hc
    rw [hm] at hk
    rcases List.mem_cons.mp hk with rfl | hk
    · exact Nat.le_refl _
    · rcases hr with rfl | ⟨p, hp, rfl⟩
      · simp at hk
      · have := ih p hp (by omega) k hk
        omega

theorem WFI.mro_head {n info} (h : WFI n info) (c : Nat) (hc : c < n) :
    ∃ rest, (info c).mro = c :: rest ∧ ∀ k ∈ rest, k < c := by
  obtain ⟨rest, hm, hr⟩ := h.mro_shape c hc
  refine ⟨rest, hm, ?_⟩
  intro k hk
  rcases hr with rfl | ⟨p, hp, rfl⟩
  · simp at hk
  · have := h.mro_le p (by omega) k hk
    omega

theorem WFI.mro_lt {n info} (h : WFI n info) (c : Nat) (hc : c < n) : ∀ k ∈ (info c).mro, k < n := by
  intro k hk
  have := h.mro_le c hc k hk
  omega

/-- a class is not among the ancestors of its proper ancestors (the tree has no cycles) -/
theorem WFI.not_mem_mro_of_lt {n info} (h : WFI n info) (c d : Nat) (hd : d < n) (hlt : d < c) :
    c ∉ (info d).mro := by
  intro hm
  have := h.mro_le d hd c hm
  omega

/-- extending the table by one class whose `__mro__` is itself followed by an existing class's -/
theorem WFI.extend {n info} (h : WFI n info) (info' : Nat → Info) (keep : ∀ c, c < n → info' c = info c)
    (hmro : (info' n).mro = [n] ∨ ∃ p, p < n ∧ (info' n).mro = n :: (info p).mro)
    (hmeth : (info' n).methods.isSome ∨ ∃ p, p < n ∧ (info' n).mro = n :: (info p).mro)
    (hjq : (info' n).body .jq = none) (hrf : (info' n).body .rf = none)
    (hdb : ∀ d, (info' n).dflt = some d → (info' n).body .rm = some (.str d))
    (hbd : (info' n).dflt = none → (info' n).body .rm = none ∨ (info' n).methods = some []) :
    WFI (n + 1) info' := by
  have keepM : ∀ c, c < n → methodsI info' c = methodsI info c := by
    intro c hc
    unfold methodsI
    rw [keep c hc]
    apply findSome?_congr_mem
    intro k hk
    rw [keep k (h.mro_lt c hc k hk)]
  have newM : ∀ p, p < n → (info' n).mro = n :: (info p).mro →
      methodsI info' n = ((info' n).methods).or (methodsI info p) := by
    intro p hp hm
    have := keepM p hp
    unfold methodsI at this ⊢
    rw [keep p hp] at this
    rw [hm, List.findSome?_cons, this]
    cases (info' n).methods <;> rfl
  have newM0 : (info' n).mro = [n] → methodsI info' n = (info' n).methods := by
    intro hm
    unfold methodsI
    rw [hm, List.findSome?_cons]
    cases (info' n).methods <;> rfl
  constructor
  · intro c hc
    by_cases hcn : c = n
    · subst hcn
      rcases hmro with hm | ⟨p, hp, hm⟩
      · exact ⟨[], hm, Or.inl rfl⟩
      · exact ⟨(info p).mro, hm, Or.inr ⟨p, hp, by rw [keep p hp]⟩⟩
    · have hc' : c < n := by omega
      obtain ⟨rest, hm, hr⟩ := h.mro_shape c hc'
      refine ⟨rest, by rw [keep c hc', hm], ?_⟩
      rcases hr with rfl | ⟨p, hp, rfl⟩
      · exact Or.inl rfl
      · exact Or.inr ⟨p, hp, by rw [keep p (by omega)]⟩
  · intro c hc
    by_cases hcn : c = n
    · subst hcn
      rcases hmeth with hm | ⟨p, hp, hm⟩
      · rcases hmro with hm' | ⟨p, hp, hm'⟩
        · rw [newM0 hm']
          cases hx : (info' c).methods with
          | none => simp [hx] at hm
          | some ms => exact ⟨ms, rfl⟩
        · rw [newM p hp hm']
          cases hx : (info' c).methods with
          | none => simp [hx] at hm
          | some ms => exact ⟨ms, rfl⟩
      · rw [newM p hp hm]
        obtain ⟨ms, hms⟩ := h.methods_some p hp
        cases (info' c).methods with
        | none => exact ⟨ms, by simp [hms]⟩
        | some m => exact ⟨m, rfl⟩
    · have hc' : c < n := by omega
      rw [keepM c hc']
      exact h.methods_some c hc'
  · intro c hc
    by_cases hcn : c = n
    · subst hcn; exact hjq
    · rw [keep c (by omega)]; exact h.body_jq c (by omega)
  · intro c hc
    by_cases hcn : c = n
    · subst hcn; exact hrf
    · rw [keep c (by omega)]; exact h.body_rf c (by omega)
  · intro c hc d
    by_cases hcn : c = n
    · subst hcn; exact hdb d
    · rw [keep c (by omega)]; exact h.dflt_body c (by omega) d
  · intro c hc
    by_cases hcn : c = n
    · subst hcn
      intro hne hd
      rcases hbd hd with hb | hms
      · exact hb
      · exfalso
        apply hne
        rcases hmro with hm' | ⟨p, hp, hm'⟩
        · rw [newM0 hm', hms]
        · rw [newM p hp hm', hms]; rfl
    · have hc' : c < n := by omega
      rw [keepM c hc', keep c hc']
      exact h.body_dflt c hc'

theorem WFI.methodsI_keep {n info} (h : WFI n info) (info' : Nat → Info)
    (keep : ∀ c, c < n → info' c = info c) (c : Nat) (hc : c < n) : methodsI info' c = methodsI info c := by
  unfold methodsI
  rw [keep c hc]
  apply findSome?_congr_mem
  intro k hk
  rw [keep k (h.mro_lt c hc k hk)]

/-! ## the state-changing primitives preserve well-formedness -/

theorem setCd_wf {s : State} (h : WF s) (c : Nat) (sl : Slot) (v : Option PyVal)
    (hfrozen : sl = .rm → methodsOf s c = some [] → v = (s.info c).body .rm) : WF (s.setCd c sl v) := by
  refine ⟨h.stat, h.icls_lt, ?_⟩
  intro k hk hm
  show (if k = c ∧ Slot.rm = sl then v else s.cd k .rm) = _
  by_cases hx : k = c ∧ Slot.rm = sl
  · rw [if_pos hx]
    obtain ⟨rfl, rfl⟩ := hx
    exact hfrozen rfl hm
  · rw [if_neg hx]
    exact h.frozen k hk hm

theorem setId_wf {s : State} (h : WF s) (i : Nat) (sl : Slot) (v : Option PyVal) : WF (s.setId i sl v) :=
  ⟨h.stat, h.icls_lt, h.frozen⟩

theorem setNa_wf {s : State} (h : WF s) (v : PyVal) : WF { s with na := v } :=
  ⟨h.stat, h.icls_lt, h.frozen⟩

theorem newInst_wf {s : State} (h : WF s) (c : Nat) (a : Bool) (hc : c < s.ncls) : WF (newInst s c a) := by
  refine ⟨h.stat, ?_, h.frozen⟩
  intro i hi
  show (if i = s.ninst then c else s.icls i) < s.ncls
  by_cases hx : i = s.ninst
  · rw [if_pos hx]; exact hc
  · rw [if_neg hx]
    apply h.icls_lt
    have : i < s.ninst + 1 := hi
    omega

/-- what a class statement must satisfy to keep the table well-formed -/
structure ClassOK (s : State) (inf : Info) : Prop where
  mro : inf.mro = [s.ncls] ∨ ∃ p, p < s.ncls ∧ inf.mro = s.ncls :: s.mro p
  meth : inf.methods.isSome ∨ ∃ p, p < s.ncls ∧ inf.mro = s.ncls :: s.mro p
  jq : inf.body .jq = none
  rf : inf.body .rf = none
  db : ∀ d, inf.dflt = some d → inf.body .rm = some (.str d)
  bd : inf.dflt = none → inf.body .rm = none ∨ inf.methods = some []

theorem newClass_wf {s : State} (h : WF s) (inf : Info) (ok : ClassOK s inf) : WF (newClass implSem s inf) := by
  have keep : ∀ c, c < s.ncls → (newClass implSem s inf).info c = s.info c := by
    intro c hc
    show (if c = s.ncls then inf else s.info c) = s.info c
    rw [if_neg (Nat.ne_of_lt hc)]
  have self : (newClass implSem s inf).info s.ncls = inf := by
    show (if s.ncls = s.ncls then inf else s.info s.ncls) = inf
    rw [if_pos rfl]
  have st : WFI (s.ncls + 1) (newClass implSem s inf).info := by
    apply h.stat.extend _ keep
    · rw [self]; exact ok.mro
    · rw [self]; exact ok.meth
    · rw [self]; exact ok.jq
    · rw [self]; exact ok.rf
    · rw [self]; exact ok.db
    · rw [self]; exact ok.bd
  refine ⟨st, ?_, ?_⟩
  · intro i hi
    have := h.icls_lt i hi
    show s.icls i < s.ncls + 1
    omega
  · intro c hc hm
    show (if c = s.ncls then implSem.fresh inf .rm else s.cd c .rm) = ((newClass implSem s inf).info c).body .rm
    by_cases hx : c = s.ncls
    · rw [if_pos hx, hx, self]; rfl
    · rw [if_neg hx]
      have hc' : c < s.ncls := by
        have : c < s.ncls + 1 := hc
        omega
      rw [keep c hc']
      apply h.frozen c hc'
      rw [methodsOf_eq] at hm ⊢
      rw [← h.stat.methodsI_keep _ keep c hc']
      exact hm

theorem userInfo_ok {s : State} (p : Nat) (hp : p < s.ncls) (d : Option String) (dm : Bool) :
    ClassOK s (userInfo s p d dm) := by
  refine ⟨Or.inr ⟨p, hp, rfl⟩, Or.inr ⟨p, hp, rfl⟩, rfl, rfl, ?_, ?_⟩
  · intro x hx
    show (d.map PyVal.str) = _
    have : d = some x := hx
    rw [this]; rfl
  · intro hx
    have : d = none := hx
    left
    show (d.map PyVal.str) = none
    rw [this]; rfl

/-! ## successful setters / deleters: how they change the state -/

theorem rmAct_store_nonempty {ms : Option (List String)} {v : PyVal} {x : String}
    (h : rmAct ms v = .store x) : ms ≠ some [] ∧ v = .str x := by
  unfold rmAct at h
  split at h
  · cases h
  · split at h
    · cases h
    · rename_i l
      split at h
      · split at h
        · cases h
        · injection h with h
          subst h
          refine ⟨?_, rfl⟩
          intro hl
          injection hl with hl
          subst hl
          simp at *
      · cases h
  · cases h

theorem rmAct_store_ne_empty {ms : Option (List String)} {v : PyVal} {x : String}
    (h : rmAct ms v = .store x) : x ≠ "" := by
  unfold rmAct at h
  split at h
  · cases h
  · split at h
    · cases h
    · split at h
      · split at h
        · cases h
        · rename_i hne
          injection h with h
          subst h
          exact hne
      · cases h
  · cases h

inductive Eff (s : State) : State → Prop
  | same : Eff s s
  | cd (c : Nat) (sl : Slot) (w : Option PyVal) : c < s.ncls →
      (sl = .rm → methodsOf s c = some [] → w = (s.info c).body .rm) → Eff s (s.setCd c sl w)
  | id (i : Nat) (sl : Slot) (w : Option PyVal) : Eff s (s.setId i sl w)
  | na (w : PyVal) : Eff s { s with na := w }

theorem Eff.wf {s s' : State} (h : WF s) (e : Eff s s') : WF s' := by
  cases e with
  | same => exact h
  | cd c sl w hc hf => exact setCd_wf h c sl w hf
  | id i sl w => exact setId_wf h i sl w
  | na w => exact setNa_wf h w

theorem unsetRmCls_eff {s s' : State} (c : Nat) (hc : c < s.ncls)
    (hs : unsetRmCls s c = .ok s') : Eff s s' := by
  unfold unsetRmCls at hs
  split at hs
  · cases hs
  · rename_i ms hms
    split at hs
    · injection hs with hs; subst hs; exact .same
    · rename_i hne
      split at hs
      · split at hs
        · injection hs with hs; subst hs
          exact .cd c .rm _ hc (fun _ hm => by rw [hms] at hm; injection hm with hm; subst hm; simp at hne)
        · cases hs
      · injection hs with hs; subst hs
        exact .cd c .rm _ hc (fun _ hm => by rw [hms] at hm; injection hm with hm; subst hm; simp at hne)

theorem setG_eff {s s' : State} (k : Setting) (t : Target) (v : PyVal)
    (hs : setG implSem s k t v = .ok s') : Eff s s' := by
  unfold setG at hs
  split at hs
  · cases hs
  · rename_i hv
    cases t with
    | cls c =>
      have hc : c < s.ncls := by simpa [Target.valid] using hv
      cases k with
      | na =>
        simp only [] at hs
        split at hs
        · cases hs
        · split at hs
          · cases hs
          · injection hs with hs; subst hs; exact .na v
      | slot sl =>
        cases sl with
        | fs =>
          simp only [] at hs
          split at hs
          · cases hs
          · injection hs with hs; subst hs
            exact .cd c .fs _ hc (fun h => by cases h)
        | rm =>
          simp only [] at hs
          split at hs
          · cases hs
          · rename_i x hx
            injection hs with hs; subst hs
            exact .cd c .rm _ hc (fun _ hm => absurd hm (rmAct_store_nonempty hx).1)
          · exact unsetRmCls_eff c hc hs
        | jq =>
          simp only [] at hs
          split at hs
          · cases hs
          · split at hs
            · cases hs
            · injection hs with hs; subst hs
              exact .cd c .jq _ hc (fun h => by cases h)
        | rf =>
          simp only [] at hs
          split at hs
          · cases hs
          · split at hs
            · cases hs
            · injection hs with hs; subst hs
              exact .cd c .rf _ hc (fun h => by cases h)
    | inst i =>
      cases k with
      | na =>
        simp only [] at hs
        split at hs <;> cases hs
      | slot sl =>
        cases sl with
        | fs => simp only [] at hs; cases hs
        | rm =>
          simp only [] at hs
          split at hs
          · cases hs
          · injection hs with hs; subst hs; exact .id i .rm _
          · injection hs with hs; subst hs; exact .id i .rm _
        | jq =>
          simp only [] at hs
          split at hs
          · cases hs
          · split at hs
            · cases hs
            · injection hs with hs; subst hs; exact .id i .jq _
        | rf =>
          simp only [] at hs
          split at hs
          · cases hs
          · split at hs
            · cases hs
            · injection hs with hs; subst hs; exact .id i .rf _

theorem delG_eff {s s' : State} (k : Setting) (t : Target)
    (hs : delG implSem s k t = .ok s') : Eff s s' := by
  unfold delG at hs
  split at hs
  · cases hs
  · rename_i hv
    cases k with
    | na =>
      simp only [] at hs
      split at hs
      · cases hs
      · split at hs
        · cases hs
        · injection hs with hs; subst hs; exact .na _
    | slot sl =>
      cases sl with
      | fs => simp only [] at hs; cases hs
      | rm => exact setG_eff _ _ _ hs
      | jq =>
        simp only [] at hs
        split at hs
        · cases hs
        · injection hs with hs; subst hs
          cases t with
          | cls c => exact .cd c .jq _ (by simpa [Target.valid] using hv) (fun h => by cases h)
          | inst i => exact .id i .jq _
      | rf =>
        simp only [] at hs
        split at hs
        · cases hs
        · injection hs with hs; subst hs
          cases t with
          | cls c => exact .cd c .rf _ (by simpa [Target.valid] using hv) (fun h => by cases h)
          | inst i => exact .id i .rf _

theorem exc_fst_wf {s : State} (h : WF s) (r : Except Err State) (hr : ∀ s', r = .ok s' → WF s') :
    WF (exc s r).1 := by
  cases r with
  | ok s' => exact hr s' rfl
  | error e => exact h

/-- every operation keeps the class table well-formed -/
theorem step_wf {s : State} (h : WF s) (op : Op) : WF (step s op).1 := by
  cases op with
  | nc p d dm =>
    show WF (stepG implSem s (.nc p d dm)).1
    simp only [stepG]
    split
    · rename_i hp; exact newClass_wf h _ (userInfo_ok p hp d dm)
    · exact h
  | ni c a =>
    show WF (stepG implSem s (.ni c a)).1
    simp only [stepG]
    split
    · exact h
    · rename_i hc
      split
      · exact h
      · exact newInst_wf h c a (by simpa using hc)
  | set k t v => exact exc_fst_wf h _ (fun s' hs => (setG_eff k t v hs).wf h)
  | del k t => exact exc_fst_wf h _ (fun s' hs => (delG_eff k t hs).wf h)
  | get k t =>
    show WF (stepG implSem s (.get k t)).1
    simp only [stepG]
    split <;> exact h
  | rend i ov e =>
    show WF (stepG implSem s (.rend i ov e)).1
    simp only [stepG]
    split <;> exact h
  | dump => exact h

theorem run_wf {s : State} (h : WF s) (ops : List Op) : WF (run s ops).1 := by
  induction ops generalizing s with
  | nil => exact h
  | cons op ops ih => exact ih (step_wf h op)

/-! ## refinement: the code's model represents the specification machine -/

/-- the model of the code `s` represents the specification state `a`: same classes, instances,
    instance dicts and global; a class dict entry is the history's override, or — in a class whose
    body defines the attribute — the override if any, else the body's value -/
structure R (s a : State) : Prop where
  dft : a.dft = s.dft
  ncls : a.ncls = s.ncls
  info : a.info = s.info
  ninst : a.ninst = s.ninst
  icls : a.icls = s.icls
  idict : a.idict = s.idict
  ianim : a.ianim = s.ianim
  na : a.na = s.na
  cd : ∀ c, c < s.ncls → ∀ sl, s.cd c sl = match (s.info c).body sl with
    | some d => some ((a.cd c sl).getD d)
    | none => a.cd c sl

theorem look_list {s a : State} (r : R s a) (sl : Slot) (l : List Nat) (hl : ∀ k ∈ l, k < s.ncls) :
    l.findSome? (fun k => s.cd k sl) = specLookupL a sl l := by
  induction l with
  | nil => rfl
  | cons k ks ih =>
    have hk := r.cd k (hl k (by simp)) sl
    have ih' := ih (fun j hj => hl j (by simp [hj]))
    simp only [List.findSome?_cons, specLookupL]
    rw [r.info, hk]
    cases hb : (s.info k).body sl with
    | some d =>
      cases ha : a.cd k sl <;> simp
    | none =>
      cases ha : a.cd k sl with
      | some v => simp
      | none => simpa using ih'

/-- Python attribute lookup on the code's class dicts = nearest override, else nearest body value -/
theorem look_eq {s a : State} (h : WF s) (r : R s a) (sl : Slot) (c : Nat) (hc : c < s.ncls) :
    implSem.look s sl c = specSem.look a sl c := by
  show (s.mro c).findSome? (fun k => s.cd k sl) = specLookupL a sl (a.mro c)
  have : a.mro c = s.mro c := by unfold State.mro; rw [r.info]
  rw [this]
  exact look_list r sl _ (h.stat.mro_lt c hc)

theorem R.valid {s a : State} (r : R s a) (t : Target) : t.valid a = t.valid s := by
  cases t <;> simp [Target.valid, r.ncls, r.ninst]

theorem R.clsOf {s a : State} (r : R s a) (t : Target) : t.clsOf a = t.clsOf s := by
  cases t <;> simp [Target.clsOf, r.icls]

theorem R.methods {s a : State} (r : R s a) (c : Nat) : methodsOf a c = methodsOf s c := by
  rw [methodsOf_eq, methodsOf_eq, r.info]

theorem WF.clsOf_lt {s : State} (h : WF s) (t : Target) (hv : t.valid s = true) : t.clsOf s < s.ncls := by
  cases t with
  | cls c => simpa [Target.valid, Target.clsOf] using hv
  | inst i => exact h.icls_lt i (by simpa [Target.valid] using hv)

theorem lookT_eq {s a : State} (h : WF s) (r : R s a) (sl : Slot) (t : Target) (hv : t.valid s = true) :
    lookT implSem s sl t = lookT specSem a sl t := by
  cases t with
  | cls c => exact look_eq h r sl c (by simpa [Target.valid] using hv)
  | inst i =>
    have hi : i < s.ninst := by simpa [Target.valid] using hv
    show instLookupWith implSem.look s sl i = instLookupWith specSem.look a sl i
    unfold instLookupWith
    rw [r.idict, r.icls, look_eq h r sl _ (h.icls_lt i hi)]

theorem getG_eq {s a : State} (h : WF s) (r : R s a) (k : Setting) (t : Target) :
    getG implSem s k t = getG specSem a k t := by
  unfold getG
  rw [r.valid t, r.clsOf t, r.info, r.dft, r.na]
  by_cases hv : t.valid s = true
  · have hc := h.clsOf_lt t hv
    simp only [hv, Bool.not_true, Bool.false_eq_true, if_false]
    cases k with
    | na => rfl
    | slot sl =>
      cases sl with
      | fs => simp only [look_eq h r .fs _ hc]
      | rm => simp only [lookT_eq h r .rm t hv]
      | jq => simp only [lookT_eq h r .jq t hv]
      | rf => simp only [lookT_eq h r .rf t hv]
  · simp [hv]

theorem R_setCd {s a : State} (r : R s a) (c : Nat) (sl : Slot) (v w : Option PyVal)
    (hvw : v = match (s.info c).body sl with
      | some d => some (w.getD d)
      | none => w) : R (s.setCd c sl v) (a.setCd c sl w) := by
  refine ⟨r.dft, r.ncls, r.info, r.ninst, r.icls, r.idict, r.ianim, r.na, ?_⟩
  intro k hk t
  show (if k = c ∧ t = sl then v else s.cd k t) = match (s.info k).body t with
    | some d => some ((if k = c ∧ t = sl then w else a.cd k t).getD d)
    | none => (if k = c ∧ t = sl then w else a.cd k t)
  by_cases hx : k = c ∧ t = sl
  · obtain ⟨rfl, rfl⟩ := hx
    simp only [and_self, if_true]
    exact hvw
  · simp only [hx, if_false]
    exact r.cd k hk t

/-- storing a value: same store on both sides -/
theorem R_store {s a : State} (r : R s a) (c : Nat) (sl : Slot) (v : PyVal) :
    R (s.setCd c sl (some v)) (a.setCd c sl (some v)) := by
  apply R_setCd r
  cases (s.info c).body sl <;> rfl

theorem R_setId {s a : State} (r : R s a) (i : Nat) (sl : Slot) (v : Option PyVal) :
    R (s.setId i sl v) (a.setId i sl v) := by
  refine ⟨r.dft, r.ncls, r.info, r.ninst, r.icls, ?_, r.ianim, r.na, r.cd⟩
  show (fun k t => if k = i ∧ t = sl then v else a.idict k t) = (fun k t => if k = i ∧ t = sl then v else s.idict k t)
  rw [r.idict]

theorem R_storeT {s a : State} (r : R s a) (t : Target) (sl : Slot) (v : PyVal) :
    R (storeT s sl t (some v)) (storeT a sl t (some v)) := by
  cases t with
  | cls c => exact R_store r c sl v
  | inst i => exact R_setId r i sl _

theorem R_na {s a : State} (r : R s a) (v : PyVal) : R { s with na := v } { a with na := v } :=
  ⟨r.dft, r.ncls, r.info, r.ninst, r.icls, r.idict, r.ianim, rfl, r.cd⟩

theorem R_newInst {s a : State} (r : R s a) (c : Nat) (an : Bool) : R (newInst s c an) (newInst a c an) := by
  refine ⟨r.dft, r.ncls, r.info, ?_, ?_, ?_, ?_, r.na, r.cd⟩
  · show a.ninst + 1 = s.ninst + 1
    rw [r.ninst]
  · show (fun k => if k = a.ninst then c else a.icls k) = (fun k => if k = s.ninst then c else s.icls k)
    rw [r.ninst, r.icls]
  · show (fun k t => if k = a.ninst then none else a.idict k t) = (fun k t => if k = s.ninst then none else s.idict k t)
    rw [r.ninst, r.idict]
  · show (fun k => if k = a.ninst then an else a.ianim k) = (fun k => if k = s.ninst then an else s.ianim k)
    rw [r.ninst, r.ianim]

theorem R_newClass {s a : State} (r : R s a) (inf : Info) :
    R (newClass implSem s inf) (newClass specSem a inf) := by
  refine ⟨r.dft, ?_, ?_, r.ninst, r.icls, r.idict, r.ianim, r.na, ?_⟩
  · show a.ncls + 1 = s.ncls + 1
    rw [r.ncls]
  · show (fun k => if k = a.ncls then inf else a.info k) = (fun k => if k = s.ncls then inf else s.info k)
    rw [r.ncls, r.info]
  · intro c hc sl
    show (if c = s.ncls then inf.body sl else s.cd c sl) =
      match (if c = s.ncls then inf else s.info c).body sl with
      | some d => some ((if c = a.ncls then none else a.cd c sl).getD d)
      | none => (if c = a.ncls then none else a.cd c sl)
    rw [r.ncls]
    by_cases hx : c = s.ncls
    · simp only [hx, if_true]
      cases inf.body sl <;> rfl
    · simp only [hx, if_false]
      apply r.cd c _ sl
      have : c < s.ncls + 1 := hc
      omega

/-- related outcomes of a setter / deleter -/
def RelE : Except Err State → Except Err State → Prop
  | .ok s', .ok a' => R s' a'
  | .error e, .error e' => e = e'
  | _, _ => False

theorem unsetRm_rel {s a : State} (h : WF s) (r : R s a) (c : Nat) (hc : c < s.ncls) :
    RelE (implSem.unsetRm s c) (specSem.unsetRm a c) := by
  show RelE (unsetRmCls s c) (match methodsOf a c with
    | none => .error .AttributeError
    | some ms => if ms.isEmpty then .ok a else .ok (a.setCd c .rm none))
  unfold unsetRmCls
  rw [r.methods c]
  cases hm : methodsOf s c with
  | none => exact rfl
  | some ms =>
    by_cases he : ms.isEmpty = true
    · simp only [he, if_true]; exact r
    · simp only [he]
      have hne : methodsI s.info c ≠ some [] := by
        rw [← methodsOf_eq, hm]
        intro hx
        injection hx with hx
        subst hx
        simp at he
      cases hd : (s.info c).dflt with
      | some d =>
        have hdo : defaultOf s c = some d := by
          obtain ⟨rest, hmro, _⟩ := h.stat.mro_shape c hc
          unfold defaultOf clsAttr State.mro
          rw [hmro, List.findSome?_cons, hd]
        simp only [Option.isSome_some, if_true, hdo]
        show R _ _
        apply R_setCd r
        rw [h.stat.dflt_body c hc d hd]
        rfl
      | none =>
        simp only [Option.isSome_none, Bool.false_eq_true, if_false]
        show R _ _
        apply R_setCd r
        rw [h.stat.body_dflt c hc hne hd]


theorem RelE_err (e : Err) : RelE (.error e) (.error e) := rfl

theorem setG_rel {s a : State} (h : WF s) (r : R s a) (k : Setting) (t : Target) (v : PyVal) :
    RelE (setG implSem s k t v) (setG specSem a k t v) := by
  unfold setG
  rw [r.valid t, r.clsOf t, r.methods]
  have hi : (a.info (t.clsOf s)).iterm = (s.info (t.clsOf s)).iterm := by rw [r.info]
  have hj : a.dft.jqMax = s.dft.jqMax := by rw [r.dft]
  rw [hi, hj]
  by_cases hv : t.valid s = true
  · simp only [hv, Bool.not_true, Bool.false_eq_true, if_false]
    cases k with
    | na =>
      simp only []
      split
      · exact rfl
      · cases t with
        | inst i => exact rfl
        | cls c =>
          simp only []
          cases checkNa v with
          | some e => exact rfl
          | none => exact R_na r v
    | slot sl =>
      cases sl with
      | fs =>
        cases t with
        | inst i => exact rfl
        | cls c =>
          simp only []
          cases checkBool v with
          | some e => exact rfl
          | none => exact R_store r c .fs v
      | rm =>
        simp only []
        cases rmAct (methodsOf s (t.clsOf s)) v with
        | reject e => exact rfl
        | store x => exact R_storeT r t .rm _
        | unset =>
          cases t with
          | cls c => exact unsetRm_rel h r c (by simpa [Target.valid] using hv)
          | inst i => exact R_setId r i .rm none
      | jq =>
        simp only []
        split
        · exact rfl
        · cases checkJq s.dft.jqMax v with
          | some e => exact rfl
          | none => exact R_storeT r t .jq _
      | rf =>
        simp only []
        split
        · exact rfl
        · cases checkBool v with
          | some e => exact rfl
          | none => exact R_storeT r t .rf _
  · simp only [hv]
    exact rfl

theorem R_delT {s a : State} (r : R s a) (t : Target) (hv : t.valid s = true) (sl : Slot)
    (hb : ∀ c, c < s.ncls → (s.info c).body sl = none) :
    R (storeT s sl t none) (storeT a sl t none) := by
  cases t with
  | inst i => exact R_setId r i sl none
  | cls c =>
    apply R_setCd r
    rw [hb c (by simpa [Target.valid] using hv)]

theorem delG_rel {s a : State} (h : WF s) (r : R s a) (k : Setting) (t : Target) :
    RelE (delG implSem s k t) (delG specSem a k t) := by
  unfold delG
  rw [r.valid t, r.clsOf t]
  have hi : (a.info (t.clsOf s)).iterm = (s.info (t.clsOf s)).iterm := by rw [r.info]
  have hn : a.dft.na = s.dft.na := by rw [r.dft]
  rw [hi, hn]
  by_cases hv : t.valid s = true
  · simp only [hv, Bool.not_true, Bool.false_eq_true, if_false]
    cases k with
    | na =>
      simp only []
      split
      · exact rfl
      · cases t with
        | inst i => exact rfl
        | cls c => exact R_na r _
    | slot sl =>
      cases sl with
      | fs => exact rfl
      | rm => exact setG_rel h r _ t _
      | jq =>
        simp only []
        split
        · exact rfl
        · exact R_delT r t hv .jq h.stat.body_jq
      | rf =>
        simp only []
        split
        · exact rfl
        · exact R_delT r t hv .rf h.stat.body_rf
  · simp only [hv]
    exact rfl

theorem effMethod_eq {s a : State} (h : WF s) (r : R s a) (i : Nat) (ov : PyVal) :
    effMethod implSem s i ov = effMethod specSem a i ov := by
  unfold effMethod
  rw [r.ninst, r.icls, r.methods]
  by_cases hi : i < s.ninst
  · have : instLookupWith implSem.look s .rm i = instLookupWith specSem.look a .rm i :=
      lookT_eq h r .rm (.inst i) (by simpa [Target.valid] using hi)
    rw [this]
  · simp [hi]

theorem usedG_eq {s a : State} (h : WF s) (r : R s a) (i : Nat) (ov : PyVal) (e : Entry) :
    usedG implSem s i ov e = usedG specSem a i ov e := by
  have hok : entryArgOk a i e ov = entryArgOk s i e ov := by
    unfold entryArgOk
    rw [r.icls, r.methods]
  unfold usedG
  rw [hok, r.ninst, r.icls, r.ianim, r.info, r.dft, effMethod_eq h r i ov]

theorem usedFramesG_eq {s a : State} (h : WF s) (r : R s a) (i : Nat) (ov : PyVal) (e : Entry) :
    usedFramesG implSem s i ov e = usedFramesG specSem a i ov e := by
  unfold usedFramesG
  rw [usedG_eq h r i ov e]

theorem dumpG_eq {s a : State} (h : WF s) (r : R s a) : dumpG implSem s = dumpG specSem a := by
  unfold dumpG
  rw [r.ncls, r.ninst]
  congr 1
  · apply List.map_congr_left
    intro c _
    apply List.map_congr_left
    intro k _
    exact getG_eq h r k _
  · apply List.map_congr_left
    intro c _
    apply List.map_congr_left
    intro k _
    exact getG_eq h r k _

theorem exc_rel {s a : State} (r : R s a) (x y : Except Err State) (hxy : RelE x y) :
    R (exc s x).1 (exc a y).1 ∧ (exc s x).2 = (exc a y).2 := by
  cases x with
  | ok s' =>
    cases y with
    | ok a' => exact ⟨hxy, rfl⟩
    | error e => exact hxy.elim
  | error e =>
    cases y with
    | ok a' => exact hxy.elim
    | error e' =>
      have : e = e' := hxy
      subst this
      exact ⟨r, rfl⟩

/-- one operation: the states stay related and the caller observes the same thing -/
theorem step_refines {s a : State} (h : WF s) (r : R s a) (op : Op) :
    R (step s op).1 (specStep a op).1 ∧ (step s op).2 = (specStep a op).2 := by
  cases op with
  | nc p d dm =>
    show R (stepG implSem s (.nc p d dm)).1 (stepG specSem a (.nc p d dm)).1 ∧ _ = (stepG specSem a (.nc p d dm)).2
    simp only [stepG]
    rw [r.ncls]
    have hu : userInfo a p d dm = userInfo s p d dm := by
      unfold userInfo State.mro
      rw [r.ncls, r.info]
    rw [hu]
    split
    · exact ⟨R_newClass r _, rfl⟩
    · exact ⟨r, rfl⟩
  | ni c an =>
    show R (stepG implSem s (.ni c an)).1 (stepG specSem a (.ni c an)).1 ∧ _ = (stepG specSem a (.ni c an)).2
    simp only [stepG]
    rw [r.ncls, r.info, r.ninst]
    split
    · exact ⟨r, rfl⟩
    · split
      · exact ⟨r, rfl⟩
      · exact ⟨R_newInst r c an, rfl⟩
  | set k t v => exact exc_rel r _ _ (setG_rel h r k t v)
  | del k t => exact exc_rel r _ _ (delG_rel h r k t)
  | get k t =>
    show R (stepG implSem s (.get k t)).1 (stepG specSem a (.get k t)).1 ∧ _ = (stepG specSem a (.get k t)).2
    simp only [stepG]
    rw [getG_eq h r k t]
    split <;> exact ⟨r, rfl⟩
  | rend i ov e =>
    show R (stepG implSem s (.rend i ov e)).1 (stepG specSem a (.rend i ov e)).1 ∧ _ = (stepG specSem a (.rend i ov e)).2
    simp only [stepG]
    rw [usedFramesG_eq h r i ov e]
    split <;> exact ⟨r, rfl⟩
  | dump =>
    show R (stepG implSem s .dump).1 (stepG specSem a .dump).1 ∧ _ = (stepG specSem a .dump).2
    simp only [stepG]
    rw [dumpG_eq h r]
    exact ⟨r, rfl⟩

/-- every history -/
theorem run_refines {s a : State} (h : WF s) (r : R s a) (ops : List Op) :
    R (run s ops).1 (specRun a ops).1 ∧ (run s ops).2 = (specRun a ops).2 := by
  induction ops generalizing s a with
  | nil => exact ⟨r, rfl⟩
  | cons op ops ih =>
    obtain ⟨r1, o1⟩ := step_refines h r op
    obtain ⟨r2, o2⟩ := ih (step_wf h op) r1
    refine ⟨r2, ?_⟩
    show (stepG implSem s op).2 :: _ = (stepG specSem a op).2 :: _
    rw [show (stepG implSem s op).2 = (stepG specSem a op).2 from o1]
    congr 1


/-! ## the initial state: the library's classes -/

/-- what the translator's table must satisfy (checked by `decide` on the generated table) -/
def libClassOK (n : Nat) (l : LibClass) : Bool :=
  (match l.parent with
    | some p => decide (p < n)
    | none => l.methods.isSome) &&
  (match l.dflt with
    | some d => l.ownRm == some (some d)
    | none => l.ownRm.isNone || (match l.methods with
      | some [] => true
      | _ => false))

def libOK : Nat → List LibClass → Bool
  | _, [] => true
  | n, l :: ls => libClassOK n l && libOK (n + 1) ls

theorem libInfo_ok {s : State} (l : LibClass) (h : libClassOK s.ncls l = true) : ClassOK s (libInfo s l) := by
  unfold libClassOK at h
  simp only [Bool.and_eq_true] at h
  obtain ⟨h1, h2⟩ := h
  have hmro : (libInfo s l).mro = [s.ncls] ∨ ∃ p, p < s.ncls ∧ (libInfo s l).mro = s.ncls :: s.mro p := by
    cases hp : l.parent with
    | none => left; simp [libInfo, hp]
    | some p =>
      right
      rw [hp] at h1
      exact ⟨p, by simpa using h1, by simp [libInfo, hp]⟩
  refine ⟨hmro, ?_, rfl, rfl, ?_, ?_⟩
  · cases hp : l.parent with
    | none => rw [hp] at h1; left; exact h1
    | some p =>
      right
      rw [hp] at h1
      exact ⟨p, by simpa using h1, by simp [libInfo, hp]⟩
  · intro d hd
    have hd' : l.dflt = some d := hd
    rw [hd'] at h2
    have : l.ownRm = some (some d) := by simpa using h2
    simp [libInfo, this]
  · intro hd
    have hd' : l.dflt = none := hd
    rw [hd'] at h2
    simp only [Bool.or_eq_true] at h2
    rcases h2 with h2 | h2
    · left
      have : l.ownRm = none := by simpa using h2
      simp [libInfo, this]
    · right
      show l.methods = some []
      split at h2
      · assumption
      · cases h2

theorem libInfo_R {s a : State} (r : R s a) (l : LibClass) : libInfo a l = libInfo s l := by
  unfold libInfo State.mro
  rw [r.ncls, r.info]

theorem foldl_init {s a : State} (h : WF s) (r : R s a) (lib : List LibClass) (ok : libOK s.ncls lib = true) :
    WF (lib.foldl (fun s l => newClass implSem s (libInfo s l)) s) ∧
    R (lib.foldl (fun s l => newClass implSem s (libInfo s l)) s)
      (lib.foldl (fun s l => newClass specSem s (libInfo s l)) a) := by
  induction lib generalizing s a with
  | nil => exact ⟨h, r⟩
  | cons l ls ih =>
    simp only [libOK, Bool.and_eq_true] at ok
    simp only [List.foldl_cons]
    rw [libInfo_R r l]
    exact ih (newClass_wf h _ (libInfo_ok l ok.1)) (R_newClass r _) ok.2

theorem empty_wf (d : Defaults) : WF (State.empty d) := by
  refine ⟨⟨?_, ?_, ?_, ?_, ?_, ?_⟩, ?_, ?_⟩ <;> intro c hc <;> exact absurd hc (Nat.not_lt_zero _)

theorem empty_R (d : Defaults) : R (State.empty d) (State.empty d) := by
  refine ⟨rfl, rfl, rfl, rfl, rfl, rfl, rfl, rfl, ?_⟩
  intro c hc
  exact absurd hc (Nat.not_lt_zero _)

/-- after import: the table is well-formed and represents "nothing set anywhere" -/
theorem init_ok (d : Defaults) (lib : List LibClass) (ok : libOK 0 lib = true) :
    WF (mkInit implSem d lib) ∧ R (mkInit implSem d lib) (mkInit specSem d lib) :=
  foldl_init (empty_wf d) (empty_R d) lib ok


/-! ## the tree in parent-pointer form, and frame lemmas -/

theorem WFI.mro_parent {n info} (h : WFI n info) (c : Nat) (hc : c < n) :
    ((info c).mro.tail.head? = none ∧ (info c).mro = [c]) ∨
    ∃ p, p < c ∧ (info c).mro.tail.head? = some p ∧ (info c).mro = c :: (info p).mro := by
  obtain ⟨rest, hm, hr⟩ := h.mro_shape c hc
  rcases hr with rfl | ⟨p, hp, rfl⟩
  · left; rw [hm]; exact ⟨rfl, rfl⟩
  · right
    obtain ⟨rest', hm', _⟩ := h.mro_shape p (by omega)
    refine ⟨p, hp, ?_, hm⟩
    rw [hm, hm']; rfl

/-- own entry, else the parent's answer: attribute lookup in parent-pointer form -/
theorem clsLookup_unfold {s : State} (h : WFI s.ncls s.info) (sl : Slot) (c : Nat) (hc : c < s.ncls) :
    clsLookup s sl c = match s.cd c sl with
      | some v => some v
      | none => match s.parent c with
        | some p => clsLookup s sl p
        | none => none := by
  unfold clsLookup clsAttr State.parent State.mro
  rcases h.mro_parent c hc with ⟨hp, hm⟩ | ⟨p, _, hp, hm⟩
  · rw [hp, hm]
    simp only [List.findSome?_cons, List.findSome?_nil]
    cases s.cd c sl <;> rfl
  · rw [hp, hm]
    simp only [List.findSome?_cons]
    cases s.cd c sl <;> rfl

theorem WFI.parent_lt {n info} (h : WFI n info) (c p : Nat) (hc : c < n)
    (hp : (info c).mro.tail.head? = some p) : p < c ∧ (info c).mro = c :: (info p).mro := by
  rcases h.mro_parent c hc with ⟨hp', _⟩ | ⟨q, hq, hp', hm⟩
  · rw [hp'] at hp; cases hp
  · rw [hp'] at hp
    injection hp with hp
    subst hp
    exact ⟨hq, hm⟩

theorem clsLookup_setCd_slot (s : State) (c : Nat) (sl sl' : Slot) (w : Option PyVal) (d : Nat)
    (hne : sl' ≠ sl) : clsLookup (s.setCd c sl w) sl' d = clsLookup s sl' d := by
  unfold clsLookup clsAttr
  apply findSome?_congr_mem
  intro k _
  show (if k = c ∧ sl' = sl then w else s.cd k sl') = s.cd k sl'
  rw [if_neg (fun hx => hne hx.2)]

theorem clsLookup_setCd_not_mem (s : State) (c : Nat) (sl sl' : Slot) (w : Option PyVal) (d : Nat)
    (hnm : c ∉ s.mro d) : clsLookup (s.setCd c sl w) sl' d = clsLookup s sl' d := by
  unfold clsLookup clsAttr
  apply findSome?_congr_mem
  intro k hk
  show (if k = c ∧ sl' = sl then w else s.cd k sl') = s.cd k sl'
  rw [if_neg]
  intro hx
  apply hnm
  rw [← hx.1]
  exact hk

/-- `d` is `c` or a descendant of `c` with no entry of its own anywhere on the way up to `c` -/
inductive Follows (s : State) (sl : Slot) (c : Nat) : Nat → Prop
  | self : Follows s sl c c
  | up (d p : Nat) : d < s.ncls → d ≠ c → s.cd d sl = none → s.parent d = some p →
      Follows s sl c p → Follows s sl c d

theorem Follows.mem_mro {s : State} (h : WFI s.ncls s.info) {sl : Slot} {c d : Nat} (hc : c < s.ncls)
    (f : Follows s sl c d) : c ∈ s.mro d := by
  induction f with
  | self =>
    obtain ⟨rest, hm, _⟩ := h.mro_shape c hc
    unfold State.mro; rw [hm]; simp
  | up d p hd _ _ hp _ ih =>
    have := (h.parent_lt d p hd hp).2
    unfold State.mro at ih ⊢
    rw [this]
    exact List.mem_cons_of_mem _ ih

/-- whoever follows `c` reads what `c` reads, after any change of `c`'s own entry -/
theorem lookup_follows {s : State} (h : WFI s.ncls s.info) (sl : Slot) (c : Nat) (w : Option PyVal)
    {d : Nat} (f : Follows s sl c d) :
    clsLookup (s.setCd c sl w) sl d = clsLookup (s.setCd c sl w) sl c := by
  induction f with
  | self => rfl
  | up d p hd hne hnone hp _ ih =>
    rw [clsLookup_unfold (s := s.setCd c sl w) h sl d hd]
    have : (s.setCd c sl w).cd d sl = none := by
      show (if d = c ∧ sl = sl then w else s.cd d sl) = none
      rw [if_neg (fun hx => hne hx.1)]
      exact hnone
    rw [this]
    have : (s.setCd c sl w).parent d = some p := hp
    rw [this]
    exact ih

/-- whoever does not follow `c` is unaffected by a change of `c`'s own entry -/
theorem lookup_not_follows {s : State} (h : WFI s.ncls s.info) (sl : Slot) (c : Nat) (w : Option PyVal) :
    ∀ d, d < s.ncls → ¬ Follows s sl c d → clsLookup (s.setCd c sl w) sl d = clsLookup s sl d := by
  intro d
  induction d using Nat.strongRecOn with
  | _ d ih =>
    intro hd hnf
    have hne : d ≠ c := fun hx => hnf (hx ▸ Follows.self)
    rw [clsLookup_unfold (s := s.setCd c sl w) h sl d hd, clsLookup_unfold h sl d hd]
    have : (s.setCd c sl w).cd d sl = s.cd d sl := by
      show (if d = c ∧ sl = sl then w else s.cd d sl) = s.cd d sl
      rw [if_neg (fun hx => hne hx.1)]
    rw [this]
    cases hcd : s.cd d sl with
    | some v => rfl
    | none =>
      show (match s.parent d with
        | some p => clsLookup (s.setCd c sl w) sl p
        | none => none) = _
      cases hp : s.parent d with
      | none => rfl
      | some p =>
        have hlt := (h.parent_lt d p hd hp).1
        exact ih p hlt (by omega) (fun fp => hnf (Follows.up d p hd hne hcd hp fp))

/-- the class's own reading after its entry was replaced -/
theorem lookup_self {s : State} (h : WFI s.ncls s.info) (sl : Slot) (c : Nat) (hc : c < s.ncls)
    (w : Option PyVal) :
    clsLookup (s.setCd c sl w) sl c = match w with
      | some v => some v
      | none => match s.parent c with
        | some p => clsLookup s sl p
        | none => none := by
  rw [clsLookup_unfold (s := s.setCd c sl w) h sl c hc]
  have : (s.setCd c sl w).cd c sl = w := by
    show (if c = c ∧ sl = sl then w else s.cd c sl) = w
    rw [if_pos ⟨rfl, rfl⟩]
  rw [this]
  cases w with
  | some v => rfl
  | none =>
    show (match s.parent c with
      | some p => clsLookup (s.setCd c sl none) sl p
      | none => none) = _
    cases hp : s.parent c with
    | none => rfl
    | some p =>
      have hlt := (h.parent_lt c p hc hp).1
      exact clsLookup_setCd_not_mem s c sl sl none p (h.not_mem_mro_of_lt c p (by omega) hlt)


/-! ## what exactly an accepted setter / deleter stores -/

theorem valid_cls {s : State} {c : Nat} (h : ¬((!Target.valid s (.cls c)) = true)) : c < s.ncls := by
  simpa [Target.valid] using h

/-- an accepted class-level `set` that is not a render-method unset stores exactly the value -/
theorem setG_cls_store {s s' : State} {sl : Slot} {c : Nat} {v : PyVal}
    (hs : setG implSem s (.slot sl) (.cls c) v = .ok s')
    (hv : sl = .rm → v ≠ .none ∧ v ≠ .str "") : c < s.ncls ∧ s' = s.setCd c sl (some v) := by
  unfold setG at hs
  split at hs
  · cases hs
  · rename_i hval
    refine ⟨valid_cls hval, ?_⟩
    cases sl with
    | fs =>
      simp only [] at hs
      split at hs
      · cases hs
      · injection hs with hs; exact hs.symm
    | rm =>
      simp only [] at hs
      split at hs
      · cases hs
      · rename_i x hx
        injection hs with hs
        rw [(rmAct_store_nonempty hx).2]
        exact hs.symm
      · rename_i hx
        exfalso
        obtain ⟨h1, h2⟩ := hv rfl
        unfold rmAct at hx
        split at hx
        · exact h1 rfl
        · split at hx
          · cases hx
          · split at hx
            · split at hx
              · rename_i he; subst he; exact h2 rfl
              · cases hx
            · cases hx
        · cases hx
    | jq =>
      simp only [] at hs
      split at hs
      · cases hs
      · split at hs
        · cases hs
        · injection hs with hs; exact hs.symm
    | rf =>
      simp only [] at hs
      split at hs
      · cases hs
      · split at hs
        · cases hs
        · injection hs with hs; exact hs.symm

/-- class form of `set_render_method(None)` -/
theorem setG_rm_none_cls {s s' : State} {c : Nat}
    (hs : setG implSem s (.slot .rm) (.cls c) .none = .ok s') : c < s.ncls ∧ unsetRmCls s c = .ok s' := by
  unfold setG at hs
  split at hs
  · cases hs
  · rename_i hval
    exact ⟨valid_cls hval, hs⟩

theorem unsetRmCls_shape {s s' : State} (h : WF s) {c : Nat} (hc : c < s.ncls)
    (hs : unsetRmCls s c = .ok s') :
    (methodsOf s c = some [] ∧ s' = s) ∨
    (∃ d, (s.info c).body .rm = some (.str d) ∧ s' = s.setCd c .rm (some (.str d))) ∨
    ((s.info c).body .rm = none ∧ s' = s.setCd c .rm none) := by
  unfold unsetRmCls at hs
  split at hs
  · cases hs
  · rename_i ms hms
    split at hs
    · rename_i he
      injection hs with hs
      left
      refine ⟨?_, hs.symm⟩
      rw [hms]
      cases ms with
      | nil => rfl
      | cons x xs => simp at he
    · rename_i he
      have hne : methodsI s.info c ≠ some [] := by
        rw [← methodsOf_eq, hms]
        intro hx
        injection hx with hx
        subst hx
        simp at he
      right
      cases hd : (s.info c).dflt with
      | some d =>
        have hdo : defaultOf s c = some d := by
          obtain ⟨rest, hmro, _⟩ := h.stat.mro_shape c hc
          unfold defaultOf clsAttr State.mro
          rw [hmro, List.findSome?_cons, hd]
        simp only [hd, Option.isSome_some, if_true, hdo] at hs
        injection hs with hs
        left
        exact ⟨d, h.stat.dflt_body c hc d hd, hs.symm⟩
      | none =>
        simp only [hd, Option.isSome_none, Bool.false_eq_true, if_false] at hs
        injection hs with hs
        right
        exact ⟨h.stat.body_dflt c hc hne hd, hs.symm⟩

theorem delG_cls_shape {s s' : State} {sl : Slot} {c : Nat} (hsl : sl = .jq ∨ sl = .rf)
    (hs : delG implSem s (.slot sl) (.cls c) = .ok s') : c < s.ncls ∧ s' = s.setCd c sl none := by
  unfold delG at hs
  split at hs
  · cases hs
  · rename_i hval
    refine ⟨valid_cls hval, ?_⟩
    rcases hsl with rfl | rfl
    · simp only [] at hs
      split at hs
      · cases hs
      · injection hs with hs; exact hs.symm
    · simp only [] at hs
      split at hs
      · cases hs
      · injection hs with hs; exact hs.symm

/-- instance-level accepted operations only touch that instance's dict entry of that setting -/
theorem setG_inst_shape {s s' : State} {sl : Slot} {i : Nat} {v : PyVal}
    (hs : setG implSem s (.slot sl) (.inst i) v = .ok s') :
    i < s.ninst ∧ ∃ w, s' = s.setId i sl w ∧ (v = .none → w = none) ∧ (sl ≠ .rm → w = some v) := by
  unfold setG at hs
  split at hs
  · cases hs
  · rename_i hval
    refine ⟨by simpa [Target.valid] using hval, ?_⟩
    cases sl with
    | fs => simp only [] at hs; cases hs
    | rm =>
      simp only [] at hs
      split at hs
      · cases hs
      · rename_i x hx
        injection hs with hs
        refine ⟨_, hs.symm, ?_, fun hne => absurd rfl hne⟩
        intro hv
        rw [(rmAct_store_nonempty hx).2] at hv
        cases hv
      · injection hs with hs
        exact ⟨_, hs.symm, fun _ => rfl, fun hne => absurd rfl hne⟩
    | jq =>
      simp only [] at hs
      split at hs
      · cases hs
      · split at hs
        · cases hs
        · rename_i hchk
          injection hs with hs
          refine ⟨_, hs.symm, ?_, fun _ => rfl⟩
          intro hv; subst hv; simp [checkJq] at hchk
    | rf =>
      simp only [] at hs
      split at hs
      · cases hs
      · split at hs
        · cases hs
        · rename_i hchk
          injection hs with hs
          refine ⟨_, hs.symm, ?_, fun _ => rfl⟩
          intro hv; subst hv; simp [checkBool] at hchk

theorem delG_inst_shape {s s' : State} {sl : Slot} {i : Nat}
    (hs : delG implSem s (.slot sl) (.inst i) = .ok s') : i < s.ninst ∧ s' = s.setId i sl none := by
  cases sl with
  | rm =>
    have hs' : setG implSem s (.slot .rm) (.inst i) .none = .ok s' := by
      unfold delG at hs
      split at hs
      · cases hs
      · exact hs
    obtain ⟨hi, w, hw, hn, _⟩ := setG_inst_shape hs'
    exact ⟨hi, by rw [hw, hn rfl]⟩
  | fs =>
    unfold delG at hs
    split at hs <;> cases hs
  | jq =>
    unfold delG at hs
    split at hs
    · cases hs
    · rename_i hval
      refine ⟨by simpa [Target.valid] using hval, ?_⟩
      simp only [] at hs
      split at hs
      · cases hs
      · injection hs with hs; exact hs.symm
  | rf =>
    unfold delG at hs
    split at hs
    · cases hs
    · rename_i hval
      refine ⟨by simpa [Target.valid] using hval, ?_⟩
      simp only [] at hs
      split at hs
      · cases hs
      · injection hs with hs; exact hs.symm


end TIV.C20
