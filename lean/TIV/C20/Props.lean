import TIV.C20.Proofs
import TIV.C20.Drive
/-!
# C20 — property theorems

`s` ranges over every well-formed state of the model of the code (`WF`, every state reachable
from the imported package by any history is one: `reachable_wf`), i.e. over every class tree of
any depth and branching, every set of instances and every content of the class / instance dicts.
`step`, `run` = the code's model (`implSem`); `specStep`, `specRun` = the specification machine
(`specSem`: the class table holds only what the history set and did not unset; the effective
value is read off the ancestry).  The generated table `libOfGenerated` / `defaultsOfGenerated`
is what the translator read from the imported package on this run.
-/
namespace TIV.C20

/-! ## translator ties -/

/-- getter defaults, the JPEG quality bound and the global limit's default, as the code has them -/
theorem generated_defaults :
    defaultsOfGenerated =
      { jq := -1, rf := true, fsMeta := false, jqMax := 95, na := 2097152, animName := "anim", wholeName := "whole" } := by
  decide

/-- the library's own classes form a well-formed table: single inheritance with parents first,
    `_render_methods` defined at the root, a class that defines `_default_render_method` starts
    with `_render_method` equal to it, and no other class of a style with render methods defines
    `_render_method` -/
theorem generated_lib_ok : libOK 0 libOfGenerated = true := by decide

/-- the method names are lower-case ASCII without `k` (so Python's `str.lower` and the model's
    ASCII lower-casing agree on membership, see docs) -/
theorem generated_methods_ascii :
    ∀ l ∈ libOfGenerated, ∀ ms, l.methods = some ms → ∀ m ∈ ms,
      ∀ ch ∈ m.toList, ch.toLower = ch ∧ ch ≠ 'k' ∧ ch.toNat < 128 := by decide

/-- the two graphics styles start with the documented default method `lines`, the others have none -/
theorem generated_default_methods :
    libOfGenerated.map (fun l => (l.name, l.dflt)) =
      [("BaseImage", none), ("GraphicsImage", none), ("TextImage", none),
       ("ITerm2Image", some "lines"), ("KittyImage", some "lines"), ("BlockImage", none)] := by decide

/-- the state after `import term_image` -/
def init : State := mkInit implSem defaultsOfGenerated libOfGenerated
/-- the specification's state after import: nothing set anywhere -/
def specInit : State := mkInit specSem defaultsOfGenerated libOfGenerated

/-! ## every reachable state is well-formed -/

theorem reachable_wf (ops : List Op) : WF (run init ops).1 :=
  run_wf (init_ok _ _ generated_lib_ok).1 ops

/-! ## resolve_spec — effective = own, else nearest ancestor's, else default -/

/-- FOR EVERY HISTORY (class creations anywhere in the tree, instance creations, sets, unsets,
    gets, renders, dumps — on classes and instances, valid or invalid values) the model of the
    code and the specification machine produce the same observations, operation by operation. -/
theorem resolve_spec (ops : List Op) : (run init ops).2 = (specRun specInit ops).2 :=
  (run_refines (init_ok _ _ generated_lib_ok).1 (init_ok _ _ generated_lib_ok).2 ops).2

/-- the same from any well-formed state and any specification state it represents -/
theorem resolve_spec_from {s a : State} (h : WF s) (r : R s a) (ops : List Op) :
    (run s ops).2 = (specRun a ops).2 := (run_refines h r ops).2

/-- what the specification machine reads: the class's own override if the history left one,
    else the value the class body itself defines (its documented default), else whatever its
    parent reads, else nothing (→ the getter's default) -/
theorem spec_lookup_nearest (a : State) (h : WFI a.ncls a.info) (sl : Slot) (c : Nat) (hc : c < a.ncls) :
    specSem.look a sl c = match a.cd c sl with
      | some v => some v
      | none => match (a.info c).body sl with
        | some d => some d
        | none => match a.parent c with
          | some p => specSem.look a sl p
          | none => none := by
  show specLookupL a sl (a.mro c) = _
  unfold State.parent State.mro
  rcases h.mro_parent c hc with ⟨hp, hm⟩ | ⟨p, _, hp, hm⟩
  · rw [hp, hm]
    simp only [specLookupL]
    cases a.cd c sl <;> cases (a.info c).body sl <;> rfl
  · rw [hp, hm]
    simp only [specLookupL]
    cases a.cd c sl <;> cases (a.info c).body sl <;> rfl

/-- the specification starts with no override anywhere -/
theorem spec_init_unset (d : Defaults) (lib : List LibClass) (c : Nat) (sl : Slot) :
    (mkInit specSem d lib).cd c sl = none := by
  unfold mkInit
  suffices ∀ (a : State), (∀ c sl, a.cd c sl = none) →
      ∀ c sl, (lib.foldl (fun s l => newClass specSem s (libInfo s l)) a).cd c sl = none from
    this _ (fun _ _ => rfl) c sl
  induction lib with
  | nil => intro a ha; exact ha
  | cons l ls ih =>
    intro a ha
    apply ih
    intro c sl
    show (if c = a.ncls then none else a.cd c sl) = none
    split
    · rfl
    · exact ha c sl

/-- the same rule on the code's model, in parent-pointer form: own dict entry, else the parent's reading -/
theorem resolve_own_else_parent {s : State} (h : WF s) (sl : Slot) (c : Nat) (hc : c < s.ncls) :
    clsLookup s sl c = match s.cd c sl with
      | some v => some v
      | none => match s.parent c with
        | some p => clsLookup s sl p
        | none => none := clsLookup_unfold h.stat sl c hc

/-- an instance reads its own value if set, otherwise exactly what its class reads -/
theorem resolve_instance (s : State) (sl : Slot) (i : Nat) :
    instLookupWith clsLookup s sl i = match s.idict i sl with
      | some v => some v
      | none => clsLookup s sl (s.icls i) := rfl

/-! ## unset_restores -/

/-- after an accepted class-level unset (`del cls.jpeg_quality`, `del cls.read_from_file`,
    `cls.set_render_method(None)`), the class reads what its parent reads — or, if its own body
    defines the value (the class that defines the default render method), that default —
    and the parent itself reads what it read before -/
theorem unset_restores_class {s s' : State} (h : WF s) (sl : Slot) (c : Nat)
    (hs : delG implSem s (.slot sl) (.cls c) = .ok s') :
    (clsLookup s' sl c = match (s.info c).body sl with
      | some d => some d
      | none => match s.parent c with
        | some p => clsLookup s' sl p
        | none => none) ∧
    ∀ p, s.parent c = some p → clsLookup s' sl p = clsLookup s sl p := by
  have parent_same : ∀ w p, c < s.ncls → s.parent c = some p →
      clsLookup (s.setCd c sl w) sl p = clsLookup s sl p := by
    intro w p hc hp
    have hlt := (h.stat.parent_lt c p hc hp).1
    exact clsLookup_setCd_not_mem s c sl sl w p (h.stat.not_mem_mro_of_lt c p (by omega) hlt)
  have del_case : ∀ (hc : c < s.ncls), (s.info c).body sl = none → s' = s.setCd c sl none →
      (clsLookup s' sl c = match (s.info c).body sl with
        | some d => some d
        | none => match s.parent c with
          | some p => clsLookup s' sl p
          | none => none) ∧
      ∀ p, s.parent c = some p → clsLookup s' sl p = clsLookup s sl p := by
    intro hc hb he
    subst he
    refine ⟨?_, fun p hp => parent_same none p hc hp⟩
    rw [hb, lookup_self h.stat sl c hc none]
    cases hp : s.parent c with
    | none => rfl
    | some p => exact (parent_same none p hc hp).symm
  cases sl with
  | fs =>
    unfold delG at hs
    split at hs <;> cases hs
  | jq =>
    obtain ⟨hc, he⟩ := delG_cls_shape (Or.inl rfl) hs
    exact del_case hc (h.stat.body_jq c hc) he
  | rf =>
    obtain ⟨hc, he⟩ := delG_cls_shape (Or.inr rfl) hs
    exact del_case hc (h.stat.body_rf c hc) he
  | rm =>
    have hs' : setG implSem s (.slot .rm) (.cls c) .none = .ok s' := by
      unfold delG at hs
      split at hs
      · cases hs
      · exact hs
    obtain ⟨hc, hu⟩ := setG_rm_none_cls hs'
    rcases unsetRmCls_shape h hc hu with ⟨hm, rfl⟩ | ⟨d, hb, rfl⟩ | ⟨hb, he⟩
    · refine ⟨?_, fun _ _ => rfl⟩
      rw [clsLookup_unfold h.stat .rm c hc, h.frozen c hc hm]
      cases (s'.info c).body Slot.rm <;> rfl
    · refine ⟨?_, fun p hp => parent_same _ p hc hp⟩
      rw [hb, lookup_self h.stat .rm c hc]
    · exact del_case hc hb he

/-- after an accepted instance-level unset the instance reads exactly what its class reads, and no
    class reads anything different from before -/
theorem unset_restores_instance {s s' : State} (sl : Slot) (i : Nat)
    (hs : delG implSem s (.slot sl) (.inst i) = .ok s') :
    instLookupWith clsLookup s' sl i = clsLookup s' sl (s'.icls i) ∧
    ∀ sl' d, clsLookup s' sl' d = clsLookup s sl' d := by
  obtain ⟨_, rfl⟩ := delG_inst_shape hs
  refine ⟨?_, fun _ _ => rfl⟩
  unfold instLookupWith
  have : (s.setId i sl none).idict i sl = none := by
    show (if i = i ∧ sl = sl then none else s.idict i sl) = none
    rw [if_pos ⟨rfl, rfl⟩]
  rw [this]

/-! ## set_frame -/

/-- an accepted class-level set of value `v` at class `c` (not a render-method unset):
    exactly `c` and its descendants that have no entry of their own on the way up to `c` now read
    `v`; every other class reads what it read before; no other setting, no instance dict and not
    the global limit changes -/
theorem set_frame {s s' : State} (h : WF s) (sl : Slot) (c : Nat) (v : PyVal)
    (hs : setG implSem s (.slot sl) (.cls c) v = .ok s')
    (hv : sl = .rm → v ≠ .none ∧ v ≠ .str "") :
    (∀ d, Follows s sl c d → clsLookup s' sl d = some v) ∧
    (∀ d, d < s.ncls → ¬ Follows s sl c d → clsLookup s' sl d = clsLookup s sl d) ∧
    (∀ sl' d, sl' ≠ sl → clsLookup s' sl' d = clsLookup s sl' d) ∧
    s'.idict = s.idict ∧ s'.na = s.na ∧ s'.info = s.info := by
  obtain ⟨hc, rfl⟩ := setG_cls_store hs hv
  refine ⟨?_, lookup_not_follows h.stat sl c _, ?_, rfl, rfl, rfl⟩
  · intro d f
    rw [lookup_follows h.stat sl c _ f, lookup_self h.stat sl c hc]
  · intro sl' d hne
    exact clsLookup_setCd_slot s c sl sl' _ d hne

/-- in particular ancestors, siblings and unrelated classes — every class that does not have
    `c` in its ancestry — never follow `c` -/
theorem set_frame_outside {s : State} (h : WF s) (sl : Slot) (c d : Nat) (hc : c < s.ncls)
    (hout : c ∉ s.mro d) : ¬ Follows s sl c d :=
  fun f => hout (f.mem_mro h.stat hc)

/-- a proper ancestor of `c` does not have `c` in its ancestry -/
theorem ancestor_outside {s : State} (h : WF s) (c p : Nat) (hc : c < s.ncls) (hp : p ∈ (s.mro c).tail) :
    c ∉ s.mro p := by
  obtain ⟨rest, hm, hlt⟩ := h.stat.mro_head c hc
  have hp' : p ∈ rest := by
    unfold State.mro at hp
    rw [hm] at hp
    exact hp
  have := hlt p hp'
  exact h.stat.not_mem_mro_of_lt c p (by omega) this

/-- the same frame for ANY accepted class-level set or unset: classes that do not follow `c`,
    other settings, instance dicts and the global limit are untouched -/
theorem class_op_frame {s s' : State} (h : WF s) (sl : Slot) (c : Nat)
    (hs : (∃ v, setG implSem s (.slot sl) (.cls c) v = .ok s') ∨ delG implSem s (.slot sl) (.cls c) = .ok s') :
    (∀ d, d < s.ncls → ¬ Follows s sl c d → clsLookup s' sl d = clsLookup s sl d) ∧
    (∀ sl' d, sl' ≠ sl → clsLookup s' sl' d = clsLookup s sl' d) ∧ s'.idict = s.idict := by
  have e : Eff s s' := by
    rcases hs with ⟨v, hs⟩ | hs
    · exact setG_eff _ _ _ hs
    · exact delG_eff _ _ hs
  have key : s' = s ∨ ∃ w, s' = s.setCd c sl w := by
    rcases hs with ⟨v, hs⟩ | hs
    · by_cases hv : sl = .rm → v ≠ .none ∧ v ≠ .str ""
      · exact Or.inr ⟨_, (setG_cls_store hs hv).2⟩
      · have hsl : sl = .rm := by
          by_cases hx : sl = .rm
          · exact hx
          · exact absurd (fun hy => absurd hy hx) hv
        subst hsl
        have hu : unsetRmCls s c = .ok s' ∧ c < s.ncls := by
          unfold setG at hs
          split at hs
          · cases hs
          · rename_i hval
            refine ⟨?_, valid_cls hval⟩
            simp only [] at hs
            split at hs
            · cases hs
            · rename_i x hx
              exfalso
              apply hv
              intro _
              have := (rmAct_store_nonempty hx)
              rw [this.2]
              refine ⟨fun hy => (by cases hy), fun hy => ?_⟩
              injection hy with hy
              exact rmAct_store_ne_empty hx hy
            · exact hs
        rcases unsetRmCls_shape h hu.2 hu.1 with ⟨_, he⟩ | ⟨d, _, he⟩ | ⟨_, he⟩
        · exact Or.inl he
        · exact Or.inr ⟨_, he⟩
        · exact Or.inr ⟨_, he⟩
    · cases sl with
      | fs => unfold delG at hs; split at hs <;> cases hs
      | jq => exact Or.inr ⟨_, (delG_cls_shape (Or.inl rfl) hs).2⟩
      | rf => exact Or.inr ⟨_, (delG_cls_shape (Or.inr rfl) hs).2⟩
      | rm =>
        have hs' : setG implSem s (.slot .rm) (.cls c) .none = .ok s' := by
          unfold delG at hs
          split at hs
          · cases hs
          · exact hs
        obtain ⟨hc, hu⟩ := setG_rm_none_cls hs'
        rcases unsetRmCls_shape h hc hu with ⟨_, he⟩ | ⟨d, _, he⟩ | ⟨_, he⟩
        · exact Or.inl he
        · exact Or.inr ⟨_, he⟩
        · exact Or.inr ⟨_, he⟩
  rcases key with rfl | ⟨w, rfl⟩
  · exact ⟨fun _ _ _ => rfl, fun _ _ _ => rfl, rfl⟩
  · exact ⟨lookup_not_follows h.stat sl c w, fun sl' d hne => clsLookup_setCd_slot s c sl sl' w d hne, rfl⟩

/-- an accepted instance-level set changes that instance's own entry of that setting and nothing
    else: no class reads anything different, other instances and other settings keep their entries -/
theorem set_frame_instance {s s' : State} (sl : Slot) (i : Nat) (v : PyVal)
    (hs : setG implSem s (.slot sl) (.inst i) v = .ok s') :
    (∀ sl' d, clsLookup s' sl' d = clsLookup s sl' d) ∧
    (∀ j sl', (j ≠ i ∨ sl' ≠ sl) → s'.idict j sl' = s.idict j sl') ∧
    s'.na = s.na ∧ s'.icls = s.icls := by
  obtain ⟨_, w, rfl, _, _⟩ := setG_inst_shape hs
  refine ⟨fun _ _ => rfl, ?_, rfl, rfl⟩
  intro j sl' hne
  show (if j = i ∧ sl' = sl then w else s.idict j sl') = s.idict j sl'
  rw [if_neg]
  intro hx
  rcases hne with hne | hne
  · exact hne hx.1
  · exact hne hx.2

/-! ## reject_pure -/

/-- whatever operation raises (invalid value, wrong type, class-only setting written through an
    instance, abstract class instantiated, unknown target) leaves the whole state as it was -/
theorem reject_pure (s : State) (op : Op) (e : Err) (hr : (step s op).2 = .err e) : (step s op).1 = s := by
  cases op with
  | nc p d dm =>
    change (stepG implSem s (.nc p d dm)).2 = _ at hr
    show (stepG implSem s (.nc p d dm)).1 = s
    simp only [stepG] at hr ⊢
    split
    · rename_i hp; rw [if_pos hp] at hr; cases hr
    · rfl
  | ni c an =>
    change (stepG implSem s (.ni c an)).2 = _ at hr
    show (stepG implSem s (.ni c an)).1 = s
    simp only [stepG] at hr ⊢
    split
    · rfl
    · rename_i h1
      split
      · rfl
      · rename_i h2
        rw [if_neg h1, if_neg h2] at hr
        cases hr
  | set k t v =>
    change (exc s (setG implSem s k t v)).2 = _ at hr
    show (exc s (setG implSem s k t v)).1 = s
    cases hx : setG implSem s k t v with
    | ok s' => rw [hx] at hr; cases hr
    | error e' => rfl
  | del k t =>
    change (exc s (delG implSem s k t)).2 = _ at hr
    show (exc s (delG implSem s k t)).1 = s
    cases hx : delG implSem s k t with
    | ok s' => rw [hx] at hr; cases hr
    | error e' => rfl
  | get k t =>
    show (stepG implSem s (.get k t)).1 = s
    simp only [stepG]
    split <;> rfl
  | rend i ov e' =>
    show (stepG implSem s (.rend i ov e')).1 = s
    simp only [stepG]
    split <;> rfl
  | dump => rfl

/-- reading a setting, rendering and dumping never change anything -/
theorem observers_pure (s : State) :
    (∀ k t, (step s (.get k t)).1 = s) ∧ (∀ i ov e, (step s (.rend i ov e)).1 = s) ∧ (step s .dump).1 = s := by
  refine ⟨?_, ?_, rfl⟩
  · intro k t
    show (stepG implSem s (.get k t)).1 = s
    simp only [stepG]
    split <;> rfl
  · intro i ov e
    show (stepG implSem s (.rend i ov e)).1 = s
    simp only [stepG]
    split <;> rfl

/-! ## instance_readonly -/

/-- `forced_support` can be neither set nor deleted through an instance, whatever the value -/
theorem instance_readonly_forced_support (s : State) (i : Nat) (hi : i < s.ninst) (v : PyVal) :
    step s (.set (.slot .fs) (.inst i) v) = (s, .err .AttributeError) ∧
    step s (.del (.slot .fs) (.inst i)) = (s, .err .AttributeError) := by
  constructor
  · show exc s (setG implSem s (.slot .fs) (.inst i) v) = _
    simp [setG, Target.valid, hi, exc]
  · show exc s (delG implSem s (.slot .fs) (.inst i)) = _
    simp [delG, Target.valid, hi, exc]

/-- `native_anim_max_bytes` can be neither set nor reset through an instance (of an iterm2 class) -/
theorem instance_readonly_native_anim (s : State) (i : Nat) (hi : i < s.ninst)
    (hit : (s.info (s.icls i)).iterm = true) (v : PyVal) :
    step s (.set .na (.inst i) v) = (s, .err .AttributeError) ∧
    step s (.del .na (.inst i)) = (s, .err .AttributeError) := by
  constructor
  · show exc s (setG implSem s .na (.inst i) v) = _
    simp [setG, Target.valid, Target.clsOf, hi, hit, exc]
  · show exc s (delG implSem s .na (.inst i)) = _
    simp [delG, Target.valid, Target.clsOf, hi, hit, exc]

/-! ## render_uses_effective -/

/-- a render of instance `i` of a style with render methods `ms`:
    without a per-call override it uses the lower-cased effective method of the instance (own
    value, else its class's reading); with a valid override it uses the override, whatever is
    set anywhere; an override that is not a method of the style is rejected -/
theorem render_uses_effective (s : State) (i : Nat) (hi : i < s.ninst) (ms : List String)
    (hms : methodsOf s (s.icls i) = some ms) (hne : ms ≠ []) :
    (effMethod implSem s i .none = match instLookupWith clsLookup s .rm i with
      | some (.str x) => .ok (lower x)
      | _ => .error .AttributeError) ∧
    (∀ x, lower x ∈ ms → x ≠ "" → effMethod implSem s i (.str x) = .ok (lower x)) ∧
    (∀ x, lower x ∉ ms → effMethod implSem s i (.str x) = .error .ValueError) := by
  have he : ms.isEmpty = false := by
    cases ms with
    | nil => exact absurd rfl hne
    | cons _ _ => rfl
  refine ⟨?_, ?_, ?_⟩
  · unfold effMethod
    simp only [hi, decide_true, Bool.not_true, Bool.false_eq_true, if_false, hms, he]
    rfl
  · intro x hx hne'
    unfold effMethod
    simp only [hi, decide_true, Bool.not_true, Bool.false_eq_true, if_false, hms, he, hx, if_true, hne']
  · intro x hx
    unfold effMethod
    simp only [hi, decide_true, Bool.not_true, Bool.false_eq_true, if_false, hms, he, hx]

/-! ## used_is_effective — every render entry point -/

/-- the only thing that stands between the resolved method and the method used: iterm2's
    documented fallback — ANIM becomes WHOLE for separate frames and for non-animated images;
    every other method is used as resolved, by every entry point, for both styles -/
theorem used_method_fallback (d : Defaults) (iterm animated frame : Bool) (m : String) :
    usedMethod d iterm animated frame m =
      if iterm = true ∧ m = d.animName ∧ (frame = true ∨ animated = false) then d.wholeName else m := by
  unfold usedMethod
  cases iterm <;> cases animated <;> cases frame <;> by_cases hm : m = d.animName <;> simp [hm]

/-- FOR EVERY ENTRY POINT (`static`, `str`, `format`, `draw(animate=False)`, the `draw()`
    animation, `ImageIterator`), every instance of a style with render methods, in every
    well-formed state: the entry point resolves the method exactly as `effMethod` does — the
    per-call override if one is given, else the instance's effective method — and uses it up to
    the documented fallback; it never reads any other class's setting.  (The arguments an entry
    point cannot carry — an override for `str()`, an invalid letter for a format spec — and an
    `ImageIterator` over a still image are excluded explicitly.) -/
theorem used_is_effective (s : State) (i : Nat) (hi : i < s.ninst) (ov : PyVal) (e : Entry)
    (hiter : e.isIter = true → s.ianim i = true)
    (harg : ov = .none ∨ ((e = .static ∨ e = .draw ∨ e = .anim ∨ e = .animc) ) ∨
      (∃ x ms, ov = .str x ∧ e ≠ .str ∧ methodsOf s (s.icls i) = some ms ∧ lower x ∈ ms ∧ x ≠ "")) :
    usedG implSem s i ov e =
      (match effMethod implSem s i ov with
       | .ok m => .ok (usedMethod s.dft (s.info (s.icls i)).iterm (s.ianim i) (e.frame (s.ianim i)) m)
       | .error err => .error err) := by
  unfold usedG
  have h1 : (!decide (i < s.ninst)) = false := by simp [hi]
  have h2 : (e.isIter && !s.ianim i) = false := by
    cases he : e.isIter
    · rfl
    · simp [hiter he]
  simp only [h1, Bool.false_eq_true, if_false]
  rw [if_neg (by simp [h2])]
  have hok : entryArgOk s i e ov = true := by
    rcases harg with rfl | he | ⟨x, ms, rfl, hne, hms, hx, hx'⟩
    · cases e <;> rfl
    · rcases he with rfl | rfl | rfl | rfl <;> cases ov <;> rfl
    · cases e with
      | str => exact absurd rfl hne
      | fmt => simp [entryArgOk, hms, hx, hx']
      | iter => simp [entryArgOk, hms, hx, hx']
      | iterc => simp [entryArgOk, hms, hx, hx']
      | static => rfl
      | draw => rfl
      | anim => rfl
      | animc => rfl
  simp only [hok, Bool.not_true, Bool.false_eq_true, if_false]
  cases effMethod implSem s i ov <;> rfl

/-- hence, with `render_uses_effective`: without an override every entry point uses the instance's
    own value, else its class's reading (`instLookupWith clsLookup`), lower-cased, up to the fallback -/
theorem used_is_effective_no_override (s : State) (i : Nat) (hi : i < s.ninst) (e : Entry)
    (hiter : e.isIter = true → s.ianim i = true) (ms : List String)
    (hms : methodsOf s (s.icls i) = some ms) (hne : ms ≠ []) (x : String)
    (hx : instLookupWith clsLookup s .rm i = some (.str x)) :
    usedG implSem s i .none e =
      .ok (usedMethod s.dft (s.info (s.icls i)).iterm (s.ianim i) (e.frame (s.ianim i)) (lower x)) := by
  rw [used_is_effective s i hi .none e hiter (Or.inl rfl), (render_uses_effective s i hi ms hms hne).1, hx]

/-- and with a valid override every entry point that can carry one uses the override (up to the
    fallback), whatever is set on any class or instance -/
theorem used_is_override (s : State) (i : Nat) (hi : i < s.ninst) (e : Entry) (hstr : e ≠ .str)
    (hiter : e.isIter = true → s.ianim i = true) (ms : List String)
    (hms : methodsOf s (s.icls i) = some ms) (x : String) (hx : lower x ∈ ms) (hx' : x ≠ "") :
    usedG implSem s i (.str x) e =
      .ok (usedMethod s.dft (s.info (s.icls i)).iterm (s.ianim i) (e.frame (s.ianim i)) (lower x)) := by
  have hne : ms ≠ [] := by
    intro h; rw [h] at hx; simp at hx
  rw [used_is_effective s i hi (.str x) e hiter (Or.inr (Or.inr ⟨x, ms, rfl, hstr, hms, hx, hx'⟩)),
    (render_uses_effective s i hi ms hms hne).2.1 x hx hx']

/-! ## used_method_every_frame — cached loops and size changes -/

/-- `ImageIterator._animate` with `cached=True`, FOR EVERY number of frames and loops and EVERY
    pattern of size changes (`resized l n`: the rendered size differs from the one frame `n` was cached
    at when it is due in loop `l`): every emitted frame — rendered in the first loop, taken from the
    cache, or rendered anew because its cache entry was stale — is a `render ()`, i.e. a
    `_render_image(…, frame=True, **style_args)` with the SAME per-call style arguments.  The method a
    frame shows therefore does not depend on the cache state or the size history. -/
theorem used_method_every_frame {α} (render : Unit → α) (nframes loops : Nat) (resized : Nat → Nat → Bool) :
    (∀ x ∈ animate render nframes loops resized, x = render ()) ∧
    (animate render nframes loops resized).length = nframes * loops := by
  have loop1 : ∀ (res : Nat → Bool) (cache : List α) (n : Nat), (∀ c ∈ cache, c = render ()) →
      (∀ x ∈ (cachedLoop render res n cache).1, x = render ()) ∧
      (∀ x ∈ (cachedLoop render res n cache).2, x = render ()) ∧
      (cachedLoop render res n cache).1.length = cache.length ∧
      (cachedLoop render res n cache).2.length = cache.length := by
    intro res cache
    induction cache with
    | nil => intro n _; simp [cachedLoop]
    | cons c cs ih =>
      intro n hc
      have hcs := ih (n + 1) (fun x hx => hc x (by simp [hx]))
      have hf : (if res n = true then render () else c) = render () := by
        split
        · rfl
        · exact hc c (by simp)
      simp only [cachedLoop, List.mem_cons, List.length_cons, hf]
      refine ⟨?_, ?_, by rw [hcs.2.2.1], by rw [hcs.2.2.2]⟩
      · rintro x (rfl | hx)
        · rfl
        · exact hcs.1 x hx
      · rintro x (rfl | hx)
        · rfl
        · exact hcs.2.1 x hx
  have loops' : ∀ (k l : Nat) (cache : List α), (∀ c ∈ cache, c = render ()) →
      (∀ x ∈ cachedLoops render resized k l cache, x = render ()) ∧
      (cachedLoops render resized k l cache).length = cache.length * k := by
    intro k
    induction k with
    | zero => intro l cache _; simp [cachedLoops]
    | succ k ih =>
      intro l cache hc
      have h1 := loop1 (resized l) cache 0 hc
      have h2 := ih (l + 1) _ h1.2.1
      simp only [cachedLoops, List.mem_append, List.length_append]
      refine ⟨?_, ?_⟩
      · rintro x (hx | hx)
        · exact h1.1 x hx
        · exact h2.1 x hx
      · rw [h2.2, h1.2.2.1, h1.2.2.2, Nat.mul_succ, Nat.add_comm]
  cases loops with
  | zero => simp [animate]
  | succ k =>
    have hfirst : ∀ c ∈ (List.range nframes).map (fun _ => render ()), c = render () := by
      intro c hc
      obtain ⟨_, _, rfl⟩ := List.mem_map.mp hc
      rfl
    have h2 := loops' k 1 _ hfirst
    simp only [animate, List.mem_append, List.length_append]
    refine ⟨?_, ?_⟩
    · rintro x (hx | hx)
      · exact hfirst x hx
      · exact h2.1 x hx
    · rw [h2.2]
      simp [Nat.mul_succ, Nat.add_comm]

/-- hence what the cached multi-loop entry points (`iterc`, `animc`) report is exactly `usedG`: the
    per-call override if given, else the instance's effective method (`used_is_effective`), in every
    frame of every loop, before and after the resize -/
theorem used_frames_is_used (s : State) (i : Nat) (ov : PyVal) (e : Entry) :
    usedFramesG implSem s i ov e = usedG implSem s i ov e := by
  unfold usedFramesG
  cases hu : usedG implSem s i ov e with
  | error err => rfl
  | ok m =>
    simp only []
    split
    · have hall := (used_method_every_frame (fun _ => (Except.ok m : Except Err String))
        protoFrames protoLoops protoResized).1
      rw [if_pos]
      rw [List.all_eq_true]
      intro x hx
      rw [hall x hx]
      simp
    · rfl

/-! ## global_shared -/

/-- every iterm2 class and every instance of one reports the one global value -/
theorem global_shared (s : State) (t : Target) (hv : t.valid s = true)
    (hit : (s.info (t.clsOf s)).iterm = true) : getG implSem s .na t = .ok s.na := by
  simp [getG, hv, hit]

/-- an accepted set through ANY iterm2 class is what every class and instance reports from then
    on; a reset brings back the generated default; neither touches any class or instance dict -/
theorem global_set_shared {s s' : State} (c : Nat) (v : PyVal)
    (hs : setG implSem s .na (.cls c) v = .ok s') :
    s'.na = v ∧ s'.cd = s.cd ∧ s'.idict = s.idict ∧ s'.info = s.info ∧ s'.icls = s.icls ∧
    ∀ t, t.valid s' = true → (s'.info (t.clsOf s')).iterm = true → getG implSem s' .na t = .ok v := by
  unfold setG at hs
  split at hs
  · cases hs
  · simp only [] at hs
    split at hs
    · cases hs
    · split at hs
      · cases hs
      · injection hs with hs
        subst hs
        refine ⟨rfl, rfl, rfl, rfl, rfl, ?_⟩
        intro t hv hit
        exact global_shared _ t hv hit

theorem global_reset_shared {s s' : State} (c : Nat)
    (hs : delG implSem s .na (.cls c) = .ok s') :
    s'.na = .int s.dft.na ∧ s'.cd = s.cd ∧ s'.idict = s.idict := by
  unfold delG at hs
  split at hs
  · cases hs
  · simp only [] at hs
    split at hs
    · cases hs
    · injection hs with hs
      subst hs
      exact ⟨rfl, rfl, rfl⟩

/-- ONE cell, whatever the class is accessed through: any two iterm2 classes or instances — of the
    library class, of plain subclasses, of subclasses declared with a metaclass DERIVED from
    `ITerm2ImageMeta` (`Info.dmeta`) and of their descendants — read the same value, and after an
    accepted set (reset) through any of them every one reads the new value (the default).  The
    metaclass dimension is carried by the class table and ignored by the cell. -/
theorem nam_global (s : State) (t₁ t₂ : Target) (h₁ : t₁.valid s = true) (h₂ : t₂.valid s = true)
    (i₁ : (s.info (t₁.clsOf s)).iterm = true) (i₂ : (s.info (t₂.clsOf s)).iterm = true) :
    getG implSem s .na t₁ = getG implSem s .na t₂ ∧
    (∀ c v s', setG implSem s .na (.cls c) v = .ok s' →
      getG implSem s' .na t₁ = .ok v ∧ getG implSem s' .na t₂ = .ok v) ∧
    (∀ c s', delG implSem s .na (.cls c) = .ok s' →
      getG implSem s' .na t₁ = .ok (.int s.dft.na) ∧ getG implSem s' .na t₂ = .ok (.int s.dft.na)) := by
  refine ⟨by rw [global_shared s t₁ h₁ i₁, global_shared s t₂ h₂ i₂], ?_, ?_⟩
  · intro c v s' hs
    obtain ⟨_, _, _, hinfo, hicls, hall⟩ := global_set_shared c v hs
    have hn : s'.ncls = s.ncls ∧ s'.ninst = s.ninst := by
      unfold setG at hs
      split at hs
      · cases hs
      · simp only [] at hs
        split at hs
        · cases hs
        · split at hs
          · cases hs
          · injection hs with hs; subst hs; exact ⟨rfl, rfl⟩
    have tv : ∀ t : Target, t.valid s' = t.valid s := by
      intro t; cases t <;> simp [Target.valid, hn.1, hn.2]
    have tc : ∀ t : Target, t.clsOf s' = t.clsOf s := by
      intro t; cases t <;> simp [Target.clsOf, hicls]
    exact ⟨hall t₁ (by rw [tv]; exact h₁) (by rw [tc, hinfo]; exact i₁),
      hall t₂ (by rw [tv]; exact h₂) (by rw [tc, hinfo]; exact i₂)⟩
  · intro c s' hs
    unfold delG at hs
    split at hs
    · cases hs
    · simp only [] at hs
      split at hs
      · cases hs
      · injection hs with hs
        subst hs
        exact ⟨global_shared _ t₁ h₁ i₁, global_shared _ t₂ h₂ i₂⟩

/-- no operation on one of the four inheritable settings changes the global limit -/
theorem global_untouched_by_slots {s s' : State} (sl : Slot) (t : Target)
    (hs : (∃ v, setG implSem s (.slot sl) t v = .ok s') ∨ delG implSem s (.slot sl) t = .ok s') :
    s'.na = s.na := by
  cases t with
  | cls c =>
    rcases hs with ⟨v, hs⟩ | hs
    · by_cases hv : sl = .rm → v ≠ .none ∧ v ≠ .str ""
      · rw [(setG_cls_store hs hv).2]; rfl
      · have e := setG_eff _ _ _ hs
        cases sl with
        | rm =>
          have hu : ∃ hc : c < s.ncls, unsetRmCls s c = .ok s' ∨ ∃ w, s' = s.setCd c .rm w := by
            unfold setG at hs
            split at hs
            · cases hs
            · rename_i hval
              refine ⟨valid_cls hval, ?_⟩
              simp only [] at hs
              split at hs
              · cases hs
              · injection hs with hs; exact Or.inr ⟨_, hs.symm⟩
              · exact Or.inl hs
          obtain ⟨hc, hu | ⟨w, rfl⟩⟩ := hu
          · unfold unsetRmCls at hu
            split at hu
            · cases hu
            · split at hu
              · injection hu with hu; rw [← hu]
              · split at hu
                · split at hu
                  · injection hu with hu; rw [← hu]; rfl
                  · cases hu
                · injection hu with hu; rw [← hu]; rfl
          · rfl
        | fs => exact absurd (fun hx => by cases hx) hv
        | jq => exact absurd (fun hx => by cases hx) hv
        | rf => exact absurd (fun hx => by cases hx) hv
    · cases sl with
      | fs => unfold delG at hs; split at hs <;> cases hs
      | jq => rw [(delG_cls_shape (Or.inl rfl) hs).2]; rfl
      | rf => rw [(delG_cls_shape (Or.inr rfl) hs).2]; rfl
      | rm =>
        have hs' : setG implSem s (.slot .rm) (.cls c) .none = .ok s' := by
          unfold delG at hs
          split at hs
          · cases hs
          · exact hs
        obtain ⟨hc, hu⟩ := setG_rm_none_cls hs'
        unfold unsetRmCls at hu
        split at hu
        · cases hu
        · split at hu
          · injection hu with hu; rw [← hu]
          · split at hu
            · split at hu
              · injection hu with hu; rw [← hu]; rfl
              · cases hu
            · injection hu with hu; rw [← hu]; rfl
  | inst i =>
    rcases hs with ⟨v, hs⟩ | hs
    · obtain ⟨_, w, rfl, _, _⟩ := setG_inst_shape hs; rfl
    · obtain ⟨_, rfl⟩ := delG_inst_shape hs; rfl

/-! ## non-vacuity: the hypotheses are met by non-trivial instances

`demo`: `U6(KittyImage)`, `U7(U6)`, `U8(KittyImage)` (a sibling), an instance of `U7`;
`KittyImage` set to WHOLE, `U6` set to LINES.  `demoI`: the same under `ITerm2Image` (id 3). -/

def demo : State :=
  (run init [.nc 4 none, .nc 6 none, .nc 4 none, .ni 7 true, .set (.slot .rm) (.cls 4) (.str "WHOLE"),
    .set (.slot .rm) (.cls 6) (.str "lines")]).1

def demoI : State :=
  (run init [.nc 3 none, .nc 6 none, .ni 7 true, .set (.slot .jq) (.cls 3) (.int 50),
    .set (.slot .jq) (.cls 6) (.int 0), .set (.slot .rm) (.inst 0) (.str "Anim")]).1

def okState {α} : Except Err α → Option α
  | .ok s => some s
  | .error _ => none

def excOf {α} : Except Err α → Option Err
  | .ok _ => none
  | .error e => some e

def errOf : State × Out → Option Err
  | (_, .err e) => some e
  | _ => none

/-- `reachable_wf`, `resolve_spec`: the histories above are histories -/
example : demo.ncls = 9 ∧ demo.ninst = 1 ∧ demoI.ncls = 8 := by decide

/-- `unset_restores_class` (D1's history): `U6.set_render_method(None)` is accepted and `U6`, `U7`
    and the instance of `U7` read the parent's WHOLE again; for the class that defines the default
    the unset gives its default -/
example :
    ((okState (delG implSem demo (.slot .rm) (.cls 6))).map fun s' =>
      (clsLookup s' .rm 6, clsLookup s' .rm 7, instLookupWith clsLookup s' .rm 0, clsLookup s' .rm 8)) =
      some (some (.str "WHOLE"), some (.str "WHOLE"), some (.str "WHOLE"), some (.str "WHOLE")) ∧
    ((okState (delG implSem demo (.slot .rm) (.cls 4))).map fun s' => (clsLookup s' .rm 4, clsLookup s' .rm 6)) =
      some (some (.str "lines"), some (.str "lines")) := by decide

/-- `unset_restores_class` for jpeg_quality, `unset_restores_instance` for the render method -/
example :
    ((okState (delG implSem demoI (.slot .jq) (.cls 6))).map fun s' => (clsLookup s' .jq 6, clsLookup s' .jq 7)) =
      some (some (.int 50), some (.int 50)) ∧
    ((okState (delG implSem demoI (.slot .rm) (.inst 0))).map fun s' => instLookupWith clsLookup s' .rm 0) =
      some (some (.str "lines")) := by decide

/-- `set_frame`: `U7` follows `U6` (no entry of its own), the sibling `U8` and the ancestor
    `KittyImage` are outside; the set on `U6` is accepted -/
example : Follows demo .rm 6 7 ∧ 6 ∉ demo.mro 8 ∧ 6 ∉ demo.mro 4 ∧ 4 ∈ (demo.mro 6).tail ∧
    (okState (setG implSem demo (.slot .rm) (.cls 6) (.str "Whole"))).isSome = true :=
  ⟨Follows.up 7 6 (by decide) (by decide) (by decide) (by decide) Follows.self,
    by decide, by decide, by decide, by decide⟩

/-- `set_frame_instance`, `render_uses_effective`: the instance's own ANIM, a valid and an invalid override -/
example :
    okState (effMethod implSem demoI 0 .none) = some "anim" ∧
    okState (effMethod implSem demoI 0 (.str "WHOLE")) = some "whole" ∧
    excOf (effMethod implSem demoI 0 (.str "foo")) = some .ValueError ∧
    okState (effMethod implSem demo 0 .none) = some "lines" ∧
    excOf (effMethod implSem demo 0 (.str "anim")) = some .ValueError := by decide

/-- `used_is_effective` (the seeded history): `ITerm2Image` class-wide ANIM, the subclass `U6` says
    LINES — every entry point of the instance of `U7(U6)` uses LINES; with the instance's own ANIM the
    static entry points animate natively and the frame entry points fall back to WHOLE -/
example :
    let s := (run init [.nc 3 none, .nc 6 none, .ni 7 true, .set (.slot .rm) (.cls 3) (.str "anim"),
      .set (.slot .rm) (.cls 6) (.str "lines")]).1
    ([Entry.static, .str, .fmt, .draw, .anim, .iter, .iterc, .animc].map fun e => okState (usedFramesG implSem s 0 .none e)) =
      [some "lines", some "lines", some "lines", some "lines", some "lines", some "lines", some "lines", some "lines"] ∧
    ([Entry.static, .str, .fmt, .draw, .anim, .iter].map fun e => okState (usedG implSem demoI 0 .none e)) =
      [some "anim", some "anim", some "anim", some "anim", some "whole", some "whole"] ∧
    okState (usedG implSem demoI 0 (.str "LINES") .anim) = some "lines" := by decide

/-- `reject_pure`: operations that are rejected exist for every setting -/
example :
    errOf (step demoI (.set (.slot .jq) (.cls 6) (.int 96))) = some .ValueError ∧
    errOf (step demoI (.set (.slot .jq) (.cls 6) (.str "5"))) = some .TypeError ∧
    errOf (step demoI (.set (.slot .rf) (.inst 0) (.int 1))) = some .TypeError ∧
    errOf (step demo (.set (.slot .fs) (.cls 6) .none)) = some .TypeError ∧
    errOf (step demo (.set (.slot .rm) (.cls 6) (.str "anim"))) = some .ValueError ∧
    errOf (step demo (.set (.slot .rm) (.inst 0) (.int 1))) = some .TypeError ∧
    errOf (step demoI (.set .na (.cls 7) (.int 0))) = some .ValueError ∧
    errOf (step demo (.ni 1 true)) = some .OutOfModel := by decide

/-- `nam_global`: `M6(ITerm2Image, metaclass=<derived>)`, its plain subclass `U7` (inherits the derived
    metaclass), a plain sibling `U8` with an instance: a set through `U7` is read through
    `ITerm2Image`, `U8` and the instance -/
example :
    let s := (run init [.nc 3 none true, .nc 6 none, .nc 3 none, .ni 8 true]).1
    ((s.info 6).dmeta, (s.info 7).dmeta, (s.info 8).dmeta) = (true, true, false) ∧
    ((okState (setG implSem s .na (.cls 7) (.int 4096))).map fun s' =>
      [okState (getG implSem s' .na (.cls 3)), okState (getG implSem s' .na (.cls 6)),
       okState (getG implSem s' .na (.cls 8)), okState (getG implSem s' .na (.inst 0))]) =
      some [some (PyVal.int 4096), some (PyVal.int 4096), some (PyVal.int 4096), some (PyVal.int 4096)] := by decide

/-- `instance_readonly_*`: instances (of an iterm2 class) exist -/
example : (0 < demoI.ninst) ∧ (demoI.info (demoI.icls 0)).iterm = true ∧ 0 < demo.ninst := by decide

/-- `global_shared`, `global_set_shared`: a set through a user subclass is read through the library
    class and through an instance -/
example :
    ((okState (setG implSem demoI .na (.cls 7) (.int 4096))).map fun s' =>
      (okState (getG implSem s' .na (.cls 3)), okState (getG implSem s' .na (.inst 0)))) =
      some (some (PyVal.int 4096), some (PyVal.int 4096)) := by decide

end TIV.C20
