import TIV.C19.Spec
/-! helper lemmas for C19 (core Lean only) -/
namespace TIV.C19

/-! ## lists -/
def HeadIn (P : Char → Prop) (r : List Char) : Prop := ∀ c, r.head? = some c → P c

theorem HeadIn.nil {P} : HeadIn P [] := by intro c h; simp at h
theorem HeadIn.cons {P} {c : Char} {r} (h : P c) : HeadIn P (c :: r) := by
  intro d hd; simp at hd; subst hd; exact h
theorem HeadIn.mono {P Q : Char → Prop} {r} (h : HeadIn P r) (hpq : ∀ c, P c → Q c) : HeadIn Q r :=
  fun c hc => hpq c (h c hc)
theorem HeadIn.append {P} {l r : List Char} (hl : l ≠ [] → HeadIn P l) (hr : HeadIn P r) :
    HeadIn P (l ++ r) := by
  cases l with
  | nil => simpa using hr
  | cons c t => intro d hd; exact hl (by simp) d (by simpa using hd)
theorem HeadIn.of_all {P : Char → Prop} {l : List Char} (h : ∀ c ∈ l, P c) : HeadIn P l := by
  cases l with
  | nil => exact HeadIn.nil
  | cons c t => exact HeadIn.cons (h c (by simp))

theorem takeWhile_append_stop {p : Char → Bool} (ds r : List Char) (h1 : ∀ c ∈ ds, p c = true)
    (h2 : HeadIn (fun c => p c = false) r) :
    (ds ++ r).takeWhile p = ds ∧ (ds ++ r).dropWhile p = r := by
  induction ds with
  | nil =>
    cases r with
    | nil => simp
    | cons c t => have := h2 c rfl; simp [this]
  | cons d ds ih =>
    have hd := h1 d (by simp)
    have := ih (fun c hc => h1 c (by simp [hc]))
    simp [hd, this]

theorem dropWhile_head {p : Char → Bool} (s : List Char) : HeadIn (fun c => p c = false) (s.dropWhile p) := by
  intro c hc
  have := List.head?_dropWhile_not p s
  rw [hc] at this
  simpa using this

theorem optChar_hit {p : Char → Bool} {c : Char} (r : List Char) (h : p c = true) :
    optChar p (c :: r) = (some c, r) := by simp [optChar, h]

theorem optChar_miss {p : Char → Bool} (r : List Char) (h : HeadIn (fun c => p c = false) r) :
    optChar p r = (none, r) := by
  cases r with
  | nil => rfl
  | cons c t => have := h c rfl; simp [optChar, this]

/-- `optChar` in one statement: what it returned is in the class, what is left does not start in it -/
theorem optChar_spec (p : Char → Bool) (s : List Char) :
    s = (optChar p s).1.toList ++ (optChar p s).2 ∧ (optChar p s).1.all p = true ∧
    ((optChar p s).1 = none → HeadIn (fun c => p c = false) s) := by
  cases s with
  | nil => simp [optChar, HeadIn]
  | cons c t =>
    by_cases h : p c = true
    · simp [optChar, h]
    · simp only [optChar, h]
      refine ⟨by simp, by simp, fun _ => HeadIn.cons (by simpa using h)⟩

/-! ## character classes are disjoint where the grammar needs it -/
theorem digit_not_halign {c : Char} (h : isDigit c = true) : isHAlign c = false := by
  simp only [isHAlign, Bool.or_eq_false_iff, beq_eq_false_iff_ne]
  refine ⟨⟨?_, ?_⟩, ?_⟩ <;> (rintro rfl; revert h; decide)
theorem digit_not_valign {c : Char} (h : isDigit c = true) : isVAlign c = false := by
  simp only [isVAlign, Bool.or_eq_false_iff, beq_eq_false_iff_ne]
  refine ⟨⟨?_, ?_⟩, ?_⟩ <;> (rintro rfl; revert h; decide)
theorem digit_is_hex {c : Char} (h : isDigit c = true) : isHex c = true := by simp [isHex, h]

/-- the characters that can follow a complete field: `.`, `#`, `+` -/
def isSep (c : Char) : Prop := c = '.' ∨ c = '#' ∨ c = '+'
theorem sep_not_digit {c : Char} (h : isSep c) : isDigit c = false := by
  rcases h with rfl | rfl | rfl <;> decide
theorem sep_not_halign {c : Char} (h : isSep c) : isHAlign c = false := by
  rcases h with rfl | rfl | rfl <;> decide
theorem sep_not_valign {c : Char} (h : isSep c) : isVAlign c = false := by
  rcases h with rfl | rfl | rfl <;> decide

/-! ## Part A — the module-level regexes -/

def alphaWf : AlphaSyn → Bool
  | .disabled => true
  | .thr d => d ≠ [] && d.all isDigit
  | .hex x => x.length = 6 && x.all isHex
  | .termbg => true

def alphaU : Option AlphaSyn → List Char
  | some a => a.unparse
  | none => []
def styleU : Option (List Char) → List Char
  | some t => '+' :: t
  | none => []

theorem parseStyle_spec (r : List Char) (st : Option (List Char)) :
    parseStyle r = some st ↔ (r = styleU st ∧ ∀ t, st = some t → t ≠ [] ∧ '\n' ∉ t) := by
  cases r with
  | nil => cases st <;> simp [parseStyle, styleU]
  | cons c t =>
    cases st with
    | none => simp [parseStyle, styleU]
    | some u =>
      simp only [parseStyle, styleU]
      constructor
      · intro h
        split at h
        · rename_i hc
          simp at h; subst h
          obtain ⟨rfl, h1, h2⟩ := hc
          exact ⟨rfl, fun t ht => by simp at ht; subst ht; exact ⟨h1, h2⟩⟩
        · simp at h
      · rintro ⟨h1, h2⟩
        simp at h1
        obtain ⟨rfl, rfl⟩ := h1
        have := h2 t rfl
        simp [this]

theorem mem_takeWhile_imp {p : Char → Bool} {l : List Char} {c : Char} (h : c ∈ l.takeWhile p) : p c = true := by
  have := List.all_takeWhile (p := p) (l := l)
  rw [List.all_eq_true] at this
  exact this c h

theorem hex_ne {c : Char} (h : isHex c = true) : c ≠ '#' ∧ c ≠ '.' ∧ c ≠ '+' := by
  refine ⟨?_, ?_, ?_⟩ <;> (rintro rfl; revert h; decide)

theorem parseAlphaArg_complete (a : AlphaSyn) (r : List Char) (ha : alphaWf a = true)
    (hr : HeadIn (· = '+') r) : parseAlpha (a.unparse ++ r) = some (some a, r) := by
  cases a with
  | disabled =>
    cases r with
    | nil => simp [AlphaSyn.unparse, parseAlpha, parseAlphaArg]
    | cons c t =>
      have := hr c rfl; subst this
      simp [AlphaSyn.unparse, parseAlpha, parseAlphaArg, isHex, isDigit]
  | termbg => simp [AlphaSyn.unparse, parseAlpha, parseAlphaArg]
  | thr d =>
    simp [alphaWf] at ha
    have := takeWhile_append_stop (p := isDigit) d r ha.2 (hr.mono (by rintro c rfl; decide))
    simp [AlphaSyn.unparse, parseAlpha, parseAlphaArg, this, ha.1]
  | hex x =>
    simp [alphaWf] at ha
    obtain ⟨hl, hx⟩ := ha
    match x, hl with
    | [a, b, c, d, e, f], _ =>
      have h1 := hex_ne (hx a (by simp))
      simp at hx
      simp [AlphaSyn.unparse, parseAlpha, parseAlphaArg, h1.1, h1.2.1, hx]


theorem parseAlpha_none (r : List Char) (hr : HeadIn (· = '+') r) : parseAlpha r = some (none, r) := by
  cases r with
  | nil => rfl
  | cons c t => have := hr c rfl; subst this; simp [parseAlpha]

theorem parseAlpha_complete (a : Option AlphaSyn) (r : List Char) (ha : a.all alphaWf = true)
    (hr : HeadIn (· = '+') r) : parseAlpha (alphaU a ++ r) = some (a, r) := by
  cases a with
  | none => simpa [alphaU] using parseAlpha_none r hr
  | some a => simpa [alphaU] using parseAlphaArg_complete a r (by simpa using ha) hr

theorem parseAlphaArg_sound (s : List Char) (a : AlphaSyn) (r : List Char)
    (h : parseAlphaArg s = some (a, r)) : '#' :: s = a.unparse ++ r ∧ alphaWf a = true := by
  cases s with
  | nil => simp [parseAlphaArg] at h; obtain ⟨rfl, rfl⟩ := h; simp [AlphaSyn.unparse, alphaWf]
  | cons c t =>
    simp only [parseAlphaArg] at h
    split at h
    · rename_i hc; subst hc; simp at h; obtain ⟨rfl, rfl⟩ := h; simp [AlphaSyn.unparse, alphaWf]
    · split at h
      · rename_i hc; subst hc
        split at h
        · simp at h
        · rename_i hd
          simp at h; obtain ⟨rfl, rfl⟩ := h
          refine ⟨?_, ?_⟩
          · simp [AlphaSyn.unparse, List.takeWhile_append_dropWhile]
          · simp only [alphaWf, Bool.and_eq_true, decide_eq_true_eq, List.all_eq_true]
            exact ⟨hd, fun c hc => mem_takeWhile_imp hc⟩
      · split at h
        · split at h
          · rename_i hh
            simp at h; obtain ⟨rfl, rfl⟩ := h
            refine ⟨?_, ?_⟩
            · show '#' :: c :: t = '#' :: (List.take 6 (c :: t) ++ List.drop 6 (c :: t))
              rw [List.take_append_drop]
            · simp only [alphaWf, Bool.and_eq_true, decide_eq_true_eq]
              refine ⟨?_, hh.2⟩
              have := hh.1
              simp only [List.length_cons, List.length_take] at this ⊢; omega
          · simp at h
        · simp at h; obtain ⟨rfl, rfl⟩ := h; simp [AlphaSyn.unparse, alphaWf]

theorem parseAlpha_sound (s : List Char) (a : Option AlphaSyn) (r : List Char)
    (h : parseAlpha s = some (a, r)) : s = alphaU a ++ r ∧ a.all alphaWf = true := by
  cases s with
  | nil => simp [parseAlpha] at h; obtain ⟨rfl, rfl⟩ := h; simp [alphaU]
  | cons c t =>
    simp only [parseAlpha] at h
    split at h
    · rename_i hc; subst hc
      split at h
      · rename_i a' r' ha
        simp at h; obtain ⟨rfl, rfl⟩ := h
        have := parseAlphaArg_sound t a' r' ha
        simpa [alphaU] using this
      · simp at h
    · simp at h; obtain ⟨rfl, rfl⟩ := h; simp [alphaU]

/-! vertical part -/
def vertWf (v : Option (Option Char × List Char)) : Bool :=
  v.all fun v => v.1.all isVAlign && v.2.all isDigit

theorem parseVert_complete (v : Option (Option Char × List Char)) (r : List Char) (hv : vertWf v = true)
    (hr : HeadIn (fun c => c = '#' ∨ c = '+') r) : parseVert (unparseVert v ++ r) = (v, r) := by
  have hsep : ∀ c, (c = '#' ∨ c = '+') → isSep c := fun c h => by
    rcases h with rfl | rfl <;> simp [isSep]
  cases v with
  | none =>
    cases r with
    | nil => rfl
    | cons c t =>
      have := hr c rfl
      have hc : c ≠ '.' := by rcases this with rfl | rfl <;> decide
      simp [unparseVert, parseVert, hc]
  | some v =>
    obtain ⟨va, ht⟩ := v
    simp [vertWf] at hv
    have hnd : HeadIn (fun c => isDigit c = false) r := hr.mono fun c h => sep_not_digit (hsep c h)
    have htw := takeWhile_append_stop (p := isDigit) ht r hv.2 hnd
    cases va with
    | some a =>
      have ha : isVAlign a = true := by simpa using hv.1
      simp [unparseVert, parseVert, optChar, ha, htw]
    | none =>
      have hm : optChar isVAlign (ht ++ r) = (none, ht ++ r) := by
        apply optChar_miss
        apply HeadIn.append
        · intro _; exact HeadIn.of_all fun c hc => digit_not_valign (hv.2 c hc)
        · exact hr.mono fun c h => sep_not_valign (hsep c h)
      simp [unparseVert, parseVert, hm, htw]

theorem parseVert_sound (s : List Char) : s = unparseVert (parseVert s).1 ++ (parseVert s).2 ∧
    vertWf (parseVert s).1 = true ∧ ((parseVert s).1 = none → HeadIn (· ≠ '.') s) := by
  cases s with
  | nil => simp [parseVert, unparseVert, vertWf, HeadIn]
  | cons c t =>
    by_cases hc : c = '.'
    · subst hc
      have ho := optChar_spec isVAlign t
      simp only [parseVert, if_true, unparseVert, vertWf, Option.all_some, Bool.and_eq_true]
      refine ⟨?_, ⟨ho.2.1, ?_⟩, by simp⟩
      · simp only [List.cons_append, List.append_assoc, List.takeWhile_append_dropWhile]
        rw [← ho.1]
      · simp only [List.all_eq_true]; exact fun c hc => mem_takeWhile_imp hc
    · simp [parseVert, hc, unparseVert, vertWf, HeadIn]


/-! ## `_FORMAT_SPEC.fullmatch` = "is the written form of well-formed groups" -/
def Groups.WfRaw (g : Groups) : Prop :=
  g.hAlign.all isHAlign = true ∧ g.width.all isDigit = true ∧ vertWf g.vert = true ∧
  g.alpha.all alphaWf = true ∧ ∀ t, g.style = some t → t ≠ [] ∧ '\n' ∉ t

def Groups.unparse (g : Groups) : List Char :=
  g.hAlign.toList ++ (g.width ++ (unparseVert g.vert ++ (alphaU g.alpha ++ styleU g.style)))

theorem styleU_head (st : Option (List Char)) : HeadIn (· = '+') (styleU st) := by
  cases st <;> simp [styleU, HeadIn]

theorem alphaU_head (a : Option AlphaSyn) : HeadIn (· = '#') (alphaU a) := by
  cases a with
  | none => simp [alphaU, HeadIn]
  | some a => cases a <;> simp [alphaU, AlphaSyn.unparse, HeadIn]

theorem unparseVert_head (v) : HeadIn (· = '.') (unparseVert v) := by
  cases v <;> simp [unparseVert, HeadIn]

theorem r3_head (a : Option AlphaSyn) (st : Option (List Char)) :
    HeadIn (fun c => c = '#' ∨ c = '+') (alphaU a ++ styleU st) :=
  HeadIn.append (fun _ => (alphaU_head a).mono fun _ h => Or.inl h)
    ((styleU_head st).mono fun _ h => Or.inr h)

theorem r2_head (v) (a : Option AlphaSyn) (st : Option (List Char)) :
    HeadIn isSep (unparseVert v ++ (alphaU a ++ styleU st)) :=
  HeadIn.append (fun _ => (unparseVert_head v).mono fun _ h => Or.inl h)
    ((r3_head a st).mono fun _ h => Or.inr h)

/-- the first two stages of both regexes on the written form of well-formed groups -/
theorem stage12 (g : Groups) (hg : g.WfRaw) :
    (optChar isHAlign g.unparse).1 = g.hAlign ∧
    (optChar isHAlign g.unparse).2.takeWhile isDigit = g.width ∧
    (optChar isHAlign g.unparse).2.dropWhile isDigit =
      unparseVert g.vert ++ (alphaU g.alpha ++ styleU g.style) := by
  obtain ⟨hh, hw, _, _, _⟩ := hg
  have hw' : ∀ c ∈ g.width, isDigit c = true := by simpa using hw
  have h2 := r2_head g.vert g.alpha g.style
  have htw := takeWhile_append_stop (p := isDigit) g.width _ hw' (h2.mono fun c h => sep_not_digit h)
  have h1 : optChar isHAlign g.unparse = (g.hAlign, g.width ++ (unparseVert g.vert ++ (alphaU g.alpha ++ styleU g.style))) := by
    unfold Groups.unparse
    cases hA : g.hAlign with
    | some c =>
      have : isHAlign c = true := by simpa [hA] using hh
      simpa using optChar_hit _ this
    | none =>
      simp only [Option.toList_none, List.nil_append]
      apply optChar_miss
      apply HeadIn.append
      · intro _; exact HeadIn.of_all fun c hc => digit_not_halign (hw' c hc)
      · exact h2.mono fun c h => sep_not_halign h
  rw [h1]
  exact ⟨rfl, htw.1, htw.2⟩

theorem fmtMatch_complete (g : Groups) (hg : g.WfRaw) : fmtMatch g.unparse = some g := by
  obtain ⟨s1, s2, s3⟩ := stage12 g hg
  obtain ⟨_, _, hv, ha, hs⟩ := hg
  have h3 := parseVert_complete g.vert _ hv (r3_head g.alpha g.style)
  have h4 := parseAlpha_complete g.alpha _ ha (styleU_head g.style)
  have h5 : parseStyle (styleU g.style) = some g.style := (parseStyle_spec _ _).2 ⟨rfl, hs⟩
  simp only [fmtMatch, s1, s2, s3, h3, h4, h5]

theorem fmtMatch_sound (s : List Char) (g : Groups) (h : fmtMatch s = some g) :
    g.WfRaw ∧ g.unparse = s := by
  have h1 := optChar_spec isHAlign s
  have h3 := parseVert_sound ((optChar isHAlign s).2.dropWhile isDigit)
  simp only [fmtMatch] at h
  split at h
  · simp at h
  · rename_i a r ha
    split at h
    · simp at h
    · rename_i st hst
      simp at h
      have h4 := parseAlpha_sound _ a r ha
      have h5 := (parseStyle_spec r st).1 hst
      subst h
      refine ⟨⟨h1.2.1, by simp, h3.2.1, h4.2, h5.2⟩, ?_⟩
      simp only [Groups.unparse]
      rw [← h5.1, ← h4.1, ← h3.1, List.takeWhile_append_dropWhile, ← h1.1]

/-- `_NO_VERTICAL_SPEC.fullmatch` (repaired) says exactly "the dot carries neither field" -/
theorem noVertMatch_unparse (g : Groups) (hg : g.WfRaw) :
    noVertMatch g.unparse = decide (g.vert = some (none, [])) := by
  obtain ⟨_, _, s3⟩ := stage12 g hg
  obtain ⟨_, _, hv, ha, hs⟩ := hg
  simp only [noVertMatch, s3]
  cases hvv : g.vert with
  | none =>
    have := r3_head g.alpha g.style
    simp only [unparseVert, List.nil_append]
    generalize alphaU g.alpha ++ styleU g.style = r at this
    cases r with
    | nil => simp
    | cons c t =>
      have hc : c ≠ '.' := by rcases this c rfl with rfl | rfl <;> decide
      simp [hc]
  | some v =>
    obtain ⟨va, ht⟩ := v
    simp only [unparseVert, List.cons_append, if_true]
    rw [hvv] at hv
    simp [vertWf] at hv
    cases va with
    | some a =>
      have hva : isVAlign a = true := by simpa using hv.1
      have h1 : a ≠ '#' := by rintro rfl; revert hva; decide
      have h2 : a ≠ '+' := by rintro rfl; revert hva; decide
      simp [parseAlpha, parseStyle, h1, h2]
    | none =>
      cases ht with
      | nil =>
        have h4 := parseAlpha_complete g.alpha _ ha (styleU_head g.style)
        have h5 : parseStyle (styleU g.style) = some g.style := (parseStyle_spec _ _).2 ⟨rfl, hs⟩
        simp [h4, h5]
      | cons d ds =>
        have hd : isDigit d = true := hv.2 d (by simp)
        have h1 : d ≠ '#' := by rintro rfl; revert hd; decide
        have h2 : d ≠ '+' := by rintro rfl; revert hd; decide
        simp [parseAlpha, parseStyle, h1, h2]


/-! ## Part B — the style-specific part -/

theorem pClass_some (ok : Char → Bool) (s m r : List Char) :
    pClass ok s = some (m, r) ↔ ∃ c, ok c = true ∧ m = [c] ∧ s = c :: r := by
  cases s with
  | nil => simp [pClass]
  | cons c t =>
    simp only [pClass]
    constructor
    · intro h; split at h
      · rename_i hc; simp at h; exact ⟨c, hc, h.1.symm, by rw [h.2]⟩
      · simp at h
    · rintro ⟨d, hd, rfl, h⟩
      simp at h; obtain ⟨rfl, rfl⟩ := h
      simp [hd]

theorem pClass_none (ok : Char → Bool) (s : List Char) (h : HeadIn (fun c => ok c = false) s) :
    pClass ok s = none := by
  cases s with
  | nil => rfl
  | cons c t => have := h c rfl; simp [pClass, this]

theorem pLetter_some (l : Char) (ok : Char → Bool) (s m r : List Char) :
    pLetter l ok s = some (m, r) ↔ ∃ d, ok d = true ∧ m = [l, d] ∧ s = l :: d :: r := by
  match s with
  | [] => simp [pLetter]
  | [c] => simp [pLetter]
  | c :: d :: t =>
    simp only [pLetter]
    constructor
    · intro h; split at h
      · rename_i hc; simp at h; obtain ⟨rfl, rfl⟩ := h
        exact ⟨d, hc.2, by rw [hc.1], by rw [hc.1]⟩
      · simp at h
    · rintro ⟨e, he, rfl, h⟩
      simp at h; obtain ⟨rfl, rfl, rfl⟩ := h
      simp [he]

theorem pLetter_none (l : Char) (ok : Char → Bool) (s : List Char) (h : HeadIn (· ≠ l) s) :
    pLetter l ok s = none := by
  match s with
  | [] => rfl
  | [c] => rfl
  | c :: d :: t => have := h c rfl; simp [pLetter, this]

def zText (z : Bool × List Char) : List Char := 'z' :: (if z.1 then ['-'] else []) ++ z.2

theorem pZ_complete (z : Bool × List Char) (r : List Char) (h1 : z.2 ≠ []) (h2 : ∀ c ∈ z.2, isDigit c = true)
    (hr : HeadIn (fun c => isDigit c = false) r) : pZ (zText z ++ r) = some (zText z, r) := by
  obtain ⟨neg, ds⟩ := z
  simp only at h1 h2
  have htw := takeWhile_append_stop (p := isDigit) ds r h2 hr
  cases neg with
  | true => simp [zText, pZ, htw, h1]
  | false =>
    cases ds with
    | nil => exact absurd rfl h1
    | cons d ds =>
      have hd : d ≠ '-' := by rintro rfl; have := h2 '-' (by simp); revert this; decide
      simp only [zText, pZ, List.cons_append, Bool.false_eq_true, if_false, List.nil_append, if_true, hd]
      simp only [List.cons_append] at htw
      simp [htw]

theorem pZ_none (s : List Char) (h : HeadIn (· ≠ 'z') s) : pZ s = none := by
  cases s with
  | nil => rfl
  | cons c t => have := h c rfl; simp [pZ, this]

theorem pZ_sound (s m r : List Char) (h : pZ s = some (m, r)) :
    ∃ z : Bool × List Char, z.2 ≠ [] ∧ (∀ c ∈ z.2, isDigit c = true) ∧ m = zText z ∧ s = m ++ r := by
  cases s with
  | nil => simp [pZ] at h
  | cons c t =>
    by_cases hc : c = 'z'
    · subst hc
      cases t with
      | nil => simp [pZ] at h
      | cons d u =>
        by_cases hd : d = '-'
        · subst hd
          simp only [pZ, if_true] at h
          split at h
          · simp at h
          · rename_i hne
            simp at h; obtain ⟨rfl, rfl⟩ := h
            exact ⟨(true, u.takeWhile isDigit), hne, fun c hc => mem_takeWhile_imp hc, by simp [zText],
              by simp [List.takeWhile_append_dropWhile]⟩
        · simp only [pZ, if_true, hd, if_false] at h
          split at h
          · simp at h
          · rename_i hne
            simp at h; obtain ⟨rfl, rfl⟩ := h
            refine ⟨(false, (d :: u).takeWhile isDigit), hne, fun c hc => mem_takeWhile_imp hc, by simp [zText], ?_⟩
            simp only [List.cons_append, List.takeWhile_append_dropWhile]
    · simp [pZ, hc] at h

/-! search -/
theorem search_nil_iff (p : Matcher) (s m r : List Char) :
    search p s = some ([], m, r) ↔ p s = some (m, r) := by
  cases s with
  | nil =>
    simp only [search]
    cases h : p [] with
    | none => simp
    | some x => obtain ⟨a, b⟩ := x; simp
  | cons c t =>
    simp only [search]
    cases h : p (c :: t) with
    | none =>
      cases h2 : search p t with
      | none => simp
      | some x => obtain ⟨a, b, d⟩ := x; simp
    | some x => obtain ⟨a, b⟩ := x; simp

theorem search_none_imp (p : Matcher) (s : List Char) (h : search p s = none) : p s = none := by
  cases s with
  | nil =>
    simp only [search] at h
    cases h2 : p [] with
    | none => rfl
    | some x => obtain ⟨a, b⟩ := x; simp [h2] at h
  | cons c t =>
    simp only [search] at h
    cases h2 : p (c :: t) with
    | none => rfl
    | some x => obtain ⟨a, b⟩ := x; simp [h2] at h

/-- a pattern that needs a marker character at its start is found nowhere in a string without it -/
theorem search_none_of (p : Matcher) (mark : Char → Prop)
    (hp : ∀ s, HeadIn (fun c => ¬ mark c) s → p s = none) (s : List Char) (hs : ∀ c ∈ s, ¬ mark c) :
    search p s = none := by
  induction s with
  | nil => simp [search, hp [] HeadIn.nil]
  | cons c t ih =>
    have h1 := hp (c :: t) (HeadIn.cons (hs c (by simp)))
    have h2 := ih fun d hd => hs d (by simp [hd])
    simp [search, h1, h2]

/-- GENERAL: when the walk ends with empty parent and empty invalid part, its fields are those of
    matching the patterns one after the other from the start -/
theorem walk_imp_matchRest (ps : List Matcher) (s : List Char) (fields : List (Option (List Char)))
    (h : walk ps s = ([], fields, [])) : matchRest ps s = (fields, []) := by
  induction ps generalizing fields with
  | nil => simp [walk] at h; obtain ⟨rfl, rfl⟩ := h; rfl
  | cons p ps ih =>
    simp only [walk] at h
    cases hs : search p s with
    | none =>
      rw [hs] at h
      simp at h
      obtain ⟨h1, rfl, h3⟩ := h
      have := ih (walk ps s).2.1 (Prod.ext h1 (Prod.ext rfl h3))
      simp [matchRest, search_none_imp p s hs, this]
    | some x =>
      obtain ⟨pre, m, r⟩ := x
      rw [hs] at h
      simp at h
      obtain ⟨rfl, rfl, h3⟩ := h
      have := (search_nil_iff p s m r).1 hs
      simp [matchRest, this, h3]


theorem walk_skip (p : Matcher) (ps : List Matcher) (s : List Char) (h : search p s = none) :
    walk (p :: ps) s = ((walk ps s).1, none :: (walk ps s).2.1, (walk ps s).2.2) := by simp [walk, h]
theorem walk_hit (p : Matcher) (ps : List Matcher) (s m r : List Char) (h : p s = some (m, r)) :
    walk (p :: ps) s = ([], some m :: (matchRest ps r).1, (matchRest ps r).2) := by
  simp [walk, (search_nil_iff p s m r).2 h]
theorem matchRest_hit (p : Matcher) (ps : List Matcher) (s m r : List Char) (h : p s = some (m, r)) :
    matchRest (p :: ps) s = (some m :: (matchRest ps r).1, (matchRest ps r).2) := by simp [matchRest, h]
theorem matchRest_miss (p : Matcher) (ps : List Matcher) (s : List Char) (h : p s = none) :
    matchRest (p :: ps) s = (none :: (matchRest ps s).1, (matchRest ps s).2) := by simp [matchRest, h]

/-! the four fields as text -/
def zT (ss : StyleSen) : List Char := match ss.z with | some z => zText z | none => []
def mixT (ss : StyleSen) : List Char := match ss.mix with | some c => ['m', c] | none => []
def compT (ss : StyleSen) : List Char := match ss.compress with | some c => ['c', c] | none => []

theorem unparse_eq (ss : StyleSen) : ss.unparse = ss.method.toList ++ (zT ss ++ (mixT ss ++ compT ss)) := rfl

/-- lexical facts of a syntactically well-formed style sentence -/
structure StyleFacts (ss : StyleSen) : Prop where
  z : ∀ z, ss.z = some z → z.2 ≠ [] ∧ ∀ c ∈ z.2, isDigit c = true
  mix : ∀ c, ss.mix = some c → is01 c = true
  comp : ∀ c, ss.compress = some c → isDigit c = true

theorem facts_of_wf (st : Style) (ss : StyleSen) (h : ss.wfSyntax st = true) : StyleFacts ss := by
  simp only [StyleSen.wfSyntax, Bool.and_eq_true] at h
  obtain ⟨⟨⟨⟨_, hz⟩, hm⟩, hc⟩, _⟩ := h
  refine ⟨?_, ?_, ?_⟩
  · intro z hz'; rw [hz'] at hz; simpa using hz
  · intro c hc'; rw [hc'] at hm; simpa using hm
  · intro c hc'; rw [hc'] at hc; simpa using hc

theorem compT_spec (ss : StyleSen) (f : StyleFacts ss) :
    matchRest [pLetter 'c' isDigit] (compT ss) = ([ss.compress.map fun c => ['c', c]], []) ∧
    HeadIn (· = 'c') (compT ss) ∧ ∀ c ∈ compT ss, c = 'c' ∨ isDigit c = true := by
  cases hc : ss.compress with
  | none => simp [compT, hc, matchRest, pLetter, HeadIn]
  | some d =>
    have := f.comp d hc
    simp [compT, hc, matchRest, pLetter, this, HeadIn]

theorem mixT_spec (ss : StyleSen) (f : StyleFacts ss) :
    matchRest [pLetter 'm' is01, pLetter 'c' isDigit] (mixT ss ++ compT ss) =
      ([ss.mix.map fun c => ['m', c], ss.compress.map fun c => ['c', c]], []) ∧
    HeadIn (fun c => c = 'm' ∨ c = 'c') (mixT ss ++ compT ss) ∧
    ∀ c ∈ mixT ss ++ compT ss, c = 'm' ∨ c = 'c' ∨ isDigit c = true := by
  obtain ⟨h1, h2, h3⟩ := compT_spec ss f
  cases hm : ss.mix with
  | none =>
    have hn : pLetter 'm' is01 (compT ss) = none :=
      pLetter_none _ _ _ (h2.mono (by rintro c rfl; decide))
    refine ⟨?_, ?_, ?_⟩
    · simp [mixT, hm, matchRest_miss _ _ _ hn, h1]
    · simpa [mixT, hm] using h2.mono fun c h => Or.inr h
    · intro c hc; simp only [mixT, hm, List.nil_append] at hc
      rcases h3 c hc with h | h
      · exact Or.inr (Or.inl h)
      · exact Or.inr (Or.inr h)
  | some d =>
    have hd := f.mix d hm
    have hh : pLetter 'm' is01 ('m' :: d :: compT ss) = some (['m', d], compT ss) :=
      (pLetter_some _ _ _ _ _).2 ⟨d, hd, rfl, rfl⟩
    refine ⟨?_, ?_, ?_⟩
    · simp [mixT, hm, matchRest_hit _ _ _ _ _ hh, h1]
    · simp [mixT, hm, HeadIn]
    · intro c hc
      simp only [mixT, hm, List.cons_append, List.nil_append, List.mem_cons] at hc
      rcases hc with rfl | rfl | hc
      · exact Or.inl rfl
      · right; right
        simp only [is01, Bool.or_eq_true, beq_iff_eq] at hd
        rcases hd with rfl | rfl <;> decide
      · rcases h3 c hc with h | h
        · exact Or.inr (Or.inl h)
        · exact Or.inr (Or.inr h)

theorem zT_spec (ss : StyleSen) (f : StyleFacts ss) :
    matchRest [pZ, pLetter 'm' is01, pLetter 'c' isDigit] (zT ss ++ (mixT ss ++ compT ss)) =
      ([ss.z.map zText, ss.mix.map fun c => ['m', c], ss.compress.map fun c => ['c', c]], []) ∧
    HeadIn (fun c => c = 'z' ∨ c = 'm' ∨ c = 'c') (zT ss ++ (mixT ss ++ compT ss)) ∧
    ∀ c ∈ zT ss ++ (mixT ss ++ compT ss), c = 'z' ∨ c = '-' ∨ c = 'm' ∨ c = 'c' ∨ isDigit c = true := by
  obtain ⟨h1, h2, h3⟩ := mixT_spec ss f
  cases hz : ss.z with
  | none =>
    have hn : pZ (mixT ss ++ compT ss) = none :=
      pZ_none _ (h2.mono (by rintro c (rfl | rfl) <;> decide))
    refine ⟨?_, ?_, ?_⟩
    · simp [zT, hz, matchRest_miss _ _ _ hn, h1]
    · simpa [zT, hz] using h2.mono fun c h => Or.inr h
    · intro c hc; simp only [zT, hz, List.nil_append] at hc
      rcases h3 c hc with h | h | h
      · exact Or.inr (Or.inr (Or.inl h))
      · exact Or.inr (Or.inr (Or.inr (Or.inl h)))
      · exact Or.inr (Or.inr (Or.inr (Or.inr h)))
  | some z =>
    obtain ⟨hz1, hz2⟩ := f.z z hz
    have hh := pZ_complete z (mixT ss ++ compT ss) hz1 hz2
      (h2.mono (by rintro c (rfl | rfl) <;> decide))
    refine ⟨?_, ?_, ?_⟩
    · simp [zT, hz, matchRest_hit _ _ _ _ _ hh, h1]
    · simp [zT, hz, zText, HeadIn]
    · intro c hc
      simp only [zT, hz, zText, List.cons_append, List.mem_cons, List.mem_append] at hc
      rcases hc with rfl | (hc | hc) | hc
      · exact Or.inl rfl
      · split at hc
        · simp at hc; exact Or.inr (Or.inl hc)
        · simp at hc
      · exact Or.inr (Or.inr (Or.inr (Or.inr (hz2 c hc))))
      · rcases h3 c (by simpa using hc) with h | h | h
        · exact Or.inr (Or.inr (Or.inl h))
        · exact Or.inr (Or.inr (Or.inr (Or.inl h)))
        · exact Or.inr (Or.inr (Or.inr (Or.inr h)))


theorem digit_ne (c : Char) (h : isDigit c = true) :
    c ≠ 'z' ∧ c ≠ 'm' ∧ c ≠ 'c' ∧ c ≠ '-' ∧ isLWA c = false ∧ isLW c = false := by
  refine ⟨?_, ?_, ?_, ?_, ?_, ?_⟩
  · rintro rfl; revert h; decide
  · rintro rfl; revert h; decide
  · rintro rfl; revert h; decide
  · rintro rfl; revert h; decide
  · simp only [isLWA, Bool.or_eq_false_iff, beq_eq_false_iff_ne]
    refine ⟨⟨?_, ?_⟩, ?_⟩ <;> (rintro rfl; revert h; decide)
  · simp only [isLW, Bool.or_eq_false_iff, beq_eq_false_iff_ne]
    refine ⟨?_, ?_⟩ <;> (rintro rfl; revert h; decide)

theorem walkC (ss : StyleSen) (f : StyleFacts ss) :
    walk [pLetter 'c' isDigit] (compT ss) = ([], [ss.compress.map fun c => ['c', c]], []) := by
  cases hc : ss.compress with
  | none => simp [compT, hc, walk, search, pLetter]
  | some d =>
    have hh : pLetter 'c' isDigit ['c', d] = some (['c', d], []) :=
      (pLetter_some _ _ _ _ _).2 ⟨d, f.comp d hc, rfl, rfl⟩
    simp [compT, hc, walk_hit _ _ _ _ _ hh, matchRest]

theorem walkM (ss : StyleSen) (f : StyleFacts ss) :
    walk [pLetter 'm' is01, pLetter 'c' isDigit] (mixT ss ++ compT ss) =
      ([], [ss.mix.map fun c => ['m', c], ss.compress.map fun c => ['c', c]], []) := by
  obtain ⟨h1, h2, h3⟩ := compT_spec ss f
  cases hm : ss.mix with
  | none =>
    have hn : search (pLetter 'm' is01) (compT ss) = none :=
      search_none_of _ (· = 'm') (fun s hs => pLetter_none _ _ _ hs) _ (by
        intro c hc; rcases h3 c hc with rfl | h
        · decide
        · exact (digit_ne c h).2.1)
    simp [mixT, hm, walk_skip _ _ _ hn, walkC ss f]
  | some d =>
    have hh : pLetter 'm' is01 ('m' :: d :: compT ss) = some (['m', d], compT ss) :=
      (pLetter_some _ _ _ _ _).2 ⟨d, f.mix d hm, rfl, rfl⟩
    simp [mixT, hm, walk_hit _ _ _ _ _ hh, h1]

theorem walkZ (ss : StyleSen) (f : StyleFacts ss) :
    walk [pZ, pLetter 'm' is01, pLetter 'c' isDigit] (zT ss ++ (mixT ss ++ compT ss)) =
      ([], [ss.z.map zText, ss.mix.map fun c => ['m', c], ss.compress.map fun c => ['c', c]], []) := by
  obtain ⟨h1, h2, h3⟩ := mixT_spec ss f
  cases hz : ss.z with
  | none =>
    have hn : search pZ (mixT ss ++ compT ss) = none :=
      search_none_of _ (· = 'z') (fun s hs => pZ_none _ hs) _ (by
        intro c hc; rcases h3 c hc with rfl | rfl | h
        · decide
        · decide
        · exact (digit_ne c h).1)
    simp [zT, hz, walk_skip _ _ _ hn, walkM ss f]
  | some z =>
    obtain ⟨hz1, hz2⟩ := f.z z hz
    have hh := pZ_complete z (mixT ss ++ compT ss) hz1 hz2
      (h2.mono (by rintro c (rfl | rfl) <;> decide))
    simp [zT, hz, walk_hit _ _ _ _ _ hh, h1]

theorem walk_kitty (ss : StyleSen) (f : StyleFacts ss) (hm : ss.method.all isLW = true) :
    walk kittyPats ss.unparse =
      ([], [ss.method.map fun c => [c], ss.z.map zText, ss.mix.map fun c => ['m', c],
            ss.compress.map fun c => ['c', c]], []) := by
  obtain ⟨h1, h2, h3⟩ := zT_spec ss f
  rw [unparse_eq]
  unfold kittyPats
  cases hmm : ss.method with
  | none =>
    have hn : search (pClass isLW) (zT ss ++ (mixT ss ++ compT ss)) = none :=
      search_none_of _ (fun c => isLW c = true)
        (fun s hs => pClass_none _ _ (hs.mono fun c h => by simpa using h)) _ (by
        intro c hc; rcases h3 c hc with rfl | rfl | rfl | rfl | h
        · decide
        · decide
        · decide
        · decide
        · simp [(digit_ne c h).2.2.2.2.2])
    simp [walk_skip _ _ _ hn, walkZ ss f]
  | some c =>
    have hc : isLW c = true := by simpa [hmm] using hm
    have hh : pClass isLW (c :: (zT ss ++ (mixT ss ++ compT ss))) = some ([c], zT ss ++ (mixT ss ++ compT ss)) :=
      (pClass_some _ _ _ _).2 ⟨c, hc, rfl, rfl⟩
    simp [walk_hit _ _ _ _ _ hh, h1]

theorem walk_iterm2 (ss : StyleSen) (f : StyleFacts ss) (hm : ss.method.all isLWA = true)
    (hz : ss.z = none) :
    walk iterm2Pats ss.unparse =
      ([], [ss.method.map fun c => [c], ss.mix.map fun c => ['m', c],
            ss.compress.map fun c => ['c', c]], []) := by
  obtain ⟨h1, h2, h3⟩ := mixT_spec ss f
  rw [unparse_eq]
  have hzt : zT ss = [] := by simp [zT, hz]
  rw [hzt, List.nil_append]
  unfold iterm2Pats
  cases hmm : ss.method with
  | none =>
    have hn : search (pClass isLWA) (mixT ss ++ compT ss) = none :=
      search_none_of _ (fun c => isLWA c = true)
        (fun s hs => pClass_none _ _ (hs.mono fun c h => by simpa using h)) _ (by
        intro c hc; rcases h3 c hc with rfl | rfl | h
        · decide
        · decide
        · simp [(digit_ne c h).2.2.2.2.1])
    simp [walk_skip _ _ _ hn, walkM ss f]
  | some c =>
    have hc : isLWA c = true := by simpa [hmm] using hm
    have hh : pClass isLWA (c :: (mixT ss ++ compT ss)) = some ([c], mixT ss ++ compT ss) :=
      (pClass_some _ _ _ _).2 ⟨c, hc, rfl, rfl⟩
    simp [walk_hit _ _ _ _ _ hh, h1]


theorem digit_val (c : Char) (h : isDigit c = true) : natOfDigits [c] ≤ 9 := by
  simp only [isDigit, Bool.and_eq_true, decide_eq_true_eq] at h
  obtain ⟨h1, h2⟩ := h
  rw [Char.le_def, UInt32.le_iff_toNat_le] at h1 h2
  have e1 : ('0' : Char).val.toNat = 48 := by decide
  have e2 : ('9' : Char).val.toNat = 57 := by decide
  rw [e1] at h1; rw [e2] at h2
  show (0 * 10 + (c.toNat - '0'.toNat)) ≤ 9
  have e3 : ('0' : Char).toNat = 48 := by decide
  rw [e3]
  show 0 * 10 + (c.val.toNat - 48) ≤ 9
  omega

theorem zValue_zText (z : Bool × List Char) (h1 : z.2 ≠ []) (h2 : ∀ c ∈ z.2, isDigit c = true) :
    zValue (zText z) = zInt z := by
  obtain ⟨neg, ds⟩ := z
  cases neg with
  | true => simp [zValue, zText, zInt]
  | false =>
    cases ds with
    | nil => exact absurd rfl h1
    | cons d t =>
      have hd : d ≠ '-' := (digit_ne d (h2 d (by simp))).2.2.2.1
      simp [zValue, zText, zInt, hd]

/-- the argument list the style's `_check_style_format_spec` builds from the matched fields -/
def kittyArgsOfFields (method z mix compress : Option (List Char)) : List (String × ArgVal) :=
  (match method with | some (c :: _) => [("method", .str (methodName c))] | _ => []) ++
  (match z with | some f => [("z_index", .int (zValue f))] | none => []) ++
  (match mix with | some f => [("mix", .bool (lastDigit f != 0))] | none => []) ++
  (match compress with | some f => [("compress", .int (lastDigit f))] | none => [])

theorem args_of_fields (ss : StyleSen) (f : StyleFacts ss) :
    kittyArgsOfFields (ss.method.map fun c => [c]) (ss.z.map zText) (ss.mix.map fun c => ['m', c])
      (ss.compress.map fun c => ['c', c]) = ss.explicitArgs := by
  unfold kittyArgsOfFields StyleSen.explicitArgs StyleSen.methArgs StyleSen.zArgs StyleSen.mixArgs StyleSen.compArgs
  have e1 : (match ss.method.map fun c => [c] with
      | some (c :: _) => [("method", ArgVal.str (methodName c))] | _ => []) =
      (match ss.method with | some c => [("method", .str (methodName c))] | none => []) := by
    cases ss.method <;> rfl
  have e2 : (match ss.z.map zText with | some f => [("z_index", ArgVal.int (zValue f))] | none => []) =
      (match ss.z with | some z => [("z_index", .int (zInt z))] | none => []) := by
    cases hz : ss.z with
    | none => rfl
    | some z => obtain ⟨a, b⟩ := f.z z hz; simp [zValue_zText z a b]
  have e3 : (match ss.mix.map fun c => ['m', c] with
      | some f => [("mix", ArgVal.bool (lastDigit f != 0))] | none => []) =
      (match ss.mix with | some c => [("mix", .bool (c == '1'))] | none => []) := by
    cases hm : ss.mix with
    | none => rfl
    | some c =>
      have := f.mix c hm
      simp only [is01, Bool.or_eq_true, beq_iff_eq] at this
      rcases this with rfl | rfl <;> decide
  have e4 : (match ss.compress.map fun c => ['c', c] with
      | some f => [("compress", ArgVal.int (lastDigit f))] | none => []) =
      (match ss.compress with | some c => [("compress", .int (natOfDigits [c]))] | none => []) := by
    cases ss.compress <;> rfl
  rw [e1, e2, e3, e4]
  simp only [List.append_assoc]
  rfl

/-- (B1) on the written form of a syntactically well-formed style sentence the style's check reduces
    to `_check_style_args` of the sentence's explicit arguments -/
theorem style_complete (st : Style) (ss : StyleSen) (h : ss.wfSyntax st = true) :
    checkStyleFormatSpec st ss.unparse = checkStyleArgs st ss.explicitArgs := by
  have f := facts_of_wf st ss h
  cases st with
  | block => simp [StyleSen.wfSyntax] at h
  | kitty =>
    have hm : ss.method.all isLW = true := by
      simp only [StyleSen.wfSyntax, Bool.and_eq_true] at h; exact h.1.1.1.1
    have hw := walk_kitty ss f hm
    simp only [checkStyleFormatSpec, getStyleFormatSpec, hw, ne_eq, not_true_eq_false, if_false]
    rw [← args_of_fields ss f]
    simp only [kittyArgsOfFields, List.append_assoc]
    rfl
  | iterm2 =>
    have hm : ss.method.all isLWA = true ∧ ss.z = none := by
      simp only [StyleSen.wfSyntax, Bool.and_eq_true] at h
      exact ⟨h.1.1.1.1.1, by simpa using h.1.1.1.1.2⟩
    have hw := walk_iterm2 ss f hm.1 hm.2
    simp only [checkStyleFormatSpec, getStyleFormatSpec, hw, ne_eq, not_true_eq_false, if_false]
    rw [← args_of_fields ss f]
    simp only [kittyArgsOfFields, hm.2, Option.map_none, List.append_nil, List.append_assoc]
    rfl


theorem checkStyleArgs_cons (st : Style) (n : String) (v : ArgVal) (rest : List (String × ArgVal))
    (valOk d : Bool) (h : styleArgCheck st n v = some (true, valOk, d)) :
    checkStyleArgs st ((n, v) :: rest) =
      if valOk then
        (match checkStyleArgs st rest with
          | .error e => .error e
          | .ok r => .ok (if d then r else (n, v) :: r))
      else .error .styleValue := by
  cases valOk with
  | false => simp [checkStyleArgs, h]
  | true => simp [checkStyleArgs, h]; rfl

theorem argsC (st : Style) (hst : st ≠ .block) (ss : StyleSen) (f : StyleFacts ss) :
    checkStyleArgs st ss.compArgs = .ok ss.compDen := by
  unfold StyleSen.compArgs StyleSen.compDen
  cases hc : ss.compress with
  | none => simp [checkStyleArgs]
  | some c =>
    have hv := digit_val c (f.comp c hc)
    have h1 : styleArgCheck st "compress" (.int (natOfDigits [c])) =
        some (true, true, ((natOfDigits [c] : Int) == 4)) := by
      have : compressOk (natOfDigits [c] : Int) = true := by
        simp only [compressOk, decide_eq_true_eq]; omega
      cases st with
      | block => exact absurd rfl hst
      | kitty => simp [styleArgCheck, this]
      | iterm2 => simp [styleArgCheck, this]
    rw [checkStyleArgs_cons st _ _ _ _ _ h1]
    simp only [checkStyleArgs, if_true]
    by_cases h4 : natOfDigits [c] = 4
    · simp [h4]
    · have : ¬ ((natOfDigits [c] : Int) = 4) := by omega
      simp [h4, this]

theorem argsM (st : Style) (hst : st ≠ .block) (ss : StyleSen) (f : StyleFacts ss) :
    checkStyleArgs st (ss.mixArgs ++ ss.compArgs) = .ok (ss.mixDen ++ ss.compDen) := by
  have hC := argsC st hst ss f
  unfold StyleSen.mixArgs StyleSen.mixDen
  cases hm : ss.mix with
  | none => simpa using hC
  | some c =>
    have h1 : styleArgCheck st "mix" (.bool (c == '1')) = some (true, true, !(c == '1')) := by
      cases st with
      | block => exact absurd rfl hst
      | kitty => simp [styleArgCheck]
      | iterm2 => simp [styleArgCheck]
    simp only [List.cons_append, List.nil_append]
    rw [checkStyleArgs_cons st _ _ _ _ _ h1, hC]
    by_cases h : c = '1'
    · simp [h]
    · simp [h]

theorem argsZ (st : Style) (hst : st ≠ .block) (ss : StyleSen) (f : StyleFacts ss)
    (hz : st = .iterm2 → ss.z = none) :
    checkStyleArgs st (ss.zArgs ++ (ss.mixArgs ++ ss.compArgs)) =
      if ss.zInRange then .ok (ss.zDen ++ (ss.mixDen ++ ss.compDen)) else .error .styleValue := by
  have hM := argsM st hst ss f
  unfold StyleSen.zArgs StyleSen.zDen
  cases hzz : ss.z with
  | none => simpa [hzz, StyleSen.zInRange] using hM
  | some z =>
    have hk : st = .kitty := by
      cases st with
      | block => exact absurd rfl hst
      | kitty => rfl
      | iterm2 => rw [hz rfl] at hzz; cases hzz
    subst hk
    have h1 : styleArgCheck .kitty "z_index" (.int (zInt z)) = some (true, zIndexOk (zInt z), zInt z == 0) := by
      simp [styleArgCheck]
    simp only [List.cons_append, List.nil_append]
    rw [checkStyleArgs_cons _ _ _ _ _ _ h1, hM]
    simp only [StyleSen.zInRange, hzz, Option.all_some, zIndexOk]
    by_cases hr : ((-2147483648 : Int) < zInt z ∧ zInt z < 2147483648)
    · by_cases h0 : zInt z = 0 <;> simp [hr, h0]
    · simp [hr]

theorem method_check (st : Style) (c : Char)
    (h : (st = .kitty ∧ isLW c = true) ∨ (st = .iterm2 ∧ isLWA c = true)) :
    styleArgCheck st "method" (.str (methodName c)) = some (true, true, false) := by
  rcases h with ⟨rfl, hc⟩ | ⟨rfl, hc⟩
  · simp only [isLW, Bool.or_eq_true, beq_iff_eq] at hc
    rcases hc with rfl | rfl <;> decide
  · simp only [isLWA, Bool.or_eq_true, beq_iff_eq] at hc
    rcases hc with (rfl | rfl) | rfl <;> decide

/-- (B3) `_check_style_args` on the explicit arguments of a sentence: range check, then defaults dropped -/
theorem args_check (st : Style) (ss : StyleSen) (h : ss.wfSyntax st = true) :
    checkStyleArgs st ss.explicitArgs =
      if ss.zInRange then .ok ss.denote else .error .styleValue := by
  have f := facts_of_wf st ss h
  have hst : st ≠ .block := by rintro rfl; simp [StyleSen.wfSyntax] at h
  have hz : st = .iterm2 → ss.z = none := by
    rintro rfl
    simp only [StyleSen.wfSyntax, Bool.and_eq_true] at h
    simpa using h.1.1.1.1.2
  have hZ := argsZ st hst ss f hz
  unfold StyleSen.explicitArgs StyleSen.denote StyleSen.methArgs
  cases hm : ss.method with
  | none => simpa using hZ
  | some c =>
    have hc : (st = .kitty ∧ isLW c = true) ∨ (st = .iterm2 ∧ isLWA c = true) := by
      simp only [StyleSen.wfSyntax, Bool.and_eq_true] at h
      cases st with
      | block => exact absurd rfl hst
      | kitty => left; exact ⟨rfl, by simpa [hm] using h.1.1.1.1⟩
      | iterm2 =>
        right
        have := h.1.1.1.1
        simp only [Bool.and_eq_true] at this
        exact ⟨rfl, by simpa [hm] using this.1⟩
    simp only [List.cons_append, List.nil_append]
    rw [checkStyleArgs_cons st _ _ _ _ _ (method_check st c hc), hZ]
    by_cases hr : ss.zInRange = true
    · simp [hr]
    · simp [hr]


/-! soundness of the style walk -/
def optF (p : Matcher) (s : List Char) : Option (List Char) × List Char :=
  match p s with | some (m, r) => (some m, r) | none => (none, s)

theorem matchRest_cons (p : Matcher) (ps : List Matcher) (s : List Char) :
    matchRest (p :: ps) s = ((optF p s).1 :: (matchRest ps (optF p s).2).1, (matchRest ps (optF p s).2).2) := by
  simp only [matchRest, optF]
  cases p s with
  | none => rfl
  | some x => rfl

theorem optF_class (ok : Char → Bool) (s : List Char) :
    ∃ mo : Option Char, mo.all ok = true ∧ s = mo.toList ++ (optF (pClass ok) s).2 := by
  unfold optF
  cases h : pClass ok s with
  | none => exact ⟨none, rfl, by simp⟩
  | some x =>
    obtain ⟨m, r⟩ := x
    obtain ⟨c, hc, rfl, rfl⟩ := (pClass_some ok s m r).1 h
    exact ⟨some c, by simpa using hc, by simp⟩

theorem optF_letter (l : Char) (ok : Char → Bool) (s : List Char) :
    ∃ co : Option Char, co.all ok = true ∧
      s = (match co with | some c => [l, c] | none => []) ++ (optF (pLetter l ok) s).2 := by
  unfold optF
  cases h : pLetter l ok s with
  | none => exact ⟨none, rfl, by simp⟩
  | some x =>
    obtain ⟨m, r⟩ := x
    obtain ⟨c, hc, rfl, rfl⟩ := (pLetter_some l ok s m r).1 h
    exact ⟨some c, by simpa using hc, by simp⟩

theorem optF_z (s : List Char) :
    ∃ zo : Option (Bool × List Char), zo.all (fun z => z.2 ≠ [] && z.2.all isDigit) = true ∧
      s = (match zo with | some z => zText z | none => []) ++ (optF pZ s).2 := by
  unfold optF
  cases h : pZ s with
  | none => exact ⟨none, rfl, by simp⟩
  | some x =>
    obtain ⟨m, r⟩ := x
    obtain ⟨z, h1, h2, rfl, rfl⟩ := pZ_sound s m r h
    refine ⟨some z, ?_, by simp⟩
    simp only [Option.all_some, Bool.and_eq_true, decide_eq_true_eq, List.all_eq_true]
    exact ⟨h1, h2⟩

theorem kitty_sound (t : List Char) (ht : t ≠ []) (h : (matchRest kittyPats t).2 = []) :
    ∃ ss : StyleSen, ss.wfSyntax .kitty = true ∧ ss.unparse = t := by
  unfold kittyPats at h
  rw [matchRest_cons, matchRest_cons, matchRest_cons, matchRest_cons] at h
  simp only [matchRest] at h
  obtain ⟨mo, hm, e1⟩ := optF_class isLW t
  obtain ⟨zo, hz, e2⟩ := optF_z (optF (pClass isLW) t).2
  obtain ⟨xo, hx, e3⟩ := optF_letter 'm' is01 (optF pZ (optF (pClass isLW) t).2).2
  obtain ⟨co, hc, e4⟩ := optF_letter 'c' isDigit
    (optF (pLetter 'm' is01) (optF pZ (optF (pClass isLW) t).2).2).2
  rw [h, List.append_nil] at e4
  rw [e4] at e3; rw [e3] at e2; rw [e2] at e1
  refine ⟨⟨mo, zo, xo, co⟩, ?_, ?_⟩
  · simp only [StyleSen.wfSyntax, hm, hz, hx, hc, Bool.true_and, Bool.and_true]
    cases mo <;> cases zo <;> cases xo <;> cases co <;> simp_all
  · rw [e1]; cases zo <;> rfl

theorem iterm2_sound (t : List Char) (ht : t ≠ []) (h : (matchRest iterm2Pats t).2 = []) :
    ∃ ss : StyleSen, ss.wfSyntax .iterm2 = true ∧ ss.unparse = t := by
  unfold iterm2Pats at h
  rw [matchRest_cons, matchRest_cons, matchRest_cons] at h
  simp only [matchRest] at h
  obtain ⟨mo, hm, e1⟩ := optF_class isLWA t
  obtain ⟨xo, hx, e3⟩ := optF_letter 'm' is01 (optF (pClass isLWA) t).2
  obtain ⟨co, hc, e4⟩ := optF_letter 'c' isDigit (optF (pLetter 'm' is01) (optF (pClass isLWA) t).2).2
  rw [h, List.append_nil] at e4
  rw [e4] at e3; rw [e3] at e1
  refine ⟨⟨mo, none, xo, co⟩, ?_, ?_⟩
  · simp only [StyleSen.wfSyntax, hm, hx, hc, Bool.true_and, Bool.and_true]
    cases mo <;> cases xo <;> cases co <;> simp_all
  · rw [e1]; rfl

/-- (B2) whatever the style's check does not reject as a `StyleError` is the written form of a
    syntactically well-formed style sentence -/
theorem style_sound (st : Style) (t : List Char) (ht : t ≠ [])
    (h : checkStyleFormatSpec st t ≠ .error .styleError) :
    ∃ ss : StyleSen, ss.wfSyntax st = true ∧ ss.unparse = t := by
  cases st with
  | block => simp [checkStyleFormatSpec, baseCheckStyleFormatSpec, ht] at h
  | kitty =>
    by_cases hinv : (walk kittyPats t).2.2 = []
    · by_cases hpar : (walk kittyPats t).1 = []
      · have := walk_imp_matchRest kittyPats t (walk kittyPats t).2.1 (Prod.ext hpar (Prod.ext rfl hinv))
        exact kitty_sound t ht (by rw [this])
      · simp [checkStyleFormatSpec, getStyleFormatSpec, hinv, hpar, baseCheckStyleFormatSpec] at h
    · simp [checkStyleFormatSpec, getStyleFormatSpec, hinv] at h
  | iterm2 =>
    by_cases hinv : (walk iterm2Pats t).2.2 = []
    · by_cases hpar : (walk iterm2Pats t).1 = []
      · have := walk_imp_matchRest iterm2Pats t (walk iterm2Pats t).2.1 (Prod.ext hpar (Prod.ext rfl hinv))
        exact iterm2_sound t ht (by rw [this])
      · simp [checkStyleFormatSpec, getStyleFormatSpec, hinv, hpar, baseCheckStyleFormatSpec] at h
    · simp [checkStyleFormatSpec, getStyleFormatSpec, hinv] at h


/-! ## Part C — `_check_format_spec` as a whole -/

/-- the groups a sentence is matched into -/
def Sentence.groups (sen : Sentence) : Groups :=
  ⟨sen.hAlign, sen.width, sen.vert, sen.alpha, sen.style.map (·.unparse)⟩

theorem groups_unparse (sen : Sentence) : sen.groups.unparse = sen.unparse := by
  unfold Groups.unparse Sentence.unparse Sentence.groups
  cases sen.alpha <;> cases sen.style <;> rfl

theorem style_text_ok (st : Style) (ss : StyleSen) (h : ss.wfSyntax st = true) :
    ss.unparse ≠ [] ∧ '\n' ∉ ss.unparse := by
  have f := facts_of_wf st ss h
  obtain ⟨_, _, h3⟩ := zT_spec ss f
  have hm : ss.method.all isLWA = true := by
    simp only [StyleSen.wfSyntax, Bool.and_eq_true] at h
    cases st with
    | block => simp at h
    | kitty =>
      have := h.1.1.1.1
      cases hmm : ss.method with
      | none => rfl
      | some c =>
        simp only [hmm, Option.all_some, isLW, Bool.or_eq_true, beq_iff_eq] at this
        rcases this with rfl | rfl <;> decide
    | iterm2 => have := h.1.1.1.1; simp only [Bool.and_eq_true] at this; exact this.1
  constructor
  · intro he
    simp only [StyleSen.wfSyntax, Bool.and_eq_true, Bool.or_eq_true] at h
    have := h.2
    rw [unparse_eq] at he
    simp only [List.append_eq_nil_iff] at he
    obtain ⟨e1, e2, e3, e4⟩ := he
    cases hmm : ss.method <;> cases hz : ss.z <;> cases hx : ss.mix <;> cases hc : ss.compress <;>
      simp_all [zT, mixT, compT, zText]
  · rw [unparse_eq]
    intro hmem
    simp only [List.mem_append] at hmem
    rcases hmem with hmem | hmem
    · cases hmm : ss.method with
      | none => simp [hmm] at hmem
      | some c =>
        simp [hmm] at hmem; subst hmem
        simp only [hmm, Option.all_some] at hm
        revert hm; decide
    · rcases h3 '\n' (by simpa using hmem) with h | h | h | h | h <;> revert h <;> decide

theorem groups_wf (st : Style) (sen : Sentence) (h : sen.wfMain = true)
    (hs : ∀ ss, sen.style = some ss → ss.wfSyntax st = true) : sen.groups.WfRaw := by
  simp only [Sentence.wfMain, Bool.and_eq_true] at h
  obtain ⟨⟨⟨h1, h2⟩, h3⟩, h4⟩ := h
  refine ⟨h1, h2, ?_, ?_, ?_⟩
  · show vertWf sen.vert = true
    cases hv : sen.vert with
    | none => rfl
    | some v =>
      rw [hv] at h3; simp only [Option.all_some, Bool.and_eq_true] at h3
      simp only [vertWf, Option.all_some, Bool.and_eq_true]; exact h3.1
  · show sen.alpha.all alphaWf = true
    cases ha : sen.alpha with
    | none => rfl
    | some a => rw [ha] at h4; cases a <;> simpa [alphaWf] using h4
  · intro t ht
    simp only [Sentence.groups, Option.map_eq_some_iff] at ht
    obtain ⟨ss, hss, rfl⟩ := ht
    exact style_text_ok st ss (hs ss hss)

theorem hAlignOf_char (c : Char) (h : isHAlign c = true) : hAlignOf [c] = some c := by
  simp only [isHAlign, Bool.or_eq_true, beq_iff_eq] at h
  rcases h with (rfl | rfl) | rfl <;> decide
theorem vAlignOf_char (c : Char) (h : isVAlign c = true) : vAlignOf [c] = some c := by
  simp only [isVAlign, Bool.or_eq_true, beq_iff_eq] at h
  rcases h with (rfl | rfl) | rfl <;> decide

theorem absDim_width (cols : Nat) (w : List Char) : absDim cols (widthArg w) = padOf cols 0 w := by
  unfold absDim widthArg padOf
  by_cases hw : w = []
  · subst hw; simp [natOfDigits]
  · simp only [hw, if_false]
    by_cases hn : natOfDigits w > 0
    · have : ((natOfDigits w : Nat) : Int) > 0 := by omega
      simp [hn, this]
    · have : ¬ ((natOfDigits w : Nat) : Int) > 0 := by omega
      have h0 : natOfDigits w = 0 := by omega
      simp [hn, h0]

theorem absDim_height (lines : Nat) (h : List Char) : absDim lines (heightArg h) = padOf lines 2 h := by
  unfold absDim heightArg padOf
  by_cases hw : h = []
  · subst hw; simp; omega
  · simp only [hw, if_false]
    by_cases hn : natOfDigits h > 0
    · have : ((natOfDigits h : Nat) : Int) > 0 := by omega
      simp [hn, this]
    · have : ¬ ((natOfDigits h : Nat) : Int) > 0 := by omega
      have h0 : natOfDigits h = 0 := by omega
      simp [hn, h0]

theorem formatting_sentence (cols lines : Nat) (sen : Sentence) (h : sen.wfMain = true) :
    checkFormatting cols lines (sen.hAlign.map fun c => [c]) (widthArg sen.width)
      (sen.vert.bind fun v => v.1.map fun c => [c]) (heightArg (sen.vert.elim [] fun v => v.2)) =
    .ok (sen.denote cols lines).fmt := by
  simp only [Sentence.wfMain, Bool.and_eq_true] at h
  obtain ⟨⟨⟨h1, _⟩, h3⟩, _⟩ := h
  have e1 : hArg (sen.hAlign.map fun c => [c]) = some sen.hAlign := by
    cases hh : sen.hAlign with
    | none => rfl
    | some c => rw [hh] at h1; simp [hArg, hAlignOf_char c (by simpa using h1)]
  have e2 : vArg (sen.vert.bind fun v => v.1.map fun c => [c]) = some (sen.vert.bind (·.1)) := by
    cases hv : sen.vert with
    | none => rfl
    | some v =>
      obtain ⟨va, ht⟩ := v
      rw [hv] at h3; simp only [Option.all_some, Bool.and_eq_true] at h3
      cases va with
      | none => rfl
      | some c => simp [vArg, vAlignOf_char c (by simpa using h3.1.1)]
  have e3 : (sen.vert.elim [] fun v => v.2) = sen.heightDigits := by
    unfold Sentence.heightDigits; cases sen.vert <;> rfl
  simp only [checkFormatting, e1, e2, absDim_width, absDim_height, e3, Sentence.denote]

theorem alphaOf_denote (cols lines : Nat) (sen : Sentence) :
    alphaOf sen.alpha = (sen.denote cols lines).alpha := by
  unfold alphaOf Sentence.denote
  cases sen.alpha with
  | none => rfl
  | some a => cases a <;> rfl

/-- MAIN LEMMA: what `_check_format_spec` does on the written form of a sentence whose main part
    is well-formed and whose style part is lexically a style sentence -/
theorem check_unparse (st : Style) (cols lines : Nat) (sen : Sentence) (h : sen.wfMain = true)
    (hs : ∀ ss, sen.style = some ss → ss.wfSyntax st = true) :
    checkFormatSpec st cols lines sen.unparse =
      if sen.style.all (·.zInRange) then .ok (sen.denote cols lines) else .error .styleValue := by
  have hg := groups_wf st sen h hs
  have hf := fmtMatch_complete _ hg
  have hn := noVertMatch_unparse _ hg
  rw [groups_unparse] at hf hn
  have hv : sen.groups.vert ≠ some (none, []) := by
    simp only [Sentence.wfMain, Bool.and_eq_true] at h
    intro hv
    have h3 := h.1.2
    simp only [Sentence.groups] at hv
    rw [hv] at h3
    simp at h3
  have hn' : noVertMatch sen.unparse = false := by rw [hn]; simpa using hv
  have hfm := formatting_sentence cols lines sen h
  simp only [checkFormatSpec, hf, hn', Bool.false_eq_true, if_false, Sentence.groups, hfm]
  cases hst : sen.style with
  | none => simp [alphaOf_denote cols lines sen, Sentence.denote, hst]
  | some ss =>
    have hw := hs ss hst
    simp only [Option.map_some, style_complete st ss hw, args_check st ss hw, Option.all_some]
    by_cases hr : ss.zInRange = true
    · simp [hr, alphaOf_denote cols lines sen, Sentence.denote, hst]
    · simp [hr]


theorem wfMain_of_groups (g : Groups) (hg : g.WfRaw) (hv : g.vert ≠ some (none, [])) (sty : Option StyleSen) :
    (⟨g.hAlign, g.width, g.vert, g.alpha, sty⟩ : Sentence).wfMain = true := by
  obtain ⟨h1, h2, h3, h4, _⟩ := hg
  simp only [Sentence.wfMain, Bool.and_eq_true]
  refine ⟨⟨⟨h1, h2⟩, ?_⟩, ?_⟩
  · cases hvv : g.vert with
    | none => rfl
    | some v =>
      obtain ⟨va, ht⟩ := v
      rw [hvv] at h3 hv
      simp only [vertWf, Option.all_some, Bool.and_eq_true] at h3
      simp only [Option.all_some, Bool.and_eq_true, Bool.or_eq_true, decide_eq_true_eq]
      refine ⟨h3, ?_⟩
      cases va with
      | some a => left; rfl
      | none =>
        right; intro h; subst h; exact hv rfl
  · cases ha : g.alpha with
    | none => rfl
    | some a => rw [ha] at h4; cases a <;> simpa [alphaWf] using h4

/-- SOUNDNESS: everything `_check_format_spec` does not reject with a main-part or style-syntax error
    is the written form of a sentence whose main part is well-formed and whose style part is lexically
    a style sentence -/
theorem check_sound_syntax (st : Style) (cols lines : Nat) (s : List Char)
    (h : checkFormatSpec st cols lines s ≠ .error .invalidSpec)
    (h' : checkFormatSpec st cols lines s ≠ .error .styleError) :
    ∃ sen : Sentence, sen.wfMain = true ∧ (∀ ss, sen.style = some ss → ss.wfSyntax st = true) ∧
      sen.unparse = s := by
  cases hf : fmtMatch s with
  | none => simp [checkFormatSpec, hf] at h
  | some g =>
    obtain ⟨hg, hu⟩ := fmtMatch_sound s g hf
    have hn : noVertMatch s = false := by
      cases hnn : noVertMatch s with
      | false => rfl
      | true => simp [checkFormatSpec, hf, hnn] at h
    have hv : g.vert ≠ some (none, []) := by
      have := noVertMatch_unparse g hg
      rw [hu, hn] at this
      simpa using this.symm
    cases hst : g.style with
    | none =>
      refine ⟨⟨g.hAlign, g.width, g.vert, g.alpha, none⟩, wfMain_of_groups g hg hv none, by simp, ?_⟩
      rw [← groups_unparse, ← hu]
      simp only [Sentence.groups, Groups.unparse, hst, Option.map_none]
    | some t =>
      have ht := hg.2.2.2.2 t hst
      have hne : checkStyleFormatSpec st t ≠ .error .styleError := by
        intro he
        apply h'
        have hfm := formatting_sentence cols lines ⟨g.hAlign, g.width, g.vert, g.alpha, none⟩
          (wfMain_of_groups g hg hv none)
        simp only [checkFormatSpec, hf, hn, Bool.false_eq_true, if_false, hfm, hst, he]
      obtain ⟨ss, hss, hsu⟩ := style_sound st t ht.1 hne
      refine ⟨⟨g.hAlign, g.width, g.vert, g.alpha, some ss⟩, wfMain_of_groups g hg hv _, ?_, ?_⟩
      · intro ss' h1; simp at h1; subst h1; exact hss
      · rw [← groups_unparse, ← hu]
        simp only [Sentence.groups, Groups.unparse, hst, Option.map_some, hsu]


/-! ## Part D — which error for which non-sentence -/

def mainText (g : Groups) : List Char :=
  g.hAlign.toList ++ (g.width ++ (unparseVert g.vert ++ alphaU g.alpha))

theorem unparse_split (g : Groups) : g.unparse = mainText g ++ styleU g.style := by
  simp [Groups.unparse, mainText, List.append_assoc]

theorem np_halign {c : Char} (h : isHAlign c = true) : (c != '+') = true := by
  simp only [bne_iff_ne]; rintro rfl; revert h; decide
theorem np_valign {c : Char} (h : isVAlign c = true) : (c != '+') = true := by
  simp only [bne_iff_ne]; rintro rfl; revert h; decide
theorem np_hex {c : Char} (h : isHex c = true) : (c != '+') = true := by
  simp only [bne_iff_ne]; rintro rfl; revert h; decide
theorem np_digit {c : Char} (h : isDigit c = true) : (c != '+') = true := np_hex (digit_is_hex h)

theorem mainText_noplus (g : Groups) (hg : g.WfRaw) : ∀ c ∈ mainText g, (c != '+') = true := by
  obtain ⟨h1, h2, h3, h4, _⟩ := hg
  intro c hc
  simp only [mainText, List.mem_append] at hc
  rcases hc with hc | hc | hc | hc
  · cases hh : g.hAlign with
    | none => simp [hh] at hc
    | some a => simp [hh] at hc; subst hc; rw [hh] at h1; exact np_halign (by simpa using h1)
  · exact np_digit ((List.all_eq_true.1 h2) c hc)
  · cases hv : g.vert with
    | none => simp [hv, unparseVert] at hc
    | some v =>
      obtain ⟨va, ht⟩ := v
      rw [hv] at h3
      simp only [vertWf, Option.all_some, Bool.and_eq_true] at h3
      simp only [hv, unparseVert, List.mem_cons, List.mem_append] at hc
      rcases hc with (rfl | hc) | hc
      · decide
      · cases va with
        | none => simp at hc
        | some a => simp at hc; subst hc; exact np_valign (by simpa using h3.1)
      · exact np_digit ((List.all_eq_true.1 h3.2) c hc)
  · cases ha : g.alpha with
    | none => simp [ha, alphaU] at hc
    | some a =>
      rw [ha] at h4
      cases a with
      | disabled => simp [ha, alphaU, AlphaSyn.unparse] at hc; subst hc; decide
      | termbg => simp [ha, alphaU, AlphaSyn.unparse] at hc; subst hc; decide
      | thr d =>
        simp [alphaWf] at h4
        simp only [ha, alphaU, AlphaSyn.unparse, List.mem_cons] at hc
        rcases hc with rfl | rfl | hc
        · decide
        · decide
        · exact np_digit (h4.2 c hc)
      | hex x =>
        simp [alphaWf] at h4
        simp only [ha, alphaU, AlphaSyn.unparse, List.mem_cons] at hc
        rcases hc with rfl | hc
        · decide
        · exact np_hex (h4.2 c hc)

theorem splitPlus_unparse (g : Groups) (hg : g.WfRaw) : splitPlus g.unparse = (mainText g, g.style) := by
  have h := takeWhile_append_stop (p := (· != '+')) (mainText g) (styleU g.style) (mainText_noplus g hg)
    ((styleU_head g.style).mono (by rintro c rfl; decide))
  rw [unparse_split]
  simp only [splitPlus, h.1, h.2]
  cases g.style <;> rfl

theorem mainPart_of_groups (g : Groups) (hg : g.WfRaw) (hv : g.vert ≠ some (none, [])) :
    MainPart (mainText g) := by
  refine ⟨⟨g.hAlign, g.width, g.vert, g.alpha, none⟩, rfl, wfMain_of_groups g hg hv none, ?_⟩
  simp only [Sentence.unparse, mainText, List.append_nil]
  cases g.alpha <;> rfl

/-- (⇒) whatever is not rejected as an invalid format specifier has a well-formed main part before
    its first `+`, and a non-empty, line-break-free text after it (if there is a `+`) -/
theorem not_invalid_imp (st : Style) (cols lines : Nat) (s : List Char)
    (h : checkFormatSpec st cols lines s ≠ .error .invalidSpec) :
    MainPart (splitPlus s).1 ∧ ∀ t, (splitPlus s).2 = some t → t ≠ [] ∧ '\n' ∉ t := by
  cases hf : fmtMatch s with
  | none => simp [checkFormatSpec, hf] at h
  | some g =>
    obtain ⟨hg, hu⟩ := fmtMatch_sound s g hf
    have hn : noVertMatch s = false := by
      cases hnn : noVertMatch s with
      | false => rfl
      | true => simp [checkFormatSpec, hf, hnn] at h
    have hv : g.vert ≠ some (none, []) := by
      have := noVertMatch_unparse g hg
      rw [hu, hn] at this
      simpa using this.symm
    rw [← hu, splitPlus_unparse g hg]
    exact ⟨mainPart_of_groups g hg hv, hg.2.2.2.2⟩

/-- the groups of a main part followed by `+t` -/
theorem check_main_style (st : Style) (cols lines : Nat) (s t : List Char)
    (hm : MainPart (splitPlus s).1) (ht : (splitPlus s).2 = some t) (hne : t ≠ []) (hnl : '\n' ∉ t) :
    ∃ sen : Sentence, sen.style = none ∧ sen.wfMain = true ∧ s = sen.unparse ++ '+' :: t ∧
      checkFormatSpec st cols lines s =
        (match checkStyleFormatSpec st t with
          | .error e => .error e
          | .ok args => .ok ⟨(sen.denote cols lines).fmt, (sen.denote cols lines).alpha, args⟩) := by
  obtain ⟨sen, hs, hw, hu⟩ := hm
  have hsplit : s = (splitPlus s).1 ++ '+' :: t := by
    have := List.takeWhile_append_dropWhile (p := (· != '+')) (l := s)
    simp only [splitPlus] at ht ⊢
    cases hd : s.dropWhile (· != '+') with
    | nil => simp [hd, restToStyle] at ht
    | cons c r =>
      simp only [hd, restToStyle, Option.some.injEq] at ht
      subst ht
      have hc := dropWhile_head (p := (· != '+')) s c (by rw [hd]; rfl)
      have : c = '+' := by simpa using hc
      subst this
      rw [← hd]; exact this.symm
  refine ⟨sen, hs, hw, by rw [hu]; exact hsplit, ?_⟩
  let g : Groups := ⟨sen.hAlign, sen.width, sen.vert, sen.alpha, some t⟩
  have hg0 := groups_wf st sen hw (by simp [hs])
  have hg : g.WfRaw := ⟨hg0.1, hg0.2.1, hg0.2.2.1, hg0.2.2.2.1, by
    intro t' h'; simp only [g, Option.some.injEq] at h'; subst h'; exact ⟨hne, hnl⟩⟩
  have hgu : g.unparse = s := by
    rw [hsplit, ← hu]
    simp only [Groups.unparse, g, Sentence.unparse, hs, styleU, List.append_nil, List.append_assoc]
    cases sen.alpha <;> simp [alphaU]
  have hf := fmtMatch_complete g hg
  have hn := noVertMatch_unparse g hg
  rw [hgu] at hf hn
  have hv : sen.vert ≠ some (none, []) := by
    simp only [Sentence.wfMain, Bool.and_eq_true] at hw
    intro hv; have h3 := hw.1.2; rw [hv] at h3; simp at h3
  have hn' : noVertMatch s = false := by rw [hn]; simpa [g] using hv
  have hfm := formatting_sentence cols lines sen hw
  simp only [checkFormatSpec, hf, hn', Bool.false_eq_true, if_false, g, hfm, alphaOf_denote cols lines sen]
  cases checkStyleFormatSpec st t <;> rfl

theorem unparse_with_style (sen : Sentence) (hs : sen.style = none) (ss : StyleSen) :
    ({ sen with style := some ss } : Sentence).unparse = sen.unparse ++ '+' :: ss.unparse := by
  simp only [Sentence.unparse, hs, List.append_nil, List.append_assoc]

theorem splitPlus_none (s : List Char) (h : (splitPlus s).2 = none) : (splitPlus s).1 = s := by
  simp only [splitPlus] at h ⊢
  have := List.takeWhile_append_dropWhile (p := (· != '+')) (l := s)
  cases hd : s.dropWhile (· != '+') with
  | nil => rw [hd, List.append_nil] at this; exact this
  | cons c r => simp [hd, restToStyle] at h

end TIV.C19
