import TIV.Common.DriverMain
import TIV.C19.Drive
def main : IO Unit := TIV.driverMain TIV.C19.handler
