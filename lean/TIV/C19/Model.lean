/-!
# C19 — format specifiers: executable model of the code (import-free)

Mirrors, in the order the code does things,

* `_FORMAT_SPEC.fullmatch`            → `fmtMatch`      (common.py l.62-65, `re.ASCII`)
* `_NO_VERTICAL_SPEC.fullmatch`       → `noVertMatch`   (common.py l.66-68, `re.ASCII`, REPAIRED source)
* `_ALPHA_BG_FORMAT.fullmatch`        → `alphaBgMatch`  (common.py l.69)
* `BaseImage._check_format_spec`      → `checkFormatSpec`
* `BaseImage._check_formatting`       → `checkFormatting`
* `BaseImage._get_style_format_spec`  → `getStyleFormatSpec` (search-then-match walk over a pattern tuple)
* `KittyImage/ITerm2Image/BaseImage._check_style_format_spec` → `checkStyleFormatSpec`
* `BaseImage._check_style_args`       → `checkStyleArgs`
* `BaseImage.__format__` / `BaseImage.draw` argument processing → `formatCall` / `drawCall`
* CPython `float(".ddd")`             → `decToF64` (correctly rounded decimal → binary64; driver only)

`re` is a parameter of the real code; the three module regexes and the five style patterns are
re-expressed here as deterministic recognisers.  That they recognise what CPython's `re` does with
the *generated* sources is what the correspondence check establishes (exhaustively up to a length
bound); that the sources are the ones written for is `Props.regex_sources`.

Strings are `List Char` (code points).  `\d` is `[0-9]`: the module regexes carry `re.ASCII`; the
style patterns do not, so for them the model is the code on ASCII input only (DESIGN §5 C19).
-/
namespace TIV.C19

/-! ## character classes -/
def isDigit (c : Char) : Bool := '0' ≤ c && c ≤ '9'
def isHex (c : Char) : Bool := isDigit c || ('a' ≤ c && c ≤ 'f') || ('A' ≤ c && c ≤ 'F')
def isHAlign (c : Char) : Bool := c == '<' || c == '|' || c == '>'
def isVAlign (c : Char) : Bool := c == '-' || c == '^' || c == '_'

/-- `(X)?` for a one-character class, greedy -/
def optChar (p : Char → Bool) : List Char → Option Char × List Char
  | c :: r => if p c then (some c, r) else (none, c :: r)
  | [] => (none, [])

/-- `int(str)` on a string of ASCII digits (`int("")` is never evaluated by the code: guarded) -/
def natOfDigits (ds : List Char) : Nat := ds.foldl (fun n c => n * 10 + (c.toNat - '0'.toNat)) 0

/-! ## the module-level regexes -/

/-- group 8 of `_FORMAT_SPEC` (`threshold_or_bg`), by alternative -/
inductive AlphaSyn where
  | disabled                     -- `#` alone           (group 8 = None)
  | thr (digits : List Char)     -- `#.ddd`             (group 8 = ".ddd")
  | hex (x : List Char)          -- `#rrggbb`           (group 8 = "rrggbb")
  | termbg                       -- `##`                (group 8 = "#")
deriving DecidableEq, Repr

/-- the groups of a successful `_FORMAT_SPEC.fullmatch` that the code reads -/
structure Groups where
  hAlign : Option Char                        -- group 2
  width : List Char                           -- group 3 ([] = None)
  vert : Option (Option Char × List Char)     -- group 4 present; groups 5, 6 ([] = None)
  alpha : Option AlphaSyn                     -- group 7 present; group 8
  style : Option (List Char)                  -- group 10
deriving DecidableEq, Repr

/-- `(\.([-^_])?(\d+)?)?` -/
def parseVert : List Char → Option (Option Char × List Char) × List Char
  | c :: t =>
    if c = '.' then
      ((some ((optChar isVAlign t).1, (optChar isVAlign t).2.takeWhile isDigit)),
        (optChar isVAlign t).2.dropWhile isDigit)
    else (none, c :: t)
  | [] => (none, [])

/-- what follows a `#`: `(\.\d+|[0-9a-fA-F]{6}|#)?` — `none` when no continuation of the whole
    regex is possible from here (`#.` without digits, or 1–5 / a non-hex within 6 hex digits) -/
def parseAlphaArg : List Char → Option (AlphaSyn × List Char)
  | [] => some (.disabled, [])
  | c :: t =>
    if c = '#' then some (.termbg, t)
    else if c = '.' then
      if t.takeWhile isDigit = [] then none
      else some (.thr (t.takeWhile isDigit), t.dropWhile isDigit)
    else if isHex c then
      if 6 ≤ (c :: t).length ∧ ((c :: t).take 6).all isHex then
        some (.hex ((c :: t).take 6), (c :: t).drop 6)
      else none
    else some (.disabled, c :: t)

/-- `(#(\.\d+|[0-9a-fA-F]{6}|#)?)?` -/
def parseAlpha : List Char → Option (Option AlphaSyn × List Char)
  | [] => some (none, [])
  | c :: t =>
    if c = '#' then
      match parseAlphaArg t with
      | some (a, r) => some (some a, r)
      | none => none
    else some (none, c :: t)

/-- `(\+(.+))?` then end of string (`.` does not match a newline: no `re.DOTALL`) -/
def parseStyle : List Char → Option (Option (List Char))
  | [] => some none
  | c :: t => if c = '+' ∧ t ≠ [] ∧ '\n' ∉ t then some (some t) else none

/-- `_FORMAT_SPEC.fullmatch(spec)` -/
def fmtMatch (s : List Char) : Option Groups :=
  let h := optChar isHAlign s
  let w := h.2.takeWhile isDigit
  let v := parseVert (h.2.dropWhile isDigit)
  match parseAlpha v.2 with
  | none => none
  | some (a, r) =>
    match parseStyle r with
    | none => none
    | some st => some ⟨h.1, w, v.1, a, st⟩

/-- `_NO_VERTICAL_SPEC.fullmatch(spec)` (repaired source: `_FORMAT_SPEC` with a bare `\.`) -/
def noVertMatch (s : List Char) : Bool :=
  match (optChar isHAlign s).2.dropWhile isDigit with
  | c :: t =>
    if c = '.' then
      match parseAlpha t with
      | none => false
      | some (_, r) => (parseStyle r).isSome
    else false
  | [] => false

/-- `_NO_VERTICAL_SPEC.fullmatch(spec)` of the UNREPAIRED source
    `(([<|>])?(\d+)?)?\.(#(\.\d+|[0-9a-fA-F]{6})?)?` — kept only to state the defect -/
def noVertMatchOld (s : List Char) : Bool :=
  match (optChar isHAlign s).2.dropWhile isDigit with
  | c :: t =>
    if c = '.' then
      match t with
      | [] => true
      | d :: u =>
        if d = '#' then
          match u with
          | [] => true
          | e :: v =>
            if e = '.' then v ≠ [] ∧ v.all isDigit
            else (e :: v).length = 6 ∧ (e :: v).all isHex
        else false
    else false
  | [] => false

/-- `_ALPHA_BG_FORMAT.fullmatch(s)` : `#([0-9a-fA-F]{6})?` -/
def alphaBgMatch : List Char → Bool
  | c :: t => c = '#' ∧ (t = [] ∨ (t.length = 6 ∧ t.all isHex))
  | [] => false

/-! ## results -/
inductive Err where
  | invalidSpec    -- ValueError("Invalid format specifier")
  | styleError     -- StyleError
  | styleValue     -- ValueError from `_check_style_args` (value out of range)
  | argValue       -- ValueError from `_check_formatting` / `draw` argument checks
deriving DecidableEq, Repr

/-- the exception class; the format-specifier error is told apart from the other `ValueError`s by its
    documented message ("Invalid format specifier …", the one the repo's own tests match on) -/
def Err.className : Err → String
  | .styleError => "StyleError"
  | .invalidSpec => "ValueError:spec"
  | _ => "ValueError"

inductive Alpha where
  | default                    -- `_ALPHA_THRESHOLD`
  | disabled                   -- `None`
  | thr (digits : List Char)   -- `float("." ++ digits)`
  | bg (s : List Char)         -- `"#"` or `"#rrggbb"`
deriving DecidableEq, Repr

inductive ArgVal where
  | str (s : List Char) | int (i : Int) | bool (b : Bool)
deriving DecidableEq, Repr

structure Fmt where
  hAlign : Option Char
  width : Nat
  vAlign : Option Char
  height : Nat
deriving DecidableEq, Repr

/-- what reaches `_format_render(_render_image(img, alpha, **args), *fmt)` -/
structure Result where
  fmt : Fmt
  alpha : Alpha
  args : List (String × ArgVal)
deriving DecidableEq, Repr

inductive Style where | block | kitty | iterm2
deriving DecidableEq, Repr

/-! ## `_check_formatting` -/
def hAlignOf (s : List Char) : Option Char :=
  if s = ['<'] ∨ s = ['|'] ∨ s = ['>'] then s.head?
  else if s = "left".toList then some '<' else if s = "center".toList then some '|'
  else if s = "right".toList then some '>' else none

def vAlignOf (s : List Char) : Option Char :=
  if s = ['^'] ∨ s = ['-'] ∨ s = ['_'] then s.head?
  else if s = "top".toList then some '^' else if s = "middle".toList then some '-'
  else if s = "bottom".toList then some '_' else none

/-- `width if width > 0 else max(terminal_dimension + width, 1)` -/
def absDim (term : Nat) (d : Int) : Nat :=
  if d > 0 then d.toNat else max ((term : Int) + d).toNat 1

/-- `h_align` as given → the symbol (`some none` = `None`); `none` = ValueError -/
def hArg : Option (List Char) → Option (Option Char)
  | none => some none
  | some x => (hAlignOf x).map some
def vArg : Option (List Char) → Option (Option Char)
  | none => some none
  | some x => (vAlignOf x).map some

def checkFormatting (cols lines : Nat) (h : Option (List Char)) (width : Int)
    (v : Option (List Char)) (height : Int) : Except Err Fmt :=
  match hArg h with
  | none => .error .argValue
  | some h' =>
    match vArg v with
    | none => .error .argValue
    | some v' => .ok ⟨h', absDim cols width, v', absDim lines height⟩

/-! ## style-specific part -/

/-- a compiled pattern: `match(s)` at the start of `s` = (matched text, rest) -/
abbrev Matcher := List Char → Option (List Char × List Char)

/-- `[LW]`, `[LWA]` -/
def pClass (ok : Char → Bool) : Matcher
  | c :: r => if ok c then some ([c], r) else none
  | [] => none

/-- `m[01]`, `c[0-9]` -/
def pLetter (l : Char) (ok : Char → Bool) : Matcher
  | c :: d :: r => if c = l ∧ ok d then some ([c, d], r) else none
  | _ => none

/-- `z-?\d+` -/
def pZ : Matcher
  | c :: r =>
    if c = 'z' then
      let r1 := match r with | d :: t => if d = '-' then t else d :: t | [] => []
      let sign := match r with | d :: _ => if d = '-' then ['-'] else [] | [] => []
      if r1.takeWhile isDigit = [] then none
      else some ('z' :: sign ++ r1.takeWhile isDigit, r1.dropWhile isDigit)
    else none
  | [] => none

def isLW (c : Char) : Bool := c == 'L' || c == 'W'
def isLWA (c : Char) : Bool := c == 'L' || c == 'W' || c == 'A'
def is01 (c : Char) : Bool := c == '0' || c == '1'

def kittyPats : List Matcher := [pClass isLW, pZ, pLetter 'm' is01, pLetter 'c' isDigit]
def iterm2Pats : List Matcher := [pClass isLWA, pLetter 'm' is01, pLetter 'c' isDigit]

/-- `pattern.search(spec)`: leftmost match = (text before, matched text, rest) -/
def search (p : Matcher) : List Char → Option (List Char × List Char × List Char)
  | [] => match p [] with
    | some (m, r) => some ([], m, r)
    | none => none
  | c :: t => match p (c :: t) with
    | some (m, r) => some ([], m, r)
    | none => match search p t with
      | some (pre, m, r) => some (c :: pre, m, r)
      | none => none

/-- second loop of `_get_style_format_spec`: `pattern.match(spec, pos=end)` for the remaining patterns -/
def matchRest : List Matcher → List Char → List (Option (List Char)) × List Char
  | [], s => ([], s)
  | p :: ps, s => match p s with
    | some (m, r) => ((some m) :: (matchRest ps r).1, (matchRest ps r).2)
    | none => (none :: (matchRest ps s).1, (matchRest ps s).2)

/-- first loop of `_get_style_format_spec`: the first pattern that is found anywhere decides `start`;
    returns (parent, fields, invalid) -/
def walk : List Matcher → List Char → List Char × List (Option (List Char)) × List Char
  | [], s => (s, [], [])          -- no pattern found: start = end = len(spec)
  | p :: ps, s => match search p s with
    | some (pre, m, r) => (pre, some m :: (matchRest ps r).1, (matchRest ps r).2)
    | none => ((walk ps s).1, none :: (walk ps s).2.1, (walk ps s).2.2)

/-- `cls._get_style_format_spec(spec, original)` -/
def getStyleFormatSpec (pats : List Matcher) (spec : List Char) :
    Except Err (List Char × List (Option (List Char))) :=
  if (walk pats spec).2.2 ≠ [] then .error .styleError
  else .ok ((walk pats spec).1, (walk pats spec).2.1)

/-- `BaseImage._check_style_format_spec` (reached by `super()` from the styles; BlockImage's own) -/
def baseCheckStyleFormatSpec (spec : List Char) : Except Err (List (String × ArgVal)) :=
  if spec ≠ [] then .error .styleError else .ok []

/-- `_style_args` of a style as (name, default, value check); the type checks are carried by `ArgVal` -/
def zIndexOk (i : Int) : Bool := decide (-(2 ^ 31 : Int) < i ∧ i < 2 ^ 31)
def compressOk (i : Int) : Bool := decide (0 ≤ i ∧ i ≤ 9)
def sLines : List Char := ['l', 'i', 'n', 'e', 's']
def sWhole : List Char := ['w', 'h', 'o', 'l', 'e']
def sAnim : List Char := ['a', 'n', 'i', 'm']
/-- `x.lower() in cls._render_methods` -/
def methodOk (st : Style) (s : List Char) : Bool :=
  match st with
  | .kitty => s.map Char.toLower == sLines || s.map Char.toLower == sWhole
  | .iterm2 => s.map Char.toLower == sLines || s.map Char.toLower == sWhole || s.map Char.toLower == sAnim
  | .block => false

/-- one entry of `_check_style_args`' loop: `none` = unknown name (StyleError),
    `some (typeOk, valueOk, isDefault)` -/
def styleArgCheck (st : Style) (name : String) (v : ArgVal) : Option (Bool × Bool × Bool) :=
  match st, name, v with
  | .block, _, _ => none
  | .kitty, "z_index", .int i => some (true, zIndexOk i, i == 0)
  | .kitty, "z_index", .bool b => some (true, true, !b)        -- bool is an int in Python
  | .kitty, "z_index", _ => some (false, false, false)
  | .iterm2, "z_index", _ => none
  | _, "method", .str s => some (true, methodOk st s, false)
  | _, "method", _ => some (false, false, false)
  | _, "mix", .bool b => some (true, true, !b)
  | _, "mix", _ => some (false, false, false)
  | _, "compress", .int i => some (true, compressOk i, i == 4)
  | _, "compress", .bool _ => some (true, true, false)         -- True/False are 1/0, never 4
  | _, "compress", _ => some (false, false, false)
  | _, _, _ => none

/-- `cls._check_style_args(style_args)` for values of the right type (what the format path and a
    well-typed `draw(**style)` pass) -/
def checkStyleArgs (st : Style) : List (String × ArgVal) → Except Err (List (String × ArgVal))
  | [] => .ok []
  | (n, v) :: rest =>
    match styleArgCheck st n v with
    | none => .error .styleError
    | some (tyOk, valOk, isDefault) =>
      if !tyOk then .error .argValue        -- TypeError in the code; not reachable from a format spec
      else if !valOk then .error .styleValue
      else match checkStyleArgs st rest with
        | .error e => .error e
        | .ok rest' => .ok (if isDefault then rest' else (n, v) :: rest')

def methodName (c : Char) : List Char :=
  if c = 'L' then sLines else if c = 'W' then sWhole else sAnim

/-- `int(z_index[1:])` for a field matched by `z-?\d+` -/
def zValue (field : List Char) : Int :=
  match field.drop 1 with
  | d :: t => if d = '-' then -(natOfDigits t : Int) else natOfDigits (d :: t)
  | [] => 0

def lastDigit (field : List Char) : Nat := natOfDigits (field.drop (field.length - 1))

/-- `KittyImage._check_style_format_spec` / `ITerm2Image._check_style_format_spec` /
    the base one (BlockImage) -/
def checkStyleFormatSpec (st : Style) (spec : List Char) : Except Err (List (String × ArgVal)) :=
  match st with
  | .block => baseCheckStyleFormatSpec spec
  | .kitty =>
    match getStyleFormatSpec kittyPats spec with
    | .error e => .error e
    | .ok (parent, fields) =>
      match (if parent ≠ [] then baseCheckStyleFormatSpec parent else .ok []) with
      | .error e => .error e
      | .ok _ =>
        match fields with
        | [method, z, mix, compress] =>
          checkStyleArgs .kitty (
            (match method with | some (c :: _) => [("method", .str (methodName c))] | _ => []) ++
            (match z with | some f => [("z_index", .int (zValue f))] | none => []) ++
            (match mix with | some f => [("mix", .bool (lastDigit f != 0))] | none => []) ++
            (match compress with | some f => [("compress", .int (lastDigit f))] | none => []))
        | _ => .error .styleError   -- unreachable: four patterns give four fields
  | .iterm2 =>
    match getStyleFormatSpec iterm2Pats spec with
    | .error e => .error e
    | .ok (parent, fields) =>
      match (if parent ≠ [] then baseCheckStyleFormatSpec parent else .ok []) with
      | .error e => .error e
      | .ok _ =>
        match fields with
        | [method, mix, compress] =>
          checkStyleArgs .iterm2 (
            (match method with | some (c :: _) => [("method", .str (methodName c))] | _ => []) ++
            (match mix with | some f => [("mix", .bool (lastDigit f != 0))] | none => []) ++
            (match compress with | some f => [("compress", .int (lastDigit f))] | none => []))
        | _ => .error .styleError

/-! ## `_check_format_spec` -/

/-- the `alpha` element of the returned tuple -/
def alphaOf : Option AlphaSyn → Alpha
  | none => .default                   -- `if alpha else _ALPHA_THRESHOLD`
  | some .disabled => .disabled        -- `threshold_or_bg and …` with `None`
  | some (.thr d) => .thr d            -- "#.ddd" is not an `_ALPHA_BG_FORMAT` → `float(".ddd")`
  | some (.hex x) => .bg ('#' :: x)    -- `"#" + "rrggbb"`
  | some .termbg => .bg ['#']          -- `"#" + "#".lstrip("#")`

/-- `int(width) if width else 0` / `int(height) if height else -2` -/
def widthArg (w : List Char) : Int := if w = [] then 0 else natOfDigits w
def heightArg (h : List Char) : Int := if h = [] then -2 else natOfDigits h

/-- `cls._check_format_spec(spec)` with the terminal size `cols × lines` -/
def checkFormatSpec (st : Style) (cols lines : Nat) (s : List Char) : Except Err Result :=
  match fmtMatch s with
  | none => .error .invalidSpec
  | some g =>
    if noVertMatch s then .error .invalidSpec
    else
      match checkFormatting cols lines (g.hAlign.map fun c => [c]) (widthArg g.width)
          (g.vert.bind fun v => v.1.map fun c => [c]) (heightArg (g.vert.elim [] fun v => v.2)) with
      | .error e => .error e
      | .ok f =>
        match g.style with
        | none => .ok ⟨f, alphaOf g.alpha, []⟩
        | some t =>
          match checkStyleFormatSpec st t with
          | .error e => .error e
          | .ok args => .ok ⟨f, alphaOf g.alpha, args⟩

def accepts (st : Style) (s : List Char) : Bool :=
  match checkFormatSpec st 80 30 s with
  | .ok _ => true
  | .error _ => false

/-- acceptance with the unrepaired `_NO_VERTICAL_SPEC` (main part only), to state the defect -/
def acceptsMainOld (s : List Char) : Bool := (fmtMatch s).isSome && !noVertMatchOld s

/-! ## `__format__` and `draw`: what is validated, in which order, before the render call -/

inductive Ev where
  | termSize     -- `get_terminal_size()` (a read)
  | render       -- `_renderer(...)`: size set/reset, image opened, frame rendered
deriving DecidableEq, Repr

/-- `BaseImage.__format__(spec)`: events performed and the outcome -/
def formatRun (st : Style) (cols lines : Nat) (s : List Char) : List Ev × Except Err Result :=
  match fmtMatch s with
  | none => ([], .error .invalidSpec)
  | some _ =>
    if noVertMatch s then ([], .error .invalidSpec)
    else
      match checkFormatSpec st cols lines s with
      | .error e => ([.termSize], .error e)     -- `_check_formatting` ran before the style part
      | .ok r => ([.termSize, .render], .ok r)

def formatCall (st : Style) (cols lines : Nat) (s : List Char) : Except Err Result :=
  (formatRun st cols lines s).2

/-! ## `__format__` as an entry point on an image instance: the instance state is explicit

The only instance state `__format__` can touch is the size setting: `_renderer` resolves a dynamic size
(`Size.FIT/AUTO/ORIGINAL/FIT_TO_WIDTH`) with `set_size(_size)` for the duration of the render and puts the
`Size` member back in its `finally` (`self.size = _size`).  `_check_format_spec` is a classmethod that
runs *before* `_renderer` and reads nothing but the terminal size.  How a dynamic size resolves
(`_valid_size`, C04) is a parameter `resolve`.  The frame position is carried to show it is not touched. -/

inductive SizeSetting where
  | dyn (k : Nat)            -- a `Size` member (0 FIT, 1 AUTO, 2 ORIGINAL, 3 FIT_TO_WIDTH)
  | fixed (c l : Nat)        -- a fixed (columns, lines) size
deriving DecidableEq, Repr

structure ImgState where
  size : SizeSetting
  frame : Nat
deriving DecidableEq, Repr

inductive EvE where
  | termSize                 -- `get_terminal_size()` in `_check_formatting`
  | enter                    -- `_renderer` entered
  | setSize (c l : Nat)      -- `self.set_size(_size)`
  | render (c l : Nat)       -- `_render_image` with this image size
  | restore (k : Nat)        -- `finally: self.size = _size`
deriving DecidableEq, Repr

/-- `_renderer(self._render_image, alpha, **style_args)` on an instance -/
def rendererRun (resolve : Nat → Nat × Nat) (img : ImgState) : ImgState × List EvE :=
  match img.size with
  | .dyn k =>
    let img1 : ImgState := { img with size := .fixed (resolve k).1 (resolve k).2 }   -- set_size(_size)
    let img2 : ImgState := { img1 with size := .dyn k }                                -- finally: self.size = _size
    (img2, [.enter, .setSize (resolve k).1 (resolve k).2, .render (resolve k).1 (resolve k).2, .restore k])
  | .fixed c l => (img, [.enter, .render c l])

/-- `image.__format__(spec)` (reached by `format()`, f-strings, `str.format`):
    (instance state afterwards, events, outcome) -/
def formatEntry (st : Style) (cols lines : Nat) (resolve : Nat → Nat × Nat) (img : ImgState)
    (s : List Char) : ImgState × List EvE × Except Err Result :=
  match formatRun st cols lines s with
  | (evs, .error e) => (img, evs.map (fun _ => EvE.termSize), .error e)   -- raised out of `_check_format_spec`
  | (_, .ok r) => ((rendererRun resolve img).1, EvE.termSize :: (rendererRun resolve img).2, .ok r)

/-! ## which grammar a class uses: attribute lookup along the MRO; the entry points

`_check_format_spec`, `__format__`, `ImageIterator.__init__`, `UrwidImage.__init__` all call
`image._check_format_spec(spec)` — a classmethod bound to the *instance's class* `cls`.  Inside, `cls` is used
three ways: `cls._check_style_format_spec` (method lookup), `cls._FORMAT_SPEC` / `cls._style_args` (attribute
lookup), and the zero-argument `super()` in a style's `_check_style_format_spec`, which is
`super(<the class whose body runs>, cls)`.  All are lookups along `cls.__mro__`.  An application-defined
subclass defines none of them. -/

inductive KName where
  | app (n : Nat)            -- an application-defined subclass (defines nothing relevant)
  | block | text | kitty | iterm2 | graphics | base
deriving DecidableEq, Repr

/-- `"_check_style_format_spec" in vars(k)` -/
def KName.definesCheck : KName → Bool
  | .kitty | .iterm2 | .base => true
  | _ => false
/-- `"_FORMAT_SPEC" in vars(k)` / `"_style_args" in vars(k)` with a non-empty table -/
def KName.definesTables : KName → Bool
  | .kitty | .iterm2 => true
  | _ => false

/-- `__mro__` of the three style classes -/
def styleMro : Style → List KName
  | .block => [.block, .text, .base]
  | .kitty => [.kitty, .graphics, .base]
  | .iterm2 => [.iterm2, .graphics, .base]

/-- `super(k, cls).<attr>`: the first class after `k` in `cls.__mro__` that defines it -/
def superOf (defines : KName → Bool) (k : KName) (mro : List KName) : Option KName :=
  ((mro.dropWhile (· != k)).drop 1).find? defines

/-- which style's grammar a class with this MRO uses — `none` when the lookups do not fit together
    (e.g. a `super()` that does not end at `BaseImage`) -/
def dispatch (mro : List KName) : Option Style :=
  match mro.find? KName.definesCheck with
  | some .base => some .block                                   -- the base check: no style part at all
  | some .kitty =>
    if mro.find? KName.definesTables = some .kitty ∧ superOf KName.definesCheck .kitty mro = some .base
    then some .kitty else none
  | some .iterm2 =>
    if mro.find? KName.definesTables = some .iterm2 ∧ superOf KName.definesCheck .iterm2 mro = some .base
    then some .iterm2 else none
  | _ => none

/-- `cls._check_format_spec(spec)` for a class given by its MRO -/
def checkFormatSpecK (mro : List KName) (cols lines : Nat) (s : List Char) : Except Err Result :=
  match dispatch mro with
  | some st => checkFormatSpec st cols lines s
  | none => .error .argValue

/-- the ways a specifier reaches the library -/
inductive Entry where
  | check      -- `cls._check_format_spec(spec)`
  | format     -- `format(image, spec)`, f-string, `str.format`
  | iter       -- `ImageIterator(image, repeat, spec, cached)`
  | urwid      -- `UrwidImage(image, spec)`
deriving DecidableEq, Repr

/-- the class an entry point validates against: always the class of the instance it was given -/
def entryClass (_ : Entry) (instanceMro : List KName) : List KName := instanceMro

def entryCheck (e : Entry) (instanceMro : List KName) (cols lines : Nat) (s : List Char) : Except Err Result :=
  checkFormatSpecK (entryClass e instanceMro) cols lines s

/-! ## the iterator and the widget entries with their own state

`ImageIterator.__init__` fixes `(fmt, alpha, style_args)` once from `image._check_format_spec(format_spec)`;
`_animate` then renders every frame of the first loop with them and, when caching, in a later loop re-renders
exactly the frames whose image size changed since they were cached — with the same triple.
`UrwidImage.__init__` validates first and only then (for a kitty image) takes a z-index from the pool shared by
all widgets (`_ti_get_z_index`; the pool discipline itself is C18's, here a parameter `alloc`). -/

/-- the parameters of every render call a caching iterator makes: `nFrames` in loop 1, then `nFrames` for each
    later loop before which the image size changed (`true`), none otherwise -/
def iterRenders (r : Result) (nFrames : Nat) (changed : List Bool) : List Result :=
  List.replicate nFrames r ++ (changed.flatMap fun c => if c then List.replicate nFrames r else [])

/-- `ImageIterator(image, repeat, spec, cached=True)` iterated through `1 + changed.length` loops -/
def iterEntry (instanceMro : List KName) (cols lines : Nat) (s : List Char) (nFrames : Nat)
    (changed : List Bool) : Except Err (List Result) :=
  match entryCheck .iter instanceMro cols lines s with
  | .error e => .error e                                   -- raised by the constructor, nothing rendered
  | .ok r => .ok (iterRenders r nFrames changed)

/-- `UrwidImage(image, spec)`: (pool afterwards, whether a z-index was taken, outcome) -/
def urwidEntry {P : Type} (alloc : P → Int × P) (instanceMro : List KName) (cols lines : Nat)
    (s : List Char) (pool : P) : P × Bool × Except Err Result :=
  match entryCheck .urwid instanceMro cols lines s with
  | .error e => (pool, false, .error e)                    -- raised before the pool is touched
  | .ok r =>
    if dispatch instanceMro = some .kitty then ((alloc pool).2, true, .ok r)   -- `isinstance(image, KittyImage)`
    else (pool, false, .ok r)

/-- explicit parameters of `draw()` -/
structure DrawArgs where
  hAlign : Option (List Char)
  padWidth : Int
  vAlign : Option (List Char)
  padHeight : Int
  alpha : Alpha
  style : List (String × ArgVal)

/-- `draw`'s check of a string `alpha`: `not _ALPHA_BG_FORMAT.fullmatch(alpha)` -/
def badBg : Alpha → Bool
  | .bg s => !alphaBgMatch s
  | _ => false

/-- `BaseImage.draw(h_align, pad_width, v_align, pad_height, alpha, animate=False, check_size=False,
    **style)` up to the call `_format_render(_render_image(img, alpha, **style_args), *fmt)` -/
def drawCall (st : Style) (cols lines : Nat) (a : DrawArgs) : Except Err Result :=
  match checkFormatting cols lines a.hAlign a.padWidth a.vAlign a.padHeight with
  | .error e => .error e
  | .ok f =>
    if badBg a.alpha then .error .argValue
    else if a.padWidth > cols then .error .argValue
    else match checkStyleArgs st a.style with
      | .error e => .error e
      | .ok args => .ok ⟨f, a.alpha, args⟩

/-! ## CPython `float(".ddd")` — correctly rounded decimal → binary64 (bits) -/

def roundHalfEven (n d : Nat) : Nat :=
  let q := n / d
  let r := n % d
  if 2 * r > d ∨ (2 * r = d ∧ q % 2 = 1) then q + 1 else q

/-- bits of the binary64 nearest to `N / 10^k`, `0 ≤ N < 10^k` -/
def decToF64 (digits : List Char) : Nat :=
  let N := natOfDigits digits
  let D := 10 ^ digits.length
  if N = 0 then 0
  else
    -- e = floor(log2(N/D)) < 0 ; write e = -(t) with t ≥ 1: 2^(-t) ≤ N/D  ⇔  D ≤ N·2^t
    let t0 := Nat.log2 D - Nat.log2 N          -- t ∈ {t0, t0+1}
    let t := if D ≤ N * 2 ^ t0 then t0 else t0 + 1
    let t' := min t 1022                       -- subnormal clamp
    let m := roundHalfEven (N * 2 ^ (t' + 52)) D
    (1022 - t') * 2 ^ 52 + m

end TIV.C19
