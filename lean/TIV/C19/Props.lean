import TIV.C19.Proofs
import TIV.C19.Generated
/-!
# C19 — property theorems

"A render format specifier is accepted iff it is a sentence of the documented grammar …, an accepted
specifier denotes exactly the documented alignment, padding size, transparency setting and style
arguments — so formatting with a specifier equals drawing with the equivalent explicit parameters.
Rejected specifiers raise the documented error and have no side effect."

`accepts`, `checkFormatSpec`, `formatRun`, `drawCall` are the model of the code (Model.lean);
`Grammar`, `Sentence.wf/unparse/denote/explicit` are the documented grammar and meaning (Spec.lean).
All theorems quantify over every string (`List Char`), every terminal size and every render style.
-/
namespace TIV.C19

/-! ## translator ties: the recognisers of Model.lean were written for exactly these sources -/

/-- the three module-level regexes (sources and flags) -/
theorem regex_sources :
    Generated.formatSpecSource =
      "(([<|>])?(\\d+)?)?(\\.([-^_])?(\\d+)?)?(#(\\.\\d+|[0-9a-fA-F]{6}|#)?)?(\\+(.+))?" ∧
    Generated.noVerticalSource = "(([<|>])?(\\d+)?)?\\.(#(\\.\\d+|[0-9a-fA-F]{6}|#)?)?(\\+(.+))?" ∧
    Generated.alphaBgSource = "#([0-9a-fA-F]{6})?" ∧
    Generated.formatSpecFlags = Generated.reASCII ∧ Generated.noVerticalFlags = Generated.reASCII ∧
    Generated.alphaBgFlags = Generated.reASCII ∧ Generated.formatSpecGroups = 10 := by decide

/-- the per-style pattern tuples, their flags (plain `re.UNICODE`, no groups) and the `super()` chain -/
theorem style_sources :
    Generated.kittySources = ["[LW]", "z-?\\d+", "m[01]", "c[0-9]"] ∧
    Generated.iterm2Sources = ["[LWA]", "m[01]", "c[0-9]"] ∧ Generated.blockSources = [] ∧
    Generated.kittyFlags = [32, 32, 32, 32] ∧ Generated.iterm2Flags = [32, 32, 32] ∧
    Generated.kittyPatGroups = [0, 0, 0, 0] ∧ Generated.iterm2PatGroups = [0, 0, 0] ∧
    Generated.kittyChain = ["KittyImage", "BaseImage"] ∧ Generated.iterm2Chain = ["ITerm2Image", "BaseImage"] ∧
    Generated.blockChain = ["BaseImage"] ∧
    Generated.kittyFormatOwners = ["BaseImage", "object"] ∧ Generated.iterm2FormatOwners = ["BaseImage", "object"] ∧
    Generated.blockFormatOwners = ["BaseImage", "object"] := by decide

/-- `_style_args`: names, defaults, and the value checks probed at their boundaries agree with
    `styleArgCheck` -/
theorem style_tables :
    Generated.kittyArgNames = ["method", "z_index", "mix", "compress"] ∧
    Generated.kittyArgDefaults = ["None", "0", "False", "4"] ∧
    Generated.iterm2ArgNames = ["method", "mix", "compress"] ∧
    Generated.iterm2ArgDefaults = ["None", "False", "4"] ∧ Generated.blockArgNames = [] ∧
    (∀ p ∈ Generated.kittyProbe_z_index, zIndexOk p.1 = p.2) ∧
    (∀ p ∈ Generated.kittyProbe_compress, compressOk p.1 = p.2) ∧
    (∀ p ∈ Generated.iterm2Probe_compress, compressOk p.1 = p.2) ∧
    (∀ p ∈ Generated.kittyProbe_method, methodOk .kitty p.1 = p.2) ∧
    (∀ p ∈ Generated.iterm2Probe_method, methodOk .iterm2 p.1 = p.2) ∧
    Generated.kittyMethodNames = [sLines, sWhole] ∧ Generated.iterm2MethodNames = [sLines, sWhole, sAnim] := by
  decide

/-! ## the property -/

/-- ACCEPTANCE: the code accepts a string exactly when it is a sentence of the documented grammar for
    the render style — for every string and every style. -/
theorem accepts_iff_grammar (st : Style) (s : List Char) : accepts st s = true ↔ Grammar st s := by
  constructor
  · intro h
    unfold accepts at h
    cases hc : checkFormatSpec st 80 30 s with
    | error e => simp [hc] at h
    | ok r =>
      obtain ⟨sen, h1, h2, h3⟩ := check_sound_syntax st 80 30 s (by simp [hc]) (by simp [hc])
      have := check_unparse st 80 30 sen h1 h2
      rw [h3, hc] at this
      refine ⟨sen, ?_, h3⟩
      simp only [Sentence.wf, Bool.and_eq_true, h1, true_and]
      cases hs : sen.style with
      | none => rfl
      | some ss =>
        simp only [Option.all_some, StyleSen.wf, Bool.and_eq_true, h2 ss hs, true_and]
        by_cases hz : ss.zInRange = true
        · exact hz
        · simp [hs, hz] at this
  · rintro ⟨sen, hw, rfl⟩
    simp only [Sentence.wf, Bool.and_eq_true] at hw
    have hs : ∀ ss, sen.style = some ss → ss.wfSyntax st = true ∧ ss.zInRange = true := by
      intro ss hss
      have := hw.2; rw [hss] at this
      simpa [StyleSen.wf] using this
    have := check_unparse st 80 30 sen hw.1 (fun ss h => (hs ss h).1)
    have hz : sen.style.all (·.zInRange) = true := by
      cases hss : sen.style with
      | none => rfl
      | some ss => simpa using (hs ss hss).2
    simp [accepts, this, hz]

/-- DENOTATION (completeness): on the written form of any well-formed sentence the code returns exactly
    the documented alignment, padding size, transparency setting and style arguments. -/
theorem parse_denotes (st : Style) (cols lines : Nat) (sen : Sentence) (h : sen.wf st = true) :
    checkFormatSpec st cols lines sen.unparse = .ok (sen.denote cols lines) := by
  simp only [Sentence.wf, Bool.and_eq_true] at h
  have hs : ∀ ss, sen.style = some ss → ss.wfSyntax st = true ∧ ss.zInRange = true := by
    intro ss hss
    have := h.2; rw [hss] at this
    simpa [StyleSen.wf] using this
  have hz : sen.style.all (·.zInRange) = true := by
    cases hss : sen.style with
    | none => rfl
    | some ss => simpa using (hs ss hss).2
  rw [check_unparse st cols lines sen h.1 (fun ss h => (hs ss h).1)]
  simp [hz]

/-- DENOTATION (soundness): whatever the code returns for any string is the documented meaning of a
    well-formed sentence written as that string. -/
theorem parse_sound (st : Style) (cols lines : Nat) (s : List Char) (r : Result)
    (h : checkFormatSpec st cols lines s = .ok r) :
    ∃ sen : Sentence, sen.wf st = true ∧ sen.unparse = s ∧ r = sen.denote cols lines := by
  obtain ⟨sen, h1, h2, h3⟩ := check_sound_syntax st cols lines s (by simp [h]) (by simp [h])
  have hc := check_unparse st cols lines sen h1 h2
  rw [h3, h] at hc
  by_cases hz : sen.style.all (·.zInRange) = true
  · refine ⟨sen, ?_, h3, ?_⟩
    · simp only [Sentence.wf, Bool.and_eq_true, h1, true_and]
      cases hs : sen.style with
      | none => rfl
      | some ss =>
        rw [hs] at hz
        simp only [Option.all_some] at hz ⊢
        simp [StyleSen.wf, h2 ss hs, hz]
    · simpa [hz] using hc
  · simp [hz] at hc

/-- acceptance does not depend on the terminal size -/
theorem accepts_term_independent (st : Style) (cols lines : Nat) (s : List Char) :
    (∃ r, checkFormatSpec st cols lines s = .ok r) ↔ accepts st s = true := by
  rw [accepts_iff_grammar]
  constructor
  · rintro ⟨r, h⟩
    obtain ⟨sen, h1, h2, _⟩ := parse_sound st cols lines s r h
    exact ⟨sen, h1, h2⟩
  · rintro ⟨sen, h1, rfl⟩
    exact ⟨_, parse_denotes st cols lines sen h1⟩

/-- `(formatRun …).2` is `_check_format_spec` -/
theorem formatCall_eq (st : Style) (cols lines : Nat) (s : List Char) :
    formatCall st cols lines s = checkFormatSpec st cols lines s := by
  unfold formatCall formatRun
  cases hf : fmtMatch s with
  | none => simp [checkFormatSpec, hf]
  | some g =>
    cases hn : noVertMatch s with
    | true => simp [checkFormatSpec, hf, hn]
    | false =>
      simp only [Bool.false_eq_true, if_false]
      cases checkFormatSpec st cols lines s <;> rfl

/-- FORMAT = DRAW: formatting with a specifier reaches `_format_render(_render_image(alpha, **style), …)`
    with exactly the parameters that `draw()` reaches it with when given the equivalent explicit
    parameters (whenever `draw()` accepts them: it additionally refuses a padding width wider than the
    terminal). -/
theorem format_eq_draw_params (st : Style) (cols lines : Nat) (sen : Sentence) (h : sen.wf st = true)
    (hw : natOfDigits sen.width ≤ cols) :
    drawCall st cols lines sen.explicit = formatCall st cols lines sen.unparse := by
  rw [formatCall_eq, parse_denotes st cols lines sen h]
  simp only [Sentence.wf, Bool.and_eq_true] at h
  have hfm := formatting_sentence cols lines sen h.1
  have e1 : widthArg sen.width = (natOfDigits sen.width : Int) := by
    unfold widthArg; split
    · rename_i hh; simp [hh, natOfDigits]
    · rfl
  have e2 : heightArg (sen.vert.elim [] fun v => v.2) = sen.explicit.padHeight := by
    have : (sen.vert.elim [] fun v => v.2) = sen.heightDigits := by
      unfold Sentence.heightDigits; cases sen.vert <;> rfl
    rw [this]; rfl
  rw [e1, e2] at hfm
  have ha : badBg sen.explicit.alpha = false := by
    have h4 := h.1
    simp only [Sentence.wfMain, Bool.and_eq_true] at h4
    have h4 := h4.2
    simp only [Sentence.explicit, Sentence.denote]
    cases ha : sen.alpha with
    | none => rfl
    | some a =>
      rw [ha] at h4
      cases a with
      | disabled => rfl
      | thr d => rfl
      | termbg => simp [badBg, alphaBgMatch]
      | hex x =>
        simp at h4
        simp only [badBg, alphaBgMatch, Bool.not_eq_eq_eq_not, Bool.not_false, decide_eq_true_eq, true_and]
        right; exact ⟨h4.1, by simpa using h4.2⟩
  have hwd : ¬ (sen.explicit.padWidth > (cols : Int)) := by
    simp only [Sentence.explicit]; omega
  have hargs : checkStyleArgs st sen.explicit.style = .ok (sen.denote cols lines).args := by
    simp only [Sentence.explicit, Sentence.denote]
    cases hs : sen.style with
    | none => rfl
    | some ss =>
      have := h.2; rw [hs] at this
      simp only [Option.all_some, StyleSen.wf, Bool.and_eq_true] at this
      rw [args_check st ss this.1]; simp [this.2]
  unfold drawCall
  rw [show sen.explicit.hAlign = sen.hAlign.map (fun c => [c]) from rfl,
      show sen.explicit.padWidth = (natOfDigits sen.width : Int) from rfl,
      show sen.explicit.vAlign = (sen.vert.bind fun v => v.1.map fun c => [c]) from rfl, hfm]
  simp only [ha, Bool.false_eq_true, if_false, hargs]
  have hwd' : ¬ ((natOfDigits sen.width : Int) > (cols : Int)) := by omega
  simp only [hwd', if_false]
  rfl

/-- REJECTION raises a `ValueError` ("Invalid format specifier"), a `StyleError`, or the `ValueError` of
    the style's value check — never anything else, and never a result. -/
theorem reject_error_kind (st : Style) (cols lines : Nat) (s : List Char) (h : ¬ Grammar st s) :
    checkFormatSpec st cols lines s = .error .invalidSpec ∨
    checkFormatSpec st cols lines s = .error .styleError ∨
    checkFormatSpec st cols lines s = .error .styleValue := by
  by_cases h1 : checkFormatSpec st cols lines s = .error .invalidSpec
  · exact Or.inl h1
  by_cases h2 : checkFormatSpec st cols lines s = .error .styleError
  · exact Or.inr (Or.inl h2)
  obtain ⟨sen, hm, hs, hu⟩ := check_sound_syntax st cols lines s h1 h2
  have hc := check_unparse st cols lines sen hm hs
  rw [hu] at hc
  by_cases hz : sen.style.all (·.zInRange) = true
  · exfalso
    apply h
    rw [← accepts_iff_grammar, ← accepts_term_independent st cols lines s]
    exact ⟨sen.denote cols lines, by rw [hc]; simp [hz]⟩
  · right; right; rw [hc]; simp [hz]

/-- WHICH ERROR FOR WHICH NON-SENTENCE: every non-sentence for which the documentation determines the
    error class is rejected with exactly that class (`kindOf`, Spec.lean: format-specifier error when
    the main part is malformed or `+` is followed by nothing; `StyleError` when the main part is fine but
    the style part is not in the style's specification; the value error when the style part is lexically
    fine, i.e. its z-index is out of range) — for every style, terminal size and string. -/
theorem reject_kind_spec (st : Style) (cols lines : Nat) (s : List Char)
    (h : ¬ Grammar st s) (hu : ¬ Undetermined s) :
    checkFormatSpec st cols lines s = .error (kindOf st s) := by
  by_cases hm : MainPart (splitPlus s).1
  · cases hot : (splitPlus s).2 with
    | none =>
      exfalso; apply h
      obtain ⟨sen, hs, hw, hus⟩ := hm
      rw [splitPlus_none s hot] at hus
      exact ⟨sen, by simp [Sentence.wf, hw, hs], hus⟩
    | some t =>
      by_cases hte : t = []
      · have hk : kindOf st s = .invalidSpec := by simp [kindOf, hm, hot, hte]
        rw [hk]
        apply Classical.byContradiction; intro hne
        exact ((not_invalid_imp st cols lines s hne).2 t hot).1 hte
      · by_cases hnl : '\n' ∈ t
        · exact absurd ⟨hm, t, hot, hte, hnl⟩ hu
        · obtain ⟨sen, hs, hw, hsu, hc⟩ := check_main_style st cols lines s t hm hot hte hnl
          by_cases hss : StyleSyntax st t
          · have hk : kindOf st s = .styleValue := by simp [kindOf, hm, hot, hte, hss]
            obtain ⟨ss, hsw, hst⟩ := hss
            have hcu := check_unparse st cols lines { sen with style := some ss } (by simpa [Sentence.wfMain] using hw)
              (by intro ss' h'; simp at h'; subst h'; exact hsw)
            rw [unparse_with_style sen hs ss, hst, ← hsu] at hcu
            rw [hk, hcu]
            by_cases hz : ss.zInRange = true
            · exfalso; apply h
              refine ⟨{ sen with style := some ss }, ?_, ?_⟩
              · simp only [Sentence.wf, Bool.and_eq_true, Option.all_some, StyleSen.wf, hsw, hz, and_true]
                simpa [Sentence.wfMain] using hw
              · rw [unparse_with_style sen hs ss, hst, ← hsu]
            · simp [hz]
          · have hk : kindOf st s = .styleError := by simp [kindOf, hm, hot, hte, hss]
            have he : checkStyleFormatSpec st t = .error .styleError := by
              apply Classical.byContradiction; intro hne
              exact hss (style_sound st t hte hne)
            rw [hk, hc, he]
  · have hk : kindOf st s = .invalidSpec := by simp [kindOf, hm]
    rw [hk]
    apply Classical.byContradiction; intro hne
    exact hm (not_invalid_imp st cols lines s hne).1

/-- the strings the documentation does not decide (a well-formed main part, then `+` and a text with a
    line break) are never sentences and are rejected with one of the two candidate errors — the
    disjunction is kept for exactly these; the code in fact answers with the format-specifier error. -/
theorem reject_kind_undetermined (st : Style) (cols lines : Nat) (s : List Char) (hu : Undetermined s) :
    ¬ Grammar st s ∧
    (checkFormatSpec st cols lines s = .error .invalidSpec ∨
     checkFormatSpec st cols lines s = .error .styleError) ∧
    checkFormatSpec st cols lines s = .error .invalidSpec := by
  obtain ⟨_, t, hot, _, hnl⟩ := hu
  have hc : checkFormatSpec st cols lines s = .error .invalidSpec := by
    apply Classical.byContradiction; intro hne
    exact ((not_invalid_imp st cols lines s hne).2 t hot).2 hnl
  refine ⟨?_, Or.inl hc, hc⟩
  intro hg
  rw [← accepts_iff_grammar, ← accepts_term_independent st cols lines s] at hg
  obtain ⟨r, hr⟩ := hg
  rw [hc] at hr; cases hr

/-- the only value error of the style part: a z-index outside the signed 32-bit range (excluding
    -(2^31)) in an otherwise well-formed sentence is a `ValueError`, not a `StyleError` -/
theorem z_out_of_range_is_value_error (st : Style) (cols lines : Nat) (sen : Sentence) (ss : StyleSen)
    (hm : sen.wfMain = true) (hs : sen.style = some ss) (hw : ss.wfSyntax st = true)
    (hz : ss.zInRange = false) :
    checkFormatSpec st cols lines sen.unparse = .error .styleValue := by
  rw [check_unparse st cols lines sen hm (by intro ss' h; rw [hs] at h; cases h; exact hw)]
  simp [hs, hz]

/-- REJECTION IS PURE: when `format(image, spec)` rejects the specifier, the renderer was never entered
    (no size change, no image access, no render); the only thing done is reading the terminal size. -/
theorem reject_pure (st : Style) (cols lines : Nat) (s : List Char) (e : Err)
    (h : (formatRun st cols lines s).2 = .error e) :
    Ev.render ∉ (formatRun st cols lines s).1 ∧ ∀ ev ∈ (formatRun st cols lines s).1, ev = Ev.termSize := by
  unfold formatRun at h ⊢
  cases hf : fmtMatch s with
  | none => simp
  | some g =>
    cases hn : noVertMatch s with
    | true => simp
    | false =>
      simp only [hf, hn, Bool.false_eq_true, if_false] at h ⊢
      cases hc : checkFormatSpec st cols lines s with
      | error e' => simp
      | ok r => simp [hc] at h

/-- SUBCLASS INDEPENDENCE: a class uses the grammar of the nearest style class in its MRO — whatever
    number of application-defined subclasses (which define nothing) sit in front of it. -/
theorem dispatch_subclass (st : Style) (apps : List KName) (h : ∀ k ∈ apps, ∃ n, k = .app n) :
    dispatch (apps ++ styleMro st) = some st := by
  induction apps with
  | nil => cases st <;> decide
  | cons k ks ih =>
    obtain ⟨n, rfl⟩ := h k (by simp)
    have ih := ih fun k hk => h k (by simp [hk])
    have h1 : ∀ l, (KName.app n :: l).find? KName.definesCheck = l.find? KName.definesCheck := fun l => by
      simp [List.find?, KName.definesCheck]
    have h2 : ∀ l, (KName.app n :: l).find? KName.definesTables = l.find? KName.definesTables := fun l => by
      simp [List.find?, KName.definesTables]
    have h3 : ∀ k' l, k' ≠ KName.app n → superOf KName.definesCheck k' (KName.app n :: l) =
        superOf KName.definesCheck k' l := fun k' l hk => by
      have : (KName.app n != k') = true := by simp [bne_iff_ne, Ne.symm hk]
      simp [superOf, List.dropWhile, this]
    unfold dispatch at ih ⊢
    rw [List.cons_append, h1, h2, h3 .kitty _ (by simp), h3 .iterm2 _ (by simp)]
    exact ih

/-- … hence every entry point (`_check_format_spec`, `format`/f-string/`str.format`, `ImageIterator`,
    `UrwidImage`), on an instance of a style class or of any subclass of it, accepts exactly the sentences
    of that style's documented grammar, and with the documented denotation. -/
theorem entry_accepts_iff_grammar (e : Entry) (st : Style) (apps : List KName)
    (h : ∀ k ∈ apps, ∃ n, k = .app n) (cols lines : Nat) (s : List Char) :
    entryCheck e (apps ++ styleMro st) cols lines s = checkFormatSpec st cols lines s ∧
    ((∃ r, entryCheck e (apps ++ styleMro st) cols lines s = .ok r) ↔ Grammar st s) := by
  have : entryCheck e (apps ++ styleMro st) cols lines s = checkFormatSpec st cols lines s := by
    simp [entryCheck, entryClass, checkFormatSpecK, dispatch_subclass st apps h]
  refine ⟨this, ?_⟩
  rw [this, accepts_term_independent, accepts_iff_grammar]

/-- THE ITERATOR ENTRY DENOTES THE SAME: every render a (caching) `ImageIterator` makes — first loop, and
    re-renders of later loops after the image size changed — uses exactly the alignment, padding, alpha and
    style arguments the specifier denotes; a rejected specifier renders nothing. -/
theorem iter_renders_denote (st : Style) (apps : List KName) (h : ∀ k ∈ apps, ∃ n, k = .app n)
    (cols lines : Nat) (s : List Char) (nFrames : Nat) (changed : List Bool) :
    (∀ rs, iterEntry (apps ++ styleMro st) cols lines s nFrames changed = .ok rs →
      ∃ sen : Sentence, sen.wf st = true ∧ sen.unparse = s ∧ (∀ x ∈ rs, x = sen.denote cols lines) ∧
        rs.length = nFrames * (1 + (changed.filter id).length)) ∧
    (∀ e, iterEntry (apps ++ styleMro st) cols lines s nFrames changed = .error e →
      checkFormatSpec st cols lines s = .error e) := by
  have he := (entry_accepts_iff_grammar .iter st apps h cols lines s).1
  unfold iterEntry
  rw [he]
  cases hc : checkFormatSpec st cols lines s with
  | error e => simp
  | ok r =>
    obtain ⟨sen, h1, h2, h3⟩ := parse_sound st cols lines s r hc
    refine ⟨?_, by simp⟩
    intro rs hrs
    simp only [Except.ok.injEq] at hrs
    subst hrs
    refine ⟨sen, h1, h2, ?_, ?_⟩
    · intro x hx
      simp only [iterRenders, List.mem_append, List.mem_replicate, List.mem_flatMap] at hx
      rcases hx with hx | ⟨c, _, hx⟩
      · rw [hx.2, h3]
      · cases c <;> simp at hx
        rw [hx.2, h3]
    · simp only [iterRenders, List.length_append, List.length_replicate]
      have : ∀ l : List Bool, (l.flatMap fun c => if c then List.replicate nFrames r else []).length =
          nFrames * (l.filter id).length := by
        intro l
        induction l with
        | nil => simp
        | cons c t ih =>
          cases c <;> simp [List.flatMap_cons, ih, Nat.mul_add, Nat.add_comm]
      rw [this, Nat.mul_add, Nat.mul_one]

/-- NO SIDE EFFECT ON REJECTION at the widget entry: `UrwidImage(image, spec)` with a rejected specifier
    leaves the shared z-index pool as it was (no index taken) — for every pool and allocation discipline. -/
theorem urwid_rejected_no_side_effect {P : Type} (alloc : P → Int × P) (mro : List KName)
    (cols lines : Nat) (s : List Char) (pool : P) (e : Err)
    (h : (urwidEntry alloc mro cols lines s pool).2.2 = .error e) :
    (urwidEntry alloc mro cols lines s pool).1 = pool ∧ (urwidEntry alloc mro cols lines s pool).2.1 = false := by
  unfold urwidEntry at h ⊢
  cases hc : entryCheck .urwid mro cols lines s with
  | error e' => simp
  | ok r =>
    simp only [hc] at h
    split at h <;> simp at h

/-- NO SIDE EFFECT ON REJECTION, over the entry point with the instance state explicit: when
    `image.__format__(spec)` raises, the instance state (size setting — a dynamic `Size` stays that `Size` —
    and frame position) is what it was, and nothing but the terminal-size read happened: the renderer was not
    entered, no size was set. For every style, terminal size, size setting, resolution function and string. -/
theorem rejected_no_side_effect (st : Style) (cols lines : Nat) (resolve : Nat → Nat × Nat)
    (img : ImgState) (s : List Char) (e : Err)
    (h : (formatEntry st cols lines resolve img s).2.2 = .error e) :
    (formatEntry st cols lines resolve img s).1 = img ∧
    ∀ ev ∈ (formatEntry st cols lines resolve img s).2.1, ev = EvE.termSize := by
  unfold formatEntry at h ⊢
  cases hf : formatRun st cols lines s with
  | mk evs r =>
    cases r with
    | error e' => simp
    | ok r' => simp [hf] at h

/-- and an accepted specifier leaves the instance state unchanged too: a dynamic size is resolved for the
    render only and the `Size` member is put back; a fixed size is rendered as is. -/
theorem accepted_state_restored (st : Style) (cols lines : Nat) (resolve : Nat → Nat × Nat)
    (img : ImgState) (s : List Char) (r : Result)
    (h : (formatEntry st cols lines resolve img s).2.2 = .ok r) :
    (formatEntry st cols lines resolve img s).1 = img ∧
    (formatEntry st cols lines resolve img s).2.1 =
      (match img.size with
        | .dyn k => [.termSize, .enter, .setSize (resolve k).1 (resolve k).2,
                     .render (resolve k).1 (resolve k).2, .restore k]
        | .fixed c l => [.termSize, .enter, .render c l]) ∧
    checkFormatSpec st cols lines s = .ok r := by
  have hc := formatCall_eq st cols lines s
  unfold formatCall at hc
  unfold formatEntry at h ⊢
  cases hf : formatRun st cols lines s with
  | mk evs r0 =>
    rw [hf] at hc
    cases r0 with
    | error e' => simp [hf] at h
    | ok r' =>
      simp only [hf] at h
      simp only at hc
      refine ⟨?_, ?_, ?_⟩
      · obtain ⟨sz, fr⟩ := img
        cases sz <;> rfl
      · obtain ⟨sz, fr⟩ := img
        cases sz <;> rfl
      · rw [← hc]; exact h

/-- and a successful `format` enters the renderer exactly once, after the terminal size was read -/
theorem accept_renders_once (st : Style) (cols lines : Nat) (s : List Char) (r : Result)
    (h : (formatRun st cols lines s).2 = .ok r) :
    (formatRun st cols lines s).1 = [Ev.termSize, Ev.render] := by
  unfold formatRun at h ⊢
  cases hf : fmtMatch s with
  | none => simp [hf] at h
  | some g =>
    cases hn : noVertMatch s with
    | true => simp [hf, hn] at h
    | false =>
      simp only [hf, hn, Bool.false_eq_true, if_false] at h ⊢
      cases hc : checkFormatSpec st cols lines s with
      | error e' => simp [hc] at h
      | ok r => simp

/-- THE DEFECT FAMILY of the unrepaired tree is closed: a dot that carries neither field is rejected
    whatever precedes and follows it. -/
theorem bare_dot_rejected (st : Style) (sen : Sentence) (hm : sen.wfMain = true)
    (hs : ∀ ss, sen.style = some ss → ss.wfSyntax st = true) (hv : sen.vert = none) :
    accepts st (sen.hAlign.toList ++ (sen.width ++ ('.' :: ((match sen.alpha with | some a => a.unparse | none => []) ++
      (match sen.style with | some ss => '+' :: ss.unparse | none => []))))) = false := by
  have hg := groups_wf st sen hm hs
  let g : Groups := ⟨sen.hAlign, sen.width, some (none, []), sen.alpha, sen.style.map (·.unparse)⟩
  have hg' : g.WfRaw := ⟨hg.1, hg.2.1, rfl, hg.2.2.2.1, hg.2.2.2.2⟩
  have hn := noVertMatch_unparse g hg'
  have hf := fmtMatch_complete g hg'
  have hu : g.unparse = sen.hAlign.toList ++ (sen.width ++ ('.' :: ((match sen.alpha with | some a => a.unparse | none => []) ++
      (match sen.style with | some ss => '+' :: ss.unparse | none => [])))) := by
    simp only [Groups.unparse, g, unparseVert]
    cases sen.alpha <;> cases sen.style <;> rfl
  rw [hu] at hn hf
  simp [accepts, checkFormatSpec, hf, hn, g]

/-- on the UNREPAIRED regex the family is accepted: `.##` is not a sentence, yet the old pair of
    regexes lets it through (this is what `./check C19` reports on the unrepaired tree). -/
theorem unrepaired_counterexample :
    acceptsMainOld ['.', '#', '#'] = true ∧ ¬ Grammar .block ['.', '#', '#'] ∧
    acceptsMainOld ['.', '+', 'L'] = true ∧ ¬ Grammar .kitty ['.', '+', 'L'] := by
  refine ⟨by decide, ?_, by decide, ?_⟩
  · rw [← accepts_iff_grammar]; decide
  · rw [← accepts_iff_grammar]; decide

/-! ## non-vacuity: the hypotheses are met by non-trivial instances -/
deriving instance DecidableEq for Except

/-- `|200.^70#ffffff+Wz-5m1c9` is a well-formed kitty sentence -/
def exSen : Sentence :=
  ⟨some '|', ['2', '0', '0'], some (some '^', ['7', '0']), some (.hex ['f', 'f', 'f', 'f', 'f', 'f']),
   some ⟨some 'W', some (true, ['5']), some '1', some '9'⟩⟩

example : exSen.wf .kitty = true := by decide
example : exSen.unparse = "|200.^70#ffffff+Wz-5m1c9".toList := by decide
example : Grammar .kitty "|200.^70#ffffff+Wz-5m1c9".toList := ⟨exSen, by decide, by decide⟩
example : accepts .kitty "|200.^70#ffffff+Wz-5m1c9".toList = true := by decide
example : checkFormatSpec .kitty 80 30 exSen.unparse = .ok (exSen.denote 80 30) := by decide
example : (exSen.denote 80 30).args =
    [("method", .str sWhole), ("z_index", .int (-5)), ("mix", .bool true), ("compress", .int 9)] := by decide
example : ¬ Grammar .iterm2 "|200.^70#ffffff+Wz-5m1c9".toList := by rw [← accepts_iff_grammar]; decide
example : ¬ Grammar .block ".".toList := by rw [← accepts_iff_grammar]; decide
-- reject_pure / reject_error_kind: a rejected specifier with each error kind
example : (formatRun .kitty 80 30 ".".toList).2 = .error .invalidSpec := by decide
example : (formatRun .kitty 80 30 "1+x".toList) = ([.termSize], .error .styleError) := by decide
example : (formatRun .kitty 80 30 "+z2147483648".toList) = ([.termSize], .error .styleValue) := by decide
-- reject_kind_spec: determined non-sentences of each kind; reject_kind_undetermined: an undetermined one
example : ¬ Grammar .kitty "1+x".toList ∧ ¬ Grammar .kitty "x+L".toList ∧ ¬ Grammar .kitty "+z2147483648".toList := by
  refine ⟨?_, ?_, ?_⟩ <;> (rw [← accepts_iff_grammar]; decide)
example : Undetermined "1+L\n".toList :=
  ⟨⟨⟨none, ['1'], none, none, none⟩, rfl, by decide, by decide⟩, ['L', '\n'], by decide, by decide, by decide⟩
-- rejected_no_side_effect / accepted_state_restored: a dynamic-size instance, rejected and accepted
example : formatEntry .kitty 80 30 (fun _ => (56, 28)) ⟨.dyn 0, 1⟩ "1.".toList =
    (⟨.dyn 0, 1⟩, [], .error .invalidSpec) := by decide
example : (formatEntry .kitty 80 30 (fun _ => (56, 28)) ⟨.dyn 0, 1⟩ "+z1L".toList).2.2 = .error .styleError := by decide
example : (formatEntry .block 80 30 (fun _ => (56, 28)) ⟨.dyn 3, 0⟩ "<.^".toList).2.1 =
    [.termSize, .enter, .setSize 56 28, .render 56 28, .restore 3] := by decide
-- dispatch_subclass: a two-level application subclass of ITerm2Image; and an MRO whose `super()` loops is refused
example : dispatch ([.app 1, .app 0] ++ styleMro .iterm2) = some .iterm2 := by decide
example : entryCheck .iter ([.app 0] ++ styleMro .kitty) 80 30 "5.5+c9".toList = checkFormatSpec .kitty 80 30 "5.5+c9".toList := by decide
-- iter_renders_denote / urwid_rejected_no_side_effect
example : iterEntry (styleMro .kitty) 80 30 "+Wz5m1c9".toList 3 [true, false] =
    .ok (List.replicate 6 ((⟨none, [], none, none, some ⟨some 'W', some (false, ['5']), some '1', some '9'⟩⟩ : Sentence).denote 80 30)) := by decide
example : (urwidEntry (fun (n : Nat) => ((n : Int), n + 1)) (styleMro .kitty) 80 30 "+x".toList 7) =
    (7, false, .error .styleError) := by decide
example : (urwidEntry (fun (n : Nat) => ((n : Int), n + 1)) (styleMro .kitty) 80 30 "+L".toList 7).1 = 8 := by decide
-- format_eq_draw_params: a sentence with width ≤ terminal width
example : (⟨some '<', ['7'], none, some .termbg, none⟩ : Sentence).wf .block = true ∧
    natOfDigits ['7'] ≤ 80 := by decide

end TIV.C19
