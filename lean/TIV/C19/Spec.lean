import TIV.C19.Model
/-!
# C19 — the DOCUMENTED grammar and its meaning (docs/source/guide/formatting.rst, "Render Format
Specification"; class docstrings of KittyImage / ITerm2Image, "Format Specification")

```
[ <h_align> ] [ <width> ] [ . [ <v_align> ] [ <height> ] ] [ # [ <threshold> | <bgcolor> ] ] [ + <style> ]
     "if the `.` is present, then at least one of v_align and height must be present"
kitty  style:  [ <method> ] [ z <z-index> ] [ m <mix> ] [ c <compress> ]      method ∈ L W
iterm2 style:  [ <method> ] [ m <mix> ] [ c <compress> ]                      method ∈ L W A
block: defines no style specification
```

The grammar is given the way a manual gives it: an abstract syntax (`Sentence`), the conditions on
its fields (`wf`), and how a sentence is written down (`unparse`).  `Grammar st s` = "`s` is the
written form of a well-formed sentence".  `denote` is the documented meaning.  Nothing here
mentions a regular expression or the recognisers of `Model.lean`.
-/
namespace TIV.C19

/-- `[ <method> ] [ z <z-index> ] [ m <mix> ] [ c <compress> ]` -/
structure StyleSen where
  method : Option Char
  z : Option (Bool × List Char)     -- minus sign?, digits
  mix : Option Char
  compress : Option Char
deriving DecidableEq, Repr

structure Sentence where
  hAlign : Option Char
  width : List Char                          -- digits; [] = absent
  vert : Option (Option Char × List Char)    -- the part after a dot
  alpha : Option AlphaSyn                    -- the part after a `#`
  style : Option StyleSen                    -- the part after a `+`
deriving DecidableEq, Repr

def zInt (z : Bool × List Char) : Int := if z.1 then -(natOfDigits z.2 : Int) else natOfDigits z.2

/-- the fields are lexically what the docs say (no range condition yet) -/
def StyleSen.wfSyntax (st : Style) (ss : StyleSen) : Bool :=
  (match st with
    | .block => false                                          -- no style spec is defined
    | .kitty => ss.method.all isLW
    | .iterm2 => ss.method.all isLWA && ss.z.isNone) &&
  ss.z.all (fun z => z.2 ≠ [] && z.2.all isDigit) &&
  ss.mix.all is01 && ss.compress.all isDigit &&
  (ss.method.isSome || ss.z.isSome || ss.mix.isSome || ss.compress.isSome)   -- `+` is followed by something

/-- "An integer in the signed 32-bit range (excluding -(2**31))" -/
def StyleSen.zInRange (ss : StyleSen) : Bool :=
  ss.z.all fun z => decide (-(2 ^ 31 : Int) < zInt z ∧ zInt z < 2 ^ 31)

def StyleSen.wf (st : Style) (ss : StyleSen) : Bool := ss.wfSyntax st && ss.zInRange

/-- well-formedness of everything before the style part -/
def Sentence.wfMain (sen : Sentence) : Bool :=
  sen.hAlign.all isHAlign && sen.width.all isDigit &&
  sen.vert.all (fun v => v.1.all isVAlign && v.2.all isDigit && (v.1.isSome || v.2 ≠ [])) &&   -- at least one
  sen.alpha.all (fun a => match a with
    | .disabled => true
    | .thr d => d ≠ [] && d.all isDigit
    | .hex x => x.length = 6 && x.all isHex
    | .termbg => true)

def Sentence.wf (st : Style) (sen : Sentence) : Bool := sen.wfMain && sen.style.all (·.wf st)

def StyleSen.unparse (ss : StyleSen) : List Char :=
  ss.method.toList ++
  ((match ss.z with | some z => 'z' :: (if z.1 then ['-'] else []) ++ z.2 | none => []) ++
  ((match ss.mix with | some c => ['m', c] | none => []) ++
  (match ss.compress with | some c => ['c', c] | none => [])))

def AlphaSyn.unparse : AlphaSyn → List Char
  | .disabled => ['#']
  | .thr d => '#' :: '.' :: d
  | .hex x => '#' :: x
  | .termbg => ['#', '#']

def unparseVert : Option (Option Char × List Char) → List Char
  | none => []
  | some v => '.' :: v.1.toList ++ v.2

def Sentence.unparse (sen : Sentence) : List Char :=
  sen.hAlign.toList ++ (sen.width ++ (unparseVert sen.vert ++
    ((match sen.alpha with | some a => a.unparse | none => []) ++
    (match sen.style with | some ss => '+' :: ss.unparse | none => []))))

/-- `s` is a sentence of the documented grammar for render style `st` -/
def Grammar (st : Style) (s : List Char) : Prop := ∃ sen : Sentence, sen.wf st = true ∧ sen.unparse = s

/-! ## documented meaning -/

/-- style arguments: `L/W/A` → the render method; `z`, `m`, `c` → their values; a value equal to the
    documented default (`z0`, `m0`, `c4`) is the default, i.e. not an override -/
def StyleSen.methArgs (ss : StyleSen) : List (String × ArgVal) :=
  match ss.method with | some c => [("method", .str (methodName c))] | none => []
def StyleSen.zArgs (ss : StyleSen) : List (String × ArgVal) :=
  match ss.z with | some z => [("z_index", .int (zInt z))] | none => []
def StyleSen.mixArgs (ss : StyleSen) : List (String × ArgVal) :=
  match ss.mix with | some c => [("mix", .bool (c == '1'))] | none => []
def StyleSen.compArgs (ss : StyleSen) : List (String × ArgVal) :=
  match ss.compress with | some c => [("compress", .int (natOfDigits [c]))] | none => []

/-- every field that is written, as an explicit keyword argument of `draw()` -/
def StyleSen.explicitArgs (ss : StyleSen) : List (String × ArgVal) :=
  ss.methArgs ++ (ss.zArgs ++ (ss.mixArgs ++ ss.compArgs))

def StyleSen.zDen (ss : StyleSen) : List (String × ArgVal) :=
  match ss.z with | some z => if zInt z = 0 then [] else [("z_index", .int (zInt z))] | none => []
def StyleSen.mixDen (ss : StyleSen) : List (String × ArgVal) :=
  match ss.mix with | some c => if c == '1' then [("mix", .bool true)] else [] | none => []
def StyleSen.compDen (ss : StyleSen) : List (String × ArgVal) :=
  match ss.compress with
  | some c => if natOfDigits [c] = 4 then [] else [("compress", .int (natOfDigits [c]))]
  | none => []

/-- the documented meaning of the style part: the overrides, i.e. the written fields whose value is
    not the documented default (`z0`, `m0`, `c4`; the method has no default value) -/
def StyleSen.denote (ss : StyleSen) : List (String × ArgVal) :=
  ss.methArgs ++ (ss.zDen ++ (ss.mixDen ++ ss.compDen))

/-- padding size: a positive integer is used as is; absent = the default frame dimension (`0` for the
    width, `-2` for the height), zero = frame dimension `0`; a non-positive frame dimension is relative
    to the terminal: `max(terminal_dimension + frame_dimension, 1)` (docs of `draw()`) -/
def padOf (term : Nat) (frame : Nat) (ds : List Char) : Nat :=
  if ds = [] then max (term - frame) 1
  else if natOfDigits ds > 0 then natOfDigits ds else max term 1

def Sentence.heightDigits (sen : Sentence) : List Char :=
  match sen.vert with | some v => v.2 | none => []

def Sentence.denote (cols lines : Nat) (sen : Sentence) : Result where
  fmt := ⟨sen.hAlign, padOf cols 0 sen.width, sen.vert.bind (·.1),
          padOf lines 2 sen.heightDigits⟩
  alpha := match sen.alpha with
    | none => .default                       -- transparency enabled with the default alpha threshold
    | some .disabled => .disabled            -- `#` alone: transparency disabled
    | some (.thr d) => .thr d                -- the float value `.ddd`
    | some (.hex x) => .bg ('#' :: x)        -- a hex colour
    | some .termbg => .bg ['#']              -- the terminal's default background colour
  args := match sen.style with | some ss => ss.denote | none => []

/-- the explicit `draw()` parameters equivalent to a sentence -/
def Sentence.explicit (sen : Sentence) : DrawArgs where
  hAlign := sen.hAlign.map fun c => [c]
  padWidth := natOfDigits sen.width                         -- absent = 0 = terminal-relative
  vAlign := sen.vert.bind fun v => v.1.map fun c => [c]
  padHeight := if sen.heightDigits = [] then -2 else natOfDigits sen.heightDigits
  alpha := (sen.denote 0 0).alpha
  style := match sen.style with | some ss => ss.explicitArgs | none => []

/-! ## which documented error for which non-sentence

The documented rules, and nothing else:
* the *render format specification* (`[h_align][width][.[v_align][height]][#[threshold|bgcolor]][+style]`)
  is violated → the format-specifier error (`ValueError: Invalid format specifier`, `Err.invalidSpec`).
  This is the case when the part before the style is not a well-formed main part, or a `+` is followed by
  nothing (`<style>` is a field; a field is not empty).
* the main part is fine, but the style part is not in the render style's own specification
  (`_check_style_format_spec`: "Raises StyleError: Invalid style-specific format specifier") → `StyleError`.
* the style part is lexically fine but a value is not allowed (`_check_style_args`: "ValueError: An
  argument is of an appropriate type but has an unexpected/invalid value" — only the z-index range can
  fail for what a specifier can express) → the value error (`Err.styleValue`).
The main part ends, and the style part begins, at the first `+`: no field of the main part contains one.

NOT DETERMINED by the documentation: a style part containing a line break.  It is certainly not a
sentence, but nothing says whether a line break already violates the format specification (then
`ValueError`) or is an invalid style-specific specifier (then `StyleError`).  For exactly these strings
(`Undetermined`) only the disjunction is claimed (`reject_kind_undetermined`). -/

def restToStyle : List Char → Option (List Char)
  | [] => none
  | _ :: t => some t

/-- (text before the first `+`, text after it if there is one) -/
def splitPlus (s : List Char) : List Char × Option (List Char) :=
  (s.takeWhile (· != '+'), restToStyle (s.dropWhile (· != '+')))

/-- `m` is a well-formed main part (a sentence without style part) -/
def MainPart (m : List Char) : Prop :=
  ∃ sen : Sentence, sen.style = none ∧ sen.wfMain = true ∧ sen.unparse = m

/-- `t` is lexically a sentence of the style's own specification -/
def StyleSyntax (st : Style) (t : List Char) : Prop :=
  ∃ ss : StyleSen, ss.wfSyntax st = true ∧ ss.unparse = t

/-- the strings for which the documentation does not determine the error class -/
def Undetermined (s : List Char) : Prop :=
  MainPart (splitPlus s).1 ∧ ∃ t, (splitPlus s).2 = some t ∧ t ≠ [] ∧ '\n' ∈ t

open Classical in
/-- the documented error of a non-sentence (meaningless on sentences) -/
noncomputable def kindOf (st : Style) (s : List Char) : Err :=
  if ¬ MainPart (splitPlus s).1 then .invalidSpec           -- the main part violates the format spec
  else match (splitPlus s).2 with
    | none => .invalidSpec                                   -- (a well-formed main part alone is a sentence)
    | some t =>
      if t = [] then .invalidSpec                            -- `+` followed by nothing
      else if ¬ StyleSyntax st t then .styleError            -- not in the style's specification
      else .styleValue                                       -- lexically fine, so a value must be out of range

end TIV.C19
