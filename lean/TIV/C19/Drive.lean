import TIV.Common.Wire
import TIV.C19.Model
import TIV.C19.Generated
/-! driver ops of C19 — one per executable model function -/
namespace TIV.C19
open TIV.Wire

def hexOfChars (cs : List Char) : String := hexEncode (String.ofList cs).toUTF8.toList

/-- a string argument: hex of its UTF-8 bytes -/
def chars : P (List Char) := do
  let b ← hex
  match String.fromUTF8? (ByteArray.mk b.toArray) with
  | some s => pure s.toList
  | none => failure

def pStyle : P Style := do
  let t ← word
  if t == "block" then pure .block else if t == "kitty" then pure .kitty
  else if t == "iterm2" then pure .iterm2 else failure

def fmtOptChar : Option Char → String
  | none => "-"
  | some c => hexOfChars [c]

def fmtAlphaSyn : Option AlphaSyn → String
  | none => "none"
  | some .disabled => "disabled"
  | some (.thr d) => "thr " ++ hexOfChars d
  | some (.hex x) => "hex " ++ hexOfChars x
  | some .termbg => "termbg"

def fmtGroups (g : Groups) : String :=
  fmtOptChar g.hAlign ++ " " ++ hexOfChars g.width ++ " " ++
  (match g.vert with
    | none => "none"
    | some (va, ht) => "some " ++ fmtOptChar va ++ " " ++ hexOfChars ht) ++ " " ++
  fmtAlphaSyn g.alpha ++ " " ++ fmtOpt hexOfChars g.style

def hex16 (n : Nat) : String :=
  String.ofList ((List.range 16).reverse.map fun i => hexDigit ((n / 16 ^ i) % 16))

def fmtAlpha : Alpha → String
  | .default => "thr " ++ hex16 Generated.alphaThresholdBits
  | .disabled => "none"
  | .thr d => "thr " ++ hex16 (decToF64 d)
  | .bg s => "bg " ++ hexOfChars s

def fmtArgVal : ArgVal → String
  | .str s => "s " ++ hexOfChars s
  | .int i => "i " ++ toString i
  | .bool b => "b " ++ fmtBool b

def fmtArgs (a : List (String × ArgVal)) : String :=
  fmtList (fun (n, v) => n ++ " " ++ fmtArgVal v) a

def fmtResult (r : Result) : String :=
  fmtOptChar r.fmt.hAlign ++ " " ++ toString r.fmt.width ++ " " ++ fmtOptChar r.fmt.vAlign ++ " " ++
  toString r.fmt.height ++ " " ++ fmtAlpha r.alpha ++ " " ++ fmtArgs r.args

def fmtExcept {α} (f : α → String) : Except Err α → String
  | .ok x => "ok " ++ f x
  | .error e => "err " ++ e.className

def fmtEv : Ev → String
  | .termSize => "termsize"
  | .render => "render"

def fmtEvE : EvE → String
  | .termSize => "termsize"
  | .enter => "enter"
  | .setSize c l => s!"setsize:{c}x{l}"
  | .render c l => s!"render:{c}x{l}"
  | .restore k => s!"restore:{k}"

def fmtSize : SizeSetting → String
  | .dyn k => s!"dyn {k}"
  | .fixed c l => s!"fixed {c} {l}"

def pSize : P SizeSetting := do
  let k ← word
  if k == "dyn" then do let n ← nat; pure (.dyn n)
  else if k == "fixed" then do let c ← nat; let l ← nat; pure (.fixed c l)
  else failure

def pArgVal : P ArgVal := do
  let k ← word
  if k == "s" then do let c ← chars; pure (.str c)
  else if k == "i" then do let i ← int; pure (.int i)
  else if k == "b" then do let b ← bool; pure (.bool b)
  else failure

def pArgs : P (List (String × ArgVal)) := listOf (do let n ← word; let v ← pArgVal; pure (n, v))

def pAlpha : P Alpha := do
  let k ← word
  if k == "default" then pure .default
  else if k == "none" then pure .disabled
  else if k == "thr" then do let d ← chars; pure (.thr d)
  else if k == "bg" then do let s ← chars; pure (.bg s)
  else failure

def pats (st : Style) : List Matcher :=
  match st with | .kitty => kittyPats | .iterm2 => iterm2Pats | .block => []

def enumStrings (alphabet : List Char) : Nat → List (List Char)
  | 0 => [[]]
  | k + 1 => alphabet.flatMap fun c => (enumStrings alphabet k).map (c :: ·)

def hashMod : Nat := 2 ^ 61 - 1
def polyHash (h : Nat) (s : String) : Nat :=
  (h * 1000003 + (s.toUTF8.toList ++ [10]).foldl (fun (n : Nat) (b : UInt8) => n * 256 + b.toNat) 0) % hashMod

def classOf {α} : Except Err α → Char
  | .ok _ => 'a'
  | .error .styleError => 's'
  | .error .invalidSpec => 'v'
  | .error _ => 'r'

/-- every string `pre ++ t`, `t` of length `k` over the alphabet: class per string + hash of the full results -/
def sweepWith (f : List Char → Char × String) (alphabet pre : List Char) (k : Nat) : String :=
  let rs := (enumStrings alphabet k).map fun t => f (pre ++ t)
  "ok " ++ String.ofList (rs.map (·.1)) ++ " " ++ toString (rs.foldl (fun h r => polyHash h r.2) 0)

def handler : Handler := fun op args =>
  match op with
  | "fmt" => run (do
      let s ← chars
      pure (match fmtMatch s with | some g => "ok " ++ fmtGroups g | none => "none")) args
  | "nov" => run (do let s ← chars; pure ("ok " ++ fmtBool (noVertMatch s))) args
  | "novold" => run (do let s ← chars; pure ("ok " ++ fmtBool (noVertMatchOld s))) args
  | "abg" => run (do let s ← chars; pure ("ok " ++ fmtBool (alphaBgMatch s))) args
  | "getstyle" => run (do
      let st ← pStyle; let s ← chars
      pure (fmtExcept (fun (p, fs) => hexOfChars p ++ " " ++ fmtList (fmtOpt hexOfChars) fs)
        (getStyleFormatSpec (pats st) s))) args
  | "stylespec" => run (do
      let st ← pStyle; let s ← chars
      pure (fmtExcept fmtArgs (checkStyleFormatSpec st s))) args
  | "styleargs" => run (do
      let st ← pStyle; let a ← pArgs
      pure (fmtExcept fmtArgs (checkStyleArgs st a))) args
  | "formatting" => run (do
      let cols ← nat; let lines ← nat
      let h ← optOf chars; let w ← int; let v ← optOf chars; let ht ← int
      pure (fmtExcept (fun f => fmtOptChar f.hAlign ++ " " ++ toString f.width ++ " " ++
        fmtOptChar f.vAlign ++ " " ++ toString f.height) (checkFormatting cols lines h w v ht))) args
  | "check" => run (do
      let st ← pStyle; let cols ← nat; let lines ← nat; let s ← chars
      pure (fmtExcept fmtResult (checkFormatSpec st cols lines s))) args
  | "accepts" => run (do let st ← pStyle; let s ← chars; pure ("ok " ++ fmtBool (accepts st s))) args
  | "format" => run (do
      let st ← pStyle; let cols ← nat; let lines ← nat; let s ← chars
      let (evs, r) := formatRun st cols lines s
      pure (fmtList fmtEv evs ++ " " ++ fmtExcept fmtResult r)) args
  | "fentry" => run (do
      -- <style> <subclass depth> <cols> <lines> <size setting> <frame> <resolved cols> <resolved lines> <glue> <spec>
      let st0 ← pStyle; let depth ← nat; let cols ← nat; let lines ← nat; let sz ← pSize; let fr ← nat
      let rc ← nat; let rl ← nat; let glue ← word; let s ← chars
      if glue != "format" && glue != "fstring" && glue != "strformat" then failure
      -- the instance's class: `depth` application-defined subclasses in front of the style class
      let st ← (match dispatch ((List.range depth).reverse.map KName.app ++ styleMro st0) with
        | some st => pure st | none => failure : P Style)
      let (img', evs, r) := formatEntry st cols lines (fun _ => (rc, rl)) ⟨sz, fr⟩ s
      pure (fmtList fmtEvE evs ++ " " ++ fmtExcept fmtResult r ++ " state " ++ fmtSize img'.size ++ " " ++
        toString img'.frame)) args
  | "centry" => run (do
      -- <entry> <style> <subclass depth> <cols> <lines> <spec>
      let e ← word; let st ← pStyle; let depth ← nat; let cols ← nat; let lines ← nat; let s ← chars
      let entry ← (if e == "check" then pure Entry.check else if e == "format" then pure Entry.format
        else if e == "iter" then pure Entry.iter else if e == "urwid" then pure Entry.urwid else failure : P Entry)
      let mro := (List.range depth).reverse.map KName.app ++ styleMro st
      let r := entryCheck entry mro cols lines s
      -- UrwidImage keeps the alignments, alpha and style arguments; sizes are not used and it sets z_index itself
      let fmtU (r : Result) : String :=
        fmtOptChar r.fmt.hAlign ++ " * " ++ fmtOptChar r.fmt.vAlign ++ " * " ++ fmtAlpha r.alpha ++ " " ++
          fmtArgs (r.args.filter fun a => a.1 != "z_index")
      if e == "urwid" then
        let (_, took, r') := urwidEntry (fun (n : Nat) => ((n : Int), n + 1)) mro cols lines s 0
        pure (fmtExcept fmtU r' ++ " pool " ++ fmtBool took)
      else pure (fmtExcept fmtResult r)) args
  | "citer" => run (do
      -- <style> <subclass depth> <cols> <lines> <frames> <n> <size changed before loop 2..> <spec>
      let st ← pStyle; let depth ← nat; let cols ← nat; let lines ← nat; let nf ← nat
      let changed ← listOf bool; let s ← chars
      let mro := (List.range depth).reverse.map KName.app ++ styleMro st
      pure (fmtExcept (fun rs => fmtList (fun r => "[" ++ fmtResult r ++ "]") rs)
        (iterEntry mro cols lines s nf changed))) args
  | "draw" => run (do
      let st ← pStyle; let cols ← nat; let lines ← nat
      let h ← optOf chars; let w ← int; let v ← optOf chars; let ht ← int
      let a ← pAlpha; let style ← pArgs
      pure (fmtExcept fmtResult (drawCall st cols lines ⟨h, w, v, ht, a, style⟩))) args
  | "sweep" => run (do
      let st ← pStyle; let al ← chars; let pre ← chars; let k ← nat
      pure (sweepWith (fun s => let r := checkFormatSpec st 80 30 s; (classOf r, fmtExcept fmtResult r)) al pre k)) args
  | "sweepk" => run (do
      -- the sweep on a class `depth` application subclasses below the style class
      let st ← pStyle; let depth ← nat; let al ← chars; let pre ← chars; let k ← nat
      let mro := (List.range depth).reverse.map KName.app ++ styleMro st
      pure (sweepWith (fun s => let r := checkFormatSpecK mro 80 30 s; (classOf r, fmtExcept fmtResult r)) al pre k)) args
  | "ssweep" => run (do
      let st ← pStyle; let al ← chars; let pre ← chars; let k ← nat
      pure (sweepWith (fun s => let r := checkStyleFormatSpec st s; (classOf r, fmtExcept fmtArgs r)) al pre k)) args
  | "float" => run (do let d ← chars; pure ("ok " ++ hex16 (decToF64 d))) args
  | _ => none

end TIV.C19
