import TIV.C04.Model
import TIV.C04.Translated
/-!
# C04 — the integer kernels of sizing ARE the translation of the current source

`TIV.C04.Translated.*` is regenerated on every run from `BaseImage._valid_size` (the lambda
resolving the frame dimensions), `GraphicsImage._pixels_cols/_pixels_lines` and
`BlockImage._pixels_cols`.  (`BlockImage._pixels_lines` is `ceil(pixels / 2)`, a float
division — outside the translated subset; it stays tied by the correspondence only.)
-/
namespace TIV.C04

/-- TRANSLATION TIE frame-dimension resolution:
    `frame_dim if frame_dim > 0 else max(terminal_dim + frame_dim, 1)` -/
theorem resolve_eq_translated (frameDim : Int) (termDim : Nat) :
    (resolve frameDim termDim : Int) = Translated.resolve_frame_dim frameDim termDim := by
  unfold resolve Translated.resolve_frame_dim
  split <;> omega

example : Translated.resolve_frame_dim (-2) 24 = 22 ∧ Translated.resolve_frame_dim (-100) 24 = 1 := by decide

/-- TRANSLATION TIE `GraphicsImage._pixels_cols` / `_pixels_lines`, both directions, for any cell
    size with non-zero dimensions (a zero cell dimension is `ZeroDivisionError` in the source,
    see `translated_zero_cell`) -/
theorem graphics_pixels_eq_translated (env : Env) (n : Nat) (other : Int)
    (hw : (cellOr env).1 ≠ 0) (hh : (cellOr env).2 ≠ 0) :
    Translated.graphics_pixels_cols true n other (cellOr env).1 = .ok (colsOfPixels .graphics env n : Int) ∧
    Translated.graphics_pixels_lines true n other (cellOr env).2 = .ok (linesOfPixels .graphics env n : Int) ∧
    Translated.graphics_pixels_cols false other n (cellOr env).1 = .ok (pixelsOfCols .graphics env n : Int) ∧
    Translated.graphics_pixels_lines false other n (cellOr env).2 = .ok (pixelsOfLines .graphics env n : Int) := by
  unfold Translated.graphics_pixels_cols Translated.graphics_pixels_lines colsOfPixels linesOfPixels
    pixelsOfCols pixelsOfLines
  simp [hw, hh, Int.fdiv_eq_ediv_of_nonneg]

theorem translated_zero_cell (p o : Int) :
    Translated.graphics_pixels_cols true p o 0 = .error "ZeroDivisionError" ∧
    Translated.graphics_pixels_lines true p o 0 = .error "ZeroDivisionError" := by
  simp [Translated.graphics_pixels_cols, Translated.graphics_pixels_lines]

example : Translated.graphics_pixels_cols true 85 0 9 = .ok 9 := by decide
example : Translated.graphics_pixels_lines false 0 7 18 = .ok 126 := by decide

/-- TRANSLATION TIE `BlockImage._pixels_cols` (one pixel per column) -/
theorem text_pixels_cols_eq_translated (env : Env) (n : Nat) (other : Int) :
    Translated.block_pixels_cols true n other = (colsOfPixels .text env n : Int) ∧
    Translated.block_pixels_cols false other n = (pixelsOfCols .text env n : Int) := by
  simp [Translated.block_pixels_cols, colsOfPixels, pixelsOfCols]

example : Translated.block_pixels_cols true 5 0 = 5 := by decide

end TIV.C04
