import TIV.C04.Sizing
/-! # C04 — the float-dependent facts about each sizing mode, under `FlLaws` -/
namespace TIV.C04
open SF

section
variable (L : FlLaws)
include L

/-- width given: the height is within one cell of the exact aspect-preserving value -/
theorem given_width_dev (fam : Family) (env : Env) (hwf : env.WF) (ow oh n : ℕ) (frame : Int × Int) (w h : ℕ)
    (how : 1 ≤ ow) (hoh : 1 ≤ oh) (hn : 1 ≤ n) (boh : oh < 2 ^ 53)
    (hpr : 0 < (pixelRatio fam env).val)
    (hE : ((pixelsOfCols fam env n : ℕ) : ℚ) / ow * oh * (pixelRatio fam env).val ≤ 2 ^ 40)
    (hr : validSize fam env (ow, oh) (.int n) .none frame = .ok (w, h)) :
    w = n ∧
    |(h : ℚ) - ((pixelsOfCols fam env n : ℕ) : ℚ) / ow * oh * (pixelRatio fam env).val / lineUnit fam env| < 1 := by
  have how' : ow ≠ 0 := by omega
  simp only [validSize, heightPxOfWidth, how', if_false] at hr
  injection hr with hr; injection hr with h1 h2
  refine ⟨by rw [← h1]; exact or1_of_pos hn, ?_⟩
  have hp : 0 < pixelsOfCols fam env n := by
    rw [pixelsOfCols_eq]; exact Nat.mul_pos hn (units_pos fam hwf).1
  have a1 := Approx.divNat L hp (show 0 < ow by omega)
  have a2 := Approx.fmul L a1 (Approx.ofNat L (show 0 < oh by omega) boh)
  have a3 := Approx.fmul L a2 (Approx.refl hpr)
  obtain ⟨d, b⟩ := round_dev a3 (by norm_num) hE
  rw [← h2]
  exact lines_dev L fam hwf _ _ a3.1 d b

/-- height given: the width is within one cell of the exact aspect-preserving value -/
theorem given_height_dev (fam : Family) (env : Env) (hwf : env.WF) (ow oh n : ℕ) (frame : Int × Int) (w h : ℕ)
    (how : 1 ≤ ow) (hoh : 1 ≤ oh) (hn : 1 ≤ n) (bow : ow < 2 ^ 53)
    (hpr : 0 < (pixelRatio fam env).val)
    (hE : ((pixelsOfLines fam env n : ℕ) : ℚ) / oh * ow / (pixelRatio fam env).val ≤ 2 ^ 40)
    (hr : validSize fam env (ow, oh) .none (.int n) frame = .ok (w, h)) :
    h = n ∧
    |(w : ℚ) - ((pixelsOfLines fam env n : ℕ) : ℚ) / oh * ow / (pixelRatio fam env).val / colUnit fam env| < 1 := by
  have hoh' : oh ≠ 0 := by omega
  simp only [validSize, widthPxOfHeight, hoh', if_false] at hr
  injection hr with hr; injection hr with h1 h2
  refine ⟨by rw [← h2]; exact or1_of_pos hn, ?_⟩
  have hp : 0 < pixelsOfLines fam env n := by
    rw [pixelsOfLines_eq]; exact Nat.mul_pos hn (units_pos fam hwf).2
  have a1 := Approx.divNat L hp (show 0 < oh by omega)
  have a2 := Approx.fmul L a1 (Approx.ofNat L (show 0 < ow by omega) bow)
  have a3 := Approx.fdiv L a2 (Approx.refl hpr)
  obtain ⟨d, _⟩ := round_dev a3 (by norm_num) hE
  rw [← h1]
  exact cols_dev fam hwf _ _ a3.1 d

/-- FIT_TO_WIDTH: the height is within one cell of the exact value for the frame width -/
theorem ftw_dev (fam : Family) (env : Env) (hwf : env.WF) (ow oh fw : ℕ) (w h : ℕ)
    (how : 1 ≤ ow) (hoh : 1 ≤ oh) (hfw : 1 ≤ fw) (boh : oh < 2 ^ 53)
    (hpr : 0 < (pixelRatio fam env).val)
    (hE : (fw : ℚ) / ow * oh * (pixelRatio fam env).val ≤ 2 ^ 40)
    (hr : fitToWidthSize fam env (ow, oh) fw = .ok (w, h)) :
    |(h : ℚ) - (fw : ℚ) / ow * oh * (pixelRatio fam env).val / lineUnit fam env| < 1 := by
  have how' : ow ≠ 0 := by omega
  simp only [fitToWidthSize, heightPxOfWidth, how', if_false] at hr
  injection hr with hr; injection hr with h1 h2
  have a1 := Approx.divNat L (show 0 < fw by omega) (show 0 < ow by omega)
  have a2 := Approx.fmul L a1 (Approx.ofNat L (show 0 < oh by omega) boh)
  have a3 := Approx.fmul L a2 (Approx.refl hpr)
  obtain ⟨d, b⟩ := round_dev a3 (by norm_num) hE
  rw [← h2]
  exact lines_dev L fam hwf _ _ a3.1 d b

/-- ORIGINAL: each dimension is within one cell of the original's size in cells -/
theorem original_dev (fam : Family) (env : Env) (hwf : env.WF) (ow oh : ℕ)
    (how : 1 ≤ ow) (hoh : 1 ≤ oh) (boh : oh < 2 ^ 53)
    (hpr : 0 < (pixelRatio fam env).val)
    (hE : (oh : ℚ) * (pixelRatio fam env).val ≤ 2 ^ 40) :
    |((originalSize fam env (ow, oh)).1 : ℚ) - (ow : ℚ) / colUnit fam env| < 1 ∧
    |((originalSize fam env (ow, oh)).2 : ℚ) - (oh : ℚ) * (pixelRatio fam env).val / lineUnit fam env| < 1 := by
  constructor
  · exact cols_dev fam hwf ow ow (by exact_mod_cast how) (by simp; norm_num)
  · have a1 := Approx.fmul L (Approx.ofNat L (show 0 < oh by omega) boh) (Approx.refl hpr)
    obtain ⟨d, b⟩ := round_dev a1 (by norm_num) hE
    exact lines_dev L fam hwf _ _ a1.1 d b

end
end TIV.C04
