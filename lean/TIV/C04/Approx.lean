import TIV.C04.FloatLaws
/-! # C04 — relative-error tracking through chains of rounded operations -/
namespace TIV.C04
open SF

/-- one rounding changes a value by a factor within `[1/ρ, ρ]` -/
def ρ : ℚ := 1 + 1 / 2 ^ 52

theorem ρ_pos : 0 < ρ := by unfold ρ; positivity
theorem ρ_ge_one : 1 ≤ ρ := by unfold ρ; norm_num
theorem ρ_pow_pos (k : ℕ) : 0 < ρ ^ k := pow_pos ρ_pos k
theorem ρ_pow_ge_one (k : ℕ) : 1 ≤ ρ ^ k := one_le_pow₀ ρ_ge_one

/-- `x` is the exact value `a` after at most `k` roundings: `a / ρ^k ≤ x ≤ a * ρ^k` -/
def Approx (k : ℕ) (a x : ℚ) : Prop := 0 < a ∧ a ≤ x * ρ ^ k ∧ x ≤ a * ρ ^ k

theorem Approx.pos {k a x} (h : Approx k a x) : 0 < x := by
  obtain ⟨h0, h1, _⟩ := h
  by_contra hx
  have : x * ρ ^ k ≤ 0 := mul_nonpos_of_nonpos_of_nonneg (le_of_not_gt hx) (le_of_lt (ρ_pow_pos k))
  linarith

theorem Approx.refl {a : ℚ} (h : 0 < a) : Approx 0 a a := ⟨h, by simp, by simp⟩

theorem Approx.mono {j k a x} (h : Approx j a x) (hjk : j ≤ k) : Approx k a x := by
  obtain ⟨h0, h1, h2⟩ := h
  have hx := Approx.pos ⟨h0, h1, h2⟩
  have hp : ρ ^ j ≤ ρ ^ k := pow_le_pow_right₀ ρ_ge_one hjk
  exact ⟨h0, le_trans h1 (mul_le_mul_of_nonneg_left hp (le_of_lt hx)),
    le_trans h2 (mul_le_mul_of_nonneg_left hp (le_of_lt h0))⟩

theorem Approx.mul {j k a b x y} (hx : Approx j a x) (hy : Approx k b y) : Approx (j + k) (a * b) (x * y) := by
  have px := hx.pos; have py := hy.pos
  obtain ⟨a0, a1, a2⟩ := hx; obtain ⟨b0, b1, b2⟩ := hy
  refine ⟨mul_pos a0 b0, ?_, ?_⟩
  · calc a * b ≤ (x * ρ ^ j) * (y * ρ ^ k) := mul_le_mul a1 b1 (le_of_lt b0) (le_of_lt (mul_pos px (ρ_pow_pos j)))
      _ = x * y * ρ ^ (j + k) := by rw [pow_add]; ring
  · calc x * y ≤ (a * ρ ^ j) * (b * ρ ^ k) := mul_le_mul a2 b2 (le_of_lt py) (le_of_lt (mul_pos a0 (ρ_pow_pos j)))
      _ = a * b * ρ ^ (j + k) := by rw [pow_add]; ring

theorem Approx.inv {k b y} (hy : Approx k b y) : Approx k b⁻¹ y⁻¹ := by
  have py := hy.pos
  obtain ⟨b0, b1, b2⟩ := hy
  have hρ := ρ_pow_pos k
  refine ⟨inv_pos.mpr b0, ?_, ?_⟩
  · rw [inv_mul_eq_div, inv_eq_one_div, div_le_div_iff₀ b0 py, one_mul]; linarith
  · rw [inv_mul_eq_div, inv_eq_one_div, div_le_div_iff₀ py b0, one_mul]; linarith

theorem Approx.div {j k a b x y} (hx : Approx j a x) (hy : Approx k b y) : Approx (j + k) (a / b) (x / y) := by
  rw [div_eq_mul_inv, div_eq_mul_inv]; exact hx.mul hy.inv

/-- a chain of at most 12 roundings of a value below 2^40 stays within a quarter of it -/
theorem Approx.near {k a x} (h : Approx k a x) (hk : k ≤ 12) (ha : a ≤ 2 ^ 40) : |x - a| ≤ 1 / 4 := by
  obtain ⟨a0, a1, a2⟩ := h.mono hk
  have hx := h.pos
  have hρ : ρ ^ 12 ≤ 1 + 1 / 2 ^ 48 := by unfold ρ; norm_num
  have hρ1 : 1 ≤ ρ ^ 12 := ρ_pow_ge_one 12
  rw [abs_le]
  constructor
  · -- a ≤ x ρ^12 ≤ x + x/2^48 and x ≤ a ρ^12 ≤ 2 a
    have h1 : x * ρ ^ 12 ≤ x * (1 + 1 / 2 ^ 48) := mul_le_mul_of_nonneg_left hρ (le_of_lt hx)
    have h2 : a * ρ ^ 12 ≤ a * (1 + 1 / 2 ^ 48) := mul_le_mul_of_nonneg_left hρ (le_of_lt a0)
    have h3 : x ≤ 2 ^ 41 := by nlinarith
    nlinarith
  · have h2 : a * ρ ^ 12 ≤ a * (1 + 1 / 2 ^ 48) := mul_le_mul_of_nonneg_left hρ (le_of_lt a0)
    nlinarith

theorem val_mul_exact (x y : F64) :
    ((x.num * y.num : ℕ) : ℚ) / ((x.den * y.den : ℕ) : ℚ) = x.val * y.val := by
  unfold F64.val; push_cast
  rw [div_mul_div_comm]

theorem val_div_exact (x y : F64) :
    ((x.num * y.den : ℕ) : ℚ) / ((x.den * y.num : ℕ) : ℚ) = x.val / y.val := by
  unfold F64.val; push_cast
  rw [div_div_div_eq]

theorem num_pos_of_val_pos {y : F64} (h : 0 < y.val) : 0 < y.num := by
  unfold F64.val at h
  by_contra h0
  have : y.num = 0 := by omega
  rw [this] at h; simp at h

section laws
variable (L : FlLaws)
include L

/-- one correctly rounded operation adds one rounding -/
theorem Approx.fl {k a} {n d : ℕ} (hd : 0 < d) (h : Approx k a ((n : ℚ) / d)) : Approx (k + 1) a (fl n d).val := by
  have hq := h.pos
  obtain ⟨a0, a1, a2⟩ := h
  have he := abs_le.mp (L.err n d hd)
  have hρk := ρ_pow_pos k
  set q : ℚ := (n : ℚ) / d
  set x := (SF.fl n d).val
  have lo : q ≤ x * ρ := by
    unfold ρ
    have : q / 2 ^ 53 * (1 + 1 / 2 ^ 52) ≤ q / 2 ^ 52 := by
      have : q / 2 ^ 53 * (1 + 1 / 2 ^ 52) = q / 2 ^ 52 * ((1 + 1 / 2 ^ 52) / 2) := by ring
      rw [this]
      have h1 : ((1 : ℚ) + 1 / 2 ^ 52) / 2 ≤ 1 := by norm_num
      have h2 : 0 ≤ q / 2 ^ 52 := by positivity
      nlinarith
    nlinarith [he.1]
  have hi : x ≤ q * ρ := by
    unfold ρ
    have : q / 2 ^ 53 ≤ q * (1 / 2 ^ 52) := by
      have : q / 2 ^ 53 = q * (1 / 2 ^ 52) / 2 := by ring
      rw [this]; linarith [mul_pos hq (show (0 : ℚ) < 1 / 2 ^ 52 by positivity)]
    linarith [he.2]
  refine ⟨a0, ?_, ?_⟩
  · calc a ≤ q * ρ ^ k := a1
      _ ≤ (x * ρ) * ρ ^ k := mul_le_mul_of_nonneg_right lo (le_of_lt hρk)
      _ = x * ρ ^ (k + 1) := by rw [pow_succ]; ring
  · calc x ≤ q * ρ := hi
      _ ≤ (a * ρ ^ k) * ρ := mul_le_mul_of_nonneg_right a2 (le_of_lt ρ_pos)
      _ = a * ρ ^ (k + 1) := by rw [pow_succ]; ring

theorem Approx.fmul {j k a b} {x y : F64} (hx : Approx j a x.val) (hy : Approx k b y.val) :
    Approx (j + k + 1) (a * b) (SF.mul x y).val := by
  unfold SF.mul
  apply Approx.fl L (Nat.mul_pos (den_pos x) (den_pos y))
  rw [val_mul_exact]; exact hx.mul hy

theorem Approx.fdiv {j k a b} {x y : F64} (hx : Approx j a x.val) (hy : Approx k b y.val) :
    Approx (j + k + 1) (a / b) (SF.div x y).val := by
  unfold SF.div
  apply Approx.fl L (Nat.mul_pos (den_pos x) (num_pos_of_val_pos hy.pos))
  rw [val_div_exact]; exact hx.div hy

theorem Approx.ofNat {n : ℕ} (h0 : 0 < n) (h : n < 2 ^ 53) : Approx 0 (n : ℚ) (SF.ofNat n).val := by
  unfold SF.ofNat
  rw [L.exact_nat n h]
  exact Approx.refl (by exact_mod_cast h0)

theorem Approx.divNat {a b : ℕ} (ha : 0 < a) (hb : 0 < b) : Approx 1 ((a : ℚ) / b) (SF.divNat a b).val := by
  unfold SF.divNat
  have : Approx 0 ((a : ℚ) / b) ((a : ℚ) / b) := Approx.refl (by positivity)
  exact Approx.fl L hb this

theorem val_ofNat {n : ℕ} (h : n < 2 ^ 53) : (SF.ofNat n).val = n := L.exact_nat n h

theorem val_one : SF.one.val = 1 := by
  unfold SF.one; rw [val_ofNat L (by norm_num)]; simp

/-- `x / x` is exactly `1.0` -/
theorem val_div_self {x : F64} (hx : 0 < x.val) : (SF.div x x).val = 1 := by
  have hn := num_pos_of_val_pos hx
  have hd := den_pos x
  have e : ((x.num * x.den : ℕ) : ℚ) / ((x.den * x.num : ℕ) : ℚ) = ((1 : ℕ) : ℚ) / ((1 : ℕ) : ℚ) := by
    push_cast
    have : (x.num : ℚ) ≠ 0 := by exact_mod_cast (ne_of_gt hn)
    have : (x.den : ℚ) ≠ 0 := by exact_mod_cast (ne_of_gt hd)
    field_simp
  have p : 0 < x.den * x.num := Nat.mul_pos hd hn
  unfold SF.div
  apply le_antisymm
  · have := L.mono _ _ 1 1 p Nat.one_pos (le_of_eq e)
    rwa [L.exact_nat 1 (by norm_num)] at this
  · have := L.mono 1 1 _ _ Nat.one_pos p (le_of_eq e.symm)
    rwa [L.exact_nat 1 (by norm_num)] at this

/-- rounding is monotone, stated on values -/
theorem val_mul_le {x y z : F64} (h : x.val * y.val ≤ z.val) :
    (SF.mul x y).val ≤ (SF.fl z.num z.den).val := by
  unfold SF.mul
  apply L.mono _ _ _ _ (Nat.mul_pos (den_pos x) (den_pos y)) (den_pos z)
  rw [val_mul_exact]; exact h

end laws
end TIV.C04
