import TIV.C04.Model
/-! helper lemmas for C04 that need no float reasoning (core Lean only) -/
namespace TIV.C04
open SF

theorem or1_pos (n : Nat) : 1 ≤ or1 n := by unfold or1; split <;> omega
theorem or1_of_pos {n : Nat} (h : 1 ≤ n) : or1 n = n := by unfold or1; split <;> omega
theorem or1_le {n k : Nat} (h : n ≤ k) (hk : 1 ≤ k) : or1 n ≤ k := by unfold or1; split <;> omega

/-- the environment's cell size, when known, is a pair of positive integers -/
def Env.WF (env : Env) : Prop := ∀ c, env.cell = some c → 0 < c.1 ∧ 0 < c.2

theorem cellOr_pos {env : Env} (h : env.WF) : 0 < (cellOr env).1 ∧ 0 < (cellOr env).2 := by
  unfold cellOr
  cases hc : env.cell with
  | none => simp
  | some c => simpa using h c hc

theorem resolve_pos (d : Int) (t : Nat) : 1 ≤ resolve d t := by
  unfold resolve; split <;> omega

theorem cols_roundtrip (fam : Family) {env : Env} (h : env.WF) (c : Nat) :
    colsOfPixels fam env (pixelsOfCols fam env c) = c := by
  cases fam with
  | text => rfl
  | graphics =>
    simp only [colsOfPixels, pixelsOfCols]
    exact Nat.mul_div_cancel _ (cellOr_pos h).1

theorem colsOfPixels_mono (fam : Family) (env : Env) {p q : Nat} (h : p ≤ q) :
    colsOfPixels fam env p ≤ colsOfPixels fam env q := by
  cases fam with
  | text => exact h
  | graphics => exact Nat.div_le_div_right h

/-! ### every branch of `_valid_size` clamps with `or 1` -/

theorem fitSize_pos {fam env ori fw fh w h} (hr : fitSize fam env ori fw fh = .ok (w, h)) :
    1 ≤ w ∧ 1 ≤ h := by
  unfold fitSize at hr
  split at hr
  · cases hr
  · split at hr
    · cases hr
    · simp only at hr
      split at hr <;> (injection hr with hr; injection hr with h1 h2; subst h1; subst h2; exact ⟨or1_pos _, or1_pos _⟩)

theorem fitToWidthSize_pos {fam env ori fw w h} (hr : fitToWidthSize fam env ori fw = .ok (w, h)) :
    1 ≤ w ∧ 1 ≤ h := by
  unfold fitToWidthSize at hr
  split at hr
  · cases hr
  · injection hr with hr; injection hr with h1 h2; subst h1; subst h2; exact ⟨or1_pos _, or1_pos _⟩

theorem originalSize_pos (fam env ori) : 1 ≤ (originalSize fam env ori).1 ∧ 1 ≤ (originalSize fam env ori).2 :=
  ⟨or1_pos _, or1_pos _⟩

/-- the automatic branch of `_valid_size` (neither argument an `int`) -/
def autoBranch (fam : Family) (env : Env) (ori : Nat × Nat) (width height : Arg) (frame : Int × Int) :
    Except Err (Nat × Nat) :=
  let fw := pixelsOfCols fam env (resolve frame.1 env.cols)
  let fh := pixelsOfLines fam env (resolve frame.2 env.lines)
  if has .auto width height then
    if autoIsFit fam env ori fw fh then fitSize fam env ori fw fh else .ok (originalSize fam env ori)
  else if has .fitToWidth width height then fitToWidthSize fam env ori fw
  else if has .original width height then .ok (originalSize fam env ori)
  else fitSize fam env ori fw fh

def Arg.isInt : Arg → Bool
  | .int _ => true
  | _ => false

theorem validSize_auto {fam env ori width height frame}
    (hw : width.isInt = false) (hh : height.isInt = false) :
    validSize fam env ori width height frame = autoBranch fam env ori width height frame := by
  cases width <;> cases height <;> simp [Arg.isInt] at hw hh <;> rfl

theorem autoBranch_pos {fam env ori width height frame w h}
    (hr : autoBranch fam env ori width height frame = .ok (w, h)) : 1 ≤ w ∧ 1 ≤ h := by
  unfold autoBranch at hr
  simp only at hr
  split at hr
  · split at hr
    · exact fitSize_pos hr
    · injection hr with hr; have := originalSize_pos fam env ori; rw [hr] at this; exact this
  · split at hr
    · exact fitToWidthSize_pos hr
    · split at hr
      · injection hr with hr; have := originalSize_pos fam env ori; rw [hr] at this; exact this
      · exact fitSize_pos hr

section
variable {fam : Family} {env : Env} {ori : Nat × Nat} {width height : Arg} {frame : Int × Int}

theorem autoBranch_of_auto (h : has .auto width height = true) :
    autoBranch fam env ori width height frame =
      if autoIsFit fam env ori (pixelsOfCols fam env (resolve frame.1 env.cols))
          (pixelsOfLines fam env (resolve frame.2 env.lines))
      then fitSize fam env ori (pixelsOfCols fam env (resolve frame.1 env.cols))
          (pixelsOfLines fam env (resolve frame.2 env.lines))
      else .ok (originalSize fam env ori) := by
  simp [autoBranch, h]

theorem autoBranch_of_ftw (h1 : has .auto width height = false) (h2 : has .fitToWidth width height = true) :
    autoBranch fam env ori width height frame =
      fitToWidthSize fam env ori (pixelsOfCols fam env (resolve frame.1 env.cols)) := by
  simp [autoBranch, h1, h2]

theorem autoBranch_of_original (h1 : has .auto width height = false)
    (h2 : has .fitToWidth width height = false) (h3 : has .original width height = true) :
    autoBranch fam env ori width height frame = .ok (originalSize fam env ori) := by
  simp [autoBranch, h1, h2, h3]

theorem autoBranch_of_fit (h1 : has .auto width height = false)
    (h2 : has .fitToWidth width height = false) (h3 : has .original width height = false) :
    autoBranch fam env ori width height frame =
      fitSize fam env ori (pixelsOfCols fam env (resolve frame.1 env.cols))
        (pixelsOfLines fam env (resolve frame.2 env.lines)) := by
  simp [autoBranch, h1, h2, h3]
end

theorem autoIsFit_false_iff {fam env ori fw fh} :
    autoIsFit fam env ori fw fh = false ↔
      ori.1 ≤ fw ∧ SF.round (mul (ofNat ori.2) (pixelRatio fam env)) ≤ fh := by
  simp [autoIsFit]

end TIV.C04
