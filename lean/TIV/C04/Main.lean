import TIV.Common.DriverMain
import TIV.C04.Drive
def main : IO Unit := TIV.driverMain TIV.C04.handler
