import TIV.C04.Proofs
import Mathlib.Tactic.Linarith
import Mathlib.Tactic.Ring
import Mathlib.Tactic.Positivity
import Mathlib.Tactic.FieldSimp
import Mathlib.Tactic.NormNum
import Mathlib.Algebra.Order.Field.Basic
import Mathlib.Data.Rat.Cast.Order
/-!
# C04 — the laws of correctly rounded arithmetic used by the sizing theorems, and error tracking

`FlLaws` is a *proposition about the concrete function `SF.fl`* (not an axiom, not an abstract
type): monotonicity, the half-ulp relative error bound, and exactness on integers and
half-integers below 2^53.
-/
namespace TIV.C04
open SF

/-- the exact rational value of a float -/
def _root_.TIV.C04.SF.F64.val (x : F64) : ℚ := (x.num : ℚ) / (x.den : ℚ)

theorem den_pos (x : F64) : 0 < x.den := by
  unfold F64.den; split <;> positivity

theorem den_posQ (x : F64) : (0 : ℚ) < x.den := by exact_mod_cast den_pos x

structure FlLaws : Prop where
  mono : ∀ n₁ d₁ n₂ d₂ : ℕ, 0 < d₁ → 0 < d₂ → (n₁ : ℚ) / d₁ ≤ (n₂ : ℚ) / d₂ → (fl n₁ d₁).val ≤ (fl n₂ d₂).val
  err : ∀ n d : ℕ, 0 < d → |(fl n d).val - (n : ℚ) / d| ≤ (n : ℚ) / d / 2 ^ 53
  exact_nat : ∀ k : ℕ, k < 2 ^ 53 → (fl k 1).val = k
  exact_half : ∀ k : ℕ, k < 2 ^ 53 → (fl k 2).val = (k : ℚ) / 2

/-! ### `round`, `ceil`, comparisons in terms of `val` -/

theorem rne_half (n d : ℕ) (hd : 0 < d) : |((rne n d : ℕ) : ℚ) - (n : ℚ) / d| ≤ 1 / 2 := by
  have hdq : (0 : ℚ) < d := by exact_mod_cast hd
  have hn : (n : ℚ) = (d : ℚ) * ((n / d : ℕ) : ℚ) + ((n % d : ℕ) : ℚ) := by
    exact_mod_cast (Nat.div_add_mod n d).symm
  have hr : ((n % d : ℕ) : ℚ) < d := by exact_mod_cast Nat.mod_lt n hd
  have hr0 : (0 : ℚ) ≤ ((n % d : ℕ) : ℚ) := by positivity
  have hq : (n : ℚ) / d = ((n / d : ℕ) : ℚ) + ((n % d : ℕ) : ℚ) / d := by
    rw [hn]; field_simp
  set q := n / d with hqd
  set r := n % d with hrd
  have hrd' : ((r : ℚ)) / d * d = r := by field_simp
  rw [hq, abs_le]
  unfold rne
  simp only [← hqd, ← hrd]
  split
  · rename_i h
    have : (2 : ℚ) * r < d := by exact_mod_cast h
    constructor
    · have : (r : ℚ) / d ≤ 1 / 2 := by rw [div_le_iff₀ hdq]; linarith
      linarith
    · have : 0 ≤ (r : ℚ) / d := by positivity
      linarith
  · rename_i h
    split
    · rename_i h2
      have : (d : ℚ) < 2 * r := by exact_mod_cast h2
      have h3 : 1 / 2 ≤ (r : ℚ) / d := by rw [le_div_iff₀ hdq]; linarith
      have h4 : (r : ℚ) / d ≤ 1 := by rw [div_le_one hdq]; linarith
      push_cast
      constructor <;> linarith
    · rename_i h2
      have he : 2 * r = d := by omega
      have : (2 : ℚ) * r = d := by exact_mod_cast he
      have h3 : (r : ℚ) / d = 1 / 2 := by rw [div_eq_iff (ne_of_gt hdq)]; linarith
      split <;> (push_cast; constructor <;> linarith)

theorem round_half (x : F64) : |((SF.round x : ℕ) : ℚ) - x.val| ≤ 1 / 2 :=
  rne_half _ _ (den_pos x)

/-- `round x = N` as soon as `x` is within a quarter of the integer `N` -/
theorem round_eq_of_near (x : F64) (N : ℕ) (h : |x.val - N| ≤ 1 / 4) : SF.round x = N := by
  have h1 := abs_le.mp (round_half x)
  have h2 := abs_le.mp h
  have a : ((SF.round x : ℕ) : ℚ) < (N : ℚ) + 1 := by linarith [h1.2, h2.2]
  have b : (N : ℚ) < ((SF.round x : ℕ) : ℚ) + 1 := by linarith [h1.1, h2.1]
  have a' : SF.round x < N + 1 := by exact_mod_cast a
  have b' : N < SF.round x + 1 := by exact_mod_cast b
  omega

theorem round_le_of_val_le (x : F64) (N : ℕ) (h : x.val ≤ N + 1 / 4) : SF.round x ≤ N := by
  have h1 := abs_le.mp (round_half x)
  have a : ((SF.round x : ℕ) : ℚ) < (N : ℚ) + 1 := by linarith [h1.2]
  have a' : SF.round x < N + 1 := by exact_mod_cast a
  omega

theorem lt_iff (x y : F64) : SF.lt x y = true ↔ x.val < y.val := by
  unfold SF.lt F64.val
  rw [div_lt_div_iff₀ (den_posQ x) (den_posQ y), decide_eq_true_iff]
  constructor
  · intro h; exact_mod_cast h
  · intro h; exact_mod_cast h

theorem ltNatF_iff (n : ℕ) (x : F64) : ltNatF n x = true ↔ (n : ℚ) < x.val := by
  unfold ltNatF F64.val
  rw [lt_div_iff₀ (den_posQ x), decide_eq_true_iff]
  constructor
  · intro h; exact_mod_cast h
  · intro h; exact_mod_cast h

theorem ltFNat_iff (x : F64) (n : ℕ) : ltFNat x n = true ↔ x.val < (n : ℚ) := by
  unfold ltFNat F64.val
  rw [div_lt_iff₀ (den_posQ x), decide_eq_true_iff]
  constructor
  · intro h; exact_mod_cast h
  · intro h; exact_mod_cast h

/-- `ceil x = c` when `c - 1 < x ≤ c` -/
theorem ceil_eq (x : F64) (c : ℕ) (h1 : (c : ℚ) - 1 < x.val) (h2 : x.val ≤ c) : SF.ceil x = c := by
  unfold F64.val at h1 h2
  have hd := den_pos x
  have hdq := den_posQ x
  rw [lt_div_iff₀ hdq] at h1
  rw [div_le_iff₀ hdq] at h2
  have a : x.num ≤ c * x.den := by exact_mod_cast h2
  have b : c * x.den < x.num + x.den := by
    have : (c : ℚ) * x.den < x.num + x.den := by linarith
    exact_mod_cast this
  unfold SF.ceil
  have e : (c + 1) * x.den = c * x.den + x.den := by ring
  apply Nat.div_eq_of_lt_le
  · omega
  · omega

end TIV.C04
