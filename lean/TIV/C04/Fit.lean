import TIV.C04.Modes
/-! # C04 — the FIT computation under `FlLaws` -/
namespace TIV.C04
open SF

theorem ρ3_le_two : ρ ^ 3 ≤ 2 := by unfold ρ; norm_num

section
variable (L : FlLaws)
include L

/-- the block `if height_ratio > width_ratio:` — `W` is the frame width after two roundings,
    `H` the proportional height `H0` after two roundings -/
theorem fitHeightFree_spec (fam : Family) (env : Env) (hwf : env.WF) (fw fh cols lines : ℕ) (pr W H : F64) (H0 : ℚ)
    (hfw : fw = pixelsOfCols fam env cols) (hfh : fh = pixelsOfLines fam env lines)
    (hc : 1 ≤ cols) (hl : 1 ≤ lines) (bfw : (fw : ℚ) ≤ 2 ^ 39) (bfh : (fh : ℚ) ≤ 2 ^ 39)
    (hpr : 0 < pr.val) (hW : Approx 2 (fw : ℚ) W.val) (hH : Approx 2 H0 H.val)
    (w h : ℕ) (hr : fitHeightFree fam env fh pr W H = (w, h)) :
    (w = cols ∧ h ≤ lines ∧ |(h : ℚ) - H0 * pr.val / lineUnit fam env| < 1) ∨
    (h = lines ∧ w ≤ cols ∧ |(w : ℚ) - (fh : ℚ) / (H0 * pr.val) * fw / colUnit fam env| < 1) := by
  have aHp : Approx 3 (H0 * pr.val) (SF.mul H pr).val := (Approx.fmul L hH (Approx.refl hpr)).mono (by norm_num)
  have hfwpos : (0 : ℚ) < fw := hW.1
  have bfh53 : fh < 2 ^ 53 := by
    have : (fh : ℚ) < ((2 ^ 53 : ℕ) : ℚ) := by push_cast; linarith [show (2 : ℚ) ^ 39 < 2 ^ 53 by norm_num]
    exact_mod_cast this
  unfold fitHeightFree at hr
  simp only [pyMin, Num.lt] at hr
  cases hlt : ltNatF fh (SF.mul H pr)
  · -- the scaled height fits: it stays a float, the factor is x / x = 1.0
    left
    simp only [hlt, Bool.false_eq_true, if_false, Num.divF, Num.round] at hr
    injection hr with h1 h2
    have hle : (SF.mul H pr).val ≤ fh := by
      by_contra hc'
      have := (ltNatF_iff fh _).mpr (lt_of_not_ge hc')
      rw [this] at hlt; cases hlt
    have hone : Approx 0 (1 : ℚ) (SF.div (SF.mul H pr) (SF.mul H pr)).val := by
      rw [val_div_self L aHp.pos]; exact Approx.refl one_pos
    have aprod := Approx.fmul L hone hW
    rw [one_mul] at aprod
    have hwpx := round_exact aprod (by norm_num) (by linarith)
    rw [hwpx] at h1
    refine ⟨?_, ?_, ?_⟩
    · rw [← h1, hfw, cols_roundtrip fam hwf]; exact or1_of_pos hc
    · rw [← h2]
      apply lines_le L fam hwf hl
      · rw [← hfh]; exact round_le_of_val_le _ _ (by linarith)
      · rw [← hfh]; exact bfh53
    · have hb : H0 * pr.val ≤ 2 ^ 40 := by
        have h1' := aHp.2.1
        have : (SF.mul H pr).val * ρ ^ 3 ≤ fh * 2 :=
          mul_le_mul hle ρ3_le_two (le_of_lt (ρ_pow_pos 3)) (le_of_lt (lt_of_lt_of_le aHp.pos hle))
        linarith
      obtain ⟨d, b⟩ := round_dev aHp (by norm_num) hb
      rw [← h2]
      exact lines_dev L fam hwf _ _ aHp.1 d b
  · -- the scaled height exceeds the frame: capped to the (integer) frame height
    right
    simp only [hlt, if_true, Num.divF, Num.round] at hr
    injection hr with h1 h2
    have hgt : (fh : ℚ) < (SF.mul H pr).val := (ltNatF_iff fh _).mp hlt
    have hfhpos : 0 < fh := by
      rw [hfh, pixelsOfLines_eq]; exact Nat.mul_pos hl (units_pos fam hwf).2
    have afac := Approx.fdiv L (Approx.ofNat L hfhpos bfh53) aHp
    have aprod := Approx.fmul L afac hW
    have hq : (fh : ℚ) / (H0 * pr.val) ≤ ρ ^ 3 := by
      rw [div_le_iff₀ aHp.1]; linarith [aHp.2.2]
    have hfhq : (0 : ℚ) < fh := by exact_mod_cast hfhpos
    have ha : (fh : ℚ) / (H0 * pr.val) * fw ≤ 2 ^ 40 := by
      have : (fh : ℚ) / (H0 * pr.val) * fw ≤ 2 * fw :=
        mul_le_mul_of_nonneg_right (le_trans hq ρ3_le_two) (le_of_lt hfwpos)
      linarith
    refine ⟨?_, ?_, ?_⟩
    · rw [← h2, hfh, lines_roundtrip L fam hwf lines (by rw [← pixelsOfLines_eq, ← hfh]; exact bfh53)]
      exact or1_of_pos hl
    · rw [← h1]
      apply cols_le fam hwf hc
      rw [← hfw]
      apply round_le_of_val_le
      have h3 := aprod.2.2
      have h4 : (fh : ℚ) / (H0 * pr.val) * fw * ρ ^ (0 + 3 + 1 + 2 + 1) ≤ fw * ρ ^ 10 := by
        have : (fh : ℚ) / (H0 * pr.val) * fw ≤ ρ ^ 3 * fw := mul_le_mul_of_nonneg_right hq (le_of_lt hfwpos)
        calc (fh : ℚ) / (H0 * pr.val) * fw * ρ ^ (0 + 3 + 1 + 2 + 1)
            ≤ (ρ ^ 3 * fw) * ρ ^ (0 + 3 + 1 + 2 + 1) := mul_le_mul_of_nonneg_right this (le_of_lt (ρ_pow_pos _))
          _ = fw * ρ ^ 10 := by ring
      exact upper_near hfwpos (le_trans h3 h4) (by norm_num) (by linarith)
    · obtain ⟨d, _⟩ := round_dev aprod (by norm_num) ha
      rw [← h1]
      exact cols_dev fam hwf _ _ aprod.1 d

/-- the block `else:` — `H` is the frame height after two roundings, `W` the proportional
    width `W0` after two roundings -/
theorem fitWidthFree_spec (fam : Family) (env : Env) (hwf : env.WF) (fw fh cols lines : ℕ) (pr W H : F64) (W0 : ℚ)
    (hfw : fw = pixelsOfCols fam env cols) (hfh : fh = pixelsOfLines fam env lines)
    (hc : 1 ≤ cols) (hl : 1 ≤ lines) (bfw : (fw : ℚ) ≤ 2 ^ 39) (bfh : (fh : ℚ) ≤ 2 ^ 39)
    (hpr : 0 < pr.val) (hW : Approx 2 W0 W.val) (hH : Approx 2 (fh : ℚ) H.val)
    (w h : ℕ) (hr : fitWidthFree fam env fw pr W H = (w, h)) :
    (h = lines ∧ w ≤ cols ∧ |(w : ℚ) - W0 / pr.val / colUnit fam env| < 1) ∨
    (w = cols ∧ h ≤ lines ∧ |(h : ℚ) - (fw : ℚ) / (W0 / pr.val) * fh / lineUnit fam env| < 1) := by
  have aWp : Approx 3 (W0 / pr.val) (SF.div W pr).val := (Approx.fdiv L hW (Approx.refl hpr)).mono (by norm_num)
  have hfhpos : (0 : ℚ) < fh := hH.1
  have bfh53 : fh < 2 ^ 53 := by
    have : (fh : ℚ) < ((2 ^ 53 : ℕ) : ℚ) := by push_cast; linarith [show (2 : ℚ) ^ 39 < 2 ^ 53 by norm_num]
    exact_mod_cast this
  have bfw53 : fw < 2 ^ 53 := by
    have : (fw : ℚ) < ((2 ^ 53 : ℕ) : ℚ) := by push_cast; linarith [show (2 : ℚ) ^ 39 < 2 ^ 53 by norm_num]
    exact_mod_cast this
  unfold fitWidthFree at hr
  simp only [pyMin, Num.lt] at hr
  cases hlt : ltNatF fw (SF.div W pr)
  · left
    simp only [hlt, Bool.false_eq_true, if_false, Num.divF, Num.round] at hr
    injection hr with h1 h2
    have hle : (SF.div W pr).val ≤ fw := by
      by_contra hc'
      have := (ltNatF_iff fw _).mpr (lt_of_not_ge hc')
      rw [this] at hlt; cases hlt
    have hone : Approx 0 (1 : ℚ) (SF.div (SF.div W pr) (SF.div W pr)).val := by
      rw [val_div_self L aWp.pos]; exact Approx.refl one_pos
    have aprod := Approx.fmul L hone hH
    rw [one_mul] at aprod
    have hhpx := round_exact aprod (by norm_num) (by linarith)
    rw [hhpx] at h2
    refine ⟨?_, ?_, ?_⟩
    · rw [← h2, hfh, lines_roundtrip L fam hwf lines (by rw [← pixelsOfLines_eq, ← hfh]; exact bfh53)]
      exact or1_of_pos hl
    · rw [← h1]
      apply cols_le fam hwf hc
      rw [← hfw]; exact round_le_of_val_le _ _ (by linarith)
    · have hb : W0 / pr.val ≤ 2 ^ 40 := by
        have h1' := aWp.2.1
        have : (SF.div W pr).val * ρ ^ 3 ≤ fw * 2 :=
          mul_le_mul hle ρ3_le_two (le_of_lt (ρ_pow_pos 3)) (le_of_lt (lt_of_lt_of_le aWp.pos hle))
        linarith
      obtain ⟨d, _⟩ := round_dev aWp (by norm_num) hb
      rw [← h1]
      exact cols_dev fam hwf _ _ aWp.1 d
  · right
    simp only [hlt, if_true, Num.divF, Num.round] at hr
    injection hr with h1 h2
    have hgt : (fw : ℚ) < (SF.div W pr).val := (ltNatF_iff fw _).mp hlt
    have hfwpos : 0 < fw := by
      rw [hfw, pixelsOfCols_eq]; exact Nat.mul_pos hc (units_pos fam hwf).1
    have afac := Approx.fdiv L (Approx.ofNat L hfwpos bfw53) aWp
    have aprod := Approx.fmul L afac hH
    have hq : (fw : ℚ) / (W0 / pr.val) ≤ ρ ^ 3 := by
      rw [div_le_iff₀ aWp.1]; linarith [aWp.2.2]
    have ha : (fw : ℚ) / (W0 / pr.val) * fh ≤ 2 ^ 40 := by
      have : (fw : ℚ) / (W0 / pr.val) * fh ≤ 2 * fh :=
        mul_le_mul_of_nonneg_right (le_trans hq ρ3_le_two) (le_of_lt hfhpos)
      linarith
    refine ⟨?_, ?_, ?_⟩
    · rw [← h1, hfw, cols_roundtrip fam hwf]; exact or1_of_pos hc
    · rw [← h2]
      apply lines_le L fam hwf hl
      · rw [← hfh]
        apply round_le_of_val_le
        have h3 := aprod.2.2
        have h4 : (fw : ℚ) / (W0 / pr.val) * fh * ρ ^ (0 + 3 + 1 + 2 + 1) ≤ fh * ρ ^ 10 := by
          have : (fw : ℚ) / (W0 / pr.val) * fh ≤ ρ ^ 3 * fh := mul_le_mul_of_nonneg_right hq (le_of_lt hfhpos)
          calc (fw : ℚ) / (W0 / pr.val) * fh * ρ ^ (0 + 3 + 1 + 2 + 1)
              ≤ (ρ ^ 3 * fh) * ρ ^ (0 + 3 + 1 + 2 + 1) := mul_le_mul_of_nonneg_right this (le_of_lt (ρ_pow_pos _))
            _ = fh * ρ ^ 10 := by ring
        exact upper_near hfhpos (le_trans h3 h4) (by norm_num) (by linarith)
      · rw [← hfh]; exact bfh53
    · obtain ⟨d, b⟩ := round_dev aprod (by norm_num) ha
      rw [← h2]
      exact lines_dev L fam hwf _ _ aprod.1 d b

/-- **FIT**: the result fills one side of the frame exactly, does not exceed the other, and the
    free dimension is within one cell of the exact aspect-preserving value for the side it fills -/
theorem fit_core (fam : Family) (env : Env) (hwf : env.WF) (ow oh cols lines w h : ℕ)
    (how : 1 ≤ ow) (hoh : 1 ≤ oh) (bow : ow < 2 ^ 53) (boh : oh < 2 ^ 53) (hc : 1 ≤ cols) (hl : 1 ≤ lines)
    (bfw : ((pixelsOfCols fam env cols : ℕ) : ℚ) ≤ 2 ^ 39) (bfh : ((pixelsOfLines fam env lines : ℕ) : ℚ) ≤ 2 ^ 39)
    (hpr : 0 < (pixelRatio fam env).val)
    (hr : fitSize fam env (ow, oh) (pixelsOfCols fam env cols) (pixelsOfLines fam env lines) = .ok (w, h)) :
    (w = cols ∧ h ≤ lines ∧
      |(h : ℚ) - ((pixelsOfCols fam env cols : ℕ) : ℚ) / ow * oh * (pixelRatio fam env).val / lineUnit fam env| < 1) ∨
    (h = lines ∧ w ≤ cols ∧
      |(w : ℚ) - ((pixelsOfLines fam env lines : ℕ) : ℚ) / oh * ow / (pixelRatio fam env).val / colUnit fam env| < 1) := by
  have how' : ow ≠ 0 := by omega
  have hoh' : oh ≠ 0 := by omega
  have howq : (0 : ℚ) < ow := by exact_mod_cast how
  have hohq : (0 : ℚ) < oh := by exact_mod_cast hoh
  have hfwpos : 0 < pixelsOfCols fam env cols := by
    rw [pixelsOfCols_eq]; exact Nat.mul_pos hc (units_pos fam hwf).1
  have hfhpos : 0 < pixelsOfLines fam env lines := by
    rw [pixelsOfLines_eq]; exact Nat.mul_pos hl (units_pos fam hwf).2
  have hfwq : (0 : ℚ) < ((pixelsOfCols fam env cols : ℕ) : ℚ) := by exact_mod_cast hfwpos
  have hfhq : (0 : ℚ) < ((pixelsOfLines fam env lines : ℕ) : ℚ) := by exact_mod_cast hfhpos
  set fw := pixelsOfCols fam env cols with hfw
  set fh := pixelsOfLines fam env lines with hfh
  set PR := (pixelRatio fam env).val with hPR
  have awr := Approx.divNat L hfwpos (show 0 < ow by omega)
  have ahr := Approx.divNat L hfhpos (show 0 < oh by omega)
  have aow := Approx.ofNat L (show 0 < ow by omega) bow
  have aoh := Approx.ofNat L (show 0 < oh by omega) boh
  simp only [fitSize, how', hoh', if_false] at hr
  split at hr
  · rename_i hlt
    have h1 : (SF.divNat fw ow).val < (SF.divNat fh oh).val := (lt_iff _ _).mp hlt
    have h2 : SF.lt (SF.divNat fh oh) (SF.divNat fw ow) = false := by
      cases hx : SF.lt (SF.divNat fh oh) (SF.divNat fw ow)
      · rfl
      · have := (lt_iff _ _).mp hx; linarith
    simp only [h2, Bool.false_eq_true, if_false] at hr
    injection hr with hr
    have hW : Approx 2 (fw : ℚ) (SF.mul (SF.ofNat ow) (SF.divNat fw ow)).val := by
      have := (Approx.fmul L aow awr).mono (show 0 + 1 + 1 ≤ 2 by norm_num)
      have e : (ow : ℚ) * ((fw : ℚ) / ow) = fw := by field_simp
      rwa [e] at this
    have hH : Approx 2 ((oh : ℚ) * ((fw : ℚ) / ow)) (SF.mul (SF.ofNat oh) (SF.divNat fw ow)).val :=
      (Approx.fmul L aoh awr).mono (show 0 + 1 + 1 ≤ 2 by norm_num)
    have := fitHeightFree_spec L fam env hwf fw fh cols lines _ _ _ _ hfw hfh hc hl bfw bfh hpr hW hH w h hr
    have e1 : (oh : ℚ) * ((fw : ℚ) / ow) * PR = (fw : ℚ) / ow * oh * PR := by ring
    have e2 : (fh : ℚ) / ((fw : ℚ) / ow * oh * PR) * fw = (fh : ℚ) / oh * ow / PR := by
      have : PR ≠ 0 := ne_of_gt hpr
      field_simp
    rw [← hPR, e1, e2] at this
    exact this
  · rename_i hlt
    have h1 : ¬ (SF.divNat fw ow).val < (SF.divNat fh oh).val := fun hx => hlt ((lt_iff _ _).mpr hx)
    have asr : Approx 1 ((fh : ℚ) / oh)
        (if SF.lt (SF.divNat fh oh) (SF.divNat fw ow) = true then SF.divNat fh oh else SF.divNat fw ow).val := by
      split
      · exact ahr
      · rename_i h2
        have h3 : ¬ (SF.divNat fh oh).val < (SF.divNat fw ow).val := fun hx => h2 ((lt_iff _ _).mpr hx)
        have : (SF.divNat fw ow).val = (SF.divNat fh oh).val := le_antisymm (not_lt.mp h3) (not_lt.mp h1)
        rw [this]; exact ahr
    injection hr with hr
    have hH := (Approx.fmul L aoh asr).mono (show 0 + 1 + 1 ≤ 2 by norm_num)
    have e : (oh : ℚ) * ((fh : ℚ) / oh) = fh := by field_simp
    rw [e] at hH
    have hW := (Approx.fmul L aow asr).mono (show 0 + 1 + 1 ≤ 2 by norm_num)
    have := fitWidthFree_spec L fam env hwf fw fh cols lines _ _ _ _ hfw hfh hc hl bfw bfh hpr hW hH w h hr
    have e1 : (ow : ℚ) * ((fh : ℚ) / oh) / PR = (fh : ℚ) / oh * ow / PR := by ring
    have e2 : (fw : ℚ) / ((fh : ℚ) / oh * ow / PR) * fh = (fw : ℚ) / ow * oh * PR := by
      have : PR ≠ 0 := ne_of_gt hpr
      field_simp
    rw [← hPR, e1, e2] at this
    exact this.symm

end
end TIV.C04
