import TIV.Common.Wire
import TIV.C04.Model
/-! driver ops of C04: `sf.*` (softfloat), `conv`, `valid`, `setsize`, `hist` -/
namespace TIV.C04
open TIV.Wire SF

def natOfBytes (bs : List UInt8) : Nat := bs.foldl (fun acc b => acc * 256 + b.toNat) 0

def hexPad16 (n : Nat) : String :=
  String.ofList ((List.range 16).map fun i => hexDigit ((n / 16 ^ (15 - i)) % 16))

/-- a float as the 16 hex digits of its binary64 image -/
def pF64 : P F64 := do
  let bs ← hex
  if bs.length ≠ 8 then failure
  match ofBits (natOfBytes bs) with
  | some x => pure x
  | none => failure

def fmtF64 (x : F64) : String :=
  match toBits x with
  | some b => "ok " ++ hexPad16 b
  | none => "err range"

def pSize : P Size := do
  let t ← word
  match t with
  | "AUTO" => pure .auto
  | "FIT" => pure .fit
  | "FIT_TO_WIDTH" => pure .fitToWidth
  | "ORIGINAL" => pure .original
  | _ => failure

def fmtSize : Size → String
  | .auto => "AUTO" | .fit => "FIT" | .fitToWidth => "FIT_TO_WIDTH" | .original => "ORIGINAL"

def pArg : P Arg := do
  let t ← word
  match t with
  | "none" => pure .none
  | "sz" => do let s ← pSize; pure (.sz s)
  | "int" => do let n ← nat; pure (.int n)
  | _ => failure

def pSArg : P SArg := do
  let t ← word
  match t with
  | "none" => pure .none
  | "sz" => do let s ← pSize; pure (.sz s)
  | "int" => do let n ← int; pure (.int n)
  | _ => failure

def pFam : P Family := do
  let t ← word
  match t with
  | "t" => pure .text
  | "g" => pure .graphics
  | _ => failure

def pCell : P (Option (Nat × Nat)) := optOf (do let a ← nat; let b ← nat; pure (a, b))

def pEnv : P Env := do
  let cols ← nat; let lines ← nat; let cell ← pCell; let ratio ← optOf pF64
  pure { cols, lines, cell, ratio }

def fmtErr : Err → String
  | .zeroDivisionError => "ZeroDivisionError" | .typeError => "TypeError" | .valueError => "ValueError"
  | .termImageError => "TermImageError" | .mixed => "mixed"
  | .fileNotFoundError => "FileNotFoundError" | .invalidSizeError => "InvalidSizeError" | .runtimeError => "RuntimeError"

def fmtPair : Except Err (Nat × Nat) → String
  | .ok (w, h) => s!"ok {w} {h}"
  | .error e => "err " ++ fmtErr e

def fmtStored : Stored → String
  | .fixed w h => s!"F {w} {h}"
  | .dynamic s => "D " ++ fmtSize s

def fmtObs : Obs → String
  | .err e => "err " ++ fmtErr e
  | .done => "done"
  | .rendered w h => s!"rendered {w} {h}"

def pRatioArg : P RatioArg := do
  let t ← word
  match t with
  | "v" => do let x ← pF64; pure (.value x)
  | "fixed" => pure .fixed
  | "dynamic" => pure .dynamic
  | "bad" => do
    let e ← word
    match e with
    | "ValueError" => pure (.bad .valueError)
    | "TypeError" => pure (.bad .typeError)
    | _ => failure
  | _ => failure

def pOp : P Op := do
  let t ← word
  match t with
  | "ss" => do let w ← pSArg; let h ← pSArg; let a ← int; let b ← int; pure (.setSize w h (a, b))
  | "sd" => do let s ← pSize; pure (.sizeDyn s)
  | "st" => do let w ← int; let h ← int; pure (.sizeTuple w h)
  | "sw" => do let a ← pSArg; pure (.setWidth a)
  | "sh" => do let a ← pSArg; pure (.setHeight a)
  | "rs" => do let c ← nat; let l ← nat; pure (.resize c l)
  | "sc" => do let c ← pCell; pure (.setCell c)
  | "sr" => do let a ← pRatioArg; pure (.setRatio a)
  | "rn" => pure .render
  | "rw" => do
    let c ← bool; let sc ← bool; let f ← word
    match f with
    | "none" => pure (.renderWith c sc .none)
    | "source" => pure (.renderWith c sc .source)
    | "renderer" => pure (.renderWith c sc .renderer)
    | _ => failure
  | _ => failure

def fmtBoolR (b : Bool) : String := "ok " ++ fmtBool b

def handler : Handler := fun op args =>
  match op with
  | "sf.fl" => Wire.run (do let n ← nat; let d ← nat; pure (fmtF64 (fl n d))) args
  | "sf.ofnat" => Wire.run (do let n ← nat; pure (fmtF64 (ofNat n))) args
  | "sf.divnat" => Wire.run (do let a ← nat; let b ← nat; pure (fmtF64 (divNat a b))) args
  | "sf.mul" => Wire.run (do let x ← pF64; let y ← pF64; pure (fmtF64 (mul x y))) args
  | "sf.div" => Wire.run (do let x ← pF64; let y ← pF64; pure (fmtF64 (div x y))) args
  | "sf.lt" => Wire.run (do let x ← pF64; let y ← pF64; pure (fmtBoolR (SF.lt x y))) args
  | "sf.ltnf" => Wire.run (do let n ← nat; let x ← pF64; pure (fmtBoolR (ltNatF n x))) args
  | "sf.ltfn" => Wire.run (do let x ← pF64; let n ← nat; pure (fmtBoolR (ltFNat x n))) args
  | "sf.round" => Wire.run (do let x ← pF64; pure s!"ok {SF.round x}") args
  | "sf.ceil" => Wire.run (do let x ← pF64; pure s!"ok {SF.ceil x}") args
  | "sf.laws" => Wire.run (do
      -- the four `FlLaws` facts, evaluated exactly (integers only) on the pair (n1/d1, n2/d2)
      let n1 ← nat; let d1 ← nat; let n2 ← nat; let d2 ← nat
      if d1 = 0 ∨ d2 = 0 then failure
      let x1 := fl n1 d1; let x2 := fl n2 d2
      let le12 : Bool := n1 * d2 ≤ n2 * d1
      let vle12 : Bool := x1.num * x2.den ≤ x2.num * x1.den
      let vle21 : Bool := x2.num * x1.den ≤ x1.num * x2.den
      let mono : Bool := if le12 then vle12 else vle21
      let same : Bool := if n1 * d2 = n2 * d1 then x1 == x2 else true
      let dist (x : F64) (n d : Nat) : Nat := if x.num * d ≥ n * x.den then x.num * d - n * x.den else n * x.den - x.num * d
      let err : Bool := dist x1 n1 d1 * 2 ^ 53 ≤ n1 * x1.den && dist x2 n2 d2 * 2 ^ 53 ≤ n2 * x2.den
      let exact (x : F64) (n d : Nat) : Bool :=
        if d = 1 ∧ n < 2 ^ 53 then x.num == n * x.den
        else if d = 2 ∧ n < 2 ^ 53 then 2 * x.num == n * x.den else true
      let ex : Bool := exact x1 n1 d1 && exact x2 n2 d2
      pure s!"ok {fmtBool mono} {fmtBool same} {fmtBool err} {fmtBool ex}") args
  | "sf.rt" => Wire.run (do let x ← pF64; pure (fmtF64 x)) args
  | "conv" => Wire.run (do
      let fam ← pFam; let cell ← pCell; let what ← word; let n ← nat
      let env : Env := { cols := 0, lines := 0, cell, ratio := none }
      match what with
      | "pc" => pure s!"ok {pixelsOfCols fam env n}"
      | "cp" => pure s!"ok {colsOfPixels fam env n}"
      | "pl" => pure s!"ok {pixelsOfLines fam env n}"
      | "lp" => pure s!"ok {linesOfPixels fam env n}"
      | _ => failure) args
  | "ratio" => Wire.run (do
      let fam ← pFam; let env ← pEnv
      pure (fmtF64 (pixelRatio fam env))) args
  | "valid" => Wire.run (do
      let fam ← pFam; let env ← pEnv; let ow ← nat; let oh ← nat
      let w ← pArg; let h ← pArg; let a ← int; let b ← int
      pure (fmtPair (validSize fam env (ow, oh) w h (a, b)))) args
  | "setsize" => Wire.run (do
      let fam ← pFam; let env ← pEnv; let ow ← nat; let oh ← nat
      let w ← pSArg; let h ← pSArg; let a ← int; let b ← int
      pure (match setSize fam env (ow, oh) w h (a, b) with
        | .ok s => "ok " ++ fmtStored s
        | .error e => "err " ++ fmtErr e)) args
  | "hist" => Wire.run (do
      let fam ← pFam; let env ← pEnv; let ow ← nat; let oh ← nat
      let ops ← listOf pOp
      let tr := trace fam (ow, oh) { size := .dynamic .fit, env } ops
      pure ("ok " ++ fmtList (fun (o, s, r) => fmtObs o ++ " | " ++ fmtStored s ++ " | " ++ fmtPair r) tr)) args
  | _ => none

end TIV.C04
