import TIV.C04.Softfloat
/-!
# C04 — executable model of automatic sizing

Mirrors, branch by branch and in the code's order:
`BaseImage._valid_size`, `_width_height_px`, `set_size`, the `size`/`width`/`height` setters,
`rendered_size`, the size handling of `_renderer` (src/term_image/image/common.py), the pixel ↔
cell conversions of the two style families (`BlockImage._pixels_cols/_pixels_lines`,
`GraphicsImage._pixels_cols/_pixels_lines`), `TextImage._pixel_ratio`,
`GraphicsImage._pixel_ratio`, and `get_cell_ratio`/`set_cell_ratio` (src/term_image/__init__.py).
Python floats are `SF.F64` (exact binary64 arithmetic).  Import-free.
-/
namespace TIV.C04
open SF

/-- `term_image.image.Size` -/
inductive Size | auto | fit | fitToWidth | original
deriving DecidableEq, Repr

/-- a `width`/`height` argument as `_valid_size` receives it -/
inductive Arg | none | sz (s : Size) | int (n : Nat)
deriving DecidableEq, Repr

/-- text-based styles (1×2 pixels per cell) or graphics-based styles (cell-size pixels per cell) -/
inductive Family | text | graphics
deriving DecidableEq, Repr

inductive Err | zeroDivisionError | typeError | valueError | termImageError | mixed
  | fileNotFoundError | invalidSizeError | runtimeError
deriving DecidableEq, Repr

/-- everything outside the image that sizing reads -/
structure Env where
  cols : Nat                      -- get_terminal_size().columns
  lines : Nat                     -- get_terminal_size().lines
  cell : Option (Nat × Nat)       -- get_cell_size()
  ratio : Option F64              -- term_image._cell_ratio (None ⇔ AutoCellRatio.DYNAMIC)
deriving DecidableEq, Repr

/-- `get_cell_size() or (1, 2)` -/
def cellOr (env : Env) : Nat × Nat := env.cell.getD (1, 2)

/-- `get_cell_ratio()`: `_cell_ratio or truediv(*(get_cell_size() or (1, 2)))` -/
def getCellRatio (env : Env) : F64 :=
  match env.ratio with
  | some r => if r.isZero then divNat (cellOr env).1 (cellOr env).2 else r
  | none => divNat (cellOr env).1 (cellOr env).2

/-- `_pixel_ratio`: `get_cell_ratio() * 2` (text), the class attribute `1.0` (graphics) -/
def pixelRatio (fam : Family) (env : Env) : F64 :=
  match fam with
  | .text => mul (getCellRatio env) (ofNat 2)
  | .graphics => one

/-- `_pixels_cols(cols=c)` -/
def pixelsOfCols (fam : Family) (env : Env) (c : Nat) : Nat :=
  match fam with
  | .text => c
  | .graphics => c * (cellOr env).1

/-- `_pixels_cols(pixels=p)`: `pixels` (text), `ceil(pixels // cell_width)` (graphics) -/
def colsOfPixels (fam : Family) (env : Env) (p : Nat) : Nat :=
  match fam with
  | .text => p
  | .graphics => p / (cellOr env).1

/-- `_pixels_lines(lines=l)` -/
def pixelsOfLines (fam : Family) (env : Env) (l : Nat) : Nat :=
  match fam with
  | .text => l * 2
  | .graphics => l * (cellOr env).2

/-- `_pixels_lines(pixels=p)`: `ceil(pixels / 2)` (text, a float division),
    `ceil(pixels // cell_height)` (graphics) -/
def linesOfPixels (fam : Family) (env : Env) (p : Nat) : Nat :=
  match fam with
  | .text => ceil (divNat p 2)
  | .graphics => p / (cellOr env).2

/-- `frame_dim if frame_dim > 0 else max(terminal_dim + frame_dim, 1)` -/
def resolve (frameDim : Int) (termDim : Nat) : Nat :=
  if 0 < frameDim then frameDim.toNat else (max ((termDim : Int) + frameDim) 1).toNat

/-- `x or 1` -/
def or1 (n : Nat) : Nat := if n = 0 then 1 else n

/-- a Python number that is an `int` or a `float` (the result of `min(float, int)`) -/
inductive Num | i (n : Nat) | f (x : F64)
deriving DecidableEq, Repr

def Num.lt : Num → Num → Bool
  | .i a, .i b => a < b
  | .i a, .f y => ltNatF a y
  | .f x, .i b => ltFNat x b
  | .f x, .f y => SF.lt x y

/-- `min(a, b)`: `b` if `b < a` else `a` -/
def pyMin (a b : Num) : Num := if Num.lt b a then b else a

/-- `a / y` with `y` a float: an int operand is converted first -/
def Num.divF : Num → F64 → F64
  | .i a, y => div (ofNat a) y
  | .f x, y => div x y

/-- `round(a)` -/
def Num.round : Num → Nat
  | .i a => a
  | .f x => SF.round x

/-- `_width_height_px(w=w)`: `(w / ori_width) * ori_height` -/
def heightPxOfWidth (ori : Nat × Nat) (w : Nat) : Except Err F64 :=
  if ori.1 = 0 then .error .zeroDivisionError else .ok (mul (divNat w ori.1) (ofNat ori.2))

/-- `_width_height_px(h=h)`: `(h / ori_height) * ori_width` -/
def widthPxOfHeight (ori : Nat × Nat) (h : Nat) : Except Err F64 :=
  if ori.2 = 0 then .error .zeroDivisionError else .ok (mul (divNat h ori.2) (ofNat ori.1))

/-- the `Size.ORIGINAL` return -/
def originalSize (fam : Family) (env : Env) (ori : Nat × Nat) : Nat × Nat :=
  (or1 (colsOfPixels fam env ori.1),
   or1 (linesOfPixels fam env (SF.round (mul (ofNat ori.2) (pixelRatio fam env)))))

/-- the `Size.FIT_TO_WIDTH` return -/
def fitToWidthSize (fam : Family) (env : Env) (ori : Nat × Nat) (fw : Nat) : Except Err (Nat × Nat) :=
  match heightPxOfWidth ori fw with
  | .error e => .error e
  | .ok hp =>
    .ok (or1 (colsOfPixels fam env fw),
         or1 (linesOfPixels fam env (SF.round (mul hp (pixelRatio fam env)))))

/-- the `if height_ratio > width_ratio:` block of the FIT computation (the width constrains;
    the pixel ratio scales the height, which is then capped at the frame height) -/
def fitHeightFree (fam : Family) (env : Env) (fh : Nat) (pr _widthPx _heightPx : F64) : Nat × Nat :=
  let _heightPx := mul _heightPx pr
  let heightPx := pyMin (.f _heightPx) (.i fh)
  let widthPx := SF.round (mul (heightPx.divF _heightPx) _widthPx)
  let heightPx := heightPx.round
  (or1 (colsOfPixels fam env widthPx), or1 (linesOfPixels fam env heightPx))

/-- the `else:` block of the FIT computation (the height constrains; the pixel ratio scales the
    width, which is then capped at the frame width) -/
def fitWidthFree (fam : Family) (env : Env) (fw : Nat) (pr _widthPx _heightPx : F64) : Nat × Nat :=
  let _widthPx := div _widthPx pr
  let widthPx := pyMin (.f _widthPx) (.i fw)
  let heightPx := SF.round (mul (widthPx.divF _widthPx) _heightPx)
  let widthPx := widthPx.round
  (or1 (colsOfPixels fam env widthPx), or1 (linesOfPixels fam env heightPx))

/-- the `Size.FIT` computation (the tail of the automatic branch) -/
def fitSize (fam : Family) (env : Env) (ori : Nat × Nat) (fw fh : Nat) : Except Err (Nat × Nat) :=
  if ori.1 = 0 then .error .zeroDivisionError else
  let widthRatio := divNat fw ori.1
  if ori.2 = 0 then .error .zeroDivisionError else
  let heightRatio := divNat fh ori.2
  let smallerRatio := if SF.lt heightRatio widthRatio then heightRatio else widthRatio
  let _widthPx := mul (ofNat ori.1) smallerRatio
  let _heightPx := mul (ofNat ori.2) smallerRatio
  if SF.lt widthRatio heightRatio then
    .ok (fitHeightFree fam env fh (pixelRatio fam env) _widthPx _heightPx)
  else
    .ok (fitWidthFree fam env fw (pixelRatio fam env) _widthPx _heightPx)

/-- `Size.X in (width, height)` -/
def has (s : Size) (width height : Arg) : Bool := width == .sz s || height == .sz s

/-- the AUTO test: `ori_width > frame_width or round(ori_height * pixel_ratio) > frame_height` -/
def autoIsFit (fam : Family) (env : Env) (ori : Nat × Nat) (fw fh : Nat) : Bool :=
  fw < ori.1 || fh < SF.round (mul (ofNat ori.2) (pixelRatio fam env))

/-- `BaseImage._valid_size(width, height, frame_size)` -/
def validSize (fam : Family) (env : Env) (ori : Nat × Nat) (width height : Arg) (frame : Int × Int) :
    Except Err (Nat × Nat) :=
  let columns := resolve frame.1 env.cols
  let lines := resolve frame.2 env.lines
  let fw := pixelsOfCols fam env columns
  let fh := pixelsOfLines fam env lines
  match width, height with
  | .int w, .int h => .ok (or1 w, or1 h)
  | .int _, .sz _ => .error .mixed      -- Python returns a tuple holding the enum member; set_size never gets here
  | .sz _, .int _ => .error .mixed
  | .none, .int h =>
    match widthPxOfHeight ori (pixelsOfLines fam env h) with
    | .error e => .error e
    | .ok wp => .ok (or1 (colsOfPixels fam env (SF.round (div wp (pixelRatio fam env)))), or1 h)
  | .int w, .none =>
    match heightPxOfWidth ori (pixelsOfCols fam env w) with
    | .error e => .error e
    | .ok hp => .ok (or1 w, or1 (linesOfPixels fam env (SF.round (mul hp (pixelRatio fam env)))))
  | width, height =>
    if has .auto width height then
      if autoIsFit fam env ori fw fh then fitSize fam env ori fw fh else .ok (originalSize fam env ori)
    else if has .fitToWidth width height then fitToWidthSize fam env ori fw
    else if has .original width height then .ok (originalSize fam env ori)
    else fitSize fam env ori fw fh

/-! ## the image's size setting and its history -/

/-- `image._size`: a fixed pair or a `Size` member (dynamic) -/
inductive Stored | fixed (w h : Nat) | dynamic (s : Size)
deriving DecidableEq, Repr

/-- a `width`/`height` argument as the caller passes it to `set_size` -/
inductive SArg | none | sz (s : Size) | int (n : Int)
deriving DecidableEq, Repr

def SArg.toArg : SArg → Arg
  | .none => .none
  | .sz s => .sz s
  | .int n => .int n.toNat

def SArg.isInt : SArg → Bool
  | .int _ => true
  | _ => false

/-- the default `frame_size` of `set_size`/`_valid_size` -/
def defaultFrame : Int × Int := (0, -2)

/-- `set_size(width, height, frame_size)`: the new `_size`, or the exception -/
def setSize (fam : Family) (env : Env) (ori : Nat × Nat) (width height : SArg) (frame : Int × Int) :
    Except Err Stored :=
  match width with
  | .int w => if w ≤ 0 then .error .valueError else setSize2 width height
  | _ => setSize2 width height
where
  setSize2 (width height : SArg) : Except Err Stored :=
    match height with
    | .int h => if h ≤ 0 then .error .valueError else setSize3 width height
    | _ => setSize3 width height
  setSize3 (width height : SArg) : Except Err Stored :=
    match width, height with
    | .int w, .int h => .ok (.fixed w.toNat h.toNat)          -- manual sizing: stored as given
    | .none, _ | _, .none =>
      match validSize fam env ori width.toArg height.toArg frame with
      | .error e => .error e
      | .ok (w, h) => .ok (.fixed w h)
    | _, _ => .error .typeError                                -- both given, not both integers

/-- `rendered_size`: `_valid_size(_size, None)` for a dynamic size, else `_size` -/
def renderedSize (fam : Family) (env : Env) (ori : Nat × Nat) (st : Stored) : Except Err (Nat × Nat) :=
  match st with
  | .fixed w h => .ok (w, h)
  | .dynamic s => validSize fam env ori (.sz s) .none defaultFrame

/-- a `set_cell_ratio` argument -/
inductive RatioArg | value (r : F64) | fixed | dynamic
  | bad (e : Err)   -- an argument the function rejects: a number ≤ 0 (`ValueError`) or a non-number (`TypeError`)
deriving DecidableEq, Repr

/-- `set_cell_ratio(ratio)`: the new `_cell_ratio`, or the exception.  (`AutoCellRatio.is_supported`
    is recomputed: the harness clears its cache whenever the cell size changes.) -/
def setCellRatio (env : Env) (a : RatioArg) : Except Err (Option F64) :=
  match a with
  | .value r => if r.isZero then .error .valueError else .ok (some r)
  | .bad e => .error e          -- validation comes before the assignment: nothing is stored
  | .fixed =>
    match env.cell with
    | none => .error .termImageError
    | some c => .ok (some (divNat c.1 c.2))
  | .dynamic =>
    match env.cell with
    | none => .error .termImageError
    | some _ => .ok none

structure State where
  size : Stored
  env : Env
deriving DecidableEq, Repr

/-- what an operation lets the caller observe: an exception, nothing, or (for `render`) the
    size the renderer ran with -/
inductive Obs | err (e : Err) | done | rendered (w h : Nat)
deriving DecidableEq, Repr

/-- where a render attempt fails, if it does: in `_get_image()` (the source file cannot be opened
    at that moment) or in the renderer function itself -/
inductive RFail | none | source | renderer
deriving DecidableEq, Repr

/-- what a render attempt that got past the size preparation lets the caller observe -/
def rfailObs (fail : RFail) (w h : Nat) : Obs :=
  match fail with
  | .none => .rendered w h
  | .source => .err .fileNotFoundError
  | .renderer => .err .runtimeError

inductive Op
  | setSize (width height : SArg) (frame : Int × Int)   -- image.set_size(width, height, frame)
  | sizeDyn (s : Size)                                  -- image.size = Size.X
  | sizeTuple (w h : Int)                               -- image.size = (w, h)
  | setWidth (a : SArg)                                 -- image.width = a
  | setHeight (a : SArg)                                -- image.height = a
  | resize (cols lines : Nat)                           -- the terminal is resized
  | setCell (c : Option (Nat × Nat))                    -- the cell size (as queried) changes
  | setRatio (a : RatioArg)                             -- set_cell_ratio(a)
  | render                                              -- image._renderer(f): f sees the size in effect
  | renderWith (check scroll : Bool) (fail : RFail)     -- image._renderer(f, check_size=…, scroll=…), possibly failing
deriving Repr

/-- is this an operation by which the *caller* sets the image size? -/
def Op.isSet : Op → Bool
  | .setSize .. | .sizeDyn _ | .sizeTuple .. | .setWidth _ | .setHeight _ => true
  | _ => false

def applySet (st : State) (r : Except Err Stored) : State × Obs :=
  match r with
  | .error e => (st, .err e)
  | .ok s => ({ st with size := s }, .done)

def step (fam : Family) (ori : Nat × Nat) (st : State) (op : Op) : State × Obs :=
  match op with
  | .setSize w h frame => applySet st (setSize fam st.env ori w h frame)
  | .sizeDyn s => ({ st with size := .dynamic s }, .done)
  | .sizeTuple w h => applySet st (setSize fam st.env ori (.int w) (.int h) defaultFrame)
  | .setWidth a => applySet st (setSize fam st.env ori a .none defaultFrame)
  | .setHeight a => applySet st (setSize fam st.env ori .none a defaultFrame)
  | .resize c l => ({ st with env := { st.env with cols := c, lines := l } }, .done)
  | .setCell c => ({ st with env := { st.env with cell := c } }, .done)
  | .setRatio a =>
    match setCellRatio st.env a with
    | .error e => (st, .err e)
    | .ok r => ({ st with env := { st.env with ratio := r } }, .done)
  | .render =>
    -- `_renderer`: `_size = self._size`; if dynamic: `self.set_size(_size)`; run; finally `self.size = _size`
    match st.size with
    | .fixed w h => (st, .rendered w h)
    | .dynamic s =>
      match setSize fam st.env ori (.sz s) .none defaultFrame with
      | .error e => ({ st with size := .dynamic s }, .err e)
      | .ok (.fixed w h) => ({ st with size := .dynamic s }, .rendered w h)
      | .ok (.dynamic _) => ({ st with size := .dynamic s }, .done)   -- unreachable: set_size stores a pair
  | .renderWith check scroll fail =>
    -- the whole of `_renderer`: a dynamic size is prepared with `set_size(_size)` and needs no
    -- validation; a fixed size is validated when `check_size` (the height only when not `scroll`);
    -- then `_get_image()`, then the renderer; `finally: self.size = _size` for a dynamic size
    match st.size with
    | .fixed w h =>
      if check && (decide (st.env.cols < w) || (!scroll && decide (st.env.lines < h))) then (st, .err .invalidSizeError)
      else (st, rfailObs fail w h)
    | .dynamic s =>
      match setSize fam st.env ori (.sz s) .none defaultFrame with
      | .error e => ({ st with size := .dynamic s }, .err e)
      | .ok (.fixed w h) => ({ st with size := .dynamic s }, rfailObs fail w h)
      | .ok (.dynamic _) => ({ st with size := .dynamic s }, .done)

def run (fam : Family) (ori : Nat × Nat) : State → List Op → State
  | st, [] => st
  | st, op :: ops => run fam ori (step fam ori st op).1 ops

/-- the observations of a history, each with the `size` and `rendered_size` read afterwards -/
def trace (fam : Family) (ori : Nat × Nat) : State → List Op → List (Obs × Stored × Except Err (Nat × Nat))
  | _, [] => []
  | st, op :: ops =>
    let r := step fam ori st op
    (r.2, r.1.size, renderedSize fam r.1.env ori r.1.size) :: trace fam ori r.1 ops

end TIV.C04
