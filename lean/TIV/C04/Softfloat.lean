/-!
# Softfloat — the part of IEEE-754 binary64 that `_valid_size` uses, exactly, over `Nat`/`Int`

Only non-negative finite values occur in the sizing code (sizes, ratios and their products and
quotients), so a value is `m * 2^e` with `m : Nat`.  Every arithmetic operation computes the
exact rational result `n / d` and rounds it once with `fl` (round-to-nearest, ties-to-even, 53
significant bits) — which is what IEEE-754 prescribes for `*`, `/`, and what CPython does for
`int / int` (correctly rounded true division) and `float(int)`.

The exponent is unbounded: overflow and gradual underflow are not modelled.  `toBits` refuses
(returns `none`) a value outside the normal range, so the differential check against CPython
never silently compares such a value.  Import-free.
-/
namespace TIV.C04.SF

/-- `round(n / d)` to the nearest natural number, ties to even (`d > 0`). -/
def rne (n d : Nat) : Nat :=
  let q := n / d
  let r := n % d
  if 2 * r < d then q else if d < 2 * r then q + 1 else if q % 2 = 0 then q else q + 1

/-- non-negative finite float, value `m * 2^e`; results of `fl` have `m = 0 ∧ e = 0` or
    `2^52 ≤ m < 2^53` (unique representation, so `=` on results of `fl` is `==` on values). -/
structure F64 where
  m : Nat
  e : Int
deriving DecidableEq, Repr

namespace F64
/-- numerator of the exact value -/
def num (x : F64) : Nat := if 0 ≤ x.e then x.m * 2 ^ x.e.toNat else x.m
/-- denominator of the exact value -/
def den (x : F64) : Nat := if 0 ≤ x.e then 1 else 2 ^ (-x.e).toNat
def zero : F64 := ⟨0, 0⟩
def isZero (x : F64) : Bool := x.m == 0
end F64

/-- `⌊log2 (n / d)⌋` for `n, d > 0` -/
def expo (n d : Nat) : Int :=
  let e0 : Int := (Nat.log2 n : Int) - (Nat.log2 d : Int)
  if 0 ≤ e0 then (if d * 2 ^ e0.toNat ≤ n then e0 else e0 - 1)
  else (if d ≤ n * 2 ^ (-e0).toNat then e0 else e0 - 1)

/-- the binary64 nearest to `n / d` (ties to even) -/
def fl (n d : Nat) : F64 :=
  if n = 0 ∨ d = 0 then F64.zero else
  let sh : Int := 52 - expo n d      -- (n/d) * 2^sh ∈ [2^52, 2^53)
  let m := if 0 ≤ sh then rne (n * 2 ^ sh.toNat) d else rne n (d * 2 ^ (-sh).toNat)
  if m = 2 ^ 53 then ⟨2 ^ 52, 1 - sh⟩ else ⟨m, -sh⟩

/-- `float(n)` -/
def ofNat (n : Nat) : F64 := fl n 1
/-- `a / b` on Python ints (correctly rounded); `b = 0` is the caller's business -/
def divNat (a b : Nat) : F64 := fl a b
def mul (x y : F64) : F64 := fl (x.num * y.num) (x.den * y.den)
/-- `x / y`; a zero divisor (ZeroDivisionError in Python) gives zero here — callers guard it -/
def div (x y : F64) : F64 := fl (x.num * y.den) (x.den * y.num)
def one : F64 := ofNat 1

/-- exact comparisons (Python compares int with float exactly, never by conversion) -/
def lt (x y : F64) : Bool := x.num * y.den < y.num * x.den
def ltNatF (n : Nat) (x : F64) : Bool := n * x.den < x.num
def ltFNat (x : F64) (n : Nat) : Bool := x.num < n * x.den

/-- Python 3 `round(x)` (exact, half to even) -/
def round (x : F64) : Nat := rne x.num x.den
/-- `math.ceil(x)` -/
def ceil (x : F64) : Nat := (x.num + x.den - 1) / x.den

/-! ### binary64 images (for the differential check against CPython) -/

/-- the 64-bit image; `none` outside the normal range (and for the sign bit) -/
def toBits (x : F64) : Option Nat :=
  if x.m = 0 then some 0
  else if x.m < 2 ^ 52 ∨ 2 ^ 53 ≤ x.m then none
  else
    let be : Int := x.e + 1075
    if be < 1 ∨ 2046 < be then none else some (be.toNat * 2 ^ 52 + (x.m - 2 ^ 52))

/-- from the 64-bit image; `none` for negative values, infinities and NaNs.
    A subnormal image is accepted and carried with its exact value. -/
def ofBits (b : Nat) : Option F64 :=
  if 2 ^ 63 ≤ b then none
  else
    let be : Nat := b / 2 ^ 52
    let f : Nat := b % 2 ^ 52
    if be = 2047 then none
    else if be = 0 then some (fl f (2 ^ 1074))
    else some ⟨2 ^ 52 + f, (be : Int) - 1075⟩

end TIV.C04.SF
