import TIV.C04.FloatLaws
/-!
# C04 — `softfloat_laws : FlLaws`: the four laws hold for the concrete rounding function `SF.fl`
-/
namespace TIV.C04
open SF

/-! ### `rne` as a function of the rational `n / d` -/

/-- if `n / d` is the natural number `M`, rounding returns it -/
theorem rne_int (n d M : ℕ) (hd : 0 < d) (h : (n : ℚ) / d = M) : rne n d = M := by
  have h1 := abs_le.mp (rne_half n d hd)
  rw [h] at h1
  have a : ((rne n d : ℕ) : ℚ) < (M : ℚ) + 1 := by linarith [h1.2]
  have b : (M : ℚ) < ((rne n d : ℕ) : ℚ) + 1 := by linarith [h1.1]
  have a' : rne n d < M + 1 := by exact_mod_cast a
  have b' : M < rne n d + 1 := by exact_mod_cast b
  omega

/-- on an exact tie the result is even -/
theorem rne_tie (n d k : ℕ) (hd : 0 < d) (h : (n : ℚ) / d = k + 1 / 2) : rne n d % 2 = 0 := by
  have hdq : (0 : ℚ) < d := by exact_mod_cast hd
  rw [div_eq_iff (ne_of_gt hdq)] at h
  have h2 : (2 : ℚ) * n = (2 * k + 1) * d := by rw [h]; ring
  have h3 : 2 * n = (2 * k + 1) * d := by exact_mod_cast h2
  -- d = 2 r with r = n - k d
  have hk : k * d ≤ n := by nlinarith
  obtain ⟨r, hr⟩ : ∃ r, n = k * d + r := ⟨n - k * d, by omega⟩
  have hd2 : d = 2 * r := by
    have : 2 * (k * d + r) = (2 * k + 1) * d := by rw [← hr]; exact h3
    nlinarith
  have hrd : r < d := by omega
  have hdm := (Nat.div_mod_unique (a := n) (d := k) (c := r) hd).mpr ⟨by rw [hr]; ring, hrd⟩
  unfold rne
  simp only [hdm.1, hdm.2]
  have n1 : ¬ 2 * r < d := by omega
  have n2 : ¬ d < 2 * r := by omega
  simp only [n1, n2, if_false]
  split <;> omega

theorem rne_mono (n₁ d₁ n₂ d₂ : ℕ) (h1 : 0 < d₁) (h2 : 0 < d₂) (h : (n₁ : ℚ) / d₁ ≤ (n₂ : ℚ) / d₂) :
    rne n₁ d₁ ≤ rne n₂ d₂ := by
  by_contra hc
  have hc' : rne n₂ d₂ + 1 ≤ rne n₁ d₁ := by omega
  have hcq : ((rne n₂ d₂ : ℕ) : ℚ) + 1 ≤ ((rne n₁ d₁ : ℕ) : ℚ) := by exact_mod_cast hc'
  have a := abs_le.mp (rne_half n₁ d₁ h1)
  have b := abs_le.mp (rne_half n₂ d₂ h2)
  -- all inequalities are equalities
  have e1 : (n₁ : ℚ) / d₁ = (rne n₂ d₂ : ℕ) + 1 / 2 := by linarith [a.2, b.1]
  have e2 : (n₂ : ℚ) / d₂ = (rne n₂ d₂ : ℕ) + 1 / 2 := by linarith [a.2, b.1]
  have e3 : ((rne n₁ d₁ : ℕ) : ℚ) = (rne n₂ d₂ : ℕ) + 1 := by linarith [a.2, b.1]
  have e3' : rne n₁ d₁ = rne n₂ d₂ + 1 := by exact_mod_cast e3
  have t1 := rne_tie n₁ d₁ _ h1 e1
  have t2 := rne_tie n₂ d₂ _ h2 e2
  omega

/-! ### values as `m * 2^e` -/

theorem val_mk (m : ℕ) (e : ℤ) : (⟨m, e⟩ : F64).val = (m : ℚ) * (2 : ℚ) ^ e := by
  unfold F64.val F64.num F64.den
  by_cases h : 0 ≤ e
  · obtain ⟨k, rfl⟩ := Int.eq_ofNat_of_zero_le h
    simp [zpow_natCast]
  · obtain ⟨k, rfl⟩ := Int.exists_eq_neg_ofNat (le_of_not_ge h)
    simp only [h, if_false]
    simp [zpow_neg, zpow_natCast, div_eq_mul_inv]

theorem two_zpow_pos (e : ℤ) : (0 : ℚ) < (2 : ℚ) ^ e := zpow_pos (by norm_num) e

/-! ### the scaled rounding inside `fl` -/

/-- the significand computation of `fl`: `round((n / d) * 2^sh)` -/
def rneS (n d : ℕ) (sh : ℤ) : ℕ :=
  if 0 ≤ sh then rne (n * 2 ^ sh.toNat) d else rne n (d * 2 ^ (-sh).toNat)

theorem rneS_eq (n d : ℕ) (sh : ℤ) (hd : 0 < d) :
    ∃ N D : ℕ, 0 < D ∧ rneS n d sh = rne N D ∧ (N : ℚ) / D = (n : ℚ) / d * (2 : ℚ) ^ sh := by
  have hdq : (d : ℚ) ≠ 0 := by exact_mod_cast (ne_of_gt hd)
  unfold rneS
  by_cases h : 0 ≤ sh
  · obtain ⟨k, rfl⟩ := Int.eq_ofNat_of_zero_le h
    refine ⟨n * 2 ^ k, d, hd, by simp, ?_⟩
    push_cast; rw [zpow_natCast]; field_simp
  · obtain ⟨k, rfl⟩ := Int.exists_eq_neg_ofNat (le_of_not_ge h)
    refine ⟨n, d * 2 ^ k, by positivity, by rw [if_neg h]; simp, ?_⟩
    push_cast; rw [zpow_neg, zpow_natCast]; field_simp

theorem rneS_half (n d : ℕ) (sh : ℤ) (hd : 0 < d) :
    |((rneS n d sh : ℕ) : ℚ) - (n : ℚ) / d * (2 : ℚ) ^ sh| ≤ 1 / 2 := by
  obtain ⟨N, D, hD, e1, e2⟩ := rneS_eq n d sh hd
  rw [e1, ← e2]; exact rne_half N D hD

theorem rneS_mono (n₁ d₁ n₂ d₂ : ℕ) (sh : ℤ) (h1 : 0 < d₁) (h2 : 0 < d₂)
    (h : (n₁ : ℚ) / d₁ ≤ (n₂ : ℚ) / d₂) : rneS n₁ d₁ sh ≤ rneS n₂ d₂ sh := by
  obtain ⟨N1, D1, hD1, a1, a2⟩ := rneS_eq n₁ d₁ sh h1
  obtain ⟨N2, D2, hD2, b1, b2⟩ := rneS_eq n₂ d₂ sh h2
  rw [a1, b1]
  apply rne_mono _ _ _ _ hD1 hD2
  rw [a2, b2]
  exact mul_le_mul_of_nonneg_right h (le_of_lt (two_zpow_pos sh))

theorem rneS_int (n d M : ℕ) (sh : ℤ) (hd : 0 < d) (h : (n : ℚ) / d * (2 : ℚ) ^ sh = M) :
    rneS n d sh = M := by
  obtain ⟨N, D, hD, e1, e2⟩ := rneS_eq n d sh hd
  rw [e1]; exact rne_int N D M hD (by rw [e2, h])

theorem fl_zero_left (d : ℕ) : (fl 0 d).val = 0 := by
  unfold fl; simp [F64.zero, F64.val, F64.num]

/-- the value `fl` returns, for positive arguments -/
theorem fl_val (n d : ℕ) (hn : 0 < n) (hd : 0 < d) :
    (fl n d).val = ((rneS n d (52 - expo n d) : ℕ) : ℚ) * (2 : ℚ) ^ (-(52 - expo n d)) := by
  have h0 : ¬ (n = 0 ∨ d = 0) := by omega
  unfold fl
  rw [if_neg h0]
  show (if rneS n d (52 - expo n d) = 2 ^ 53 then (⟨2 ^ 52, 1 - (52 - expo n d)⟩ : F64)
        else ⟨rneS n d (52 - expo n d), -(52 - expo n d)⟩).val = _
  split
  · rename_i h
    rw [val_mk, h]
    have : (1 : ℤ) - (52 - expo n d) = 1 + -(52 - expo n d) := by ring
    rw [this, zpow_add₀ (by norm_num : (2 : ℚ) ≠ 0)]
    push_cast; ring
  · rw [val_mk]

/-! ### the exponent -/

theorem cast_two_pow_toNat (s : ℤ) (h : 0 ≤ s) : ((2 ^ s.toNat : ℕ) : ℚ) = (2 : ℚ) ^ s := by
  obtain ⟨k, rfl⟩ := Int.eq_ofNat_of_zero_le h
  simp [zpow_natCast]

theorem two_ne : (2 : ℚ) ≠ 0 := by norm_num

/-- `2^e ≤ n / d < 2^(e+1)` for `e = expo n d` -/
theorem expo_spec (n d : ℕ) (hn : 0 < n) (hd : 0 < d) :
    (2 : ℚ) ^ (expo n d) ≤ (n : ℚ) / d ∧ (n : ℚ) / d < (2 : ℚ) ^ (expo n d + 1) := by
  have hdq : (0 : ℚ) < d := by exact_mod_cast hd
  have hnq : (0 : ℚ) < n := by exact_mod_cast hn
  have ha1 : (2 : ℚ) ^ ((n.log2 : ℕ) : ℤ) ≤ n := by
    have : ((2 ^ n.log2 : ℕ) : ℚ) ≤ n := by exact_mod_cast Nat.log2_self_le (ne_of_gt hn)
    rw [zpow_natCast]; push_cast at this; exact this
  have ha2 : (n : ℚ) < (2 : ℚ) ^ (((n.log2 : ℕ) : ℤ) + 1) := by
    have : (n : ℚ) < ((2 ^ (n.log2 + 1) : ℕ) : ℚ) := by exact_mod_cast (Nat.lt_log2_self (n := n))
    have e : ((n.log2 : ℕ) : ℤ) + 1 = ((n.log2 + 1 : ℕ) : ℤ) := by push_cast; ring
    rw [e, zpow_natCast]; push_cast at this; exact this
  have hb1 : (2 : ℚ) ^ ((d.log2 : ℕ) : ℤ) ≤ d := by
    have : ((2 ^ d.log2 : ℕ) : ℚ) ≤ d := by exact_mod_cast Nat.log2_self_le (ne_of_gt hd)
    rw [zpow_natCast]; push_cast at this; exact this
  have hb2 : (d : ℚ) < (2 : ℚ) ^ (((d.log2 : ℕ) : ℤ) + 1) := by
    have : (d : ℚ) < ((2 ^ (d.log2 + 1) : ℕ) : ℚ) := by exact_mod_cast (Nat.lt_log2_self (n := d))
    have e : ((d.log2 : ℕ) : ℤ) + 1 = ((d.log2 + 1 : ℕ) : ℤ) := by push_cast; ring
    rw [e, zpow_natCast]; push_cast at this; exact this
  set a : ℤ := ((n.log2 : ℕ) : ℤ) with ha
  set b : ℤ := ((d.log2 : ℕ) : ℤ) with hb
  -- 2^(a-b-1) < n/d < 2^(a-b+1)
  have lower0 : (2 : ℚ) ^ (a - b - 1) < (n : ℚ) / d := by
    rw [lt_div_iff₀ hdq]
    have e : (2 : ℚ) ^ (a - b - 1) * (2 : ℚ) ^ (b + 1) = (2 : ℚ) ^ a := by
      rw [← zpow_add₀ two_ne]; congr 1; ring
    have : (2 : ℚ) ^ (a - b - 1) * d < (2 : ℚ) ^ (a - b - 1) * (2 : ℚ) ^ (b + 1) :=
      mul_lt_mul_of_pos_left hb2 (two_zpow_pos _)
    linarith
  have upper0 : (n : ℚ) / d < (2 : ℚ) ^ (a - b + 1) := by
    rw [div_lt_iff₀ hdq]
    have e : (2 : ℚ) ^ (a - b + 1) * (2 : ℚ) ^ b = (2 : ℚ) ^ (a + 1) := by
      rw [← zpow_add₀ two_ne]; congr 1; ring
    have : (2 : ℚ) ^ (a - b + 1) * (2 : ℚ) ^ b ≤ (2 : ℚ) ^ (a - b + 1) * d :=
      mul_le_mul_of_nonneg_left hb1 (le_of_lt (two_zpow_pos _))
    linarith
  unfold expo
  simp only [← ha, ← hb]
  split
  · rename_i h0
    have hc := cast_two_pow_toNat (a - b) h0
    split
    · rename_i ht
      have : ((d * 2 ^ (a - b).toNat : ℕ) : ℚ) ≤ n := by exact_mod_cast ht
      push_cast at this; rw [show ((2 : ℚ) ^ (a - b).toNat) = (2 : ℚ) ^ (a - b) from by exact_mod_cast hc] at this
      refine ⟨?_, upper0⟩
      rw [le_div_iff₀ hdq]; linarith
    · rename_i ht
      have : (n : ℚ) < ((d * 2 ^ (a - b).toNat : ℕ) : ℚ) := by exact_mod_cast (Nat.lt_of_not_le ht)
      push_cast at this; rw [show ((2 : ℚ) ^ (a - b).toNat) = (2 : ℚ) ^ (a - b) from by exact_mod_cast hc] at this
      refine ⟨le_of_lt lower0, ?_⟩
      rw [show a - b - 1 + 1 = a - b by ring, div_lt_iff₀ hdq]; linarith
  · rename_i h0
    have h0' : 0 ≤ -(a - b) := by omega
    have hc := cast_two_pow_toNat (-(a - b)) h0'
    have hinv : (2 : ℚ) ^ (a - b) * (2 : ℚ) ^ (-(a - b)) = 1 := by
      rw [← zpow_add₀ two_ne]; simp
    split
    · rename_i ht
      have : (d : ℚ) ≤ ((n * 2 ^ (-(a - b)).toNat : ℕ) : ℚ) := by exact_mod_cast ht
      push_cast at this
      rw [show ((2 : ℚ) ^ (-(a - b)).toNat) = (2 : ℚ) ^ (-(a - b)) from by exact_mod_cast hc] at this
      refine ⟨?_, upper0⟩
      rw [le_div_iff₀ hdq]
      have h2 := mul_le_mul_of_nonneg_left this (le_of_lt (two_zpow_pos (a - b)))
      have : (2 : ℚ) ^ (a - b) * (n * (2 : ℚ) ^ (-(a - b))) = n := by
        rw [mul_comm (n : ℚ), ← mul_assoc, hinv, one_mul]
      linarith
    · rename_i ht
      have : ((n * 2 ^ (-(a - b)).toNat : ℕ) : ℚ) < d := by exact_mod_cast (Nat.lt_of_not_le ht)
      push_cast at this
      rw [show ((2 : ℚ) ^ (-(a - b)).toNat) = (2 : ℚ) ^ (-(a - b)) from by exact_mod_cast hc] at this
      refine ⟨le_of_lt lower0, ?_⟩
      rw [show a - b - 1 + 1 = a - b by ring, div_lt_iff₀ hdq]
      have h2 := mul_lt_mul_of_pos_left this (two_zpow_pos (a - b))
      have : (2 : ℚ) ^ (a - b) * (n * (2 : ℚ) ^ (-(a - b))) = n := by
        rw [mul_comm (n : ℚ), ← mul_assoc, hinv, one_mul]
      linarith

/-- the scaled quotient lies in `[2^52, 2^53)` -/
theorem scaled_range (n d : ℕ) (hn : 0 < n) (hd : 0 < d) :
    (2 : ℚ) ^ (52 : ℤ) ≤ (n : ℚ) / d * (2 : ℚ) ^ (52 - expo n d) ∧
    (n : ℚ) / d * (2 : ℚ) ^ (52 - expo n d) < (2 : ℚ) ^ (53 : ℤ) := by
  obtain ⟨h1, h2⟩ := expo_spec n d hn hd
  have p := two_zpow_pos (52 - expo n d)
  constructor
  · have : (2 : ℚ) ^ (52 : ℤ) = (2 : ℚ) ^ (expo n d) * (2 : ℚ) ^ (52 - expo n d) := by
      rw [← zpow_add₀ two_ne]; congr 1; ring
    rw [this]; exact mul_le_mul_of_nonneg_right h1 (le_of_lt p)
  · have : (2 : ℚ) ^ (53 : ℤ) = (2 : ℚ) ^ (expo n d + 1) * (2 : ℚ) ^ (52 - expo n d) := by
      rw [← zpow_add₀ two_ne]; congr 1; ring
    rw [this]; exact mul_lt_mul_of_pos_right h2 p

theorem zpow_cancel (s : ℤ) : (2 : ℚ) ^ s * (2 : ℚ) ^ (-s) = 1 := by
  rw [← zpow_add₀ two_ne]; simp

/-! ## the four laws -/

/-- relative error at most `2^-53` -/
theorem fl_rel_err (n d : ℕ) (hd : 0 < d) : |(fl n d).val - (n : ℚ) / d| ≤ (n : ℚ) / d / 2 ^ 53 := by
  rcases Nat.eq_zero_or_pos n with rfl | hn
  · rw [fl_zero_left]; simp
  rw [fl_val n d hn hd]
  set sh : ℤ := 52 - expo n d with hsh
  set q : ℚ := (n : ℚ) / d with hq
  have hR := abs_le.mp (rneS_half n d sh hd)
  obtain ⟨r1, _⟩ := scaled_range n d hn hd
  rw [← hsh, ← hq] at r1
  have p := two_zpow_pos (-sh)
  have c := zpow_cancel sh
  have hqe : q = q * (2 : ℚ) ^ sh * (2 : ℚ) ^ (-sh) := by rw [mul_assoc, c, mul_one]
  set R : ℚ := ((rneS n d sh : ℕ) : ℚ) with hRd
  set S : ℚ := q * (2 : ℚ) ^ sh with hS
  have e52 : (2 : ℚ) ^ (52 : ℤ) = 2 ^ 52 := by norm_num
  rw [e52] at r1
  -- |R - S| ≤ 1/2 ≤ S / 2^53
  have hb : (1 : ℚ) / 2 ≤ S / 2 ^ 53 := by
    rw [le_div_iff₀ (by positivity)]; linarith
  have goal_eq : R * (2 : ℚ) ^ (-sh) - q = (R - S) * (2 : ℚ) ^ (-sh) := by
    rw [sub_mul, ← hqe]
  have q_eq : q / 2 ^ 53 = S / 2 ^ 53 * (2 : ℚ) ^ (-sh) := by
    rw [div_mul_eq_mul_div, ← hqe]
  rw [goal_eq, q_eq, abs_le]
  constructor
  · have : -(S / 2 ^ 53) ≤ R - S := by linarith [hR.1]
    have := mul_le_mul_of_nonneg_right this (le_of_lt p)
    linarith
  · have : R - S ≤ S / 2 ^ 53 := by linarith [hR.2]
    exact mul_le_mul_of_nonneg_right this (le_of_lt p)

/-- exact on the integers below `2^53` -/
theorem fl_exact_int (k : ℕ) (hk : k < 2 ^ 53) : (fl k 1).val = k := by
  rcases Nat.eq_zero_or_pos k with rfl | hn
  · rw [fl_zero_left]; simp
  rw [fl_val k 1 hn Nat.one_pos]
  obtain ⟨h1, _⟩ := expo_spec k 1 hn Nat.one_pos
  set e := expo k 1 with he
  have hkq : ((k : ℚ) / (1 : ℕ)) = k := by simp
  rw [hkq] at h1
  have hlt : (2 : ℚ) ^ e < (2 : ℚ) ^ (53 : ℤ) := by
    have : (k : ℚ) < ((2 ^ 53 : ℕ) : ℚ) := by exact_mod_cast hk
    have e53 : (2 : ℚ) ^ (53 : ℤ) = ((2 ^ 53 : ℕ) : ℚ) := by norm_num
    rw [e53]; linarith
  have he53 : e < 53 := (zpow_lt_zpow_iff_right₀ (by norm_num : (1 : ℚ) < 2)).mp hlt
  have hsh : 0 ≤ 52 - e := by omega
  have hM : (k : ℚ) / (1 : ℕ) * (2 : ℚ) ^ (52 - e) = ((k * 2 ^ (52 - e).toNat : ℕ) : ℚ) := by
    rw [hkq]; push_cast; rw [show ((2 : ℚ) ^ (52 - e).toNat) = (2 : ℚ) ^ (52 - e) from by
      exact_mod_cast cast_two_pow_toNat (52 - e) hsh]
  rw [rneS_int k 1 _ (52 - e) Nat.one_pos hM]
  push_cast
  rw [show ((2 : ℚ) ^ (52 - e).toNat) = (2 : ℚ) ^ (52 - e) from by
      exact_mod_cast cast_two_pow_toNat (52 - e) hsh, mul_assoc, zpow_cancel, mul_one]

/-- exact on the half-integers below `2^52` -/
theorem fl_exact_half (k : ℕ) (hk : k < 2 ^ 53) : (fl k 2).val = (k : ℚ) / 2 := by
  rcases Nat.eq_zero_or_pos k with rfl | hn
  · rw [fl_zero_left]; simp
  rw [fl_val k 2 hn (by norm_num)]
  obtain ⟨h1, _⟩ := expo_spec k 2 hn (by norm_num)
  set e := expo k 2 with he
  have hkq : ((k : ℚ) / (2 : ℕ)) = (k : ℚ) / 2 := by simp
  rw [hkq] at h1
  have hlt : (2 : ℚ) ^ e < (2 : ℚ) ^ (52 : ℤ) := by
    have : (k : ℚ) < ((2 ^ 53 : ℕ) : ℚ) := by exact_mod_cast hk
    push_cast at this
    have e52 : (2 : ℚ) ^ (52 : ℤ) = 2 ^ 52 := by norm_num
    rw [e52]
    have : (k : ℚ) / 2 < 2 ^ 52 := by rw [div_lt_iff₀ (by norm_num)]; norm_num at this ⊢; linarith
    linarith
  have he52 : e < 52 := (zpow_lt_zpow_iff_right₀ (by norm_num : (1 : ℚ) < 2)).mp hlt
  have hsh : 0 ≤ 52 - e - 1 := by omega
  have hpow : (2 : ℚ) ^ (52 - e) = 2 * (2 : ℚ) ^ (52 - e - 1) := by
    have : (52 : ℤ) - e = 1 + (52 - e - 1) := by ring
    rw [this, zpow_add₀ two_ne]; simp
  have hc := cast_two_pow_toNat (52 - e - 1) hsh
  have hM : (k : ℚ) / (2 : ℕ) * (2 : ℚ) ^ (52 - e) = ((k * 2 ^ (52 - e - 1).toNat : ℕ) : ℚ) := by
    rw [hkq, hpow]; push_cast
    rw [show ((2 : ℚ) ^ (52 - e - 1).toNat) = (2 : ℚ) ^ (52 - e - 1) from by exact_mod_cast hc]
    ring
  rw [rneS_int k 2 _ (52 - e) (by norm_num) hM]
  push_cast
  rw [show ((2 : ℚ) ^ (52 - e - 1).toNat) = (2 : ℚ) ^ (52 - e - 1) from by exact_mod_cast hc]
  have c := zpow_cancel (52 - e)
  rw [hpow] at c
  have : (k : ℚ) * (2 : ℚ) ^ (52 - e - 1) * (2 : ℚ) ^ (-(52 - e)) =
      (k : ℚ) / 2 * (2 * (2 : ℚ) ^ (52 - e - 1) * (2 : ℚ) ^ (-(52 - e))) := by ring
  rw [this, c, mul_one]

theorem val_nonneg (x : F64) : 0 ≤ x.val := by unfold F64.val; positivity

/-- rounding is monotone -/
theorem fl_mono (n₁ d₁ n₂ d₂ : ℕ) (h1 : 0 < d₁) (h2 : 0 < d₂) (h : (n₁ : ℚ) / d₁ ≤ (n₂ : ℚ) / d₂) :
    (fl n₁ d₁).val ≤ (fl n₂ d₂).val := by
  rcases Nat.eq_zero_or_pos n₁ with rfl | hn1
  · rw [fl_zero_left]; exact val_nonneg _
  have hd1q : (0 : ℚ) < d₁ := by exact_mod_cast h1
  have hd2q : (0 : ℚ) < d₂ := by exact_mod_cast h2
  have hn2 : 0 < n₂ := by
    rcases Nat.eq_zero_or_pos n₂ with rfl | hp
    · have : (0 : ℚ) < (n₁ : ℚ) / d₁ := div_pos (by exact_mod_cast hn1) hd1q
      simp at h; linarith
    · exact hp
  obtain ⟨a1, a2⟩ := expo_spec n₁ d₁ hn1 h1
  obtain ⟨b1, b2⟩ := expo_spec n₂ d₂ hn2 h2
  have hlt : (2 : ℚ) ^ (expo n₁ d₁) < (2 : ℚ) ^ (expo n₂ d₂ + 1) := by linarith
  have hle : expo n₁ d₁ < expo n₂ d₂ + 1 := (zpow_lt_zpow_iff_right₀ (by norm_num : (1 : ℚ) < 2)).mp hlt
  rw [fl_val n₁ d₁ hn1 h1, fl_val n₂ d₂ hn2 h2]
  rcases (show expo n₁ d₁ = expo n₂ d₂ ∨ expo n₁ d₁ + 1 ≤ expo n₂ d₂ by omega) with he | he
  · rw [he]
    have := rneS_mono n₁ d₁ n₂ d₂ (52 - expo n₂ d₂) h1 h2 h
    have hq : ((rneS n₁ d₁ (52 - expo n₂ d₂) : ℕ) : ℚ) ≤ ((rneS n₂ d₂ (52 - expo n₂ d₂) : ℕ) : ℚ) := by
      exact_mod_cast this
    exact mul_le_mul_of_nonneg_right hq (le_of_lt (two_zpow_pos _))
  · set e1 := expo n₁ d₁ with he1
    set e2 := expo n₂ d₂ with he2
    obtain ⟨_, r1⟩ := scaled_range n₁ d₁ hn1 h1
    obtain ⟨r2, _⟩ := scaled_range n₂ d₂ hn2 h2
    rw [← he1] at r1; rw [← he2] at r2
    have hR1 := abs_le.mp (rneS_half n₁ d₁ (52 - e1) h1)
    have hR2 := abs_le.mp (rneS_half n₂ d₂ (52 - e2) h2)
    have e53 : (2 : ℚ) ^ (53 : ℤ) = ((2 ^ 53 : ℕ) : ℚ) := by norm_num
    have e52 : (2 : ℚ) ^ (52 : ℤ) = ((2 ^ 52 : ℕ) : ℚ) := by norm_num
    have R1le : rneS n₁ d₁ (52 - e1) ≤ 2 ^ 53 := by
      have : ((rneS n₁ d₁ (52 - e1) : ℕ) : ℚ) < ((2 ^ 53 + 1 : ℕ) : ℚ) := by
        push_cast; rw [e53] at r1; push_cast at r1; linarith [hR1.2]
      have : rneS n₁ d₁ (52 - e1) < 2 ^ 53 + 1 := by exact_mod_cast this
      omega
    have R2ge : 2 ^ 52 ≤ rneS n₂ d₂ (52 - e2) := by
      have : ((2 ^ 52 : ℕ) : ℚ) < ((rneS n₂ d₂ (52 - e2) + 1 : ℕ) : ℚ) := by
        push_cast; rw [e52] at r2; push_cast at r2; linarith [hR2.1]
      have : 2 ^ 52 < rneS n₂ d₂ (52 - e2) + 1 := by exact_mod_cast this
      omega
    have R1q : ((rneS n₁ d₁ (52 - e1) : ℕ) : ℚ) ≤ (2 : ℚ) ^ (53 : ℤ) := by rw [e53]; exact_mod_cast R1le
    have R2q : (2 : ℚ) ^ (52 : ℤ) ≤ ((rneS n₂ d₂ (52 - e2) : ℕ) : ℚ) := by rw [e52]; exact_mod_cast R2ge
    calc ((rneS n₁ d₁ (52 - e1) : ℕ) : ℚ) * (2 : ℚ) ^ (-(52 - e1))
        ≤ (2 : ℚ) ^ (53 : ℤ) * (2 : ℚ) ^ (-(52 - e1)) :=
          mul_le_mul_of_nonneg_right R1q (le_of_lt (two_zpow_pos _))
      _ = (2 : ℚ) ^ (e1 + 1) := by rw [← zpow_add₀ two_ne]; congr 1; ring
      _ ≤ (2 : ℚ) ^ e2 := zpow_le_zpow_right₀ (by norm_num) he
      _ = (2 : ℚ) ^ (52 : ℤ) * (2 : ℚ) ^ (-(52 - e2)) := by rw [← zpow_add₀ two_ne]; congr 1; ring
      _ ≤ ((rneS n₂ d₂ (52 - e2) : ℕ) : ℚ) * (2 : ℚ) ^ (-(52 - e2)) :=
          mul_le_mul_of_nonneg_right R2q (le_of_lt (two_zpow_pos _))

/-- **the open obligation, discharged**: the concrete softfloat satisfies the four laws -/
theorem softfloat_laws : FlLaws :=
  ⟨fl_mono, fl_rel_err, fl_exact_int, fl_exact_half⟩

end TIV.C04
