import TIV.C04.Fit
import TIV.C04.SoftfloatLaws
import TIV.C04.Generated
/-! # C04 — property theorems -/
namespace TIV.C04
open SF

/-! ## the translator's constants are the ones the model was written for -/

theorem generated_consts :
    Generated.sizeNames = ["AUTO", "FIT", "FIT_TO_WIDTH", "ORIGINAL"] ∧
    Generated.setSizeDefaultFrame = defaultFrame ∧ Generated.validSizeDefaultFrame = defaultFrame ∧
    Generated.graphicsPixelRatioIsFloat = true ∧
    toBits (pixelRatio .graphics ⟨0, 0, none, none⟩) = some Generated.graphicsPixelRatioBits ∧
    Generated.textPixelsPerCell = (pixelsOfCols .text ⟨0, 0, none, none⟩ 1, pixelsOfLines .text ⟨0, 0, none, none⟩ 1) ∧
    Generated.fallbackCellSize = cellOr ⟨0, 0, none, none⟩ := by decide

/-! ## sizes that need no float reasoning -/

/-- `frame_rel`: a positive frame dimension is absolute, a non-positive one resolves to
    `max (terminal + d) 1`; the result is always at least 1 -/
theorem frame_rel (d : Int) (t : Nat) :
    (0 < d → (resolve d t : Int) = d) ∧ (d ≤ 0 → (resolve d t : Int) = max ((t : Int) + d) 1) ∧ 1 ≤ resolve d t := by
  unfold resolve
  refine ⟨fun h => by simp [h] <;> omega, fun h => ?_, ?_⟩
  · have : ¬ 0 < d := by omega
    simp [this] <;> omega
  · split <;> omega

example : resolve 0 80 = 80 ∧ resolve (-2) 30 = 28 ∧ resolve (-40) 30 = 1 ∧ resolve 7 30 = 7 := by decide

/-- `pos`: whatever the mode, family, environment, original size and frame, a size that
    `_valid_size` returns is a pair of positive integers -/
theorem pos (fam : Family) (env : Env) (ori : Nat × Nat) (width height : Arg) (frame : Int × Int)
    (w h : Nat) (hr : validSize fam env ori width height frame = .ok (w, h)) : 1 ≤ w ∧ 1 ≤ h := by
  cases hwi : width.isInt <;> cases hhi : height.isInt
  · rw [validSize_auto hwi hhi] at hr; exact autoBranch_pos hr
  all_goals
    cases width <;> cases height <;> simp [Arg.isInt] at hwi hhi
    all_goals
      simp only [validSize] at hr
      first
        | (split at hr
           · cases hr
           · injection hr with hr; injection hr with h1 h2; subst h1; subst h2; exact ⟨or1_pos _, or1_pos _⟩)
        | (cases hr <;> exact ⟨or1_pos _, or1_pos _⟩)

example : validSize .text ⟨80, 30, none, some (divNat 1 2)⟩ (1000, 300) (.sz .fit) .none (0, -2) = .ok (80, 12) := by
  rfl

/-- `given_kept`: a given width (height) is kept exactly -/
theorem given_kept (fam : Family) (env : Env) (ori : Nat × Nat) (frame : Int × Int) (n w h : Nat) (hn : 1 ≤ n) :
    (validSize fam env ori (.int n) .none frame = .ok (w, h) → w = n) ∧
    (validSize fam env ori .none (.int n) frame = .ok (w, h) → h = n) := by
  constructor <;> intro hr <;> simp only [validSize] at hr <;> split at hr
  · cases hr
  · injection hr with hr; injection hr with h1 h2; rw [← h1]; exact or1_of_pos hn
  · cases hr
  · injection hr with hr; injection hr with h1 h2; rw [← h2]; exact or1_of_pos hn

example : validSize .graphics ⟨80, 30, some (9, 18), none⟩ (1000, 300) (.int 40) .none (0, -2) = .ok (40, 6) := by
  rfl

/-- `ftw_width`: FIT_TO_WIDTH (no AUTO among the arguments, which takes precedence) has exactly
    the frame width -/
theorem ftw_width (fam : Family) (env : Env) (hwf : env.WF) (ori : Nat × Nat) (width height : Arg)
    (frame : Int × Int) (w h : Nat) (hw : width.isInt = false) (hh : height.isInt = false)
    (hauto : has .auto width height = false) (hftw : has .fitToWidth width height = true)
    (hr : validSize fam env ori width height frame = .ok (w, h)) :
    w = resolve frame.1 env.cols := by
  rw [validSize_auto hw hh, autoBranch_of_ftw hauto hftw] at hr
  simp only [fitToWidthSize] at hr
  split at hr
  · cases hr
  · injection hr with hr; injection hr with h1 h2
    rw [← h1, cols_roundtrip fam hwf]; exact or1_of_pos (resolve_pos _ _)

example : validSize .graphics ⟨80, 30, some (9, 18), none⟩ (1000, 300) (.sz .fitToWidth) .none (-3, -2) = .ok (77, 11) := by
  rfl

/-- `auto_iff`: AUTO is ORIGINAL when the source (its height scaled by the pixel ratio) fits
    the frame's pixel area, and FIT otherwise -/
theorem auto_iff (fam : Family) (env : Env) (ori : Nat × Nat) (width height : Arg) (frame : Int × Int)
    (hw : width.isInt = false) (hh : height.isInt = false) (hauto : has .auto width height = true) :
    let fw := pixelsOfCols fam env (resolve frame.1 env.cols)
    let fh := pixelsOfLines fam env (resolve frame.2 env.lines)
    validSize fam env ori width height frame =
      if ori.1 ≤ fw ∧ SF.round (mul (ofNat ori.2) (pixelRatio fam env)) ≤ fh
      then validSize fam env ori (.sz .original) .none frame
      else validSize fam env ori (.sz .fit) .none frame := by
  intro fw fh
  rw [validSize_auto hw hh, validSize_auto rfl rfl, validSize_auto rfl rfl, autoBranch_of_auto hauto,
    autoBranch_of_original rfl rfl rfl, autoBranch_of_fit rfl rfl rfl]
  cases hf : autoIsFit fam env ori fw fh
  · have := autoIsFit_false_iff.mp hf
    rw [if_pos this]; simp
  · have : ¬ (ori.1 ≤ fw ∧ SF.round (mul (ofNat ori.2) (pixelRatio fam env)) ≤ fh) := by
      intro h; rw [autoIsFit_false_iff.mpr h] at hf; cases hf
    rw [if_neg this]; simp

example : validSize .text ⟨80, 30, none, some (divNat 1 2)⟩ (60, 20) (.sz .auto) .none (0, -2) = .ok (60, 10) ∧
    validSize .text ⟨80, 30, none, some (divNat 1 2)⟩ (60, 200) (.sz .auto) .none (0, -2) = .ok (17, 28) := by
  constructor <;> rfl

/-! ## `set_size`, and histories of set_size / resize / set_cell_ratio / render -/

/-- manual sizing: a `(width, height)` pair of positive integers is stored unchanged, whatever
    the environment, original size and frame -/
theorem manual_stored (fam : Family) (env : Env) (ori : Nat × Nat) (frame : Int × Int) (w h : Int)
    (hw : 0 < w) (hh : 0 < h) :
    setSize fam env ori (.int w) (.int h) frame = .ok (.fixed w.toNat h.toNat) ∧
    ((w.toNat : Int) = w ∧ (h.toNat : Int) = h) := by
  refine ⟨?_, by omega, by omega⟩
  simp [setSize, setSize.setSize2, setSize.setSize3, Int.not_le.mpr hw, Int.not_le.mpr hh]

/-- automatic sizing through `set_size` stores exactly what `_valid_size` returns (a fixed pair) -/
theorem setSize_auto (fam : Family) (env : Env) (ori : Nat × Nat) (frame : Int × Int) (s : Size) :
    setSize fam env ori (.sz s) .none frame =
      match validSize fam env ori (.sz s) .none frame with
      | .error e => .error e
      | .ok (w, h) => .ok (.fixed w h) := by
  simp only [setSize, setSize.setSize2, setSize.setSize3, SArg.toArg]
  cases validSize fam env ori (Arg.sz s) Arg.none frame with
  | error e => rfl
  | ok p => rfl

/-- `set_size` never stores a dynamic size, and what it stores is a pair of positive integers -/
theorem pos_setSize (fam : Family) (env : Env) (ori : Nat × Nat) (width height : SArg) (frame : Int × Int)
    (st : Stored) (hr : setSize fam env ori width height frame = .ok st) :
    ∃ w h, st = .fixed w h ∧ 1 ≤ w ∧ 1 ≤ h := by
  have key : ∀ width height, setSize.setSize3 fam env ori frame width height = .ok st →
      (∀ n, width = .int n → 0 < n) → (∀ n, height = .int n → 0 < n) → ∃ w h, st = .fixed w h ∧ 1 ≤ w ∧ 1 ≤ h := by
    intro width height hr hw hh
    unfold setSize.setSize3 at hr
    split at hr
    · rename_i w h
      injection hr with hr
      exact ⟨_, _, hr.symm, by have := hw w rfl; omega, by have := hh h rfl; omega⟩
    · split at hr
      · cases hr
      · rename_i w h hv
        injection hr with hr
        exact ⟨w, h, hr.symm, pos _ _ _ _ _ _ _ _ hv⟩
    · split at hr
      · cases hr
      · rename_i w h hv
        injection hr with hr
        exact ⟨w, h, hr.symm, pos _ _ _ _ _ _ _ _ hv⟩
    · cases hr
  unfold setSize at hr
  have key2 : ∀ width, setSize.setSize2 fam env ori frame width height = .ok st →
      (∀ n, width = .int n → 0 < n) → ∃ w h, st = .fixed w h ∧ 1 ≤ w ∧ 1 ≤ h := by
    intro width hr hw
    unfold setSize.setSize2 at hr
    split at hr
    · split at hr
      · cases hr
      · exact key _ _ hr hw (by intro n hn; injection hn with hn; omega)
    · rename_i hne
      exact key _ _ hr hw (by intro n hn; exact absurd hn (hne n))
  split at hr
  · split at hr
    · cases hr
    · exact key2 _ hr (by intro n hn; injection hn with hn; omega)
  · rename_i hne
    exact key2 _ hr (by intro n hn; exact absurd hn (hne n))

/-- an operation that is not a caller's size-setting operation leaves the stored setting alone
    (`render` re-evaluates a dynamic size and puts the setting back) -/
theorem step_keeps_setting (fam : Family) (ori : Nat × Nat) (st : State) (op : Op) (h : op.isSet = false) :
    (step fam ori st op).1.size = st.size := by
  cases op <;> simp [Op.isSet] at h <;> simp only [step]
  · split <;> rfl
  · cases hs : st.size with
    | fixed w h => simp [hs]
    | dynamic s => simp only []; split <;> simp
  · cases hs : st.size with
    | fixed w h => simp only []; split <;> simp [hs]
    | dynamic s => simp only []; split <;> simp

/-- a render attempt — successful, refused by the size check (`InvalidSizeError`), failing in
    `_get_image()` (source unreadable) or failing in the renderer — leaves the *whole* state as
    it found it: a dynamic size is put back, a fixed one is never touched -/
theorem render_leaves_state (fam : Family) (ori : Nat × Nat) (st : State) (check scroll : Bool) (fail : RFail) :
    (step fam ori st (.renderWith check scroll fail)).1 = st ∧ (step fam ori st .render).1 = st := by
  have key : ∀ s, st.size = .dynamic s → ({ st with size := .dynamic s } : State) = st := by
    intro s hs; cases hq : st with | mk sz e => rw [hq] at hs; simp at hs; simp [hs]
  constructor <;> simp only [step]
  · cases hs : st.size with
    | fixed w h => simp only []; split <;> rfl
    | dynamic s => simp only []; split <;> simp [key s hs]
  · cases hs : st.size with
    | fixed w h => rfl
    | dynamic s => simp only []; split <;> simp [key s hs]

/-- what a render attempt of a dynamic size observes: the size preparation's exception if there
    is one, else — with the size `_valid_size` gives in the *current* environment — the render,
    `FileNotFoundError` (source) or the renderer's exception; no size check applies -/
theorem dynamic_render_obs (fam : Family) (ori : Nat × Nat) (st : State) (s : Size) (hst : st.size = .dynamic s)
    (check scroll : Bool) (fail : RFail) :
    (step fam ori st (.renderWith check scroll fail)).2 =
      match validSize fam st.env ori (.sz s) .none defaultFrame with
      | .error e => .err e
      | .ok (w, h) => rfailObs fail w h := by
  simp only [step, hst, setSize_auto]
  cases hv : validSize fam st.env ori (.sz s) .none defaultFrame with
  | error e => rfl
  | ok p => rfl

/-- a fixed size is validated against the *current* terminal when `check_size`; otherwise the
    attempt runs (or fails) with exactly the fixed size -/
theorem fixed_render_obs (fam : Family) (ori : Nat × Nat) (st : State) (w h : Nat) (hst : st.size = .fixed w h)
    (check scroll : Bool) (fail : RFail) :
    (step fam ori st (.renderWith check scroll fail)).2 =
      if check = true ∧ (st.env.cols < w ∨ (scroll = false ∧ st.env.lines < h)) then .err .invalidSizeError
      else rfailObs fail w h := by
  simp only [step, hst]
  by_cases hc : check = true ∧ (st.env.cols < w ∨ (scroll = false ∧ st.env.lines < h))
  · rw [if_pos hc]
    obtain ⟨h1, h2⟩ := hc
    rcases h2 with h2 | ⟨h2, h3⟩ <;> simp [h1, h2, *]
  · rw [if_neg hc]
    have : (check && (decide (st.env.cols < w) || (!scroll && decide (st.env.lines < h)))) = false := by
      cases check <;> cases scroll <;> simp_all
    simp [this]

theorem run_keeps_setting (fam : Family) (ori : Nat × Nat) (ops : List Op) :
    ∀ st : State, (∀ op ∈ ops, op.isSet = false) → (run fam ori st ops).size = st.size := by
  induction ops with
  | nil => intro st _; rfl
  | cons op ops ih =>
    intro st h
    simp only [run]
    rw [ih _ (fun o ho => h o (List.mem_cons_of_mem _ ho)), step_keeps_setting _ _ _ _ (h op List.mem_cons_self)]

/-- `fixed_stable`: once the size is fixed (automatic via `set_size`, or manual), every later
    read of `size` and `rendered_size` returns it and every render runs with it, regardless of
    terminal resizes, cell-size and cell-ratio changes and renders in between -/
theorem fixed_stable (fam : Family) (ori : Nat × Nat) (st : State) (w h : Nat) (hst : st.size = .fixed w h)
    (ops : List Op) (hops : ∀ op ∈ ops, op.isSet = false) :
    let st' := run fam ori st ops
    st'.size = .fixed w h ∧ renderedSize fam st'.env ori st'.size = .ok (w, h) ∧
    step fam ori st' .render = (st', .rendered w h) := by
  intro st'
  have hs : st'.size = .fixed w h := by rw [← hst]; exact run_keeps_setting fam ori ops st hops
  refine ⟨hs, by rw [hs]; rfl, ?_⟩
  simp only [step, hs]

/-- what a render of a dynamic size lets the renderer see -/
def renderObs : Except Err (Nat × Nat) → Obs
  | .ok (w, h) => .rendered w h
  | .error e => .err e

/-- `dynamic_follows`: a dynamic size stays the same dynamic setting through resizes, cell-size
    and ratio changes and renders; every read of `rendered_size` and every render evaluates
    `_valid_size` in the terminal/ratio *current at that moment* (default frame); and `render`
    leaves the state as it found it -/
theorem dynamic_follows (fam : Family) (ori : Nat × Nat) (st : State) (s : Size) (hst : st.size = .dynamic s)
    (ops : List Op) (hops : ∀ op ∈ ops, op.isSet = false) :
    let st' := run fam ori st ops
    st'.size = .dynamic s ∧
    renderedSize fam st'.env ori st'.size = validSize fam st'.env ori (.sz s) .none defaultFrame ∧
    step fam ori st' .render = (st', renderObs (validSize fam st'.env ori (.sz s) .none defaultFrame)) := by
  intro st'
  have hs : st'.size = .dynamic s := by rw [← hst]; exact run_keeps_setting fam ori ops st hops
  refine ⟨hs, by rw [hs]; rfl, ?_⟩
  have hst' : ({ st' with size := .dynamic s } : State) = st' := by
    cases hq : st' with | mk sz e => rw [hq] at hs; simp at hs; simp [hs]
  simp only [step, hs, setSize_auto]
  cases hv : validSize fam st'.env ori (.sz s) .none defaultFrame with
  | error e => simp [renderObs, hst']
  | ok p => obtain ⟨w, h⟩ := p; simp [renderObs, hst']

/-- `setter_recomputes`: `image.width = v` (`image.height = v`) is `set_size(width=v)`
    (`set_size(height=v)`) whatever the current setting is — also when the image already has a fixed
    size whose width (height) equals `v`: the other dimension is recomputed by `_valid_size` for the
    terminal and cell ratio current at that moment -/
theorem setter_recomputes (fam : Family) (ori : Nat × Nat) (st : State) (v : Int) (hv : 0 < v) :
    (step fam ori st (.setWidth (.int v))).1.size =
      (match validSize fam st.env ori (.int v.toNat) .none defaultFrame with
       | .ok (w, h) => .fixed w h
       | .error _ => st.size) ∧
    (step fam ori st (.setHeight (.int v))).1.size =
      (match validSize fam st.env ori .none (.int v.toNat) defaultFrame with
       | .ok (w, h) => .fixed w h
       | .error _ => st.size) := by
  have hv' : ¬ v ≤ 0 := by omega
  constructor
  · simp only [step, setSize, setSize.setSize2, setSize.setSize3, hv', if_false, SArg.toArg]
    cases validSize fam st.env ori (.int v.toNat) .none defaultFrame with
    | error e => rfl
    | ok p => rfl
  · simp only [step, setSize, setSize.setSize2, setSize.setSize3, hv', if_false, SArg.toArg]
    cases validSize fam st.env ori .none (.int v.toNat) defaultFrame with
    | error e => rfl
    | ok p => rfl

/-- the seeded scenario: a manual (40, 3), then `width = 40`; width 60, ratio 0.5 → 0.25, width 60 again -/
example :
    let st : State := ⟨.dynamic .fit, ⟨80, 30, none, some (divNat 1 2)⟩⟩
    (trace .text (300, 200) st [.sizeTuple 40 3, .setWidth (.int 40), .setWidth (.int 60),
        .setRatio (.value (divNat 1 4)), .setWidth (.int 60)]).map (·.2.1)
      = [.fixed 40 3, .fixed 40 14, .fixed 60 20, .fixed 60 20, .fixed 60 10] := by
  rfl

/-- `rejected_ratio_keeps_state`: a `set_cell_ratio` call that raises — a value ≤ 0 (`ValueError`),
    a non-number (`TypeError`), FIXED/DYNAMIC without a known cell size (`TermImageError`) — leaves
    the whole state (size setting *and* environment, in particular the ratio last accepted) as it was,
    so every later size read and render is what it would have been without the call -/
theorem rejected_ratio_keeps_state (fam : Family) (ori : Nat × Nat) (st : State) (a : RatioArg) (e : Err)
    (h : setCellRatio st.env a = .error e) :
    step fam ori st (.setRatio a) = (st, .err e) ∧
    (∀ ops, run fam ori st (.setRatio a :: ops) = run fam ori st ops) ∧
    (∀ ops, (trace fam ori st (.setRatio a :: ops)).tail = trace fam ori st ops) := by
  have hs : step fam ori st (.setRatio a) = (st, .err e) := by simp [step, h]
  refine ⟨hs, fun ops => by simp [run, hs], fun ops => by simp [trace, hs]⟩

/-- the rejected arguments: every `bad` value and a zero float are rejected whatever the state; an
    accepted positive float is stored -/
theorem ratio_rejections (env : Env) (e : Err) (r : F64) :
    setCellRatio env (.bad e) = .error e ∧
    (r.isZero = true → setCellRatio env (.value r) = .error .valueError) ∧
    (r.isZero = false → setCellRatio env (.value r) = .ok (some r)) ∧
    (env.cell = none → setCellRatio env .fixed = .error .termImageError ∧
      setCellRatio env .dynamic = .error .termImageError) := by
  refine ⟨rfl, fun h => by simp [setCellRatio, h], fun h => by simp [setCellRatio, h], fun h => by simp [setCellRatio, h]⟩

example :
    let st : State := ⟨.dynamic .fit, ⟨80, 30, none, some (divNat 1 2)⟩⟩
    trace .text (1000, 300) st [.setRatio (.bad .valueError), .render, .setRatio (.value F64.zero), .setRatio .fixed, .render]
      = [(.err .valueError, .dynamic .fit, .ok (80, 12)), (.rendered 80 12, .dynamic .fit, .ok (80, 12)),
         (.err .valueError, .dynamic .fit, .ok (80, 12)), (.err .termImageError, .dynamic .fit, .ok (80, 12)),
         (.rendered 80 12, .dynamic .fit, .ok (80, 12))] := by
  rfl

/-- the environment operations do what they say (so "current" above means what it should) -/
theorem env_ops (fam : Family) (ori : Nat × Nat) (st : State) (c l : Nat) (cell : Option (Nat × Nat)) (r : F64)
    (hr : r.isZero = false) :
    (step fam ori st (.resize c l)).1.env = { st.env with cols := c, lines := l } ∧
    (step fam ori st (.setCell cell)).1.env = { st.env with cell := cell } ∧
    (step fam ori st (.setRatio (.value r))).1.env = { st.env with ratio := some r } := by
  simp [step, setCellRatio, hr]

example :
    let st : State := ⟨.dynamic .fit, ⟨80, 30, none, some (divNat 1 2)⟩⟩
    trace .text (1000, 300) st [.render, .resize 100 40, .render, .setSize (.sz .fit) .none (0, -2), .resize 20 20, .render]
      = [(.rendered 80 12, .dynamic .fit, .ok (80, 12)), (.done, .dynamic .fit, .ok (100, 15)),
         (.rendered 100 15, .dynamic .fit, .ok (100, 15)), (.done, .fixed 100 15, .ok (100, 15)),
         (.done, .fixed 100 15, .ok (100, 15)), (.rendered 100 15, .fixed 100 15, .ok (100, 15))] := by
  rfl

/-- a history with failing render attempts between resizes: the dynamic setting survives every
    one of them and the next read follows the new terminal size -/
example :
    let st : State := ⟨.dynamic .fit, ⟨80, 30, none, some (divNat 1 2)⟩⟩
    trace .text (1000, 300) st [.renderWith false false .source, .resize 100 40, .renderWith true false .renderer,
        .renderWith true false .none, .sizeTuple 120 10, .renderWith true false .none, .renderWith false false .source]
      = [(.err .fileNotFoundError, .dynamic .fit, .ok (80, 12)), (.done, .dynamic .fit, .ok (100, 15)),
         (.err .runtimeError, .dynamic .fit, .ok (100, 15)), (.rendered 100 15, .dynamic .fit, .ok (100, 15)),
         (.done, .fixed 120 10, .ok (120, 10)), (.err .invalidSizeError, .fixed 120 10, .ok (120, 10)),
         (.err .fileNotFoundError, .fixed 120 10, .ok (120, 10))] := by
  rfl

/-! ## the float-dependent inequalities

They are proved from `FlLaws`, four facts about the concrete rounding function `SF.fl`
(monotone; relative error ≤ 2⁻⁵³; exact on integers and half-integers below 2⁵³).
`FlLaws` is an explicit hypothesis `L` of every theorem named `…_partial`: discharging it
(`softfloat_laws : FlLaws`) is the open obligation.  Nothing is assumed by axiom. -/

/-- the magnitude hypothesis: original ≤ 2³¹, frame (resolved) and cell sizes ≤ 2¹⁶, a positive
    pixel ratio; cell sizes positive -/
structure Bnd (fam : Family) (env : Env) (ori : Nat × Nat) (cols lines : Nat) : Prop where
  wf : env.WF
  ow_pos : 1 ≤ ori.1
  oh_pos : 1 ≤ ori.2
  ow_le : ori.1 ≤ 2 ^ 31
  oh_le : ori.2 ≤ 2 ^ 31
  cols_le : cols ≤ 2 ^ 16
  lines_le : lines ≤ 2 ^ 16
  cell_le : (cellOr env).1 ≤ 2 ^ 16 ∧ (cellOr env).2 ≤ 2 ^ 16
  pr_pos : 0 < (pixelRatio fam env).val

theorem Bnd.frame_px {fam env ori cols lines} (b : Bnd fam env ori cols lines) :
    ((pixelsOfCols fam env cols : Nat) : ℚ) ≤ 2 ^ 39 ∧ ((pixelsOfLines fam env lines : Nat) : ℚ) ≤ 2 ^ 39 := by
  have hc : colUnit fam env ≤ 2 ^ 16 := by
    cases fam
    · show 1 ≤ 2 ^ 16; norm_num
    · exact b.cell_le.1
  have hl : lineUnit fam env ≤ 2 ^ 16 := by
    cases fam
    · show 2 ≤ 2 ^ 16; norm_num
    · exact b.cell_le.2
  have h1 : pixelsOfCols fam env cols ≤ 2 ^ 16 * 2 ^ 16 := by
    rw [pixelsOfCols_eq]; exact Nat.mul_le_mul b.cols_le hc
  have h2 : pixelsOfLines fam env lines ≤ 2 ^ 16 * 2 ^ 16 := by
    rw [pixelsOfLines_eq]; exact Nat.mul_le_mul b.lines_le hl
  have h1q : ((pixelsOfCols fam env cols : Nat) : ℚ) ≤ ((2 ^ 16 * 2 ^ 16 : Nat) : ℚ) := by exact_mod_cast h1
  have h2q : ((pixelsOfLines fam env lines : Nat) : ℚ) ≤ ((2 ^ 16 * 2 ^ 16 : Nat) : ℚ) := by exact_mod_cast h2
  constructor
  · refine le_trans h1q ?_; norm_num
  · refine le_trans h2q ?_; norm_num

/-- the mode is FIT: neither argument is an `int`, and none of AUTO, FIT_TO_WIDTH, ORIGINAL occurs
    (so the arguments are among `None`, `Size.FIT`) -/
def IsFit (width height : Arg) : Prop :=
  width.isInt = false ∧ height.isInt = false ∧ has .auto width height = false ∧
  has .fitToWidth width height = false ∧ has .original width height = false

/-- `aspect_dev` for FIT, together with `fit_le` and `fit_touch` for FIT (full statement; the
    hypothesis `L` is what makes it `_partial`): the size fills the frame width and the height is
    within one cell of the exact aspect-preserving height for that width and does not exceed the
    frame — or the same with the axes swapped.  Exact values: width `c` cells ↦
    `c·cw·(oh/ow)·pr/ch` lines; height `l` lines ↦ `l·ch·(ow/oh)/pr/cw` columns. -/
theorem aspect_dev_fit_partial (L : FlLaws) (fam : Family) (env : Env) (ori : Nat × Nat) (width height : Arg)
    (frame : Int × Int) (w h : Nat) (hm : IsFit width height)
    (b : Bnd fam env ori (resolve frame.1 env.cols) (resolve frame.2 env.lines))
    (hr : validSize fam env ori width height frame = .ok (w, h)) :
    let cols := resolve frame.1 env.cols
    let lines := resolve frame.2 env.lines
    (w = cols ∧ h ≤ lines ∧
      |(h : ℚ) - ((pixelsOfCols fam env cols : Nat) : ℚ) / ori.1 * ori.2 * (pixelRatio fam env).val / lineUnit fam env| < 1) ∨
    (h = lines ∧ w ≤ cols ∧
      |(w : ℚ) - ((pixelsOfLines fam env lines : Nat) : ℚ) / ori.2 * ori.1 / (pixelRatio fam env).val / colUnit fam env| < 1) := by
  intro cols lines
  obtain ⟨hw, hh, h1, h2, h3⟩ := hm
  rw [validSize_auto hw hh, autoBranch_of_fit h1 h2 h3] at hr
  obtain ⟨ow, oh⟩ := ori
  have p31 : (2 : Nat) ^ 31 < 2 ^ 53 := by norm_num
  exact fit_core L fam env b.wf ow oh cols lines w h b.ow_pos b.oh_pos
    (lt_of_le_of_lt b.ow_le p31) (lt_of_le_of_lt b.oh_le p31)
    (resolve_pos _ _) (resolve_pos _ _) b.frame_px.1 b.frame_px.2 b.pr_pos hr

/-- `fit_touch`: FIT touches the frame on at least one axis -/
theorem fit_touch_partial (L : FlLaws) (fam : Family) (env : Env) (ori : Nat × Nat) (width height : Arg)
    (frame : Int × Int) (w h : Nat) (hm : IsFit width height)
    (b : Bnd fam env ori (resolve frame.1 env.cols) (resolve frame.2 env.lines))
    (hr : validSize fam env ori width height frame = .ok (w, h)) :
    w = resolve frame.1 env.cols ∨ h = resolve frame.2 env.lines := by
  rcases aspect_dev_fit_partial L fam env ori width height frame w h hm b hr with h1 | h1
  · exact Or.inl h1.1
  · exact Or.inr h1.1

/-- `fit_le`: FIT and AUTO never exceed the frame on either axis -/
theorem fit_le_partial (L : FlLaws) (fam : Family) (env : Env) (ori : Nat × Nat) (width height : Arg)
    (frame : Int × Int) (w h : Nat)
    (hm : IsFit width height ∨ (width.isInt = false ∧ height.isInt = false ∧ has .auto width height = true))
    (b : Bnd fam env ori (resolve frame.1 env.cols) (resolve frame.2 env.lines))
    (hr : validSize fam env ori width height frame = .ok (w, h)) :
    w ≤ resolve frame.1 env.cols ∧ h ≤ resolve frame.2 env.lines := by
  have fitcase : ∀ w h, validSize fam env ori (.sz .fit) .none frame = .ok (w, h) →
      w ≤ resolve frame.1 env.cols ∧ h ≤ resolve frame.2 env.lines := by
    intro w h hr
    rcases aspect_dev_fit_partial L fam env ori (.sz .fit) .none frame w h ⟨rfl, rfl, rfl, rfl, rfl⟩ b hr with h1 | h1
    · exact ⟨le_of_eq h1.1, h1.2.1⟩
    · exact ⟨h1.2.1, le_of_eq h1.1⟩
  rcases hm with hm | ⟨hw, hh, ha⟩
  · rcases aspect_dev_fit_partial L fam env ori width height frame w h hm b hr with h1 | h1
    · exact ⟨le_of_eq h1.1, h1.2.1⟩
    · exact ⟨h1.2.1, le_of_eq h1.1⟩
  · rw [auto_iff fam env ori width height frame hw hh ha] at hr
    split at hr
    · rename_i hfit
      rw [validSize_auto rfl rfl, autoBranch_of_original rfl rfl rfl] at hr
      injection hr with hr; injection hr with h1 h2
      have b53 : pixelsOfLines fam env (resolve frame.2 env.lines) < 2 ^ 53 := by
        have := b.frame_px.2
        have : ((pixelsOfLines fam env (resolve frame.2 env.lines) : Nat) : ℚ) < ((2 ^ 53 : Nat) : ℚ) := by
          push_cast; linarith [show (2 : ℚ) ^ 39 < 2 ^ 53 by norm_num]
        exact_mod_cast this
      constructor
      · rw [← h1]; exact cols_le fam b.wf (resolve_pos _ _) hfit.1
      · rw [← h2]; exact lines_le L fam b.wf (resolve_pos _ _) hfit.2 b53
    · exact fitcase w h hr

/-- `aspect_dev` for a given width (height): the other dimension is within one cell of the exact
    value `n·cw·(oh/ow)·pr/ch` (`n·ch·(ow/oh)/pr/cw`), provided that value — in pixels — is at
    most 2⁴⁰ (beyond that, binary64 no longer resolves single pixels) -/
theorem aspect_dev_given_partial (L : FlLaws) (fam : Family) (env : Env) (hwf : env.WF) (ow oh n : Nat)
    (frame : Int × Int) (w h : Nat) (how : 1 ≤ ow) (hoh : 1 ≤ oh) (hn : 1 ≤ n)
    (bow : ow < 2 ^ 53) (boh : oh < 2 ^ 53) (hpr : 0 < (pixelRatio fam env).val) :
    (((pixelsOfCols fam env n : Nat) : ℚ) / ow * oh * (pixelRatio fam env).val ≤ 2 ^ 40 →
      validSize fam env (ow, oh) (.int n) .none frame = .ok (w, h) →
      w = n ∧ |(h : ℚ) - ((pixelsOfCols fam env n : Nat) : ℚ) / ow * oh * (pixelRatio fam env).val / lineUnit fam env| < 1) ∧
    (((pixelsOfLines fam env n : Nat) : ℚ) / oh * ow / (pixelRatio fam env).val ≤ 2 ^ 40 →
      validSize fam env (ow, oh) .none (.int n) frame = .ok (w, h) →
      h = n ∧ |(w : ℚ) - ((pixelsOfLines fam env n : Nat) : ℚ) / oh * ow / (pixelRatio fam env).val / colUnit fam env| < 1) :=
  ⟨fun hE hr => given_width_dev L fam env hwf ow oh n frame w h how hoh hn boh hpr hE hr,
   fun hE hr => given_height_dev L fam env hwf ow oh n frame w h how hoh hn bow hpr hE hr⟩

/-- `aspect_dev` for FIT_TO_WIDTH: the height is within one cell of the exact value for the
    frame width -/
theorem aspect_dev_ftw_partial (L : FlLaws) (fam : Family) (env : Env) (hwf : env.WF) (ow oh : Nat)
    (width height : Arg) (frame : Int × Int) (w h : Nat) (how : 1 ≤ ow) (hoh : 1 ≤ oh) (boh : oh < 2 ^ 53)
    (hpr : 0 < (pixelRatio fam env).val)
    (hw : width.isInt = false) (hh : height.isInt = false)
    (hauto : has .auto width height = false) (hftw : has .fitToWidth width height = true)
    (hE : ((pixelsOfCols fam env (resolve frame.1 env.cols) : Nat) : ℚ) / ow * oh * (pixelRatio fam env).val ≤ 2 ^ 40)
    (hr : validSize fam env (ow, oh) width height frame = .ok (w, h)) :
    |(h : ℚ) - ((pixelsOfCols fam env (resolve frame.1 env.cols) : Nat) : ℚ) / ow * oh * (pixelRatio fam env).val
        / lineUnit fam env| < 1 := by
  rw [validSize_auto hw hh, autoBranch_of_ftw hauto hftw] at hr
  have hp : 1 ≤ pixelsOfCols fam env (resolve frame.1 env.cols) := by
    rw [pixelsOfCols_eq]; exact Nat.mul_pos (resolve_pos _ _) (units_pos fam hwf).1
  exact ftw_dev L fam env hwf ow oh _ w h how hoh hp boh hpr hE hr

/-- `aspect_dev` for ORIGINAL: each dimension is within one cell of the original size expressed in
    cells (`ow/cw`, `oh·pr/ch`) -/
theorem aspect_dev_original_partial (L : FlLaws) (fam : Family) (env : Env) (hwf : env.WF) (ow oh : Nat)
    (width height : Arg) (frame : Int × Int) (w h : Nat) (how : 1 ≤ ow) (hoh : 1 ≤ oh) (boh : oh < 2 ^ 53)
    (hpr : 0 < (pixelRatio fam env).val)
    (hw : width.isInt = false) (hh : height.isInt = false)
    (hauto : has .auto width height = false) (hftw : has .fitToWidth width height = false)
    (hori : has .original width height = true)
    (hE : (oh : ℚ) * (pixelRatio fam env).val ≤ 2 ^ 40)
    (hr : validSize fam env (ow, oh) width height frame = .ok (w, h)) :
    |(w : ℚ) - (ow : ℚ) / colUnit fam env| < 1 ∧
    |(h : ℚ) - (oh : ℚ) * (pixelRatio fam env).val / lineUnit fam env| < 1 := by
  rw [validSize_auto hw hh, autoBranch_of_original hauto hftw hori] at hr
  injection hr with hr
  have := original_dev L fam env hwf ow oh how hoh boh hpr hE
  rw [hr] at this
  exact this

/-- no exception for an original size ≥ 1×1: `_valid_size` returns a size for every mode (the
    `int`/`Size` mix, which `set_size` rejects with `TypeError` before calling it, excepted) -/
theorem no_error (fam : Family) (env : Env) (ori : Nat × Nat) (width height : Arg) (frame : Int × Int)
    (how : 1 ≤ ori.1) (hoh : 1 ≤ ori.2)
    (hmix : ¬ (width.isInt = true ∧ ∃ s, height = .sz s) ∧ ¬ (height.isInt = true ∧ ∃ s, width = .sz s)) :
    ∃ w h, validSize fam env ori width height frame = .ok (w, h) := by
  have how' : ori.1 ≠ 0 := by omega
  have hoh' : ori.2 ≠ 0 := by omega
  have hfit : ∀ fw fh, ∃ w h, fitSize fam env ori fw fh = .ok (w, h) := by
    intro fw fh
    simp only [fitSize, how', hoh', if_false]
    split <;> exact ⟨_, _, rfl⟩
  have hftw : ∀ fw, ∃ w h, fitToWidthSize fam env ori fw = .ok (w, h) := by
    intro fw
    simp only [fitToWidthSize, heightPxOfWidth, how', if_false]
    exact ⟨_, _, rfl⟩
  have hauto : ∀ width height, ∃ w h, autoBranch fam env ori width height frame = .ok (w, h) := by
    intro width height
    unfold autoBranch
    simp only
    split
    · split
      · exact hfit _ _
      · exact ⟨_, _, rfl⟩
    · split
      · exact hftw _
      · split
        · exact ⟨_, _, rfl⟩
        · exact hfit _ _
  cases hwi : width.isInt <;> cases hhi : height.isInt
  · rw [validSize_auto hwi hhi]; exact hauto _ _
  all_goals
    cases width <;> cases height <;> simp [Arg.isInt] at hwi hhi hmix
    all_goals
      simp only [validSize, heightPxOfWidth, widthPxOfHeight, how', hoh', if_false]
      exact ⟨_, _, rfl⟩

/-- the hypotheses `Bnd` and `IsFit` are satisfiable (an 80×30 terminal, 1000×300 source, ratio 0.5) -/
example : Bnd .text ⟨80, 30, none, some (divNat 1 2)⟩ (1000, 300) 80 28 ∧ IsFit (.sz .fit) .none := by
  refine ⟨⟨?_, by decide, by decide, by decide, by decide, by decide, by decide, by decide, ?_⟩, rfl, rfl, rfl, rfl, rfl⟩
  · intro c hc; cases hc
  · have e : pixelRatio .text ⟨80, 30, none, some (divNat 1 2)⟩ = ⟨4503599627370496, -52⟩ := by rfl
    rw [e]; norm_num [F64.val, F64.num, F64.den]

/-! ## the float laws are discharged, and the unconditional forms

`softfloat_laws : FlLaws` is proved in `SoftfloatLaws.lean` (`fl_mono`, `fl_rel_err`,
`fl_exact_int`, `fl_exact_half` about the concrete `SF.fl`).  The `_partial` theorems above are
kept; each is restated here without the hypothesis. -/

/-- the concrete softfloat satisfies the four laws: rounding is monotone, has relative error at
    most 2⁻⁵³, and is exact on integers and half-integers below 2⁵³ -/
theorem float_laws :
    (∀ n₁ d₁ n₂ d₂ : Nat, 0 < d₁ → 0 < d₂ → (n₁ : ℚ) / d₁ ≤ (n₂ : ℚ) / d₂ → (fl n₁ d₁).val ≤ (fl n₂ d₂).val) ∧
    (∀ n d : Nat, 0 < d → |(fl n d).val - (n : ℚ) / d| ≤ (n : ℚ) / d / 2 ^ 53) ∧
    (∀ k : Nat, k < 2 ^ 53 → (fl k 1).val = k) ∧
    (∀ k : Nat, k < 2 ^ 53 → (fl k 2).val = (k : ℚ) / 2) :=
  ⟨fl_mono, fl_rel_err, fl_exact_int, fl_exact_half⟩

example : (fl 7 1).val = 7 ∧ (fl 7 2).val = 7 / 2 :=
  ⟨by simpa using fl_exact_int 7 (by norm_num), by simpa using fl_exact_half 7 (by norm_num)⟩

/-- `aspect_dev_fit_partial` with `softfloat_laws` supplied: unconditional -/
theorem aspect_dev_fit (fam : Family) (env : Env) (ori : Nat × Nat) (width height : Arg)
    (frame : Int × Int) (w h : Nat) (hm : IsFit width height)
    (b : Bnd fam env ori (resolve frame.1 env.cols) (resolve frame.2 env.lines))
    (hr : validSize fam env ori width height frame = .ok (w, h)) :
    let cols := resolve frame.1 env.cols
    let lines := resolve frame.2 env.lines
    (w = cols ∧ h ≤ lines ∧
      |(h : ℚ) - ((pixelsOfCols fam env cols : Nat) : ℚ) / ori.1 * ori.2 * (pixelRatio fam env).val / lineUnit fam env| < 1) ∨
    (h = lines ∧ w ≤ cols ∧
      |(w : ℚ) - ((pixelsOfLines fam env lines : Nat) : ℚ) / ori.2 * ori.1 / (pixelRatio fam env).val / colUnit fam env| < 1) :=
  aspect_dev_fit_partial softfloat_laws fam env ori width height frame w h hm b hr

/-- `fit_touch_partial` with `softfloat_laws` supplied: unconditional -/
theorem fit_touch (fam : Family) (env : Env) (ori : Nat × Nat) (width height : Arg)
    (frame : Int × Int) (w h : Nat) (hm : IsFit width height)
    (b : Bnd fam env ori (resolve frame.1 env.cols) (resolve frame.2 env.lines))
    (hr : validSize fam env ori width height frame = .ok (w, h)) :
    w = resolve frame.1 env.cols ∨ h = resolve frame.2 env.lines :=
  fit_touch_partial softfloat_laws fam env ori width height frame w h hm b hr

/-- `fit_le_partial` with `softfloat_laws` supplied: unconditional -/
theorem fit_le (fam : Family) (env : Env) (ori : Nat × Nat) (width height : Arg)
    (frame : Int × Int) (w h : Nat)
    (hm : IsFit width height ∨ (width.isInt = false ∧ height.isInt = false ∧ has .auto width height = true))
    (b : Bnd fam env ori (resolve frame.1 env.cols) (resolve frame.2 env.lines))
    (hr : validSize fam env ori width height frame = .ok (w, h)) :
    w ≤ resolve frame.1 env.cols ∧ h ≤ resolve frame.2 env.lines :=
  fit_le_partial softfloat_laws fam env ori width height frame w h hm b hr

/-- `aspect_dev_given_partial` with `softfloat_laws` supplied: unconditional -/
theorem aspect_dev_given (fam : Family) (env : Env) (hwf : env.WF) (ow oh n : Nat)
    (frame : Int × Int) (w h : Nat) (how : 1 ≤ ow) (hoh : 1 ≤ oh) (hn : 1 ≤ n)
    (bow : ow < 2 ^ 53) (boh : oh < 2 ^ 53) (hpr : 0 < (pixelRatio fam env).val) :
    (((pixelsOfCols fam env n : Nat) : ℚ) / ow * oh * (pixelRatio fam env).val ≤ 2 ^ 40 →
      validSize fam env (ow, oh) (.int n) .none frame = .ok (w, h) →
      w = n ∧ |(h : ℚ) - ((pixelsOfCols fam env n : Nat) : ℚ) / ow * oh * (pixelRatio fam env).val / lineUnit fam env| < 1) ∧
    (((pixelsOfLines fam env n : Nat) : ℚ) / oh * ow / (pixelRatio fam env).val ≤ 2 ^ 40 →
      validSize fam env (ow, oh) .none (.int n) frame = .ok (w, h) →
      h = n ∧ |(w : ℚ) - ((pixelsOfLines fam env n : Nat) : ℚ) / oh * ow / (pixelRatio fam env).val / colUnit fam env| < 1) :=
  aspect_dev_given_partial softfloat_laws fam env hwf ow oh n frame w h how hoh hn bow boh hpr

/-- `aspect_dev_ftw_partial` with `softfloat_laws` supplied: unconditional -/
theorem aspect_dev_ftw (fam : Family) (env : Env) (hwf : env.WF) (ow oh : Nat)
    (width height : Arg) (frame : Int × Int) (w h : Nat) (how : 1 ≤ ow) (hoh : 1 ≤ oh) (boh : oh < 2 ^ 53)
    (hpr : 0 < (pixelRatio fam env).val)
    (hw : width.isInt = false) (hh : height.isInt = false)
    (hauto : has .auto width height = false) (hftw : has .fitToWidth width height = true)
    (hE : ((pixelsOfCols fam env (resolve frame.1 env.cols) : Nat) : ℚ) / ow * oh * (pixelRatio fam env).val ≤ 2 ^ 40)
    (hr : validSize fam env (ow, oh) width height frame = .ok (w, h)) :
    |(h : ℚ) - ((pixelsOfCols fam env (resolve frame.1 env.cols) : Nat) : ℚ) / ow * oh * (pixelRatio fam env).val
        / lineUnit fam env| < 1 :=
  aspect_dev_ftw_partial softfloat_laws fam env hwf ow oh width height frame w h how hoh boh hpr hw hh hauto hftw hE hr

/-- `aspect_dev_original_partial` with `softfloat_laws` supplied: unconditional -/
theorem aspect_dev_original (fam : Family) (env : Env) (hwf : env.WF) (ow oh : Nat)
    (width height : Arg) (frame : Int × Int) (w h : Nat) (how : 1 ≤ ow) (hoh : 1 ≤ oh) (boh : oh < 2 ^ 53)
    (hpr : 0 < (pixelRatio fam env).val)
    (hw : width.isInt = false) (hh : height.isInt = false)
    (hauto : has .auto width height = false) (hftw : has .fitToWidth width height = false)
    (hori : has .original width height = true)
    (hE : (oh : ℚ) * (pixelRatio fam env).val ≤ 2 ^ 40)
    (hr : validSize fam env (ow, oh) width height frame = .ok (w, h)) :
    |(w : ℚ) - (ow : ℚ) / colUnit fam env| < 1 ∧
    |(h : ℚ) - (oh : ℚ) * (pixelRatio fam env).val / lineUnit fam env| < 1 :=
  aspect_dev_original_partial softfloat_laws fam env hwf ow oh width height frame w h how hoh boh hpr hw hh hauto hftw hori hE hr

end TIV.C04
