import TIV.C04.Approx
/-! # C04 — from pixels to cells, and the float-dependent sizing lemmas -/
namespace TIV.C04
open SF

/-- pixels per cell, horizontally / vertically -/
def colUnit (fam : Family) (env : Env) : ℕ := match fam with | .text => 1 | .graphics => (cellOr env).1
def lineUnit (fam : Family) (env : Env) : ℕ := match fam with | .text => 2 | .graphics => (cellOr env).2

theorem units_pos (fam : Family) {env : Env} (h : env.WF) : 0 < colUnit fam env ∧ 0 < lineUnit fam env := by
  cases fam <;> simp [colUnit, lineUnit, cellOr_pos h]

theorem pixelsOfCols_eq (fam env c) : pixelsOfCols fam env c = c * colUnit fam env := by
  cases fam <;> simp [pixelsOfCols, colUnit]
theorem colsOfPixels_eq (fam env p) : colsOfPixels fam env p = p / colUnit fam env := by
  cases fam <;> simp [colsOfPixels, colUnit]
theorem pixelsOfLines_eq (fam env l) : pixelsOfLines fam env l = l * lineUnit fam env := by
  cases fam <;> simp [pixelsOfLines, lineUnit]

theorem linesOfPixels_text (L : FlLaws) (env p) (hp : p < 2 ^ 53) : linesOfPixels .text env p = (p + 1) / 2 := by
  unfold linesOfPixels SF.divNat
  apply ceil_eq
  · rw [L.exact_half p hp]
    have : 2 * ((p + 1) / 2) < p + 2 := by omega
    have : ((2 * ((p + 1) / 2) : ℕ) : ℚ) < ((p + 2 : ℕ) : ℚ) := by exact_mod_cast this
    push_cast at this; linarith
  · rw [L.exact_half p hp]
    have : p ≤ 2 * ((p + 1) / 2) := by omega
    have : (p : ℚ) ≤ ((2 * ((p + 1) / 2) : ℕ) : ℚ) := by exact_mod_cast this
    push_cast at this; linarith

theorem linesOfPixels_graphics (env p) : linesOfPixels .graphics env p = p / lineUnit .graphics env := rfl

/-- `_pixels_lines(pixels=_pixels_lines(lines=l)) = l` -/
theorem lines_roundtrip (L : FlLaws) (fam : Family) {env : Env} (h : env.WF) (l : ℕ) (hl : l * lineUnit fam env < 2 ^ 53) :
    linesOfPixels fam env (pixelsOfLines fam env l) = l := by
  rw [pixelsOfLines_eq]
  cases fam with
  | text => rw [linesOfPixels_text L _ _ hl]; simp [lineUnit]; omega
  | graphics => rw [linesOfPixels_graphics]; exact Nat.mul_div_cancel _ (units_pos .graphics h).2

theorem linesOfPixels_mono (L : FlLaws) (fam : Family) (env : Env) {p q : ℕ} (h : p ≤ q) (hq : q < 2 ^ 53) :
    linesOfPixels fam env p ≤ linesOfPixels fam env q := by
  cases fam with
  | text => rw [linesOfPixels_text L _ _ hq, linesOfPixels_text L _ _ (lt_of_le_of_lt h hq)]; omega
  | graphics => exact Nat.div_le_div_right h

/-- a pixel count within the frame gives a cell count within the frame -/
theorem lines_le (L : FlLaws) (fam : Family) {env : Env} (hwf : env.WF) {p l : ℕ} (hl : 1 ≤ l)
    (h : p ≤ pixelsOfLines fam env l) (hb : pixelsOfLines fam env l < 2 ^ 53) :
    or1 (linesOfPixels fam env p) ≤ l := by
  apply or1_le _ hl
  have := linesOfPixels_mono L fam env h hb
  rwa [lines_roundtrip L fam hwf l (by rwa [← pixelsOfLines_eq])] at this

theorem cols_le (fam : Family) {env : Env} (hwf : env.WF) {p c : ℕ} (hc : 1 ≤ c)
    (h : p ≤ pixelsOfCols fam env c) : or1 (colsOfPixels fam env p) ≤ c := by
  apply or1_le _ hc
  have := colsOfPixels_mono fam env h
  rwa [cols_roundtrip fam hwf] at this

/-! ### the deviation, in cells, of a pixel count that is within 3/4 px of the exact value -/

theorem floor_dev (P c : ℕ) (a : ℚ) (hc : 0 < c) (ha : 0 < a) (h : |(P : ℚ) - a| ≤ 3 / 4) :
    |((or1 (P / c) : ℕ) : ℚ) - a / c| < 1 := by
  have hcq : (0 : ℚ) < c := by exact_mod_cast hc
  obtain ⟨h1, h2⟩ := abs_le.mp h
  have hc1 : (1 : ℚ) ≤ c := by exact_mod_cast hc
  set e := a / c with he
  have hec : e * c = a := by rw [he]; field_simp
  have d1 : c * (P / c) ≤ P := Nat.mul_div_le P c
  have d2 : P < c * (P / c) + c := by
    have := Nat.lt_mul_div_succ P hc; rw [Nat.mul_succ] at this; exact this
  have d1q : (c : ℚ) * ((P / c : ℕ) : ℚ) ≤ P := by exact_mod_cast d1
  have d2q : (P : ℚ) + 1 ≤ (c : ℚ) * ((P / c : ℕ) : ℚ) + c := by exact_mod_cast d2
  rw [abs_lt]
  unfold or1
  split
  · rename_i h0
    rw [h0] at d2q
    push_cast at d2q ⊢
    constructor
    · have : e * c < 1 * c := by rw [hec]; linarith
      have := lt_of_mul_lt_mul_right this (le_of_lt hcq)
      linarith
    · have : 0 < e := by rw [he]; positivity
      linarith
  · set g : ℚ := ((P / c : ℕ) : ℚ)
    constructor
    · have : (e - g) * c < 1 * c := by
        have : (e - g) * c = a - c * g := by rw [sub_mul, hec]; ring
        rw [this]; linarith
      have := lt_of_mul_lt_mul_right this (le_of_lt hcq)
      linarith
    · have : (g - e) * c < 1 * c := by
        have : (g - e) * c = c * g - a := by rw [sub_mul, hec]; ring
        rw [this]; linarith
      have := lt_of_mul_lt_mul_right this (le_of_lt hcq)
      linarith

theorem ceil2_dev (P : ℕ) (a : ℚ) (ha : 0 < a) (h : |(P : ℚ) - a| ≤ 3 / 4) :
    |((or1 ((P + 1) / 2) : ℕ) : ℚ) - a / 2| < 1 := by
  obtain ⟨h1, h2⟩ := abs_le.mp h
  have d1 : 2 * ((P + 1) / 2) ≤ P + 1 := Nat.mul_div_le _ 2
  have d2 : P ≤ 2 * ((P + 1) / 2) := by omega
  have d1q : (2 : ℚ) * (((P + 1) / 2 : ℕ) : ℚ) ≤ P + 1 := by exact_mod_cast d1
  have d2q : (P : ℚ) ≤ (2 : ℚ) * (((P + 1) / 2 : ℕ) : ℚ) := by exact_mod_cast d2
  rw [abs_lt]
  unfold or1
  split
  · rename_i h0
    rw [h0] at d2q
    push_cast at d2q ⊢
    constructor <;> linarith
  · constructor <;> linarith

theorem cols_dev (fam : Family) {env : Env} (hwf : env.WF) (P : ℕ) (a : ℚ) (ha : 0 < a)
    (h : |(P : ℚ) - a| ≤ 3 / 4) :
    |((or1 (colsOfPixels fam env P) : ℕ) : ℚ) - a / colUnit fam env| < 1 := by
  rw [colsOfPixels_eq]; exact floor_dev P _ a (units_pos fam hwf).1 ha h

theorem lines_dev (L : FlLaws) (fam : Family) {env : Env} (hwf : env.WF) (P : ℕ) (a : ℚ) (ha : 0 < a)
    (h : |(P : ℚ) - a| ≤ 3 / 4) (hP : P < 2 ^ 53) :
    |((or1 (linesOfPixels fam env P) : ℕ) : ℚ) - a / lineUnit fam env| < 1 := by
  cases fam with
  | text => rw [linesOfPixels_text L _ _ hP]; simpa [lineUnit] using ceil2_dev P a ha h
  | graphics => rw [linesOfPixels_graphics]; exact floor_dev P _ a (units_pos .graphics hwf).2 ha h

/-- rounding a chain of ≤ 12 roundings of a value ≤ 2^40: within 3/4 of the exact value -/
theorem round_dev {k a} {x : F64} (h : Approx k a x.val) (hk : k ≤ 12) (ha : a ≤ 2 ^ 40) :
    |((SF.round x : ℕ) : ℚ) - a| ≤ 3 / 4 ∧ SF.round x < 2 ^ 53 := by
  have h1 := abs_le.mp (round_half x)
  have h2 := abs_le.mp (h.near hk ha)
  refine ⟨abs_le.mpr ⟨by linarith [h1.1, h2.1], by linarith [h1.2, h2.2]⟩, ?_⟩
  have : ((SF.round x : ℕ) : ℚ) < ((2 ^ 53 : ℕ) : ℚ) := by
    push_cast
    have : (2 : ℚ) ^ 40 + 1 < 2 ^ 53 := by norm_num
    linarith [h1.2, h2.2]
  exact_mod_cast this

theorem round_exact {k} {N : ℕ} {x : F64} (h : Approx k (N : ℚ) x.val) (hk : k ≤ 12) (hN : (N : ℚ) ≤ 2 ^ 40) :
    SF.round x = N := round_eq_of_near x N (h.near hk hN)

/-- an upper bound through ≤ 12 roundings -/
theorem upper_near {k : ℕ} {a x : ℚ} (ha0 : 0 < a) (h : x ≤ a * ρ ^ k) (hk : k ≤ 12) (ha : a ≤ 2 ^ 40) :
    x ≤ a + 1 / 4 := by
  have hρ : ρ ^ 12 ≤ 1 + 1 / 2 ^ 48 := by unfold ρ; norm_num
  have hp : ρ ^ k ≤ ρ ^ 12 := pow_le_pow_right₀ ρ_ge_one hk
  have : a * ρ ^ k ≤ a * (1 + 1 / 2 ^ 48) := mul_le_mul_of_nonneg_left (le_trans hp hρ) (le_of_lt ha0)
  nlinarith

end TIV.C04
