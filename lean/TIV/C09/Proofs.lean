import TIV.C08.Props
import TIV.C09.Model
/-! helper lemmas for C09: the simulation between the caching and the non-caching image iterator;
    the stretch invariant of the caching render iterator -/
namespace TIV.C09
open TIV.C08 (Size pyGet pySet)

section
variable {β κ : Type} [DecidableEq κ]

/-- every stored frame is the render of its index at the size whose key is stored with it -/
def CacheValid (render : Nat → Size → β) (key : Size → κ) (cache : List (Option (β × κ))) : Prop :=
  ∀ (j : Nat) (b : β) (k : κ), cache[j]? = some (some (b, k)) → ∃ sz, k = key sz ∧ b = render j sz

theorem CacheValid.set {render : Nat → Size → β} {key : Size → κ} {cache : List (Option (β × κ))}
    (h : CacheValid render key cache) (j : Nat) (sz : Size) :
    CacheValid render key (cache.set j (some (render j sz, key sz))) := by
  intro i b k hi
  by_cases hij : j = i
  · subst hij
    rw [List.getElem?_set] at hi
    simp at hi
    obtain ⟨_, rfl, rfl⟩ := hi
    exact ⟨sz, rfl, rfl⟩
  · rw [List.getElem?_set_ne hij] at hi
    exact h i b k hi

theorem cacheValid_replicate (render : Nat → Size → β) (key : Size → κ) (n : Nat) :
    CacheValid render key (List.replicate n none) := by
  intro j b k hj
  rw [List.getElem?_replicate] at hj
  split at hj <;> simp at hj

/-- the relation between the caching machine `c` and the non-caching machine `u` -/
def IRel (render : Nat → Size → β) (key : Size → κ) (c u : ISt β κ) : Prop :=
  c.nFrames = u.nFrames ∧ 1 ≤ u.nFrames ∧ c.cached = true ∧ u.cached = false ∧ c.rep = u.rep ∧
  c.loopNo = u.loopNo ∧ c.n = u.n ∧ c.size = u.size ∧ c.seekPos = u.seekPos ∧
  ((c.phase = .fresh ∧ u.phase = .fresh) ∨ (c.phase = .done ∧ u.phase = .done) ∨
   ((c.phase = .one ∨ c.phase = .two) ∧ u.phase = .one ∧ c.rep ≠ 0 ∧ -1 ≤ c.n ∧ c.n < c.nFrames ∧
     c.cache.length = c.nFrames ∧ CacheValid render key c.cache))

def ISim (render : Nat → Size → β) (key : Size → κ) (p q : ISt β κ × IResp β) : Prop :=
  IRel render key p.1 q.1 ∧ p.2 = q.2

/-- what both machines agree on while a frame is being produced -/
def Agree (render : Nat → Size → β) (key : Size → κ) (c u : ISt β κ) (m : Nat) : Prop :=
  c.n = (m : Int) ∧ m < c.nFrames ∧
  c.nFrames = u.nFrames ∧ 1 ≤ u.nFrames ∧ c.cached = true ∧ u.cached = false ∧ c.rep = u.rep ∧
  c.loopNo = u.loopNo ∧ c.n = u.n ∧ c.size = u.size ∧ c.rep ≠ 0 ∧ c.cache.length = c.nFrames ∧
  CacheValid render key c.cache

theorem serveTwo_sim (render : Nat → Size → β) (key : Size → κ) (hk : Function.Injective key)
    (c u : ISt β κ) (m : Nat) (h0 : Agree render key c u m) (hsp : u.seekPos = u.n) :
    ISim render key (serveTwo render key c) (renderOne render key u) := by
  obtain ⟨hn, hm, h1, h2, h3, h4, h5, h6, h7, h8, h9, h10, h11⟩ := h0
  have hget : pyGet c.cache c.n = c.cache[m]? := by rw [hn]; exact TIV.C08.pyGet_nat _ _
  have hset : ∀ v, pySet c.cache c.n v = c.cache.set m v := by intro v; rw [hn]; exact TIV.C08.pySet_nat _ _ _
  have hun : u.n.toNat = m := by rw [← h7, hn]; simp
  have hcn : c.n.toNat = m := by rw [hn]; simp
  have hv := h11.set m c.size
  unfold serveTwo renderOne
  simp only [hget, hset, h4, hun, hcn]
  cases hent : c.cache[m]? with
  | none => grind (splits := 40) [ISim, IRel, List.length_set]
  | some ent =>
    cases ent with
    | none => grind (splits := 40) [ISim, IRel, List.length_set]
    | some bk =>
      obtain ⟨b, k⟩ := bk
      simp only
      by_cases hkk : key c.size = k
      · obtain ⟨sz, e1, e2⟩ := h11 m b k hent
        have : sz = c.size := hk (by rw [← e1, hkk])
        subst this
        grind (splits := 40) [ISim, IRel, List.length_set]
      · grind (splits := 40) [ISim, IRel, List.length_set]

theorem renderOne_sim (render : Nat → Size → β) (key : Size → κ)
    (c u : ISt β κ) (m : Nat) (h0 : Agree render key c u m) (hsp : c.seekPos = u.seekPos) :
    ISim render key (renderOne render key c) (renderOne render key u) := by
  obtain ⟨hn, hm, h1, h2, h3, h4, h5, h6, h7, h8, h9, h10, h11⟩ := h0
  have hset : ∀ v, pySet c.cache c.n v = c.cache.set m v := by intro v; rw [hn]; exact TIV.C08.pySet_nat _ _ _
  have hun : u.n.toNat = m := by rw [← h7, hn]; simp
  have hcn : c.n.toNat = m := by rw [hn]; simp
  have hv := h11.set m c.size
  unfold renderOne
  simp only [hset, h3, h4, hun, hcn]
  grind (splits := 40) [ISim, IRel, List.length_set]

theorem inext_sim (render : Nat → Size → β) (key : Size → κ) (hk : Function.Injective key)
    (c u : ISt β κ) (h : IRel render key c u) :
    ISim render key (inextOp render key c) (inextOp render key u) := by
  obtain ⟨h1, h2, h3, h4, h5, h6, h7, h8, h9, hph⟩ := h
  rcases hph with ⟨pc, pu⟩ | ⟨pc, pu⟩ | ⟨pc, pu, r0, nlo, nhi, clen, cval⟩
  · -- first `next`: the generator starts
    simp only [inextOp, pc, pu, loopOne]
    by_cases hr : c.rep = 0
    · have hr' : u.rep = 0 := by omega
      simp only [hr, hr', if_true, finish]
      grind [ISim, IRel]
    · have hr' : ¬ u.rep = 0 := by omega
      have hN : (0 : Int) < (c.nFrames : Int) := by omega
      have hN' : (0 : Int) < (u.nFrames : Int) := by omega
      simp only [hr, hr', if_false, hN, hN', if_true, h3, h4]
      refine renderOne_sim render key _ _ 0 ?_ rfl
      have := cacheValid_replicate render key c.nFrames
      simp only [Agree, if_true, List.length_replicate]
      simp [h1, h2, h5, h8, hr', this]
      exact ⟨by omega, h1 ▸ this⟩
  · simp only [inextOp, pc, pu]
    grind [ISim, IRel]
  · -- both suspended at a `yield`
    have hN : c.cache.length = u.nFrames := by omega
    have hr' : ¬ u.rep = 0 := by omega
    obtain ⟨m, hm⟩ : ∃ m : Nat, c.n + 1 = (m : Int) := ⟨(c.n + 1).toNat, by omega⟩
    have hmu : u.n + 1 = (m : Int) := by omega
    by_cases hlt : m < u.nFrames
    · -- the next frame exists
      have e1 : (c.n + 1 < (c.cache.length : Int)) := by omega
      have e2 : (u.n + 1 < (u.nFrames : Int)) := by omega
      have e3 : (c.n + 1 < (c.nFrames : Int)) := by omega
      have hag : Agree render key { c with n := c.n + 1 } { u with n := u.n + 1 } m := by
        simp only [Agree]
        exact ⟨hm, by omega, h1, h2, h3, h4, h5, h6, by omega, h8, r0, clen, cval⟩
      rcases pc with pc | pc
      · simp only [inextOp, pc, pu, loopOne, r0, hr', if_false, e2, e3, if_true]
        refine renderOne_sim render key _ _ m ?_ (by simp; omega)
        simpa [Agree] using hag
      · simp only [inextOp, pc, pu, loopOne, loopTwo, hr', if_false, e1, e2, if_true]
        refine serveTwo_sim render key hk _ _ m ?_ rfl
        simpa [Agree] using hag
    · -- end of a loop
      have e1 : ¬ (c.n + 1 < (c.cache.length : Int)) := by omega
      have e2 : ¬ (u.n + 1 < (u.nFrames : Int)) := by omega
      have e3 : ¬ (c.n + 1 < (c.nFrames : Int)) := by omega
      have hN0 : (0 : Int) < (u.nFrames : Int) := by omega
      have hN1 : (0 : Int) < (c.cache.length : Int) := by omega
      by_cases hone : c.rep = 1
      · -- that was the last loop
        have hone' : u.rep = 1 := by omega
        rcases pc with pc | pc
        · simp [inextOp, pc, pu, loopOne, r0, hr', e2, e3, rewind, hone, hone', h3, h4, finish]
          grind [ISim, IRel]
        · simp [inextOp, pc, pu, loopOne, loopTwo, hr', e1, e2, rewind, hone, hone', h4, finish]
          grind [ISim, IRel]
      · have hag : ∀ (c' u' : ISt β κ), c'.n = 0 → u'.n = 0 → c'.nFrames = c.nFrames → u'.nFrames = u.nFrames →
            c'.cached = true → u'.cached = false → c'.rep = u'.rep → c'.rep ≠ 0 → c'.loopNo = u'.loopNo →
            c'.size = c.size → u'.size = u.size → c'.cache = c.cache → Agree render key c' u' 0 := by
          intro c' u' a1 a2 a3 a4 a5 a6 a7 a8 a9 a10 a11 a12
          simp only [Agree, a12]
          exact ⟨by simpa using a1, by omega, by omega, by omega, a5, a6, a7, a9, by omega, by rw [a10, a11, h8], a8,
            by omega, cval⟩
        rcases pc with pc | pc
        · simp only [inextOp, pc, pu, loopOne, r0, hr', if_false, e2, e3, h3, h4, if_true, Bool.false_eq_true]
          by_cases hpos : c.rep > 0
          · have hpos' : u.rep > 0 := by omega
            have z1 : ¬ c.rep - 1 = 0 := by omega
            have z2 : ¬ u.rep - 1 = 0 := by omega
            simp only [rewind, hpos, hpos', if_true, z1, z2, if_false, hN0, hN1]
            refine serveTwo_sim render key hk _ _ 0 (hag _ _ rfl rfl rfl rfl (by first | rfl | exact h3) (by first | rfl | exact h4) (by simp; omega) z1 (by simp; omega) rfl rfl rfl) rfl
          · have hpos' : ¬ u.rep > 0 := by omega
            simp only [rewind, hpos, hpos', if_false, r0, hr', hN0, hN1, if_true]
            refine serveTwo_sim render key hk _ _ 0 (hag _ _ rfl rfl rfl rfl (by first | rfl | exact h3) (by first | rfl | exact h4) h5 r0 h6 rfl rfl rfl) rfl
        · simp only [inextOp, pc, pu, loopOne, loopTwo, hr', if_false, e1, e2, h4, Bool.false_eq_true]
          by_cases hpos : c.rep > 0
          · have hpos' : u.rep > 0 := by omega
            have z1 : ¬ c.rep - 1 = 0 := by omega
            have z2 : ¬ u.rep - 1 = 0 := by omega
            simp only [rewind, hpos, hpos', if_true, z1, z2, if_false, hN0, hN1]
            refine serveTwo_sim render key hk _ _ 0 (hag _ _ rfl rfl rfl rfl (by first | rfl | exact h3) (by first | rfl | exact h4) (by simp; omega) z1 (by simp; omega) rfl rfl rfl) rfl
          · have hpos' : ¬ u.rep > 0 := by omega
            simp only [rewind, hpos, hpos', if_false, r0, hr', hN0, hN1, if_true]
            refine serveTwo_sim render key hk _ _ 0 (hag _ _ rfl rfl rfl rfl (by first | rfl | exact h3) (by first | rfl | exact h4) h5 r0 h6 rfl rfl rfl) rfl

theorem istep_sim (render : Nat → Size → β) (key : Size → κ) (hk : Function.Injective key)
    (c u : ISt β κ) (h : IRel render key c u) (op : IOp) :
    ISim render key (istep render key c op) (istep render key u op) := by
  cases op with
  | next => exact inext_sim render key hk c u h
  | seek pos =>
    obtain ⟨h1, h2, h3, h4, h5, h6, h7, h8, h9, hph⟩ := h
    simp only [istep, iseekOp, h1]
    by_cases hr : 0 ≤ pos ∧ pos < (u.nFrames : Int)
    · simp only [hr, not_true_eq_false, if_false]
      rcases hph with ⟨pc, pu⟩ | ⟨pc, pu⟩ | ⟨pc, pu, r0, nlo, nhi, clen, cval⟩
      · simp only [pc, pu]; grind [ISim, IRel]
      · simp only [pc, pu]; grind [ISim, IRel]
      · have hr' : ¬ u.rep = 0 := by omega
        rcases pc with pc | pc <;> simp only [pc, pu, r0, hr', if_false] <;>
          grind (splits := 40) [ISim, IRel]
    · simp only [hr, not_false_eq_true, if_true]
      grind [ISim, IRel]
  | setSize sz => simp only [istep]; grind (splits := 40) [ISim, IRel]
  | close => simp only [istep]; grind (splits := 40) [ISim, IRel]

theorem iobserve_sim (render : Nat → Size → β) (key : Size → κ) (p q : ISt β κ × IResp β)
    (h : ISim render key p q) : iobserve p = iobserve q := by
  obtain ⟨h1, h2⟩ := h
  have : p.1.loopNo = q.1.loopNo ∧ p.1.seekPos = q.1.seekPos := by grind [IRel]
  simp only [iobserve, h2, this.1, this.2]

theorem irun_sim (render : Nat → Size → β) (key : Size → κ) (hk : Function.Injective key) (ops : List IOp) :
    ∀ (c u : ISt β κ), IRel render key c u →
      (irun render key c ops).2 = (irun render key u ops).2 := by
  induction ops with
  | nil => intro c u _; rfl
  | cons op ops ih =>
    intro c u h
    have hs := istep_sim render key hk c u h op
    have ho := iobserve_sim render key _ _ hs
    simp only [irun]
    rw [ho, ih _ _ hs.1]

end

/-! ## render iterator: at most one render per frame within a stretch without a settings change -/
section stretch
open TIV.C08
variable {ρ O : Type}

/-- the settings a cache entry is keyed on -/
def settingsOf (s : St ρ O) : Size × Dur × Args := (s.size, s.dur, s.args)

/-- the cache holds, for frame `k`, an entry rendered under the current settings -/
def Fresh (s : St ρ O) (k : Nat) : Prop :=
  ∃ e : CacheEntry O, s.cache[k]? = some (some e) ∧ (e.size, e.dur, e.args) = settingsOf s

/-- structural invariant of an open, caching iterator over a definite source -/
def CachingInv (s : St ρ O) : Prop :=
  s.closed = false →
    s.definite = true ∧ (∃ n, s.count = some n) ∧ s.frameCount = s.cache.length ∧ 0 < s.cache.length ∧
    0 ≤ s.frameOffset ∧ s.loop ≠ 0

/-- what one pass through the loop body does to the request log and the cache -/
theorem body_stretch (R : Renderable ρ O) (s : St ρ O) (k : Nat) (hk : s.frameNo = (k : Int))
    (hlt : k < s.cache.length) :
    (Fresh s k ∧ (body R s).1.calls = s.calls ∧ (body R s).1.cache = s.cache) ∨
    (¬ Fresh s k ∧ (body R s).1.calls = reqOf s :: s.calls ∧
      ((body R s).1.closed = true ∨
        ∃ fr, (body R s).1.cache = s.cache.set k (some ⟨fr, s.size, s.dur, s.args⟩))) := by
  have hne : s.cache.isEmpty = false := by
    cases hc : s.cache with
    | nil => simp [hc] at hlt
    | cons a l => rfl
  obtain ⟨ent, hent⟩ : ∃ ent, s.cache[k]? = some ent := ⟨s.cache[k], by simp [hlt]⟩
  have miss : cacheLookup s = .ok none → ¬ Fresh s k →
      (¬ Fresh s k ∧ (body R s).1.calls = reqOf s :: s.calls ∧
        ((body R s).1.closed = true ∨
          ∃ fr, (body R s).1.cache = s.cache.set k (some ⟨fr, s.size, s.dur, s.args⟩))) := by
    intro hl hnf
    refine ⟨hnf, body_calls_miss R s hl, ?_⟩
    unfold body
    rw [hl]
    rcases hres : R.render s.rstate (reqOf s) with ⟨r', res⟩
    simp only [hres]
    cases res with
    | frame fr =>
      simp only [hne, Bool.false_eq_true, if_false, hk, pySet_nat, afterRender]
      split
      · left; rfl
      · right; exact ⟨fr, by simp [advance]; split <;> (try split) <;> rfl⟩
    | stop => left; simp only; split <;> rfl
    | fail => left; rfl
  cases ent with
  | none =>
    right
    refine miss (by simp [cacheLookup, hne, hk, pyGet_nat, hent]) ?_
    rintro ⟨e, he, _⟩; rw [hent] at he; simp at he
  | some e =>
    by_cases hm : (e.size, e.dur, e.args) = (s.size, s.dur, s.args)
    · left
      have hl : cacheLookup s = .ok (some e.frame) := by simp [cacheLookup, hne, hk, pyGet_nat, hent, hm]
      refine ⟨⟨e, hent, hm⟩, body_calls_hit R s e.frame hl, ?_⟩
      unfold body; rw [hl]; unfold afterRender
      cases presentWith s.padding s.paddedSize e.frame <;> grind [advance, shut]
    · right
      refine miss (by simp [cacheLookup, hne, hk, pyGet_nat, hent, hm]) ?_
      rintro ⟨e', he', hm'⟩
      rw [hent] at he'; simp at he'; subst he'; exact hm hm'

/-- the generator-side fields a pass through the body keeps -/
def Kept (s s' : St ρ O) : Prop :=
  s'.definite = s.definite ∧ s'.frameCount = s.frameCount ∧ s'.count = s.count ∧
  s'.cache.length = s.cache.length ∧ (s.definite = true → 0 ≤ s.frameOffset → 0 ≤ s'.frameOffset) ∧
  settingsOf s' = settingsOf s ∧ s'.loop = s.loop

theorem afterRender_kept (s : St ρ O) (fr : Frame O) : Kept s (afterRender s fr).1 := by
  unfold afterRender
  cases presentWith s.padding s.paddedSize fr <;> grind [Kept, settingsOf, advance, shut]

theorem body_kept (R : Renderable ρ O) (s : St ρ O) : Kept s (body R s).1 := by
  unfold body
  cases cacheLookup s with
  | error e => grind [Kept, settingsOf, shut]
  | ok o =>
    cases o with
    | some fr => exact afterRender_kept s fr
    | none =>
      rcases hres : R.render s.rstate (reqOf s) with ⟨r', res⟩
      simp only [hres]
      cases res with
      | frame fr =>
        simp only
        split
        · exact (by
            have := afterRender_kept
              ({ s with rstate := r', calls := (reqOf s :: s.calls) } : St ρ O) fr
            grind [Kept, settingsOf])
        · exact (by
            have := afterRender_kept
              ({ s with rstate := r', calls := (reqOf s :: s.calls),
                        cache := pySet s.cache s.frameNo (some ⟨fr, s.size, s.dur, s.args⟩) } : St ρ O) fr
            have hl : (pySet s.cache s.frameNo (some ⟨fr, s.size, s.dur, s.args⟩)).length = s.cache.length := by
              unfold pySet; split <;> simp
            grind [Kept, settingsOf])
      | stop => grind [Kept, settingsOf, shut]
      | fail => grind [Kept, settingsOf, shut]

/-- `next` on an open caching iterator: either it ends the iteration without rendering, or it is one
    pass through the loop body at a frame number inside the cache -/
theorem nextOp_stretch (R : Renderable ρ O) (s : St ρ O) (hJ : CachingInv s) (hopen : s.closed = false) :
    ((nextOp R s).1.closed = true ∧ (nextOp R s).1.calls = s.calls) ∨
    ∃ (s1 : St ρ O) (k : Nat), nextOp R s = body R s1 ∧ s1.cache = s.cache ∧ s1.calls = s.calls ∧
      settingsOf s1 = settingsOf s ∧ s1.frameNo = (k : Int) ∧ s1.frameOffset = (k : Int) ∧ k < s1.cache.length ∧
      s1.closed = false ∧ s1.definite = true ∧ s1.count = s.count ∧ s1.frameCount = s1.cache.length ∧ s1.loop ≠ 0 := by
  obtain ⟨hd, ⟨n, hn⟩, hfc, hlen, h0, hl⟩ := hJ hopen
  -- after a seek-aware resume, `frame_no = frame_offset`
  have key : ∀ s1 : St ρ O, s1.cache = s.cache → s1.calls = s.calls → settingsOf s1 = settingsOf s →
      s1.frameNo = s1.frameOffset → 0 ≤ s1.frameOffset → s1.closed = false → s1.definite = true →
      s1.count = s.count → s1.frameCount = s1.cache.length → s1.loop ≠ 0 →
      (((inner R s1).1.closed = true ∧ (inner R s1).1.calls = s.calls) ∨
       ∃ (s2 : St ρ O) (k : Nat), inner R s1 = body R s2 ∧ s2.cache = s.cache ∧ s2.calls = s.calls ∧
        settingsOf s2 = settingsOf s ∧ s2.frameNo = (k : Int) ∧ s2.frameOffset = (k : Int) ∧ k < s2.cache.length ∧
        s2.closed = false ∧ s2.definite = true ∧ s2.count = s.count ∧ s2.frameCount = s2.cache.length ∧ s2.loop ≠ 0) := by
    intro s1 e1 e2 e3 e4 e5 e6 e7 e8 e9 e10
    unfold inner
    by_cases hlt : s1.frameNo < (s1.frameCount : Int)
    · simp only [hlt, if_true]
      right
      obtain ⟨k, hk⟩ := Int.eq_ofNat_of_zero_le e5
      exact ⟨s1, k, rfl, e1, e2, e3, by omega, hk, by omega, e6, e7, e8, e9, e10⟩
    · simp only [hlt, if_false]
      by_cases hz : (wrap s1).loop = 0
      · simp only [hz, if_true]
        left; constructor
        · rfl
        · simp only [shut, wrap]; split <;> exact e2
      · simp only [hz, if_false]
        have hw : (wrap s1).frameNo = 0 ∧ (wrap s1).frameOffset = 0 ∧ (wrap s1).frameCount = s1.frameCount ∧
            (wrap s1).cache = s1.cache ∧ (wrap s1).calls = s1.calls ∧ settingsOf (wrap s1) = settingsOf s1 ∧
            (wrap s1).closed = s1.closed ∧ (wrap s1).definite = s1.definite ∧ (wrap s1).count = s1.count := by
          simp only [wrap, settingsOf]; split <;> simp
        obtain ⟨w1, w2, w3, w4, w5, w6, w7, w8, w9⟩ := hw
        have hlt2 : (wrap s1).frameNo < ((wrap s1).frameCount : Int) := by
          rw [w1, w3, e9, e1]; omega
        simp only [hlt2, if_true]
        right
        exact ⟨wrap s1, 0, rfl, by rw [w4, e1], by rw [w5, e2], by rw [w6, e3], by simpa using w1, by simpa using w2,
          by rw [w4, e1]; exact hlen, by rw [w7, e6], by rw [w8, e7], by rw [w9, e8], by rw [w3, w4, e9], hz⟩
  unfold nextOp
  simp only [hopen, Bool.false_eq_true, if_false]
  cases hph : s.phase with
  | dummy =>
    simp only [hd, if_true, Int.mul_one, hl, if_false]
    exact key _ rfl rfl rfl rfl h0 rfl rfl rfl hfc hl
  | running =>
    simp only [hd, if_true]
    exact key _ rfl rfl rfl rfl h0 rfl rfl rfl hfc hl

theorem cachingInv_step (R : Renderable ρ O) (s : St ρ O) (op : Op) (hJ : CachingInv s) :
    CachingInv (step R s op).1 := by
  by_cases hopen : s.closed = false
  · cases op with
    | next =>
      intro hopen'
      rcases nextOp_stretch R s hJ hopen with ⟨hc, _⟩ | ⟨s1, k, e, c1, c2, c3, c4, c5, c6, c7, c8, c9, c10, c11⟩
      · simp only [step] at hopen'; rw [hc] at hopen'; exact absurd hopen' (by simp)
      · obtain ⟨k1, k2, k3, k4, k5, k6, k7⟩ := body_kept R s1
        obtain ⟨hd, ⟨n, hn⟩, hfc, hlen, h0, hl⟩ := hJ hopen
        simp only [step, e]
        refine ⟨by rw [k1, c8], ⟨n, by rw [k3, c9, hn]⟩, by rw [k2, k4, c10], by rw [k4, c1]; exact hlen,
          k5 c8 (by rw [c5]; omega), by rw [k7]; exact c11⟩
    | seek o w => cases w <;> grind [CachingInv, step, seekOp]
    | setDuration d => cases d <;> grind [CachingInv, step, setDurationOp]
    | setPadding p =>
      have := hJ hopen
      simp only [step, setPaddingOp, CachingInv]; repeat' split
      all_goals simp_all
    | setArgs a => cases hc : convertArgs a <;> grind [CachingInv, step, setArgsOp]
    | setSize z =>
      have := hJ hopen
      simp only [step, setSizeOp, CachingInv]; repeat' split
      all_goals simp_all
    | close => grind [CachingInv, step, closeOp, shut]
    | pokeLoop v => exact hJ
    | rseek o w =>
      have := hJ hopen
      simp only [step, rseekOp, CachingInv]; cases rseekTarget s.count s.rFrame o w <;> simp_all
    | rnoise => exact hJ
    | termSize z => exact hJ
  · have hc : s.closed = true := by simpa using hopen
    intro h
    rw [closed_stays R s hc op] at h
    exact absurd h (by simp)

theorem cachingInv_run (R : Renderable ρ O) (ops : List Op) : ∀ (s : St ρ O), CachingInv s →
    CachingInv (run R s ops).1 := by
  induction ops with
  | nil => intro s h; exact h
  | cons op ops ih => intro s h; simp only [run]; exact ih _ (cachingInv_step R s op h)

theorem cachingInv_init (i : Init) (r0 : ρ) (s0 : St ρ O) (h0 : init i r0 = .ok s0)
    (hc : cachedDecision i.count i.cache = true) : CachingInv s0 := by
  obtain ⟨args, ps, hck, hps, hs⟩ := init_shape i r0 s0 h0
  have hl := initCheck_loops hck
  cases hcount : i.count with
  | none => simp [cachedDecision, hcount] at hc
  | some n =>
    have hn2 := initCheck_count hck n hcount
    rw [hcount] at hc
    subst hs
    intro _
    simp only [hcount, hc, if_true, List.length_replicate]
    simp
    omega

/-- operations that change what a cache entry is keyed on (`set_padding` is not one: padding is
    applied after the cache) -/
def NoSettingChange : Op → Prop
  | .setSize _ => False
  | .setDuration _ => False
  | .setArgs _ => False
  | _ => True

/-- an operation other than `next` that changes no setting leaves request log, cache and settings alone -/
theorem quiet_step (R : Renderable ρ O) (s : St ρ O) (op : Op) (hop : NoSettingChange op) (hne : op ≠ .next) :
    (step R s op).1.calls = s.calls ∧ (step R s op).1.cache = s.cache ∧
    settingsOf (step R s op).1 = settingsOf s := by
  cases op with
  | next => exact absurd rfl hne
  | setSize z => exact absurd hop (by simp [NoSettingChange])
  | setDuration d => exact absurd hop (by simp [NoSettingChange])
  | setArgs a => exact absurd hop (by simp [NoSettingChange])
  | seek o w => cases w <;> grind [step, seekOp, settingsOf]
  | setPadding p => simp only [step, setPaddingOp, settingsOf]; repeat' split
                    all_goals simp_all
  | close => grind [step, closeOp, shut, settingsOf]
  | pokeLoop v => exact ⟨rfl, rfl, rfl⟩
  | rseek o w => simp only [step, rseekOp]; cases rseekTarget s.count s.rFrame o w <;> exact ⟨rfl, rfl, rfl⟩
  | rnoise => exact ⟨rfl, rfl, rfl⟩
  | termSize z => exact ⟨rfl, rfl, rfl⟩

/-- what holds of the run since the stretch began at `s0`: `new` are the requests made since then -/
def StretchInv (s0 s : St ρ O) (new : List Req) : Prop :=
  s.calls = new ++ s0.calls ∧ (new.map (·.off)).Nodup ∧ settingsOf s = settingsOf s0 ∧
  (s.closed = false → ∀ q ∈ new, ∃ k : Nat, q.off = (k : Int) ∧ Fresh s k)

theorem stretch_step (R : Renderable ρ O) (s0 s : St ρ O) (new : List Req) (op : Op)
    (hJ : CachingInv s) (hI : StretchInv s0 s new) (hop : NoSettingChange op) :
    ∃ new', StretchInv s0 (step R s op).1 new' := by
  obtain ⟨i1, i2, i3, i4⟩ := hI
  by_cases hnext : op = .next
  · subst hnext
    by_cases hopen : s.closed = false
    · rcases nextOp_stretch R s hJ hopen with ⟨hc, hcalls⟩ | ⟨s1, k, e, c1, c2, c3, c4, c5, c6, c7, c8, c9, c10, c11⟩
      · -- the iteration ended
        refine ⟨new, by simp only [step]; rw [hcalls, i1], i2, ?_, ?_⟩
        · have := nextOp_static R s
          simp only [step, settingsOf]; rw [this.2.2.2.2.1, this.2.2.2.2.2.1, this.2.2.2.2.2.2.1]; exact i3
        · intro h; simp only [step] at h; rw [hc] at h; exact absurd h (by simp)
      · obtain ⟨k1, k2, k3, k4, k5, k6, k7⟩ := body_kept R s1
        have hfr : ∀ j, Fresh s1 j ↔ Fresh s j := by
          intro j; simp only [Fresh, c1, c3]
        simp only [step, e]
        rcases body_stretch R s1 k c4 c6 with ⟨hf, b1, b2⟩ | ⟨hnf, b1, b2⟩
        · -- a hit: nothing is requested
          refine ⟨new, by rw [b1, c2, i1], i2, by rw [k6, c3, i3], ?_⟩
          intro ho q hq
          obtain ⟨j, hj, hjf⟩ := i4 hopen q hq
          refine ⟨j, hj, ?_⟩
          obtain ⟨e', he', hm'⟩ := hjf
          exact ⟨e', by rw [b2, c1]; exact he', by rw [k6, c3]; exact hm'⟩
        · -- a miss: frame `k` is requested, and it was not requested before in this stretch
          have hoff : (reqOf s1).off = (k : Int) := c5
          refine ⟨reqOf s1 :: new, by rw [b1, c2, i1]; rfl, ?_, by rw [k6, c3, i3], ?_⟩
          · simp only [List.map_cons, List.nodup_cons]
            refine ⟨?_, i2⟩
            intro hmem
            obtain ⟨q, hq, hqo⟩ := List.mem_map.mp hmem
            obtain ⟨j, hj, hjf⟩ := i4 hopen q hq
            have : j = k := by rw [hoff] at hqo; omega
            subst this
            exact hnf ((hfr j).mpr hjf)
          · intro ho q hq
            rcases b2 with hcl | ⟨fr, hset⟩
            · rw [hcl] at ho; exact absurd ho (by simp)
            · have hfresh_k : Fresh (body R s1).1 k := by
                refine ⟨⟨fr, s1.size, s1.dur, s1.args⟩, ?_, by rw [k6]; rfl⟩
                rw [hset]; simp [List.getElem?_set, c6]
              rcases List.mem_cons.mp hq with rfl | hq'
              · exact ⟨k, hoff, hfresh_k⟩
              · obtain ⟨j, hj, hjf⟩ := i4 hopen q hq'
                refine ⟨j, hj, ?_⟩
                by_cases hjk : j = k
                · subst hjk; exact hfresh_k
                · obtain ⟨e', he', hm'⟩ := (hfr j).mpr hjf
                  refine ⟨e', ?_, by rw [k6]; exact hm'⟩
                  rw [hset, List.getElem?_set_ne (Ne.symm hjk)]; exact he'
    · -- finalized: `next` changes nothing
      have hc : s.closed = true := by simpa using hopen
      have e : step R s .next = (s, .err .StopIteration) := (closed_rejects R s hc).1
      rw [e]
      exact ⟨new, i1, i2, i3, i4⟩
  · obtain ⟨q1, q2, q3⟩ := quiet_step R s op hop hnext
    refine ⟨new, by rw [q1, i1], i2, by rw [q3, i3], ?_⟩
    intro ho q hq
    have hopen : s.closed = false := by
      cases hcl : s.closed with
      | false => rfl
      | true => rw [closed_stays R s hcl op] at ho; exact absurd ho (by simp)
    obtain ⟨j, hj, e', he', hm'⟩ := i4 hopen q hq
    exact ⟨j, hj, e', by rw [q2]; exact he', by rw [q3]; exact hm'⟩

theorem stretch_run (R : Renderable ρ O) (s0 : St ρ O) (ops : List Op) (hops : ∀ op ∈ ops, NoSettingChange op) :
    ∀ (s : St ρ O) (new : List Req), CachingInv s → StretchInv s0 s new →
      ∃ new', StretchInv s0 (run R s ops).1 new' := by
  induction ops with
  | nil => intro s new _ hI; exact ⟨new, hI⟩
  | cons op ops ih =>
    intro s new hJ hI
    obtain ⟨new1, h1⟩ := stretch_step R s0 s new op hJ hI (hops op (List.mem_cons_self ..))
    simp only [run]
    exact ih (fun o ho => hops o (List.mem_cons_of_mem _ ho)) _ new1 (cachingInv_step R s op hJ) h1

theorem run_append (R : Renderable ρ O) (a b : List Op) : ∀ (s : St ρ O),
    (run R s (a ++ b)).1 = (run R (run R s a).1 b).1 := by
  induction a with
  | nil => intro s; rfl
  | cons op a ih => intro s; simp only [List.cons_append, run]; exact ih _

end stretch

end TIV.C09
