import TIV.C08.Proofs
import TIV.C09.Model
/-! helper lemmas for C09: the simulation between the caching and the non-caching image iterator -/
namespace TIV.C09
open TIV.C08 (Size pyGet pySet)

section
variable {β κ : Type} [DecidableEq κ]

/-- every stored frame is the render of its index at the size whose key is stored with it -/
def CacheValid (render : Nat → Size → β) (key : Size → κ) (cache : List (Option (β × κ))) : Prop :=
  ∀ (j : Nat) (b : β) (k : κ), cache[j]? = some (some (b, k)) → ∃ sz, k = key sz ∧ b = render j sz

theorem CacheValid.set {render : Nat → Size → β} {key : Size → κ} {cache : List (Option (β × κ))}
    (h : CacheValid render key cache) (j : Nat) (sz : Size) :
    CacheValid render key (cache.set j (some (render j sz, key sz))) := by
  intro i b k hi
  by_cases hij : j = i
  · subst hij
    rw [List.getElem?_set] at hi
    simp at hi
    obtain ⟨_, rfl, rfl⟩ := hi
    exact ⟨sz, rfl, rfl⟩
  · rw [List.getElem?_set_ne hij] at hi
    exact h i b k hi

theorem cacheValid_replicate (render : Nat → Size → β) (key : Size → κ) (n : Nat) :
    CacheValid render key (List.replicate n none) := by
  intro j b k hj
  rw [List.getElem?_replicate] at hj
  split at hj <;> simp at hj

/-- the relation between the caching machine `c` and the non-caching machine `u` -/
def IRel (render : Nat → Size → β) (key : Size → κ) (c u : ISt β κ) : Prop :=
  c.nFrames = u.nFrames ∧ 1 ≤ u.nFrames ∧ c.cached = true ∧ u.cached = false ∧ c.rep = u.rep ∧
  c.loopNo = u.loopNo ∧ c.n = u.n ∧ c.size = u.size ∧ c.seekPos = u.seekPos ∧
  ((c.phase = .fresh ∧ u.phase = .fresh) ∨ (c.phase = .done ∧ u.phase = .done) ∨
   ((c.phase = .one ∨ c.phase = .two) ∧ u.phase = .one ∧ c.rep ≠ 0 ∧ -1 ≤ c.n ∧ c.n < c.nFrames ∧
     c.cache.length = c.nFrames ∧ CacheValid render key c.cache))

def ISim (render : Nat → Size → β) (key : Size → κ) (p q : ISt β κ × IResp β) : Prop :=
  IRel render key p.1 q.1 ∧ p.2 = q.2

/-- what both machines agree on while a frame is being produced -/
def Agree (render : Nat → Size → β) (key : Size → κ) (c u : ISt β κ) (m : Nat) : Prop :=
  c.n = (m : Int) ∧ m < c.nFrames ∧
  c.nFrames = u.nFrames ∧ 1 ≤ u.nFrames ∧ c.cached = true ∧ u.cached = false ∧ c.rep = u.rep ∧
  c.loopNo = u.loopNo ∧ c.n = u.n ∧ c.size = u.size ∧ c.rep ≠ 0 ∧ c.cache.length = c.nFrames ∧
  CacheValid render key c.cache

theorem serveTwo_sim (render : Nat → Size → β) (key : Size → κ) (hk : Function.Injective key)
    (c u : ISt β κ) (m : Nat) (h0 : Agree render key c u m) (hsp : u.seekPos = u.n) :
    ISim render key (serveTwo render key c) (renderOne render key u) := by
  obtain ⟨hn, hm, h1, h2, h3, h4, h5, h6, h7, h8, h9, h10, h11⟩ := h0
  have hget : pyGet c.cache c.n = c.cache[m]? := by rw [hn]; exact TIV.C08.pyGet_nat _ _
  have hset : ∀ v, pySet c.cache c.n v = c.cache.set m v := by intro v; rw [hn]; exact TIV.C08.pySet_nat _ _ _
  have hun : u.n.toNat = m := by rw [← h7, hn]; simp
  have hcn : c.n.toNat = m := by rw [hn]; simp
  have hv := h11.set m c.size
  unfold serveTwo renderOne
  simp only [hget, hset, h4, hun, hcn]
  cases hent : c.cache[m]? with
  | none => grind (splits := 40) [ISim, IRel, List.length_set]
  | some ent =>
    cases ent with
    | none => grind (splits := 40) [ISim, IRel, List.length_set]
    | some bk =>
      obtain ⟨b, k⟩ := bk
      simp only
      by_cases hkk : key c.size = k
      · obtain ⟨sz, e1, e2⟩ := h11 m b k hent
        have : sz = c.size := hk (by rw [← e1, hkk])
        subst this
        grind (splits := 40) [ISim, IRel, List.length_set]
      · grind (splits := 40) [ISim, IRel, List.length_set]

theorem renderOne_sim (render : Nat → Size → β) (key : Size → κ)
    (c u : ISt β κ) (m : Nat) (h0 : Agree render key c u m) (hsp : c.seekPos = u.seekPos) :
    ISim render key (renderOne render key c) (renderOne render key u) := by
  obtain ⟨hn, hm, h1, h2, h3, h4, h5, h6, h7, h8, h9, h10, h11⟩ := h0
  have hset : ∀ v, pySet c.cache c.n v = c.cache.set m v := by intro v; rw [hn]; exact TIV.C08.pySet_nat _ _ _
  have hun : u.n.toNat = m := by rw [← h7, hn]; simp
  have hcn : c.n.toNat = m := by rw [hn]; simp
  have hv := h11.set m c.size
  unfold renderOne
  simp only [hset, h3, h4, hun, hcn]
  grind (splits := 40) [ISim, IRel, List.length_set]

theorem inext_sim (render : Nat → Size → β) (key : Size → κ) (hk : Function.Injective key)
    (c u : ISt β κ) (h : IRel render key c u) :
    ISim render key (inextOp render key c) (inextOp render key u) := by
  obtain ⟨h1, h2, h3, h4, h5, h6, h7, h8, h9, hph⟩ := h
  rcases hph with ⟨pc, pu⟩ | ⟨pc, pu⟩ | ⟨pc, pu, r0, nlo, nhi, clen, cval⟩
  · -- first `next`: the generator starts
    simp only [inextOp, pc, pu, loopOne]
    by_cases hr : c.rep = 0
    · have hr' : u.rep = 0 := by omega
      simp only [hr, hr', if_true, finish]
      grind [ISim, IRel]
    · have hr' : ¬ u.rep = 0 := by omega
      have hN : (0 : Int) < (c.nFrames : Int) := by omega
      have hN' : (0 : Int) < (u.nFrames : Int) := by omega
      simp only [hr, hr', if_false, hN, hN', if_true, h3, h4]
      refine renderOne_sim render key _ _ 0 ?_ rfl
      have := cacheValid_replicate render key c.nFrames
      simp only [Agree, if_true, List.length_replicate]
      simp [h1, h2, h5, h8, hr', this]
      exact ⟨by omega, h1 ▸ this⟩
  · simp only [inextOp, pc, pu]
    grind [ISim, IRel]
  · -- both suspended at a `yield`
    have hN : c.cache.length = u.nFrames := by omega
    have hr' : ¬ u.rep = 0 := by omega
    obtain ⟨m, hm⟩ : ∃ m : Nat, c.n + 1 = (m : Int) := ⟨(c.n + 1).toNat, by omega⟩
    have hmu : u.n + 1 = (m : Int) := by omega
    by_cases hlt : m < u.nFrames
    · -- the next frame exists
      have e1 : (c.n + 1 < (c.cache.length : Int)) := by omega
      have e2 : (u.n + 1 < (u.nFrames : Int)) := by omega
      have e3 : (c.n + 1 < (c.nFrames : Int)) := by omega
      have hag : Agree render key { c with n := c.n + 1 } { u with n := u.n + 1 } m := by
        simp only [Agree]
        exact ⟨hm, by omega, h1, h2, h3, h4, h5, h6, by omega, h8, r0, clen, cval⟩
      rcases pc with pc | pc
      · simp only [inextOp, pc, pu, loopOne, r0, hr', if_false, e2, e3, if_true]
        refine renderOne_sim render key _ _ m ?_ (by simp; omega)
        simpa [Agree] using hag
      · simp only [inextOp, pc, pu, loopOne, loopTwo, hr', if_false, e1, e2, if_true]
        refine serveTwo_sim render key hk _ _ m ?_ rfl
        simpa [Agree] using hag
    · -- end of a loop
      have e1 : ¬ (c.n + 1 < (c.cache.length : Int)) := by omega
      have e2 : ¬ (u.n + 1 < (u.nFrames : Int)) := by omega
      have e3 : ¬ (c.n + 1 < (c.nFrames : Int)) := by omega
      have hN0 : (0 : Int) < (u.nFrames : Int) := by omega
      have hN1 : (0 : Int) < (c.cache.length : Int) := by omega
      by_cases hone : c.rep = 1
      · -- that was the last loop
        have hone' : u.rep = 1 := by omega
        rcases pc with pc | pc
        · simp [inextOp, pc, pu, loopOne, r0, hr', e2, e3, rewind, hone, hone', h3, h4, finish]
          grind [ISim, IRel]
        · simp [inextOp, pc, pu, loopOne, loopTwo, hr', e1, e2, rewind, hone, hone', h4, finish]
          grind [ISim, IRel]
      · have hag : ∀ (c' u' : ISt β κ), c'.n = 0 → u'.n = 0 → c'.nFrames = c.nFrames → u'.nFrames = u.nFrames →
            c'.cached = true → u'.cached = false → c'.rep = u'.rep → c'.rep ≠ 0 → c'.loopNo = u'.loopNo →
            c'.size = c.size → u'.size = u.size → c'.cache = c.cache → Agree render key c' u' 0 := by
          intro c' u' a1 a2 a3 a4 a5 a6 a7 a8 a9 a10 a11 a12
          simp only [Agree, a12]
          exact ⟨by simpa using a1, by omega, by omega, by omega, a5, a6, a7, a9, by omega, by rw [a10, a11, h8], a8,
            by omega, cval⟩
        rcases pc with pc | pc
        · simp only [inextOp, pc, pu, loopOne, r0, hr', if_false, e2, e3, h3, h4, if_true, Bool.false_eq_true]
          by_cases hpos : c.rep > 0
          · have hpos' : u.rep > 0 := by omega
            have z1 : ¬ c.rep - 1 = 0 := by omega
            have z2 : ¬ u.rep - 1 = 0 := by omega
            simp only [rewind, hpos, hpos', if_true, z1, z2, if_false, hN0, hN1]
            refine serveTwo_sim render key hk _ _ 0 (hag _ _ rfl rfl rfl rfl (by first | rfl | exact h3) (by first | rfl | exact h4) (by simp; omega) z1 (by simp; omega) rfl rfl rfl) rfl
          · have hpos' : ¬ u.rep > 0 := by omega
            simp only [rewind, hpos, hpos', if_false, r0, hr', hN0, hN1, if_true]
            refine serveTwo_sim render key hk _ _ 0 (hag _ _ rfl rfl rfl rfl (by first | rfl | exact h3) (by first | rfl | exact h4) h5 r0 h6 rfl rfl rfl) rfl
        · simp only [inextOp, pc, pu, loopOne, loopTwo, hr', if_false, e1, e2, h4, Bool.false_eq_true]
          by_cases hpos : c.rep > 0
          · have hpos' : u.rep > 0 := by omega
            have z1 : ¬ c.rep - 1 = 0 := by omega
            have z2 : ¬ u.rep - 1 = 0 := by omega
            simp only [rewind, hpos, hpos', if_true, z1, z2, if_false, hN0, hN1]
            refine serveTwo_sim render key hk _ _ 0 (hag _ _ rfl rfl rfl rfl (by first | rfl | exact h3) (by first | rfl | exact h4) (by simp; omega) z1 (by simp; omega) rfl rfl rfl) rfl
          · have hpos' : ¬ u.rep > 0 := by omega
            simp only [rewind, hpos, hpos', if_false, r0, hr', hN0, hN1, if_true]
            refine serveTwo_sim render key hk _ _ 0 (hag _ _ rfl rfl rfl rfl (by first | rfl | exact h3) (by first | rfl | exact h4) h5 r0 h6 rfl rfl rfl) rfl

theorem istep_sim (render : Nat → Size → β) (key : Size → κ) (hk : Function.Injective key)
    (c u : ISt β κ) (h : IRel render key c u) (op : IOp) :
    ISim render key (istep render key c op) (istep render key u op) := by
  cases op with
  | next => exact inext_sim render key hk c u h
  | seek pos =>
    obtain ⟨h1, h2, h3, h4, h5, h6, h7, h8, h9, hph⟩ := h
    simp only [istep, iseekOp, h1]
    by_cases hr : 0 ≤ pos ∧ pos < (u.nFrames : Int)
    · simp only [hr, not_true_eq_false, if_false]
      rcases hph with ⟨pc, pu⟩ | ⟨pc, pu⟩ | ⟨pc, pu, r0, nlo, nhi, clen, cval⟩
      · simp only [pc, pu]; grind [ISim, IRel]
      · simp only [pc, pu]; grind [ISim, IRel]
      · have hr' : ¬ u.rep = 0 := by omega
        rcases pc with pc | pc <;> simp only [pc, pu, r0, hr', if_false] <;>
          grind (splits := 40) [ISim, IRel]
    · simp only [hr, not_false_eq_true, if_true]
      grind [ISim, IRel]
  | setSize sz => simp only [istep]; grind (splits := 40) [ISim, IRel]
  | close => simp only [istep]; grind (splits := 40) [ISim, IRel]

theorem iobserve_sim (render : Nat → Size → β) (key : Size → κ) (p q : ISt β κ × IResp β)
    (h : ISim render key p q) : iobserve p = iobserve q := by
  obtain ⟨h1, h2⟩ := h
  have : p.1.loopNo = q.1.loopNo ∧ p.1.seekPos = q.1.seekPos := by grind [IRel]
  simp only [iobserve, h2, this.1, this.2]

theorem irun_sim (render : Nat → Size → β) (key : Size → κ) (hk : Function.Injective key) (ops : List IOp) :
    ∀ (c u : ISt β κ), IRel render key c u →
      (irun render key c ops).2 = (irun render key u ops).2 := by
  induction ops with
  | nil => intro c u _; rfl
  | cons op ops ih =>
    intro c u h
    have hs := istep_sim render key hk c u h op
    have ho := iobserve_sim render key _ _ hs
    simp only [irun]
    rw [ho, ih _ _ hs.1]

end
end TIV.C09
