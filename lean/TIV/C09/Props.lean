import TIV.C08.Props
import TIV.C09.Proofs
import TIV.C09.Generated
/-!
# C09 — property theorems: frame caching is invisible except for speed

Render iterator: the C08 model (`TIV.C08.St`, `step`, …) with `cached` on or off.
Image iterator: `TIV.C09.ISt`, `istep`.
-/
namespace TIV.C09
open TIV.C08

/-- the constants the statements below are about: `RenderIterator(cache=100)`,
    `ImageIterator(repeat=-1, cached=100)`, and `iter(renderable)` does not cache -/
theorem generated_constants :
    Generated.iterDefaultCache = 100 ∧ Generated.iterDefaultLoops = 1 ∧
    Generated.imageIterDefaultRepeat = -1 ∧ Generated.imageIterDefaultCached = 100 ∧
    Generated.renderableIterCache = false ∧
    (∀ n : Nat, cachedDecision (some n) (.limit Generated.iterDefaultCache) = decide ((n : Int) ≤ 100)) := by
  refine ⟨rfl, rfl, rfl, rfl, rfl, fun n => rfl⟩

/-- a `cache` argument the constructor accepts -/
def ValidCache : CacheArg → Prop
  | .flag _ => True
  | .limit c => 0 < c

theorem validCache_check (c : CacheArg) (h : ValidCache c) : c.rejected = false := by
  cases c with
  | flag v => rfl
  | limit c => simp only [ValidCache] at h; simp [CacheArg.rejected]; omega

section render_iterator
variable {ρ O : Type}

/-- CACHE EQUIVALENCE (render iterator). For a renderable that is a function of the request, any
    two accepted `cache` arguments — `True`, `False`, a limit below, at or above the frame
    count — give the same observations under every history: frames (number, duration, size,
    padding, output), errors, `loop`, `tell()`; construction errors included. -/
theorem cache_equiv (R : Renderable ρ O) (f : Req → RRes O) (hp : IsPure R f) (i : Init) (r0 : ρ)
    (cacheB : CacheArg) (hA : ValidCache i.cache) (hB : ValidCache cacheB) (ops : List Op) :
    (init (O := O) i r0).map (fun s => outputs R s ops) =
      (init (O := O) { i with cache := cacheB } r0).map (fun s => outputs R s ops) := by
  rw [refines R f i r0 (fun _ => hp) ops, refines R f { i with cache := cacheB } r0 (fun _ => hp) ops]
  have : Spec.init (ρ := ρ) { i with cache := cacheB } r0 = Spec.init i r0 := by
    have hc : initCheck { i with cache := cacheB } = initCheck i := by
      unfold initCheck
      have a := validCache_check i.cache hA
      have b := validCache_check cacheB hB
      simp only [a, b]
    unfold Spec.init
    rw [hc]
  rw [this]

/-- NO RE-RENDER. If the cache holds, for the frame about to be produced, an entry whose
    (size, duration, render args) equal the current settings, producing that frame does not call
    the renderable: the call log and the renderable's state are untouched and the frame yielded is
    the cached one (padded as usual). -/
theorem no_rerender (R : Renderable ρ O) (s : St ρ O) (k : Nat) (e : CacheEntry O)
    (hk : s.frameNo = (k : Int)) (he : s.cache[k]? = some (some e))
    (hm : (e.size, e.dur, e.args) = (s.size, s.dur, s.args)) :
    body R s = afterRender s e.frame ∧ (body R s).1.calls = s.calls ∧ (body R s).1.rstate = s.rstate := by
  have hne : s.cache.isEmpty = false := by
    cases hc : s.cache with
    | nil => simp [hc] at he
    | cons a l => rfl
  have hl : cacheLookup s = .ok (some e.frame) := by
    simp [cacheLookup, hne, hk, pyGet_nat, he, hm]
  have hb : body R s = afterRender s e.frame := by unfold body; rw [hl]
  refine ⟨hb, body_calls_hit R s e.frame hl, ?_⟩
  rw [hb]; unfold afterRender
  cases presentWith s.padding s.paddedSize e.frame <;> grind [advance, shut]

/-- …and a miss that brings back a frame stores it under the current settings, so the next visit
    of that frame with unchanged settings is a hit (`no_rerender`): within any stretch of history
    without a settings change a frame is rendered at most once. -/
theorem cache_fill (R : Renderable ρ O) (s : St ρ O) (k : Nat) (hk : s.frameNo = (k : Int))
    (hne : s.cache.isEmpty = false) (hmiss : cacheLookup s = .ok none) (r' : ρ) (fr : Frame O)
    (hr : R.render s.rstate (reqOf s) = (r', .frame fr)) :
    (body R s).1.cache = s.cache.set k (some ⟨fr, s.size, s.dur, s.args⟩) := by
  unfold body
  rw [hmiss]
  simp only [hr, hne, Bool.false_eq_true, if_false, hk, pySet_nat]
  unfold afterRender
  split <;> grind [advance, shut]

/-- only `next` ever writes the cache -/
theorem cache_only_next (R : Renderable ρ O) (s : St ρ O) (op : Op) (hop : op ≠ .next) :
    (step R s op).1.cache = s.cache := by
  cases op with
  | next => exact absurd rfl hop
  | seek o w => cases w <;> grind [step, seekOp]
  | setDuration d => cases d <;> grind [step, setDurationOp]
  | setPadding p => simp only [step, setPaddingOp]; repeat' split
                    all_goals simp_all
  | setArgs a => cases hc : convertArgs a <;> grind [step, setArgsOp]
  | setSize z => simp only [step, setSizeOp]; repeat' split
                 all_goals simp_all
  | close => grind [step, closeOp, shut]
  | pokeLoop v => rfl
  | rseek o w => simp only [step, rseekOp]; cases rseekTarget s.count s.rFrame o w <;> rfl
  | rnoise => rfl
  | termSize z => rfl

/-- NO RE-RENDER OVER A HISTORY. For every renderable (pure or not), every construction whose
    `_cached` decision is on (by `cached_decision`: definite frame count ∧ (`cache is True` ∨
    `frame_count ≤ cache`) — INDEFINITE sources and cache-off are thereby excluded, and
    `uncached_rerenders_counterexample` shows the hypothesis is needed), every history `pre` and every
    stretch of further operations containing no `set_render_size` / `set_frame_duration` /
    `set_render_args` (`set_padding`, seeks, `close`, `loop =`, `Renderable.seek`, changes of the
    renderable's own size/duration and terminal resizes are all allowed): the requests handed to
    `_render_` during the stretch (`new`, the part of the request log added by it) contain each
    frame number at most once. -/
theorem render_calls_in_stretch (R : Renderable ρ O) (i : Init) (r0 : ρ) (s0 : St ρ O)
    (h0 : init i r0 = .ok s0) (hc : cachedDecision i.count i.cache = true)
    (pre stretch : List Op) (hs : ∀ op ∈ stretch, NoSettingChange op) :
    ∃ new : List Req,
      (run R s0 (pre ++ stretch)).1.calls = new ++ (run R s0 pre).1.calls ∧
      ∀ k : Int, (new.map (·.off)).count k ≤ 1 := by
  have hJ := cachingInv_run R pre s0 (cachingInv_init i r0 s0 h0 hc)
  have hI : StretchInv (run R s0 pre).1 (run R s0 pre).1 [] :=
    ⟨rfl, List.nodup_nil, rfl, fun _ q hq => absurd hq (by simp)⟩
  obtain ⟨new, h1, h2, _, _⟩ := stretch_run R (run R s0 pre).1 stretch hs _ [] hJ hI
  refine ⟨new, by rw [run_append]; exact h1, ?_⟩
  exact List.nodup_iff_count.mp h2

/-- the same from any state satisfying the structural invariant of an open caching iterator -/
theorem render_calls_in_stretch_from (R : Renderable ρ O) (s : St ρ O) (hJ : CachingInv s)
    (stretch : List Op) (hs : ∀ op ∈ stretch, NoSettingChange op) :
    ∃ new : List Req, (run R s stretch).1.calls = new ++ s.calls ∧ (new.map (·.off)).Nodup := by
  have hI : StretchInv s s [] := ⟨rfl, List.nodup_nil, rfl, fun _ q hq => absurd hq (by simp)⟩
  obtain ⟨new, h1, h2, _, _⟩ := stretch_run R s stretch hs s [] hJ hI
  exact ⟨new, h1, h2⟩

/-- CACHED DECISION. `_cached` ⇔ the source is definite and (`cache is True` or
    `frame_count <= cache`); it is what a constructed iterator carries. -/
theorem cached_decision (count : Option Nat) (cache : CacheArg) :
    cachedDecision count cache = true ↔
      ∃ n, count = some n ∧ (cache = .flag true ∨ ∃ c, cache = .limit c ∧ (n : Int) ≤ c) := by
  cases count with
  | none => simp [cachedDecision]
  | some n => cases cache with
    | flag v => cases v <;> simp [cachedDecision]
    | limit c => simp [cachedDecision]

/-- CACHED DECISION over the declared count: the decision is taken on the count the `frame_count`
    property *resolves* — a POSTPONED count that resolves to INDEFINITE never caches (whatever `cache`
    is), one that resolves to `n` caches exactly like a renderable declared with `n`. -/
theorem cached_decision_declared (d : Declared) (cache : CacheArg) :
    (cachedDecision d.resolve cache = true ↔
      ∃ n, d.resolve = some n ∧ (cache = .flag true ∨ ∃ c, cache = .limit c ∧ (n : Int) ≤ c)) ∧
    cachedDecision (Declared.postponed none).resolve cache = false ∧
    (∀ n, cachedDecision (Declared.postponed (some n)).resolve cache =
      cachedDecision (Declared.definite n).resolve cache) :=
  ⟨cached_decision d.resolve cache, rfl, fun _ => rfl⟩

/-- …and that is the decision a constructed iterator carries -/
theorem cached_decision_initD (d : Declared) (i : Init) (r0 : ρ) (s : St ρ O) (h : initD d i r0 = .ok s) :
    s.cached = cachedDecision d.resolve i.cache := (initD_resolved d i r0 s h).2

theorem cached_decision_init (i : Init) (r0 : ρ) (s : St ρ O) (h : init i r0 = .ok s) :
    s.cached = cachedDecision i.count i.cache := by
  obtain ⟨_, _, _, _, hs⟩ := init_shape i r0 s h
  rw [hs]

/-- `draw()` → `_animate_` forces caching off for `loops == 1` and forwards `cache` otherwise -/
theorem draw_cache (count : Option Nat) (loops : Int) (cache : CacheArg) :
    (loops = 1 → cachedDecision count (drawCache loops cache) = false) ∧
    (loops ≠ 1 → drawCache loops cache = cache) := by
  constructor
  · intro h; cases count <;> simp [drawCache, h, cachedDecision]
  · intro h; simp [drawCache, h]

/-- DRAW NEVER RE-RENDERS. Through the public drawing path (`draw()` → `_animate_`, which builds
    its iterator with `False if loops == 1 else cache`): for every renderable, every loop count
    other than 1 — **negative = infinite included** — and every `cache` value that enables caching
    for the source (`True`, or an integer ≥ the definite frame count), whatever `_animate_` (or
    anything else that changes no size/duration/args: `history m` for every `m` in particular) does
    with the iterator, no frame number is handed to `_render_` twice. -/
theorem draw_no_rerender (R : Renderable ρ O) (i : Init) (r0 : ρ) (s0 : St ρ O) (n : Nat)
    (hn : i.count = some n) (hl : i.loops ≠ 1)
    (hen : i.cache = .flag true ∨ ∃ c, i.cache = .limit c ∧ (n : Int) ≤ c)
    (h0 : init (Draw.initOf i) r0 = .ok s0) (ops : List Op) (hs : ∀ op ∈ ops, NoSettingChange op) :
    ∀ k : Int, Draw.renderCount (run R s0 ops).1 k ≤ 1 := by
  have hdc : drawCache i.loops i.cache = i.cache := (draw_cache i.count i.loops i.cache).2 hl
  have hc : cachedDecision (Draw.initOf i).count (Draw.initOf i).cache = true := by
    simp only [Draw.initOf, hdc]
    exact (cached_decision i.count i.cache).mpr ⟨n, hn, hen⟩
  obtain ⟨new, h1, h2⟩ := render_calls_in_stretch R (Draw.initOf i) r0 s0 h0 hc [] ops hs
  obtain ⟨_, _, _, _, hs0⟩ := init_shape (Draw.initOf i) r0 s0 h0
  have hcalls : s0.calls = [] := by rw [hs0]
  intro k
  have : (run R s0 ops).1.calls = new := by
    have := h1; simp only [List.nil_append, run, hcalls, List.append_nil] at this; exact this
  simp only [Draw.renderCount, this]
  exact h2 k

/-- the history `_animate_` itself produces changes no setting -/
theorem draw_history_quiet (m : Nat) : ∀ op ∈ Draw.history m, NoSettingChange op := by
  intro op hop
  simp only [Draw.history, List.mem_cons, List.mem_replicate] at hop
  rcases hop with rfl | rfl | ⟨_, rfl⟩ <;> simp [NoSettingChange]

/-- A setter called with a value EQUAL to the current one changes nothing at all — the state (cache,
    request log, settings) is the same state, so such calls neither start a new stretch nor cost a
    render: `render_calls_in_stretch` applies across them (drop them from the history). -/
theorem set_equal_unchanged (R : Renderable ρ O) (s : St ρ O) :
    (∀ d, d = s.dur → (step R s (.setDuration d)).2 = .ok → (step R s (.setDuration d)).1 = s) ∧
    (∀ a, convertArgs a = .ok s.args → (step R s (.setArgs a)).2 = .ok → (step R s (.setArgs a)).1 = s) ∧
    (∀ z, z = s.size → s.padding.paddedSize s.size = .ok s.paddedSize →
      (step R s (.setSize z)).2 = .ok → (step R s (.setSize z)).1 = s) := by
  refine ⟨?_, ?_, ?_⟩
  · intro d hd h
    subst hd
    cases s with
    | mk count rFrame term rstate closed pubLoop cached padding paddedSize args size dur frameOffset whence frameCount definite loop frameNo cache phase calls =>
      simp only [step, setDurationOp] at h ⊢
      cases closed <;> cases dur <;> simp_all
      split <;> simp_all
  · intro a ha h
    simp only [step, setArgsOp, ha] at h ⊢
    split <;> rfl
  · intro z hz hp h
    subst hz
    simp only [step, setSizeOp, hp] at h ⊢
    split <;> rfl
end render_iterator

section image_iterator
variable {β κ : Type} [DecidableEq κ]

/-- CACHE EQUIVALENCE (image iterator). With `hash` injective on render sizes, any two accepted
    `cached` arguments give the same observations — frames, errors, `loop_no`, `image.tell()` —
    under every history of `next | seek | set image size | close`. -/
theorem iiter_cache_equiv (render : Nat → Size → β) (key : Size → κ) (hk : Function.Injective key)
    (i : IInit) (cacheB : CacheArg) (hA : ValidCache i.cache) (hB : ValidCache cacheB) (ops : List IOp) :
    (iinit (β := β) (κ := κ) i).map (fun s => ioutputs render key s ops) =
      (iinit (β := β) (κ := κ) { i with cache := cacheB }).map (fun s => ioutputs render key s ops) := by
  have a := validCache_check i.cache hA
  have b := validCache_check cacheB hB
  unfold iinit
  simp only [a, b]
  by_cases h1 : i.nFrames < 2
  · simp [h1]
  · by_cases h2 : i.rep = 0
    · simp [h1, h2]
    · simp only [h1, h2, if_false, Bool.false_eq_true, Except.map]
      congr 1
      simp only [ioutputs]
      -- four combinations of the two decisions
      cases hdA : icachedDecision i.nFrames i.rep i.cache <;>
        cases hdB : icachedDecision i.nFrames i.rep cacheB
      · rfl
      · symm
        apply irun_sim render key hk ops
        simp [IRel]; omega
      · apply irun_sim render key hk ops
        simp [IRel]; omega
      · rfl

/-- `ImageIterator._cached`: off for `repeat == 1`, else `cached is True` or `n_frames <= cached` -/
theorem icached_decision (n : Nat) (rep : Int) (cache : CacheArg) :
    icachedDecision n rep cache = true ↔
      rep ≠ 1 ∧ (cache = .flag true ∨ ∃ c, cache = .limit c ∧ (n : Int) ≤ c) := by
  cases cache with
  | flag v => cases v <;> simp [icachedDecision]
  | limit c => simp [icachedDecision]

end image_iterator

/-- with caching off the statement of `render_calls_in_stretch` fails: two loops over two frames
    request frame 0 twice (so `cachedDecision … = true` is a needed hypothesis) -/
theorem uncached_rerenders_counterexample :
    ∃ s0 : St Nat TOut,
      init ⟨some 2, 2, .flag false, .exact 0 0 0 0 0, none, ⟨1, 1⟩, .ms 7, 0, ⟨20, 6⟩⟩ 0 = .ok s0 ∧
      ((run (testR ⟨some 2, 0, none, none⟩) s0 [.next, .next, .next]).1.calls.map (·.off)).count 0 = 2 :=
  ⟨_, rfl, by decide⟩

/-! non-vacuity -/

/-- `draw_no_rerender` for the default of `draw()`: infinite looping, `cache=100`, 3 frames, 7 further
    frames drawn (more than two loops) — every frame requested exactly once -/
example : ∃ s0 : St Nat TOut,
    init (Draw.initOf ⟨some 3, -1, .limit 100, .exact 0 0 0 0 0, none, ⟨2, 1⟩, .ms 7, 0, ⟨80, 30⟩⟩) 0 = .ok s0 ∧
    (List.range 3).map (fun (k : Nat) => Draw.renderCount (run (testR ⟨some 3, 0, none, none⟩) s0 (Draw.history 7)).1 (Int.ofNat k))
      = [1, 1, 1] :=
  ⟨_, rfl, by decide⟩


/-- `render_calls_in_stretch` is about runs that do render: cached, two loops over three frames,
    `next` six times with a `set_padding` and a seek in between — six frames served, three requests -/
example : ∃ s0 : St Nat TOut,
    init ⟨some 3, 2, .flag true, .exact 0 0 0 0 0, none, ⟨1, 1⟩, .ms 7, 0, ⟨20, 6⟩⟩ 0 = .ok s0 ∧
    cachedDecision (some 3) (.flag true) = true ∧
    (∀ op ∈ [Op.next, .next, .setPadding (.exact 1 0 0 0 0), .next, .next, .seek 0 .start, .next, .next],
      NoSettingChange op) ∧
    (run (testR ⟨some 3, 0, none, none⟩) s0
      [.next, .next, .setPadding (.exact 1 0 0 0 0), .next, .next, .seek 0 .start, .next, .next]).1.calls.map (·.off)
      = [2, 1, 0] :=
  ⟨_, rfl, rfl, by simp [NoSettingChange], by decide⟩

example : ValidCache (.limit 3) ∧ ValidCache (.flag false) := ⟨by simp [ValidCache], trivial⟩
example : Function.Injective iKeyDemo := fun a b h => by cases a; cases b; simp_all [iKeyDemo]
example : ∃ s : ISt (Nat × Nat) (Nat × Nat), iinit ⟨3, 2, .flag true, ⟨3, 0⟩, 0⟩ = .ok s ∧ s.cached = true :=
  ⟨_, rfl, rfl⟩
example : IsPure (testR ⟨some 3, 0, none, none⟩)
    (fun q => .frame ⟨q.off, tDuration q.dur q.off, q.size, ⟨0, q⟩⟩) := by
  intro r q; simp [testR]

end TIV.C09
