import TIV.C08.Model
/-!
# C09 — model of `term_image.image.ImageIterator._animate` (src/term_image/image/common.py)

The two-phase generator unrolled into a state machine.  Phase one renders every frame (and, with
caching on, stores it with `hash(image.rendered_size)`); it is left only at the first EOFError
when caching is on.  Phase two serves frames from the cache, re-rendering when the size key
differs.  `seek(pos)` is `generator.send(pos)`: it sets `n = pos - 1` and stays at the same `yield`.

Parameters: `render : Nat → Size → β` (the formatted render of frame `n` at the image's current
rendered size; Pillow raises EOFError for `n ≥ nFrames`), `key : Size → κ` (`hash`).

The RenderIterator half of C09 uses the C08 model unchanged.
-/
namespace TIV.C09
open TIV.C08 (Size)

inductive IErr | StopIteration | ValueError | TermImageError | Diverges
  deriving DecidableEq, Repr

inductive IPhase | fresh | one | two | done
  deriving DecidableEq, Repr

inductive IOp
  | next
  | seek (pos : Int)
  | setSize (sz : Size)    -- `image.set_size(...)` / `image.size = ...` between two iterations
  | close
  deriving Repr

inductive IResp (β : Type) | frame (b : β) | ok | err (e : IErr)

structure IObs (β : Type) where
  resp : IResp β
  loopNo : Option Int     -- `iterator.loop_no`
  seekPos : Int           -- `image.tell()` (`image._seek_position`)

structure ISt (β κ : Type) where
  nFrames : Nat           -- `image.n_frames`
  cached : Bool           -- `self._cached`
  rep : Int               -- the generator's local `repeat` (initially `self._repeat`)
  loopNo : Option Int     -- `self._loop_no`
  n : Int                 -- the generator's local `n`
  cache : List (Option (β × κ))   -- `(None, None)` entries are `none`
  phase : IPhase          -- not started / suspended in the first loop / in the second / finished or closed
  size : Size             -- the image's current rendered size
  seekPos : Int
  renders : Nat           -- ghost: number of `_render_image` calls

/-- `ImageIterator.__init__`: `self._cached = repeat != 1 and (cached if isinstance(cached, bool) else n_frames <= cached)` -/
def icachedDecision (nFrames : Nat) (rep : Int) (cache : TIV.C08.CacheArg) : Bool :=
  decide (rep ≠ 1) && (match cache with | .flag v => v | .limit c => decide ((nFrames : Int) ≤ c))

structure IInit where
  nFrames : Nat
  rep : Int
  cache : TIV.C08.CacheArg
  size : Size
  seekPos : Nat           -- where the image's own seek position is when the iterator is created
  deriving Repr

def iinit {β κ} (i : IInit) : Except IErr (ISt β κ) :=
  if i.nFrames < 2 then .error .ValueError            -- "'image' is not animated"
  else if i.rep = 0 then .error .ValueError
  else if i.cache.rejected then .error .ValueError
  else .ok { nFrames := i.nFrames, cached := icachedDecision i.nFrames i.rep i.cache, rep := i.rep,
             loopNo := none, n := 0, cache := [], phase := .fresh, size := i.size, seekPos := i.seekPos,
             renders := 0 }

section
variable {β κ : Type}

/-- the generator returned: `__next__` closes the iterator and raises StopIteration -/
def finish (s : ISt β κ) : ISt β κ × IResp β := ({ s with phase := .done }, .err .StopIteration)

/-- first loop, `sent is None`, frame `n` exists: render, store, yield -/
def renderOne (render : Nat → Size → β) (key : Size → κ) (s : ISt β κ) : ISt β κ × IResp β :=
  let b := render s.n.toNat s.size
  let s := { s with renders := s.renders + 1 }
  let s := if s.cached then { s with cache := TIV.C08.pySet s.cache s.n (some (b, key s.size)) } else s
  ({ s with phase := .one }, .frame b)

/-- second loop, `sent is None`: take the frame from the cache unless the size key differs -/
def serveTwo (render : Nat → Size → β) (key : Size → κ) [DecidableEq κ] (s : ISt β κ) : ISt β κ × IResp β :=
  let s := { s with seekPos := s.n }
  match TIV.C08.pyGet s.cache s.n with
  | some (some (b, k)) =>
    if key s.size ≠ k then
      let b' := render s.n.toNat s.size
      ({ s with renders := s.renders + 1, cache := TIV.C08.pySet s.cache s.n (some (b', key s.size)), phase := .two },
        .frame b')
    else ({ s with phase := .two }, .frame b)
  | _ =>
    -- `(None, None)`: `hash(...) != None`, so render (an index out of range is unreachable)
    let b' := render s.n.toNat s.size
    ({ s with renders := s.renders + 1, cache := TIV.C08.pySet s.cache s.n (some (b', key s.size)), phase := .two },
      .frame b')

/-- `image._seek_position = n = 0; if repeat > 0: self._loop_no = repeat = repeat - 1` -/
def rewind (s : ISt β κ) : ISt β κ :=
  let s := { s with seekPos := 0, n := 0 }
  if s.rep > 0 then { s with rep := s.rep - 1, loopNo := some (s.rep - 1) } else s

/-- the second `while repeat:` loop from its inner condition on -/
def loopTwo (render : Nat → Size → β) (key : Size → κ) [DecidableEq κ] (s : ISt β κ) : ISt β κ × IResp β :=
  -- `n_frames = len(cache)`
  if s.n < s.cache.length then serveTwo render key s
  else
    let s := rewind s
    if s.rep = 0 then finish s
    else if s.n < s.cache.length then serveTwo render key s
    else ({ s with phase := .done }, .err .Diverges)

/-- the first `while repeat:` loop from its condition on, with `sent is None` -/
def loopOne (render : Nat → Size → β) (key : Size → κ) [DecidableEq κ] (s : ISt β κ) : ISt β κ × IResp β :=
  if s.rep = 0 then finish s
  else
    let s := { s with seekPos := s.n }
    if s.n < s.nFrames then renderOne render key s
    else
      -- EOFError
      let s := rewind s
      if s.cached then
        -- `break`, `n_frames = len(cache)`, then the second loop
        if s.rep = 0 then finish s
        else if s.n < s.cache.length then serveTwo render key s
        else ({ s with phase := .done }, .err .Diverges)
      else
        -- `continue`
        if s.rep = 0 then finish s
        else
          let s := { s with seekPos := s.n }
          if s.n < s.nFrames then renderOne render key s
          else ({ s with phase := .done }, .err .Diverges)

def inextOp (render : Nat → Size → β) (key : Size → κ) [DecidableEq κ] (s : ISt β κ) : ISt β κ × IResp β :=
  match s.phase with
  | .done => (s, .err .StopIteration)
  | .fresh =>
    loopOne render key
      { s with loopNo := some s.rep, n := 0,
               cache := if s.cached then List.replicate s.nFrames none else [] }
  | .one => loopOne render key { s with n := s.n + 1 }
  | .two => loopTwo render key { s with n := s.n + 1 }

def iseekOp (s : ISt β κ) (pos : Int) : ISt β κ × IResp β :=
  if ¬ (0 ≤ pos ∧ pos < s.nFrames) then (s, .err .ValueError)
  else
    match s.phase with
    | .fresh => (s, .err .TermImageError)   -- "can't send non-None value to a just-started generator"
    | .done => (s, .err .TermImageError)    -- AttributeError on `_animator`
    | .one =>
      -- `n = sent - 1`, `while repeat:` , `if sent is None` is false, yield the old frame to `send`
      if s.rep = 0 then ({ s with phase := .done }, .err .StopIteration) else ({ s with n := pos - 1 }, .ok)
    | .two => ({ s with n := pos - 1 }, .ok)

def istep (render : Nat → Size → β) (key : Size → κ) [DecidableEq κ] (s : ISt β κ) : IOp → ISt β κ × IResp β
  | .next => inextOp render key s
  | .seek pos => iseekOp s pos
  | .setSize sz => ({ s with size := sz }, .ok)
  | .close => ({ s with phase := .done }, .ok)

def iobserve (p : ISt β κ × IResp β) : IObs β := ⟨p.2, p.1.loopNo, p.1.seekPos⟩

def irun (render : Nat → Size → β) (key : Size → κ) [DecidableEq κ] : ISt β κ → List IOp → ISt β κ × List (IObs β)
  | s, [] => (s, [])
  | s, op :: ops =>
    let p := istep render key s op
    let (s', obs) := irun render key p.1 ops
    (s', iobserve p :: obs)

def ioutputs (render : Nat → Size → β) (key : Size → κ) [DecidableEq κ] (s : ISt β κ) (ops : List IOp) : List (IObs β) :=
  (irun render key s ops).2

end


/-! ## the public drawing path: `Renderable.draw()` → `_animate_` -/
namespace Draw
open TIV.C08

/-- `_animate_` constructs its iterator with `RenderIterator._from_render_data_(self, render_data,
    render_args, padding, loops, False if loops == 1 else cache, finalize=False)` -/
def initOf (i : Init) : Init := { i with cache := drawCache i.loops i.cache }

/-- what `_animate_` does with the iterator: the first `next`, `set_padding(NO_PADDING)`, then one
    `next` per further frame (`m` of them before the animation is interrupted or ends) -/
def history (m : Nat) : List Op :=
  .next :: .setPadding (.exact 0 0 0 0 0) :: List.replicate m .next

/-- how often `_render_` was asked for frame `k` -/
def renderCount {ρ O : Type} (s : St ρ O) (k : Int) : Nat := (s.calls.map (·.off)).count k

end Draw

/-- an injective size key (the demonstration instance for the theorems' hypothesis) -/
def iKeyDemo (sz : Size) : Nat × Nat := (sz.w, sz.h)

end TIV.C09
