import TIV.Common.Wire
import TIV.C08.Drive
import TIV.C09.Model
/-! driver ops of C09: paired cached/uncached runs of the render iterator (C08 model) and of the
image iterator -/
namespace TIV.C09
open TIV.Wire TIV.C08

def pIOp : P IOp := do
  let k ← word
  match k with
  | "next" => pure .next
  | "seek" => do let p ← int; pure (.seek p)
  | "size" => do let w ← nat; pure (.setSize ⟨w, 0⟩)
  | "close" => pure .close
  | _ => failure

def fmtIErr (e : IErr) : String := (reprStr e).replace "TIV.C09.IErr." ""

def fmtIResp (r : IResp (Nat × Nat)) : String :=
  match r with
  | .ok => "ok"
  | .err e => "e " ++ fmtIErr e
  | .frame (n, w) => s!"f {n} {w}"

def fmtIObs (o : IObs (Nat × Nat)) : String :=
  let l := match o.loopNo with | none => "none" | some v => toString v
  s!"{fmtIResp o.resp} L{l} P{o.seekPos}"

def iRender (n : Nat) (sz : Size) : Nat × Nat := (n, sz.w)
def iKey (sz : Size) : Nat := sz.w

def runI (i : IInit) (ops : List IOp) : String :=
  match iinit (β := Nat × Nat) (κ := Nat) i with
  | .error e => "err " ++ fmtIErr e
  | .ok s =>
    let r := irun iRender iKey s ops
    "ok " ++ String.intercalate " | " (r.2.map fmtIObs) ++ s!" # {r.1.renders}"

def runR (i : Init) (c : TCfg) (ops : List Op) : String :=
  match init (O := TOut) i (0 : Nat) with
  | .error e => "err " ++ fmtErr e
  | .ok s =>
    let r := C08.run (testR c) s ops
    "ok " ++ fmtObsList r.2 ++ s!" # {r.1.calls.length} " ++
      String.intercalate "," (r.1.calls.reverse.map (fun q => toString q.off))

def handler : Handler := fun op args =>
  match op with
  | "pair" => Wire.run (do
      let i ← pInit
      let c ← pTCfg i.count
      let ops ← listOf pOp
      pure (runR i c ops ++ " || " ++ runR { i with cache := .flag false } c ops)) args
  | "ipair" => Wire.run (do
      let nFrames ← nat; let rep ← int; let cache ← pCache; let w ← nat; let seekPos ← nat
      let ops ← listOf pIOp
      let i : IInit := { nFrames, rep, cache, size := ⟨w, 0⟩, seekPos }
      pure (runI i ops ++ " || " ++ runI { i with cache := .flag false } ops)) args
  | "decision" => Wire.run (do
      let declared ← pDeclared; let count := declared.resolve; let loops ← int; let cache ← pCache
      pure s!"ok {fmtBool (cachedDecision count cache)} {fmtBool (cachedDecision count (drawCache loops cache))}") args
  | "draw" => Wire.run (do
      -- `<n> <loops> <cache> <m>`: per-frame `_render_` counts of draw() interrupted after `m` further frames
      let n ← nat; let loops ← int; let cache ← pCache; let m ← nat
      let i : Init := { count := some n, loops, cache, padding := .exact 0 0 0 0 0, args := none,
                        size := ⟨2, 1⟩, dur := .ms 7, rFrame := 0, term := ⟨80, 30⟩ }
      pure (match init (O := TOut) (Draw.initOf i) (0 : Nat) with
        | .error e => "err " ++ fmtErr e
        | .ok s =>
          let r := C08.run (testR ⟨some n, 0, none, none⟩) s (Draw.history m)
          "ok " ++ String.intercalate " " ((List.range n).map (fun (k : Nat) => toString (Draw.renderCount r.1 (Int.ofNat k)))) ++
            s!" # {r.1.calls.length} {fmtBool r.1.cached}")) args
  | "idecision" => Wire.run (do
      let n ← nat; let rep ← int; let cache ← pCache
      pure s!"ok {fmtBool (icachedDecision n rep cache)}") args
  | _ => none

end TIV.C09
