import TIV.Common.DriverMain
import TIV.C09.Drive
def main : IO Unit := TIV.driverMain TIV.C09.handler
