import TIV.C06.Drive
import TIV.C07.Parser
/-! driver ops of C07: the traces under a fault plan are C06's `new.trace` / `old.trace`;
`parse <n> <code points…>` runs the parser model over a character stream -/
namespace TIV.C07
open TIV TIV.Wire

def fmtP : PState → String
  | .ground => "ground" | .esc => "esc" | .csi => "csi" | .str => "str" | .strEsc => "strEsc"

def handler : Handler := fun op args =>
  match op with
  | "parse" => Wire.run (do
      let cps ← listOf nat
      pure ("ok " ++ fmtP (pfeed .ground (cps.map Char.ofNat)))) args
  | "chars" => Wire.run (do
      let ts ← listOf TermDrive.pTok
      pure ("ok " ++ fmtList (fun c : Char => toString c.toNat) (streamChars (ts.map .tok)))) args
  | _ => C06.handler op args

end TIV.C07
