import TIV.C06.Model
import TIV.C07.Parser
/-!
# C07 helper lemmas: invariants of `run` under every fault plan
-/
namespace TIV.C07
open TIV TIV.C06

/-- every action occurring in a program satisfies `P` -/
def All (P : Act → Prop) : Prog → Prop
  | .done => True
  | .act a => P a
  | .seq p q => All P p ∧ All P q
  | .raise _ => True
  | .ret => True
  | .fn b => All P b
  | .tryFinally b f => All P b ∧ All P f
  | .cleanup b f => All P b ∧ All P f
  | .tryExcept b _ h => All P b ∧ ∀ e, All P (h e)
  | .ifFirst p q => All P p ∧ All P q
  | .loop _ body => ∀ i, All P (body i)

theorem runLoop_inv (I : World → Prop) (step : Nat → Option Plan → World → Res)
    (hs : ∀ i f w, I w → I (step i f w).1) : ∀ n i f w, I w → I (runLoop step n i f w).1 := by
  intro n
  induction n with
  | zero => intro i f w h; exact h
  | succ n ih =>
    intro i f w h
    unfold runLoop
    have h1 := hs i f w h
    generalize step i f w = r at h1 ⊢
    obtain ⟨w1, f1, o1⟩ := r
    cases o1 with
    | ok => exact ih _ _ _ h1
    | raised e => exact h1
    | returned => exact h1

/-- THE INVARIANT LEMMA: a world predicate kept by every action of a program (completed or hit
    by the fault) holds after running it, under every fault plan, whatever the outcome -/
theorem run_inv (I : World → Prop) (P : Act → Prop)
    (hA : ∀ a, P a → ∀ w, I w → I (w.apply a) ∧ ∀ j d, I (w.applyFault j d a)) :
    ∀ p, All P p → ∀ f w, I w → I (run p f w).1 := by
  intro p
  induction p with
  | done => intro _ f w h; exact h
  | act a =>
    intro hp f w h
    have := hA a hp w h
    unfold run
    split
    · cases f with
      | none => exact this.1
      | some pl =>
        obtain ⟨k, j, d, e⟩ := pl
        cases k with
        | zero => exact this.2 j d
        | succ k => exact this.1
    · exact this.1
  | seq p q ihp ihq =>
    intro hp f w h
    unfold run
    have h1 := ihp hp.1 f w h
    generalize run p f w = r at h1 ⊢
    obtain ⟨w1, f1, o1⟩ := r
    cases o1 with
    | ok => exact ihq hp.2 f1 w1 h1
    | raised e => exact h1
    | returned => exact h1
  | raise e => intro _ f w h; exact h
  | ret => intro _ f w h; exact h
  | fn b ih =>
    intro hp f w h
    unfold run
    have h1 := ih hp f w h
    generalize run b f w = r at h1 ⊢
    obtain ⟨w1, f1, o1⟩ := r
    cases o1 <;> exact h1
  | tryFinally b fin ihb ihf =>
    intro hp f w h
    unfold run
    have h1 := ihb hp.1 f w h
    generalize run b f w = r at h1 ⊢
    obtain ⟨w1, f1, o1⟩ := r
    dsimp only
    have h2 := ihf hp.2 f1 w1 h1
    generalize run fin f1 w1 = r2 at h2 ⊢
    obtain ⟨w2, f2, o2⟩ := r2
    cases o2 <;> exact h2
  | cleanup b fin ihb ihf =>
    intro hp f w h
    unfold run
    have h1 := ihb hp.1 f w h
    generalize run b f w = r at h1 ⊢
    obtain ⟨w1, f1, o1⟩ := r
    dsimp only
    have h2 := ihf hp.2 none w1 h1
    generalize run fin none w1 = r2 at h2 ⊢
    obtain ⟨w2, f2, o2⟩ := r2
    cases o2 <;> exact h2
  | tryExcept b c hd ihb ihh =>
    intro hp f w h
    unfold run
    have h1 := ihb hp.1 f w h
    generalize run b f w = r at h1 ⊢
    obtain ⟨w1, f1, o1⟩ := r
    cases o1 with
    | ok => exact h1
    | returned => exact h1
    | raised e =>
      simp only
      split
      · exact ihh e (hp.2 e) f1 w1 h1
      · exact h1
  | ifFirst p q ihp ihq =>
    intro hp f w h
    unfold run
    split
    · exact ihp hp.1 f w h
    · exact ihq hp.2 f w h
  | loop n body ih =>
    intro hp f w h
    unfold run
    exact runLoop_inv I _ (fun i f w hw => ih i (hp i) f w hw) n 0 f w h

theorem all_wr (P : Act → Prop) (ts : List Tok) (h : P (.write ts)) : All P (wr ts) := by
  unfold wr; split <;> simp [All, h]

theorem all_when (P : Act → Prop) (b : Bool) (p : Prog) (h : b = true → All P p) : All P (Prog.when b p) := by
  unfold Prog.when; split
  · exact h ‹_›
  · simp [All]

theorem all_forEach {α} (P : Act → Prop) (xs : List α) (f : α → Prog) (h : ∀ x, All P (f x)) :
    All P (Prog.forEach xs f) := by
  unfold Prog.forEach
  induction xs with
  | nil => simp [All]
  | cons x xs ih => simp only [List.foldr_cons, All]; exact ⟨h x, ih⟩

theorem all_hook (P : Act → Prop) (hook : List Tok) (h1 : P (.write hook)) (h2 : P .flush) : All P (hookProg hook) := by
  unfold hookProg; split <;> simp [All, h1, h2]

theorem all_guarded (P : Act → Prop) (hook ts : List Tok) (after : Prog) (hw : ∀ ts, P (.write ts)) (h2 : P .flush)
    (ha : All P after) : All P (guardedWrite hook ts after) := by
  unfold guardedWrite
  exact ⟨⟨all_wr P ts (hw ts), h2⟩, fun _ => ⟨all_hook P hook (hw _) h2, ha⟩⟩

/-- actions that leave the terminal attributes, what was saved of them, the finalisation count and
    the image's settings alone: everything that happens between `draw()`'s set-up and its clean-up -/
def Act.plain : Act → Prop
  | .write _ | .flush | .sleep | .render | .iterClose | .markFirst => True
  | _ => False

theorem all_mono {P Q : Act → Prop} (h : ∀ a, P a → Q a) : ∀ p, All P p → All Q p := by
  intro p
  induction p with
  | done => intro _; trivial
  | act a => exact h a
  | seq p q ihp ihq => intro hp; exact ⟨ihp hp.1, ihq hp.2⟩
  | raise e => intro _; trivial
  | ret => intro _; trivial
  | fn b ih => exact ih
  | tryFinally b f ihb ihf => intro hp; exact ⟨ihb hp.1, ihf hp.2⟩
  | cleanup b f ihb ihf => intro hp; exact ⟨ihb hp.1, ihf hp.2⟩
  | tryExcept b c hd ihb ihh => intro hp; exact ⟨ihb hp.1, fun e => ihh e (hp.2 e)⟩
  | ifFirst p q ihp ihq => intro hp; exact ⟨ihp hp.1, ihq hp.2⟩
  | loop n body ih => intro hp i; exact ih i (hp i)

/-- `_animate_` consists of plain actions only -/
theorem animate_plain (c : NewCfg) (frames : List (Bool × Lines)) : All Act.plain (c.animate frames) := by
  cases frames with
  | nil => simp [NewCfg.animate, All, Act.plain]
  | cons f0 rest =>
    obtain ⟨b0, f0⟩ := f0
    have hw : ∀ ts, Act.plain (.write ts) := fun _ => trivial
    simp only [NewCfg.animate, All, Prog.ofList]
    refine ⟨⟨⟨trivial, all_guarded _ _ _ _ hw trivial trivial, all_wr _ _ trivial, trivial, trivial, ?_, trivial⟩,
      fun _ => trivial⟩, trivial, ⟨all_wr _ _ trivial, trivial⟩, trivial⟩
    apply all_forEach
    intro f
    simp only [Prog.ofList, All]
    exact ⟨all_when _ _ _ (fun _ => trivial), trivial, all_wr _ _ trivial, all_guarded _ _ _ _ hw trivial trivial,
      all_wr _ _ trivial, trivial⟩

end TIV.C07
