import TIV.C07.Proofs
import TIV.C06.Compose
/-!
# C07 — the shape of the stream a draw leaves behind, under every fault plan

`Cls` classifies the result of running a program from `(w0, f0)`:
* `clean`: no fault fired inside; complete tokens `pre` were appended;
* `raw`: the fault fired, the exception is in flight: complete tokens, then the delivered part
  `cutWrite us j d` of the interrupted write (nothing for a non-write action);
* `fin`: the fault fired earlier and was dealt with. Levels: 0 = `fin` does not occur (plain blocks: what a
  handler may wrap); 1 = the outcome of a `fin` is not `ok` (so nothing of an enclosing sequence runs
  afterwards); 2 = any: complete tokens, the cut, then either the hook
  (`_handle_interrupted_draw`) or nothing, then the tokens `post` written by `finally` blocks.
`A` holds of every token written, `Q` of the tokens of a write whose cut was NOT followed by the hook, `H` of
those of a write whose cut was,
`R` of the tokens written after the fault by `finally` blocks.
The closure lemmas (`cls_seq`, `cls_forEach`, `cls_guarded`, `cls_catchAll`, `cls_swallowKbd`,
`cls_tryFinally`, …) make the classification compositional; `new_body_cls` / `old_body_cls` apply it to
the two draw paths, for every frame list, by induction on the frames.
-/
namespace TIV.C07
open TIV TIV.C06

def excOf (f : Option Plan) : Option Exc := f.map (·.exc)

inductive Cls (A Q H R : Tok → Prop) (hook : List Tok) (lvl : Nat) (w0 : World) (f0 : Option Plan) : Res → Prop
  | clean (w : World) (f : Option Plan) (pre : List Tok) (hA : ∀ t ∈ pre, A t)
      (hout : w.out = w0.out ++ pre.map .tok) (hf : excOf f = excOf f0) (hfirst : w.first = w0.first ∨ True) :
      Cls A Q H R hook lvl w0 f0 (w, f, .ok)
  | raw (w : World) (e : Exc) (pre us : List Tok) (j d : Nat) (hA : ∀ t ∈ pre, A t) (hU : ∀ t ∈ us, A t)
      (hQ : ∀ t ∈ us, Q t) (hout : w.out = w0.out ++ pre.map .tok ++ cutWrite us j d)
      (he : excOf f0 = some e) : Cls A Q H R hook lvl w0 f0 (w, none, .raised e)
  | fin (w : World) (e : Exc) (o : Outcome) (pre us : List Tok) (j d : Nat) (hk : List Item) (post : List Tok)
      (hA : ∀ t ∈ pre, A t) (hU : ∀ t ∈ us, A t)
      (hhk : (hk = hook.map .tok ∧ ∀ t ∈ us, H t) ∨ (hk = [] ∧ ∀ t ∈ us, Q t)) (hR : ∀ t ∈ post, R t)
      (hout : w.out = w0.out ++ pre.map .tok ++ cutWrite us j d ++ hk ++ post.map .tok)
      (he : excOf f0 = some e) (hs : 0 < lvl ∧ (lvl = 1 → o ≠ .ok)) : Cls A Q H R hook lvl w0 f0 (w, none, o)

/-- a program all of whose runs are classified -/
def Spec (A Q H R : Tok → Prop) (hook : List Tok) (lvl : Nat) (p : Prog) : Prop :=
  ∀ f w, Cls A Q H R hook lvl w f (run p f w)

/-- … and which, once the fault has fired (or without a plan), runs to its normal end -/
def Calm (p : Prog) : Prop := ∀ w, (run p none w).2.2 = .ok ∧ (run p none w).2.1 = none

variable {A Q H R : Tok → Prop} {hook : List Tok} {l : Nat}

theorem cutWrite_nil (j d : Nat) : cutWrite [] j d = [] := by
  unfold cutWrite; cases d <;> simp

theorem spec_done : Spec A Q H R hook l .done :=
  fun f w => .clean w f [] (by simp) (by simp) rfl (Or.inr trivial)

/-- a non-effectful action, or an effectful one that writes nothing -/
theorem spec_act_quiet (a : Act) (hnw : ∀ ts, a ≠ .write ts) : Spec A Q H R hook l (.act a) := by
  intro f w
  have hout : ∀ j d, (w.applyFault j d a).out = w.out := by
    intro j d; cases a <;> simp [World.applyFault] <;> try (split <;> rfl)
    exact absurd rfl (hnw _)
  have hout2 : (w.apply a).out = w.out := by
    cases a <;> simp [World.apply]
    exact absurd rfl (hnw _)
  unfold run
  split
  · cases f with
    | none => exact .clean _ _ [] (by simp) (by simpa using hout2) rfl (Or.inr trivial)
    | some pl =>
      obtain ⟨k, j, d, e⟩ := pl
      cases k with
      | zero =>
        exact .raw _ e [] [] j d (by simp) (by simp) (by simp) (by simp [cutWrite_nil, hout]) rfl
      | succ k => exact .clean _ _ [] (by simp) (by simpa using hout2) rfl (Or.inr trivial)
  · exact .clean _ _ [] (by simp) (by simpa using hout2) rfl (Or.inr trivial)

theorem spec_write (ts : List Tok) (hA : ∀ t ∈ ts, A t) (hQ : ∀ t ∈ ts, Q t) :
    Spec A Q H R hook l (.act (.write ts)) := by
  intro f w
  unfold run
  simp only [Act.effectful, if_true]
  cases f with
  | none => exact .clean _ _ ts hA (by simp [World.apply]) rfl (Or.inr trivial)
  | some pl =>
    obtain ⟨k, j, d, e⟩ := pl
    cases k with
    | zero => exact .raw _ e [] ts j d (by simp) hA hQ (by simp [World.applyFault]) rfl
    | succ k => exact .clean _ _ ts hA (by simp [World.apply]) rfl (Or.inr trivial)

theorem spec_wr (ts : List Tok) (hA : ∀ t ∈ ts, A t) (hQ : ∀ t ∈ ts, Q t) : Spec A Q H R hook l (wr ts) := by
  unfold wr; split
  · exact spec_done
  · exact spec_write ts hA hQ

theorem Cls.weaken {l l' : Nat} (hl : l ≤ l') (hl' : l = 1 ∨ l' ≠ 1 ∨ l = 0) {w0 : World} {f0 : Option Plan} {r : Res}
    (h : Cls A Q H R hook l w0 f0 r) : Cls A Q H R hook l' w0 f0 r := by
  cases h with
  | clean w f pre hA hout hf hfirst => exact .clean w f pre hA hout hf hfirst
  | raw w e pre us j d hA hU hQ hout he => exact .raw w e pre us j d hA hU hQ hout he
  | fin w e o pre us j d hk post hA hU hhk hR hout he hs =>
    refine .fin w e o pre us j d hk post hA hU hhk hR hout he ⟨by omega, fun h1 => ?_⟩
    rcases hl' with h | h | h
    · exact hs.2 h
    · exact absurd h1 h
    · omega

theorem Spec.weaken {l l' : Nat} (hl : l ≤ l') (hl' : l = 1 ∨ l' ≠ 1 ∨ l = 0) {p : Prog}
    (h : Spec A Q H R hook l p) : Spec A Q H R hook l' p := fun f w => (h f w).weaken hl hl'

/-- sequencing: the first part must not swallow a fault (level ≤ 1) -/
theorem spec_seq2 {lp : Nat} {p q : Prog} (hp : Spec A Q H R hook lp p) (hlp : lp ≤ 1) (hle : lp ≤ l)
    (hq : Spec A Q H R hook l q) : Spec A Q H R hook l (.seq p q) := by
  intro f w
  unfold run
  have h1 := hp f w
  generalize run p f w = r at h1 ⊢
  cases h1 with
  | clean w1 f1 pre hA hout hf _ =>
    simp only
    have h2 := hq f1 w1
    generalize run q f1 w1 = r2 at h2 ⊢
    cases h2 with
    | clean w2 f2 pre2 hA2 hout2 hf2 _ =>
      exact .clean _ _ (pre ++ pre2) (by intro t ht; rcases List.mem_append.mp ht with h | h; exact hA t h; exact hA2 t h)
        (by rw [hout2, hout]; simp) (hf2.trans hf) (Or.inr trivial)
    | raw w2 e pre2 us j d hA2 hU hQ hout2 he =>
      exact .raw _ e (pre ++ pre2) us j d
        (by intro t ht; rcases List.mem_append.mp ht with h | h; exact hA t h; exact hA2 t h) hU hQ
        (by rw [hout2, hout]; simp) (by rw [← hf]; exact he)
    | fin w2 e o pre2 us j d hk post hA2 hU hhk hR hout2 he hs =>
      exact .fin _ e o (pre ++ pre2) us j d hk post
        (by intro t ht; rcases List.mem_append.mp ht with h | h; exact hA t h; exact hA2 t h) hU hhk hR
        (by rw [hout2, hout]; simp) (by rw [← hf]; exact he) hs
  | raw w1 e pre us j d hA hU hQ hout he => exact .raw _ e pre us j d hA hU hQ hout he
  | fin w1 e o pre us j d hk post hA hU hhk hR hout he hs =>
    have hl1 : lp = 1 := by omega
    cases o with
    | ok => exact absurd rfl (hs.2 hl1)
    | raised e2 => exact .fin _ e _ pre us j d hk post hA hU hhk hR hout he ⟨by omega, by simp⟩
    | returned => exact .fin _ e _ pre us j d hk post hA hU hhk hR hout he ⟨by omega, by simp⟩

theorem spec_seq {p q : Prog} (hp : Spec A Q H R hook l p) (hl : l ≤ 1) (hq : Spec A Q H R hook l q) :
    Spec A Q H R hook l (.seq p q) := spec_seq2 hp hl (Nat.le_refl _) hq

theorem spec_when (b : Bool) {p : Prog} (hp : Spec A Q H R hook l p) : Spec A Q H R hook l (Prog.when b p) := by
  unfold Prog.when; split
  · exact hp
  · exact spec_done

theorem spec_forEach {α} (xs : List α) (f : α → Prog) (hl : l ≤ 1) (h : ∀ x ∈ xs, Spec A Q H R hook l (f x)) :
    Spec A Q H R hook l (Prog.forEach xs f) := by
  unfold Prog.forEach
  induction xs with
  | nil => exact spec_done
  | cons x xs ih =>
    exact spec_seq (h x (by simp)) hl (ih (fun y hy => h y (by simp [hy])))

/-- once the budget is `none` a classified run is `clean` -/
theorem Cls.of_none {w0 : World} {r : Res} (h : Cls A Q H R hook l w0 none r) :
    ∃ pre : List Tok, (∀ t ∈ pre, A t) ∧ r = (r.1, none, .ok) ∧ r.1.out = w0.out ++ pre.map .tok := by
  cases h with
  | clean w f pre hA hout hf _ =>
    cases f with
    | none => exact ⟨pre, hA, rfl, hout⟩
    | some pl => simp [excOf] at hf
  | raw w e pre us j d hA hU hQ hout he => simp [excOf] at he
  | fin w e o pre us j d hk post hA hU hhk hR hout he hs => simp [excOf] at he

/-- `try: <plain block> except <caught> as e: <handler e>` where every handler prints exactly the hook:
    a caught fault becomes `fin` with the hook -/
theorem spec_handler {Q' : Tok → Prop} (body : Prog) (catches : Exc → Bool) (h : Exc → Prog) (o : Exc → Outcome)
    (hl : 0 < l) (hlo : ∀ e, catches e = true → l = 1 → o e ≠ .ok)
    (hb : Spec A Q' H R hook 0 body) (hQQ : (∀ t, Q' t → Q t) ∨ ∀ e, catches e = true) (hQH : ∀ t, Q' t → H t)
    (hhook : ∀ t ∈ hook, A t)
    (hh : ∀ e w, catches e = true → ∃ w', run (h e) none w = (w', none, o e) ∧ w'.out = w.out ++ hook.map .tok) :
    Spec A Q H R hook l (.tryExcept body catches h) := by
  intro f w
  unfold run
  have h1 := hb f w
  generalize run body f w = r at h1 ⊢
  cases h1 with
  | clean w1 f1 pre hA hout hf _ => exact .clean _ _ pre hA hout hf (Or.inr trivial)
  | raw w1 e pre us j d hA hU hQ hout he =>
    simp only
    split
    · rename_i hc
      obtain ⟨w', hrun, hout'⟩ := hh e w1 hc
      rw [hrun]
      exact .fin _ e (o e) pre us j d (hook.map .tok) [] hA hU (Or.inl ⟨rfl, fun t ht => hQH t (hQ t ht)⟩) (by simp)
        (by simp [hout', hout]) he ⟨hl, hlo e hc⟩
    · rename_i hc
      rcases hQQ with hq | hall
      · exact .raw _ e pre us j d hA hU (fun t ht => hq t (hQ t ht)) hout he
      · exact absurd (hall e) hc
  | fin w1 e o' pre us j d hk post hA hU hhk hR hout he hs => exact absurd hs.1 (by omega)

theorem hookProg_run (hook : List Tok) (w : World) :
    run (hookProg hook) none w = ({ w with out := w.out ++ hook.map .tok }, none, .ok) := by
  unfold hookProg
  by_cases hh : hook.isEmpty = true
  · have : hook = [] := List.isEmpty_iff.mp hh
    subst this
    simp [run]
  · simp [hh, run, Act.effectful, World.apply]

/-- `guardedWrite`: the write and its flush, `except KeyboardInterrupt: hook; return` (animation) -/
theorem spec_guarded_ret (ts : List Tok) (hA : ∀ t ∈ ts, A t) (hQ : ∀ t ∈ ts, Q t) (hQH : ∀ t, Q t → H t)
    (hhook : ∀ t ∈ hook, A t) :
    Spec A Q H R hook 1 (guardedWrite hook ts .ret) := by
  unfold guardedWrite
  apply spec_handler _ _ _ (fun _ => .returned) (by omega) (by simp)
    (spec_seq (spec_wr ts hA hQ) (by omega) (spec_act_quiet .flush (by simp))) (Or.inl (fun _ h => h)) hQH hhook
  intro e w _
  exact ⟨{ w with out := w.out ++ hook.map .tok }, by simp [run, hookProg_run], rfl⟩

/-- … `except KeyboardInterrupt: hook; raise` (still image) -/
theorem spec_guarded_raise (ts : List Tok) (hA : ∀ t ∈ ts, A t) (hQ : ∀ t ∈ ts, Q t) (hQH : ∀ t, Q t → H t)
    (hhook : ∀ t ∈ hook, A t) :
    Spec A Q H R hook 1 (guardedWrite hook ts (.raise .kbd)) := by
  unfold guardedWrite
  apply spec_handler _ _ _ (fun _ => .raised .kbd) (by omega) (by simp)
    (spec_seq (spec_wr ts hA hQ) (by omega) (spec_act_quiet .flush (by simp))) (Or.inl (fun _ h => h)) hQH hhook
  intro e w _
  exact ⟨{ w with out := w.out ++ hook.map .tok }, by simp [run, hookProg_run], rfl⟩

/-- `except KeyboardInterrupt: pass` around anything -/
theorem spec_swallow {body : Prog} (hb : Spec A Q H R hook l body) :
    Spec A Q H R hook 2 (.tryExcept body isKbd (fun _ => .done)) := by
  intro f w
  unfold run
  have h1 := hb f w
  generalize run body f w = r at h1 ⊢
  cases h1 with
  | clean w1 f1 pre hA hout hf _ => exact .clean _ _ pre hA hout hf (Or.inr trivial)
  | raw w1 e pre us j d hA hU hQ hout he =>
    cases e with
    | kbd =>
      simp only [isKbd, if_true, run]
      exact .fin _ .kbd .ok pre us j d [] [] hA hU (Or.inr ⟨rfl, hQ⟩) (by simp) (by simp [hout]) he (by simp)
    | err => simpa [isKbd] using Cls.raw _ .err pre us j d hA hU hQ hout he
  | fin w1 e o pre us j d hk post hA hU hhk hR hout he hs =>
    cases o with
    | ok => exact .fin _ e _ pre us j d hk post hA hU hhk hR hout he (by simp)
    | returned => exact .fin _ e _ pre us j d hk post hA hU hhk hR hout he (by simp)
    | raised e2 =>
      cases e2 with
      | kbd =>
        simp only [isKbd, if_true, run]
        exact .fin _ e .ok pre us j d hk post hA hU hhk hR hout he (by simp)
      | err => simpa [isKbd] using Cls.fin (lvl := 2) _ e (.raised .err) pre us j d hk post hA hU hhk hR hout he (by simp)

/-- `try: <body> finally: <plain block>`; the block's tokens must be good both as ordinary output and
    as output after a cut (`R`) -/
theorem spec_tryFinally {body finp : Prog} (hl : 0 < l) (hb : Spec A Q H R hook l body)
    (hf : Spec (fun t => A t ∧ R t) Q H R hook 0 finp) : Spec A Q H R hook l (.tryFinally body finp) := by
  intro f w
  unfold run
  have h1 := hb f w
  generalize run body f w = r at h1 ⊢
  cases h1 with
  | clean w1 f1 pre hA hout hf1 _ =>
    simp only
    have h2 := hf f1 w1
    generalize run finp f1 w1 = r2 at h2 ⊢
    cases h2 with
    | clean w2 f2 pre2 hA2 hout2 hf2 _ =>
      exact .clean _ _ (pre ++ pre2)
        (by intro t ht; rcases List.mem_append.mp ht with h | h; exact hA t h; exact (hA2 t h).1)
        (by rw [hout2, hout]; simp) (hf2.trans hf1) (Or.inr trivial)
    | raw w2 e pre2 us j d hA2 hU hQ hout2 he =>
      exact .raw _ e (pre ++ pre2) us j d
        (by intro t ht; rcases List.mem_append.mp ht with h | h; exact hA t h; exact (hA2 t h).1)
        (fun t ht => (hU t ht).1) hQ (by rw [hout2, hout]; simp) (by rw [← hf1]; exact he)
    | fin w2 e o pre2 us j d hk post hA2 hU hhk hR hout2 he hs => exact absurd hs.1 (by omega)
  | raw w1 e pre us j d hA hU hQ hout he =>
    simp only
    obtain ⟨pre2, hA2, hr, hout2⟩ := (hf none w1).of_none
    rw [hr]
    exact .fin _ e (.raised e) pre us j d [] pre2 hA hU (Or.inr ⟨rfl, hQ⟩) (fun t ht => (hA2 t ht).2)
      (by simp [hout2, hout]) he ⟨hl, by simp⟩
  | fin w1 e o pre us j d hk post hA hU hhk hR hout he hs =>
    simp only
    obtain ⟨pre2, hA2, hr, hout2⟩ := (hf none w1).of_none
    rw [hr]
    exact .fin _ e o pre us j d hk (post ++ pre2) hA hU hhk
      (by intro t ht; rcases List.mem_append.mp ht with h | h; exact hR t h; exact (hA2 t h).2)
      (by simp [hout2, hout]) he hs

/-- a function boundary turns `return` into a normal end -/
theorem spec_fn {body : Prog} (hb : Spec A Q H R hook l body) : Spec A Q H R hook 2 (.fn body) := by
  intro f w
  unfold run
  have h1 := hb f w
  generalize run body f w = r at h1 ⊢
  cases h1 with
  | clean w1 f1 pre hA hout hf _ => exact .clean _ _ pre hA hout hf (Or.inr trivial)
  | raw w1 e pre us j d hA hU hQ hout he => exact .raw _ e pre us j d hA hU hQ hout he
  | fin w1 e o pre us j d hk post hA hU hhk hR hout he hs =>
    cases o with
    | ok => exact .fin _ e _ pre us j d hk post hA hU hhk hR hout he (by simp)
    | returned => exact .fin _ e .ok pre us j d hk post hA hU hhk hR hout he (by simp)
    | raised e2 => exact .fin _ e _ pre us j d hk post hA hU hhk hR hout he (by simp)

theorem spec_ifFirst {p q : Prog} (hp : Spec A Q H R hook l p) (hq : Spec A Q H R hook l q) :
    Spec A Q H R hook l (.ifFirst p q) := by
  intro f w
  unfold run
  split
  · exact hp f w
  · exact hq f w


/-! ## the tokens the draw paths write besides the frames' own -/

/-- control tokens of the two draw paths: cursor hide, line feed, carriage return, cursor moves, the
    padding fill, the blanks and erase of the old API's formatting / pre-erase -/
inductive Ctl (fill : Option Glyph) : Tok → Prop
  | hide : Ctl fill .hideCur
  | lf : Ctl fill .lf
  | cr : Ctl fill .cr
  | cuu (n : Nat) : Ctl fill (.cuu n)
  | cud (n : Nat) : Ctl fill (.cud n)
  | cuf (n : Nat) : Ctl fill (.cuf n)
  | ech (n : Nat) : Ctl fill (.ech n)
  | fill (g : Glyph) (h : fill = some g) : Ctl fill (.glyph g)

theorem ctl_cursorUp (fill : Option Glyph) (n : Int) : ∀ t ∈ cursorUp n, Ctl fill t := by
  unfold cursorUp; split <;> simp; exact .cuu _
theorem ctl_cursorDown (fill : Option Glyph) (n : Int) : ∀ t ∈ cursorDown n, Ctl fill t := by
  unfold cursorDown; split <;> simp; exact .cud _
theorem ctl_cursorForward (fill : Option Glyph) (n : Int) : ∀ t ∈ cursorForward n, Ctl fill t := by
  unfold cursorForward; split <;> simp; exact .cuf _

theorem mem_joinSep {x : Nat} {ls : Lines} {t : Tok} (h : t ∈ joinSep x ls) :
    t = .lf ∨ t ∈ cursorForward (x : Int) ∨ ∃ l ∈ ls, t ∈ l := by
  induction ls with
  | nil => simp [joinSep] at h
  | cons l rest ih =>
    cases rest with
    | nil => simp only [joinSep] at h; exact Or.inr (Or.inr ⟨l, by simp, h⟩)
    | cons l2 r2 =>
      simp only [joinSep, List.mem_append, List.mem_cons] at h
      rcases h with h | h | h | h
      · exact Or.inr (Or.inr ⟨l, by simp, h⟩)
      · exact Or.inl h
      · exact Or.inr (Or.inl h)
      · rcases ih h with h | h | ⟨l', hl', ht⟩
        · exact Or.inl h
        · exact Or.inr (Or.inl h)
        · exact Or.inr (Or.inr ⟨l', by simp [hl'], ht⟩)

theorem mem_joinLines' {ls : Lines} {t : Tok} (h : t ∈ joinLines ls) : t = .lf ∨ ∃ l ∈ ls, t ∈ l := by
  induction ls with
  | nil => simp [joinLines] at h
  | cons l rest ih =>
    cases rest with
    | nil => simp only [joinLines] at h; exact Or.inr ⟨l, by simp, h⟩
    | cons l2 r2 =>
      simp only [joinLines, List.mem_append, List.mem_cons] at h
      rcases h with h | h | h
      · exact Or.inr ⟨l, by simp, h⟩
      · exact Or.inl h
      · rcases ih h with h | ⟨l', hl', ht⟩
        · exact Or.inl h
        · exact Or.inr ⟨l', by simp [hl'], ht⟩

theorem ctl_fillN (p : Pad) (n : Nat) : ∀ t ∈ p.fillN n, Ctl p.fill t := by
  unfold Pad.fillN
  cases hf : p.fill with
  | none => exact ctl_cursorForward _ _
  | some g => intro t ht; simp at ht; rw [ht.2]; exact .fill g rfl

/-- a token of a padded frame is a control token or a token of the frame -/
theorem mem_padLines {p : Pad} {w : Nat} {ls : Lines} {t : Tok} (h : t ∈ joinLines (padLines p w ls)) :
    Ctl p.fill t ∨ ∃ l ∈ ls, t ∈ l := by
  rcases mem_joinLines' h with h | ⟨l, hl, ht⟩
  · exact Or.inl (h ▸ .lf)
  · unfold padLines at hl
    split at hl
    · exact Or.inr ⟨l, hl, ht⟩
    · simp only [List.mem_append, List.mem_replicate, List.mem_map] at hl
      rcases hl with (⟨_, rfl⟩ | ⟨l0, hl0, rfl⟩) | ⟨_, rfl⟩
      · exact Or.inl (ctl_fillN p _ t ht)
      · simp only [List.mem_append] at ht
        rcases ht with (ht | ht) | ht
        · exact Or.inl (ctl_fillN p _ t ht)
        · exact Or.inr ⟨l0, hl0, ht⟩
        · exact Or.inl (ctl_fillN p _ t ht)
      · exact Or.inl (ctl_fillN p _ t ht)


/-! ## new API -/

/-- a token of one of the frames -/
def FrameTok (frames : List (Bool × Lines)) (t : Tok) : Prop := ∃ f ∈ frames, ∃ l ∈ f.2, t ∈ l

/-- what must be known about the tokens of a new-API draw: `A`/`Q` of the frames' and the
    `_clear_frame_` tokens, `A` of the hook's, all three of the control tokens -/
structure NewToks (A Q H R : Tok → Prop) (c : NewCfg) (frames : List (Bool × Lines)) : Prop where
  frame : ∀ t, FrameTok frames t → A t ∧ Q t
  clear : ∀ t ∈ c.clear, A t ∧ Q t
  hook : ∀ t ∈ c.hook, A t
  qh : ∀ t, Q t → H t
  ctl : ∀ t, Ctl c.pad.fill t → A t ∧ Q t
  rcud : ∀ n, R (.cud n)

theorem NewToks.padded {c : NewCfg} {frames : List (Bool × Lines)} (h : NewToks A Q H R c frames)
    (f : Bool × Lines) (hf : f ∈ frames) : ∀ t ∈ joinLines (padLines c.pad c.w f.2), A t ∧ Q t := by
  intro t ht
  rcases mem_padLines ht with hc | ⟨l, hl, htl⟩
  · exact h.ctl t hc
  · exact h.frame t ⟨f, hf, l, hl, htl⟩

theorem NewToks.sep {c : NewCfg} {frames : List (Bool × Lines)} (h : NewToks A Q H R c frames)
    (f : Bool × Lines) (hf : f ∈ frames) : ∀ t ∈ joinSep c.pad.l f.2, A t ∧ Q t := by
  intro t ht
  rcases mem_joinSep ht with rfl | hc | ⟨l, hl, htl⟩
  · exact h.ctl _ .lf
  · exact h.ctl t (ctl_cursorForward _ _ t hc)
  · exact h.frame t ⟨f, hf, l, hl, htl⟩

theorem NewToks.home0 {c : NewCfg} {frames : List (Bool × Lines)} (h : NewToks A Q H R c frames) :
    ∀ t ∈ c.home0, A t ∧ Q t := by
  intro t ht
  simp only [NewCfg.home0, List.mem_cons, List.mem_append] at ht
  rcases ht with rfl | ht | ht
  · exact h.ctl _ .cr
  · exact h.ctl t (ctl_cursorUp _ _ t ht)
  · exact h.ctl t (ctl_cursorForward _ _ t ht)

theorem NewToks.home {c : NewCfg} {frames : List (Bool × Lines)} (h : NewToks A Q H R c frames) :
    ∀ t ∈ c.home, A t ∧ Q t := by
  intro t ht
  simp only [NewCfg.home, List.mem_cons, List.mem_append] at ht
  rcases ht with rfl | ht | ht
  · exact h.ctl _ .cr
  · exact h.ctl t (ctl_cursorUp _ _ t ht)
  · exact h.ctl t (ctl_cursorForward _ _ t ht)

theorem NewToks.down {c : NewCfg} {frames : List (Bool × Lines)} (h : NewToks A Q H R c frames) :
    ∀ t ∈ c.down, A t ∧ Q t ∧ R t := by
  intro t ht
  have hc := h.ctl t (ctl_cursorDown _ _ t ht)
  refine ⟨hc.1, hc.2, ?_⟩
  unfold NewCfg.down cursorDown at ht
  split at ht
  · simp at ht; rw [ht]; exact h.rcud _
  · simp at ht

/-- `_animate_`, every frame list -/
theorem animate_spec (c : NewCfg) (frames : List (Bool × Lines)) (h : NewToks A Q H R c frames) :
    Spec A Q H R c.hook 2 (c.animate frames) := by
  cases frames with
  | nil => exact (spec_act_quiet (l := 0) .iterClose (by simp)).weaken (by omega) (Or.inr (Or.inl (by omega)))
  | cons f0 rest =>
    obtain ⟨b0, f0⟩ := f0
    have q : ∀ a : Act, (∀ ts, a ≠ .write ts) → Spec A Q H R c.hook 1 (.act a) := fun a ha => spec_act_quiet a ha
    have hw : ∀ ts : List Tok, (∀ t ∈ ts, A t ∧ Q t) → Spec A Q H R c.hook 1 (wr ts) :=
      fun ts hts => spec_wr ts (fun t ht => (hts t ht).1) (fun t ht => (hts t ht).2)
    have hg : ∀ ts : List Tok, (∀ t ∈ ts, A t ∧ Q t) → Spec A Q H R c.hook 1 (guardedWrite c.hook ts .ret) :=
      fun ts hts => spec_guarded_ret ts (fun t ht => (hts t ht).1) (fun t ht => (hts t ht).2) h.qh h.hook
    have hloop : Spec A Q H R c.hook 1 (Prog.forEach rest (fun f => Prog.ofList [
            Prog.when f.1 (.act .render), .act .sleep, wr c.clear,
            guardedWrite c.hook (joinSep c.pad.l f.2) .ret, wr c.home, .act .flush ])) := by
      apply spec_forEach _ _ (by omega)
      intro f hf
      simp only [Prog.ofList]
      exact spec_seq (spec_when _ (q _ (by simp))) (by omega) <|
        spec_seq (q _ (by simp)) (by omega) <|
        spec_seq (hw _ h.clear) (by omega) <|
        spec_seq (hg _ (h.sep f (by simp [hf]))) (by omega) <|
        spec_seq (hw _ h.home) (by omega) (q _ (by simp))
    have hB : Spec A Q H R c.hook 1 (Prog.ofList [
          .act .render, guardedWrite c.hook (joinLines (padLines c.pad c.w f0)) .ret, wr c.home0, .act .flush,
          .act .markFirst,
          Prog.forEach rest (fun f => Prog.ofList [
            Prog.when f.1 (.act .render), .act .sleep, wr c.clear,
            guardedWrite c.hook (joinSep c.pad.l f.2) .ret, wr c.home, .act .flush ]),
          .act .sleep ]) := by
      simp only [Prog.ofList]
      exact spec_seq (q _ (by simp)) (by omega) <|
        spec_seq (hg _ (h.padded (b0, f0) (by simp))) (by omega) <|
        spec_seq (hw _ h.home0) (by omega) <|
        spec_seq (q _ (by simp)) (by omega) <|
        spec_seq (q _ (by simp)) (by omega) <|
        spec_seq hloop (by omega) (q _ (by simp))
    have hfin : Spec (fun t => A t ∧ R t) Q H R c.hook 0
        (.seq (.act .iterClose) (.ifFirst (.seq (wr c.down) (.act .flush)) .done)) := by
      apply spec_seq (spec_act_quiet _ (by simp)) (by omega)
      apply spec_ifFirst _ spec_done
      exact spec_seq (spec_wr _ (fun t ht => ⟨(h.down t ht).1, (h.down t ht).2.2⟩) (fun t ht => (h.down t ht).2.1))
        (by omega) (spec_act_quiet _ (by simp))
    simp only [NewCfg.animate]
    exact spec_fn (spec_tryFinally (by omega) (spec_swallow hB) hfin)

/-- the body of `Renderable.draw`'s `try`, still image or animation -/
theorem newBody_spec (c : NewCfg) (frames : List (Bool × Lines)) (h : NewToks A Q H R c frames) :
    Spec A Q H R c.hook 2 (newBody c frames) := by
  unfold newBody
  simp only [Prog.ofList]
  have hhide : Spec A Q H R c.hook 1 (Prog.when c.hide (.act (.write [Tok.hideCur]))) :=
    spec_when _ (spec_write _ (by simp; exact (h.ctl _ .hide).1) (by simp; exact (h.ctl _ .hide).2))
  have hecho : Spec A Q H R c.hook 1 (Prog.when c.notEcho (.act .tcsetNoEcho)) :=
    spec_when _ (spec_act_quiet _ (by simp))
  refine spec_seq2 hhide (by omega) (by omega) (spec_seq2 hecho (by omega) (by omega) ?_)
  split
  · exact animate_spec c frames h
  · split
    · exact spec_done
    · rename_i b0 f0 rest
      refine spec_seq2 (lp := 1) (spec_act_quiet _ (by simp)) (by omega) (by omega) ?_
      exact (spec_guarded_raise _ (fun t ht => (h.padded (b0, f0) (by simp) t ht).1)
        (fun t ht => (h.padded (b0, f0) (by simp) t ht).2) h.qh h.hook).weaken (by omega) (Or.inl rfl)


/-! ## old API -/

/-- a token of a formatted frame is a control token (blank, line feed) or a token of the frame -/
theorem mem_fmtLines {c : OldCfg} {ls : Lines} {t : Tok} (h : t ∈ joinLines (c.fmtLines ls)) :
    Ctl (some .blank) t ∨ ∃ l ∈ ls, t ∈ l := by
  have hb : ∀ n, ∀ t ∈ C05.fillSeg (.glyph .blank) n, Ctl (some Glyph.blank) t := by
    intro n t ht
    simp [C05.fillSeg, glyphs] at ht
    rw [ht.2]; exact .fill _ rfl
  rcases mem_joinLines' h with h | ⟨l, hl, ht⟩
  · exact Or.inl (h ▸ .lf)
  · rw [fmtLines_eq_c05] at hl
    unfold C05.padLines at hl
    simp only [List.mem_append, List.mem_replicate, List.mem_map] at hl
    rcases hl with (⟨_, rfl⟩ | ⟨l0, hl0, rfl⟩) | ⟨_, rfl⟩
    · exact Or.inl (hb _ t ht)
    · simp only [List.mem_append] at ht
      rcases ht with (ht | ht) | ht
      · exact Or.inl (hb _ t ht)
      · exact Or.inr ⟨l0, hl0, ht⟩
      · exact Or.inl (hb _ t ht)
    · exact Or.inl (hb _ t ht)

/-- what must be known about the tokens of an old-API draw: `A` of the frames', the `_clear_frame`
    and the hook's tokens; all three of the control tokens. Nothing like `Q` (being harmless when cut
    without a hook) is asked of the frames: every cut of a frame write is followed by the hook. -/
structure OldToks (A Q H R : Tok → Prop) (c : OldCfg) (frames : List (Bool × Lines)) : Prop where
  frame : ∀ t, FrameTok frames t → A t
  clear : ∀ t ∈ c.clear, A t
  hook : ∀ t ∈ c.hook, A t
  frameH : ∀ t, FrameTok frames t → H t
  clearH : ∀ t ∈ c.clear, H t
  qh : ∀ t, Q t → H t
  ctl : ∀ t, Ctl (some .blank) t → A t ∧ Q t
  rcud : ∀ n, R (.cud n)

theorem OldToks.fmt {c : OldCfg} {frames : List (Bool × Lines)} (h : OldToks A Q H R c frames)
    (f : Bool × Lines) (hf : f ∈ frames) : ∀ t ∈ joinLines (c.fmtLines f.2), A t ∧ H t := by
  intro t ht
  rcases mem_fmtLines ht with hc | ⟨l, hl, htl⟩
  · exact ⟨(h.ctl t hc).1, h.qh t (h.ctl t hc).2⟩
  · exact ⟨h.frame t ⟨f, hf, l, hl, htl⟩, h.frameH t ⟨f, hf, l, hl, htl⟩⟩

theorem OldToks.up {c : OldCfg} {frames : List (Bool × Lines)} (h : OldToks A Q H R c frames) :
    ∀ t ∈ cursorUp ((c.Hp : Nat) - 1 : Int), A t ∧ Q t :=
  fun t ht => h.ctl t (ctl_cursorUp _ _ t ht)

theorem pseudo_toks {c : OldCfg} {frames : List (Bool × Lines)} (h : OldToks A Q H R c frames) :
    ∀ t ∈ joinLines (c.fmtLines (List.replicate c.lines [Tok.ech c.cols, Tok.cuf c.cols])), A t ∧ Q t := by
  intro t ht
  rcases mem_fmtLines ht with hc | ⟨l, hl, htl⟩
  · exact h.ctl t hc
  · simp only [List.mem_replicate] at hl
    rw [hl.2] at htl
    simp only [List.mem_cons, List.not_mem_nil, or_false] at htl
    rcases htl with rfl | rfl
    · exact h.ctl _ (.ech _)
    · exact h.ctl _ (.cuf _)

/-- the outcome a handler of the old API ends with -/
def oldOutcome : Exc → Outcome
  | .kbd => .ok
  | .err => .raised .err

theorem oldHandler_run (hook : List Tok) (e : Exc) (w : World) :
    ∃ w', run (Prog.ofList [.act .markFirst, hookProg hook, match e with | .kbd => .done | .err => .raise .err]) none w
        = (w', none, oldOutcome e) ∧ w'.out = w.out ++ hook.map .tok := by
  cases e <;> simp [Prog.ofList, run, Act.effectful, World.apply, hookProg_run, oldOutcome]

theorem displayAnimated_spec (c : OldCfg) (frames : List (Bool × Lines)) (h : OldToks A Q H R c frames) :
    Spec A Q H R c.hook 2 (c.displayAnimated frames) := by
  cases frames with
  | nil => exact spec_done
  | cons f0 rest =>
    obtain ⟨b0, f0⟩ := f0
    have hw0 : ∀ ts : List Tok, (∀ t ∈ ts, A t ∧ H t) → Spec A H H R c.hook 0 (wr ts) :=
      fun ts hts => spec_wr ts (fun t ht => (hts t ht).1) (fun t ht => (hts t ht).2)
    have hwq : ∀ ts : List Tok, (∀ t ∈ ts, A t ∧ Q t) → Spec A Q H R c.hook 0 (wr ts) :=
      fun ts hts => spec_wr ts (fun t ht => (hts t ht).1) (fun t ht => (hts t ht).2)
    have q0 : ∀ a : Act, (∀ ts, a ≠ .write ts) → Spec A H H R c.hook 0 (.act a) := fun a ha => spec_act_quiet a ha
    have hctlH : ∀ t, Ctl (some Glyph.blank) t → A t ∧ H t := fun t ht => ⟨(h.ctl t ht).1, h.qh t (h.ctl t ht).2⟩
    have hpre : Spec A Q H R c.hook 0 c.daPre := by
      unfold OldCfg.daPre
      apply spec_when
      simp only [Prog.ofList]
      exact spec_seq (hwq _ (pseudo_toks h)) (by omega) <|
        spec_seq (hwq _ (by simp; exact h.ctl _ .cr)) (by omega) <|
        spec_seq (hwq _ h.up) (by omega) (spec_act_quiet _ (by simp))
    have hloop : Spec A H H R c.hook 0 (Prog.forEach rest (fun f => Prog.ofList [
        Prog.when f.1 (.act .render), .act .touchSeek, .act .sleep, wr c.clear,
        wr [Tok.cr], wr (cursorUp ((c.Hp : Nat) - 1 : Int)), wr (joinLines (c.fmtLines f.2)), .act .flush ])) := by
      apply spec_forEach _ _ (by omega)
      intro f hf
      simp only [Prog.ofList]
      exact spec_seq (spec_when _ (q0 _ (by simp))) (by omega) <|
        spec_seq (q0 _ (by simp)) (by omega) <|
        spec_seq (q0 _ (by simp)) (by omega) <|
        spec_seq (hw0 _ (fun t ht => ⟨h.clear t ht, h.clearH t ht⟩)) (by omega) <|
        spec_seq (hw0 _ (by simp; exact hctlH _ .cr)) (by omega) <|
        spec_seq (hw0 _ (fun t ht => hctlH t (ctl_cursorUp _ _ t ht))) (by omega) <|
        spec_seq (hw0 _ (h.fmt f (by simp [hf]))) (by omega) (q0 _ (by simp))
    have htry : Spec A Q H R c.hook 2 (c.daTry f0 rest) := by
      have hbody : Spec A H H R c.hook 0 (Prog.ofList [
          .act .render, .act .touchSeek, wr (joinLines (c.fmtLines f0)), .act .flush,
          Prog.forEach rest (fun f => Prog.ofList [
            Prog.when f.1 (.act .render), .act .touchSeek, .act .sleep, wr c.clear,
            wr [Tok.cr], wr (cursorUp ((c.Hp : Nat) - 1 : Int)), wr (joinLines (c.fmtLines f.2)), .act .flush ]) ]) := by
        simp only [Prog.ofList]
        exact spec_seq (q0 _ (by simp)) (by omega) <|
          spec_seq (q0 _ (by simp)) (by omega) <|
          spec_seq (hw0 _ (h.fmt (b0, f0) (by simp))) (by omega) <|
          spec_seq (q0 _ (by simp)) (by omega) hloop
      unfold OldCfg.daTry
      exact spec_handler _ _ _ oldOutcome (by omega) (by simp) hbody (Or.inr (fun _ => rfl)) (fun _ ht => ht) h.hook
        (fun e w _ => oldHandler_run c.hook e w)
    have hfin : Spec (fun t => A t ∧ R t) Q H R c.hook 0 c.daFin := by
      unfold OldCfg.daFin
      simp only [Prog.ofList]
      apply spec_seq (spec_act_quiet _ (by simp)) (by omega)
      apply spec_seq (spec_act_quiet _ (by simp)) (by omega)
      apply spec_ifFirst _ spec_done
      exact spec_wr _ (by simp; exact ⟨(h.ctl _ (.cud _)).1, h.rcud _⟩) (by simp; exact (h.ctl _ (.cud _)).2)
    simp only [OldCfg.displayAnimated]
    exact spec_seq2 hpre (by omega) (by omega) <|
      spec_seq2 (lp := 0) (spec_act_quiet _ (by simp)) (by omega) (by omega) (spec_tryFinally (by omega) htry hfin)

/-- the body of the `try` in the old `draw()`'s inner `render()` -/
theorem oldBody_spec (c : OldCfg) (frames : List (Bool × Lines)) (h : OldToks A Q H R c frames) :
    Spec A Q H R c.hook 2 (oldBody c frames) := by
  unfold oldBody
  simp only [Prog.ofList]
  have hhide : Spec A Q H R c.hook 0 (Prog.when c.tty (.seq (.act (.write [Tok.hideCur])) (.act .flush))) :=
    spec_when _ (spec_seq (spec_write _ (by simp; exact (h.ctl _ .hide).1) (by simp; exact (h.ctl _ .hide).2))
      (by omega) (spec_act_quiet _ (by simp)))
  refine spec_seq2 hhide (by omega) (by omega) ?_
  split
  · exact displayAnimated_spec c frames h
  · split
    · exact spec_done
    · rename_i b0 f0 rest
      have hbody : Spec A H H R c.hook 0
          (Prog.ofList [.act .render, wr (joinLines (c.fmtLines f0)), .act .flush]) := by
        simp only [Prog.ofList]
        exact spec_seq (spec_act_quiet _ (by simp)) (by omega) <|
          spec_seq (spec_wr _ (fun t ht => (h.fmt (b0, f0) (by simp) t ht).1) (fun t ht => (h.fmt (b0, f0) (by simp) t ht).2))
            (by omega) (spec_act_quiet _ (by simp))
      refine spec_handler _ _ _ (fun e => .raised e) (by omega) (by simp) hbody (Or.inr (fun _ => rfl)) (fun _ ht => ht) h.hook ?_
      intro e w _
      exact ⟨{ w with out := w.out ++ c.hook.map .tok }, by simp [run, hookProg_run], rfl⟩

end TIV.C07
