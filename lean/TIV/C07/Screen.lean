import TIV.C07.Parser
import TIV.Common.ScanProofs
/-!
# C07 — what the terminal makes of a (possibly cut) stream: parser facts about tokens, and the
attribute machine `AT` (parser state + cursor visibility + "text attributes are default")
-/
namespace TIV.C07
open TIV TIV.C06

/-! ## the parser agrees with the strict scanner on everything the scanner accepts -/

def conv : Scan.St → PState
  | .ground => .ground | .esc => .esc | .csi => .csi | .str => .str | .strEsc => .strEsc | .bad => .ground

theorem esc_eq : ESC = '\x1b' := by decide

theorem step_sim (s : Scan.St) (c : Char) (h : Scan.step s c ≠ .bad) : pstep (conv s) c = conv (Scan.step s c) := by
  cases s with
  | ground =>
    by_cases h1 : c = '\x1b'
    · simp [Scan.step, conv, pstep, esc_eq, h1]
    · by_cases h2 : (Scan.isPrint c || c = '\n' || c = '\r' || c = '\x00') = true
      · simp [Scan.step, conv, pstep, esc_eq, h1, h2]
      · simp [Scan.step, h1, h2] at h
  | esc =>
    by_cases h1 : c = '['
    · subst h1; decide
    · by_cases h2 : (c = '_' || c = ']' || c = 'P') = true
      · simp only [Bool.or_eq_true, decide_eq_true_eq] at h2
        rcases h2 with (rfl | rfl) | rfl <;> decide
      · by_cases h3 : c = '\\'
        · subst h3; decide
        · simp [Scan.step, h1, h2, h3] at h
  | csi =>
    by_cases hp : Scan.isParam c = true
    · have h2 : 0x30 ≤ c.toNat ∧ c.toNat ≤ 0x3f := by simpa [Scan.isParam] using hp
      have h3 : c ≠ ESC := by intro hc; rw [hc] at h2; revert h2; decide
      have h4 : ¬ (0x40 ≤ c.toNat ∧ c.toNat ≤ 0x7e) := by omega
      simp [Scan.step, conv, pstep, hp, h3, h4]
    · by_cases hf : Scan.isFinal c = true
      · have h2 : 0x40 ≤ c.toNat ∧ c.toNat ≤ 0x7e := by simpa [Scan.isFinal] using hf
        have h3 : c ≠ ESC := by intro hc; rw [hc] at h2; revert h2; decide
        simp [Scan.step, conv, pstep, hp, hf, h3, h2]
      · simp [Scan.step, hp, hf] at h
  | str =>
    by_cases h1 : c = '\x1b'
    · simp [Scan.step, conv, pstep, esc_eq, h1]
    · by_cases h2 : Scan.isStrChar c = true
      · simp [Scan.step, conv, pstep, esc_eq, h1, h2]
      · simp [Scan.step, h1, h2] at h
  | strEsc =>
    by_cases h1 : c = '\\'
    · simp [Scan.step, conv, pstep, h1]
    · simp [Scan.step, h1] at h
  | bad => simp [Scan.step] at h

theorem bad_absorbs (cs : List Char) : Scan.run .bad cs = .bad := by
  induction cs with
  | nil => rfl
  | cons c cs ih => simpa [Scan.run_cons, Scan.step] using ih

theorem run_sim (cs : List Char) : ∀ s, Scan.run s cs ≠ .bad → pfeed (conv s) cs = conv (Scan.run s cs) := by
  induction cs with
  | nil => intro s _; rfl
  | cons c cs ih =>
    intro s h
    rw [Scan.run_cons] at h ⊢
    have hs : Scan.step s c ≠ .bad := by
      intro hb; rw [hb, bad_absorbs] at h; exact h rfl
    show pfeed (pstep (conv s) c) cs = _
    rw [step_sim s c hs]
    exact ih _ h

/-- a well-formed token, complete, takes the parser from ground to ground -/
theorem wf_ground (t : Tok) (h : Scan.WfTok t) : pfeed .ground (itemChars (.tok t)) = .ground := by
  have hc := Scan.tok_complete t h
  have := run_sim t.str.toList .ground (by rw [hc]; decide)
  rw [hc] at this
  exact this

theorem wf_stream_ground (ts : List Tok) (h : ∀ t ∈ ts, Scan.WfTok t) :
    ∀ s, s = PState.ground → pfeed s (streamChars (ts.map .tok)) = .ground := by
  induction ts with
  | nil => intro s hs; simpa [streamChars, pfeed] using hs
  | cons t ts ih =>
    intro s hs
    subst hs
    simp only [List.map_cons, streamChars, List.flatMap_cons]
    rw [pfeed_append]
    have := wf_ground t (h t (by simp))
    rw [this]
    exact ih (fun u hu => h u (by simp [hu])) _ rfl


/-! ## tokens whose cut cannot open a control string -/

/-- no `ESC` at all, or `ESC`, one harmless character (`[`, `\\`, …), then no further `ESC` -/
def SafeChars (cs : List Char) : Prop :=
  ESC ∉ cs ∨ ∃ c rest, cs = ESC :: c :: rest ∧ isStrIntro c = false ∧ c ≠ ESC ∧ 0x20 ≤ c.toNat ∧ ESC ∉ rest

/-- a token any prefix of whose serialisation leaves the parser outside a control string -/
def SafeTok (t : Tok) : Prop := SafeChars t.str.toList

theorem noesc_stays (cs : List Char) (h : ESC ∉ cs) : ∀ s, (s = PState.ground ∨ s = .csi) →
    (pfeed s cs = .ground ∨ pfeed s cs = .csi) := by
  induction cs with
  | nil => intro s hs; exact hs
  | cons c cs ih =>
    intro s hs
    have hc : c ≠ ESC := fun e => h (by simp [e])
    have hcs : ESC ∉ cs := fun e => h (by simp [e])
    show pfeed (pstep s c) cs = _ ∨ _
    apply ih hcs
    rcases hs with rfl | rfl
    · left; simp [pstep, hc]
    · simp only [pstep, hc, if_false]; split <;> simp

theorem open_of_gc {s : PState} (h : s = .ground ∨ s = .csi) : s.open = true := by
  rcases h with rfl | rfl <;> rfl

theorem safe_prefix_open (cs : List Char) (h : SafeChars cs) (d : Nat) : (pfeed .ground (cs.take d)).open = true := by
  rcases h with h | ⟨c, rest, rfl, h1, h2, h3, h4⟩
  · exact open_of_gc (noesc_stays _ (fun hm => h (List.mem_of_mem_take hm)) _ (Or.inl rfl))
  · match d with
    | 0 => rfl
    | 1 => simp [pfeed, pstep, PState.open]
    | d + 2 =>
      simp only [List.take_succ_cons]
      show (pfeed (pstep (pstep .ground ESC) c) (rest.take d)).open = true
      have e1 : pstep .ground ESC = .esc := by simp [pstep]
      rw [e1]
      have e2 : pstep .esc c = .csi ∨ pstep .esc c = .ground := by
        have h3' : ¬ c.toNat < 0x20 := by omega
        simp only [pstep, h2, if_false, h3', h1, Bool.false_eq_true]
        split <;> simp
      apply open_of_gc
      apply noesc_stays _ (fun hm => h4 (List.mem_of_mem_take hm))
      rcases e2 with e | e <;> rw [e] <;> simp

theorem safe_cut_open (t : Tok) (h : SafeTok t) (d : Nat) : (pfeed .ground (itemChars (.cut t d))).open = true :=
  safe_prefix_open _ h d

/-! ### the control tokens are well formed and safe -/

private theorem l_csi : "\x1b[".toList = ['\x1b', '['] := by decide
private theorem l_A : "A".toList = ['A'] := by decide
private theorem l_B : "B".toList = ['B'] := by decide
private theorem l_C : "C".toList = ['C'] := by decide
private theorem l_X : "X".toList = ['X'] := by decide

theorem param_ne_esc {c : Char} (h : Scan.isParam c = true) : c ≠ ESC := by
  intro hc; rw [hc] at h; revert h; decide

/-- `ESC [ <digits> <final>` -/
theorem csi_n_safe (n : Nat) (f : Char) (hf : f ≠ ESC) : SafeChars ('\x1b' :: '[' :: ((toString n).toList ++ [f])) := by
  refine Or.inr ⟨'[', (toString n).toList ++ [f], by rw [esc_eq], by decide, by decide, by decide, ?_⟩
  intro hm
  simp only [List.mem_append, List.mem_singleton] at hm
  rcases hm with hm | hm
  · exact param_ne_esc (Scan.natStr_params n _ hm) rfl
  · exact hf hm.symm

theorem cuu_chars (n : Nat) : (Tok.cuu n).str.toList = '\x1b' :: '[' :: ((toString n).toList ++ ['A']) := by
  simp [Tok.str, fill, GenCtl.CURSOR_UP, l_csi, l_A]
theorem cud_chars (n : Nat) : (Tok.cud n).str.toList = '\x1b' :: '[' :: ((toString n).toList ++ ['B']) := by
  simp [Tok.str, fill, GenCtl.CURSOR_DOWN, l_csi, l_B]
theorem cuf_chars (n : Nat) : (Tok.cuf n).str.toList = '\x1b' :: '[' :: ((toString n).toList ++ ['C']) := by
  simp [Tok.str, fill, GenCtl.CURSOR_FORWARD, l_csi, l_C]
theorem ech_chars (n : Nat) : (Tok.ech n).str.toList = '\x1b' :: '[' :: ((toString n).toList ++ ['X']) := by
  simp [Tok.str, fill, GenCtl.ERASE_CHARS, l_csi, l_X]

theorem safe_cuu (n : Nat) : SafeTok (.cuu n) := by unfold SafeTok; rw [cuu_chars]; exact csi_n_safe n 'A' (by decide)
theorem safe_cud (n : Nat) : SafeTok (.cud n) := by unfold SafeTok; rw [cud_chars]; exact csi_n_safe n 'B' (by decide)
theorem safe_cuf (n : Nat) : SafeTok (.cuf n) := by unfold SafeTok; rw [cuf_chars]; exact csi_n_safe n 'C' (by decide)
theorem safe_ech (n : Nat) : SafeTok (.ech n) := by unfold SafeTok; rw [ech_chars]; exact csi_n_safe n 'X' (by decide)

theorem safe_glyph (g : Glyph) (h : Scan.WfTok (.glyph g)) : SafeTok (.glyph g) := by
  cases g with
  | blank => exact Or.inl (by decide)
  | upper => exact Or.inl (by decide)
  | lower => exact Or.inl (by decide)
  | ch c =>
    have hp : Scan.isPrint c = true := h
    refine Or.inl ?_
    simp only [Tok.str, Glyph.str, String.toList_singleton, List.mem_singleton]
    intro hc
    rw [← hc] at hp
    revert hp; decide


/-! ## from an open state -/

/-- `ESC [ <params> <final>` fed in any state outside a control string is interpreted to the end -/
theorem csi_from_open (ps : List Char) (f : Char) (hp : ∀ c ∈ ps, Scan.isParam c = true)
    (hf : 0x40 ≤ f.toNat ∧ f.toNat ≤ 0x7e) (s : PState) (hs : s.open = true) :
    pfeed s ('\x1b' :: '[' :: (ps ++ [f])) = .ground := by
  have e1 : pstep s '\x1b' = .esc := by
    cases s <;> simp [PState.open] at hs <;> simp [pstep, esc_eq]
  have e2 : pstep .esc '[' = .csi := by decide
  show pfeed (pstep (pstep s '\x1b') '[') (ps ++ [f]) = .ground
  rw [e1, e2, pfeed_append]
  have e3 : pfeed .csi ps = .csi := by
    clear hf e1 e2
    induction ps with
    | nil => rfl
    | cons c cs ih =>
      have h2 : 0x30 ≤ c.toNat ∧ c.toNat ≤ 0x3f := by simpa [Scan.isParam] using hp c (by simp)
      have h3 : c ≠ ESC := param_ne_esc (hp c (by simp))
      have h4 : ¬ (0x40 ≤ c.toNat ∧ c.toNat ≤ 0x7e) := by omega
      show pfeed (pstep .csi c) cs = .csi
      simp only [pstep, h3, h4, if_false]
      exact ih (fun x hx => hp x (by simp [hx]))
  rw [e3]
  have h3 : f ≠ ESC := by intro hc; rw [hc] at hf; revert hf; decide
  simp [pfeed, pstep, h3, hf]

/-- a token that, met in any state outside a control string, is interpreted completely -/
def Resync (t : Tok) : Prop := ∀ s : PState, s.open = true → pfeed s t.str.toList = .ground

theorem resync_cud (n : Nat) : Resync (.cud n) := by
  intro s hs; rw [cud_chars]; exact csi_from_open _ 'B' (Scan.natStr_params n) (by decide) s hs
theorem resync_cuu (n : Nat) : Resync (.cuu n) := by
  intro s hs; rw [cuu_chars]; exact csi_from_open _ 'A' (Scan.natStr_params n) (by decide) s hs
theorem resync_cuf (n : Nat) : Resync (.cuf n) := by
  intro s hs; rw [cuf_chars]; exact csi_from_open _ 'C' (Scan.natStr_params n) (by decide) s hs
theorem resync_sgr0 : Resync .sgr0 := by intro s hs; cases s <;> simp [PState.open] at hs <;> decide
theorem resync_show : Resync .showCur := by intro s hs; cases s <;> simp [PState.open] at hs <;> decide
theorem resync_st : Resync .st := by intro s hs; cases s <;> simp [PState.open] at hs <;> decide

/-- a list of `Resync` tokens keeps the parser outside control strings -/
theorem resync_stream (ts : List Tok) (h : ∀ t ∈ ts, Resync t) (s : PState) (hs : s.open = true) :
    (pfeed s (streamChars (ts.map .tok))).open = true := by
  induction ts generalizing s with
  | nil => simpa [streamChars, pfeed] using hs
  | cons t ts ih =>
    simp only [List.map_cons, streamChars, List.flatMap_cons]
    rw [pfeed_append]
    have : pfeed s (itemChars (.tok t)) = .ground := h t (by simp) s hs
    rw [this]
    exact ih (fun u hu => h u (by simp [hu])) _ rfl

/-! ## the attribute machine -/

/-- parser state, CSI parameter bytes collected so far, cursor visible, text attributes default -/
structure AT where
  p : PState := .ground
  params : List Char := []
  vis : Bool := true
  sgr : Bool := true
deriving DecidableEq, Repr

/-- a definition, like `Term`: DECTCEM (`CSI ? 25 h/l`) and SGR (`CSI m` / `CSI 0 m` reset, anything else
    sets an attribute) are what the property speaks about; every other sequence is parsed and ignored -/
def AT.step (a : AT) (c : Char) : AT :=
  match a.p with
  | .csi =>
    if c = ESC then { a with p := .esc }
    else if 0x40 ≤ c.toNat ∧ c.toNat ≤ 0x7e then
      if c = 'h' ∧ a.params = ['?', '2', '5'] then { a with p := .ground, params := [], vis := true }
      else if c = 'l' ∧ a.params = ['?', '2', '5'] then { a with p := .ground, params := [], vis := false }
      else if c = 'm' then { a with p := .ground, params := [], sgr := decide (a.params = [] ∨ a.params = ['0']) }
      else { a with p := .ground, params := [] }
    else if c.toNat < 0x20 then a
    else { a with params := a.params ++ [c] }
  | .esc => { a with p := pstep .esc c, params := [] }
  | s => { a with p := pstep s c }

def AT.feed (a : AT) (cs : List Char) : AT := cs.foldl AT.step a

theorem AT.feed_append (a : AT) (x y : List Char) : a.feed (x ++ y) = (a.feed x).feed y := by
  simp [AT.feed, List.foldl_append]

theorem AT.step_p (a : AT) (c : Char) : (a.step c).p = pstep a.p c := by
  obtain ⟨p, params, vis, sgr⟩ := a
  cases p <;> simp only [AT.step, pstep]
  · split
    · rfl
    · split
      · split
        · rfl
        · split
          · rfl
          · split <;> rfl
      · split <;> rfl

theorem AT.feed_p (a : AT) (cs : List Char) : (a.feed cs).p = pfeed a.p cs := by
  induction cs generalizing a with
  | nil => rfl
  | cons c cs ih =>
    show ((a.step c).feed cs).p = pfeed (pstep a.p c) cs
    rw [ih, AT.step_p]

/-- `SHOW_CURSOR` met outside a control string: the cursor is visible afterwards, nothing else changes -/
theorem show_from_open (a : AT) (h : a.p.open = true) :
    let a' := a.feed (itemChars (.tok .showCur))
    a'.p = .ground ∧ a'.vis = true ∧ a'.sgr = a.sgr := by
  obtain ⟨p, params, vis, sgr⟩ := a
  have e : itemChars (.tok .showCur) = ['\x1b', '[', '?', '2', '5', 'h'] := by decide
  rw [e]
  cases p <;> simp [PState.open] at h <;>
    simp [AT.feed, AT.step, pstep, esc_eq, isStrIntro]

/-- `SGR_DEFAULT` met outside a control string: attributes are default afterwards -/
theorem sgr0_from_open (a : AT) (h : a.p.open = true) :
    let a' := a.feed (itemChars (.tok .sgr0))
    a'.p = .ground ∧ a'.sgr = true ∧ a'.vis = a.vis := by
  obtain ⟨p, params, vis, sgr⟩ := a
  have e : itemChars (.tok .sgr0) = ['\x1b', '[', 'm'] := by decide
  rw [e]
  cases p <;> simp [PState.open] at h <;>
    simp [AT.feed, AT.step, pstep, esc_eq, isStrIntro]

/-- a line feed changes neither the attributes nor whether the parser is outside a string; in ground it
    stays in ground -/
theorem lf_keeps (a : AT) :
    let a' := a.feed (itemChars (.tok .lf))
    a'.vis = a.vis ∧ a'.sgr = a.sgr ∧ a'.p.open = a.p.open ∧ (a.p = .ground → a'.p = .ground) := by
  obtain ⟨p, params, vis, sgr⟩ := a
  have e : itemChars (.tok .lf) = ['\n'] := by decide
  rw [e]
  cases p <;> simp [AT.feed, AT.step, pstep, esc_eq, PState.open, isStrIntro]


/-! ### block-render tokens are safe to cut -/

private theorem l_fg : "\x1b[38;2;".toList = ['\x1b', '[', '3', '8', ';', '2', ';'] := by decide
private theorem l_bg : "\x1b[48;2;".toList = ['\x1b', '[', '4', '8', ';', '2', ';'] := by decide
private theorem l_semi : ";".toList = [';'] := by decide
private theorem l_m : "m".toList = ['m'] := by decide

theorem rgb_safe (p : List Char) (hp : ESC ∉ p) (r g b : Nat) :
    SafeChars ('\x1b' :: '[' :: (p ++ (toString r).toList ++ [';'] ++ (toString g).toList ++ [';'] ++
      (toString b).toList ++ ['m'])) := by
  refine Or.inr ⟨'[', _, by rw [esc_eq], by decide, by decide, by decide, ?_⟩
  intro hm
  simp only [List.mem_append, List.mem_singleton] at hm
  rcases hm with (((((h | h) | h) | h) | h) | h) | h
  · exact hp h
  · exact param_ne_esc (Scan.natStr_params r _ h) rfl
  · revert h; decide
  · exact param_ne_esc (Scan.natStr_params g _ h) rfl
  · revert h; decide
  · exact param_ne_esc (Scan.natStr_params b _ h) rfl
  · revert h; decide

theorem safe_fg (c : RGB) : SafeTok (.fg c) := by
  obtain ⟨r, g, b⟩ := c
  have := rgb_safe ['3', '8', ';', '2', ';'] (by decide) r g b
  unfold SafeTok
  simpa [Tok.str, fill, GenCtl.SGR_FG_DIRECT, l_fg, l_semi, l_m] using this

theorem safe_bg (c : RGB) : SafeTok (.bg c) := by
  obtain ⟨r, g, b⟩ := c
  have := rgb_safe ['4', '8', ';', '2', ';'] (by decide) r g b
  unfold SafeTok
  simpa [Tok.str, fill, GenCtl.SGR_BG_DIRECT, l_bg, l_semi, l_m] using this

theorem safe_sgr0 : SafeTok .sgr0 :=
  Or.inr ⟨'[', ['m'], by decide, by decide, by decide, by decide, by decide⟩

end TIV.C07
