import TIV.C07.Proofs
import TIV.C06.Generated
/-!
# C07 — an interrupted draw() still restores the terminal and the image.

Every theorem is `∀ plan` (`plan = none`: no fault; `some ⟨k, j, d, exc⟩`: the `k`-th effectful
action — write, flush, sleep, render, tcsetattr — delivers the first `j` tokens and `d` characters
of the next one and raises `exc`), `∀ frames` (any number, any content, any cache pattern),
`∀` configuration that passed validation, `∀` initial world. The operation's own clean-up
(`Prog.cleanup`) runs fault-free: that is the property's proviso "before its own clean-up starts";
faults inside `_animate_`'s / `_display_animated`'s inner `finally` ARE covered.
-/
namespace TIV.C07
open TIV TIV.C06

/-! ## new API: the shape of every run -/

/-- what `Renderable.draw`'s `finally` does to a world -/
def newFin (c : NewCfg) (w : World) : World :=
  { w with
    out := w.out ++ [Item.tok Tok.lf] ++ (if c.hide then [Item.tok Tok.showCur] else []),
    attr := if c.notEcho then w.savedAttr else w.attr,
    finalized := if w.finalized = 0 then 1 else w.finalized }

theorem newFin_run (c : NewCfg) (w : World) : run (newFinProg c) none w = (newFin c w, none, .ok) := by
  unfold newFinProg newFin
  cases h1 : c.notEcho <;> cases h2 : c.hide <;>
    simp [run, Prog.when, Prog.ofList, Act.effectful, World.apply]

/-- under every fault plan `draw()` = set-up, body (whatever happens in it), the complete clean-up -/
theorem new_shape (c : NewCfg) (frames : List (Bool × Lines)) (plan : Option Plan) (w : World)
    (hv : c.validate = none) :
    run (newProg c frames) plan w =
      (newFin c (run (newBody c frames) plan (if c.notEcho then { w with savedAttr := w.attr } else w)).1, none,
       (run (newBody c frames) plan (if c.notEcho then { w with savedAttr := w.attr } else w)).2.2) := by
  have e0 : newProg c frames =
      .seq (Prog.when c.notEcho (.act .tcget)) (.cleanup (newBody c frames) (newFinProg c)) := by
    simp [newProg, hv]
  have e1 : run (Prog.when c.notEcho (.act .tcget)) plan w =
      ((if c.notEcho then { w with savedAttr := w.attr } else w), plan, .ok) := by
    cases c.notEcho <;> simp [Prog.when, run, Act.effectful, World.apply]
  rw [e0, run, e1]
  simp only [run, newFin_run]

/-- the body of the `try` only writes, flushes, sleeps, renders, closes the iterator — and
    switches echo off -/
def Act.bodyAct (a : Act) : Prop := Act.plain a ∨ a = .tcsetNoEcho

theorem newBody_all (c : NewCfg) (frames : List (Bool × Lines)) : All Act.bodyAct (newBody c frames) := by
  unfold newBody
  simp only [Prog.ofList, All]
  refine ⟨all_when _ _ _ (fun _ => Or.inl trivial), all_when _ _ _ (fun _ => Or.inr rfl), ?_⟩
  split
  · exact all_mono (fun a h => Or.inl h) _ (animate_plain c frames)
  · split
    · trivial
    · exact ⟨Or.inl trivial, all_guarded _ _ _ _ (fun _ => Or.inl trivial) (Or.inl trivial) trivial⟩

/-- a body action (completed or interrupted) keeps the saved attributes, the finalisation
    count, the seek position and the size setting; a plain one also the attributes themselves -/
theorem bodyAct_keeps (a : Act) (h : Act.bodyAct a) (w : World) :
    ((w.apply a).savedAttr = w.savedAttr ∧ (w.apply a).finalized = w.finalized ∧
      (w.apply a).seek = w.seek ∧ (w.apply a).size = w.size) ∧
    ∀ j d, (w.applyFault j d a).savedAttr = w.savedAttr ∧ (w.applyFault j d a).finalized = w.finalized ∧
      (w.applyFault j d a).seek = w.seek ∧ (w.applyFault j d a).size = w.size := by
  rcases h with h | h
  · cases a <;> simp [Act.plain] at h <;> simp [World.apply, World.applyFault]
  · subst h
    refine ⟨by simp [World.apply], fun j d => ?_⟩
    simp only [World.applyFault]; split <;> simp

theorem plain_keeps_attr (a : Act) (h : Act.plain a) (w : World) :
    (w.apply a).attr = w.attr ∧ ∀ j d, (w.applyFault j d a).attr = w.attr := by
  cases a <;> simp [Act.plain] at h <;> simp [World.apply, World.applyFault]

/-- int_attrs_restored (new API): echo and every other terminal attribute are exactly as before
    the call — on normal return, `KeyboardInterrupt` or exception at any action, with the
    interrupted `tcsetattr` having taken effect or not -/
theorem int_attrs_restored (c : NewCfg) (frames : List (Bool × Lines)) (plan : Option Plan) (w : World)
    (hv : c.validate = none) : (run (newProg c frames) plan w).1.attr = w.attr := by
  rw [new_shape c frames plan w hv]
  cases hne : c.notEcho
  · -- echo is not touched at all: no action of the body changes the attributes
    simp only [newFin, hne, Bool.false_eq_true, if_false]
    have hall : All Act.plain (newBody c frames) := by
      unfold newBody
      simp only [Prog.ofList, All, hne]
      refine ⟨all_when _ _ _ (fun _ => trivial), by simp [Prog.when, All], ?_⟩
      split
      · exact animate_plain c frames
      · split
        · trivial
        · exact ⟨trivial, all_guarded _ _ _ _ (fun _ => trivial) trivial trivial⟩
    exact run_inv (fun x => x.attr = w.attr) Act.plain
      (fun a ha x hx => ⟨by rw [(plain_keeps_attr a ha x).1]; exact hx,
        fun j d => by rw [(plain_keeps_attr a ha x).2 j d]; exact hx⟩) _ hall plan w rfl
  · simp only [newFin, hne, if_true]
    exact run_inv (fun x => x.savedAttr = w.attr) Act.bodyAct
      (fun a ha x hx => ⟨by rw [(bodyAct_keeps a ha x).1.1]; exact hx,
        fun j d => by rw [((bodyAct_keeps a ha x).2 j d).1]; exact hx⟩) _ (newBody_all c frames) plan
      { w with savedAttr := w.attr } rfl

/-- int_finalized: the render data is finalized (exactly once: `RenderData.finalize` is idempotent
    and `draw()` is its only caller here) on every path -/
theorem int_finalized (c : NewCfg) (frames : List (Bool × Lines)) (plan : Option Plan) (w : World)
    (hv : c.validate = none) (h0 : w.finalized = 0) : (run (newProg c frames) plan w).1.finalized = 1 := by
  rw [new_shape c frames plan w hv]
  have : (run (newBody c frames) plan (if c.notEcho then { w with savedAttr := w.attr } else w)).1.finalized = 0 :=
    run_inv (fun x => x.finalized = 0) Act.bodyAct
      (fun a ha x hx => ⟨by rw [(bodyAct_keeps a ha x).1.2.1]; exact hx,
        fun j d => by rw [((bodyAct_keeps a ha x).2 j d).2.1]; exact hx⟩) _ (newBody_all c frames) plan _
      (by cases c.notEcho <;> exact h0)
  simp [newFin, this]

/-- int_size_frame_restored (new API): `draw()` never moves the renderable's frame or size -/
theorem int_frame_kept (c : NewCfg) (frames : List (Bool × Lines)) (plan : Option Plan) (w : World)
    (hv : c.validate = none) :
    (run (newProg c frames) plan w).1.seek = w.seek ∧ (run (newProg c frames) plan w).1.size = w.size := by
  rw [new_shape c frames plan w hv]
  have := run_inv (fun x => x.seek = w.seek ∧ x.size = w.size) Act.bodyAct
      (fun a ha x hx => ⟨by rw [(bodyAct_keeps a ha x).1.2.2.1, (bodyAct_keeps a ha x).1.2.2.2]; exact hx,
        fun j d => by rw [((bodyAct_keeps a ha x).2 j d).2.2.1, ((bodyAct_keeps a ha x).2 j d).2.2.2]; exact hx⟩)
      _ (newBody_all c frames) plan (if c.notEcho then { w with savedAttr := w.attr } else w)
      (by cases c.notEcho <;> exact ⟨rfl, rfl⟩)
  exact this

/-- the clean-up's writes are delivered completely and last, whatever happened before:
    `"\n"` and (on a tty with `hide_cursor`) `SHOW_CURSOR` -/
theorem cleanup_last (c : NewCfg) (frames : List (Bool × Lines)) (plan : Option Plan) (w : World)
    (hv : c.validate = none) :
    ∃ pre, (run (newProg c frames) plan w).1.out =
      pre ++ [Item.tok Tok.lf] ++ (if c.hide then [Item.tok Tok.showCur] else []) := by
  rw [new_shape c frames plan w hv]
  exact ⟨_, rfl⟩


/-! ## who gets to see the exception -/

/-- int_silent_vs_raise, animations: a `KeyboardInterrupt` raised by any action of the animation
    loop (first frame, any later frame, sleeps, renders, cursor moves) never leaves the `try` of
    `_animate_` -/
theorem anim_swallows_kbd (body : Prog) (h : Exc → Prog) (hk : h .kbd = .done) (plan : Option Plan) (w : World) :
    (run (.tryExcept body isKbd h) plan w).2.2 ≠ .raised .kbd := by
  unfold run
  generalize run body plan w = r
  obtain ⟨w1, f1, o1⟩ := r
  cases o1 with
  | ok => simp
  | returned => simp
  | raised e =>
    cases e with
    | kbd => simp [isKbd, hk, run]
    | err => simp [isKbd]

/-- a fault-free program made of writes and flushes ends normally -/
theorem wr_flush_ok (ts : List Tok) (w : World) : (run (.seq (wr ts) (.act .flush)) none w).2.2 = .ok := by
  unfold wr; split <;> simp [run, Act.effectful]

/-- int_silent_vs_raise (new API, animation): `draw()` returns normally when the interruption is a
    `KeyboardInterrupt` that fired before `_animate_`'s own `finally` (`f1 = none`: the fault has
    fired when the `finally` is entered) -/
theorem int_silent (c : NewCfg) (f0 : Bool × Lines) (rest : List (Bool × Lines)) (plan : Option Plan) (w : World) :
    ∃ tryPart fin, c.animate (f0 :: rest) = .fn (.tryFinally tryPart fin) ∧
      (run tryPart plan w).2.2 ≠ .raised .kbd ∧
      ((run tryPart plan w).2.1 = none → (run (c.animate (f0 :: rest)) plan w).2.2 ≠ .raised .kbd) := by
  obtain ⟨b0, f0⟩ := f0
  refine ⟨_, _, rfl, anim_swallows_kbd _ _ rfl plan w, ?_⟩
  intro hf
  have h1 := anim_swallows_kbd (Prog.ofList [
          .act .render,
          guardedWrite c.hook (joinLines (padLines c.pad c.w f0)) .ret,
          wr c.home0, .act .flush,
          .act .markFirst,
          Prog.forEach rest (fun f => Prog.ofList [
            Prog.when f.1 (.act .render),
            .act .sleep,
            wr c.clear,
            guardedWrite c.hook (joinSep c.pad.l f.2) .ret,
            wr c.home, .act .flush ]),
          .act .sleep ]) (fun _ => .done) rfl plan w
  simp only [NewCfg.animate]
  rw [run, run]
  generalize run (Prog.tryExcept _ isKbd fun _ => Prog.done) plan w = r at h1 hf ⊢
  obtain ⟨w1, f1, o1⟩ := r
  simp only at hf h1 ⊢
  subst hf
  have hfin : ∀ x : World, (run (.seq (.act .iterClose) (.ifFirst (.seq (wr c.down) (.act .flush)) .done)) none x).2.2 = .ok := by
    intro x
    unfold wr
    by_cases hd : c.down.isEmpty = true <;> simp [run, Act.effectful, World.apply, hd] <;> split <;> simp
  have := hfin w1
  generalize run (.seq (.act .iterClose) (.ifFirst (.seq (wr c.down) (.act .flush)) .done)) none w1 = r2 at this ⊢
  obtain ⟨w2, f2, o2⟩ := r2
  simp only at this
  subst this
  cases o1 <;> simp_all


/-! ## the parser: no graphics command is left unterminated -/

/-- int_parser_ground (recovery): from ANY parser state — i.e. after any cut of any write,
    in particular of a kitty APC or an iterm2 OSC — what `_handle_interrupted_draw` prints returns
    the parser to ground: `ST ST KITTY_END_CHUNKED` (kitty), `ST ST` (iterm2); the constants are
    regenerated from the live methods -/
theorem kitty_hook_recovers (s : PState) : pfeed s (streamChars (Generated.kittyHook.map .tok)) = .ground := by
  cases s <;> decide

theorem iterm_hook_recovers (s : PState) : pfeed s (streamChars (Generated.itermHook.map .tok)) = .ground := by
  cases s <;> decide

/-- translator tie: what the two `_handle_interrupted_draw` print is what their docstrings say —
    `ST` twice ("Konsole sometimes requires ST to be written twice"), kitty then the `m=0` end chunk -/
theorem hooks_as_documented :
    Generated.kittyHook = [Tok.st, Tok.st, Tok.kittyEndChunked] ∧ Generated.itermHook = [Tok.st, Tok.st] := by
  decide

/-- translator tie: `_handle_interrupted_draw_` is handed the NORMALIZED render arguments (`RenderArgs` of the renderable's
    own class) on every path — by the still-image branch of `draw()` (`real_render_args`), and by `_animate_`, which gets
    them from `draw()` as its `render_args` parameter. The model's hook (`hookProg`) therefore cannot fail on the
    arguments; a hook that is given the raw `render_args` of the caller raises before it has written anything. -/
theorem hook_gets_normalized_args :
    Generated.hookArgsStill = "real_render_args" ∧ Generated.animateArgs = "real_render_args" ∧
    Generated.hookArgsAnim = "render_args" := by decide

/-- translator tie: the only module-level aliases of `sys.stdout` in the package (names bound at import time, which keep
    pointing at the OLD stream when an application re-binds `sys.stdout`) are the two `_stdout_write`, and the only
    functions that write through them are the two explicit `clear()` class methods — no part of `draw()`'s interrupt
    handling or clean-up (`_handle_interrupted_draw`, the `finally` blocks) does: what they print reaches the stream
    that is being drawn to. (AST scan of the imported package, regenerated every run.) -/
theorem no_stdout_alias_in_cleanup :
    Generated.stdoutAliases = ["image.iterm2._stdout_write", "image.kitty._stdout_write"] ∧
    Generated.stdoutAliasUsers = ["image.iterm2.ITerm2Image.clear", "image.kitty.KittyImage.clear"] := by decide

/-- a single `ST` already does (the second one is for Konsole, says the code) -/
theorem st_recovers (s : PState) : pfeed s (itemChars (.tok .st)) = .ground := by
  cases s <;> decide

/-- an `ESC` restarts a cut CSI: when the parser is not inside a string, the clean-up of the new
    API (`"\n"`, `SHOW_CURSOR`) and of the old API (`SGR_DEFAULT`, `SHOW_CURSOR`, `"\n"`) is
    interpreted completely and leaves the parser in ground -/
theorem new_cleanup_interpreted (s : PState) (h : s.open = true) :
    pfeed s (streamChars [.tok .lf, .tok .showCur]) = .ground ∧ pfeed s (streamChars [.tok .lf]) ≠ .str := by
  cases s <;> simp [PState.open] at h <;> decide

theorem old_cleanup_interpreted (s : PState) (h : s.open = true) :
    pfeed s (streamChars [.tok .sgr0]) = .ground ∧
    pfeed s (streamChars [.tok .sgr0, .tok .showCur, .tok .lf]) = .ground := by
  cases s <;> simp [PState.open] at h <;> decide

/-- … and inside a string it is swallowed: without the `ST`s the cursor would stay hidden -/
theorem swallowed_without_st :
    pfeed .str (streamChars [.tok .sgr0, .tok .showCur, .tok .lf]) = .str := by decide

/-! ## old API -/

/-- what the `finally` of the old `draw()`'s inner `render()` does -/
def oldFin (c : OldCfg) (w : World) : World :=
  { w with out := w.out ++ [Item.tok Tok.sgr0] ++ (if c.tty then [Item.tok Tok.showCur] else []) ++ [Item.tok Tok.lf] }

theorem oldFin_run (c : OldCfg) (w : World) : run (oldFinProg c) none w = (oldFin c w, none, .ok) := by
  unfold oldFinProg oldFin
  cases h2 : c.tty <;> simp [run, Prog.when, Prog.ofList, wr, Act.effectful, World.apply]

/-- under every fault plan the old `draw()` = save the size setting, (set a dynamic size,) the body,
    the complete clean-up, restore the size setting -/
theorem old_shape (c : OldCfg) (frames : List (Bool × Lines)) (plan : Option Plan) (w : World)
    (hv : c.validate = none) :
    let w1 : World := { w with savedSize := w.size }
    let w2 : World := if c.sizeFixed then w1 else { w1 with size := w1.size + 1 }
    let r := run (oldBody c frames) plan w2
    run (oldProg c frames) plan w =
      ((if c.sizeFixed then oldFin c r.1 else { oldFin c r.1 with size := (oldFin c r.1).savedSize }), none, r.2.2) := by
  intro w1 w2 r
  have e0 : oldProg c frames = .seq (.act .saveSize)
      (.tryFinally (.seq (Prog.when (!c.sizeFixed) (.act .touchSize)) (.cleanup (oldBody c frames) (oldFinProg c)))
        (Prog.when (!c.sizeFixed) (.act .restoreSize))) := by
    simp [oldProg, hv]
  rw [e0]
  cases hs : c.sizeFixed <;>
    simp [run, Prog.when, Act.effectful, World.apply, oldFin_run, r, w2, w1, hs]

/-- the old API's clean-up is delivered completely and last: `SGR_DEFAULT` (int_sgr_reset),
    `SHOW_CURSOR` on a tty (int_cursor_visible), `"\n"` -/
theorem old_cleanup_last (c : OldCfg) (frames : List (Bool × Lines)) (plan : Option Plan) (w : World)
    (hv : c.validate = none) :
    ∃ pre, (run (oldProg c frames) plan w).1.out =
      pre ++ [Item.tok Tok.sgr0] ++ (if c.tty then [Item.tok Tok.showCur] else []) ++ [Item.tok Tok.lf] := by
  have := old_shape c frames plan w hv
  simp only at this
  rw [this]
  cases c.sizeFixed <;> exact ⟨_, rfl⟩


/-- the old body: plain actions and the iterator moving / the finally restoring the seek position -/
def Act.oldAct (a : Act) : Prop := Act.plain a ∨ a = .saveSeek ∨ a = .touchSeek ∨ a = .restoreSeek

theorem oldAct_keeps (a : Act) (h : Act.oldAct a) (w : World) :
    ((w.apply a).size = w.size ∧ (w.apply a).savedSize = w.savedSize) ∧
    ∀ j d, (w.applyFault j d a).size = w.size ∧ (w.applyFault j d a).savedSize = w.savedSize := by
  rcases h with h | h | h | h
  · cases a <;> simp [Act.plain] at h <;> simp [World.apply, World.applyFault]
  all_goals subst h; simp [World.apply, World.applyFault]

theorem still_plain (c : OldCfg) (f0 : Lines) :
    All Act.plain (.tryExcept (Prog.ofList [.act .render, wr (joinLines (c.fmtLines f0)), .act .flush])
          (fun _ => true) (fun e => .seq (hookProg c.hook) (.raise e))) := by
  simp only [Prog.ofList, All]
  exact ⟨⟨trivial, all_wr _ _ trivial, trivial⟩, fun _ => ⟨all_hook _ _ trivial trivial, trivial⟩⟩

/-- inside the `try` of `_display_animated`: plain actions and the iterator moving the seek position -/
def Act.tryAct (a : Act) : Prop := Act.plain a ∨ a = .touchSeek

theorem daPre_plain (c : OldCfg) : All Act.plain c.daPre := by
  unfold OldCfg.daPre
  apply all_when; intro _
  simp only [Prog.ofList, All]
  exact ⟨all_wr _ _ trivial, all_wr _ _ trivial, all_wr _ _ trivial, trivial⟩

theorem daTry_all (c : OldCfg) (f0 : Lines) (rest : List (Bool × Lines)) : All Act.tryAct (c.daTry f0 rest) := by
  have pl : ∀ a, Act.plain a → Act.tryAct a := fun a h => Or.inl h
  unfold OldCfg.daTry
  simp only [All, Prog.ofList]
  refine ⟨⟨pl _ trivial, Or.inr rfl, all_wr _ _ (pl _ trivial), pl _ trivial, ?_⟩,
    fun e => ⟨pl _ trivial, all_hook _ _ (pl _ trivial) (pl _ trivial), ?_⟩⟩
  · apply all_forEach
    intro f
    simp only [Prog.ofList, All]
    exact ⟨all_when _ _ _ (fun _ => pl _ trivial), Or.inr rfl, pl _ trivial, all_wr _ _ (pl _ trivial),
      all_wr _ _ (pl _ trivial), all_wr _ _ (pl _ trivial), all_wr _ _ (pl _ trivial), pl _ trivial⟩
  · cases e <;> trivial

theorem displayAnimated_all (c : OldCfg) (frames : List (Bool × Lines)) : All Act.oldAct (c.displayAnimated frames) := by
  cases frames with
  | nil => simp [OldCfg.displayAnimated, All]
  | cons f0 rest =>
    obtain ⟨b0, f0⟩ := f0
    simp only [OldCfg.displayAnimated, All]
    refine ⟨all_mono (fun a h => Or.inl h) _ (daPre_plain c), Or.inr (Or.inl rfl),
      all_mono (fun a h => ?_) _ (daTry_all c f0 rest), ?_⟩
    · rcases h with h | h
      · exact Or.inl h
      · exact Or.inr (Or.inr (Or.inl h))
    · simp only [OldCfg.daFin, Prog.ofList, All]
      exact ⟨Or.inl trivial, Or.inr (Or.inr (Or.inr rfl)), all_wr _ _ (Or.inl trivial), trivial⟩

theorem oldBody_all (c : OldCfg) (frames : List (Bool × Lines)) : All Act.oldAct (oldBody c frames) := by
  unfold oldBody
  simp only [Prog.ofList, All]
  refine ⟨all_when _ _ _ (fun _ => ⟨Or.inl trivial, Or.inl trivial⟩), ?_⟩
  split
  · exact displayAnimated_all c frames
  · split
    · trivial
    · exact all_mono (fun a h => Or.inl h) _ (still_plain c _)

/-- int_size_frame_restored (old API), the size setting: a fixed size is never touched, a dynamic
    one (`Size.FIT` …) is put back by `_renderer`'s `finally` on every path -/
theorem int_size_restored (c : OldCfg) (frames : List (Bool × Lines)) (plan : Option Plan) (w : World)
    (hv : c.validate = none) : (run (oldProg c frames) plan w).1.size = w.size := by
  have hs := old_shape c frames plan w hv
  simp only at hs
  rw [hs]
  have key : ∀ w2 : World, (run (oldBody c frames) plan w2).1.size = w2.size ∧
      (run (oldBody c frames) plan w2).1.savedSize = w2.savedSize := fun w2 =>
    run_inv (fun x => x.size = w2.size ∧ x.savedSize = w2.savedSize) Act.oldAct
      (fun a ha x hx => ⟨by rw [(oldAct_keeps a ha x).1.1, (oldAct_keeps a ha x).1.2]; exact hx,
        fun j d => by rw [((oldAct_keeps a ha x).2 j d).1, ((oldAct_keeps a ha x).2 j d).2]; exact hx⟩)
      _ (oldBody_all c frames) plan w2 ⟨rfl, rfl⟩
  cases hf : c.sizeFixed
  · simp only [Bool.false_eq_true, if_false, oldFin]
    exact (key _).2
  · simp only [if_true, oldFin]
    exact (key _).1


theorem seq_keeps {α} (F : World → α) (p q : Prog) (hp : ∀ f w, F (run p f w).1 = F w)
    (hq : ∀ f w, F (run q f w).1 = F w) : ∀ f w, F (run (.seq p q) f w).1 = F w := by
  intro f w
  rw [run]
  have h1 := hp f w
  generalize run p f w = r at h1 ⊢
  obtain ⟨w1, f1, o1⟩ := r
  cases o1 with
  | ok => exact (hq f1 w1).trans h1
  | raised e => exact h1
  | returned => exact h1

theorem plain_keeps_seek (p : Prog) (hp : All Act.plain p) (f : Option Plan) (w : World) :
    (run p f w).1.seek = w.seek ∧ (run p f w).1.savedSeek = w.savedSeek :=
  run_inv (fun x => x.seek = w.seek ∧ x.savedSeek = w.savedSeek) Act.plain
    (fun a ha x hx => by
      cases a <;> simp [Act.plain] at ha <;> simp [World.apply, World.applyFault] <;> exact hx) p hp f w ⟨rfl, rfl⟩

/-- the inner `finally` of `_display_animated` puts the seek position back, even when its own
    last write is interrupted -/
theorem fin_seek (c : OldCfg) (f : Option Plan) (w : World) : (run c.daFin f w).1.seek = w.savedSeek := by
  simp only [OldCfg.daFin, Prog.ofList, run, Act.effectful, World.apply, wr, List.isEmpty_cons, Bool.false_eq_true,
    if_false, if_true]
  cases w.first
  · simp
  · simp only [if_true]
    cases f with
    | none => rfl
    | some pl =>
      obtain ⟨k, j, d, e⟩ := pl
      cases k <;> simp [World.applyFault]

theorem displayAnimated_seek (c : OldCfg) (frames : List (Bool × Lines)) (f : Option Plan) (x : World) :
    (run (c.displayAnimated frames) f x).1.seek = x.seek := by
  cases frames with
  | nil => simp [OldCfg.displayAnimated, run]
  | cons f0 rest =>
    obtain ⟨b0, f0⟩ := f0
    simp only [OldCfg.displayAnimated]
    rw [run]
    have h1 := plain_keeps_seek _ (daPre_plain c) f x
    generalize run c.daPre f x = r1 at h1 ⊢
    obtain ⟨w1, f1, o1⟩ := r1
    cases o1 with
    | raised e => exact h1.1
    | returned => exact h1.1
    | ok =>
      simp only [run, Act.effectful, World.apply, Bool.false_eq_true, if_false]
      have h2 := run_inv (fun y => y.savedSeek = w1.seek) Act.tryAct
        (fun a ha y hy => by
          rcases ha with ha | ha
          · cases a <;> simp [Act.plain] at ha <;> simp [World.apply, World.applyFault] <;> exact hy
          · subst ha; simp [World.apply, World.applyFault]; exact hy)
        _ (daTry_all c f0 rest) f1 { w1 with savedSeek := w1.seek } rfl
      generalize run (c.daTry f0 rest) f1 { w1 with savedSeek := w1.seek } = r2 at h2 ⊢
      obtain ⟨w2, f2, o2⟩ := r2
      have h3 := fin_seek c f2 w2
      generalize run c.daFin f2 w2 = r3 at h3 ⊢
      obtain ⟨w3, f3, o3⟩ := r3
      simp only at h2 h3
      have : w3.seek = x.seek := by rw [h3, h2]; exact h1.1
      cases o3 <;> exact this

/-- int_size_frame_restored (old API), the current frame: `image.tell()` after `draw()` — normal
    end, `KeyboardInterrupt` or exception at any action of any frame — is what it was before -/
theorem int_seek_restored (c : OldCfg) (frames : List (Bool × Lines)) (plan : Option Plan) (w : World)
    (hv : c.validate = none) : (run (oldProg c frames) plan w).1.seek = w.seek := by
  have hs := old_shape c frames plan w hv
  simp only at hs
  rw [hs]
  have hbody : ∀ f x, (run (oldBody c frames) f x).1.seek = x.seek := by
    unfold oldBody
    simp only [Prog.ofList]
    apply seq_keeps
    · intro f x
      have hp : All Act.plain (Prog.when c.tty (.seq (.act (.write [Tok.hideCur])) (.act .flush))) :=
        all_when _ _ _ (fun _ => ⟨trivial, trivial⟩)
      exact (plain_keeps_seek _ hp f x).1
    · intro f x
      split
      · exact displayAnimated_seek c frames f x
      · split
        · rfl
        · exact (plain_keeps_seek _ (still_plain c _) f x).1
  have := hbody plan (if c.sizeFixed then { w with savedSize := w.size } else { w with savedSize := w.size, size := w.size + 1 })
  cases hf : c.sizeFixed <;> simp only [hf, Bool.false_eq_true, if_false, if_true, oldFin] at this ⊢ <;> exact this

end TIV.C07
