import TIV.C06.Prog
/-!
# The terminal's escape-sequence parser, reduced to what C07 needs (DESIGN.md §2.1)

States `ground | esc | csi | str | strEsc`. `str` is the payload of an APC / OSC / DCS / PM / SOS
string: this is the *swallowing* terminal the library's comments describe — inside a string
everything is consumed until `ESC \` (ST). An `ESC` restarts a cut CSI; C0 controls inside
`esc`/`csi` execute and leave the state alone. A definition (trusted), like `Term`.
-/
namespace TIV.C07
open TIV TIV.C06

inductive PState | ground | esc | csi | str | strEsc
deriving DecidableEq, Repr

def ESC : Char := Char.ofNat 0x1b

def isStrIntro (c : Char) : Bool := c = '_' || c = ']' || c = 'P' || c = '^' || c = 'X'

def pstep : PState → Char → PState
  | .ground, c => if c = ESC then .esc else .ground
  | .esc, c =>
    if c = ESC then .esc else if c.toNat < 0x20 then .esc
    else if c = '[' then .csi else if isStrIntro c then .str else .ground
  | .csi, c => if c = ESC then .esc else if 0x40 ≤ c.toNat ∧ c.toNat ≤ 0x7e then .ground else .csi
  | .str, c => if c = ESC then .strEsc else .str
  | .strEsc, c => if c = '\\' then .ground else if c = ESC then .strEsc else .str

def pfeed (s : PState) (cs : List Char) : PState := cs.foldl pstep s

theorem pfeed_append (s : PState) (a b : List Char) : pfeed s (a ++ b) = pfeed (pfeed s a) b := by
  simp [pfeed, List.foldl_append]

/-- the characters of an item: a complete token, or the delivered prefix of a cut one -/
def itemChars : Item → List Char
  | .tok t => t.str.toList
  | .cut t d => t.str.toList.take d

def streamChars (out : List Item) : List Char := out.flatMap itemChars

theorem streamChars_append (a b : List Item) : streamChars (a ++ b) = streamChars a ++ streamChars b := by
  simp [streamChars]

/-- the parser is not inside a string: what follows is interpreted, not swallowed -/
def PState.open : PState → Bool
  | .ground | .esc | .csi => true
  | _ => false

end TIV.C07
