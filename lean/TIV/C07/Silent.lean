import TIV.C07.Stream
import TIV.C07.Props
/-!
# C07 — who gets to see the exception (`int_silent_vs_raise`, completed)

`Reraises p`: under every fault plan `p` either ends normally without the fault having fired, or the fault
fired and `p` ends by raising exactly the injected exception. Still-image draws of both APIs are like
that (their handlers call the hook and re-raise). The old API's animation swallows a
`KeyboardInterrupt` raised anywhere inside `_display_animated`'s `try`.
-/
namespace TIV.C07
open TIV TIV.C06

def Reraises (p : Prog) : Prop :=
  ∀ f w, ((run p f w).2.2 = .ok ∧ excOf (run p f w).2.1 = excOf f) ∨
    ((run p f w).2.1 = none ∧ ∃ e, excOf f = some e ∧ (run p f w).2.2 = .raised e)

theorem rr_done : Reraises .done := fun f w => Or.inl ⟨rfl, rfl⟩

theorem rr_act (a : Act) : Reraises (.act a) := by
  intro f w
  unfold run
  split
  · cases f with
    | none => exact Or.inl ⟨rfl, rfl⟩
    | some pl =>
      obtain ⟨k, j, d, e⟩ := pl
      cases k with
      | zero => exact Or.inr ⟨rfl, e, rfl, rfl⟩
      | succ k => exact Or.inl ⟨rfl, rfl⟩
  · exact Or.inl ⟨rfl, rfl⟩

theorem rr_wr (ts : List Tok) : Reraises (wr ts) := by
  unfold wr; split
  · exact rr_done
  · exact rr_act _

theorem rr_seq {p q : Prog} (hp : Reraises p) (hq : Reraises q) : Reraises (.seq p q) := by
  intro f w
  unfold run
  have h1 := hp f w
  generalize run p f w = r at h1 ⊢
  obtain ⟨w1, f1, o1⟩ := r
  rcases h1 with ⟨ho, hf⟩ | ⟨hf, e, he, ho⟩
  · simp only at ho hf
    subst ho
    simp only
    have h2 := hq f1 w1
    rcases h2 with ⟨ho2, hf2⟩ | ⟨hf2, e, he, ho2⟩
    · exact Or.inl ⟨ho2, hf2.trans hf⟩
    · exact Or.inr ⟨hf2, e, by rw [← hf]; exact he, ho2⟩
  · simp only at ho hf
    subst ho hf
    exact Or.inr ⟨rfl, e, he, rfl⟩

theorem rr_when (b : Bool) {p : Prog} (hp : Reraises p) : Reraises (Prog.when b p) := by
  unfold Prog.when; split
  · exact hp
  · exact rr_done

theorem rr_forEach {α} (xs : List α) (f : α → Prog) (h : ∀ x, Reraises (f x)) : Reraises (Prog.forEach xs f) := by
  unfold Prog.forEach
  induction xs with
  | nil => exact rr_done
  | cons x xs ih => exact rr_seq (h x) ih

/-- `try: <body> except <some>: hook; raise` keeps the property: what is caught is raised again -/
theorem rr_handler {body : Prog} (catches : Exc → Bool) (h : Exc → Prog) (hook : List Tok) (hb : Reraises body)
    (hh : ∀ e, catches e = true → h e = .seq (hookProg hook) (.raise e)) : Reraises (.tryExcept body catches h) := by
  intro f w
  unfold run
  have h1 := hb f w
  generalize run body f w = r at h1 ⊢
  obtain ⟨w1, f1, o1⟩ := r
  rcases h1 with ⟨ho, hf⟩ | ⟨hf, e, he, ho⟩
  · simp only at ho hf
    subst ho
    exact Or.inl ⟨rfl, hf⟩
  · simp only at ho hf
    subst ho hf
    simp only
    split
    · rename_i hc
      rw [hh e hc]
      refine Or.inr ?_
      simp [run, hookProg_run, he]
    · exact Or.inr ⟨rfl, e, he, rfl⟩

/-- the `try` body of a new-API still-image draw -/
theorem newBody_still_reraises (c : NewCfg) (frames : List (Bool × Lines)) (ha : c.animation = false) :
    Reraises (newBody c frames) := by
  unfold newBody
  simp only [Prog.ofList, ha, Bool.false_eq_true, if_false]
  refine rr_seq (rr_when _ (rr_act _)) (rr_seq (rr_when _ (rr_act _)) ?_)
  split
  · exact rr_done
  · refine rr_seq (rr_act _) ?_
    unfold guardedWrite
    apply rr_handler isKbd _ c.hook (rr_seq (rr_wr _) (rr_act _))
    intro e he
    cases e <;> simp [isKbd] at he
    rfl

/-- INT_SILENT_VS_RAISE, still image, new API: under every fault plan `draw()` of a non-animation returns
    normally iff the fault did not fire before the clean-up, and otherwise raises exactly what was injected
    — `KeyboardInterrupt` is re-raised (after `_handle_interrupted_draw_`), an exception propagates -/
theorem int_still_reraises (c : NewCfg) (frames : List (Bool × Lines)) (plan : Option Plan) (w : World)
    (hv : c.validate = none) (ha : c.animation = false) :
    let w1 : World := if c.notEcho then { w with savedAttr := w.attr } else w
    let body := run (newBody c frames) plan w1
    let o := (run (newProg c frames) plan w).2.2
    (o = .ok ∧ excOf body.2.1 = excOf plan) ∨ (body.2.1 = none ∧ ∃ e, excOf plan = some e ∧ o = .raised e) := by
  intro w1 body o
  have hs := new_shape c frames plan w hv
  have : o = body.2.2 := by show (run (newProg c frames) plan w).2.2 = _; rw [hs]
  rw [this]
  exact newBody_still_reraises c frames ha plan w1

/-- the `try` body of an old-API still-image draw -/
theorem oldBody_still_reraises (c : OldCfg) (frames : List (Bool × Lines)) (ha : c.animation = false) :
    Reraises (oldBody c frames) := by
  unfold oldBody
  simp only [Prog.ofList, ha, Bool.false_eq_true, if_false]
  refine rr_seq (rr_when _ (rr_seq (rr_act _) (rr_act _))) ?_
  split
  · exact rr_done
  · rename_i b0 f0 rest
    have hb : Reraises (Prog.ofList [.act .render, wr (joinLines (c.fmtLines f0)), .act .flush]) := by
      simp only [Prog.ofList]
      exact rr_seq (rr_act _) (rr_seq (rr_wr _) (rr_act _))
    exact rr_handler (fun _ => true) _ c.hook hb (fun e _ => rfl)

/-- INT_SILENT_VS_RAISE, still image, old API -/
theorem old_int_still_reraises (c : OldCfg) (frames : List (Bool × Lines)) (plan : Option Plan) (w : World)
    (hv : c.validate = none) (ha : c.animation = false) :
    let w2 : World := if c.sizeFixed then { w with savedSize := w.size } else { w with savedSize := w.size, size := w.size + 1 }
    let body := run (oldBody c frames) plan w2
    let o := (run (oldProg c frames) plan w).2.2
    (o = .ok ∧ excOf body.2.1 = excOf plan) ∨ (body.2.1 = none ∧ ∃ e, excOf plan = some e ∧ o = .raised e) := by
  intro w2 body o
  have hs := old_shape c frames plan w hv
  simp only at hs
  have : o = body.2.2 := by show (run (oldProg c frames) plan w).2.2 = _; rw [hs]
  rw [this]
  exact oldBody_still_reraises c frames ha plan w2

/-! ## old-API animation: silent on Ctrl-C -/

/-- the plain block inside `_display_animated`'s `try` -/
theorem daTry_body_reraises (c : OldCfg) (f0 : Lines) (rest : List (Bool × Lines)) :
    Reraises (Prog.ofList [
      .act .render, .act .touchSeek, wr (joinLines (c.fmtLines f0)), .act .flush,
      Prog.forEach rest (fun f => Prog.ofList [
        Prog.when f.1 (.act .render), .act .touchSeek, .act .sleep, wr c.clear,
        wr [Tok.cr], wr (cursorUp ((c.Hp : Nat) - 1 : Int)), wr (joinLines (c.fmtLines f.2)), .act .flush ]) ]) := by
  simp only [Prog.ofList]
  refine rr_seq (rr_act _) (rr_seq (rr_act _) (rr_seq (rr_wr _) (rr_seq (rr_act _) ?_)))
  apply rr_forEach
  intro f
  show Reraises (Prog.ofList [
        Prog.when f.1 (.act .render), .act .touchSeek, .act .sleep, wr c.clear,
        wr [Tok.cr], wr (cursorUp ((c.Hp : Nat) - 1 : Int)), wr (joinLines (c.fmtLines f.2)), .act .flush ])
  simp only [Prog.ofList]
  exact rr_seq (rr_when _ (rr_act _)) (rr_seq (rr_act _) (rr_seq (rr_act _) (rr_seq (rr_wr _)
    (rr_seq (rr_wr _) (rr_seq (rr_wr _) (rr_seq (rr_wr _) (rr_act _)))))))

/-- `_display_animated`'s `try … except KeyboardInterrupt: hook / except Exception: hook; raise`:
    never ends with `KeyboardInterrupt`, and raises an exception only if one was injected -/
theorem daTry_outcome (c : OldCfg) (f0 : Lines) (rest : List (Bool × Lines)) (f : Option Plan) (w : World) :
    let r := run (c.daTry f0 rest) f w
    r.2.2 ≠ .raised .kbd ∧ (r.2.2 = .ok ∨ (r.2.1 = none ∧ excOf f = some .err ∧ r.2.2 = .raised .err)) ∧
    (r.2.2 = .ok → r.2.1 = none ∨ excOf r.2.1 = excOf f) := by
  intro r
  have hr : r = run (c.daTry f0 rest) f w := rfl
  unfold OldCfg.daTry at hr
  rw [run] at hr
  have h1 := daTry_body_reraises c f0 rest f w
  generalize run (Prog.ofList _) f w = rb at h1 hr
  obtain ⟨w1, f1, o1⟩ := rb
  rcases h1 with ⟨ho, hf⟩ | ⟨hf, e, he, ho⟩
  · simp only at ho hf
    subst ho
    simp only at hr
    rw [hr]
    exact ⟨by simp, Or.inl rfl, fun _ => Or.inr hf⟩
  · simp only at ho hf
    subst ho hf
    simp only [if_true] at hr
    cases e with
    | kbd =>
      have : r = ({ w1 with first := true, out := w1.out ++ c.hook.map .tok }, none, .ok) := by
        rw [hr]; simp [Prog.ofList, run, Act.effectful, World.apply, hookProg_run]
      rw [this]
      exact ⟨by simp, Or.inl rfl, fun _ => Or.inl rfl⟩
    | err =>
      have : r = ({ w1 with first := true, out := w1.out ++ c.hook.map .tok }, none, .raised .err) := by
        rw [hr]; simp [Prog.ofList, run, Act.effectful, World.apply, hookProg_run]
      rw [this]
      exact ⟨by simp, Or.inr ⟨rfl, he, rfl⟩, by simp⟩

/-- INT_SILENT_VS_RAISE, old-API animation: `_display_animated` is `pre-erase; save seek; try T finally F`;
    a `KeyboardInterrupt` injected at ANY action of `T` (first frame, later frames, sleeps, renders, cursor
    moves, the kitty clear) is swallowed — `T` never ends with it, and once the fault has fired when `F` is
    entered the whole `_display_animated` (hence `draw()`) ends normally unless an *exception* was injected -/
theorem old_int_silent (c : OldCfg) (f0 : Bool × Lines) (rest : List (Bool × Lines)) (f : Option Plan) (w : World) :
    c.displayAnimated (f0 :: rest) = .seq c.daPre (.seq (.act .saveSeek) (.tryFinally (c.daTry f0.2 rest) c.daFin)) ∧
    (run (c.daTry f0.2 rest) f w).2.2 ≠ .raised .kbd ∧
    ((run (c.daTry f0.2 rest) f w).2.1 = none →
      (run (.tryFinally (c.daTry f0.2 rest) c.daFin) f w).2.2 = (run (c.daTry f0.2 rest) f w).2.2) := by
  obtain ⟨b0, f0⟩ := f0
  refine ⟨rfl, (daTry_outcome c f0 rest f w).1, ?_⟩
  intro hf
  rw [run]
  generalize run (c.daTry f0 rest) f w = r at hf ⊢
  obtain ⟨w1, f1, o1⟩ := r
  simp only at hf
  subst hf
  have hfin : ∀ x : World, (run c.daFin none x).2.2 = .ok := by
    intro x
    simp only [OldCfg.daFin, Prog.ofList, run, Act.effectful, World.apply, wr, List.isEmpty_cons, Bool.false_eq_true, if_false]
    split <;> simp
  have := hfin w1
  dsimp only
  generalize run c.daFin none w1 = r2 at this ⊢
  obtain ⟨w2, f2, o2⟩ := r2
  simp only at this
  subst this
  rfl

end TIV.C07
