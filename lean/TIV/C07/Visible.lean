import TIV.C07.Stream
import TIV.C07.Screen
import TIV.C07.Props
import TIV.C01.Strings
/-!
# C07 — the stream-level claims as single theorems over every fault plan

`int_cursor_visible`, `int_sgr_reset`, `int_parser_ground`: run `draw()` under ANY fault plan
(`none`, or the k-th effectful action delivering any prefix — any number of whole tokens and any
number of characters of the next — and raising KeyboardInterrupt or an exception), feed every
character that reached the stream to the terminal's parser / attribute machine (`AT`, `Screen.lean`)
starting in ground: at the end the parser is in ground, the cursor is visible, text attributes are
default. Assumptions about the frames are explicit: every token well formed (`Scan.WfTok`, what C01
proves of the three renderers), and — exactly where the code prints no hook after a cut — safe to cut
(`SafeTok`: no prefix opens a control string; true of all text tokens and cursor controls).
-/
namespace TIV.C07
open TIV TIV.C06

/-- what `_handle_interrupted_draw` prints returns the parser to ground from ANY state -/
def HookRec (hook : List Tok) : Prop := ∀ s : PState, pfeed s (streamChars (hook.map .tok)) = .ground

/-- … keeps it outside control strings when it is outside -/
def HookSafe (hook : List Tok) : Prop :=
  ∀ s : PState, s.open = true → (pfeed s (streamChars (hook.map .tok))).open = true

theorem HookRec.safe {hook : List Tok} (h : HookRec hook) : HookSafe hook := fun s _ => by rw [h s]; rfl

theorem cutWrite_open (us : List Tok) (j d : Nat) (hA : ∀ t ∈ us, Scan.WfTok t) (hQ : ∀ t ∈ us, SafeTok t) :
    (pfeed .ground (streamChars (cutWrite us j d))).open = true := by
  unfold cutWrite
  rw [streamChars_append, pfeed_append,
    wf_stream_ground (us.take j) (fun t ht => hA t (List.mem_of_mem_take ht)) _ rfl]
  split
  · rfl
  · cases hj : us[j]? with
    | none => rfl
    | some t =>
      have hm : t ∈ us := List.mem_of_getElem? hj
      simpa [streamChars] using safe_cut_open t (hQ t hm) d

/-- THE LINK: whatever happened in a classified run that started with the parser in ground — no fault,
    a fault with the exception still in flight, a fault that was handled — the parser is outside every
    control string afterwards -/
theorem cls_open {hook : List Tok} {l : Nat} {w0 : World} {f0 : Option Plan} {r : Res}
    (h : Cls Scan.WfTok SafeTok (fun t => HookRec hook ∨ SafeTok t) Resync hook l w0 f0 r)
    (hsafe : HookSafe hook) (h0 : pfeed .ground (streamChars w0.out) = .ground) :
    (pfeed .ground (streamChars r.1.out)).open = true := by
  cases h with
  | clean w f pre hA hout hf _ =>
    simp only [hout, streamChars_append, pfeed_append, h0, wf_stream_ground pre hA _ rfl]; rfl
  | raw w e pre us j d hA hU hQ hout he =>
    simp only [hout, streamChars_append, pfeed_append, h0, wf_stream_ground pre hA _ rfl]
    exact cutWrite_open us j d hU hQ
  | fin w e o pre us j d hk post hA hU hhk hR hout he hs =>
    simp only [hout, streamChars_append, pfeed_append, h0, wf_stream_ground pre hA _ rfl]
    apply resync_stream post hR
    rcases hhk with ⟨rfl, hH⟩ | ⟨rfl, hQ⟩
    · by_cases hrec : HookRec hook
      · rw [hrec]; rfl
      · exact hsafe _ (cutWrite_open us j d hU (fun t ht => (hH t ht).resolve_left hrec))
    · simpa [streamChars, pfeed] using cutWrite_open us j d hU hQ

/-! ## new API -/

/-- assumptions about what a new-API draw writes: frames and `_clear_frame_` tokens well formed and safe
    to cut (the base class prints no hook after an ordinary exception, none at all by default), the
    hook's tokens well formed and self-synchronising (`CSI 0 m`, `ST`, …), the fill printable -/
structure NewFrames (c : NewCfg) (frames : List (Bool × Lines)) : Prop where
  frame : ∀ t, FrameTok frames t → Scan.WfTok t ∧ SafeTok t
  clear : ∀ t ∈ c.clear, Scan.WfTok t ∧ SafeTok t
  hook : ∀ t ∈ c.hook, Scan.WfTok t ∧ Resync t
  fill : ∀ g, c.pad.fill = some g → Scan.WfTok (.glyph g)

theorem ctl_ok (fill : Option Glyph) (hfill : ∀ g, fill = some g → Scan.WfTok (.glyph g)) (t : Tok)
    (h : Ctl fill t) : Scan.WfTok t ∧ SafeTok t := by
  cases h with
  | hide => exact ⟨trivial, Or.inr ⟨'[', ['?', '2', '5', 'l'], by decide, by decide, by decide, by decide, by decide⟩⟩
  | lf => exact ⟨trivial, Or.inl (by decide)⟩
  | cr => exact ⟨trivial, Or.inl (by decide)⟩
  | cuu n => exact ⟨trivial, safe_cuu n⟩
  | cud n => exact ⟨trivial, safe_cud n⟩
  | cuf n => exact ⟨trivial, safe_cuf n⟩
  | ech n => exact ⟨trivial, safe_ech n⟩
  | fill g hg => exact ⟨hfill g hg, safe_glyph g (hfill g hg)⟩

theorem NewFrames.toks {c : NewCfg} {frames : List (Bool × Lines)} (h : NewFrames c frames) :
    NewToks Scan.WfTok SafeTok (fun t => HookRec c.hook ∨ SafeTok t) Resync c frames :=
  ⟨h.frame, h.clear, fun t ht => (h.hook t ht).1, fun _ ht => Or.inr ht,
    fun t ht => ctl_ok _ h.fill t ht, fun n => resync_cud n⟩

theorem NewFrames.hookSafe {c : NewCfg} {frames : List (Bool × Lines)} (h : NewFrames c frames) : HookSafe c.hook :=
  fun s hs => resync_stream c.hook (fun t ht => (h.hook t ht).2) s hs

/-- the parser after everything `draw()`'s `try` body wrote, under every plan -/
theorem new_body_open (c : NewCfg) (frames : List (Bool × Lines)) (plan : Option Plan) (w : World)
    (h : NewFrames c frames) (h0 : pfeed .ground (streamChars w.out) = .ground) :
    (pfeed .ground (streamChars (run (newBody c frames) plan
      (if c.notEcho then { w with savedAttr := w.attr } else w)).1.out)).open = true := by
  apply cls_open (newBody_spec c frames h.toks _ _) h.hookSafe
  cases c.notEcho <;> exact h0

/-- INT_CURSOR_VISIBLE + INT_PARSER_GROUND (new API): after `draw()` returned or raised under any fault
    plan, the terminal — having consumed every character that was delivered — is outside every control
    string; when `draw()` hid the cursor (tty ∧ `hide_cursor`), the final `SHOW_CURSOR` was interpreted: the
    cursor is visible and the parser is in ground -/
theorem int_cursor_visible (c : NewCfg) (frames : List (Bool × Lines)) (plan : Option Plan) (w : World)
    (hv : c.validate = none) (h : NewFrames c frames) (a0 : AT) (ha : a0.p = .ground)
    (h0 : pfeed .ground (streamChars w.out) = .ground) :
    let a := a0.feed (streamChars (run (newProg c frames) plan w).1.out)
    a.p.open = true ∧ (c.hide = true → a.p = .ground ∧ a.vis = true) := by
  intro a
  have hb := new_body_open c frames plan w h h0
  have hs := new_shape c frames plan w hv
  have ea : a = ((a0.feed (streamChars (run (newBody c frames) plan
      (if c.notEcho then { w with savedAttr := w.attr } else w)).1.out)).feed (itemChars (.tok .lf))).feed
      (streamChars (if c.hide then [Item.tok Tok.showCur] else [])) := by
    show a0.feed _ = _
    rw [hs]
    simp only [newFin, streamChars_append, AT.feed_append]
    rfl
  generalize (run (newBody c frames) plan (if c.notEcho then { w with savedAttr := w.attr } else w)).1.out = ob at hb ea
  have hb' : (a0.feed (streamChars ob)).p.open = true := by rw [AT.feed_p, ha]; exact hb
  generalize a0.feed (streamChars ob) = a1 at hb' ea
  have hl := lf_keeps a1
  simp only at hl
  generalize a1.feed (itemChars (.tok .lf)) = a2 at hl ea
  have h2 : a2.p.open = true := by rw [hl.2.2.1]; exact hb'
  rw [ea]
  cases hh : c.hide
  · simp only [Bool.false_eq_true, if_false]
    exact ⟨by simpa [streamChars, AT.feed] using h2, by simp⟩
  · simp only [if_true]
    have h3 := show_from_open a2 h2
    simp only at h3
    have e3 : streamChars [Item.tok Tok.showCur] = itemChars (.tok .showCur) := by simp [streamChars]
    rw [e3]
    exact ⟨by rw [h3.1]; rfl, fun _ => ⟨h3.1, h3.2.1⟩⟩


/-! ## old API -/

/-- assumptions about what an old-API draw writes: every token of the frames, of `_clear_frame` and of the
    hook well formed; and EITHER the hook returns the parser to ground from any state (kitty, iterm2: by
    `kitty_hook_recovers` / `iterm_hook_recovers`) OR it at least keeps it outside control strings and the
    frames' tokens are safe to cut (block: no hook, text tokens) -/
structure OldFrames (c : OldCfg) (frames : List (Bool × Lines)) : Prop where
  frame : ∀ t, FrameTok frames t → Scan.WfTok t
  clear : ∀ t ∈ c.clear, Scan.WfTok t
  hook : ∀ t ∈ c.hook, Scan.WfTok t
  recovers : HookRec c.hook ∨
    (HookSafe c.hook ∧ (∀ t, FrameTok frames t → SafeTok t) ∧ ∀ t ∈ c.clear, SafeTok t)

theorem OldFrames.hookSafe {c : OldCfg} {frames : List (Bool × Lines)} (h : OldFrames c frames) : HookSafe c.hook := by
  rcases h.recovers with hr | hs
  · exact hr.safe
  · exact hs.1

theorem OldFrames.toks {c : OldCfg} {frames : List (Bool × Lines)} (h : OldFrames c frames) :
    OldToks Scan.WfTok SafeTok (fun t => HookRec c.hook ∨ SafeTok t) Resync c frames := by
  refine ⟨h.frame, h.clear, h.hook, ?_, ?_, fun _ ht => Or.inr ht,
    fun t ht => ctl_ok _ (fun g hg => by cases hg; trivial) t ht, fun n => resync_cud n⟩
  · intro t ht
    rcases h.recovers with hr | hs
    · exact Or.inl hr
    · exact Or.inr (hs.2.1 t ht)
  · intro t ht
    rcases h.recovers with hr | hs
    · exact Or.inl hr
    · exact Or.inr (hs.2.2 t ht)

/-- INT_CURSOR_VISIBLE + INT_SGR_RESET + INT_PARSER_GROUND (old API, repaired): after `draw()` returned or
    raised under any fault plan, the terminal — having consumed every character that was delivered, whole
    or cut — is in ground (no control sequence or graphics command left open: it is not swallowing what
    comes next), text attributes are default, and on a tty the cursor is visible -/
theorem old_int_terminal (c : OldCfg) (frames : List (Bool × Lines)) (plan : Option Plan) (w : World)
    (hv : c.validate = none) (h : OldFrames c frames) (a0 : AT) (ha : a0.p = .ground)
    (h0 : pfeed .ground (streamChars w.out) = .ground) :
    let a := a0.feed (streamChars (run (oldProg c frames) plan w).1.out)
    a.p = .ground ∧ a.sgr = true ∧ (c.tty = true → a.vis = true) := by
  intro a
  have hs := old_shape c frames plan w hv
  simp only at hs
  have hb : (pfeed .ground (streamChars (run (oldBody c frames) plan
      (if c.sizeFixed then { w with savedSize := w.size } else { w with savedSize := w.size, size := w.size + 1 })).1.out)).open
      = true := by
    apply cls_open (oldBody_spec c frames h.toks _ _) h.hookSafe
    cases c.sizeFixed <;> exact h0
  have ea : a = (((a0.feed (streamChars (run (oldBody c frames) plan
      (if c.sizeFixed then { w with savedSize := w.size } else { w with savedSize := w.size, size := w.size + 1 })).1.out)).feed
        (itemChars (.tok .sgr0))).feed (streamChars (if c.tty then [Item.tok Tok.showCur] else []))).feed
        (itemChars (.tok .lf)) := by
    show a0.feed _ = _
    rw [hs]
    have : ∀ x : World, (if c.sizeFixed = true then oldFin c x else { oldFin c x with size := (oldFin c x).savedSize }).out
        = x.out ++ [Item.tok Tok.sgr0] ++ (if c.tty then [Item.tok Tok.showCur] else []) ++ [Item.tok Tok.lf] := by
      intro x; cases c.sizeFixed <;> rfl
    rw [this]
    simp only [streamChars_append, AT.feed_append]
    rfl
  generalize (run (oldBody c frames) plan
      (if c.sizeFixed then { w with savedSize := w.size } else { w with savedSize := w.size, size := w.size + 1 })).1.out = ob at hb ea
  have hb' : (a0.feed (streamChars ob)).p.open = true := by rw [AT.feed_p, ha]; exact hb
  generalize a0.feed (streamChars ob) = a1 at hb' ea
  have h1 := sgr0_from_open a1 hb'
  simp only at h1
  generalize a1.feed (itemChars (.tok .sgr0)) = a2 at h1 ea
  have h2 : let a3 := a2.feed (streamChars (if c.tty then [Item.tok Tok.showCur] else []))
      a3.p = .ground ∧ a3.sgr = true ∧ (c.tty = true → a3.vis = true) := by
    cases c.tty
    · simp only [Bool.false_eq_true, if_false]
      exact ⟨by simpa [streamChars, AT.feed] using h1.1, by simpa [streamChars, AT.feed] using h1.2.1, by simp⟩
    · simp only [if_true]
      have e3 : streamChars [Item.tok Tok.showCur] = itemChars (.tok .showCur) := by simp [streamChars]
      rw [e3]
      have h3 := show_from_open a2 (by rw [h1.1]; rfl)
      simp only at h3
      exact ⟨h3.1, by rw [h3.2.2]; exact h1.2.1, fun _ => h3.2.1⟩
  simp only at h2
  generalize a2.feed (streamChars (if c.tty then [Item.tok Tok.showCur] else [])) = a3 at h2 ea
  have h4 := lf_keeps a3
  simp only at h4
  rw [ea]
  exact ⟨h4.2.2.2 h2.1, by rw [h4.2.1]; exact h2.2.1, fun ht => by rw [h4.1]; exact h2.2.2 ht⟩

/-! ## instances: the three styles of the old API, block renders in the new one -/

/-- the kitty hook (regenerated from the live method) recovers from any state -/
theorem kitty_hookRec : HookRec Generated.kittyHook := kitty_hook_recovers
theorem iterm_hookRec : HookRec Generated.itermHook := iterm_hook_recovers

/-- `KittyImage.draw`: kitty frames as C01 models them (any payloads, both methods), with or without the
    delete-by-z-index `_clear_frame` -/
theorem old_int_terminal_kitty (c : OldCfg) (a : C01.KittyArgs) (ps : List (Bool × List (List Nat)))
    (plan : Option Plan) (w : World) (hv : c.validate = none) (hhook : c.hook = Generated.kittyHook)
    (hclear : ∀ t ∈ c.clear, ∃ z, t = .kittyDelZ z) (a0 : AT) (ha : a0.p = .ground) (hw : w.out = []) :
    let fr := ps.map (fun p => (p.1, C01.kittyLinesOf a p.2))
    let at' := a0.feed (streamChars (run (oldProg c fr) plan w).1.out)
    at'.p = .ground ∧ at'.sgr = true ∧ (c.tty = true → at'.vis = true) := by
  intro fr
  apply old_int_terminal c fr plan w hv _ a0 ha (by rw [hw]; rfl)
  refine ⟨?_, ?_, ?_, Or.inl (hhook ▸ kitty_hookRec)⟩
  · rintro t ⟨f, hf, l, hl, ht⟩
    simp only [fr, List.mem_map] at hf
    obtain ⟨p, _, rfl⟩ := hf
    exact (C01.kitty_lines_wf a p.2 l hl t ht).1
  · intro t ht
    obtain ⟨z, rfl⟩ := hclear t ht
    trivial
  · intro t ht
    rw [hhook] at ht
    simp [Generated.kittyHook] at ht
    rcases ht with rfl | rfl <;> trivial

/-- `ITerm2Image.draw`, incl. the WezTerm pre-erase -/
theorem old_int_terminal_iterm (c : OldCfg) (a : C01.ITermArgs) (ps : List (Bool × List (List Nat)))
    (plan : Option Plan) (w : World) (hv : c.validate = none) (hhook : c.hook = Generated.itermHook)
    (hclear : c.clear = []) (a0 : AT) (ha : a0.p = .ground) (hw : w.out = []) :
    let fr := ps.map (fun p => (p.1, C01.itermLinesOf a p.2))
    let at' := a0.feed (streamChars (run (oldProg c fr) plan w).1.out)
    at'.p = .ground ∧ at'.sgr = true ∧ (c.tty = true → at'.vis = true) := by
  intro fr
  apply old_int_terminal c fr plan w hv _ a0 ha (by rw [hw]; rfl)
  refine ⟨?_, by simp [hclear], ?_, Or.inl (hhook ▸ iterm_hookRec)⟩
  · rintro t ⟨f, hf, l, hl, ht⟩
    simp only [fr, List.mem_map] at hf
    obtain ⟨p, _, rfl⟩ := hf
    exact (C01.iterm_lines_wf a p.2 l hl t ht).1
  · intro t ht
    rw [hhook] at ht
    simp [Generated.itermHook] at ht
    subst ht; trivial


/-- every token of a block render is safe to cut -/
theorem block_safe (t : Tok) (h : t.isBlock = true) : SafeTok t := by
  cases t <;> simp [Tok.isBlock] at h
  · rename_i g; cases g <;> simp [Tok.isBlock] at h <;> exact Or.inl (by decide)
  · exact Or.inl (by decide)
  · exact safe_sgr0
  · exact safe_fg _
  · exact safe_bg _

theorem blockLines_ok (cfg : Block.Cfg) (rows : List (List Block.PP)) :
    ∀ l ∈ Block.renderLines cfg rows, ∀ t ∈ l, Scan.WfTok t ∧ SafeTok t := by
  intro l hl t ht
  refine ⟨(C01.block_lines_wf cfg rows l hl t ht).1, ?_⟩
  simp only [Block.renderLines, List.mem_map] at hl
  obtain ⟨row, _, rfl⟩ := hl
  rcases List.mem_append.mp ht with h | h
  · exact block_safe t (Block.line_block cfg row t h)
  · simp at h; subst h; exact safe_sgr0

/-- `BlockImage.draw` (no hook): every pixel content -/
theorem old_int_terminal_block (c : OldCfg) (cfg : Block.Cfg) (gs : List (Bool × List (List Block.PP)))
    (plan : Option Plan) (w : World) (hv : c.validate = none) (hhook : c.hook = []) (hclear : c.clear = [])
    (a0 : AT) (ha : a0.p = .ground) (hw : w.out = []) :
    let fr := gs.map (fun g => (g.1, Block.renderLines cfg g.2))
    let at' := a0.feed (streamChars (run (oldProg c fr) plan w).1.out)
    at'.p = .ground ∧ at'.sgr = true ∧ (c.tty = true → at'.vis = true) := by
  intro fr
  apply old_int_terminal c fr plan w hv _ a0 ha (by rw [hw]; rfl)
  have hfr : ∀ t, FrameTok fr t → Scan.WfTok t ∧ SafeTok t := by
    rintro t ⟨f, hf, l, hl, ht⟩
    simp only [fr, List.mem_map] at hf
    obtain ⟨g, _, rfl⟩ := hf
    exact blockLines_ok cfg g.2 l hl t ht
  exact ⟨fun t ht => (hfr t ht).1, by simp [hclear], by simp [hhook],
    Or.inr ⟨by intro s hs; simpa [hhook, streamChars, pfeed] using hs, fun t ht => (hfr t ht).2, by simp [hclear]⟩⟩

/-- new API drawing block renders with the base class' hooks (none) or a `CSI 0 m` hook: every pixel content -/
theorem int_cursor_visible_block (c : NewCfg) (cfg : Block.Cfg) (gs : List (Bool × List (List Block.PP)))
    (plan : Option Plan) (w : World) (hv : c.validate = none) (hclear : c.clear = [])
    (hhook : c.hook = [] ∨ c.hook = [Tok.sgr0]) (hfill : ∀ g, c.pad.fill = some g → Scan.WfTok (.glyph g))
    (a0 : AT) (ha : a0.p = .ground) (hw : w.out = []) :
    let fr := gs.map (fun g => (g.1, Block.renderLines cfg g.2))
    let at' := a0.feed (streamChars (run (newProg c fr) plan w).1.out)
    at'.p.open = true ∧ (c.hide = true → at'.p = .ground ∧ at'.vis = true) := by
  intro fr
  apply int_cursor_visible c fr plan w hv _ a0 ha (by rw [hw]; rfl)
  refine ⟨?_, by simp [hclear], ?_, hfill⟩
  · rintro t ⟨f, hf, l, hl, ht⟩
    simp only [fr, List.mem_map] at hf
    obtain ⟨g, _, rfl⟩ := hf
    exact blockLines_ok cfg g.2 l hl t ht
  · intro t ht
    rcases hhook with h | h <;> rw [h] at ht
    · simp at ht
    · simp at ht; subst ht; exact ⟨trivial, resync_sgr0⟩

end TIV.C07
