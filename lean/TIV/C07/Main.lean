import TIV.C07.Drive
import TIV.Common.DriverMain
def main : IO Unit := TIV.driverMain TIV.C07.handler
