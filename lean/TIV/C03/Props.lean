import TIV.C03.Proofs
import TIV.C03.Generated
import TIV.Common.Base64Proofs
import TIV.C01.Model
/-!
# C03 — property theorems (kitty framing; iterm2 framing in a later section)
Statements only use `getChunks` (the mirror of `Transmission.get_chunks`), `Base64.enc/dec`
and the generated constants.
-/
namespace TIV.C03

/-- the generated constants are the ones the model was written for -/
theorem generated_template :
    Generated.kittyStart = apcStart ∧ Generated.kittySep = [59] ∧ Generated.kittyEnd = st := by decide

theorem generated_control_fields :
    Generated.controlFields = ["a", "f", "t", "s", "v", "z", "o", "C", "c", "r"] ∧
    Generated.controlDefaults =
      [some "T", some "32", some "d", none, none, some "0", none, some "1", none, none] := by decide

/-- the default chunk size satisfies what the protocol demands of it -/
theorem generated_chunk_size :
    0 < Generated.chunkSize ∧ Generated.chunkSize ≤ 4096 ∧ Generated.chunkSize % 4 = 0 := by decide

/-- REFINEMENT: the two-chunk look-ahead loop of `get_chunks` is "cut into pieces, flag all but
    the last", for every payload and every positive size. -/
theorem getChunks_refines {α} (size : Nat) (hs : 0 < size) (p : List α) :
    getChunks size p = chunkSpec size p := by
  unfold getChunks chunkSpec read
  by_cases hp : p = []
  · subst hp
    simp
    rw [loop]; simp
  · have hp' : ¬ (p.isEmpty = true ∨ size = 0) := by
      simp [List.isEmpty_iff]; exact ⟨hp, by omega⟩
    simp only [hp', if_false]
    rw [pieces_cons size p hp hs]
    by_cases hr : p.drop size = []
    · simp only [hr, List.take_nil, List.drop_nil, pieces_nil, flagged]
      rw [loop]; simp
    · have ht := take_ne_nil size (p.drop size) hr hs
      have hl := loop_eq size hs ((p.drop size).drop size) ((p.drop size).take size) ht
      rw [hl, pieces_cons size (p.drop size) hr hs]
      simp [flagged, List.isEmpty_iff, ht]

/-- concatenating the chunk payloads gives back the encoded payload -/
theorem chunks_concat {α} (size : Nat) (hs : 0 < size) (p : List α) :
    ((getChunks size p).map Prod.snd).flatten = p := by
  rw [getChunks_refines size hs]
  unfold chunkSpec
  by_cases hp : p = []
  · subst hp; simp
  · have hp' : ¬ (p.isEmpty = true ∨ size = 0) := by
      simp [List.isEmpty_iff]; exact ⟨hp, by omega⟩
    simp only [hp', if_false, flagged_snd, pieces_flatten size hs]

/-- every chunk but the last has exactly `size` characters; the last has at most `size` -/
theorem chunks_sizes {α} (size : Nat) (hs : 0 < size) (p : List α) (cs : List (Bool × List α))
    (c : Bool × List α) (h : getChunks size p = cs ++ [c]) :
    (∀ d ∈ cs, d.2.length = size) ∧ c.2.length ≤ size := by
  rw [getChunks_refines size hs] at h
  unfold chunkSpec at h
  by_cases hp : p = []
  · subst hp
    simp at h
    have : cs = [] := by
      cases cs with
      | nil => rfl
      | cons a t => simp at h
    subst this; simp at h; subst h; simp
  · have hp' : ¬ (p.isEmpty = true ∨ size = 0) := by
      simp [List.isEmpty_iff]; exact ⟨hp, by omega⟩
    simp only [hp', if_false] at h
    have hsnd := congrArg (List.map Prod.snd) h
    rw [flagged_snd, List.map_append] at hsnd
    have := pieces_sizes size hs p (cs.map Prod.snd) c.2 (by simpa using hsnd)
    refine ⟨?_, this.2.2⟩
    intro d hd
    exact this.1 d.2 (List.mem_map_of_mem hd)

/-- continuation flags are `m=1, …, m=1, m=0` -/
theorem chunks_flags {α} (size : Nat) (hs : 0 < size) (p : List α) :
    ∃ k, (getChunks size p).map Prod.fst = List.replicate k true ++ [false] := by
  rw [getChunks_refines size hs]
  unfold chunkSpec
  by_cases hp : p = []
  · subst hp; exact ⟨0, by simp⟩
  · have hp' : ¬ (p.isEmpty = true ∨ size = 0) := by
      simp [List.isEmpty_iff]; exact ⟨hp, by omega⟩
    simp only [hp', if_false]
    have hne : pieces size p ≠ [] := by rw [pieces_cons size p hp hs]; simp
    obtain ⟨cs, c, hcs⟩ : ∃ cs c, pieces size p = cs ++ [c] :=
      ⟨(pieces size p).dropLast, (pieces size p).getLast hne, (List.dropLast_concat_getLast hne).symm⟩
    rw [hcs]
    exact ⟨cs.length, flagged_flags cs c⟩

/-- THE KITTY CHUNK LAW at the library's own chunk size, for every payload:
    each chunk is at most 4096 base64 characters, every chunk but the last is a multiple of 4
    (so is the last one, base64 being padded), and the payload survives: decoding the
    concatenation of all chunks yields the transmitted bytes. -/
theorem kitty_chunk_law (x : List Nat) (hb : ∀ a ∈ x, a < 256) :
    let chunks := getChunks Generated.chunkSize (Base64.enc x)
    (∀ c ∈ chunks, c.2.length ≤ 4096 ∧ c.2.length % 4 = 0) ∧
    Base64.dec ((chunks.map Prod.snd).flatten) = some x := by
  have hs : 0 < Generated.chunkSize := by decide
  intro chunks
  have hcat : (chunks.map Prod.snd).flatten = Base64.enc x := chunks_concat _ hs _
  refine ⟨?_, by rw [hcat]; exact Base64.dec_enc x hb⟩
  have hne : chunks ≠ [] := by simp [chunks, getChunks]
  obtain ⟨cs, c, hcs⟩ : ∃ cs c, chunks = cs ++ [c] :=
    ⟨chunks.dropLast, chunks.getLast hne, (List.dropLast_concat_getLast hne).symm⟩
  have hsz := chunks_sizes Generated.chunkSize hs (Base64.enc x) cs c hcs
  have hlen : ((chunks.map Prod.snd).flatten).length % 4 = 0 := by
    rw [hcat]; exact Base64.enc_length_mod4 x
  have hsum : ((chunks.map Prod.snd).flatten).length = cs.length * Generated.chunkSize + c.2.length := by
    rw [hcs]
    simp only [List.map_append, List.flatten_append, List.length_append, List.map_cons, List.map_nil,
      List.flatten_cons, List.flatten_nil, List.append_nil]
    congr 1
    clear hcs hlen hcat hne
    induction cs with
    | nil => rfl
    | cons d ds ih =>
      have hd := hsz.1 d (by simp)
      have := ih ⟨fun e he => hsz.1 e (by simp [he]), hsz.2⟩
      simp [hd, this]; rw [Nat.add_mul]; omega
  intro d hd
  rw [hcs] at hd
  simp at hd
  have h4096 : Generated.chunkSize = 4096 := by decide
  rcases hd with hd | rfl
  · have := hsz.1 d hd
    omega
  · refine ⟨by have := hsz.2; omega, ?_⟩
    rw [hsum, h4096] at hlen
    omega

/-- `o=z` is present exactly when the compression level is non-zero -/
theorem o_key_iff_level (d : Control) (level : Nat) :
    ((d.withLevel level).o = some "z") ↔ level ≠ 0 := by
  unfold Control.withLevel; split <;> simp_all

/-- LINES: the per-line strips stitch back to the whole image and each has `bytes_per_line`
    bytes — for every raw image whose length is `rh` lines of `k` bytes -/
theorem lines_stitch {α} (k : Nat) : ∀ (n : Nat) (raw : List α), raw.length = n * k →
    (strips k n raw).flatten = raw ∧ (strips k n raw).length = n ∧ ∀ s ∈ strips k n raw, s.length = k := by
  intro n
  induction n with
  | zero => intro raw h; simp at h; subst h; simp [strips]
  | succ n ih =>
    intro raw h
    have hk : k ≤ raw.length := by rw [h, Nat.succ_mul]; omega
    have := ih (raw.drop k) (by simp [h, Nat.succ_mul])
    obtain ⟨h1, h2, h3⟩ := this
    refine ⟨by simp [strips, h1], by simp [strips, h2], ?_⟩
    intro s hs
    simp only [strips, List.mem_cons] at hs
    rcases hs with rfl | hs
    · simp [List.length_take]; omega
    · exact h3 s hs

/-- LINES strip arithmetic: when the pixel height is a multiple of the number of lines (it is
    `rendered_height × cell_height` by construction), `rh` strips of `bytes_per_line` bytes are
    exactly the `width × height × bytes-per-pixel` bytes of the image -/
theorem lines_bytes (width ch rh fmt : Nat) (hrh : 0 < rh) :
    rh * bytesPerLine width (rh * ch) rh fmt = width * (rh * ch) * (fmt / 8) := by
  unfold bytesPerLine
  rw [Nat.mul_div_cancel_left ch hrh]
  ac_rfl

/-- WHOLE: the transmitted size is the render size if it has fewer pixels, else the original -/
theorem whole_size (render orig : Nat × Nat) :
    (render.1 * render.2 < orig.1 * orig.2 → minimalRenderSize render orig = render) ∧
    (¬ render.1 * render.2 < orig.1 * orig.2 → minimalRenderSize render orig = orig) := by
  unfold minimalRenderSize; constructor <;> intro h <;> simp [h]

/-- the read-from-file gate is exactly the documented conjunction -/
theorem usesFile_iff (g : FileGate) :
    usesFile g = true ↔
      (g.readFromFile = true ∧ g.animated = false ∧ g.readable = true ∧ g.whole = true ∧
        g.origPixels ≤ g.renderPixels ∧
        (g.modeNoAlpha = true ∨ (g.alphaIsFloat = true ∧ g.modePalette = false))) := by
  unfold usesFile
  simp [Bool.and_eq_true, Bool.or_eq_true, and_assoc]

/-- KITTY command as the renderer builds it: the chunk law holds and the chunks decode to the
    transmitted (compressed) payload, whatever the payload, size, format, z-index and level -/
theorem kitty_cmd_payload (fmt width v z : Int) (rw r level : Nat) (p : List Nat) (hb : ∀ a ∈ p, a < 256) :
    let k := C01.kittyCmd fmt width v z rw r level p
    (∀ c ∈ k.chunks, c.2.length ≤ 4096 ∧ c.2.length % 4 = 0) ∧
    Base64.dec ((k.chunks.map Prod.snd).flatten) = some p ∧ k.cols = rw ∧ k.rows = r := by
  have h := kitty_chunk_law p hb
  have h4096 : Generated.chunkSize = 4096 := by decide
  rw [h4096] at h
  exact ⟨h.1, h.2, rfl, rfl⟩

/-- ITERM2 command as the renderer builds it: the `size=` key is the decoded payload length, the
    footprint keys are the render size, and the payload decodes to the encoded image -/
theorem iterm_cmd_payload (w h : Nat) (konsole : Bool) (p : List Nat) (hb : ∀ a ∈ p, a < 256) :
    let c := C01.itermCmd w h konsole p
    c.control = itermFrame p.length w h konsole ∧ Base64.dec c.payload = some p ∧
    c.cols = w ∧ c.rows = h ∧ c.noMove = konsole :=
  ⟨rfl, Base64.dec_enc p hb, rfl, rfl, rfl⟩

/-- non-vacuity: a payload spanning exactly three chunks at a small size -/
example : getChunks 4 [1, 2, 3, 4, 5, 6, 7, 8, 9] = [(true, [1, 2, 3, 4]), (true, [5, 6, 7, 8]), (false, [9])] := by
  rw [getChunks_refines 4 (by decide)]
  simp [chunkSpec, pieces, flagged]

end TIV.C03
