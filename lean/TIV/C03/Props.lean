import TIV.C03.Proofs
import TIV.C03.Generated
import TIV.Common.Base64Proofs
/-!
# C03 — property theorems (kitty framing; iterm2 framing in a later section)
Statements only use `getChunks` (the mirror of `Transmission.get_chunks`), `Base64.enc/dec`
and the generated constants.
-/
namespace TIV.C03

/-- the generated constants are the ones the model was written for -/
theorem generated_template :
    Generated.kittyStart = apcStart ∧ Generated.kittySep = [59] ∧ Generated.kittyEnd = st := by decide

theorem generated_control_fields :
    Generated.controlFields = ["a", "f", "t", "s", "v", "z", "o", "C", "c", "r"] ∧
    Generated.controlDefaults =
      [some "T", some "32", some "d", none, none, some "0", none, some "1", none, none] := by decide

/-- the default chunk size satisfies what the protocol demands of it -/
theorem generated_chunk_size :
    0 < Generated.chunkSize ∧ Generated.chunkSize ≤ 4096 ∧ Generated.chunkSize % 4 = 0 := by decide

/-- REFINEMENT: the two-chunk look-ahead loop of `get_chunks` is "cut into pieces, flag all but
    the last", for every payload and every positive size. -/
theorem getChunks_refines {α} (size : Nat) (hs : 0 < size) (p : List α) :
    getChunks size p = chunkSpec size p := by
  unfold getChunks chunkSpec read
  by_cases hp : p = []
  · subst hp
    simp
    rw [loop]; simp
  · have hp' : ¬ (p.isEmpty = true ∨ size = 0) := by
      simp [List.isEmpty_iff]; exact ⟨hp, by omega⟩
    simp only [hp', if_false]
    rw [pieces_cons size p hp hs]
    by_cases hr : p.drop size = []
    · simp only [hr, List.take_nil, List.drop_nil, pieces_nil, flagged]
      rw [loop]; simp
    · have ht := take_ne_nil size (p.drop size) hr hs
      have hl := loop_eq size hs ((p.drop size).drop size) ((p.drop size).take size) ht
      rw [hl, pieces_cons size (p.drop size) hr hs]
      simp [flagged, List.isEmpty_iff, ht]

/-- concatenating the chunk payloads gives back the encoded payload -/
theorem chunks_concat {α} (size : Nat) (hs : 0 < size) (p : List α) :
    ((getChunks size p).map Prod.snd).flatten = p := by
  rw [getChunks_refines size hs]
  unfold chunkSpec
  by_cases hp : p = []
  · subst hp; simp
  · have hp' : ¬ (p.isEmpty = true ∨ size = 0) := by
      simp [List.isEmpty_iff]; exact ⟨hp, by omega⟩
    simp only [hp', if_false, flagged_snd, pieces_flatten size hs]

/-- every chunk but the last has exactly `size` characters; the last has at most `size` -/
theorem chunks_sizes {α} (size : Nat) (hs : 0 < size) (p : List α) (cs : List (Bool × List α))
    (c : Bool × List α) (h : getChunks size p = cs ++ [c]) :
    (∀ d ∈ cs, d.2.length = size) ∧ c.2.length ≤ size := by
  rw [getChunks_refines size hs] at h
  unfold chunkSpec at h
  by_cases hp : p = []
  · subst hp
    simp at h
    have : cs = [] := by
      cases cs with
      | nil => rfl
      | cons a t => simp at h
    subst this; simp at h; subst h; simp
  · have hp' : ¬ (p.isEmpty = true ∨ size = 0) := by
      simp [List.isEmpty_iff]; exact ⟨hp, by omega⟩
    simp only [hp', if_false] at h
    have hsnd := congrArg (List.map Prod.snd) h
    rw [flagged_snd, List.map_append] at hsnd
    have := pieces_sizes size hs p (cs.map Prod.snd) c.2 (by simpa using hsnd)
    refine ⟨?_, this.2.2⟩
    intro d hd
    exact this.1 d.2 (List.mem_map_of_mem hd)

/-- continuation flags are `m=1, …, m=1, m=0` -/
theorem chunks_flags {α} (size : Nat) (hs : 0 < size) (p : List α) :
    ∃ k, (getChunks size p).map Prod.fst = List.replicate k true ++ [false] := by
  rw [getChunks_refines size hs]
  unfold chunkSpec
  by_cases hp : p = []
  · subst hp; exact ⟨0, by simp⟩
  · have hp' : ¬ (p.isEmpty = true ∨ size = 0) := by
      simp [List.isEmpty_iff]; exact ⟨hp, by omega⟩
    simp only [hp', if_false]
    have hne : pieces size p ≠ [] := by rw [pieces_cons size p hp hs]; simp
    obtain ⟨cs, c, hcs⟩ : ∃ cs c, pieces size p = cs ++ [c] :=
      ⟨(pieces size p).dropLast, (pieces size p).getLast hne, (List.dropLast_concat_getLast hne).symm⟩
    rw [hcs]
    exact ⟨cs.length, flagged_flags cs c⟩

/-- THE KITTY CHUNK LAW at the library's own chunk size, for every payload:
    each chunk is at most 4096 base64 characters, every chunk but the last is a multiple of 4
    (so is the last one, base64 being padded), and the payload survives: decoding the
    concatenation of all chunks yields the transmitted bytes. -/
theorem kitty_chunk_law (x : List Nat) (hb : ∀ a ∈ x, a < 256) :
    let chunks := getChunks Generated.chunkSize (Base64.enc x)
    (∀ c ∈ chunks, c.2.length ≤ 4096 ∧ c.2.length % 4 = 0) ∧
    Base64.dec ((chunks.map Prod.snd).flatten) = some x := by
  have hs : 0 < Generated.chunkSize := by decide
  intro chunks
  have hcat : (chunks.map Prod.snd).flatten = Base64.enc x := chunks_concat _ hs _
  refine ⟨?_, by rw [hcat]; exact Base64.dec_enc x hb⟩
  have hne : chunks ≠ [] := by simp [chunks, getChunks]
  obtain ⟨cs, c, hcs⟩ : ∃ cs c, chunks = cs ++ [c] :=
    ⟨chunks.dropLast, chunks.getLast hne, (List.dropLast_concat_getLast hne).symm⟩
  have hsz := chunks_sizes Generated.chunkSize hs (Base64.enc x) cs c hcs
  have hlen : ((chunks.map Prod.snd).flatten).length % 4 = 0 := by
    rw [hcat]; exact Base64.enc_length_mod4 x
  have hsum : ((chunks.map Prod.snd).flatten).length = cs.length * Generated.chunkSize + c.2.length := by
    rw [hcs]
    simp only [List.map_append, List.flatten_append, List.length_append, List.map_cons, List.map_nil,
      List.flatten_cons, List.flatten_nil, List.append_nil]
    congr 1
    clear hcs hlen hcat hne
    induction cs with
    | nil => rfl
    | cons d ds ih =>
      have hd := hsz.1 d (by simp)
      have := ih ⟨fun e he => hsz.1 e (by simp [he]), hsz.2⟩
      simp [hd, this]; rw [Nat.add_mul]; omega
  intro d hd
  rw [hcs] at hd
  simp at hd
  have h4096 : Generated.chunkSize = 4096 := by decide
  rcases hd with hd | rfl
  · have := hsz.1 d hd
    omega
  · refine ⟨by have := hsz.2; omega, ?_⟩
    rw [hsum, h4096] at hlen
    omega

/-- `o=z` is present exactly when the compression level is non-zero -/
theorem o_key_iff_level (d : Control) (level : Nat) :
    ((d.withLevel level).o = some "z") ↔ level ≠ 0 := by
  unfold Control.withLevel; split <;> simp_all

/-- non-vacuity: a payload spanning exactly three chunks at a small size -/
example : getChunks 4 [1, 2, 3, 4, 5, 6, 7, 8, 9] = [(true, [1, 2, 3, 4]), (true, [5, 6, 7, 8]), (false, [9])] := by
  rw [getChunks_refines 4 (by decide)]
  simp [chunkSpec, pieces, flagged]

end TIV.C03
