import TIV.Common.DriverMain
import TIV.C03.Drive
def main : IO Unit := TIV.driverMain TIV.C03.handler
