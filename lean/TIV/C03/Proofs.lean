import TIV.C03.Model
/-! helper lemmas for C03 (chunking refinement, base64 arithmetic) -/
namespace TIV.C03

theorem pieces_nil {α} (size : Nat) : pieces size ([] : List α) = [] := by
  unfold pieces; simp

theorem pieces_cons {α} (size : Nat) (p : List α) (hp : p ≠ []) (hs : 0 < size) :
    pieces size p = p.take size :: pieces size (p.drop size) := by
  rw [pieces]
  have : ¬ (p.isEmpty = true ∨ size = 0) := by
    simp [List.isEmpty_iff]; exact ⟨hp, by omega⟩
  rw [dif_neg this]

theorem take_ne_nil {α} (size : Nat) (p : List α) (hp : p ≠ []) (hs : 0 < size) : p.take size ≠ [] := by
  cases p with
  | nil => exact absurd rfl hp
  | cons x xs => cases size with
    | zero => omega
    | succ n => simp

/-- the loop, seen from the unread stream `s` (its `next`/`rest` are always `take`/`drop` of it) -/
theorem loop_eq {α} (size : Nat) (hs : 0 < size) (s : List α) :
    ∀ chunk : List α, chunk ≠ [] →
      loop size chunk (s.take size) (s.drop size) = flagged (chunk :: pieces size s) := by
  induction h : s.length using Nat.strongRecOn generalizing s with
  | ind n ih =>
    intro chunk hc
    by_cases hsn : s = []
    · subst hsn
      rw [loop]; simp [pieces_nil, flagged, List.isEmpty_iff, hc]
    · have ht := take_ne_nil size s hsn hs
      rw [loop]
      simp only [List.isEmpty_iff, ht, if_false]
      rw [pieces_cons size s hsn hs]
      have hlen : (s.drop size).length < n := by
        subst h
        cases s with
        | nil => exact absurd rfl hsn
        | cons x xs => simp [List.length_drop]; omega
      have := ih _ hlen (s.drop size) rfl (s.take size) ht
      simp only [flagged]
      rw [this]

theorem flagged_snd {α} (cs : List (List α)) : (flagged cs).map Prod.snd = cs := by
  induction cs with
  | nil => rfl
  | cons c cs ih => cases cs with
    | nil => rfl
    | cons d ds => simp [flagged, ih]

theorem pieces_flatten {α} (size : Nat) (hs : 0 < size) (p : List α) : (pieces size p).flatten = p := by
  induction h : p.length using Nat.strongRecOn generalizing p with
  | ind n ih =>
    by_cases hp : p = []
    · subst hp; simp [pieces_nil]
    · rw [pieces_cons size p hp hs]
      have hlen : (p.drop size).length < n := by
        subst h
        cases p with
        | nil => exact absurd rfl hp
        | cons x xs => simp [List.length_drop]; omega
      simp [ih _ hlen (p.drop size) rfl]

/-- every piece but the last has exactly `size` elements, the last between 1 and `size` -/
theorem pieces_sizes {α} (size : Nat) (hs : 0 < size) (p : List α) :
    ∀ cs c, pieces size p = cs ++ [c] → (∀ d ∈ cs, d.length = size) ∧ 0 < c.length ∧ c.length ≤ size := by
  induction h : p.length using Nat.strongRecOn generalizing p with
  | ind n ih =>
    intro cs c hcs
    by_cases hp : p = []
    · subst hp; simp [pieces_nil] at hcs
    · rw [pieces_cons size p hp hs] at hcs
      have hlen : (p.drop size).length < n := by
        subst h
        cases p with
        | nil => exact absurd rfl hp
        | cons x xs => simp [List.length_drop]; omega
      cases cs with
      | nil =>
        simp at hcs
        obtain ⟨h1, h2⟩ := hcs
        subst h1
        refine ⟨by simp, ?_, by simp [List.length_take]; omega⟩
        have := take_ne_nil size p hp hs
        exact List.length_pos_iff.mpr this
      | cons d ds =>
        simp at hcs
        obtain ⟨h1, h2⟩ := hcs
        have hd : (p.drop size) ≠ [] := by
          intro hnil; rw [hnil, pieces_nil] at h2; simp at h2
        have := ih _ hlen (p.drop size) rfl ds c h2
        refine ⟨?_, this.2⟩
        intro e he
        simp at he
        rcases he with rfl | he
        · subst h1
          have : size < p.length := by
            have := List.length_pos_iff.mpr hd
            simp [List.length_drop] at this; omega
          simp [List.length_take]; omega
        · exact this.1 e he

/-- flags: `m=1` on every command but the last, `m=0` on the last -/
theorem flagged_flags {α} (cs : List (List α)) (c : List α) :
    (flagged (cs ++ [c])).map Prod.fst = List.replicate cs.length true ++ [false] := by
  induction cs with
  | nil => rfl
  | cons d ds ih =>
    cases ds with
    | nil => rfl
    | cons e es => simp [flagged] at ih ⊢; simpa [List.replicate_succ] using ih

end TIV.C03
