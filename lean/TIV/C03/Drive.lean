import TIV.Common.Wire
import TIV.C03.Model
import TIV.C01.Drive
/-! driver ops of C03 -/
namespace TIV.C03
open TIV.Wire

def toNats (bs : List UInt8) : List Nat := bs.map (·.toNat)
def ofNats (ns : List Nat) : List UInt8 := ns.map UInt8.ofNat

def fmtChunks (cs : List (Bool × List Nat)) : String :=
  fmtList (fun (m, c) => fmtBool m ++ " " ++ hexEncode (ofNats c)) cs

def pControl : P Control := do
  let a ← optOf word; let f ← optOf nat; let t ← optOf word; let s ← optOf nat; let v ← optOf nat
  let z ← optOf int; let C ← optOf nat; let c ← optOf nat; let r ← optOf nat
  pure { a, f, t, s, v, z, o := none, C, c, r }

def handler : Handler := fun op args =>
  match op with
  | "chunks64" => run (do
      let size ← nat; let p ← hex
      pure ("ok " ++ fmtChunks (getChunks size (Base64.enc (toNats p))))) args
  | "b64enc" => run (do let p ← hex; pure ("ok " ++ hexEncode (ofNats (Base64.enc (toNats p))))) args
  | "b64dec" => run (do
      let p ← hex
      pure (match Base64.dec (toNats p) with
        | some x => "ok " ++ hexEncode (ofNats x)
        | none => "err invalid")) args
  | "trans" => run (do
      let ctrl ← pControl; let level ← nat; let size ← nat; let p ← hex
      pure ("ok " ++ hexEncode (ofNats (transmission ctrl level size (toNats p))))) args
  | "strips" => run (do
      let width ← nat; let height ← nat; let rh ← nat; let fmt ← nat; let raw ← hex
      let k := bytesPerLine width height rh fmt
      pure ("ok " ++ fmtList (fun s => hexEncode (ofNats s)) (strips k rh (toNats raw)))) args
  | "minsize" => run (do
      let a ← nat; let b ← nat; let c ← nat; let d ← nat
      let r := minimalRenderSize (a, b) (c, d)
      pure s!"ok {r.1} {r.2}") args
  | "gate" => run (do
      let readFromFile ← bool; let animated ← bool; let readable ← bool; let whole ← bool
      let origPixels ← nat; let renderPixels ← nat; let modeNoAlpha ← bool; let alphaIsFloat ← bool
      let modePalette ← bool
      let g : FileGate := ⟨readFromFile, animated, readable, whole, origPixels, renderPixels, modeNoAlpha, alphaIsFloat, modePalette⟩
      pure ("ok " ++ fmtBool (usesFile g))) args
  | _ => C01.handler op args

end TIV.C03
