import TIV.C03.Model
import TIV.C03.Translated
/-!
# C03 — the arithmetic kernels of the graphics renders ARE the translation of the current source

`TIV.C03.Translated.*` is regenerated on every run from `GraphicsImage._get_minimal_render_size`
and from the LINES branch of `KittyImage._render_image`.
-/
namespace TIV.C03

def sizeToInt (s : Nat × Nat) : Int × Int := (s.1, s.2)

/-- TRANSLATION TIE `_get_minimal_render_size()` (`adjust=False`, what WHOLE renders use): all
    render sizes, all original sizes, whatever the rendered height -/
theorem minimalRenderSize_eq_translated (render orig : Nat × Nat) (rh : Int) :
    Translated.get_minimal_render_size (sizeToInt render) (sizeToInt orig) rh false
      = .ok (sizeToInt (minimalRenderSize render orig)) := by
  unfold Translated.get_minimal_render_size minimalRenderSize sizeToInt
  have key : ((render.1 : Int) * render.2 < (orig.1 : Int) * orig.2) ↔ render.1 * render.2 < orig.1 * orig.2 := by
    rw [← Int.natCast_mul, ← Int.natCast_mul]; exact Int.ofNat_lt
  by_cases h : render.1 * render.2 < orig.1 * orig.2 <;> simp [h, key]

example : Translated.get_minimal_render_size (40, 60) (30, 20) 3 false = .ok (30, 20) := by decide

/-- what `adjust=True` adds (proved of the translated source directly; the model does not carry
    it): the width is untouched and the height becomes the least multiple of the rendered height
    that is not below it -/
theorem translated_adjust (render orig : Int × Int) (rh : Int) (hrh : 0 < rh) :
    ∃ w h h', Translated.get_minimal_render_size render orig rh false = .ok (w, h) ∧
      Translated.get_minimal_render_size render orig rh true = .ok (w, h') ∧
      h' % rh = 0 ∧ h ≤ h' ∧ h' < h + rh := by
  unfold Translated.get_minimal_render_size
  have hne : rh ≠ 0 := by omega
  have hm (x : Int) : Int.fmod x rh = x % rh := Int.fmod_eq_emod_of_nonneg x (by omega)
  have hlt (x : Int) : 0 ≤ x % rh ∧ x % rh < rh := ⟨Int.emod_nonneg x hne, Int.emod_lt_of_pos x hrh⟩
  simp only [hne, hm, if_true, if_false, ne_eq, not_false_eq_true, reduceCtorEq]
  generalize (if render.1 * render.2 < orig.1 * orig.2 then render else orig) = sz
  by_cases he : sz.2 % rh = 0
  · exact ⟨sz.1, sz.2, sz.2, by simp, by simp [he], he, by omega, by omega⟩
  · refine ⟨sz.1, sz.2, sz.2 - sz.2 % rh + rh, by simp, by simp [he], ?_, ?_, ?_⟩
    · have : sz.2 - sz.2 % rh + rh = rh * (sz.2 / rh + 1) := by
        have := Int.mul_ediv_add_emod sz.2 rh
        rw [Int.mul_add]; omega
      rw [this]; exact Int.mul_emod_right _ _
    · have := hlt sz.2; omega
    · have := hlt sz.2; omega

example : Translated.get_minimal_render_size (40, 60) (30, 20) 3 true = .ok (30, 21) := by decide

/-- TRANSLATION TIE kitty LINES geometry: `cell_height = height // r_height`,
    `bytes_per_line = width * cell_height * (format // 8)` -/
theorem bytesPerLine_eq_translated (width height rh fmt : Nat) (h : rh ≠ 0) :
    Translated.kitty_lines_geometry width height rh fmt
      = .ok (((height / rh : Nat) : Int), ((bytesPerLine width height rh fmt : Nat) : Int)) := by
  unfold Translated.kitty_lines_geometry bytesPerLine
  simp [h, Int.fdiv_eq_ediv_of_nonneg]

/-- a zero rendered height is a `ZeroDivisionError` in the source (outside the model's domain) -/
theorem translated_zero_height (width height fmt : Int) :
    Translated.kitty_lines_geometry width height 0 fmt = .error "ZeroDivisionError" := by
  simp [Translated.kitty_lines_geometry]

example : Translated.kitty_lines_geometry 10 48 4 32 = .ok (12, 480) := by decide

end TIV.C03
