import TIV.Common.Base64
/-!
# C03 model — kitty transmission chunking (`Transmission.get_chunks`), control data,
LINES strip arithmetic, iterm2 framing.  Mirrors src/term_image/image/kitty.py and iterm2.py.
-/
namespace TIV.C03

/-- `payload.read(size)` on a `StringIO`: the next `size` characters and the remaining stream -/
def read {α} (size : Nat) (p : List α) : List α × List α := (p.take size, p.drop size)

/-- the `while next_chunk:` loop of `get_chunks` followed by the final `if chunk:`.
    State is `(chunk, next_chunk, unread stream)`. Output: `(m flag, payload)` per command. -/
def loop {α} (size : Nat) (chunk next rest : List α) : List (Bool × List α) :=
  if next.isEmpty then (if chunk.isEmpty then [] else [(false, chunk)])
  else (true, chunk) :: loop size next (rest.take size) (rest.drop size)
termination_by next.length + rest.length
decreasing_by
  cases next with
  | nil => simp at *
  | cons x xs => simp [List.length_take, List.length_drop]; omega

/-- `Transmission.get_chunks(size)`: the first command (which carries the control keys) and
    the continuation commands. -/
def getChunks {α} (size : Nat) (p : List α) : List (Bool × List α) :=
  let (chunk, r1) := read size p
  let (next, r2) := read size r1
  (!next.isEmpty, chunk) :: loop size next (r2.take size) (r2.drop size)

/-! ## specification: cut into pieces of `size`, flag all but the last -/

/-- cut a list into consecutive pieces of `size` elements (the last may be shorter) -/
def pieces {α} (size : Nat) (p : List α) : List (List α) :=
  if h : p.isEmpty ∨ size = 0 then [] else p.take size :: pieces size (p.drop size)
termination_by p.length
decreasing_by
  cases p with
  | nil => simp at h
  | cons x xs => simp at h; simp [List.length_drop]; omega

/-- flag every piece but the last with `m=1` -/
def flagged {α} : List (List α) → List (Bool × List α)
  | [] => []
  | [c] => [(false, c)]
  | c :: d :: cs => (true, c) :: flagged (d :: cs)

/-- what the kitty protocol documentation asks for: an empty payload is one command with
    `m=0`; otherwise the pieces, all flagged `m=1` but the last -/
def chunkSpec {α} (size : Nat) (p : List α) : List (Bool × List α) :=
  if p.isEmpty ∨ size = 0 then [(false, [])] else flagged (pieces size p)

/-! ## control data (`ControlData` dataclass + `Transmission.get_control_data`) -/

/-- one `key=value` item; `none` values are elided -/
def kv (k : String) (v : Option String) : List String :=
  match v with
  | none => []
  | some s => [k ++ "=" ++ s]

structure Control where
  a : Option String := some "T"
  f : Option Nat := some 32
  t : Option String := some "d"
  s : Option Nat := none
  v : Option Nat := none
  z : Option Int := some 0
  o : Option String := none
  C : Option Nat := some 1
  c : Option Nat := none
  r : Option Nat := none

def Control.render (d : Control) : String :=
  String.intercalate ","
    (kv "a" d.a ++ kv "f" (d.f.map toString) ++ kv "t" d.t ++ kv "s" (d.s.map toString)
      ++ kv "v" (d.v.map toString) ++ kv "z" (d.z.map toString) ++ kv "o" d.o
      ++ kv "C" (d.C.map toString) ++ kv "c" (d.c.map toString) ++ kv "r" (d.r.map toString))

/-- `Transmission.__post_init__`: compression sets `o=z` iff level ≠ 0 (t is always DIRECT here) -/
def Control.withLevel (d : Control) (level : Nat) : Control :=
  if level ≠ 0 then { d with o := some "z" } else { d with o := none }

/-! ## a whole transmission as bytes -/
def esc : Nat := 27
def apcStart : List Nat := [esc, 95, 71]      -- ESC _ G
def st : List Nat := [esc, 92]                -- ESC \

def strBytes (s : String) : List Nat := s.toUTF8.toList.map (·.toNat)

/-- `KITTY_TRANSMISSION % (control, payload)` -/
def command (control : String) (payload : List Nat) : List Nat :=
  apcStart ++ strBytes control ++ [59] ++ payload ++ st

/-- `Transmission(control, payload, level).get_chunked()` given the (already compressed) payload:
    base64-encode, chunk, and frame. -/
def transmission (ctrl : Control) (level size : Nat) (payload : List Nat) : List Nat :=
  let cd := (ctrl.withLevel level).render
  match getChunks size (Base64.enc payload) with
  | [] => []
  | (m, c) :: rest =>
    command (cd ++ ",m=" ++ (if m then "1" else "0")) c
      ++ (rest.flatMap fun (m, c) => command (if m then "m=1" else "m=0") c)


/-! ## LINES strips (`raw_image.read(bytes_per_line)` once per line) -/

/-- `n` successive reads of `k` bytes from the raw image -/
def strips {α} (k : Nat) : Nat → List α → List (List α)
  | 0, _ => []
  | n + 1, raw => raw.take k :: strips k n (raw.drop k)

/-- `cell_height = height // r_height`, `bytes_per_line = width * cell_height * (format // 8)` -/
def bytesPerLine (width height rh fmt : Nat) : Nat := width * (height / rh) * (fmt / 8)

/-! ## WHOLE minimal render size (`GraphicsImage._get_minimal_render_size`, `adjust=False`) -/
def minimalRenderSize (render orig : Nat × Nat) : Nat × Nat :=
  if render.1 * render.2 < orig.1 * orig.2 then render else orig

/-! ## iterm2: the read-from-file gate of `ITerm2Image._render_image` as decision logic -/
structure FileGate where
  readFromFile : Bool      -- `self.read_from_file`
  animated : Bool          -- `self._is_animated`
  readable : Bool          -- `file_is_readable`
  whole : Bool             -- `render_method == WHOLE`
  origPixels : Nat         -- `mul(*self._original_size)`
  renderPixels : Nat       -- `mul(*self._get_render_size())`
  modeNoAlpha : Bool       -- `img.mode in {"1", "L", "RGB", "HSV", "CMYK"}`
  alphaIsFloat : Bool      -- `isinstance(alpha, float)`
  modePalette : Bool       -- `img.mode in {"P", "PA"}`

def usesFile (g : FileGate) : Bool :=
  g.readFromFile && !g.animated && g.readable && g.whole && decide (g.origPixels ≤ g.renderPixels) &&
    (g.modeNoAlpha || (g.alphaIsFloat && !g.modePalette))

/-- the `size=` prefix of the iterm2 control data and its payload -/
def itermFrame (size w h : Nat) (konsole : Bool) : String :=
  s!"size={size};width={w};height={h};preserveAspectRatio=0;inline=1" ++ (if konsole then ";doNotMoveCursor=1" else "")

end TIV.C03
