import TIV.C12.Model
import TIV.C12.Translated
import TIV.Common.Tok
/-!
# C12 — the arithmetic of `x_parse_color` and the `cursor_*` guards ARE the translation of the
current source of `term_image._ctlseqs`
-/
namespace TIV.C12

theorem two_pow_four_mul (n : Nat) : (2 : Int) ^ (4 * n) = ((16 ^ n : Nat) : Int) := by
  rw [Int.pow_mul]; norm_cast

/-- the arithmetic of one component, for every value and every positive number of hex digits -/
theorem scale_eq_translated (v n : Nat) (hn : 0 < n) :
    Translated.x_parse_color_scale v n = .ok ((v * 255 / (16 ^ n - 1) : Nat) : Int) := by
  unfold Translated.x_parse_color_scale
  have h16 : 16 ≤ 16 ^ n := by
    calc 16 = 16 ^ 1 := rfl
      _ ≤ 16 ^ n := Nat.pow_le_pow_right (by decide) hn
  have e : ((n : Int) * 4).toNat = 4 * n := by omega
  have hp : (1 : Int) * 2 ^ (4 * n) - 1 = ((16 ^ n - 1 : Nat) : Int) := by
    rw [two_pow_four_mul]; omega
  have hnz : ((16 ^ n - 1 : Nat) : Int) ≠ 0 := by omega
  have hneg : ¬ ((n : Int) * 4 < 0) := by omega
  rw [if_neg hneg, e, hp, if_neg hnz, Int.fdiv_eq_ediv_of_nonneg _ (Int.natCast_nonneg _)]
  generalize 16 ^ n - 1 = m
  rw [Int.natCast_ediv, Int.natCast_mul]
  rfl

/-- TRANSLATION TIE `x_parse_color`, per component: whenever the model scales a component
    (non-empty, hex digits), the translated source gives the same number on
    `int(component, 16)`, `len(component)` -/
theorem scaleComp_eq_translated (c : Bytes) (x : Nat) (h : scaleComp c = some x) :
    Translated.x_parse_color_scale (hexVal c) c.length = .ok (x : Int) := by
  unfold scaleComp at h
  split at h
  · cases h
  · rename_i hc
    have hne : 0 < c.length := by
      cases c with
      | nil => simp at hc
      | cons _ _ => simp
    rw [scale_eq_translated _ _ hne]
    simp only [Option.some.injEq] at h
    rw [h]

/-- an empty component is `ZeroDivisionError` in the scaling expression itself (in the source
    `int('', 16)` raises `ValueError` before it is reached) -/
theorem translated_scale_empty (v : Int) : Translated.x_parse_color_scale v 0 = .error "ZeroDivisionError" := by
  simp [Translated.x_parse_color_scale]

example : Translated.x_parse_color_scale 0xff 2 = .ok 255 := by decide
example : Translated.x_parse_color_scale 0xf 1 = .ok 255 := by decide
example : Translated.x_parse_color_scale 0x8000 4 = .ok 127 := by decide
example : scaleComp [102, 102] = some 255 := by decide

/-- TRANSLATION TIE `cursor_up/down/forward/backward`: nothing for a count ≤ 0, otherwise the
    sequence with exactly that count -/
theorem cursor_eq_translated (n : Int) :
    cursorUp n = (if Translated.cursor_up_count n = 0 then [] else [.cuu (Translated.cursor_up_count n).toNat]) ∧
    cursorDown n = (if Translated.cursor_down_count n = 0 then [] else [.cud (Translated.cursor_down_count n).toNat]) ∧
    cursorForward n = (if Translated.cursor_forward_count n = 0 then [] else [.cuf (Translated.cursor_forward_count n).toNat]) ∧
    cursorBackward n = (if Translated.cursor_backward_count n = 0 then [] else [.cub (Translated.cursor_backward_count n).toNat]) := by
  unfold cursorUp cursorDown cursorForward cursorBackward Translated.cursor_up_count
    Translated.cursor_down_count Translated.cursor_forward_count Translated.cursor_backward_count
  by_cases h : n > 0
  · have : n ≠ 0 := by omega
    simp [h, this]
  · simp [h]

example : Translated.cursor_up_count 3 = 3 ∧ Translated.cursor_up_count (-3) = 0 := by decide

end TIV.C12
