import TIV.Common.Wire
import TIV.C12.Model
/-! driver ops of C12 -/
namespace TIV.C12
open TIV.Wire

def toNats (bs : List UInt8) : Bytes := bs.map (·.toNat)
def ofNats (ns : Bytes) : List UInt8 := ns.map UInt8.ofNat
def hx (b : Bytes) : String := hexEncode (ofNats b)

def pBytes : P Bytes := do let b ← hex; pure (toNats b)
def pStream : P Stream := listOf (do let g ← nat; let b ← nat; pure (g, b))
def pBursts : P Stream := do
  let bs ← listOf (do let g ← nat; let b ← pBytes; pure (g, b))
  pure (ofBursts 0 bs)
def pStyle : P Style := do
  let t ← word
  match t with
  | "kitty" => pure .kitty
  | "iterm2" => pure .iterm2
  | "block" => pure .block
  | _ => failure
def pMore : P (Bytes → Bool) := do
  let t ← word
  if t == "c" then pure moreC
  else if t == "csi" then pure moreCSI
  else if t == "lt" then do let k ← nat; pure (fun s => s.length < k)
  else failure

def fmtStream (s : Stream) : String := fmtList (fun (g, b) => s!"{g} {b}") s
def fmtOB (o : Option Bytes) : String := fmtOpt hx o
def fmtRGB (o : Option RGB) : String := fmtOpt (fun (r, g, b) => s!"{r} {g} {b}") o
def fmtTail (d : Nat) (s : Stream) : String := s!" @ {d} " ++ fmtStream s

def fmtExcept {α} (f : α → String) (r : Except Err α) (d : Nat) (s : Stream) : String :=
  match r with
  | .ok v => "ok " ++ f v ++ fmtTail d s
  | .error e => "err " ++ e.name ++ fmtTail d s

def handler : Handler := fun op args =>
  match op with
  | "bursts" => run (do let s ← pBursts; pure ("ok " ++ fmtStream s)) args
  | "merge" => run (do let a ← pStream; let b ← pStream; pure ("ok " ++ fmtStream (merge a b))) args
  | "read" => run (do
      let more ← pMore; let T ← nat; let w ← pStream
      let r := readLoop more T 0 [] w
      pure ("ok " ++ hx r.1 ++ fmtTail r.2.1 r.2.2)) args
  | "readtty" => run (do
      let more ← pMore; let T ← nat; let mn ← nat; let echo ← bool; let w ← pStream
      pure (match readTty more T mn echo w with
        | some r => "ok " ++ hx r.1 ++ fmtTail r.2.1 r.2.2
        | none => "err blocked")) args
  | "polls" => run (do
      let more ← pMore; let T ← nat; let w ← pStream
      let r := readIter more T (w.length + 2) 0 [] w
      pure (s!"ok {r.2}")) args
  | "avail" => run (do
      let w ← pStream
      let r := readAvail w
      pure ("ok " ++ hx r.1 ++ " " ++ fmtStream r.2)) args
  | "query" => run (do
      let en ← bool; let more ← pMore; let T ← nat; let w ← pStream; let arr ← pBursts
      let r := queryTerminal en more T w arr
      pure ("ok " ++ fmtOB r.1 ++ fmtTail r.2.1 r.2.2)) args
  | "colors" => run (do
      let en ← bool; let T ← nat; let w ← pStream; let arr ← pBursts
      let r := getFgBgColors en T w arr
      pure (fmtExcept (fun (f, b) => fmtRGB f ++ " " ++ fmtRGB b) r.1 r.2.1 r.2.2)) args
  | "namever" => run (do
      let en ← bool; let T ← nat; let w ← pStream; let arr ← pBursts
      let en' ← optOf pBytes; let ev ← optOf pBytes
      let r := getNameVersion en T w arr en' ev
      pure ("ok " ++ fmtOB r.1.1 ++ " " ++ fmtOB r.1.2 ++ fmtTail r.2.1 r.2.2)) args
  | "nameverq" => run (do
      -- what `get_terminal_name_version` leaves on the tty (ticks, unread), whatever it returns or raises
      let en ← bool; let T ← nat; let w ← pStream; let arr ← pBursts
      let en' ← optOf pBytes; let ev ← optOf pBytes
      let r := getNameVersion en T w arr en' ev
      pure ("ok" ++ fmtTail r.2.1 r.2.2)) args
  | "cellsize" => run (do
      let en ← bool; let T ← nat; let w ← pStream; let arr ← pBursts
      let cols ← nat; let rows ← nat
      let io ← optOf (do let x ← nat; let y ← nat; pure (x, y))
      let swap ← bool; let termux ← bool
      let r := getCellSize en T w arr cols rows io swap termux
      pure (fmtExcept (fmtOpt fun (a, b) => s!"{a} {b}") r.1 r.2.1 r.2.2)) args
  | "kitty" => run (do
      let en ← bool; let T ← nat; let w ← pStream; let arr ← pBursts
      let name ← optOf pBytes; let ver ← optOf pBytes
      let r := kittySupported en T w arr name ver
      pure ("ok " ++ fmtBool r.1 ++ fmtTail r.2.1 r.2.2)) args
  | "iterm" => run (do
      let name ← optOf pBytes; let ver ← optOf pBytes
      pure (match itermSupported name ver with
        | .ok b => "ok " ++ fmtBool b
        | .error e => "err " ++ e.name)) args
  | "auto" => run (do
      let styles ← listOf pStyle
      let en ← bool; let T ← nat; let w ← pStream; let arrNV ← pBursts; let arrK ← pBursts
      let envName ← optOf pBytes; let envVer ← optOf pBytes; let blockSup ← bool
      let r := autoSession styles
        { enabled := en, T := T, arrNV := arrNV, arrK := arrK, envName := envName,
          envVer := envVer, blockSup := blockSup } w
      pure (fmtExcept (fmtOpt Style.name) r.1 r.2.1 r.2.2)) args
  | "autoclass" => run (do
      let styles ← listOf pStyle; let k ← bool; let i ← bool; let b ← bool
      pure ("ok " ++ fmtOpt Style.name
        (autoClass (fun s => match s with | .kitty => k | .iterm2 => i | .block => b) styles))) args
  | "findall" => run (do
      let s ← pBytes
      pure ("ok " ++ fmtList (fun (c, b) => hx c ++ " " ++ hx b) (findallRgb s.length s))) args
  | "xparse" => run (do
      let s ← pBytes
      pure (match xParseColor s with
        | .ok (r, g, b) => s!"ok {r} {g} {b}"
        | .error e => "err " ++ e.name)) args
  | "xtversion" => run (do
      let s ← pBytes
      pure ("ok " ++ fmtOpt (fun (n, v) => hx n ++ " " ++ hx v) (matchXtversion s))) args
  | "winops" => run (do
      let n ← nat; let s ← pBytes
      pure ("ok " ++ fmtOpt (fun (a, b) => s!"{a} {b}") (matchWinops n s))) args
  | "kittyresp" => run (do
      let s ← pBytes
      pure ("ok " ++ fmtOpt (fun (i, m) => hx i ++ " " ++ hx m) (matchKittyResponse s))) args
  | "pyint" => run (do
      let s ← pBytes
      pure ("ok " ++ fmtOpt toString (pyInt s))) args
  | "vtuple" => run (do
      let s ← pBytes
      pure ("ok " ++ fmtOpt (fmtList toString) (versionTuple s))) args
  | "lexge" => run (do
      let a ← listOf int; let b ← listOf int
      pure ("ok " ++ fmtBool (lexGe a b))) args
  | _ => none

end TIV.C12
