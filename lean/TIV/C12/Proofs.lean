import TIV.C12.Model
/-! helper lemmas for C12 -/
namespace TIV.C12

/-! ### the read loop -/

theorem readLoop_time (more : Bytes → Bool) (T : Nat) :
    ∀ (s : Stream) (dur : Nat) (inp : Bytes), (readLoop more T dur inp s).2.1 ≤ max dur T := by
  intro s
  induction s with
  | nil => intro dur inp; simp only [readLoop]; split <;> simp <;> omega
  | cons x rest ih =>
    intro dur inp
    obtain ⟨g, b⟩ := x
    simp only [readLoop]
    split
    · rename_i h
      simp at h
      split
      · rename_i hg
        have := ih (dur + g) (inp ++ [b])
        omega
      · simp; omega
    · simp; omega

theorem readLoop_eq_cutS (more : Bytes → Bool) (T : Nat) :
    ∀ (s : Stream) (dur : Nat) (inp : Bytes), dur + span s < T →
      (readLoop more T dur inp s).1 = (cutS more inp s).1 ∧
      (readLoop more T dur inp s).2.2 = (cutS more inp s).2 := by
  intro s
  induction s with
  | nil => intro dur inp _; simp only [readLoop, cutS]; split <;> simp
  | cons x rest ih =>
    intro dur inp h
    obtain ⟨g, b⟩ := x
    simp only [span, List.map_cons, List.sum_cons] at h
    have hd : dur < T := by omega
    simp only [readLoop, cutS]
    by_cases hm : more inp = true
    · have hg : g ≤ T - dur := by omega
      simp only [hd, hm, decide_true, Bool.and_self, if_true, hg]
      exact ih (dur + g) (inp ++ [b]) (by simp only [span]; omega)
    · simp [hm]

theorem cutS_bytes (more : Bytes → Bool) :
    ∀ (s : Stream) (inp : Bytes),
      (cutS more inp s).1 = (cut more inp (sbytes s)).1 ∧
      sbytes (cutS more inp s).2 = (cut more inp (sbytes s)).2 := by
  intro s
  induction s with
  | nil => intro inp; simp [cutS, cut, sbytes]
  | cons x rest ih =>
    intro inp
    obtain ⟨g, b⟩ := x
    simp only [cutS, sbytes, List.map_cons, cut]
    by_cases hm : more inp = true
    · simp only [hm, if_true]; exact ih (inp ++ [b])
    · simp [hm]

/-- `more` holds on every proper prefix of `bs` appended to `inp` -/
def AllMore (more : Bytes → Bool) (inp bs : Bytes) : Prop :=
  ∀ k, k < bs.length → more (inp ++ bs.take k) = true

theorem cutS_of_allMore (more : Bytes → Bool) :
    ∀ (s1 s2 : Stream) (inp : Bytes), AllMore more inp (sbytes s1) →
      more (inp ++ sbytes s1) = false →
      cutS more inp (s1 ++ s2) = (inp ++ sbytes s1, s2) := by
  intro s1
  induction s1 with
  | nil =>
    intro s2 inp _ hf
    simp [sbytes] at hf
    cases s2 with
    | nil => simp [cutS, sbytes]
    | cons y r => obtain ⟨g, b⟩ := y; simp [cutS, sbytes, hf]
  | cons x rest ih =>
    intro s2 inp ha hf
    obtain ⟨g, b⟩ := x
    have h0 : more inp = true := by
      have := ha 0 (by simp [sbytes])
      simpa using this
    simp only [List.cons_append, cutS, h0, if_true]
    have := ih s2 (inp ++ [b]) (by
      intro k hk
      have := ha (k + 1) (by simp [sbytes] at hk ⊢; omega)
      simpa [sbytes, List.append_assoc] using this) (by simpa [sbytes, List.append_assoc] using hf)
    rw [this]; simp [sbytes, List.append_assoc]

theorem cutS_allMore_all (more : Bytes → Bool) :
    ∀ (s : Stream) (inp : Bytes), AllMore more inp (sbytes s) →
      cutS more inp s = (inp ++ sbytes s, []) := by
  intro s
  induction s with
  | nil => intro inp _; simp [cutS, sbytes]
  | cons x rest ih =>
    intro inp ha
    obtain ⟨g, b⟩ := x
    have h0 : more inp = true := by
      have := ha 0 (by simp [sbytes])
      simpa using this
    simp only [cutS, h0, if_true]
    rw [ih (inp ++ [b]) (by
      intro k hk
      have := ha (k + 1) (by simp [sbytes] at hk ⊢; omega)
      simpa [sbytes, List.append_assoc] using this)]
    simp [sbytes, List.append_assoc]

theorem readAvail_zero : ∀ (s : Stream), (∀ x ∈ s, x.1 = 0) → readAvail s = (sbytes s, []) := by
  intro s
  induction s with
  | nil => intro _; simp [readAvail, sbytes]
  | cons x rest ih =>
    intro h
    obtain ⟨g, b⟩ := x
    have hg : g = 0 := h (g, b) (by simp)
    subst hg
    have := ih (fun y hy => h y (by simp [hy]))
    simp [readAvail, this, sbytes]


/-! ### `endswith`, CSI -/

theorem endsWith_iff (s suf : Bytes) : endsWith s suf = true ↔ suf <:+ s := by
  simp [endsWith, List.isPrefixOf_iff_prefix, List.reverse_prefix]

theorem moreCSI_append_csi (R : Bytes) : moreCSI (R ++ csi) = false := by
  simp [moreCSI, endsWith_iff, csi]

theorem moreC_append_c (R : Bytes) : moreC (R ++ [99]) = false := by
  simp [moreC, endsWith_iff]

theorem hasCSI_mid : ∀ (q r : Bytes), hasCSI (q ++ 27 :: 91 :: r) = true := by
  intro q
  induction q with
  | nil => intro r; simp [hasCSI]
  | cons c q ih => intro r; simp [hasCSI, ih]

theorem moreCSI_of_noCSI (R : Bytes) (h : hasCSI R = false) (k : Nat) : moreCSI (R.take k) = true := by
  simp only [moreCSI, Bool.not_eq_true', ← Bool.not_eq_true, endsWith_iff, csi]
  intro ⟨q, hq⟩
  have : R = q ++ 27 :: 91 :: R.drop k := by
    have := List.take_append_drop k R
    rw [← hq] at this
    simpa using this.symm
  rw [this, hasCSI_mid] at h
  exact absurd h (by simp)

theorem allMore_csi (R : Bytes) (h : hasCSI R = false) : AllMore moreCSI [] (R ++ csi) := by
  intro k hk
  simp only [List.nil_append]
  by_cases hk1 : k ≤ R.length
  · rw [List.take_append_of_le_length hk1]; exact moreCSI_of_noCSI R h k
  · have hk2 : k = R.length + 1 := by simp [csi] at hk; omega
    subst hk2
    have ht : (R ++ csi).take (R.length + 1) = R ++ [27] := by
      simp [csi, List.take_append, List.take_of_length_le]
    rw [ht]
    simp only [moreCSI, Bool.not_eq_true', ← Bool.not_eq_true, endsWith_iff, csi]
    intro ⟨q, hq⟩
    have := congrArg List.getLast? hq
    simp at this

theorem allMore_noCSI (R : Bytes) (h : hasCSI R = false) : AllMore moreCSI [] R := by
  intro k _
  simp only [List.nil_append]
  exact moreCSI_of_noCSI R h k

theorem hasCSI_of_no91 : ∀ (l : Bytes), 91 ∉ l → hasCSI l = false := by
  intro l
  induction l with
  | nil => intro _; simp [hasCSI]
  | cons c r ih =>
    intro h
    have h2 : 91 ∉ r := fun hm => h (List.mem_cons_of_mem c hm)
    simp only [hasCSI, ih h2, Bool.or_false, Bool.and_eq_false_imp]
    intro _
    cases r with
    | nil => simp
    | cons d r' =>
      simp
      intro hd; apply h2; simp [hd]

/-- no `c` byte before the end -/
theorem allMore_c (R : Bytes) (h : 99 ∉ R) : AllMore moreC [] (R ++ [99]) := by
  intro k hk
  simp only [List.nil_append]
  have hk1 : k ≤ R.length := by simp at hk; omega
  rw [List.take_append_of_le_length hk1]
  simp only [moreC, Bool.not_eq_true', ← Bool.not_eq_true, endsWith_iff]
  intro ⟨q, hq⟩
  apply h
  have : 99 ∈ R.take k := by rw [← hq]; simp
  exact List.mem_of_mem_take this

theorem allMore_noC (R : Bytes) (h : 99 ∉ R) : AllMore moreC [] R := by
  intro k _
  simp only [List.nil_append, moreC, Bool.not_eq_true', ← Bool.not_eq_true, endsWith_iff]
  intro ⟨q, hq⟩
  apply h
  have : 99 ∈ R.take k := by rw [← hq]; simp
  exact List.mem_of_mem_take this


/-! ### `query_terminal` and the two-phase read on a quiet tty -/

theorem merge_nil_left (b : Stream) : merge [] b = b := by
  simp [merge, mergeAux]

theorem flush_stale (w : Stream) (h : ∀ x ∈ w, x.1 = 0) : flush w = [] := by
  simp [flush, readAvail_zero w h]

/-- what `query_terminal` returns on a tty that holds only stale input -/
theorem queryTerminal_eq (more : Bytes → Bool) (T : Nat) (w arr : Stream) (h : ∀ x ∈ w, x.1 = 0) :
    queryTerminal true more T w arr =
      (some (readLoop more T 0 [] arr).1, (readLoop more T 0 [] arr).2.1, (readLoop more T 0 [] arr).2.2) := by
  simp [queryTerminal, flush_stale w h, merge_nil_left]

theorem queryTerminal_time (en : Bool) (more : Bytes → Bool) (T : Nat) (w arr : Stream) :
    (queryTerminal en more T w arr).2.1 ≤ T := by
  unfold queryTerminal
  cases en with
  | false => simp
  | true =>
    simp only [Bool.not_true, Bool.false_eq_true, if_false]
    have := readLoop_time more T (merge (flush w) arr) 0 []
    omega

/-- reads exactly up to the first point where `more` turns false; the rest stays, untouched -/
theorem readLoop_stops (more : Bytes → Bool) (T : Nat) (s1 s2 : Stream)
    (ha : AllMore more [] (sbytes s1)) (hf : more (sbytes s1) = false) (ht : span (s1 ++ s2) < T) :
    (readLoop more T 0 [] (s1 ++ s2)).1 = sbytes s1 ∧ (readLoop more T 0 [] (s1 ++ s2)).2.2 = s2 := by
  have h := readLoop_eq_cutS more T (s1 ++ s2) 0 [] (by omega)
  rw [cutS_of_allMore more s1 s2 [] ha (by simpa using hf)] at h
  simpa using h

/-- `more` never turns false: everything is read (and the loop runs into the timeout) -/
theorem readLoop_all (more : Bytes → Bool) (T : Nat) (s : Stream)
    (ha : AllMore more [] (sbytes s)) (ht : span s < T) :
    (readLoop more T 0 [] s).1 = sbytes s ∧ (readLoop more T 0 [] s).2.2 = [] := by
  have h := readLoop_eq_cutS more T s 0 [] (by omega)
  rw [cutS_allMore_all more s [] ha] at h
  simpa using h

/-- two-phase read, DA1 answered: the stream is `R ++ CSI` followed by bytes that arrive together
    with the CSI (the DA1 reply is written as a unit) -/
theorem queryThenDrain_csi (T : Nat) (w s1 s2 : Stream) (R : Bytes) (hw : ∀ x ∈ w, x.1 = 0)
    (hb : sbytes s1 = R ++ csi) (hR : hasCSI R = false) (h0 : ∀ x ∈ s2, x.1 = 0)
    (ht : span (s1 ++ s2) < T) :
    (queryThenDrain true T w (s1 ++ s2)).1 = some (R ++ csi) ∧
    (queryThenDrain true T w (s1 ++ s2)).2.1 ≤ T ∧
    (queryThenDrain true T w (s1 ++ s2)).2.2 = [] := by
  have hs := readLoop_stops moreCSI T s1 s2 (by rw [hb]; exact allMore_csi R hR)
    (by rw [hb]; exact moreCSI_append_csi R) ht
  have ht' := queryTerminal_time true moreCSI T w (s1 ++ s2)
  simp only [queryThenDrain, queryTerminal_eq moreCSI T w (s1 ++ s2) hw, if_true] at ht' ⊢
  refine ⟨by rw [hs.1, hb], ht', ?_⟩
  rw [hs.2, readAvail_zero s2 h0]

/-- two-phase read, DA1 not answered -/
theorem queryThenDrain_noCSI (T : Nat) (w s : Stream) (hw : ∀ x ∈ w, x.1 = 0)
    (hR : hasCSI (sbytes s) = false) (ht : span s < T) :
    (queryThenDrain true T w s).1 = some (sbytes s) ∧
    (queryThenDrain true T w s).2.1 ≤ T ∧
    (queryThenDrain true T w s).2.2 = [] := by
  have hs := readLoop_all moreCSI T s (allMore_noCSI _ hR) ht
  have ht' := queryTerminal_time true moreCSI T w s
  simp only [queryThenDrain, queryTerminal_eq moreCSI T w s hw, if_true] at ht' ⊢
  refine ⟨by rw [hs.1], ht', ?_⟩
  rw [hs.2]; simp [readAvail]

/-- single-phase read until `c` -/
theorem queryTerminal_c (T : Nat) (w s : Stream) (R : Bytes) (hw : ∀ x ∈ w, x.1 = 0)
    (hb : sbytes s = R ++ [99]) (hR : 99 ∉ R) (ht : span s < T) :
    (queryTerminal true moreC T w s).1 = some (R ++ [99]) ∧ (queryTerminal true moreC T w s).2.2 = [] := by
  have hs := readLoop_stops moreC T s [] (by rw [hb]; exact allMore_c R hR)
    (by rw [hb]; exact moreC_append_c R) (by simpa using ht)
  simp only [List.append_nil] at hs
  simp [queryTerminal_eq moreC T w s hw, hs.1, hs.2, hb]

theorem queryTerminal_noC (T : Nat) (w s : Stream) (hw : ∀ x ∈ w, x.1 = 0)
    (hR : 99 ∉ sbytes s) (ht : span s < T) :
    (queryTerminal true moreC T w s).1 = some (sbytes s) ∧ (queryTerminal true moreC T w s).2.2 = [] := by
  have hs := readLoop_all moreC T s (allMore_noC _ hR) ht
  simp [queryTerminal_eq moreC T w s hw, hs.1, hs.2]


/-! ### recognisers on well-formed replies -/

theorem takeWhile_stop (p : Nat → Bool) : ∀ (a : Bytes) (c : Nat) (r : Bytes),
    (∀ x ∈ a, p x = true) → p c = false →
    (a ++ c :: r).takeWhile p = a ∧ (a ++ c :: r).dropWhile p = c :: r := by
  intro a
  induction a with
  | nil => intro c r _ hc; simp [hc]
  | cons x a ih =>
    intro c r ha hc
    have hx : p x = true := ha x (by simp)
    have := ih c r (fun y hy => ha y (by simp [hy])) hc
    simp [hx, this]

theorem takeWhile_end (p : Nat → Bool) : ∀ (a : Bytes),
    (∀ x ∈ a, p x = true) → a.takeWhile p = a ∧ a.dropWhile p = [] := by
  intro a
  induction a with
  | nil => intro _; simp
  | cons x a ih =>
    intro ha
    have hx : p x = true := ha x (by simp)
    have := ih (fun y hy => ha y (by simp [hy]))
    simp [hx, this]

theorem stripPrefix_append : ∀ (p s : Bytes), stripPrefix p (p ++ s) = some s := by
  intro p
  induction p with
  | nil => intro s; cases s <;> simp [stripPrefix]
  | cons c p ih => intro s; simp [stripPrefix, ih]

/-- `ST` or `BEL` -/
def IsTerm (t : Bytes) : Prop := t = [27, 92] ∨ t = [7]

theorem stripTerm_append (t rest : Bytes) (h : IsTerm t) : stripTerm (t ++ rest) = some rest := by
  rcases h with rfl | rfl <;> simp [stripTerm]

theorem matchRgbSpec_eq (code body term rest : Bytes)
    (hc : ∀ x ∈ code, isDigit x = true) (hcn : code ≠ [])
    (hb : ∀ x ∈ body, isSpec x = true) (hbn : body ≠ []) (ht : IsTerm term) :
    matchRgbSpec (27 :: 93 :: (code ++ 59 :: 114 :: 103 :: 98 :: 58 :: (body ++ (term ++ rest))))
      = some (code, body, rest) := by
  have h1 := takeWhile_stop isDigit code 59 (114 :: 103 :: 98 :: 58 :: (body ++ (term ++ rest))) hc (by decide)
  obtain ⟨t0, tr, hterm, ht0⟩ : ∃ t0 tr, term = t0 :: tr ∧ isSpec t0 = false := by
    rcases ht with rfl | rfl
    · exact ⟨27, [92], rfl, by decide⟩
    · exact ⟨7, [], rfl, by decide⟩
  have h2 := takeWhile_stop isSpec body t0 (tr ++ rest) hb ht0
  have hce : code.isEmpty = false := by cases code <;> simp_all
  have hbe : body.isEmpty = false := by cases body <;> simp_all
  have h3 := stripTerm_append term rest ht
  simp only [matchRgbSpec, stripPrefix, beq_self_eq_true, if_true, h1.1, h1.2, hce, Bool.false_eq_true, if_false]
  rw [hterm] at h3 ⊢
  simp only [List.cons_append] at h2 h3 ⊢
  simp only [h2.1, h2.2, hbe, h3, Bool.false_eq_true, if_false]

/-! arithmetic of hex values -/
def hexFold (acc : Nat) (ds : Bytes) : Nat := ds.foldl (fun acc d => acc * 16 + hexDigitVal d) acc

theorem hexVal_eq_fold (ds : Bytes) : hexVal ds = hexFold 0 ds := rfl

theorem hexDigitVal_le (d : Nat) (h : isHex d = true) : hexDigitVal d ≤ 15 := by
  simp only [isHex, isDigit, Bool.or_eq_true, Bool.and_eq_true, decide_eq_true_eq] at h
  unfold hexDigitVal
  simp only [isDigit, Bool.and_eq_true, decide_eq_true_eq]
  by_cases h1 : 48 ≤ d ∧ d ≤ 57
  · rw [if_pos h1]; omega
  · rw [if_neg h1]
    by_cases h2 : 97 ≤ d ∧ d ≤ 102
    · rw [if_pos h2]; omega
    · rw [if_neg h2]; omega

theorem hexFold_bound : ∀ (ds : Bytes) (acc : Nat), (∀ d ∈ ds, isHex d = true) →
    hexFold acc ds + 1 ≤ (acc + 1) * 16 ^ ds.length := by
  intro ds
  induction ds with
  | nil => intro acc _; simp [hexFold]
  | cons d r ih =>
    intro acc h
    have hd := hexDigitVal_le d (h d (by simp))
    have := ih (acc * 16 + hexDigitVal d) (fun x hx => h x (by simp [hx]))
    simp only [hexFold, List.foldl_cons, List.length_cons] at this ⊢
    have h1 : acc * 16 + hexDigitVal d + 1 ≤ (acc + 1) * 16 := by omega
    calc _ ≤ (acc * 16 + hexDigitVal d + 1) * 16 ^ r.length := this
      _ ≤ ((acc + 1) * 16) * 16 ^ r.length := Nat.mul_le_mul_right _ h1
      _ = (acc + 1) * 16 ^ (r.length + 1) := by rw [Nat.mul_assoc, Nat.pow_succ, Nat.mul_comm 16]

theorem hexVal_lt (ds : Bytes) (h : ∀ d ∈ ds, isHex d = true) : hexVal ds + 1 ≤ 16 ^ ds.length := by
  have := hexFold_bound ds 0 h
  simpa [hexVal_eq_fold] using this

theorem hexFold_max : ∀ (ds : Bytes) (acc : Nat), (∀ d ∈ ds, hexDigitVal d = 15) →
    hexFold acc ds + 1 = (acc + 1) * 16 ^ ds.length := by
  intro ds
  induction ds with
  | nil => intro acc _; simp [hexFold]
  | cons d r ih =>
    intro acc h
    have hd := h d (by simp)
    have := ih (acc * 16 + hexDigitVal d) (fun x hx => h x (by simp [hx]))
    simp only [hexFold, List.foldl_cons, List.length_cons] at this ⊢
    rw [this, hd, Nat.pow_succ, Nat.mul_comm (16 ^ r.length) 16, ← Nat.mul_assoc]
    congr 1; omega

theorem hexFold_zero : ∀ (ds : Bytes) (acc : Nat), (∀ d ∈ ds, hexDigitVal d = 0) →
    hexFold acc ds = acc * 16 ^ ds.length := by
  intro ds
  induction ds with
  | nil => intro acc _; simp [hexFold]
  | cons d r ih =>
    intro acc h
    have hd := h d (by simp)
    have := ih (acc * 16 + hexDigitVal d) (fun x hx => h x (by simp [hx]))
    simp only [hexFold, List.foldl_cons, List.length_cons] at this ⊢
    rw [this, hd, Nat.pow_succ, Nat.mul_comm (16 ^ r.length) 16, ← Nat.mul_assoc]
    simp

theorem pow16_pos (n : Nat) : 0 < 16 ^ n := Nat.pow_pos (by decide)

theorem pow16_gt_one (n : Nat) (h : 0 < n) : 1 < 16 ^ n := by
  cases n with
  | zero => omega
  | succ m =>
    have := pow16_pos m
    rw [Nat.pow_succ]; omega

theorem scaleOf_le (v n : Nat) (h : v + 1 ≤ 16 ^ n) : scaleOf v n ≤ 255 := by
  unfold scaleOf
  apply Nat.div_le_of_le_mul
  have : v ≤ 16 ^ n - 1 := by omega
  calc v * 255 ≤ (16 ^ n - 1) * 255 := Nat.mul_le_mul_right _ this

theorem scaleOf_zero (n : Nat) : scaleOf 0 n = 0 := by simp [scaleOf]

theorem scaleOf_max (n : Nat) (h : 0 < n) : scaleOf (16 ^ n - 1) n = 255 := by
  unfold scaleOf
  have := pow16_gt_one n h
  exact Nat.mul_div_cancel_left 255 (by omega)

theorem scaleOf_mono (v v' n : Nat) (h : v ≤ v') : scaleOf v n ≤ scaleOf v' n := by
  unfold scaleOf
  exact Nat.div_le_div_right (Nat.mul_le_mul_right 255 h)

/-! splitOn -/
theorem splitOn_none (sep : Nat) : ∀ (a : Bytes), sep ∉ a → splitOn sep a = [a] := by
  intro a
  induction a with
  | nil => intro _; simp [splitOn]
  | cons c r ih =>
    intro h
    simp at h
    have hc : (c == sep) = false := by simp; exact fun e => h.1 e.symm
    simp [splitOn, hc, ih h.2]

theorem splitOn_stop (sep : Nat) : ∀ (a r : Bytes), sep ∉ a →
    splitOn sep (a ++ sep :: r) = a :: splitOn sep r := by
  intro a
  induction a with
  | nil => intro r _; simp [splitOn]
  | cons c a ih =>
    intro r h
    simp at h
    have hc : (c == sep) = false := by simp; exact fun e => h.1 e.symm
    simp [splitOn, hc, ih r h.2]

/-- a non-empty string of hex digits -/
def HexNE (c : Bytes) : Prop := c ≠ [] ∧ ∀ x ∈ c, isHex x = true

theorem hex_no_slash (c : Bytes) (h : ∀ x ∈ c, isHex x = true) : 47 ∉ c := by
  intro hm
  have := h 47 hm
  simp [isHex, isDigit] at this

theorem scaleComp_eq (c : Bytes) (h : HexNE c) : scaleComp c = some (scaleOf (hexVal c) c.length) := by
  have h1 : c.isEmpty = false := by cases c <;> simp_all [HexNE]
  have h2 : c.all isHex = true := by simpa using h.2
  simp [scaleComp, h1, h2, scaleOf]

theorem xParseColor_eq (r g b : Bytes) (hr : HexNE r) (hg : HexNE g) (hb : HexNE b) :
    xParseColor (r ++ 47 :: (g ++ 47 :: b)) =
      .ok (scaleOf (hexVal r) r.length, scaleOf (hexVal g) g.length, scaleOf (hexVal b) b.length) := by
  unfold xParseColor
  rw [splitOn_stop 47 r _ (hex_no_slash r hr.2), splitOn_stop 47 g _ (hex_no_slash g hg.2),
    splitOn_none 47 b (hex_no_slash b hb.2)]
  simp [scaleComp_eq, hr, hg, hb]



def CReply.Ok (c : CReply) : Prop := HexNE c.r ∧ HexNE c.g ∧ HexNE c.b ∧ IsTerm c.term

theorem hex_isSpec (c : Bytes) (h : ∀ x ∈ c, isHex x = true) : ∀ x ∈ c, isSpec x = true := by
  intro x hx; simp [isSpec, h x hx]

theorem findallRgb_reply (f : Nat) (code : Bytes) (c : CReply) (rest : Bytes) (hc : c.Ok)
    (hd : ∀ x ∈ code, isDigit x = true) (hcn : code ≠ [])
    (hf : (c.bytes code ++ rest).length ≤ f) :
    findallRgb f (c.bytes code ++ rest) =
      (code, c.r ++ 47 :: (c.g ++ 47 :: c.b)) :: findallRgb (f - 1) rest := by
  obtain ⟨hr, hg, hb, ht⟩ := hc
  have hshape : c.bytes code ++ rest =
      27 :: 93 :: (code ++ 59 :: 114 :: 103 :: 98 :: 58 :: ((c.r ++ 47 :: (c.g ++ 47 :: c.b)) ++ (c.term ++ rest))) := by
    simp [CReply.bytes, colorReply, List.append_assoc]
  rw [hshape] at hf ⊢
  cases f with
  | zero => simp at hf
  | succ f' =>
    have hm := matchRgbSpec_eq code (c.r ++ 47 :: (c.g ++ 47 :: c.b)) c.term rest hd hcn
      (by
        intro x hx
        simp only [List.mem_append, List.mem_cons] at hx
        rcases hx with h | h | h | h | h
        · exact hex_isSpec _ hr.2 x h
        · subst h; decide
        · exact hex_isSpec _ hg.2 x h
        · subst h; decide
        · exact hex_isSpec _ hb.2 x h)
      (by simp) ht
    simp only [findallRgb, hm, Nat.add_sub_cancel]

theorem findallRgb_csi (f : Nat) : findallRgb f csi = [] := by
  have h1 : matchRgbSpec [27, 91] = none := by decide
  have h2 : matchRgbSpec [91] = none := by decide
  cases f with
  | zero => simp [findallRgb]
  | succ f =>
    cases f with
    | zero => simp [findallRgb, csi, h1]
    | succ f => cases f <;> simp [findallRgb, csi, h1, h2]

theorem findallRgb_nil (f : Nat) : findallRgb f [] = [] := by cases f <;> simp [findallRgb]

theorem parseColors_replies (fg bg : Option CReply) (tail : Bytes)
    (hfg : ∀ c, fg = some c → c.Ok) (hbg : ∀ c, bg = some c → c.Ok) (ht : tail = [] ∨ tail = csi) :
    parseColors (some (optReply [49, 48] fg ++ (optReply [49, 49] bg ++ tail))) =
      .ok (fg.map CReply.val, bg.map CReply.val) := by
  have htl : ∀ f, findallRgb f tail = [] := by
    intro f; rcases ht with rfl | rfl
    · exact findallRgb_nil f
    · exact findallRgb_csi f
  have d10 : ∀ x ∈ [49, 48], isDigit x = true := by decide
  have d11 : ∀ x ∈ [49, 49], isDigit x = true := by decide
  cases fg with
  | none =>
    cases bg with
    | none =>
      simp only [optReply, List.nil_append, parseColors]
      by_cases he : tail.isEmpty = true
      · simp [he]
      · simp [he, htl, colorsLoop]
    | some b =>
      have hb := hbg b rfl
      have hne : (b.bytes [49, 49] ++ tail).isEmpty = false := by simp [CReply.bytes, colorReply]
      simp only [optReply, List.nil_append, parseColors, hne, Bool.false_eq_true, if_false]
      rw [findallRgb_reply _ [49, 49] b tail hb d11 (by simp) (Nat.le_refl _), htl]
      simp [colorsLoop, xParseColor_eq _ _ _ hb.1 hb.2.1 hb.2.2.1, CReply.val]
  | some a =>
    have ha := hfg a rfl
    cases bg with
    | none =>
      have hne : (a.bytes [49, 48] ++ ([] ++ tail)).isEmpty = false := by simp [CReply.bytes, colorReply]
      simp only [optReply, parseColors, hne, Bool.false_eq_true, if_false]
      rw [findallRgb_reply _ [49, 48] a _ ha d10 (by simp) (Nat.le_refl _)]
      simp [htl, colorsLoop, xParseColor_eq _ _ _ ha.1 ha.2.1 ha.2.2.1, CReply.val]
    | some b =>
      have hb := hbg b rfl
      have hne : (a.bytes [49, 48] ++ (b.bytes [49, 49] ++ tail)).isEmpty = false := by
        simp [CReply.bytes, colorReply]
      simp only [optReply, parseColors, hne, Bool.false_eq_true, if_false]
      rw [findallRgb_reply _ [49, 48] a _ ha d10 (by simp) (Nat.le_refl _)]
      rw [findallRgb_reply _ [49, 49] b tail hb d11 (by simp)
        (by simp [CReply.bytes, colorReply]; omega), htl]
      simp [colorsLoop, xParseColor_eq _ _ _ ha.1 ha.2.1 ha.2.2.1,
        xParseColor_eq _ _ _ hb.1 hb.2.1 hb.2.2.1, CReply.val]




theorem cutLastBel_snoc : ∀ (a : Bytes), cutLastBel (a ++ [7]) = some a := by
  intro a
  induction a with
  | nil => simp [cutLastBel]
  | cons c a ih => simp [cutLastBel, ih]

def WordNE (n : Bytes) : Prop := n ≠ [] ∧ ∀ x ∈ n, isWord x = true
def VerNE (v : Bytes) : Prop := v ≠ [] ∧ ∀ x ∈ v, notCloseEsc x = true

theorem matchXtversion_reply (name ver : Bytes) (paren : Bool) (term rest : Bytes)
    (hn : WordNE name) (hv : VerNE ver) (ht : IsTerm term) (hr : rest = [] ∨ rest = csi) :
    matchXtversion (xtReply name ver paren term ++ rest) = some (name, ver) := by
  have hne : name.isEmpty = false := by cases name <;> simp_all [WordNE]
  obtain ⟨v0, vt, hver⟩ : ∃ v0 vt, ver = v0 :: vt := by
    cases ver with
    | nil => exact absurd rfl hv.1
    | cons a b => exact ⟨a, b, rfl⟩
  cases paren with
  | true =>
    have hshape : xtReply name ver true term ++ rest =
        [27, 80, 62, 124] ++ (name ++ 40 :: (ver ++ 41 :: (term ++ rest))) := by
      simp [xtReply, List.append_assoc]
    have h1 := takeWhile_stop isWord name 40 (ver ++ 41 :: (term ++ rest)) hn.2 (by decide)
    have h2 := takeWhile_stop notCloseEsc ver 41 (term ++ rest) hv.2 (by decide)
    have h3 := stripTerm_append term rest ht
    rw [hshape]
    simp only [matchXtversion, stripPrefix_append, h1.1, h1.2, hne, Bool.false_eq_true, if_false,
      h2.1, h2.2]
    rw [hver] at h2 ⊢
    simp [h3]
  | false =>
    rcases ht with rfl | rfl
    · -- ST
      have hshape : xtReply name ver false [27, 92] ++ rest =
          [27, 80, 62, 124] ++ (name ++ 32 :: (ver ++ 27 :: (92 :: rest))) := by
        simp [xtReply, List.append_assoc]
      have h1 := takeWhile_stop isWord name 32 (ver ++ 27 :: (92 :: rest)) hn.2 (by decide)
      have h2 := takeWhile_stop notCloseEsc ver 27 (92 :: rest) hv.2 (by decide)
      rw [hshape]
      simp only [matchXtversion, stripPrefix_append, h1.1, h1.2, hne, Bool.false_eq_true, if_false,
        h2.1, h2.2]
      rw [hver]
      simp [stripTerm]
    · -- BEL: the greedy class swallows the BEL and backs off
      have hv7 : ∀ x ∈ ver ++ [7], notCloseEsc x = true := by
        intro x hx
        simp only [List.mem_append, List.mem_singleton] at hx
        rcases hx with h | h
        · exact hv.2 x h
        · subst h; decide
      rcases hr with rfl | rfl
      · have hshape : xtReply name ver false [7] ++ [] =
            [27, 80, 62, 124] ++ (name ++ 32 :: (ver ++ [7])) := by
          simp [xtReply, List.append_assoc]
        have h1 := takeWhile_stop isWord name 32 (ver ++ [7]) hn.2 (by decide)
        have h2 := takeWhile_end notCloseEsc (ver ++ [7]) hv7
        rw [hshape]
        simp only [matchXtversion, stripPrefix_append, h1.1, h1.2, hne, Bool.false_eq_true, if_false,
          h2.1, h2.2]
        rw [hver]
        simp [stripTerm, cutLastBel_snoc]
      · have hshape : xtReply name ver false [7] ++ csi =
            [27, 80, 62, 124] ++ (name ++ 32 :: ((ver ++ [7]) ++ 27 :: [91])) := by
          simp [xtReply, List.append_assoc, csi]
        have h1 := takeWhile_stop isWord name 32 ((ver ++ [7]) ++ 27 :: [91]) hn.2 (by decide)
        have h2 := takeWhile_stop notCloseEsc (ver ++ [7]) 27 [91] hv7 (by decide)
        rw [hshape]
        simp only [matchXtversion, stripPrefix_append, h1.1, h1.2, hne, Bool.false_eq_true, if_false,
          h2.1, h2.2]
        rw [hver]
        simp [stripTerm, cutLastBel_snoc]

theorem parseNameVersion_reply (name ver : Bytes) (paren : Bool) (term rest : Bytes)
    (envName envVer : Option Bytes)
    (hn : WordNE name) (hv : VerNE ver) (ht : IsTerm term) (hr : rest = [] ∨ rest = csi) :
    parseNameVersion (some (xtReply name ver paren term ++ rest)) envName envVer =
      (some (lower name), some ver) := by
  have hne : (xtReply name ver paren term ++ rest).isEmpty = false := by simp [xtReply]
  simp [parseNameVersion, hne, matchXtversion_reply name ver paren term rest hn hv ht hr]

theorem parseNameVersion_none (rest : Bytes) (envName envVer : Option Bytes) (hr : rest = [] ∨ rest = csi) :
    parseNameVersion (some rest) envName envVer = (envName.map lower, envVer) := by
  rcases hr with rfl | rfl
  · simp [parseNameVersion]
  · have : matchXtversion [27, 91] = none := by decide
    simp [parseNameVersion, this, csi]




/-! ### replies contain no `ESC [` / no `c` -/

theorem hasCSI_append_no91 : ∀ (a b : Bytes), hasCSI a = false → 91 ∉ b → hasCSI (a ++ b) = false := by
  intro a
  induction a with
  | nil => intro b _ hb; simpa using hasCSI_of_no91 b hb
  | cons c r ih =>
    intro b ha hb
    simp only [hasCSI, Bool.or_eq_false_iff] at ha
    simp only [List.cons_append, hasCSI, Bool.or_eq_false_iff]
    refine ⟨?_, ih b ha.2 hb⟩
    cases r with
    | nil =>
      cases b with
      | nil => simp
      | cons d b' =>
        have : d ≠ 91 := fun e => hb (by simp [e])
        simp [this]
    | cons d r' => simpa using ha.1

theorem hasCSI_append_no27 : ∀ (a b : Bytes), 27 ∉ a → hasCSI (a ++ b) = hasCSI b := by
  intro a
  induction a with
  | nil => intro b _; rfl
  | cons c r ih =>
    intro b h
    simp at h
    have hc : (c == 27) = false := by simp; exact fun e => h.1 e.symm
    simp [hasCSI, hc, ih b h.2]

theorem hex_ne (v : Nat) (hv : isHex v = false) (c : Bytes) (h : ∀ x ∈ c, isHex x = true) : v ∉ c := by
  intro hm; have := h v hm; simp [hv] at this

theorem digit_ne (v : Nat) (hv : isDigit v = false) (c : Bytes) (h : ∀ x ∈ c, isDigit x = true) : v ∉ c := by
  intro hm; have := h v hm; simp [hv] at this

theorem term_no (v : Nat) (h27 : v ≠ 27) (h92 : v ≠ 92) (h7 : v ≠ 7) (t : Bytes) (ht : IsTerm t) : v ∉ t := by
  rcases ht with rfl | rfl <;> simp [h27, h92, h7]

theorem colorReply_no (v : Nat) (code : Bytes) (c : CReply) (hc : c.Ok) (hd : ∀ x ∈ code, isDigit x = true)
    (h1 : isHex v = false) (h2 : v ≠ 27) (h3 : v ≠ 93) (h4 : v ≠ 59) (h5 : v ≠ 114) (h6 : v ≠ 103)
    (h7 : v ≠ 98) (h8 : v ≠ 58) (h9 : v ≠ 47) (h10 : v ≠ 92) (h11 : v ≠ 7) : v ∉ c.bytes code := by
  have hdg : isDigit v = false := by
    cases h : isDigit v
    · rfl
    · simp [isHex, h] at h1
  simp only [CReply.bytes, colorReply, List.mem_append, List.mem_cons, List.not_mem_nil, or_false, not_or]
  exact ⟨⟨⟨⟨⟨⟨⟨⟨⟨h2, h3⟩, digit_ne v hdg code hd⟩, h4, h5, h6, h7, h8⟩, hex_ne v h1 _ hc.1.2⟩, h9⟩,
    hex_ne v h1 _ hc.2.1.2⟩, h9⟩, hex_ne v h1 _ hc.2.2.1.2⟩, term_no v h2 h10 h11 _ hc.2.2.2⟩

theorem colorReplies_noCSI (fg bg : Option CReply)
    (hfg : ∀ c, fg = some c → c.Ok) (hbg : ∀ c, bg = some c → c.Ok) :
    hasCSI (optReply [49, 48] fg ++ optReply [49, 49] bg) = false := by
  apply hasCSI_of_no91
  simp only [List.mem_append, not_or]
  constructor
  · cases fg with
    | none => simp [optReply]
    | some a =>
      exact colorReply_no 91 _ a (hfg a rfl) (by decide) (by decide) (by decide) (by decide) (by decide)
        (by decide) (by decide) (by decide) (by decide) (by decide) (by decide) (by decide)
  · cases bg with
    | none => simp [optReply]
    | some a =>
      exact colorReply_no 91 _ a (hbg a rfl) (by decide) (by decide) (by decide) (by decide) (by decide)
        (by decide) (by decide) (by decide) (by decide) (by decide) (by decide) (by decide)

theorem xtReply_noCSI (name ver : Bytes) (paren : Bool) (term : Bytes)
    (hn : WordNE name) (hv : VerNE ver) (ht : IsTerm term) :
    hasCSI (xtReply name ver paren term) = false := by
  have hn27 : 27 ∉ name := fun hm => by have := hn.2 27 hm; simp [isWord, isDigit] at this
  have hv27 : 27 ∉ ver := fun hm => by have := hv.2 27 hm; simp [notCloseEsc] at this
  cases paren with
  | true =>
    have hshape : xtReply name ver true term = 27 :: ((80 :: 62 :: 124 :: (name ++ 40 :: ver)) ++ (41 :: term)) := by
      simp [xtReply, List.append_assoc]
    rw [hshape, hasCSI]
    rw [hasCSI_append_no27 _ _ (by simp [hn27, hv27])]
    rcases ht with rfl | rfl <;> simp [hasCSI]
  | false =>
    have hshape : xtReply name ver false term = 27 :: ((80 :: 62 :: 124 :: (name ++ 32 :: ver)) ++ term) := by
      simp [xtReply, List.append_assoc]
    rw [hshape, hasCSI]
    rw [hasCSI_append_no27 _ _ (by simp [hn27, hv27])]
    rcases ht with rfl | rfl <;> simp [hasCSI]

/-! ### XTWINOPS, kitty -/

def DigNE (a : Bytes) : Prop := a ≠ [] ∧ ∀ x ∈ a, isDigit x = true

theorem matchWinops_reply (n : Nat) (a b rest : Bytes) (ha : DigNE a) (hb : DigNE b) :
    matchWinops n (winopsReply n a b ++ rest) = some (decVal a, decVal b) := by
  have hae : a.isEmpty = false := by cases a <;> simp_all [DigNE]
  have hbe : b.isEmpty = false := by cases b <;> simp_all [DigNE]
  have hshape : winopsReply n a b ++ rest = [27, 91, n, 59] ++ (a ++ 59 :: (b ++ 116 :: rest)) := by
    simp [winopsReply, List.append_assoc]
  have h1 := takeWhile_stop isDigit a 59 (b ++ 116 :: rest) ha.2 (by decide)
  have h2 := takeWhile_stop isDigit b 116 rest hb.2 (by decide)
  rw [hshape]
  simp [matchWinops, stripPrefix_append, h1.1, h1.2, hae, stripPrefix, h2.1, h2.2, hbe]

theorem matchWinops_other (n m : Nat) (a b rest : Bytes) (h : n ≠ m) :
    matchWinops n (winopsReply m a b ++ rest) = none := by
  have : (n == m) = false := by simp [h]
  simp [matchWinops, winopsReply, stripPrefix, this]

theorem matchKitty_ok (rest : Bytes) :
    matchKittyResponse (kittyOkReply ++ rest) = some ([51, 49], [79, 75]) := by
  simp [matchKittyResponse, kittyOkReply, stripPrefix, List.takeWhile, List.dropWhile, isDigit, lazyMsg,
    noNewline]

theorem winopsReply_noC (n : Nat) (a b : Bytes) (hn : n ≠ 99) (ha : DigNE a) (hb : DigNE b) :
    99 ∉ winopsReply n a b := by
  simp only [winopsReply, List.mem_append, List.mem_cons, List.not_mem_nil, or_false, not_or]
  exact ⟨⟨⟨⟨⟨by decide, by decide, fun e => hn e.symm, by decide⟩, digit_ne 99 (by decide) a ha.2⟩, by decide⟩,
    digit_ne 99 (by decide) b hb.2⟩, by decide⟩



/-! ### decimal renderings, `int()`, version tuples -/

theorem isDigit_of_char (c : Char) (h : c.isDigit = true) : isDigit c.toNat = true := by
  simp only [Char.isDigit, Bool.and_eq_true, decide_eq_true_eq] at h
  simp only [isDigit, Bool.and_eq_true, decide_eq_true_eq, Char.toNat]
  have h1 := UInt32.le_iff_toNat_le.mp h.1
  have h2 := UInt32.le_iff_toNat_le.mp h.2
  simp at h1 h2
  have h3 : c.toNat = c.val.toNat := rfl
  omega

theorem decBytes_DigNE (n : Nat) : DigNE (decBytes n) := by
  constructor
  · simp [decBytes, Nat.toDigits_ne_nil]
  · intro x hx
    simp only [decBytes, List.mem_map] at hx
    obtain ⟨c, hc, rfl⟩ := hx
    exact isDigit_of_char c (Nat.isDigit_of_mem_toDigits (by decide) (by decide) hc)

theorem decFold_chars (l : List Char) (acc : Nat) :
    (l.map Char.toNat).foldl (fun acc d => acc * 10 + (d - 48)) acc = Nat.ofDigitChars 10 l acc := by
  induction l generalizing acc with
  | nil => simp [Nat.ofDigitChars]
  | cons c r ih =>
    simp only [List.map_cons, List.foldl_cons, Nat.ofDigitChars_cons, ih]
    congr 1
    simp [Nat.mul_comm]

theorem decVal_decBytes (n : Nat) : decVal (decBytes n) = n := by
  simp only [decVal, decBytes, decFold_chars]
  exact Nat.ofDigitChars_ten_toDigits


theorem digitsUnderscore_digits : ∀ (ds : Bytes) (a : Nat), (∀ x ∈ ds, isDigit x = true) →
    digitsUnderscore ds (some a) false = some (ds.foldl (fun acc d => acc * 10 + (d - 48)) a) := by
  intro ds
  induction ds with
  | nil => intro a _; simp [digitsUnderscore]
  | cons d r ih =>
    intro a h
    have hd : isDigit d = true := h d (by simp)
    simp only [digitsUnderscore, hd, if_true, Option.getD_some, List.foldl_cons]
    exact ih _ (fun x hx => h x (by simp [hx]))

theorem dropWhile_head_false (p : Nat → Bool) (l : Bytes) (h : ∀ x ∈ l, p x = false) :
    l.dropWhile p = l := by
  cases l with
  | nil => rfl
  | cons c r => simp [List.dropWhile, h c (by simp)]

theorem digit_not_space (x : Nat) (h : isDigit x = true) : isSpace x = false := by
  simp only [isDigit, Bool.and_eq_true, decide_eq_true_eq] at h
  simp only [isSpace, Bool.or_eq_false_iff, Bool.and_eq_false_iff, decide_eq_false_iff_not, beq_eq_false_iff_ne]
  omega

theorem pyInt_digits (ds : Bytes) (h : DigNE ds) : pyInt ds = some (decVal ds : Int) := by
  have hs : ∀ x ∈ ds, isSpace x = false := fun x hx => digit_not_space x (h.2 x hx)
  have hstrip : stripSpaces ds = ds := by
    unfold stripSpaces
    rw [dropWhile_head_false isSpace ds hs,
      dropWhile_head_false isSpace ds.reverse (fun x hx => hs x (by simpa using hx))]
    simp
  obtain ⟨d, r, rfl⟩ : ∃ d r, ds = d :: r := by
    cases ds with
    | nil => exact absurd rfl h.1
    | cons d r => exact ⟨d, r, rfl⟩
  have hd : isDigit d = true := h.2 d (by simp)
  have hd' : 48 ≤ d ∧ d ≤ 57 := by simpa [isDigit] using hd
  have h45 : d ≠ 45 := by omega
  have h43 : d ≠ 43 := by omega
  unfold pyInt
  rw [hstrip]
  have hr := digitsUnderscore_digits r (0 * 10 + (d - 48)) (fun x hx => h.2 x (by simp [hx]))
  split
  · rename_i heq; simp at heq; exact absurd heq.1 h45
  · rename_i heq; simp at heq; exact absurd heq.1 h43
  · simp only [digitsUnderscore, hd, if_true, Option.getD_none]
    rw [hr]
    simp [decVal]

theorem digits_no_dot (ds : Bytes) (h : ∀ x ∈ ds, isDigit x = true) : 46 ∉ ds :=
  digit_ne 46 (by decide) ds h

/-- the version tuple of the decimal rendering `a.b.c` is `(a, b, c)` -/
theorem versionTuple_render (a b c : Nat) :
    versionTuple (renderVersion a b c) = some [(a : Int), (b : Int), (c : Int)] := by
  have ha := decBytes_DigNE a
  have hb := decBytes_DigNE b
  have hc := decBytes_DigNE c
  unfold versionTuple renderVersion
  rw [splitOn_stop 46 _ _ (digits_no_dot _ ha.2), splitOn_stop 46 _ _ (digits_no_dot _ hb.2),
    splitOn_none 46 _ (digits_no_dot _ hc.2)]
  simp [allSome, pyInt_digits _ ha, pyInt_digits _ hb, pyInt_digits _ hc, decVal_decBytes]

theorem renderVersion_ne_nil (a b c : Nat) : renderVersion a b c ≠ [] := by
  simp [renderVersion]

theorem version_ge_konsole (a b c : Nat) :
    lexGe [(a : Int), (b : Int), (c : Int)] [22, 4, 0] = true ↔ (22 < a ∨ (a = 22 ∧ 4 ≤ b)) := by
  simp only [lexGe]
  by_cases ha : a = 22
  · subst ha
    by_cases hb : b = 4
    · subst hb; simp; omega
    · have : ((b : Int) == 4) = false := by simp; omega
      simp [this]; omega
  · have : ((a : Int) == 22) = false := by simp; omega
    simp [this]; omega



/-! ### the literal loop -/

theorem readIter_eq (more : Bytes → Bool) (T : Nat) :
    ∀ (s : Stream) (f dur : Nat) (inp : Bytes), s.length + 2 ≤ f →
      (readIter more T f dur inp s).1 = readLoop more T dur inp s ∧
      (readIter more T f dur inp s).2 ≤ s.length + 1 := by
  intro s
  induction s with
  | nil =>
    intro f dur inp hf
    obtain ⟨f1, rfl⟩ : ∃ f1, f = f1 + 1 := ⟨f - 1, by simp at hf; omega⟩
    obtain ⟨f2, rfl⟩ : ∃ f2, f1 = f2 + 1 := ⟨f1 - 1, by simp at hf; omega⟩
    simp only [readIter, readLoop]
    by_cases hc : (decide (dur < T) && more inp) = true
    · simp [hc, readIter]
    · simp [hc]
  | cons x rest ih =>
    intro f dur inp hf
    obtain ⟨g, b⟩ := x
    obtain ⟨f1, rfl⟩ : ∃ f1, f = f1 + 1 := ⟨f - 1, by simp at hf; omega⟩
    obtain ⟨f2, rfl⟩ : ∃ f2, f1 = f2 + 1 := ⟨f1 - 1, by simp at hf; omega⟩
    simp only [List.length_cons] at hf ⊢
    rw [readIter, readLoop]
    by_cases hc : (decide (dur < T) && more inp) = true
    · simp only [hc, if_true]
      by_cases hg : g ≤ T - dur
      · simp only [hg, if_true]
        have := ih (f2 + 1) (dur + g) (inp ++ [b]) (by omega)
        exact ⟨this.1, by omega⟩
      · simp only [hg, if_false]
        simp [readIter]
    · simp [hc]

end TIV.C12
