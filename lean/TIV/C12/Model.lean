/-!
# C12 model — terminal queries in virtual time

Mirrors `src/term_image/utils.py` (`read_tty`, `query_terminal`, `get_fg_bg_colors`,
`get_terminal_name_version`, `get_cell_size`), `_ctlseqs.py` (response regexes as recognisers,
`x_parse_color`), `image/kitty.py` / `image/iterm2.py` (`is_supported`) and
`image/__init__.py` (`auto_image_class`).

Conventions (DESIGN §4 "Time"): time is virtual and counted in integer ticks; reading costs no
time; a byte that "arrives after gap g" becomes readable g ticks after the byte before it (or
after the moment the call started, for the first one).  Bytes are `Nat`s below 128 (the replies
are `.decode()`d by the code; non-ASCII replies are outside the model's domain).
-/
namespace TIV.C12

abbrev Bytes := List Nat

/-- what is on its way to the tty input queue: `(gap, byte)` — the byte becomes readable `gap`
    ticks after its predecessor (gap 0 = readable together with it / already in the queue). -/
abbrev Stream := List (Nat × Nat)

/-- time-stamped write bursts `(gap, bytes)` of the terminal → the stream of single bytes.
    The carry keeps the gap of an empty burst. -/
def ofBursts : Nat → List (Nat × Bytes) → Stream
  | _, [] => []
  | c, (g, []) :: r => ofBursts (c + g) r
  | c, (g, b :: bs) :: r => (c + g, b) :: (bs.map fun x => (0, x)) ++ ofBursts 0 r

def sbytes (s : Stream) : Bytes := s.map Prod.snd
/-- arrival time of the last byte, relative to the start -/
def span (s : Stream) : Nat := (s.map Prod.fst).sum

/-! ## `read_tty` -/

/-- `read_tty(more, timeout)` with `timeout >= 0`, `min = 0`: the loop
    `while duration < timeout and more(input): if select(timeout - duration): input += read(1)`.
    State `(duration, input)`; returns `(input, duration at exit, what is still unread)`.
    `select` returns at once when a byte is queued (gap 0), wakes at the arrival of the next byte
    if that lies within the remaining wait, and otherwise uses up the remaining wait. -/
def readLoop (more : Bytes → Bool) (T : Nat) : Nat → Bytes → Stream → Bytes × Nat × Stream
  | dur, inp, [] => if dur < T && more inp then (inp, T, []) else (inp, dur, [])
  | dur, inp, (g, b) :: rest =>
    if dur < T && more inp then
      if g ≤ T - dur then readLoop more T (dur + g) (inp ++ [b]) rest
      else (inp, T, (g - (T - dur), b) :: rest)
    else (inp, dur, (g, b) :: rest)

/-- the same `while` loop, literally, one iteration per unit of fuel, counting the `select` calls:
    each iteration re-reads the clock (`duration = monotonic() - start`) whether or not a byte
    came — after a `select` that timed out the clock stands at the deadline. Returns the loop's
    result and the number of polls. (`readLoop` is this loop with the fuel discharged:
    `read_terminates`.) -/
def readIter (more : Bytes → Bool) (T : Nat) : Nat → Nat → Bytes → Stream → (Bytes × Nat × Stream) × Nat
  | 0, dur, inp, s => ((inp, dur, s), 0)
  | f + 1, dur, inp, s =>
    if dur < T && more inp then
      let st : Nat × Bytes × Stream := match s with
        | [] => (T, inp, [])
        | (g, b) :: r => if g ≤ T - dur then (dur + g, inp ++ [b], r) else (T, inp, (g - (T - dur), b) :: r)
      let r := readIter more T f st.1 st.2.1 st.2.2
      (r.1, r.2 + 1)
    else ((inp, dur, s), 0)

/-- `os.read(fd, n)` with `VMIN = n`: blocks until `n` bytes have arrived; `(bytes, ticks, rest)`,
    `none` = fewer than `n` bytes ever arrive (the call blocks for good — documented for `min`) -/
def takeBlocking : Nat → Stream → Option (Bytes × Nat × Stream)
  | 0, s => some ([], 0, s)
  | _ + 1, [] => none
  | n + 1, (g, b) :: r => (takeBlocking n r).map fun x => (b :: x.1, g + x.2.1, x.2.2)

/-- `read_tty(more, timeout, min, echo=…)` with `timeout ≥ 0`: if `min > 0` first the blocking
    read of `min` bytes, then the timed loop with what is left of the timeout.  `echo` only
    changes terminal attributes (C13), not what is read. -/
def readTty (more : Bytes → Bool) (T min : Nat) (_echo : Bool) (s : Stream) : Option (Bytes × Nat × Stream) :=
  if min == 0 then some (readLoop more T 0 [] s)
  else match takeBlocking min s with
    | none => none
    | some x => some (readLoop more T x.2.1 x.1 x.2.2)

/-- `read_tty()` (timeout `None`): `while select(0): input += read(100)` — everything that is
    readable now, without waiting. Returns `(input, unread)`. -/
def readAvail : Stream → Bytes × Stream
  | (0, b) :: rest => let r := readAvail rest; (b :: r.1, r.2)
  | s => ([], s)

/-- `tcsetattr(TCSAFLUSH)`: input received but not read is discarded -/
def flush (s : Stream) : Stream := (readAvail s).2

/-- the terminal schedules its reply `b` while `a` is still under way (both relative to now);
    on equal arrival times what was scheduled earlier comes first.  Fuel = total length + 1
    (each step emits one element), so the fuel-0 clause is never reached. -/
def mergeAux : Nat → Stream → Stream → Stream
  | 0, a, b => a ++ b
  | _ + 1, [], b => b
  | _ + 1, a, [] => a
  | n + 1, (g, x) :: a, (h, y) :: b =>
    if g ≤ h then (g, x) :: mergeAux n a ((h - g, y) :: b) else (h, y) :: mergeAux n ((g - h, x) :: a) b

def merge (a b : Stream) : Stream := mergeAux (a.length + b.length + 1) a b

/-! ## the `more` predicates of the callers -/

def endsWith (s suf : Bytes) : Bool := suf.reverse.isPrefixOf s.reverse

def csi : Bytes := [27, 91]
/-- `lambda s: not s.endswith(b"c")` (get_cell_size, KittyImage.is_supported) -/
def moreC (s : Bytes) : Bool := !(endsWith s [99])
/-- `lambda s: not s.endswith(CSI_b)` (get_fg_bg_colors, get_terminal_name_version) -/
def moreCSI (s : Bytes) : Bool := !(endsWith s csi)

/-! ## `query_terminal` -/

/-- `query_terminal(request, more)` on a tty whose pending input is `w`, when the terminal
    answers the request with `arr`.  Returns `(response, ticks spent, unread)`;
    `none` = queries disabled (nothing is touched). -/
def queryTerminal (enabled : Bool) (more : Bytes → Bool) (T : Nat) (w arr : Stream) :
    Option Bytes × Nat × Stream :=
  if !enabled then (none, 0, w)
  else
    let r := readLoop more T 0 [] (merge (flush w) arr)
    (some r.1, r.2.1, r.2.2)

/-- the two-phase read of `get_fg_bg_colors` / `get_terminal_name_version`:
    read until `CSI`, then `read_tty()` "the rest of the response to DA1" -/
def queryThenDrain (enabled : Bool) (T : Nat) (w arr : Stream) : Option Bytes × Nat × Stream :=
  let q := queryTerminal enabled moreCSI T w arr
  (q.1, q.2.1, if enabled then (readAvail q.2.2).2 else q.2.2)

/-! ## character classes and small recognisers (`re.ASCII`) -/

def isDigit (c : Nat) : Bool := 48 ≤ c && c ≤ 57
def isHex (c : Nat) : Bool := isDigit c || (97 ≤ c && c ≤ 102) || (65 ≤ c && c ≤ 70)
def isWord (c : Nat) : Bool := isDigit c || (97 ≤ c && c ≤ 122) || (65 ≤ c && c ≤ 90) || c == 95
/-- `[\da-fA-F/]` -/
def isSpec (c : Nat) : Bool := isHex c || c == 47

def stripPrefix : Bytes → Bytes → Option Bytes
  | [], s => some s
  | _ :: _, [] => none
  | p :: ps, c :: s => if p == c then stripPrefix ps s else none

/-- `ST` or `BEL` at the front -/
def stripTerm (s : Bytes) : Option Bytes :=
  match s with
  | 27 :: 92 :: r => some r
  | 7 :: r => some r
  | _ => none

def decVal (ds : Bytes) : Nat := ds.foldl (fun acc d => acc * 10 + (d - 48)) 0

def hexDigitVal (c : Nat) : Nat :=
  if isDigit c then c - 48 else if 97 ≤ c && c ≤ 102 then c - 87 else c - 55

def hexVal (ds : Bytes) : Nat := ds.foldl (fun acc d => acc * 16 + hexDigitVal d) 0

/-- `bytes.split(sep)` for a one-byte separator -/
def splitOn (sep : Nat) : Bytes → List Bytes
  | [] => [[]]
  | c :: r =>
    if c == sep then [] :: splitOn sep r
    else match splitOn sep r with
      | h :: t => (c :: h) :: t
      | [] => [[c]]

/-! ## `RGB_SPEC_re` and `x_parse_color` -/

/-- `RGB_SPEC_re` anchored at the front: `ESC ] (\d+) ; (rgb:[\da-fA-F/]+) (?:ESC \ | BEL)`;
    returns `(code, spec-after-"rgb:", rest)`. No backtracking can succeed: `;` is not a digit
    and neither terminator starts with a character of the class. -/
def matchRgbSpec (s : Bytes) : Option (Bytes × Bytes × Bytes) :=
  match stripPrefix [27, 93] s with
  | none => none
  | some s1 =>
    let code := s1.takeWhile isDigit
    if code.isEmpty then none else
    match stripPrefix [59, 114, 103, 98, 58] (s1.dropWhile isDigit) with
    | none => none
    | some s2 =>
      let body := s2.takeWhile isSpec
      if body.isEmpty then none else
      match stripTerm (s2.dropWhile isSpec) with
      | none => none
      | some rest => some (code, body, rest)

/-- `RGB_SPEC_re.findall(response)`: leftmost matches, resuming after each match -/
def findallRgb : Nat → Bytes → List (Bytes × Bytes)
  | 0, _ => []
  | _, [] => []
  | fuel + 1, c :: s =>
    match matchRgbSpec (c :: s) with
    | some (code, body, rest) => (code, body) :: findallRgb fuel rest
    | none => findallRgb fuel s

inductive Err | ValueError | ZeroDivisionError | AttributeError
  deriving Repr, DecidableEq

def Err.name : Err → String
  | .ValueError => "ValueError" | .ZeroDivisionError => "ZeroDivisionError"
  | .AttributeError => "AttributeError"

/-- one component of an `rgb:` device specification: `int(c, 16) * 255 // ((1 << 4*len(c)) - 1)`.
    `none` = `int('', 16)` raises `ValueError`. The domain is hex digits (what the regex lets
    through). -/
def scaleComp (c : Bytes) : Option Nat :=
  if c.isEmpty || !(c.all isHex) then none
  else some (hexVal c * 255 / (16 ^ c.length - 1))

abbrev RGB := Nat × Nat × Nat

/-- `x_parse_color("rgb:" ++ body)` (as repaired: every component scaled by its own width) -/
def xParseColor (body : Bytes) : Except Err RGB :=
  match (splitOn 47 body).map scaleComp with
  | [some r, some g, some b] => .ok (r, g, b)
  | _ => .error .ValueError

/-- the `for c, spec in findall(...)` loop of `get_fg_bg_colors` -/
def colorsLoop : List (Bytes × Bytes) → Option RGB × Option RGB → Except Err (Option RGB × Option RGB)
  | [], acc => .ok acc
  | (code, body) :: rest, (fg, bg) =>
    if code == [49, 48] then
      match xParseColor body with
      | .ok v => colorsLoop rest (some v, bg)
      | .error e => .error e
    else if code == [49, 49] then
      match xParseColor body with
      | .ok v => colorsLoop rest (fg, some v)
      | .error e => .error e
    else colorsLoop rest (fg, bg)

def parseColors (resp : Option Bytes) : Except Err (Option RGB × Option RGB) :=
  match resp with
  | none => .ok (none, none)
  | some r => if r.isEmpty then .ok (none, none) else colorsLoop (findallRgb r.length r) (none, none)

/-- `get_fg_bg_colors()` (uncached call, `hex=False`): `(result, ticks, unread)` -/
def getFgBgColors (enabled : Bool) (T : Nat) (w arr : Stream) :
    Except Err (Option RGB × Option RGB) × Nat × Stream :=
  let q := queryThenDrain enabled T w arr
  (parseColors q.1, q.2.1, q.2.2)

/-! ## `XTVERSION_re` and `get_terminal_name_version` -/

/-- prefix before the last `BEL` of the list -/
def cutLastBel : Bytes → Option Bytes
  | [] => none
  | c :: r =>
    match cutLastBel r with
    | some p => some (c :: p)
    | none => if c == 7 then some [] else none

def notCloseEsc (c : Nat) : Bool := c != 41 && c != 27

/-- `XTVERSION_re.match`: `ESC P > | (\w+) [( ] ([^)ESC]+) \)? (?:ESC \ | BEL)`.
    The greedy version group first takes the whole run of non-`)`/non-`ESC` characters; if the
    rest does not match it backs off to the longest proper prefix followed by `BEL`
    (`BEL` belongs to the class, `)` and `ESC` do not, so no other back-off can succeed). -/
def matchXtversion (s : Bytes) : Option (Bytes × Bytes) :=
  match stripPrefix [27, 80, 62, 124] s with
  | none => none
  | some s1 =>
    let name := s1.takeWhile isWord
    if name.isEmpty then none else
    match s1.dropWhile isWord with
    | [] => none
    | c :: s2 =>
      if c != 40 && c != 32 then none else
      let run := s2.takeWhile notCloseEsc
      let after := s2.dropWhile notCloseEsc
      match run with
      | [] => none
      | r0 :: rtail =>
        let after' := match after with
          | 41 :: a => a
          | a => a
        if (stripTerm after').isSome then some (name, run)
        else match cutLastBel rtail with
          | some p => some (name, r0 :: p)
          | none => none

def lowerByte (c : Nat) : Nat := if 65 ≤ c && c ≤ 90 then c + 32 else c
def lower (s : Bytes) : Bytes := s.map lowerByte

/-- the part of `get_terminal_name_version` after the read -/
def parseNameVersion (resp : Option Bytes) (envName envVer : Option Bytes) :
    Option Bytes × Option Bytes :=
  let m := match resp with
    | none => none
    | some r => if r.isEmpty then none else matchXtversion r
  match m with
  | some (n, v) => (some (lower n), some v)
  | none => (envName.map lower, envVer)

def getNameVersion (enabled : Bool) (T : Nat) (w arr : Stream) (envName envVer : Option Bytes) :
    (Option Bytes × Option Bytes) × Nat × Stream :=
  let q := queryThenDrain enabled T w arr
  (parseNameVersion q.1 envName envVer, q.2.1, q.2.2)

/-! ## XTWINOPS and `get_cell_size` -/

/-- `ESC [ <n> ; (\d+) ; (\d+) t` at the front (`n` is one digit byte) -/
def matchWinops (n : Nat) (s : Bytes) : Option (Nat × Nat) :=
  match stripPrefix [27, 91, n, 59] s with
  | none => none
  | some s1 =>
    let a := s1.takeWhile isDigit
    if a.isEmpty then none else
    match stripPrefix [59] (s1.dropWhile isDigit) with
    | none => none
    | some s2 =>
      let b := s2.takeWhile isDigit
      if b.isEmpty then none else
      match s2.dropWhile isDigit with
      | 116 :: _ => some (decVal a, decVal b)
      | _ => none

/-- `get_cell_size()` with an empty cell-size cache. `ioctl` = pixel fields of `TIOCGWINSZ`
    (`none`: `OSError`), `cols rows` = `get_terminal_size()`, `swap` = `_swap_win_size`,
    `termux` = `$SHELL` starts with the Termux prefix. Result `none` = undetermined. -/
def getCellSize (enabled : Bool) (T : Nat) (w arr : Stream) (cols rows : Nat)
    (ioctl : Option (Nat × Nat)) (swap termux : Bool) :
    Except Err (Option (Nat × Nat)) × Nat × Stream :=
  if cols == 0 && rows == 0 then (.ok none, 0, w)  -- equals the empty cache entry
  else
    let byIoctl : Option (Nat × Nat) := match ioctl with
      | some (x, y) => if x != 0 && y != 0 then some (x, y) else none
      | none => none
    let fin (cell : Nat × Nat) (area : Option (Nat × Nat)) : Except Err (Option (Nat × Nat)) :=
      match area with
      | some (ax, ay) =>
        let (ax, ay) := if swap then (ay, ax) else (ax, ay)
        if cols == 0 || rows == 0 then .error .ZeroDivisionError
        else
          let c := (ax / cols, ay / rows)
          .ok (if c.1 == 0 || c.2 == 0 then none else some c)
      | none => .ok (if cell.1 == 0 || cell.2 == 0 then none else some cell)
    match byIoctl with
    | some a => (fin (0, 0) (some a), 0, w)
    | none =>
      let q := queryTerminal enabled moreC T w arr
      let resp := match q.1 with
        | none => []
        | some r => r
      if resp.isEmpty then (fin (0, 0) none, q.2.1, q.2.2)
      else match matchWinops 54 resp with
        | some (h, wd) => (fin (wd, h) none, q.2.1, q.2.2)
        | none =>
          match matchWinops 52 resp with
          | some (h, wd) => (fin (0, 0) (some (if termux then (wd, h * 2) else (wd, h))), q.2.1, q.2.2)
          | none => (fin (0, 0) none, q.2.1, q.2.2)

/-! ## Python `int(str)`, version tuples -/

def isSpace (c : Nat) : Bool := (9 ≤ c && c ≤ 13) || c == 32

def stripSpaces (s : Bytes) : Bytes :=
  ((s.dropWhile isSpace).reverse.dropWhile isSpace).reverse

/-- digits with single underscores between digits: value, or `none` -/
def digitsUnderscore : Bytes → Option Nat → Bool → Option Nat
  -- args: remaining, accumulated value (none = no digit yet), previous char was underscore
  | [], acc, prevUs => if prevUs then none else acc
  | c :: r, acc, prevUs =>
    if isDigit c then digitsUnderscore r (some ((acc.getD 0) * 10 + (c - 48))) false
    else if c == 95 then
      (if prevUs || acc.isNone then none else digitsUnderscore r acc true)
    else none

/-- `int(s)` for an ASCII string (`none` = `ValueError`) -/
def pyInt (s : Bytes) : Option Int :=
  match stripSpaces s with
  | 45 :: r => (digitsUnderscore r none false).map fun n => - (n : Int)
  | 43 :: r => (digitsUnderscore r none false).map fun n => (n : Int)
  | r => (digitsUnderscore r none false).map fun n => (n : Int)

def allSome {α} : List (Option α) → Option (List α)
  | [] => some []
  | none :: _ => none
  | some x :: r => (allSome r).map (x :: ·)

/-- `tuple(map(int, version.split(".")))` (`none` = `ValueError`) -/
def versionTuple (v : Bytes) : Option (List Int) := allSome ((splitOn 46 v).map pyInt)

/-- Python's `a >= b` on tuples of ints -/
def lexGe : List Int → List Int → Bool
  | _, [] => true
  | [], _ :: _ => false
  | a :: as, b :: bs => if a == b then lexGe as bs else a > b

/-! ## kitty / iterm2 support, automatic style -/

def noNewline (c : Nat) : Bool := c != 10

/-- `(?P<message>.+?) ESC \` after the first message character: the shortest continuation -/
def lazyMsg : Bytes → Option Bytes
  | [] => none
  | [_] => none
  | a :: b :: r =>
    if a == 27 && b == 92 then some []
    else if noNewline a then (lazyMsg (b :: r)).map (a :: ·) else none

/-- `KITTY_RESPONSE_re.match`: `ESC _ G i=(\d+) (?:,I=(\d+))? ; (.+?) ESC \` → `(id, message)` -/
def matchKittyResponse (s : Bytes) : Option (Bytes × Bytes) :=
  match stripPrefix [27, 95, 71, 105, 61] s with
  | none => none
  | some s1 =>
    let id := s1.takeWhile isDigit
    if id.isEmpty then none else
    let s2 := s1.dropWhile isDigit
    let s3 : Bytes := match stripPrefix [44, 73, 61] s2 with
      | some t =>
        if (t.takeWhile isDigit).isEmpty then s2
        else (match t.dropWhile isDigit with
              | 59 :: _ => t.dropWhile isDigit
              | _ => s2)
      | none => s2
    match s3 with
    | 59 :: m0 :: r =>
      if noNewline m0 then (lazyMsg r).map fun m => (id, m0 :: m) else none
    | _ => none

def sKitty : Bytes := [107, 105, 116, 116, 121]
def sKonsole : Bytes := [107, 111, 110, 115, 111, 108, 101]
def sIterm2 : Bytes := [105, 116, 101, 114, 109, 50]
def sWezterm : Bytes := [119, 101, 122, 116, 101, 114, 109]

/-- the decision of `KittyImage.is_supported()` once the graphics reply is in -/
def kittyDecision (resp : Option Bytes) (name ver : Option Bytes) : Bool :=
  let m := match resp with
    | none => none
    | some r => if r.isEmpty then none else matchKittyResponse r
  match m with
  | none => false
  | some (id, msg) =>
    if id == [51, 49] && msg == [79, 75] then
      if name == some sKitty && (match ver with | some v => !v.isEmpty | none => false) then
        match versionTuple (ver.getD []) with
        | none => false
        | some t => lexGe t [0, 20, 0]
      else name == some sKonsole
    else false

/-- `KittyImage.is_supported()` with `_supported is None`; `name ver` is what
    `get_terminal_name_version()` returns -/
def kittySupported (enabled : Bool) (T : Nat) (w arr : Stream) (name ver : Option Bytes) :
    Bool × Nat × Stream :=
  if name == some sIterm2 then (false, 0, w)
  else
    let q := queryTerminal enabled moreC T w arr
    (kittyDecision q.1 name ver, q.2.1, q.2.2)

/-- `ITerm2Image.is_supported()` with `_supported is None` -/
def itermSupported (name ver : Option Bytes) : Except Err Bool :=
  if name == some sIterm2 || name == some sWezterm then .ok true
  else if name == some sKonsole then
    match ver with
    | none => .error .AttributeError      -- `None.split`
    | some v =>
      match versionTuple v with
      | none => .ok false
      | some t => .ok (lexGe t [22, 4, 0])
  else .ok false

inductive Style | kitty | iterm2 | block
  deriving Repr, DecidableEq

def Style.name : Style → String
  | .kitty => "kitty" | .iterm2 => "iterm2" | .block => "block"

/-- `auto_image_class()`: `for cls in _styles: if cls.is_supported(): break` then `return cls` -/
def autoClass (sup : Style → Bool) : List Style → Option Style
  | [] => none
  | [s] => some s
  | s :: r => if sup s then some s else autoClass sup r

/-- state threaded through `auto_image_class()`: pending tty input, ticks spent, and the
    `@cached` value of `get_terminal_name_version()` -/
structure Sess where
  w : Stream
  t : Nat
  nv : Option (Option Bytes × Option Bytes)

/-- what the session is run against: switches, timeout, the terminal's answers to the
    name/version request and to the kitty graphics request, the environment -/
structure Cfg where
  enabled : Bool
  T : Nat
  arrNV : Stream
  arrK : Stream
  envName : Option Bytes
  envVer : Option Bytes
  blockSup : Bool

/-- `get_terminal_name_version()` through its cache -/
def sessNV (c : Cfg) (s : Sess) : (Option Bytes × Option Bytes) × Sess :=
  match s.nv with
  | some v => (v, s)
  | none =>
    let r := getNameVersion c.enabled c.T s.w c.arrNV c.envName c.envVer
    (r.1, { w := r.2.2, t := s.t + r.2.1, nv := some r.1 })

/-- `cls.is_supported()` for the three styles (fresh `_supported`) -/
def styleSupported (c : Cfg) (st : Style) (s : Sess) : Except Err Bool × Sess :=
  match st with
  | .kitty =>
    let (nv, s1) := sessNV c s
    let k := kittySupported c.enabled c.T s1.w c.arrK nv.1 nv.2
    (.ok k.1, { s1 with w := k.2.2, t := s1.t + k.2.1 })
  | .iterm2 =>
    let (nv, s1) := sessNV c s
    (itermSupported nv.1 nv.2, s1)
  | .block => (.ok c.blockSup, s)

/-- the loop of `auto_image_class()` with its effects; `none` = empty `_styles` -/
def autoLoop (c : Cfg) : List Style → Sess → Except Err (Option Style) × Sess
  | [], s => (.ok none, s)
  | st :: r, s =>
    let x := styleSupported c st s
    match x.1 with
    | .error e => (.error e, x.2)
    | .ok b => if b || r.isEmpty then (.ok (some st), x.2) else autoLoop c r x.2

/-- `auto_image_class()` on a fresh process with pending tty input `w` -/
def autoSession (styles : List Style) (c : Cfg) (w : Stream) : Except Err (Option Style) × Nat × Stream :=
  let r := autoLoop c styles { w := w, t := 0, nv := none }
  (r.1, r.2.t, r.2.w)


/-! ## specifications used by the theorems (not by the driver) -/

/-- the read loop without time: feed bytes while `more` says so -/
def cut (more : Bytes → Bool) : Bytes → Bytes → Bytes × Bytes
  | inp, [] => (inp, [])
  | inp, b :: bs => if more inp then cut more (inp ++ [b]) bs else (inp, b :: bs)

/-- the same on a stream, keeping the gaps of what is not read -/
def cutS (more : Bytes → Bool) : Bytes → Stream → Bytes × Stream
  | inp, [] => (inp, [])
  | inp, (g, b) :: rest => if more inp then cutS more (inp ++ [b]) rest else (inp, (g, b) :: rest)

/-- `ESC [` occurs somewhere -/
def hasCSI : Bytes → Bool
  | [] => false
  | c :: r => (c == 27 && r.head? == some 91) || hasCSI r

/-- XParseColor scaling of an `n`-digit value `v` -/
def scaleOf (v n : Nat) : Nat := v * 255 / (16 ^ n - 1)

/-- replies as a conforming terminal writes them -/
def colorReply (code : Bytes) (r g b : Bytes) (term : Bytes) : Bytes :=
  [27, 93] ++ code ++ [59, 114, 103, 98, 58] ++ r ++ [47] ++ g ++ [47] ++ b ++ term

def xtReply (name ver : Bytes) (paren : Bool) (term : Bytes) : Bytes :=
  [27, 80, 62, 124] ++ name ++ (if paren then [40] ++ ver ++ [41] else [32] ++ ver) ++ term

def winopsReply (n : Nat) (a b : Bytes) : Bytes := [27, 91, n, 59] ++ a ++ [59] ++ b ++ [116]

def kittyOkReply : Bytes := [27, 95, 71, 105, 61, 51, 49, 59, 79, 75, 27, 92]


/-- a colour reply: three hex components and the terminator -/
structure CReply where
  r : Bytes
  g : Bytes
  b : Bytes
  term : Bytes

def CReply.bytes (code : Bytes) (c : CReply) : Bytes := colorReply code c.r c.g c.b c.term
/-- every component scaled by its own number of digits -/
def CReply.val (c : CReply) : RGB :=
  (scaleOf (hexVal c.r) c.r.length, scaleOf (hexVal c.g) c.g.length, scaleOf (hexVal c.b) c.b.length)
def optReply (code : Bytes) : Option CReply → Bytes
  | none => []
  | some c => c.bytes code


/-- decimal rendering of a natural number (`str(n)`), as bytes -/
def decBytes (n : Nat) : Bytes := (Nat.toDigits 10 n).map Char.toNat
/-- the version string `a.b.c` -/
def renderVersion (a b c : Nat) : Bytes := decBytes a ++ 46 :: (decBytes b ++ 46 :: decBytes c)

end TIV.C12
