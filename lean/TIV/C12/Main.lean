import TIV.Common.DriverMain
import TIV.C12.Drive
def main : IO Unit := TIV.driverMain TIV.C12.handler
