import TIV.C12.Proofs
import TIV.C12.Generated
/-!
# C12 — terminal queries report what the terminal said, whatever the timing

Statements use the model functions that mirror the code (`readLoop` = `read_tty`, `queryTerminal`,
`queryThenDrain`, `getFgBgColors`, `getNameVersion`, `getCellSize`, `kittySupported`,
`itermSupported`, `autoClass`/`autoSession`, `xParseColor`) and the generated constants.
A `Stream` is ANY timing of a byte sequence (`(gap, byte)` list): quantifying over streams with
given `sbytes` quantifies over every split into write bursts and every delay.
-/
namespace TIV.C12

/-! ## the generated constants are the ones the model was written for -/

/-- `_styles` is kitty, iterm2, block in this order -/
theorem generated_styles : Generated.styles = [Style.kitty, Style.iterm2, Style.block].map Style.name := by
  decide

/-- the five response regexes (sources and flags, `re.ASCII`) are the ones the recognisers
    `matchRgbSpec`, `matchXtversion`, `matchWinops 52/54`, `matchKittyResponse` re-express -/
theorem generated_regex_sources :
    Generated.rgbSpecSrc = [27, 92, 93, 40, 92, 100, 43, 41, 59, 40, 114, 103, 98, 58, 91, 92, 100, 97, 45,
      102, 65, 45, 70, 47, 93, 43, 41, 40, 63, 58, 27, 92, 92, 124, 7, 41] ∧
    Generated.xtversionSrc = [27, 80, 62, 92, 124, 40, 92, 119, 43, 41, 91, 40, 32, 93, 40, 91, 94, 41, 27,
      93, 43, 41, 92, 41, 63, 40, 63, 58, 27, 92, 92, 124, 7, 41] ∧
    Generated.textAreaSrc = [27, 92, 91, 52, 59, 40, 92, 100, 43, 41, 59, 40, 92, 100, 43, 41, 116] ∧
    Generated.cellSizeSrc = [27, 92, 91, 54, 59, 40, 92, 100, 43, 41, 59, 40, 92, 100, 43, 41, 116] ∧
    Generated.kittyRespSrc = [27, 95, 71, 105, 61, 40, 63, 80, 60, 105, 100, 62, 92, 100, 43, 41, 40, 63, 58,
      44, 73, 61, 40, 63, 80, 60, 110, 117, 109, 98, 101, 114, 62, 92, 100, 43, 41, 41, 63, 59, 40, 63, 80,
      60, 109, 101, 115, 115, 97, 103, 101, 62, 46, 43, 63, 41, 27, 92, 92] ∧
    Generated.regexFlags = [256, 256, 256, 256, 256] := by decide

/-- the requests the four callers write (captured live): colours = FG, BG, DA1;
    name/version = XTVERSION, DA1; cell size = 16t, 14t, DA1; kitty = graphics query id 31, DA1;
    every request ends with DA1, `CSI` is `ESC [`, the expected graphics id is the queried one -/
theorem generated_requests :
    Generated.reqColors = [27, 93, 49, 48, 59, 63, 27, 92] ++ [27, 93, 49, 49, 59, 63, 27, 92] ++ [27, 91, 99] ∧
    Generated.reqNameVersion = [27, 91, 62, 113] ++ [27, 91, 99] ∧
    Generated.reqCellSize = [27, 91, 49, 54, 116] ++ [27, 91, 49, 52, 116] ++ [27, 91, 99] ∧
    Generated.reqKitty.take 5 = [27, 95, 71, 97, 61] ∧ Generated.reqKitty.drop 47 = [27, 91, 99] ∧
    Generated.csi = csi ∧ Generated.kittyQueryId = [51, 49] := by decide

/-! ## timing -/

/-- SPLIT INDEPENDENCE. Two timings (burst splits, delays) of the same reply bytes, all arrivals
    before the timeout: `read_tty(more, T)` returns the same bytes, leaves the same bytes unread,
    and what it returns is what the untimed cut `cut more` dictates. -/
theorem split_independent (more : Bytes → Bool) (T : Nat) (s1 s2 : Stream)
    (hb : sbytes s1 = sbytes s2) (h1 : span s1 < T) (h2 : span s2 < T) :
    (readLoop more T 0 [] s1).1 = (readLoop more T 0 [] s2).1 ∧
    sbytes (readLoop more T 0 [] s1).2.2 = sbytes (readLoop more T 0 [] s2).2.2 ∧
    (readLoop more T 0 [] s1).1 = (cut more [] (sbytes s1)).1 := by
  have a1 := readLoop_eq_cutS more T s1 0 [] (by omega)
  have a2 := readLoop_eq_cutS more T s2 0 [] (by omega)
  have c1 := cutS_bytes more s1 []
  have c2 := cutS_bytes more s2 []
  rw [a1.1, a1.2, a2.1, a2.2, c1.1, c1.2, c2.1, c2.2, hb]
  exact ⟨rfl, rfl, rfl⟩

/-- …and when the reply stream ends exactly where `more` first turns false (or never does),
    nothing is left unread, whatever the timing. -/
theorem nothing_left_unread (more : Bytes → Bool) (T : Nat) (s : Stream)
    (hc : (cut more [] (sbytes s)).2 = []) (h : span s < T) :
    (readLoop more T 0 [] s).2.2 = [] := by
  have a := readLoop_eq_cutS more T s 0 [] (by omega)
  have c := cutS_bytes more s []
  rw [a.2]
  have : sbytes (cutS more [] s).2 = [] := by rw [c.2, hc]
  simpa [sbytes] using this

/-- the same at the level of write bursts -/
theorem split_independent_bursts (more : Bytes → Bool) (T : Nat) (b1 b2 : List (Nat × Bytes))
    (hb : sbytes (ofBursts 0 b1) = sbytes (ofBursts 0 b2))
    (h1 : span (ofBursts 0 b1) < T) (h2 : span (ofBursts 0 b2) < T) :
    (readLoop more T 0 [] (ofBursts 0 b1)).1 = (readLoop more T 0 [] (ofBursts 0 b2)).1 :=
  (split_independent more T _ _ hb h1 h2).1

/-- NEVER BLOCKS: for every timing whatsoever (late, never, garbage) a read gives up within the
    timeout, and so does every query. -/
theorem read_within_timeout (more : Bytes → Bool) (T : Nat) (s : Stream) :
    (readLoop more T 0 [] s).2.1 ≤ T := by
  have := readLoop_time more T s 0 []
  omega

/-- THE LOOP TERMINATES. The `while` loop of `read_tty`, iterated literally (one `select` per
    iteration, the clock re-read after every iteration), for EVERY reply schedule — silent
    terminal, late or partial replies, garbage: it leaves the loop after at most one poll per
    pending byte plus one (the poll that runs into the deadline), with the result of `readLoop`,
    having spent no more than the timeout.  (Time is event-driven here, so "one poll per byte + 1"
    is the counterpart of ⌈timeout/step⌉ + 1.)  A silent terminal costs exactly one poll. -/
theorem read_terminates (more : Bytes → Bool) (T : Nat) (s : Stream) (fuel : Nat)
    (hf : s.length + 2 ≤ fuel) :
    (readIter more T fuel 0 [] s).1 = readLoop more T 0 [] s ∧
    (readIter more T fuel 0 [] s).2 ≤ s.length + 1 ∧
    (readIter more T fuel 0 [] s).1.2.1 ≤ T ∧
    (readIter more T fuel 0 [] []).2 ≤ 1 := by
  have h := readIter_eq more T s fuel 0 [] hf
  have h0 := readIter_eq more T [] fuel 0 [] (by simp at hf ⊢; omega)
  refine ⟨h.1, h.2, ?_, by simpa using h0.2⟩
  rw [h.1]
  have := readLoop_time more T s 0 []
  omega

/-- with `min > 0` the blocking read comes first and the timed loop only gets what is left of
    the timeout: once `min` bytes are in, never more than `max elapsed T` in total -/
theorem read_min_within_timeout (more : Bytes → Bool) (T min : Nat) (echo : Bool) (s : Stream)
    (bs : Bytes) (t : Nat) (rest : Stream) (hmin : min ≠ 0) (hb : takeBlocking min s = some (bs, t, rest)) :
    ∃ r, readTty more T min echo s = some r ∧ r.2.1 ≤ max t T ∧
      readTty more T min (!echo) s = some r := by
  have hm : (min == 0) = false := by simpa using hmin
  refine ⟨readLoop more T t bs rest, by simp [readTty, hm, hb], readLoop_time more T rest t bs, by simp [readTty, hm, hb]⟩

theorem query_within_timeout (en : Bool) (more : Bytes → Bool) (T : Nat) (w arr : Stream) :
    (queryTerminal en more T w arr).2.1 ≤ T ∧ (queryThenDrain en T w arr).2.1 ≤ T :=
  ⟨queryTerminal_time en more T w arr, queryTerminal_time en moreCSI T w arr⟩

/-! ## colours -/

/-- XParseColor scaling: every component lands in 0–255, all-zero ↦ 0, all-`f` ↦ 255, monotone
    in the value — for every number of digits. -/
theorem xparse_range (c : Bytes) (h : HexNE c) :
    scaleOf (hexVal c) c.length ≤ 255 ∧
    ((∀ d ∈ c, hexDigitVal d = 0) → scaleOf (hexVal c) c.length = 0) ∧
    ((∀ d ∈ c, hexDigitVal d = 15) → scaleOf (hexVal c) c.length = 255) ∧
    (∀ c' : Bytes, c'.length = c.length → hexVal c ≤ hexVal c' →
      scaleOf (hexVal c) c.length ≤ scaleOf (hexVal c') c'.length) := by
  have hlen : 0 < c.length := by
    cases c with
    | nil => exact absurd rfl h.1
    | cons a b => simp
  refine ⟨scaleOf_le _ _ (hexVal_lt c h.2), ?_, ?_, ?_⟩
  · intro hz
    have := hexFold_zero c 0 hz
    rw [hexVal_eq_fold, this]; simp [scaleOf]
  · intro hm
    have := hexFold_max c 0 hm
    have hv : hexVal c = 16 ^ c.length - 1 := by rw [hexVal_eq_fold]; omega
    rw [hv]; exact scaleOf_max _ hlen
  · intro c' hl hle
    rw [hl]; exact scaleOf_mono _ _ _ hle

/-- every component of `rgb:r/g/b` is scaled by ITS OWN digit count (1–4 digits and beyond,
    independently per component) -/
theorem xparse_components (r g b : Bytes) (hr : HexNE r) (hg : HexNE g) (hb : HexNE b) :
    xParseColor (r ++ 47 :: (g ++ 47 :: b)) =
      .ok (scaleOf (hexVal r) r.length, scaleOf (hexVal g) g.length, scaleOf (hexVal b) b.length) :=
  xParseColor_eq r g b hr hg hb

/-- COLOURS ROUND TRIP, DA1 answered. The terminal answers the supported ones of FG, BG
    (any hex digit counts per component, `ST` or `BEL`) and DA1; `s1` is ANY timing of the bytes
    up to and including the `CSI` of the DA1 reply, `s2` the rest of the DA1 reply arriving with
    it (the reply is written as a unit); everything arrives before the timeout; stale input may
    be queued.  Then `get_fg_bg_colors()` returns exactly the scaled colours (`none` for an
    unsupported query), within the timeout, and nothing is left unread. -/
theorem colors_roundtrip (T : Nat) (w s1 s2 : Stream) (fg bg : Option CReply)
    (hw : ∀ x ∈ w, x.1 = 0) (hfg : ∀ c, fg = some c → c.Ok) (hbg : ∀ c, bg = some c → c.Ok)
    (hb : sbytes s1 = (optReply [49, 48] fg ++ optReply [49, 49] bg) ++ csi)
    (h0 : ∀ x ∈ s2, x.1 = 0) (ht : span (s1 ++ s2) < T) :
    (getFgBgColors true T w (s1 ++ s2)).1 = .ok (fg.map CReply.val, bg.map CReply.val) ∧
    (getFgBgColors true T w (s1 ++ s2)).2.1 ≤ T ∧
    (getFgBgColors true T w (s1 ++ s2)).2.2 = [] := by
  have h := queryThenDrain_csi T w s1 s2 _ hw hb (colorReplies_noCSI fg bg hfg hbg) h0 ht
  refine ⟨?_, h.2.1, h.2.2⟩
  simp only [getFgBgColors, h.1, List.append_assoc]
  exact parseColors_replies fg bg csi hfg hbg (Or.inr rfl)

/-- …and when DA1 is not answered either (the read runs into the timeout, no longer) -/
theorem colors_roundtrip_noDA1 (T : Nat) (w s : Stream) (fg bg : Option CReply)
    (hw : ∀ x ∈ w, x.1 = 0) (hfg : ∀ c, fg = some c → c.Ok) (hbg : ∀ c, bg = some c → c.Ok)
    (hb : sbytes s = optReply [49, 48] fg ++ optReply [49, 49] bg) (ht : span s < T) :
    (getFgBgColors true T w s).1 = .ok (fg.map CReply.val, bg.map CReply.val) ∧
    (getFgBgColors true T w s).2.1 ≤ T ∧ (getFgBgColors true T w s).2.2 = [] := by
  have h := queryThenDrain_noCSI T w s hw (by rw [hb]; exact colorReplies_noCSI fg bg hfg hbg) ht
  refine ⟨?_, h.2.1, h.2.2⟩
  simp only [getFgBgColors, h.1, hb]
  have := parseColors_replies fg bg [] hfg hbg (Or.inl rfl)
  simpa using this

/-! ## name and version -/

/-- NAME/VERSION ROUND TRIP, DA1 answered: for every name (`\w+`), every version without `)`
    and `ESC`, both reply shapes `name(version)` / `name version`, `ST` or `BEL`, every timing:
    the lower-cased name and the exact version; nothing left unread; within the timeout. -/
theorem name_version_roundtrip (T : Nat) (w s1 s2 : Stream) (name ver : Bytes) (paren : Bool)
    (term : Bytes) (envName envVer : Option Bytes)
    (hw : ∀ x ∈ w, x.1 = 0) (hn : WordNE name) (hv : VerNE ver) (hterm : IsTerm term)
    (hb : sbytes s1 = xtReply name ver paren term ++ csi)
    (h0 : ∀ x ∈ s2, x.1 = 0) (ht : span (s1 ++ s2) < T) :
    (getNameVersion true T w (s1 ++ s2) envName envVer).1 = (some (lower name), some ver) ∧
    (getNameVersion true T w (s1 ++ s2) envName envVer).2.1 ≤ T ∧
    (getNameVersion true T w (s1 ++ s2) envName envVer).2.2 = [] := by
  have h := queryThenDrain_csi T w s1 s2 _ hw hb (xtReply_noCSI name ver paren term hn hv hterm) h0 ht
  refine ⟨?_, h.2.1, h.2.2⟩
  simp only [getNameVersion, h.1]
  exact parseNameVersion_reply name ver paren term csi envName envVer hn hv hterm (Or.inr rfl)

theorem name_version_roundtrip_noDA1 (T : Nat) (w s : Stream) (name ver : Bytes) (paren : Bool)
    (term : Bytes) (envName envVer : Option Bytes)
    (hw : ∀ x ∈ w, x.1 = 0) (hn : WordNE name) (hv : VerNE ver) (hterm : IsTerm term)
    (hb : sbytes s = xtReply name ver paren term) (ht : span s < T) :
    (getNameVersion true T w s envName envVer).1 = (some (lower name), some ver) ∧
    (getNameVersion true T w s envName envVer).2.1 ≤ T ∧
    (getNameVersion true T w s envName envVer).2.2 = [] := by
  have h := queryThenDrain_noCSI T w s hw (by rw [hb]; exact xtReply_noCSI name ver paren term hn hv hterm) ht
  refine ⟨?_, h.2.1, h.2.2⟩
  simp only [getNameVersion, h.1, hb]
  have := parseNameVersion_reply name ver paren term [] envName envVer hn hv hterm (Or.inl rfl)
  simpa using this

/-- XTVERSION unsupported, DA1 answered: the documented fallback `$TERM_PROGRAM`,
    `$TERM_PROGRAM_VERSION`; nothing left unread -/
theorem name_version_unsupported (T : Nat) (w s1 s2 : Stream) (envName envVer : Option Bytes)
    (hw : ∀ x ∈ w, x.1 = 0) (hb : sbytes s1 = csi) (h0 : ∀ x ∈ s2, x.1 = 0)
    (ht : span (s1 ++ s2) < T) :
    (getNameVersion true T w (s1 ++ s2) envName envVer).1 = (envName.map lower, envVer) ∧
    (getNameVersion true T w (s1 ++ s2) envName envVer).2.2 = [] := by
  have h := queryThenDrain_csi T w s1 s2 [] hw (by simpa using hb) (by simp [hasCSI]) h0 ht
  refine ⟨?_, h.2.2⟩
  simp only [getNameVersion, h.1, List.nil_append]
  exact parseNameVersion_none csi envName envVer (Or.inr rfl)

/-! ## cell size -/

/-- what `get_cell_size` makes of a text-area size -/
def cellOfArea (ax ay cols rows : Nat) : Option (Nat × Nat) :=
  if ax / cols = 0 ∨ ay / rows = 0 then none else some (ax / cols, ay / rows)

/-- CELL SIZE RULES (terminal of at least one column and line).
    (1) non-zero ioctl pixel size: no query, area ÷ terminal size, swapped first when the swap
        workaround is on;
    (2) ioctl zero/failing, the terminal answers the cell-size query `ESC[6;h;wt` (whatever
        follows, DA1 last): exactly `(w, h)` — `none` if one is 0;
    (3) it answers only the text-area query `ESC[4;H;Wt`: `(W ÷ cols, H ÷ rows)`, swap applied
        (under Termux, `$SHELL` in `/data/data/com.termux/`, the reported height counts double);
    in (2),(3) for every timing before the timeout, nothing is left unread. -/
theorem cell_size_rules (T : Nat) (w : Stream) (cols rows : Nat) (hc : 0 < cols) (hr : 0 < rows)
    (swap : Bool) :
    (∀ (en : Bool) (arr : Stream) (x y : Nat) (termux : Bool), x ≠ 0 → y ≠ 0 →
      getCellSize en T w arr cols rows (some (x, y)) swap termux =
        (.ok (if swap then cellOfArea y x cols rows else cellOfArea x y cols rows), 0, w)) ∧
    (∀ (s : Stream) (io : Option (Nat × Nat)) (h wd mid : Bytes) (termux : Bool),
      (io = none ∨ ∃ x y, io = some (x, y) ∧ (x = 0 ∨ y = 0)) → (∀ x ∈ w, x.1 = 0) →
      DigNE h → DigNE wd → 99 ∉ mid → sbytes s = (winopsReply 54 h wd ++ mid) ++ [99] → span s < T →
      getCellSize true T w s cols rows io swap termux =
        (.ok (if decVal wd = 0 ∨ decVal h = 0 then none else some (decVal wd, decVal h)),
          (getCellSize true T w s cols rows io swap termux).2.1, [])) ∧
    (∀ (s : Stream) (io : Option (Nat × Nat)) (h wd mid : Bytes) (termux : Bool),
      (io = none ∨ ∃ x y, io = some (x, y) ∧ (x = 0 ∨ y = 0)) → (∀ x ∈ w, x.1 = 0) →
      DigNE h → DigNE wd → 99 ∉ mid → sbytes s = (winopsReply 52 h wd ++ mid) ++ [99] → span s < T →
      getCellSize true T w s cols rows io swap termux =
        (.ok (if swap then cellOfArea (if termux then decVal h * 2 else decVal h) (decVal wd) cols rows
              else cellOfArea (decVal wd) (if termux then decVal h * 2 else decVal h) cols rows),
          (getCellSize true T w s cols rows io swap termux).2.1, [])) := by
  have hcr : (cols == 0 && rows == 0) = false := by simp; omega
  have hc0 : (cols == 0) = false := by simp; omega
  have hr0 : (rows == 0) = false := by simp; omega
  refine ⟨?_, ?_, ?_⟩
  · intro en arr x y termux hx hy
    cases swap <;> simp [getCellSize, hcr, hx, hy, hc0, hr0, cellOfArea]
  · intro s io h wd mid termux hio hw hh hwd hmid hb ht
    have hno : 99 ∉ winopsReply 54 h wd ++ mid := by
      simp only [List.mem_append, not_or]
      exact ⟨winopsReply_noC 54 h wd (by decide) hh hwd, hmid⟩
    have q := queryTerminal_c T w s _ hw hb hno ht
    have hm := matchWinops_reply 54 h wd (mid ++ [99]) hh hwd
    have hne : (winopsReply 54 h wd ++ (mid ++ [99])).isEmpty = false := by simp [winopsReply]
    rcases hio with rfl | ⟨x, y, rfl, hxy⟩
    · simp [getCellSize, hcr, q.1, q.2, hne, hm]
    · rcases hxy with rfl | rfl <;> simp [getCellSize, hcr, q.1, q.2, hne, hm]
  · intro s io h wd mid termux hio hw hh hwd hmid hb ht
    have hno : 99 ∉ winopsReply 52 h wd ++ mid := by
      simp only [List.mem_append, not_or]
      exact ⟨winopsReply_noC 52 h wd (by decide) hh hwd, hmid⟩
    have q := queryTerminal_c T w s _ hw hb hno ht
    have hm := matchWinops_reply 52 h wd (mid ++ [99]) hh hwd
    have hm6 := matchWinops_other 54 52 h wd (mid ++ [99]) (by decide)
    have hne : (winopsReply 52 h wd ++ (mid ++ [99])).isEmpty = false := by simp [winopsReply]
    rcases hio with rfl | ⟨x, y, rfl, hxy⟩
    · cases termux <;> cases swap <;>
        simp [getCellSize, hcr, q.1, q.2, hne, hm, hm6, hc0, hr0, cellOfArea]
    · rcases hxy with rfl | rfl <;> cases termux <;> cases swap <;>
        simp [getCellSize, hcr, q.1, q.2, hne, hm, hm6, hc0, hr0, cellOfArea]

/-! ## style support and automatic style -/

/-- the kitty graphics reply `ESC _ G i=31;OK ESC \` followed by the DA1 reply, any timing before
    the timeout: the reply is recognised (id 31, message OK) and nothing is left unread -/
theorem kitty_query_roundtrip (T : Nat) (w s : Stream) (params : Bytes) (name ver : Option Bytes)
    (hw : ∀ x ∈ w, x.1 = 0) (hn : name ≠ some sIterm2) (hp : 99 ∉ params)
    (hb : sbytes s = (kittyOkReply ++ (csi ++ params)) ++ [99]) (ht : span s < T) :
    (kittySupported true T w s name ver).1 = kittyDecision (some (kittyOkReply ++ (csi ++ params) ++ [99])) name ver ∧
    matchKittyResponse (kittyOkReply ++ (csi ++ params) ++ [99]) = some ([51, 49], [79, 75]) ∧
    (kittySupported true T w s name ver).2.1 ≤ T ∧
    (kittySupported true T w s name ver).2.2 = [] := by
  have hno : 99 ∉ kittyOkReply ++ (csi ++ params) := by
    simp only [List.mem_append, not_or]
    exact ⟨by decide, by decide, hp⟩
  have q := queryTerminal_c T w s _ hw hb hno ht
  have hn' : (name == some sIterm2) = false := by simpa using hn
  have hm := matchKitty_ok ((csi ++ params) ++ [99])
  rw [← List.append_assoc] at hm
  refine ⟨?_, hm, ?_, ?_⟩
  · simp [kittySupported, hn', q.1]
  · have := queryTerminal_time true moreC T w s
    simpa [kittySupported, hn'] using this
  · simp [kittySupported, hn', q.2]

/-- SUPPORT RULES on arbitrary version strings (through `versionTuple`, the model of
    `tuple(map(int, version.split(".")))`). kitty style ⇔ the terminal is not iTerm2, answered the graphics query with
    id 31 / `OK`, and is kitty with a version tuple ≥ (0, 20, 0) or is konsole;
    iterm2 style ⇔ iTerm2 or WezTerm, or konsole with a version tuple ≥ (22, 4, 0). -/
theorem support_rules_tuple (resp : Bytes) (name ver : Option Bytes) :
    (kittyDecision (some resp) name ver = true ↔
      (resp ≠ [] ∧ matchKittyResponse resp = some ([51, 49], [79, 75]) ∧
        ((name = some sKitty ∧ ∃ v t, ver = some v ∧ v ≠ [] ∧ versionTuple v = some t ∧ lexGe t [0, 20, 0] = true)
          ∨ name = some sKonsole))) ∧
    (∀ v, ver = some v →
      (itermSupported name ver = .ok true ↔
        (name = some sIterm2 ∨ name = some sWezterm ∨
          (name = some sKonsole ∧ ∃ t, versionTuple v = some t ∧ lexGe t [22, 4, 0] = true)))) := by
  constructor
  · unfold kittyDecision
    by_cases he : resp.isEmpty = true
    · have : resp = [] := by simpa using he
      subst this; simp
    · have hne : resp ≠ [] := by simpa using he
      simp only [he, Bool.false_eq_true, if_false]
      cases hm : matchKittyResponse resp with
      | none => simp
      | some p =>
        obtain ⟨id, msg⟩ := p
        by_cases hid : id = [51, 49] ∧ msg = [79, 75]
        · obtain ⟨rfl, rfl⟩ := hid
          simp only [hne, ne_eq, not_false_eq_true, true_and, beq_self_eq_true, Bool.and_self, if_true]
          by_cases hk : name = some sKitty
          · subst hk
            have hkk : (some sKitty == some sKonsole) = false := by decide
            have hkk' : ¬ (some sKitty = some sKonsole) := by decide
            cases ver with
            | none => simp [hkk, hkk']
            | some v =>
              by_cases hv : v = []
              · subst hv; simp [hkk, hkk']
              · have hve : v.isEmpty = false := by simpa using hv
                cases hvt : versionTuple v with
                | none => simp [hve, hvt, hkk', hv]
                | some t => simp [hve, hvt, hkk', hv]
          · have hk' : (name == some sKitty) = false := by simpa using hk
            simp [hk', hk]
        · have : (id == [51, 49] && msg == [79, 75]) = false := by
            simp only [Bool.and_eq_false_iff, beq_eq_false_iff_ne]
            by_cases h1 : id = [51, 49]
            · right; intro h2; exact hid ⟨h1, h2⟩
            · left; exact h1
          simp only [this, Bool.false_eq_true, if_false]
          constructor
          · intro h; exact absurd h (by simp)
          · intro ⟨_, h, _⟩
            simp at h
            exact absurd h hid
  · intro v hv
    subst hv
    unfold itermSupported
    by_cases h1 : name = some sIterm2
    · subst h1; simp
    · by_cases h2 : name = some sWezterm
      · subst h2; simp
      · have h1' : (name == some sIterm2) = false := by simpa using h1
        have h2' : (name == some sWezterm) = false := by simpa using h2
        by_cases h3 : name = some sKonsole
        · subst h3
          cases hvt : versionTuple v with
          | none => simp [h1', h2', hvt, h1, h2]
          | some t => simp [h1', h2', hvt, h1, h2]
        · have h3' : (name == some sKonsole) = false := by simpa using h3
          simp [h1', h2', h3', h1, h2, h3]

/-- the version comparison is the lexicographic one on the numbers: ≥ (0, 20, 0) -/
theorem version_ge_kitty (a b c : Nat) :
    lexGe [(a : Int), (b : Int), (c : Int)] [0, 20, 0] = true ↔ (0 < a ∨ 20 ≤ b) := by
  simp only [lexGe]
  rcases Nat.eq_zero_or_pos a with rfl | ha
  · by_cases hb : b = 20
    · subst hb; simp; omega
    · have : ((b : Int) == 20) = false := by simp; omega
      simp [this]; omega
  · have : ((a : Int) == 0) = false := by simp; omega
    simp [this]; omega

/-- the decimal rendering `a.b.c` of any three naturals reads back as the tuple `(a, b, c)` -/
theorem version_tuple_of_rendering (a b c : Nat) :
    versionTuple (renderVersion a b c) = some [(a : Int), (b : Int), (c : Int)] :=
  versionTuple_render a b c

/-- SUPPORT RULES on version numbers. The terminal answers the kitty graphics query with
    `i=31;OK` and DA1 (any timing before the timeout, stale input allowed). Then
    (1) a terminal named `kitty` of version `a.b.c` is reported to support the kitty style
        iff `(a, b, c) ≥ (0, 20, 0)`, i.e. `a > 0 ∨ b ≥ 20` (`version_ge_kitty`);
    (2) `konsole` is supported whatever its version string;
    (3) any other terminal is not, although it answered OK;
    (4) nothing is left unread;
    (5) the iterm2 style is reported supported for a terminal of version `a.b.c` iff it is
        iTerm2 or WezTerm, or konsole with `(a, b, c) ≥ (22, 4, 0)`, i.e. `a > 22 ∨ (a = 22 ∧ b ≥ 4)`. -/
theorem support_rules (T : Nat) (w s : Stream) (params : Bytes) (a b c : Nat)
    (hw : ∀ x ∈ w, x.1 = 0) (hp : 99 ∉ params)
    (hb : sbytes s = (kittyOkReply ++ (csi ++ params)) ++ [99]) (ht : span s < T) :
    ((kittySupported true T w s (some sKitty) (some (renderVersion a b c))).1 = true ↔ (0 < a ∨ 20 ≤ b)) ∧
    (∀ ver, (kittySupported true T w s (some sKonsole) ver).1 = true) ∧
    (∀ name ver, name ≠ some sKitty → name ≠ some sKonsole →
      (kittySupported true T w s name ver).1 = false) ∧
    (∀ name ver, name ≠ some sIterm2 → (kittySupported true T w s name ver).2.2 = []) ∧
    (∀ name, itermSupported name (some (renderVersion a b c)) = .ok true ↔
      (name = some sIterm2 ∨ name = some sWezterm ∨
        (name = some sKonsole ∧ (22 < a ∨ (a = 22 ∧ 4 ≤ b))))) := by
  have hne : kittyOkReply ++ (csi ++ params) ++ [99] ≠ [] := by simp
  have key := fun (name ver : Option Bytes) (hn : name ≠ some sIterm2) =>
    kitty_query_roundtrip T w s params name ver hw hn hp hb ht
  refine ⟨?_, ?_, ?_, ?_, ?_⟩
  · have k := key (some sKitty) (some (renderVersion a b c)) (by decide)
    rw [k.1, (support_rules_tuple _ (some sKitty) (some (renderVersion a b c))).1]
    constructor
    · rintro ⟨_, _, h⟩
      rcases h with ⟨_, v, t, hv, _, hvt, hge⟩ | hk
      · injection hv with hv
        subst hv
        rw [versionTuple_render] at hvt
        injection hvt with hvt
        subst hvt
        exact (version_ge_kitty a b c).1 hge
      · exact absurd hk (by decide)
    · intro h
      exact ⟨hne, k.2.1, Or.inl ⟨rfl, _, _, rfl, renderVersion_ne_nil a b c, versionTuple_render a b c,
        (version_ge_kitty a b c).2 h⟩⟩
  · intro ver
    have k := key (some sKonsole) ver (by decide)
    rw [k.1, (support_rules_tuple _ (some sKonsole) ver).1]
    exact ⟨hne, k.2.1, Or.inr rfl⟩
  · intro name ver h1 h2
    by_cases hi : name = some sIterm2
    · subst hi; simp [kittySupported]
    · have k := key name ver hi
      rw [k.1]
      cases hd : kittyDecision (some (kittyOkReply ++ (csi ++ params) ++ [99])) name ver with
      | false => rfl
      | true =>
        have := (support_rules_tuple _ name ver).1.1 hd
        rcases this.2.2 with ⟨hk, _⟩ | hk
        · exact absurd hk h1
        · exact absurd hk h2
  · intro name ver hn
    exact (key name ver hn).2.2.2
  · intro name
    rw [(support_rules_tuple [] name (some (renderVersion a b c))).2 _ rfl]
    constructor
    · rintro (h | h | ⟨hk, t, hvt, hge⟩)
      · exact Or.inl h
      · exact Or.inr (Or.inl h)
      · rw [versionTuple_render] at hvt
        injection hvt with hvt
        subst hvt
        exact Or.inr (Or.inr ⟨hk, (version_ge_konsole a b c).1 hge⟩)
    · rintro (h | h | ⟨hk, h⟩)
      · exact Or.inl h
      · exact Or.inr (Or.inl h)
      · exact Or.inr (Or.inr ⟨hk, _, versionTuple_render a b c, (version_ge_konsole a b c).2 h⟩)

/-- AUTO ORDER: `auto_image_class()` returns the first supported style of `_styles` =
    kitty, then iterm2, then block — block also when nothing is supported. -/
theorem auto_order (sup : Style → Bool) :
    Generated.styles = [Style.kitty, Style.iterm2, Style.block].map Style.name ∧
    autoClass sup [Style.kitty, Style.iterm2, Style.block] =
      some (if sup .kitty then .kitty else if sup .iterm2 then .iterm2 else .block) := by
  refine ⟨by decide, ?_⟩
  cases h1 : sup .kitty <;> cases h2 : sup .iterm2 <;> simp [autoClass, h1, h2]

/-! ## defaults: no reply, queries disabled -/

/-- NO REPLY: a terminal that answers nothing. Colours undetermined, name/version from the
    environment, cell size undetermined (ioctl without pixels), kitty unsupported, each
    within the timeout, and the automatic style falls to iterm2/block by the environment name. -/
theorem no_reply_defaults (T : Nat) (w : Stream) (hw : ∀ x ∈ w, x.1 = 0) (envName envVer : Option Bytes) :
    getFgBgColors true T w [] = (.ok (none, none), (getFgBgColors true T w []).2.1, []) ∧
    (getFgBgColors true T w []).2.1 ≤ T ∧
    getNameVersion true T w [] envName envVer =
      ((envName.map lower, envVer), (getNameVersion true T w [] envName envVer).2.1, []) ∧
    (getNameVersion true T w [] envName envVer).2.1 ≤ T ∧
    (∀ cols rows swap termux, 0 < cols →
      (getCellSize true T w [] cols rows (some (0, 0)) swap termux).1 = .ok none ∧
      (getCellSize true T w [] cols rows (some (0, 0)) swap termux).2.1 ≤ T) ∧
    (∀ name ver, (kittySupported true T w [] name ver).1 = false ∧
      (kittySupported true T w [] name ver).2.1 ≤ T) := by
  have hq : ∀ more, queryTerminal true more T w [] =
      (some [], (readLoop more T 0 [] []).2.1, []) := by
    intro more
    rw [queryTerminal_eq more T w [] hw]
    simp only [readLoop]; split <;> rfl
  have hqt := fun more => queryTerminal_time true more T w []
  refine ⟨?_, ?_, ?_, ?_, ?_, ?_⟩
  · simp [getFgBgColors, queryThenDrain, hq, parseColors, readAvail]
  · simpa [getFgBgColors, queryThenDrain] using hqt moreCSI
  · simp [getNameVersion, queryThenDrain, hq, parseNameVersion, readAvail]
  · simpa [getNameVersion, queryThenDrain] using hqt moreCSI
  · intro cols rows swap termux hc
    have hcr : (cols == 0 && rows == 0) = false := by simp; omega
    constructor
    · simp [getCellSize, hcr, hq]
    · have := hqt moreC
      simp only [getCellSize, hcr]
      simpa [hq] using this
  · intro name ver
    by_cases hn : (name == some sIterm2) = true
    · simp [kittySupported, hn]
    · have hn' : (name == some sIterm2) = false := by simpa using hn
      constructor
      · simp [kittySupported, hn', hq, kittyDecision]
      · simpa [kittySupported, hn'] using hqt moreC

/-- QUERIES DISABLED: nothing is written or read (zero ticks, pending input untouched) and the
    documented defaults come back. -/
theorem disabled_immediate (T : Nat) (w arr : Stream) (envName envVer : Option Bytes) :
    getFgBgColors false T w arr = (.ok (none, none), 0, w) ∧
    getNameVersion false T w arr envName envVer = ((envName.map lower, envVer), 0, w) ∧
    (∀ cols rows swap termux,
      (getCellSize false T w arr cols rows (some (0, 0)) swap termux) = (.ok none, 0, w)) ∧
    (∀ name ver, kittySupported false T w arr name ver = (false, 0, w)) := by
  refine ⟨?_, ?_, ?_, ?_⟩
  · simp [getFgBgColors, queryThenDrain, queryTerminal, parseColors]
  · simp [getNameVersion, queryThenDrain, queryTerminal, parseNameVersion]
  · intro cols rows swap termux
    by_cases hcr : (cols == 0 && rows == 0) = true
    · simp [getCellSize, hcr]
    · simp [getCellSize, hcr, queryTerminal]
  · intro name ver
    by_cases hn : (name == some sIterm2) = true
    · simp [kittySupported, hn]
    · simp [kittySupported, hn, queryTerminal, kittyDecision]

/-! ## non-vacuity: concrete, non-trivial instances of the hypotheses -/

/-- `rgb:f/80/ffff` scales per component: (255, 128, 255) -/
example : xParseColor [102, 47, 56, 48, 47, 102, 102, 102, 102] = .ok (255, 128, 255) := by rfl

/-- a colour reply split in the middle of the specification, 3 ticks apart, DA1 as a unit -/
example :
    (getFgBgColors true 10 [] (ofBursts 0
      [(1, [27, 93, 49, 48, 59, 114, 103, 98, 58, 102, 47]), (3, [48, 47, 97, 7]), (2, [27, 91, 63, 54, 99])])).1
      = .ok (some (255, 0, 170), none) := by rfl

example : CReply.Ok ⟨[102], [48, 48], [65, 98, 67], [7]⟩ := by
  refine ⟨⟨by simp, by decide⟩, ⟨by simp, by decide⟩, ⟨by simp, by decide⟩, Or.inr rfl⟩

example : matchXtversion (xtReply sKitty [48, 46, 50, 54, 46, 53] true [27, 92] ++ csi)
    = some (sKitty, [48, 46, 50, 54, 46, 53]) := by decide

example : kittyDecision (some (kittyOkReply ++ [27, 91, 63, 54, 99])) (some sKitty) (some [48, 46, 50, 48, 46, 48]) = true := by
  decide

example : kittyDecision (some (kittyOkReply ++ [27, 91, 63, 54, 99])) (some sKitty) (some [48, 46, 49, 57, 46, 51]) = false := by
  decide


/-- `renderVersion 0 20 0` is the string `0.20.0`, `renderVersion 22 4 0` is `22.4.0` -/
example : renderVersion 0 20 0 = [48, 46, 50, 48, 46, 48] ∧ renderVersion 22 4 0 = [50, 50, 46, 52, 46, 48] := by
  decide

example : itermSupported (some sKonsole) (some (renderVersion 22 3 9)) = .ok false := by rfl

end TIV.C12
