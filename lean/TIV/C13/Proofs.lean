import TIV.C13.Model
/-! # C13 — helper lemmas about the interpreter -/
namespace TIV.C13
open Prog

variable {α : Type}

theorem toK_toPy (A : KAttrs α) : A.toPy.toK = A := by
  cases A; simp [KAttrs.toPy, PyAttrs.toK]

/-! ## budget bookkeeping -/

theorem step_fired (t' : Tag) (a : Act) (t : Tag) (w : World α) :
    (step t' a (.fired t) w).b = .fired t := by
  unfold step; split <;> rfl

theorem run_fired (p : Prog) (t : Tag) (w : World α) : (run p (.fired t) w).b = .fired t := by
  induction p generalizing w with
  | skip => rfl
  | raise e => rfl
  | ret => rfl
  | act t' a => exact step_fired t' a t w
  | seq p q ihp ihq =>
    simp only [run]
    split
    · rw [ihp]; exact ihq _
    · exact ihp _
  | tryFinally p f ihp ihf =>
    simp only [run]
    split
    · rw [ihp]; exact ihf _
    · rw [ihp]; exact ihf _
  | tryExcept p c h ihp ihh =>
    simp only [run]
    split
    · split
      · rw [ihp]; exact ihh _
      · exact ihp _
    · exact ihp _
  | ifFlag p q ihp ihq =>
    simp only [run]; split
    · exact ihp _
    · exact ihq _
  | call p ih =>
    simp only [run]; split
    · exact ih _
    · exact ih _


theorem step_never (t' : Tag) (a : Act) (w : World α) :
    (step t' a .never w).b = .never ∧ (step t' a .never w).out = .normal := by
  unfold step; split <;> exact ⟨rfl, rfl⟩

theorem run_never (p : Prog) (w : World α) : (run p .never w).b = .never := by
  induction p generalizing w with
  | skip => rfl
  | raise e => rfl
  | ret => rfl
  | act t' a => exact (step_never t' a w).1
  | seq p q ihp ihq =>
    simp only [run]
    split
    · rw [ihp]; exact ihq _
    · exact ihp _
  | tryFinally p f ihp ihf =>
    simp only [run]
    split
    · rw [ihp]; exact ihf _
    · rw [ihp]; exact ihf _
  | tryExcept p c h ihp ihh =>
    simp only [run]
    split
    · split
      · rw [ihp]; exact ihh _
      · exact ihp _
    · exact ihp _
  | ifFlag p q ihp ihq =>
    simp only [run]; split
    · exact ihp _
    · exact ihq _
  | call p ih =>
    simp only [run]; split
    · exact ih _
    · exact ih _

/-! ## a generic preservation principle

If every action allowed by `ok` takes the world to a related world (for a reflexive, transitive
relation), then so does every program made of allowed actions — whatever the fault plan. -/
theorem run_rel (R : World α → World α → Prop) (hrefl : ∀ x, R x x)
    (htrans : ∀ x y z, R x y → R y z → R x z) (ok : Tag → Act → Bool)
    (hstep : ∀ t a b w, ok t a = true → R w (step t a b w).w)
    (p : Prog) (hp : p.all ok = true) (b : Budget) (w : World α) : R w (run p b w).w := by
  induction p generalizing b w with
  | skip => exact hrefl _
  | raise e => exact hrefl _
  | ret => exact hrefl _
  | act t a => exact hstep t a b w hp
  | seq p q ihp ihq =>
    simp only [Prog.all, Bool.and_eq_true] at hp
    simp only [run]
    split
    · exact htrans _ _ _ (ihp hp.1 b w) (ihq hp.2 _ _)
    · exact ihp hp.1 b w
  | tryFinally p f ihp ihf =>
    simp only [Prog.all, Bool.and_eq_true] at hp
    simp only [run]
    split <;> exact htrans _ _ _ (ihp hp.1 b w) (ihf hp.2 _ _)
  | tryExcept p c h ihp ihh =>
    simp only [Prog.all, Bool.and_eq_true] at hp
    simp only [run]
    split
    · split
      · exact htrans _ _ _ (ihp hp.1 b w) (ihh hp.2 _ _)
      · exact ihp hp.1 b w
    · exact ihp hp.1 b w
  | ifFlag p q ihp ihq =>
    simp only [Prog.all, Bool.and_eq_true] at hp
    simp only [run]; split
    · exact ihp hp.1 b w
    · exact ihq hp.2 b w
  | call p ih =>
    simp only [Prog.all] at hp
    simp only [run]; split
    · exact ih hp b w
    · exact ih hp b w

theorem step_w (t : Tag) (a : Act) (b : Budget) (w : World α) :
    ((step t a b w).w.attrs = (applyAct w a).attrs ∧ (step t a b w).w.regs = (applyAct w a).regs) ∨
    ((step t a b w).w.attrs = w.attrs ∧ (step t a b w).w.regs = w.regs) := by
  unfold step
  split
  · exact Or.inl ⟨rfl, rfl⟩
  · split
    · rename_i e after
      cases after
      · exact Or.inr ⟨rfl, rfl⟩
      · exact Or.inl ⟨rfl, rfl⟩
    · exact Or.inl ⟨rfl, rfl⟩
    · exact Or.inl ⟨rfl, rfl⟩

/-- a program that never assigns `v` leaves `v` as it was, under every fault plan -/
theorem run_regs (v : Var) (p : Prog) (hp : p.neverAssigns v = true) (b : Budget) (w : World α) :
    (run p b w).w.regs v = w.regs v := by
  refine run_rel (fun x y => y.regs v = x.regs v) (fun _ => rfl)
    (fun x y z h1 h2 => h2.trans h1) (fun _ a => !a.assigns v) ?_ p hp b w
  intro t a b w hok
  have hreg : (applyAct w a).regs v = w.regs v := by
    cases a <;> simp_all [applyAct, World.setReg, Act.assigns] <;> (intro h; simp_all)
  rcases step_w t a b w with h | h
  · rw [h.2]; exact hreg
  · rw [h.2]

/-- a program that never calls `tcsetattr` leaves the terminal attributes as they were -/
theorem run_attrs (p : Prog) (hp : p.neverSets = true) (b : Budget) (w : World α) :
    (run p b w).w.attrs = w.attrs := by
  refine run_rel (fun x y => y.attrs = x.attrs) (fun _ => rfl)
    (fun x y z h1 h2 => h2.trans h1) (fun _ a => !a.isTcset) ?_ p hp b w
  intro t a b w hok
  have hat : (applyAct w a).attrs = w.attrs := by
    cases a <;> simp_all [applyAct, World.setReg, Act.isTcset]
  rcases step_w t a b w with h | h
  · rw [h.1]; exact hat
  · rw [h.1]


/-! ## structure lemmas -/

theorem run_seq_normal (p q : Prog) (b : Budget) (w : World α) (h : (run p b w).out = .normal) :
    run (p ;; q) b w = run q (run p b w).b (run p b w).w := by
  simp only [run, h]

theorem run_seq_abrupt (p q : Prog) (b : Budget) (w : World α) (h : (run p b w).out ≠ .normal) :
    run (p ;; q) b w = run p b w := by
  cases hr : (run p b w).out with
  | normal => exact absurd hr h
  | returned => simp only [run, hr]
  | raised e => simp only [run, hr]

theorem run_tryFinally_w (p f : Prog) (b : Budget) (w : World α) :
    (run (tryFinally p f) b w).w = (run f (run p b w).b (run p b w).w).w := by
  simp only [run]; split <;> rfl

theorem run_tryFinally_b (p f : Prog) (b : Budget) (w : World α) :
    (run (tryFinally p f) b w).b = (run f (run p b w).b (run p b w).w).b := by
  simp only [run]; split <;> rfl

theorem step_inert (t : Tag) (a : Act) (ha : a.inert = true) (b : Budget) (w : World α) :
    (step t a b w).w.attrs = w.attrs ∧ (step t a b w).w.regs = w.regs ∧
    ((step t a b w).out = .normal ∨ (step t a b w).b = .fired t) := by
  have h1 : (applyAct w a).attrs = w.attrs := by cases a <;> simp_all [applyAct, Act.inert]
  have h2 : (applyAct w a).regs = w.regs := by cases a <;> simp_all [applyAct, Act.inert]
  unfold step
  split
  · exact ⟨h1, h2, Or.inl rfl⟩
  · split
    · rename_i e after
      refine ⟨?_, ?_, Or.inr rfl⟩ <;> cases after <;> simp [World.log, h1, h2]
    · exact ⟨h1, h2, Or.inl rfl⟩
    · exact ⟨h1, h2, Or.inl rfl⟩

/-- a straight block of inert actions tagged `t`: attributes and locals are untouched, and it
    either completes or the fault fired in it (at tag `t`) -/
theorem run_straight (t : Tag) (p : Prog) (hp : p.straight t = true) (b : Budget) (w : World α) :
    (run p b w).w.attrs = w.attrs ∧ (run p b w).w.regs = w.regs ∧
    ((run p b w).out = .normal ∨ (run p b w).b = .fired t) := by
  induction p generalizing b w with
  | skip => exact ⟨rfl, rfl, Or.inl rfl⟩
  | act t' a =>
    simp only [Prog.straight, Bool.and_eq_true, beq_iff_eq] at hp
    obtain ⟨rfl, ha⟩ := hp
    exact step_inert t' a ha b w
  | seq p q ihp ihq =>
    simp only [Prog.straight, Bool.and_eq_true] at hp
    obtain ⟨hp1, hp2, hp3⟩ := ihp hp.1 b w
    by_cases hn : (run p b w).out = .normal
    · rw [run_seq_normal p q b w hn]
      obtain ⟨hq1, hq2, hq3⟩ := ihq hp.2 (run p b w).b (run p b w).w
      exact ⟨hq1.trans hp1, hq2.trans hp2, hq3⟩
    · rw [run_seq_abrupt p q b w hn]
      exact ⟨hp1, hp2, hp3⟩
  | raise e => simp [Prog.straight] at hp
  | ret => simp [Prog.straight] at hp
  | tryFinally p f _ _ => simp [Prog.straight] at hp
  | tryExcept p c h _ _ => simp [Prog.straight] at hp
  | ifFlag p q _ _ => simp [Prog.straight] at hp
  | call p _ => simp [Prog.straight] at hp

/-- the restoring `tcsetattr` itself: unless the fault lands on it, the attributes become what
    the variable holds -/
theorem step_tcset (t : Tag) (wh : When) (v : Var) (b : Budget) (w : World α)
    (hb : (step t (.tcset wh v) b w).b ≠ .fired t) :
    (step t (.tcset wh v) b w).w.attrs = (w.regs v).toK ∧ (step t (.tcset wh v) b w).out = .normal ∧
    (step t (.tcset wh v) b w).w.regs = w.regs := by
  cases b with
  | never => exact ⟨rfl, rfl, rfl⟩
  | fired t' => exact ⟨rfl, rfl, rfl⟩
  | pending k e after =>
    cases k with
    | zero => exact absurd rfl hb
    | succ k => exact ⟨rfl, rfl, rfl⟩

/-- THE MASTER LEMMA.  `pre ;; try: body finally: finPre ;; tcsetattr(when, vOld) ;; finPost`
    where `pre` captures the attributes in `vOld` without changing them, `body` is ANY program
    that does not assign `vOld`, `finPre` is a straight block of inert actions: under every
    fault plan whose fault does not land on an action tagged `t` (the clean-up), the terminal
    attributes at the end are the ones at the start. -/
theorem guarded_restore (vOld : Var) (t : Tag) (wh : When) (pre body finPre finPost : Prog)
    (hpre : pre.neverSets = true)
    (hcap : ∀ (b : Budget) (w : World α), (run pre b w).out = .normal →
        (run pre b w).w.regs vOld = w.attrs.toPy)
    (hbody : body.neverAssigns vOld = true) (hfp : finPre.straight t = true)
    (hpost : finPost.neverSets = true) (b : Budget) (w : World α)
    (hb : (run (pre ;; tryFinally body (finPre ;; act t (.tcset wh vOld) ;; finPost)) b w).b ≠ .fired t) :
    (run (pre ;; tryFinally body (finPre ;; act t (.tcset wh vOld) ;; finPost)) b w).w.attrs = w.attrs := by
  have hpa := run_attrs pre hpre b w
  by_cases hn : (run pre b w).out = .normal
  · rw [run_seq_normal _ _ b w hn] at hb ⊢
    rw [run_tryFinally_b] at hb
    rw [run_tryFinally_w]
    generalize hr1 : run pre b w = r1 at *
    have hold : (run body r1.b r1.w).w.regs vOld = w.attrs.toPy := by
      rw [run_regs vOld body hbody]; rw [← hr1]; exact hcap b w (by rw [hr1]; exact hn)
    generalize run body r1.b r1.w = r2 at *
    obtain ⟨_, hs2, hs3⟩ := run_straight t finPre hfp r2.b r2.w
    by_cases hn3 : (run finPre r2.b r2.w).out = .normal
    · rw [run_seq_normal _ _ _ _ hn3] at hb ⊢
      generalize run finPre r2.b r2.w = r3 at *
      by_cases hn4 : (run (act t (.tcset wh vOld)) r3.b r3.w).out = .normal
      · rw [run_seq_normal _ _ _ _ hn4] at hb ⊢
        rw [run_attrs finPost hpost]
        have hb4 : (step t (.tcset wh vOld) r3.b r3.w).b ≠ .fired t := by
          intro h
          apply hb
          have : (run (act t (.tcset wh vOld)) r3.b r3.w).b = .fired t := h
          rw [this]; exact run_fired _ _ _
        have := (step_tcset t wh vOld r3.b r3.w hb4).1
        show (step t (.tcset wh vOld) r3.b r3.w).w.attrs = w.attrs
        rw [this, hs2, hold, toK_toPy]
      · rw [run_seq_abrupt _ _ _ _ hn4] at hb
        exact absurd (step_tcset t wh vOld r3.b r3.w hb).2.1 hn4
    · rw [run_seq_abrupt _ _ _ _ hn3] at hb
      rcases hs3 with h | h
      · exact absurd h hn3
      · exact absurd h hb
  · rw [run_seq_abrupt _ _ b w hn]
    exact hpa


/-! ## the loops and the three `pre` blocks -/

theorem inert_not_assigns (v : Var) (a : Act) (h : a.inert = true) : (!a.assigns v) = true := by
  cases a <;> simp_all [Act.inert, Act.assigns]

theorem nbLoop_all (ok : Tag → Act → Bool) (h : ∀ a, a.inert = true → ok .plain a = true) (n : Nat) :
    (nbLoop n).all ok = true := by
  induction n with
  | zero => exact h _ rfl
  | succ n ih => simp [nbLoop, Prog.all, ih, h _ (rfl : (Act.select .zero).inert = true),
      h _ (rfl : (Act.read 100).inert = true)]

theorem timedLoop_all (ok : Tag → Act → Bool) (h : ∀ a, a.inert = true → ok .plain a = true)
    (neg : Bool) (steps : List Bool) (en : Ending) : (timedLoop neg steps en).all ok = true := by
  induction steps with
  | nil =>
    cases en <;> simp [timedLoop, Prog.all, h _ (rfl : Act.more.inert = true)]
  | cons r rest ih =>
    have h1 := h _ (rfl : Act.more.inert = true)
    have h2 := h _ (rfl : Act.clock.inert = true)
    have h3 := h _ (rfl : (Act.read 1).inert = true)
    have h4 := h _ (rfl : (Act.select .inf).inert = true)
    have h5 := h _ (rfl : (Act.select .pos).inert = true)
    cases r <;> cases neg <;> simp [timedLoop, Prog.all, ih, h1, h2, h3, h4, h5]

theorem animLoop_all (ok : Tag → Act → Bool) (h : ∀ a, a.inert = true → ok .plain a = true) (n : Nat) :
    (animLoop n).all ok = true := by
  induction n with
  | zero => rfl
  | succ n ih =>
    simp [animLoop, Prog.all, ih, h _ (rfl : Act.render.inert = true), h _ (rfl : Act.sleep.inert = true),
      h _ (rfl : (Act.owrite .frame).inert = true), h _ (rfl : (Act.owrite .move).inert = true),
      h _ (rfl : Act.oflush.inert = true), h _ (rfl : Act.handle.inert = true)]

/-- `read_tty`'s `try` block never assigns `old_attr`, nor anything of another activation -/
theorem readTry_neverAssigns (v : Var) (hv : v ≠ .rtNew) (min : Nat) (s : Script) :
    (readTry min s).neverAssigns v = true := by
  have hl := fun n => nbLoop_all (fun _ a => !a.assigns v) (inert_not_assigns v) n
  have ht := fun neg st en => timedLoop_all (fun _ a => !a.assigns v) (inert_not_assigns v) neg st en
  cases s with
  | nonblock n =>
    simp only [readTry, readBody, Prog.neverAssigns, Prog.all, hl]
    simp [Act.assigns]
  | timed neg steps en =>
    by_cases hm : min > 0
    · simp only [readTry, readBody, Prog.neverAssigns, Prog.all, ht, if_pos hm]
      simp [Act.assigns]
      exact fun h => hv h.symm
    · simp only [readTry, readBody, Prog.neverAssigns, Prog.all, ht, if_neg hm]
      simp [Act.assigns]

theorem readTty_neverAssigns (v : Var) (h1 : v ≠ .rtNew) (h2 : v ≠ .rtOld) (min : Nat) (echo : Bool)
    (s : Script) : (readTty min echo s).neverAssigns v = true := by
  have := readTry_neverAssigns v h1 min s
  simp only [Prog.neverAssigns] at this
  cases v <;> simp_all [readTty, readPre, readFin, Prog.neverAssigns, Prog.all, Act.assigns]

/-- two `tcgetattr` calls then edits of the second list: if the block completes, the first
    variable holds the attributes the terminal had (and still has) -/
theorem capture (vOld vNew : Var) (hne : vNew ≠ vOld) (edits : Prog)
    (he : edits.neverAssigns vOld = true) (b : Budget) (w : World α)
    (hn : (run (act .plain (.tcget vOld) ;; act .plain (.tcget vNew) ;; edits) b w).out = .normal) :
    (run (act .plain (.tcget vOld) ;; act .plain (.tcget vNew) ;; edits) b w).w.regs vOld = w.attrs.toPy := by
  have key : ∀ (b' : Budget), (step .plain (.tcget vOld) b' w).out = .normal →
      (step .plain (.tcget vOld) b' w).w.regs vOld = w.attrs.toPy := by
    intro b' h
    cases b' with
    | never => simp [step, Act.pure, applyAct, World.setReg, World.log]
    | fired t => simp [step, Act.pure, applyAct, World.setReg, World.log]
    | pending k e after =>
      cases k with
      | zero => simp [step, Act.pure] at h
      | succ k => simp [step, Act.pure, applyAct, World.setReg, World.log]
  by_cases h1 : (run (act .plain (.tcget vOld)) b w).out = .normal
  · rw [run_seq_normal _ _ _ _ h1] at hn ⊢
    have k1 := key b h1
    generalize hr1 : run (act .plain (.tcget vOld)) b w = r1 at *
    have k1' : r1.w.regs vOld = w.attrs.toPy := by rw [← hr1]; exact k1
    have h2r : (run (act .plain (.tcget vNew)) r1.b r1.w).w.regs vOld = r1.w.regs vOld :=
      run_regs vOld _ (by simp [Prog.neverAssigns, Prog.all, Act.assigns, hne]) _ _
    by_cases h2 : (run (act .plain (.tcget vNew)) r1.b r1.w).out = .normal
    · rw [run_seq_normal _ _ _ _ h2] at hn ⊢
      rw [run_regs vOld edits he, h2r, k1']
    · rw [run_seq_abrupt _ _ _ _ h2] at hn
      exact absurd hn h2
  · rw [run_seq_abrupt _ _ _ _ h1] at hn
    exact absurd hn h1


/-! ## fault-free outcomes -/

def Ending.outcome : Ending → Outcome
  | .moreRaises e => .raised e
  | _ => .normal

def Script.outcome : Script → Outcome
  | .nonblock _ => .normal
  | .timed _ _ en => en.outcome

theorem run_act_never (t : Tag) (a : Act) (w : World α) :
    (run (act t a) .never w).b = .never ∧ (run (act t a) .never w).out = .normal := step_never t a w

theorem seq_act_never (t : Tag) (a : Act) (q : Prog) (w : World α) :
    run (act t a ;; q) .never w = run q .never (run (act t a) .never w).w := by
  rw [run_seq_normal _ _ _ _ (run_act_never t a w).2, (run_act_never t a w).1]

theorem skip_seq (q : Prog) (b : Budget) (w : World α) : run (skip ;; q) b w = run q b w := rfl

theorem nbLoop_never (n : Nat) (w : World α) : (run (nbLoop n) .never w).out = .normal := by
  induction n generalizing w with
  | zero => exact (run_act_never _ _ w).2
  | succ n ih => simp only [nbLoop, seq_act_never]; exact ih _

theorem timedLoop_never (neg : Bool) (steps : List Bool) (en : Ending) (w : World α) :
    (run (timedLoop neg steps en) .never w).out = en.outcome := by
  induction steps generalizing w with
  | nil =>
    cases en with
    | timeUp => rfl
    | moreFalse => exact (run_act_never _ _ w).2
    | moreRaises e => simp only [timedLoop, seq_act_never]; rfl
  | cons r rest ih =>
    cases r
    · simp only [timedLoop, seq_act_never, Bool.false_eq_true, if_false, skip_seq]
      exact ih _
    · simp only [timedLoop, seq_act_never, if_true]
      exact ih _

theorem readBody_never (min : Nat) (s : Script) (w : World α) :
    (run (readBody min s) .never w).out = s.outcome := by
  cases s with
  | nonblock n => exact nbLoop_never n w
  | timed neg steps en =>
    by_cases hm : min > 0
    · simp only [readBody, if_pos hm, seq_act_never]
      rw [run_seq_normal]
      · simp only [seq_act_never]; exact timedLoop_never ..
      · simp only [seq_act_never]; exact (run_act_never ..).2
    · simp only [readBody, if_neg hm, seq_act_never, skip_seq]
      exact timedLoop_never ..

theorem readTty_never_out (min : Nat) (echo : Bool) (s : Script) (w : World α) :
    (run (readTty min echo s) .never w).out = s.outcome := by
  have hpre : (run (readPre min echo s) .never w).out = .normal := by
    simp only [readPre, seq_act_never]; exact (run_act_never ..).2
  unfold readTty
  rw [run_seq_normal _ _ _ _ hpre, run_never]
  generalize (run (readPre min echo s) .never w).w = w1
  simp only [run, readTry, readFin, step_never]
  generalize (step Tag.plain (Act.tcset When.now Var.rtNew) Budget.never w1).w = w2
  have hn := run_never (readBody min s) w2
  have hb := readBody_never min s w2
  generalize run (readBody min s) .never w2 = r at *
  obtain ⟨rw', rb, ro⟩ := r
  simp only at hn hb
  subst hn hb
  simp [step_never]

/-! ## concrete instances used by the non-vacuity examples in Props -/

/-- canonical mode, echo on, VMIN = 1, VTIME = 0 -/
def exA : KAttrs Unit := ⟨(), true, true, 1, 0⟩
/-- raw mode, echo off, VMIN = 4, VTIME = 10 -/
def exRaw : KAttrs Unit := ⟨(), false, false, 4, 10⟩
def exW (A : KAttrs Unit) : World Unit := World.init A (fun _ => ⟨(), false, true, 9, 9⟩)

end TIV.C13
